/-
  C10 — A remote iterator delivers exactly the server's items, once, in order.

  Sequential part (quantifiers "histories", "configurations"): theorems about every history of
  open / next / close / disconnect / housekeeping / tick operations on the stream table
  (PyroModel/Streams.lean), for every setting of streaming, lifetime and linger, and about the client
  iterator driving it.  Concurrent part (quantifier "schedules"): theorems about every interleaving
  of the micro-steps of concurrently running calls (PyroModel/StreamsRace.lean).
  The facts about the source that the models rest on are re-extracted on every run
  (PyroModel/Gen/C10.lean) and checked by the `C10_gen_*` obligations.
-/
import PyroModel.Streams
import PyroModel.StreamsRace
import PyroModel.Gen.C10
import PyroProofs.Streams
import PyroProofs.StreamsRace
import PyroProofs.Lock

namespace Pyro.C10

open Pyro Pyro.Streams

/-! ## obligations about the extracted facts

  The facts are obtained by PROBING the real code at extraction time (harness/props/c10_probe.py): the real
  methods are called on prepared stream tables under a controlled clock, with recording / vanishing
  stand-ins for the dict and the lock.  They do not depend on how the source is spelled. -/

/-- the model's answer to a housekeeping probe row: which of the entries survive `doHousekeeping` -/
def hkModel (row : Int × Int × Nat × List (Option Nat × Nat × Nat) × List Bool) : List Bool :=
  let es := row.2.2.2.1
  let table : Table := (List.range es.length).zip es |>.map fun p =>
    (p.1, { owner := p.2.1, created := p.2.2.1, linger := p.2.2.2, rest := [] })
  let st := doHousekeeping { streaming := true, lifetime := row.1, linger := row.2.1 }
    { table := table, now := row.2.2.1, nextId := es.length }
  (List.range es.length).map fun i => (st.table.get i).isSome

/-- the model's answer to a disconnect probe row: per entry removed, or (owner, linger start) -/
def discModel (row : Int × Nat × List (Option Nat × Nat × Nat) × List (Option (Option Nat × Nat))) :
    List (Option (Option Nat × Nat)) :=
  let es := row.2.2.1
  let table : Table := (List.range es.length).zip es |>.map fun p =>
    (p.1, { owner := p.2.1, created := p.2.2.1, linger := p.2.2.2, rest := [] })
  let st := doDisconnect { streaming := true, lifetime := 0, linger := row.1 }
    { table := table, now := row.2.1, nextId := es.length } 0
  (List.range es.length).map fun i => (st.table.get i).map fun e => (e.owner, e.linger)

/-- **C10_gen_expiry_probe.**  On every probed table (5 settings of lifetime / linger incl. disabled and
    negative; entries with and without owner, created exactly at / one before / one after the lifetime
    boundary, linger start 0 / at / before / after the linger boundary; the empty table) one real
    `_housekeeping()` pass keeps exactly the entries `doHousekeeping` keeps. -/
theorem C10_gen_expiry_probe :
    Pyro.Gen.C10.hkProbe.length = 10 ∧ ∀ row ∈ Pyro.Gen.C10.hkProbe, hkModel row = row.2.2.2.2 := by
  decide

/-- **C10_gen_disconnect_probe.**  On the probed tables (linger 0 / 4 / −3; entries owned by the ending
    connection, by another one, by nobody; lingering or not) one real `_clientDisconnect` leaves exactly
    what `doDisconnect` leaves (dropped, or owner `None` with linger start = now, or untouched). -/
theorem C10_gen_disconnect_probe :
    Pyro.Gen.C10.discProbe.length = 3 ∧ ∀ row ∈ Pyro.Gen.C10.discProbe, discModel row = row.2.2.2 := by
  decide

/-- **C10_gen_facts.**  Every probe could be completed; an `Exception` raised by `next(stream)` (StopIteration included) removes the stream
    and reaches the caller unchanged; the proxy's sequence number wraps after 65535; the client iterator
    drops its proxy exactly after StopIteration / GeneratorExit; a user hook `clientDisconnect(conn)` that
    raises is called once and cannot skip the stream bookkeeping (`Settings.hookFails` only changes the
    reply of `disconnect`). -/
theorem C10_gen_facts :
    Pyro.Gen.C10.probeErrors = [] ∧ Pyro.Gen.C10.nextRemovesAndReraises = true ∧ Pyro.Gen.C10.seqMask = 65535 ∧
    Pyro.Gen.C10.hookCannotSkipBookkeeping = true ∧
    Pyro.Gen.C10.clientDropsProxyOn = ["StopIteration", "GeneratorExit"] := by
  decide

/-- **C10_gen_removal_tolerant.**  Each of the five places that remove a stream from the table —
    `get_next_stream_item`, `close_stream`, `_clientDisconnect` and the lifetime and linger loops of
    `_housekeeping` — survives the stream having been removed by another thread between its lookup and
    its removal (probed with a table whose keys vanish after being looked up).  This is the premise of
    `C10_sched_no_masking` / `C10_sched_cleanup_total` (false for `del`, see `C10_sched_strict_masks`). -/
theorem C10_gen_removal_tolerant :
    Pyro.Gen.C10.removalTolerant.map (·.1) =
      ["get_next_stream_item", "close_stream", "_clientDisconnect", "_housekeeping/lifetime", "_housekeeping/linger"] ∧
    ∀ r ∈ Pyro.Gen.C10.removalTolerant, r.2 = true := by
  decide

/-- **C10_gen_environment.**  Two assumptions of the model about its environment, probed: (1) new streams
    get ids that are fresh even under an identical request context (same correlation id, connection,
    clock) — the model's counter; (2) housekeeping passes do occur on a running server, also a busy one:
    the multiplex server makes one after every batch of events and when idle, the thread-pool server's
    Housekeeper thread makes them (the model's `housekeeping` operation is an event the environment
    keeps supplying). -/
theorem C10_gen_environment :
    Pyro.Gen.C10.streamIdsFresh = true ∧ Pyro.Gen.C10.muxEventsHousekeeps = true ∧
    Pyro.Gen.C10.muxIdleHousekeeps = true ∧ Pyro.Gen.C10.threadHousekeeperRuns = true := by
  decide

/-- **C10_gen_housekeeping_locked.**  During a `_housekeeping()` pass every access of the stream table
    happens with `housekeeper_lock` held (premise of `C10_housekeeping_serial`). -/
theorem C10_gen_housekeeping_locked :
    Pyro.Gen.C10.hkAccessesUnlocked = 0 ∧ 0 < Pyro.Gen.C10.hkAccessesLocked := by
  decide

/-! ## histories -/

/-- **C10_prefix.**  After every history, under every setting: for every stream the server still
    remembers, the replies handed out for it so far (items and the iterator's own exception, in
    order) followed by what its iterator still holds are exactly the items of the iterator that was
    registered under that id — nothing lost, repeated, reordered or taken from another stream; and
    for every id whatsoever the replies handed out are a prefix of its source. -/
theorem C10_prefix (cfg : Settings) (t0 : Nat) (ops : List Op) :
    let r := exec cfg (State.init t0) ops
    (∀ id e, r.1.table.get id = some e → delivered id r.2 ++ e.rest = source id r.2) ∧
    (∀ id, delivered id r.2 <+: source id r.2) := by
  intro r
  have h : Streams.Inv r.1 r.2 := inv_reach cfg t0 ops
  exact ⟨h.live, h.pre⟩

/-- **C10_next_exact.**  After every history, the reply to `get_next_stream_item(id)` from any
    connection is determined by the stream's source and the number of replies already handed out:
    the next item in order, the iterator's exception at the position where it raises, StopIteration
    exactly when everything has been delivered — if the server still remembers the stream; otherwise
    the error "item stream terminated", with no effect. -/
theorem C10_next_exact (cfg : Settings) (t0 : Nat) (ops : List Op) (id conn : Nat) :
    let r := exec cfg (State.init t0) ops
    (∀ e, r.1.table.get id = some e →
      (doNext r.1 id conn).2 = expectedReply (source id r.2) (delivered id r.2).length) ∧
    (r.1.table.get id = none → doNext r.1 id conn = (r.1, .terminated)) := by
  intro r
  have h : Streams.Inv r.1 r.2 := inv_reach cfg t0 ops
  refine ⟨fun e he => ?_, fun hn => by simp only [doNext, hn]⟩
  have hl := h.live id e he
  have hdrop : (source id r.2).drop (delivered id r.2).length = e.rest := by
    rw [← hl]; simp
  simp only [doNext, he, expectedReply, hdrop]
  have hrest : (if e.owner.isNone = true then { e with owner := some conn, linger := 0 } else e).rest = e.rest := by
    split <;> rfl
  rw [hrest]
  cases e.rest with
  | nil => rfl
  | cons it tl => cases it <;> rfl

/-- **C10_end.**  A stream ends with StopIteration exactly when the server iterator is exhausted:
    the reply is StopIteration iff the stream is remembered and everything in its source has been
    handed out; and it is the exception `x` iff the stream is remembered and `raises x` is the next
    thing in its source. -/
theorem C10_end (cfg : Settings) (t0 : Nat) (ops : List Op) (id conn : Nat) :
    let r := exec cfg (State.init t0) ops
    ((doNext r.1 id conn).2 = .stop ↔ (∃ e, r.1.table.get id = some e) ∧ delivered id r.2 = source id r.2) ∧
    (∀ x, (doNext r.1 id conn).2 = .raised x ↔
      (∃ e, r.1.table.get id = some e) ∧ ∃ tl, source id r.2 = delivered id r.2 ++ .raises x :: tl) := by
  intro r
  have h : Streams.Inv r.1 r.2 := inv_reach cfg t0 ops
  cases hg : r.1.table.get id with
  | none => simp [doNext, hg]
  | some e =>
    have hl := h.live id e hg
    have hrest : (if e.owner.isNone = true then { e with owner := some conn, linger := 0 } else e).rest = e.rest := by
      split <;> rfl
    simp only [doNext, hg, hrest]
    cases hr : e.rest with
    | nil =>
      rw [hr] at hl
      refine ⟨by simp [← hl], fun x => ?_⟩
      simp only [reduceCtorEq, false_iff, not_and, not_exists]
      intro _ tl htl
      rw [← hl] at htl
      have := congrArg List.length htl
      simp at this
    | cons it tl =>
      rw [hr] at hl
      cases it with
      | val v =>
        refine ⟨?_, fun x => ?_⟩
        · simp only [reduceCtorEq, false_iff, not_and]
          intro _ heq
          rw [heq] at hl
          have := congrArg List.length hl
          simp at this
        · simp only [reduceCtorEq, false_iff, not_and, not_exists]
          intro _ tl' htl
          rw [← hl] at htl
          have := List.append_cancel_left htl
          simp at this
      | raises y =>
        refine ⟨?_, fun x => ?_⟩
        · simp only [reduceCtorEq, false_iff, not_and]
          intro _ heq
          rw [heq] at hl
          have := congrArg List.length hl
          simp at this
        · constructor
          · intro hx
            simp only [Res.raised.injEq] at hx
            subst hx
            exact ⟨⟨e, rfl⟩, tl, hl.symm⟩
          · intro ⟨_, tl', htl⟩
            rw [← hl] at htl
            have := List.append_cancel_left htl
            simp only [List.cons.injEq, Item.raises.injEq] at this
            rw [this.1]

/-- **C10_forgotten.**  Once the server has forgotten a stream it never serves it again: whatever
    happens afterwards, the id stays out of the table (ids are not reused) and every later
    `get_next_stream_item(id)`, from any connection, is answered with the error — never an item,
    never StopIteration. -/
theorem C10_forgotten (cfg : Settings) (t0 : Nat) (ops later : List Op) (id : Nat) :
    let r := exec cfg (State.init t0) ops
    r.1.table.get id = none → id < r.1.nextId →
    (exec cfg r.1 later).1.table.get id = none ∧
    ∀ x ∈ (exec cfg r.1 later).2, (∃ conn, x.1 = .next id conn) → x.2 = .terminated := by
  intro r hn hlt
  refine ⟨absent_exec cfg later r.1 id hn hlt, ?_⟩
  generalize r.1 = st at hn hlt
  induction later generalizing st with
  | nil => intro x hx; simp [exec] at hx
  | cons op rest ih =>
    intro x hx hop
    simp only [exec, List.mem_cons] at hx
    rcases hx with hx | hx
    · obtain ⟨conn, hc⟩ := hop
      rw [hx] at hc
      simp only at hc
      rw [hx, hc]
      simp only [step, doNext, hn]
    · exact ih _ (absent_step cfg st op id hn hlt) (Nat.lt_of_lt_of_le hlt (nextId_step cfg st op)) x hx hop

/-- **C10_forget_conditions.**  After every history, one more operation makes the server forget a
    remembered stream exactly under the conditions of the property: `next` finding its iterator
    exhausted or raising; `close_stream`; the end of its owning connection when no linger is
    configured (`linger ≤ 0`); a housekeeping pass when `0 < lifetime < now − created`, or when
    `linger > 0`, the stream lingers (`linger start ≠ 0`) and `now − linger start > linger`.
    No other operation removes it (in particular not the clock, and not an `open`). -/
theorem C10_forget_conditions (cfg : Settings) (t0 : Nat) (ops : List Op) (op : Op) (id : Nat) (e : Entry) :
    let r := exec cfg (State.init t0) ops
    r.1.table.get id = some e →
    ((step cfg r.1 op).1.table.get id = none ↔ forgetCond cfg r.1.now id e op) := by
  intro r hg
  have h : Streams.Inv r.1 r.2 := inv_reach cfg t0 ops
  exact forget_iff cfg r.1 op id e h.nodup (h.fresh _ (Nat.le_refl _)).1 hg

/-- **C10_resume.**  A stream whose connection has ended but which the server has not forgotten yet
    (it lingers: owner `None`) continues with the next undelivered item for whichever connection
    asks next — by `C10_next_exact` — and that connection becomes its owner with the linger start
    cleared, so that a later housekeeping pass does not expire it as lingering. -/
theorem C10_resume (cfg : Settings) (t0 : Nat) (ops : List Op) (id conn : Nat) (e : Entry) :
    let r := exec cfg (State.init t0) ops
    r.1.table.get id = some e → e.owner = none →
    (doNext r.1 id conn).2 = expectedReply (source id r.2) (delivered id r.2).length ∧
    ∀ v, (doNext r.1 id conn).2 = .item v →
      ∃ tl, e.rest = .val v :: tl ∧
        (doNext r.1 id conn).1.table.get id = some { owner := some conn, created := e.created, linger := 0, rest := tl } := by
  intro r hg ho
  refine ⟨(C10_next_exact cfg t0 ops id conn).1 e hg, fun v hv => ?_⟩
  simp only [doNext, hg, ho, Option.isNone_none, if_true] at hv ⊢
  cases hr : e.rest with
  | nil => rw [hr] at hv; cases hv
  | cons it tl =>
    rw [hr] at hv
    cases it with
    | raises x => cases hv
    | val w =>
      simp only [Res.item.injEq] at hv
      subst hv
      exact ⟨tl, rfl, get_set_self _ _ _⟩

/-- **C10_quiescent.**  At quiescence the table is empty: if every stream that was ever opened has,
    after its opening, been exhausted, failed or closed (a `next` answered StopIteration or the
    iterator's exception, or a `close_stream`), then the server remembers nothing. -/
theorem C10_quiescent (cfg : Settings) (t0 : Nat) (ops : List Op) :
    let r := exec cfg (State.init t0) ops
    (∀ id, id < r.1.nextId → ∃ a x b, r.2 = a ++ x :: b ∧ Terminal id x ∧ ∃ y ∈ a, y.2 = Res.stream id) →
    r.1.table = [] := by
  intro r hall
  have h : Streams.Inv r.1 r.2 := inv_reach cfg t0 ops
  cases htab : r.1.table with
  | nil => rfl
  | cons p rest =>
    exfalso
    have hmem : p.1 ∈ r.1.table.keys := by rw [htab]; simp [Table.keys]
    have hlt : p.1 < r.1.nextId := by
      apply Nat.lt_of_not_le
      intro hle
      exact (get_none_iff _ _).mp (h.fresh p.1 hle).1 hmem
    obtain ⟨a, x, b, hsplit, hterm, y, hy, hys⟩ := hall p.1 hlt
    obtain ⟨opsA, opsB, hops, hA, hx⟩ := exec_split cfg a x b ops (State.init t0) hsplit
    have hopened : p.1 < (exec cfg (State.init t0) opsA).1.nextId :=
      opened_lt cfg opsA _ p.1 y (by rw [hA]; exact hy) hys
    have hgone : (step cfg (exec cfg (State.init t0) opsA).1 x.1).1.table.get p.1 = none :=
      terminal_step cfg _ x.1 p.1 (by rw [← hx]; exact hterm)
    have hfinal : r.1 = (exec cfg (step cfg (exec cfg (State.init t0) opsA).1 x.1).1 opsB).1 := by
      show (exec cfg (State.init t0) ops).1 = _
      rw [hops, exec_append]
      simp only [exec]
    have := absent_exec cfg opsB _ p.1 hgone (Nat.lt_of_lt_of_le hopened (nextId_step cfg _ x.1))
    rw [← hfinal] at this
    exact (get_none_iff _ _).mp this hmem

/-- **C10_expiry_empties.**  Also without any client finishing its stream the server forgets
    everything once connections are gone: after every history on a clock that started above zero, if
    every connection that owns a stream ends, more than the linger period passes and housekeeping
    runs once, the table is empty — with lingering configured (the streams linger and then expire)
    and without it (they are dropped at the disconnect). -/
theorem C10_expiry_empties (cfg : Settings) (t0 : Nat) (ops : List Op) (conns : List Nat) (dt : Nat) (ht0 : 0 < t0) :
    let r := exec cfg (State.init t0) ops
    (∀ p ∈ r.1.table, ∀ c, p.2.owner = some c → c ∈ conns) → cfg.linger < dt →
    (exec cfg r.1 (conns.map .disconnect ++ [.tick dt, .housekeeping])).1.table = [] :=
  fun hown hlg => expiry_empties cfg _ (tinv_exec cfg ops _ (tinv_init cfg t0 ht0)) conns dt hown hlg

/-! ## the client iterator -/

/-- **C10_client_refines.**  Whatever the clients do (calls returning iterators, `next`, `close`,
    unrelated calls, releasing and re-creating connections — with any initial sequence number and
    any mask), the server-side operations they cause form a history of the server model ending in
    the current table: every theorem above applies to what clients observe. -/
theorem C10_client_refines (cfg : Settings) (mask t0 nprox seq0 : Nat) (cops : List COp) :
    let s := (crun cfg mask (Sys.init t0 nprox seq0) cops).1
    exec cfg (State.init t0) (s.log.map (·.1)) = (s.srv, s.log) :=
  crun_ref cfg mask t0 cops _ (ref_init cfg t0 nprox seq0)

/-- **C10_client_exact.**  After any client history, `next(it)` on a client iterator whose proxy is
    connected returns exactly what the property demands of its own stream: the next undelivered item
    of that stream's source, its exception, or StopIteration at the end, as long as the server
    remembers the stream — and the "item stream terminated" error otherwise.  An iterator that has
    ended or was closed answers StopIteration without contacting the server. -/
theorem C10_client_exact (cfg : Settings) (mask t0 nprox seq0 : Nat) (cops : List COp) (i : Nat) (it : Iter) :
    let s := (crun cfg mask (Sys.init t0 nprox seq0) cops).1
    s.iters[i]? = some it →
    (it.proxy = none → cstep cfg mask s (.inext i) = (s, .srv .stop)) ∧
    (∀ p px c, it.proxy = some p → s.proxies[p]? = some px → px.conn = some c →
      (cstep cfg mask s (.inext i)).2 =
        .srv (match s.srv.table.get it.sid with
              | some _ => expectedReply (source it.sid s.log) (delivered it.sid s.log).length
              | none => .terminated)) := by
  intro s hit
  refine ⟨fun hp => by simp only [cstep, hit, hp], fun p px c hp hpx hc => ?_⟩
  have href : Ref cfg t0 s := crun_ref cfg mask t0 cops _ (ref_init cfg t0 nprox seq0)
  have hinv := inv_of_ref href
  simp only [cstep, hit, hp, hpx, hc, Sys.server, step]
  cases hg : s.srv.table.get it.sid with
  | none => simp only [doNext, hg]
  | some e =>
    simp only
    have hl := hinv.live it.sid e hg
    have hdrop : (source it.sid s.log).drop (delivered it.sid s.log).length = e.rest := by
      rw [← hl]; simp
    simp only [doNext, hg, expectedReply, hdrop]
    have hrest : (if e.owner.isNone = true then { e with owner := some c, linger := 0 } else e).rest = e.rest := by
      split <;> rfl
    rw [hrest]
    cases e.rest with
    | nil => rfl
    | cons x tl => cases x <;> rfl

/-- **C10_client_survives_loss.**  A connection that breaks during an item request costs the client
    nothing but that one error: the iterator keeps its proxy (ConnectionClosedError is not among the
    exceptions after which it drops it — `C10_gen_facts`), the server sees the connection end (the
    stream lingers or is dropped as for any disconnect), and by `C10_client_exact` the next `next(it)`
    after a reconnect continues with the next undelivered item while the server remembers the stream. -/
theorem C10_client_survives_loss (cfg : Settings) (mask : Nat) (s : Sys) (i p c : Nat) (it : Iter) (px : Proxy)
    (hit : s.iters[i]? = some it) (hp : it.proxy = some p) (hpx : s.proxies[p]? = some px) (hc : px.conn = some c) :
    let r := cstep cfg mask s (.inextLost i)
    r.2 = .connClosed ∧ r.1.iters[i]? = some { it with pyroseq := it.pyroseq + 1 } ∧
    r.1.log = s.log ++ [(.disconnect c, if cfg.hookFails then .hookError else .ok)] := by
  have hlen : i < s.iters.length := (List.getElem?_eq_some_iff.mp hit).1
  simp only [cstep, hit, hp, hpx, hc, Sys.server, step]
  simp [List.getElem?_set_self hlen]

/-- **C10_client_close_forgets.**  `it.close()` on a client iterator whose proxy is connected makes
    the server forget the stream — whether the proxy's sequence number is still in step with the
    iterator (same proxy) or has diverged, wrapped around 16 bits included (temporary second
    connection) — and disables the iterator. -/
theorem C10_client_close_forgets (cfg : Settings) (mask : Nat) (s : Sys) (i p c : Nat) (it : Iter) (px : Proxy)
    (hit : s.iters[i]? = some it) (hp : it.proxy = some p) (hpx : s.proxies[p]? = some px) (hc : px.conn = some c) :
    let s' := (cstep cfg mask s (.iclose i)).1
    s'.srv.table.get it.sid = none ∧ (∀ it', s'.iters[i]? = some it' → it'.proxy = none) := by
  have hlen : i < s.iters.length := (List.getElem?_eq_some_iff.mp hit).1
  simp only [cstep, hit, hp, hpx, hc]
  split
  · refine ⟨?_, fun it' h' => ?_⟩
    · simp only [Sys.server, step]; exact get_close_self _ _
    · simp only [Sys.server, List.getElem?_set_self hlen, Option.some.injEq] at h'
      rw [← h']
  · refine ⟨?_, fun it' h' => ?_⟩
    · simp only [Sys.server, step]
      exact get_disconnect_none cfg _ _ _ (get_close_self _ _)
    · simp only [Sys.server, List.getElem?_set_self hlen, Option.some.injEq] at h'
      rw [← h']

/-! ## schedules -/

open Pyro.StreamsRace in
/-- **C10_sched_prefix.**  Under every schedule of any number of concurrently running
    `get_next_stream_item` / `close_stream` / `_clientDisconnect` / `_housekeeping` calls (any removal
    form, any settings): for every stream, what its `next()` calls have produced so far, in order,
    followed by what its iterator still holds, is what the iterator held at the start — items are
    produced once, in order and from their own stream however the calls interleave. -/
theorem C10_sched_prefix (m : Modes) (cfg : Settings) (table : RTable) (heap : List (List Item)) (now : Nat)
    (progs : List (List Call)) (schedule : List Nat) (sid : Nat) :
    let c := StreamsRace.run m cfg (Config.init table heap now progs) schedule
    handedOf sid c.shared.handed ++ c.shared.heap.getD sid [] = heap.getD sid [] := by
  intro c
  have h : ghost c.shared sid = ghost (Config.init table heap now progs).shared sid :=
    run_ghost m cfg schedule (Config.init table heap now progs) sid
  simpa [ghost, Config.init, handedOf] using h

open Pyro.StreamsRace in
/-- the full statement for the concurrent replies: in every reachable configuration, every completed
    call during which `next(stream)` ran returned exactly what `next(stream)` did (the item,
    StopIteration, or the iterator's exception) -/
def C10_sched_Statement (m : Modes) : Prop :=
  ∀ (cfg : Settings) (table : RTable) (heap : List (List Item)) (now : Nat) (progs : List (List Call))
    (schedule : List Nat),
    ∀ t ∈ (StreamsRace.run m cfg (Config.init table heap now progs) schedule).threads,
      ∀ d ∈ t.done, ∀ o, d.2.2 = some o → d.2.1 = o

open Pyro.StreamsRace in
/-- **C10_sched_no_masking.**  With the tolerant removal in `get_next_stream_item` (the extracted
    fact `C10_gen_removal_tolerant`), under every schedule: a reply is never replaced by an internal
    KeyError — a client gets StopIteration exactly when its `next(stream)` found the iterator
    exhausted, and the iterator's own exception when it raised, even when housekeeping, a
    disconnect or a close removes the stream at the same moment. -/
theorem C10_sched_no_masking (m : Modes) (hm : m.next = .tolerant) : C10_sched_Statement m := by
  intro cfg table heap now progs schedule t ht d hd o ho
  have := ti_run m cfg schedule _ (ti_init m table heap now progs) t ht
  exact (this.good d hd).1 hm o ho

open Pyro.StreamsRace in
/-- **C10_sched_strict_masks.**  The statement is false for the `del` form (finding F10): stream 0 is
    exhausted and older than its lifetime; the client thread runs `next(stream)` (StopIteration),
    the housekeeper removes the expired stream, then the client's `del` raises KeyError — the client
    receives KeyError instead of StopIteration.  Witness schedule `[0,0,0,1,1,1,1,0]`. -/
theorem C10_sched_strict_masks : ¬ C10_sched_Statement (Modes.all .strict) := by
  intro h
  have := h { streaming := true, lifetime := 5, linger := 0 }
    [(0, { owner := some 0, created := 0, linger := 0 })] [[]] 10 [[.next 0 0], [.housekeeping]]
    [0, 0, 0, 1, 1, 1, 1, 0]
    { prog := [], cur := .next 0 0, pc := .idle, done := [(.next 0 0, .keyError, some .stop)] } (by decide)
    (.next 0 0, .keyError, some .stop) (by decide) .stop rfl
  cases this

open Pyro.StreamsRace in
/-- **C10_sched_cleanup_total.**  With tolerant removals everywhere, under every schedule no
    `close_stream`, `_clientDisconnect` or `_housekeeping` call ever fails: a disconnect always
    processes all streams of its connection and the housekeeper thread never dies, so expired and
    orphaned streams are always forgotten.  (The only remaining KeyError is a `next` whose stream
    vanished between its membership test and its read — an error reply for a forgotten stream.) -/
theorem C10_sched_cleanup_total (m : Modes) (h1 : m.close = .tolerant) (h2 : m.disc = .tolerant) (h3 : m.hk = .tolerant)
    (cfg : Settings) (table : RTable) (heap : List (List Item)) (now : Nat) (progs : List (List Call))
    (schedule : List Nat) :
    ∀ t ∈ (StreamsRace.run m cfg (Config.init table heap now progs) schedule).threads,
      ∀ d ∈ t.done, d.2.1 = .keyError → ∃ sid conn, d.1 = .next sid conn := by
  intro t ht d hd hk
  have hcall := ((ti_run m cfg schedule _ (ti_init m table heap now progs) t ht).good d hd).2 hk
  cases hc : d.1 with
  | next sid conn => exact ⟨sid, conn, rfl⟩
  | close sid => rw [hc] at hcall; rw [h1] at hcall; cases hcall
  | disconnect conn => rw [hc] at hcall; rw [h2] at hcall; cases hcall
  | housekeeping => rw [hc] at hcall; rw [h3] at hcall; cases hcall

/-- a housekeeping pass as an operation whose body (lifetime loop, linger loop) runs under `housekeeper_lock` -/
def hkOp (cfg : Settings) : Lock.Op State Unit Res :=
  { init := (), result := fun _ => .ok,
    steps := [fun l st => (l, { st with table := if st.table.isEmpty then st.table else
                                  if 0 < cfg.lifetime then st.table.filter (fun p => !lifeExpired cfg st.now p.2) else st.table }),
              fun l st => (l, { st with table := if 0 < cfg.linger then st.table.filter (fun p => !lingerExpired cfg st.now p.2)
                                  else st.table })] }

/-- **C10_housekeeping_serial.**  Housekeeping passes started concurrently by any number of threads
    (both loops of each pass run under `housekeeper_lock`, `C10_gen_housekeeping_locked`) take effect
    one whole pass at a time, under every schedule: instance of the generic `Lock.atomic`; and one
    pass executed alone is `doHousekeeping`. -/
theorem C10_housekeeping_serial (cfg : Settings) (s0 : State) (n : Nat) (schedule : List Nat) :
    Lock.Inv s0 (Lock.run (Lock.Config.init s0 (List.replicate n (hkOp cfg))) schedule) ∧
    ∀ st, ((hkOp cfg).run st).1 = doHousekeeping cfg st := by
  refine ⟨Lock.atomic s0 _ schedule, fun st => ?_⟩
  simp only [Lock.Op.run, Lock.runSteps, hkOp, List.foldl_cons, List.foldl_nil, doHousekeeping]
  by_cases he : st.table.isEmpty = true
  · have : st.table = [] := by simpa using he
    cases st with
    | mk tb nw ni => simp only at this; subst this; simp
  · simp [he]

/-! ## non-vacuity -/

private def cfgA : Settings := { streaming := true, lifetime := 5, linger := 4 }
private def histA : List Op :=
  [.open 0 (.iter [.val 7, .val 8, .raises 3]), .open 1 (.iter [.val 1]), .next 0 0, .disconnect 0, .tick 2,
   .next 0 2, .next 1 1, .next 1 1, .tick 9, .housekeeping]

-- two interleaved streams, a reconnect within the linger period, exhaustion, lifetime expiry
example : ((exec cfgA (State.init 100) histA).2.map (·.2)) =
    [.stream 0, .stream 1, .item 7, .ok, .ok, .item 8, .item 1, .stop, .ok, .ok] := by decide
example : (exec cfgA (State.init 100) histA).1.table = [] := by decide
example : (exec cfgA (State.init 100) (histA.take 6)).1.table =
    [(0, { owner := some 2, created := 100, linger := 0, rest := [.raises 3] }),
     (1, { owner := some 1, created := 100, linger := 0, rest := [.val 1] })] := by decide
example : delivered 0 (exec cfgA (State.init 100) (histA.take 6)).2 = [.val 7, .val 8] ∧
    source 0 (exec cfgA (State.init 100) (histA.take 6)).2 = [.val 7, .val 8, .raises 3] := by decide
-- expiry: both streams of histA's prefix are owned by connections 1 and 2; they end, 5 > linger passes, housekeeping
example : (exec { cfgA with lifetime := 0 } (exec { cfgA with lifetime := 0 } (State.init 100) (histA.take 6)).1
    ([1, 2].map .disconnect ++ [.tick 5, .housekeeping])).1.table = [] := by decide
-- a daemon whose disconnect hook raises: the error is reported, the stream is dropped all the same (no linger) …
example : (exec { streaming := true, lifetime := 0, linger := 0, hookFails := true } (State.init 100)
    [.open 0 (.iter [.val 1, .val 2]), .next 0 0, .disconnect 0, .next 0 1]).2.map (·.2) =
    [.stream 0, .item 1, .hookError, .terminated] := by decide
-- … or lingers and expires (linger 4), and a client coming back after that gets the error
example : (exec { streaming := true, lifetime := 0, linger := 4, hookFails := true } (State.init 100)
    [.open 0 (.iter [.val 1, .val 2]), .next 0 0, .disconnect 0, .tick 5, .housekeeping, .next 0 1]).2.map (·.2) =
    [.stream 0, .item 1, .hookError, .ok, .ok, .terminated] := by decide
-- forgetCond: the lifetime branch and the linger branch both occur
example : forgetCond cfgA 111 1 { owner := some 1, created := 100, linger := 0, rest := [] } .housekeeping := by
  simp [forgetCond, cfgA]
example : forgetCond cfgA 111 1 { owner := none, created := 110, linger := 103, rest := [] } .housekeeping := by
  simp [forgetCond, cfgA]
-- the client: sequence numbers wrap at 16 bits and diverge from the iterator's counter; close still reaches the server
example : (crun cfgA 65535 (Sys.init 100 1 65534) [.call 0 (.iter [.val 1, .val 2]), .inext 0, .iclose 0, .inext 0]).2 =
    [.iter 0, .srv (.item 1), .none, .srv .stop] ∧
    (crun cfgA 65535 (Sys.init 100 1 65534) [.call 0 (.iter [.val 1, .val 2]), .inext 0, .iclose 0]).1.log.map (·.1) =
    [.open 0 (.iter [.val 1, .val 2]), .next 0 0, .close 0, .disconnect 1] := by decide
-- a tolerant run of the F10 schedule: the client gets StopIteration
example : ((StreamsRace.run (StreamsRace.Modes.all .tolerant) { streaming := true, lifetime := 5, linger := 0 }
    (StreamsRace.Config.init [(0, { owner := some 0, created := 0, linger := 0 })] [[]] 10
      [[.next 0 0], [.housekeeping]]) [0, 0, 0, 1, 1, 1, 1, 0]).threads.map (·.done)) =
    [[(.next 0 0, .stop, some .stop)], [(.housekeeping, .ok, none)]] := by decide

end Pyro.C10
