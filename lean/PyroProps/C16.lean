/-
  C16 — Daemon registry: an id reaches exactly its object, for as long as registered.

  Model: PyroModel/Registry.lean (`step cfg`), one function per method of Pyro5/server.py, with the five
  repairs of findings F16a–e as switches of `Cfg`.  `Pyro.Gen.C16` holds the switches as the extractor
  reads them from the current source; `C16_gen_fixes` demands that they are all on, so every theorem
  below about `Cfg.fixed` is a theorem about the code at hand (and stops building when a repair is lost).
  Specification: `Spec` (PyroProofs/Registry.lean) — a partial map id ↦ entity, nothing else.

  Histories: `List Op` from `init` (a new daemon), all ids/objects/flags/serializers arbitrary.
  `noAliasHist` excludes exactly one thing: giving an object that is registered under another id a
  second id with `force=True` (known finding F16f, see `C16_not_return_Statement`).
-/
import PyroProofs.Registry
import PyroModel.Gen.C16

namespace Pyro.C16

open Pyro Pyro.Registry

/-! ### obligations about the extracted facts -/

/-- **C16_gen_fixes.** In the current code all five repairs are present (each switch is the observed outcome of
    the witness history of its finding on a real Daemon, so a refactoring that keeps the behaviour keeps the switch): the type-replacement hook
    checks that the object owns its entry (F16a), `register` dereferences weak registrations in its
    identity test (F16b) and refuses the daemon's id (F16c), `unregister(obj)` checks the owner (F16d),
    the weak finalizer checks the owner (F16e).  Hence `Cfg.fixed` is the model of the current source. -/
theorem C16_gen_fixes :
    (⟨Pyro.Gen.C16.autoProxyChecksEntry, Pyro.Gen.C16.identityUnpacksWeak, Pyro.Gen.C16.refuseDaemonName,
      Pyro.Gen.C16.unregChecksOwner, Pyro.Gen.C16.finalizerChecksOwner⟩ : Cfg) = Cfg.fixed := by decide

/-- **C16_gen_shape.** Facts the model copies unconditionally, each obtained by probing the current code
    (not by matching its spelling): `unregister` leaves the daemon's own entry alone (by id and when given the
    DaemonObject), `DaemonObject.registered()` is the key list of the table (order and weak registrations
    included), a new daemon's table holds exactly its DaemonObject, `class_to_dict` clears `_pyroDaemon`;
    from the source: `handleRequest` finds the object through the table and the weak-reference unpacking, and
    the serializers with a working type-replacement hook are among the three the model distinguishes
    (serpent and json always). -/
theorem C16_gen_shape :
    Pyro.Gen.C16.unregisterGuardsDaemonName = true ∧
    Pyro.Gen.C16.registeredIsKeys = true ∧
    Pyro.Gen.C16.dispatchLookup = true ∧ Pyro.Gen.C16.initDirect = true ∧
    Pyro.Gen.C16.classToDictClearsDaemon = true ∧
    (∀ n ∈ Pyro.Gen.C16.hookSerializers, n ∈ ["serpent", "json", "msgpack"]) ∧
    "serpent" ∈ Pyro.Gen.C16.hookSerializers ∧ "json" ∈ Pyro.Gen.C16.hookSerializers := by decide

/-- **C16_gen_order.** The *effects* of `Daemon.register`, observed on instrumented arguments (a table that
    records lookups and insertions, an object that records attribute assignments, recording serializers and
    a recording `weakref.finalize`), happen in the order the model assumes: the checks' table lookups, then
    the attribute assignments (which may raise for objects that cannot carry attributes), then the hook
    installation, and only then the table insertion and the finalizer — so a registration that fails has not
    touched the table (`C16_failed_register_unchanged`).  And for json and msgpack, for each builtin base type
    that `default()` converts (set, UUID, Decimal, datetime, date, array), a registered type replacement wins
    over the conversion, and for serpent (which dispatches on `isinstance`) an instance of a subclass still gets
    the replacement when one was installed for its base class first — so a registered object of such a class
    is proxied like any other (the model's `returnObj` runs the hook first for every object and serializer). -/
theorem C16_gen_order :
    Pyro.Gen.C16.registerEffects = ["lookup", "attrs", "hooks", "insert", "finalize", "return"] ∧
    (∀ p ∈ Pyro.Gen.C16.defaultHookFirst, p.2 = true) ∧
    ("json:set", true) ∈ Pyro.Gen.C16.defaultHookFirst ∧ ("json:array", true) ∈ Pyro.Gen.C16.defaultHookFirst ∧
    ("serpent:subclass-after-base", true) ∈ Pyro.Gen.C16.defaultHookFirst := by decide

/-! ### the property -/

/-- **C16_failed_register_unchanged.** In every state of every variant, for every object (also one that
    cannot carry the pyro attributes), id argument and flags: a `register` that does not return a URI
    (it raised) has changed nothing — the id it asked for is as free, or as taken by its holder, as before. -/
theorem C16_failed_register_unchanged (cfg : Cfg) (s : State) (e : Ent) (ia : IdArg) (force weak : Bool)
    (hfail : ∀ i, (step cfg s (.register e ia force weak)).2 ≠ .uri i) :
    (step cfg s (.register e ia force weak)).1 = s := by
  simp only [step] at hfail ⊢
  rcases register_cases cfg s e ia force weak with ⟨r, _, h⟩ | ⟨_, h⟩
  · rw [h]
  · rw [h] at hfail
    exact absurd rfl (hfail _)

/-- an object whose class has no room for the attributes is refused with AttributeError whenever all
    other checks pass — e.g. with `force=True` on an id held by another object, which keeps it -/
example : regCheck .fixed (run .fixed init [.register (.obj 0) (.str (.name 0)) false false])
    (.obj 6) (.str (.name 0)) true false = some (.err .attributeError) := by decide
example : call (step .fixed (run .fixed init [.register (.obj 0) (.str (.name 0)) false false])
    (.register (.obj 6) (.str (.name 0)) true false)).1 (.name 0) = .reached (.ent (.obj 0)) := by decide

/-- **C16_refines (partial: no forced second id).** For every history, the daemon's table after it is
    exactly the specification's map after the same history: registrations, unregistrations (by id or by
    object), refusals and garbage collections have precisely the specified effect and no other. -/
theorem C16_refines_partial (h : List Op) (hA : noAliasHist init h = true) :
    abs (run .fixed init h) = specRun Spec.init h := by
  have := (reach h invW_init back_init hA).2.2
  rwa [abs_init] at this

/-- **C16_call_exact.** After every such history a call addressed to id `i` runs on exactly the entity
    the specification has under `i` (an instance of it for a class), and is answered "unknown object"
    exactly when the specification has nothing under `i`. -/
theorem C16_call_exact (h : List Op) (hA : noAliasHist init h = true) (i : Id) :
    call (run .fixed init h) i = specCall (specRun Spec.init h) i := by
  obtain ⟨hI, _, ha⟩ := reach h invW_init back_init hA
  rw [call_eq_specCall hI, ha, abs_init]

/-- **C16_registered_exact.** `DaemonObject.registered()` lists exactly the ids the specification has,
    each once. -/
theorem C16_registered_exact (h : List Op) (hA : noAliasHist init h = true) :
    ∃ l, (step .fixed (run .fixed init h) .registered).2 = .ids l ∧ l.Nodup ∧
      ∀ i, i ∈ l ↔ ((specRun Spec.init h).m i).isSome = true := by
  obtain ⟨hI, _, ha⟩ := reach h invW_init back_init hA
  refine ⟨keys (run .fixed init h).objs, rfl, hI.nodup, ?_⟩
  intro i
  rw [mem_keys_iff, ← abs_init, ← ha]
  rfl

/-- **C16_double_refused.** Without `force`, registering an object that is registered already, or under
    an id that is taken, is refused (no URI is returned) and changes nothing — whatever the id argument
    (explicit, generated, the daemon's) and the weak flag. -/
theorem C16_double_refused (h : List Op) (hA : noAliasHist init h = true) (e : Ent) (ia : IdArg) (w : Bool)
    (hdup : (specRun Spec.init h).has e ∨ ((specRun Spec.init h).m ((specRun Spec.init h).resolve ia)).isSome = true) :
    (step .fixed (run .fixed init h) (.register e ia false w)).1 = run .fixed init h ∧
    ∀ i, (step .fixed (run .fixed init h) (.register e ia false w)).2 ≠ .uri i := by
  obtain ⟨hI, hB, ha⟩ := reach h invW_init back_init hA
  rw [← abs_init, ← ha] at hdup
  simp only [step]
  rcases register_cases .fixed (run .fixed init h) e ia false w with ⟨r, hc, hr⟩ | ⟨hc, _⟩
  · rw [hr]
    exact ⟨rfl, fun i => regCheck_some_not_uri hc i⟩
  · exfalso
    apply regCheck_none_not_refuses rfl rfl hI hB hc
    right; right; right; right; left
    exact ⟨rfl, hdup⟩

/-- **C16_daemon_fixed.** For *every* history (forced aliasing included) of every variant of the code
    that refuses the daemon's id in `register`, the entry `Pyro.Daemon` is the daemon's own object:
    it can be neither unregistered (by id, by object, by a finalizer) nor replaced. -/
theorem C16_daemon_fixed (cfg : Cfg) (hC : cfg.refuseDaemonName = true) (h : List Op) :
    lookup .daemon (run cfg init h).objs = some ⟨.daemonObj, false⟩ :=
  (invW_run hC h invW_init).daemon

/-- **C16_attrs_of_registered.** Every registered pool object or class carries `_pyroId` = the id it is
    registered under and `_pyroDaemon` = this daemon, and is registered under that id only.
    (The converse does not hold and is not needed any more: `unregister(id)` and a forced take-over of
    the id leave the attributes behind — the existing unit tests rely on that — but the repaired hook and
    `unregister` compare with the table instead of trusting them.) -/
theorem C16_attrs_of_registered (h : List Op) (hA : noAliasHist init h = true) (i : Id) (e : Ent) (w : Bool)
    (hr : lookup i (run .fixed init h).objs = some ⟨.ent e, w⟩) :
    (run .fixed init h).pid e = some i ∧ (run .fixed init h).pdm e = .this ∧
    ∀ j w', lookup j (run .fixed init h).objs = some ⟨.ent e, w'⟩ → j = i := by
  obtain ⟨_, hB, _⟩ := reach h invW_init back_init hA
  refine ⟨(hB i e w hr).1, (hB i e w hr).2, ?_⟩
  intro j w' hj
  have := (hB j e w' hj).1
  rw [(hB i e w hr).1] at this
  simpa using this.symm

/-- the full statement about returned registered objects, for *all* histories -/
def C16_return_Statement : Prop :=
  ∀ (h : List Op) (k : Nat) (i : Id) (w : Bool) (ser : Ser),
    lookup i (run .fixed init h).objs = some ⟨.ent (.obj k), w⟩ →
    ∃ j, (returnObj .fixed (run .fixed init h) k ser).2 = .proxy j ∧
         call (run .fixed init h) j = .reached (.ent (.obj k))

/-- **C16_return (partial: no forced second id).** A registered object returned from a remote method
    arrives — with serpent, json and msgpack alike — as a proxy for the id it is registered under, a call
    through that proxy runs on that very object, and returning it changes nothing. -/
theorem C16_return_partial (h : List Op) (hA : noAliasHist init h = true) (k : Nat) (i : Id) (w : Bool) (ser : Ser)
    (hr : lookup i (run .fixed init h).objs = some ⟨.ent (.obj k), w⟩) :
    returnObj .fixed (run .fixed init h) k ser = (run .fixed init h, .proxy i) ∧
    call (run .fixed init h) i = .reached (.ent (.obj k)) := by
  obtain ⟨hI, hB, _⟩ := reach h invW_init back_init hA
  refine ⟨returnObj_registered hI hB hr ser, ?_⟩
  simp [call, hr, deref_entry hI hr]

/-- **C16_not_return_Statement** (known finding F16f). The full statement fails: register `o0` as `n0`,
    again as `n1` with `force=True`, `unregister(o0)` — `n0` still reaches `o0`, but `o0` has lost its
    attributes and travels by value. -/
theorem C16_not_return_Statement : ¬ C16_return_Statement := by
  intro H
  obtain ⟨j, hj, _⟩ := H [.register (.obj 0) (.str (.name 0)) false false,
                           .register (.obj 0) (.str (.name 1)) true false,
                           .unregister (.byObj (.obj 0))] 0 (.name 0) false .serpent (by decide)
  have hv : (returnObj .fixed (run .fixed init [.register (.obj 0) (.str (.name 0)) false false,
      .register (.obj 0) (.str (.name 1)) true false, .unregister (.byObj (.obj 0))]) 0 .serpent).2 = .byValue := by decide
  rw [hv] at hj
  exact Res.noConfusion hj

/-- **C16_return_unregistered.** In *any* state of any variant whose hook checks the entry: an object
    that is not registered, and whose class is not registered, travels by value — whatever attributes
    earlier registrations, `unregister(id)`, forced take-overs or collections left on it — and the
    daemon's table is untouched.  (An instance of a registered class arrives as a proxy of the class
    registration, by design: tests/test_server.py testAutoProxy.) -/
theorem C16_return_unregistered (cfg : Cfg) (hA : cfg.autoProxyChecksEntry = true) (s : State) (k : Nat) (ser : Ser)
    (hd : s.dead k = false)
    (hk : ∀ i w, lookup i s.objs ≠ some ⟨.ent (.obj k), w⟩)
    (hc : ∀ i w, lookup i s.objs ≠ some ⟨.ent (.cls (classOf k)), w⟩) :
    (returnObj cfg s k ser).2 = .byValue ∧ (returnObj cfg s k ser).1.objs = s.objs := by
  have hown : ownsEntry s k = false := by
    have : ∀ e, (∀ i w, lookup i s.objs ≠ some ⟨.ent e, w⟩) → registeredRef s (.obj k) ≠ some (.ent e) := by
      intro e he hreg
      unfold registeredRef at hreg
      cases hg : getId s (.obj k) with
      | none => simp [hg] at hreg
      | some i =>
        simp only [hg, Option.bind_some] at hreg
        cases hl : lookup i s.objs with
        | none => simp [hl] at hreg
        | some en =>
          simp only [hl, Option.bind_some] at hreg
          have := deref_ref hreg
          obtain ⟨r, w⟩ := en
          simp only at this; subst this
          exact he i w hl
    simp [ownsEntry, this _ hk, this _ hc]
  have : returnObj cfg s k ser = byValue s k ser := by
    simp [returnObj, hd, hA, hown]
  rw [this]
  exact ⟨(byValue_frame s k ser).2.2.2.2.2.2, (byValue_frame s k ser).1⟩

/-- **C16_no_dead_weak.** For every history of every variant that refuses the daemon's id, the
    dispatch lookup never meets a dead weak reference: a collected object's registrations are gone
    before the next request (synchronous finalizers; asynchronous collection is the *partial* part). -/
theorem C16_no_dead_weak (cfg : Cfg) (hC : cfg.refuseDaemonName = true) (h : List Op) (i : Id) :
    call (run cfg init h) i ≠ .deadWeak := by
  have hI := invW_run hC h invW_init
  rw [call_eq_specCall hI]
  unfold specCall
  split <;> simp

/-! ### each repair is necessary: the same model with one switch off violates the property -/

/-- the registry holds the daemon's own entry and nothing else -/
def onlyDaemon : Objs := [(.daemon, ⟨.daemonObj, false⟩)]

/-- **F16a.** Without the ownership check in the hook: register `o0` as `n0`, `unregister("n0")`; the
    table is empty again but returning `o0` raises DaemonError instead of sending it by value. -/
theorem C16_F16a_needs_fix (cfg : Cfg) (hoff : cfg.autoProxyChecksEntry = false) :
    ∃ h, (run cfg init h).objs = onlyDaemon ∧ (run cfg init h).dead 0 = false ∧
      (returnObj cfg (run cfg init h) 0 .serpent).2 = .err .daemonError := by
  refine ⟨[.register (.obj 0) (.str (.name 0)) false false, .unregister (.byId (.name 0))], ?_⟩
  obtain ⟨a, b, c, d, e⟩ := cfg
  simp only at hoff; subst hoff
  cases b <;> cases c <;> cases d <;> cases e <;> decide

/-- **F16b.** Without dereferencing the weak reference in `register`'s identity test: a weakly
    registered object is accepted a second time, under another id, without `force`. -/
theorem C16_F16b_needs_fix (cfg : Cfg) (hoff : cfg.identityUnpacksWeak = false) :
    ∃ h, lookup (.name 0) (run cfg init h).objs = some ⟨.ent (.obj 0), true⟩ ∧
      (step cfg (run cfg init h) (.register (.obj 0) (.str (.name 1)) false false)).2 = .uri (.name 1) := by
  refine ⟨[.register (.obj 0) (.str (.name 0)) false true], ?_⟩
  obtain ⟨a, b, c, d, e⟩ := cfg
  simp only at hoff; subst hoff
  cases a <;> cases c <;> cases d <;> cases e <;> decide

/-- **F16c.** Without the reserved-id check: `register(o0, "Pyro.Daemon", force=True)` replaces the
    daemon's own object. -/
theorem C16_F16c_needs_fix (cfg : Cfg) (hoff : cfg.refuseDaemonName = false) :
    ∃ h, lookup .daemon (run cfg init h).objs = some ⟨.ent (.obj 0), false⟩ := by
  refine ⟨[.register (.obj 0) (.str .daemon) true false], ?_⟩
  obtain ⟨a, b, c, d, e⟩ := cfg
  simp only at hoff; subst hoff
  cases a <;> cases b <;> cases d <;> cases e <;> decide

/-- **F16d.** Without the ownership check in `unregister`: `o0` as `n0`, then `o1` as `n0` with
    `force=True`; `unregister(o0)` removes `o1`'s registration. -/
theorem C16_F16d_needs_fix (cfg : Cfg) (hoff : cfg.unregChecksOwner = false) :
    ∃ h, (run cfg init h).objs = onlyDaemon ++ [(.name 0, ⟨.ent (.obj 1), false⟩)] ∧
      (unregister cfg (run cfg init h) (.byObj (.obj 0))).1.objs = onlyDaemon := by
  refine ⟨[.register (.obj 0) (.str (.name 0)) false false, .register (.obj 1) (.str (.name 0)) true false], ?_⟩
  obtain ⟨a, b, c, d, e⟩ := cfg
  simp only at hoff; subst hoff
  cases a <;> cases b <;> cases c <;> cases e <;> decide

/-- **F16e.** Without the ownership check in the weak finalizer: `o0` weakly as `n0`, then `o1` as `n0`
    with `force=True`; when `o0` is collected its finalizer removes `o1`'s registration. -/
theorem C16_F16e_needs_fix (cfg : Cfg) (hoff : cfg.finalizerChecksOwner = false) :
    ∃ h, (run cfg init h).objs = onlyDaemon ++ [(.name 0, ⟨.ent (.obj 1), false⟩)] ∧
      (gc cfg (run cfg init h) 0).2 = .collected ∧ (gc cfg (run cfg init h) 0).1.objs = onlyDaemon := by
  refine ⟨[.register (.obj 0) (.str (.name 0)) false true, .register (.obj 1) (.str (.name 0)) true false], ?_⟩
  obtain ⟨a, b, c, d, e⟩ := cfg
  simp only at hoff; subst hoff
  cases a <;> cases b <;> cases c <;> cases d <;> decide

/-! ### non-vacuity -/

/-- a history with weak and forced registrations, a take-over of an id, unregistration both ways, a
    collection and generated ids meets the hypothesis of the partial theorems … -/
def sample : List Op :=
  [.register (.obj 0) (.str (.name 0)) false false, .register (.obj 1) .none false true,
   .register (.cls 2) (.str (.name 1)) false false, .register (.obj 2) (.str (.name 0)) true false,
   .register (.obj 2) (.str (.name 0)) true true, .unregister (.byId (.name 0)), .unregister (.byObj (.cls 2)),
   .returnObj 0 .json, .register (.obj 0) .empty false false, .gc 1, .gc 0]

example : noAliasHist init sample = true := by decide
/-- … and reaches a non-trivial state: `o0` registered under the second generated id, `o1` collected -/
example : keys (run .fixed init sample).objs = [.daemon, .gen 1] := by decide
example : (results .fixed init sample).getLast? = some .kept := by decide
example : call (run .fixed init sample) (.gen 1) = .reached (.ent (.obj 0)) := by decide
example : (returnObj .fixed (run .fixed init sample) 0 .msgpack).2 = .proxy (.gen 1) := by decide
example : (run .fixed init sample).dead 1 = true := by decide
/-- the forced-alias history of F16f is excluded by the hypothesis -/
example : noAliasHist init [.register (.obj 0) (.str (.name 0)) false false,
                            .register (.obj 0) (.str (.name 1)) true false] = false := by decide
/-- hypotheses of `C16_return_unregistered` are met by a state with stale attributes -/
example : (run .fixed init [.register (.obj 0) (.str (.name 0)) false false, .unregister (.byId (.name 0))]).pid (.obj 0)
    = some (.name 0) := by decide

end Pyro.C16
