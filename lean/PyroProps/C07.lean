/-
  C07 — Remote exceptions arrive as the same exception with the same content.

  Property theorems about `PyroModel.Exceptions` (model of serializers.class_to_dict / dict_to_class / make_exception,
  Daemon.handleRequest's error paths and the batch loop, Daemon._serializeException, Proxy._pyroInvoke,
  BatchProxy's result generator).  Quantifiers: every serializer library satisfying the lossless-core law
  (`CodecLaw`), every exception class the receiver resolves, every argument list / attribute dict inside the lossless
  domain, every traceback, every call kind, every batch (any results before, any calls after the failing one).
-/
import PyroProofs.Exceptions

namespace Pyro.C07

open Pyro.Exceptions
open Pyro.Gen.C07 (Kind Flags)

/-! ## round trip -/

/-- **C07_roundtrip_partial.**  A plain call, an attribute read, an attribute write or a stream item whose remote
    code raises `e` — of a class the receiver resolves to itself, whose constructor gives back the arguments, with
    arguments, attribute values and traceback lines in the serializer's lossless domain — makes the caller raise
    exactly `e` (same class, same args) with the same attributes plus `_pyroTraceback`, for every serializer library
    satisfying the law; and the connection is kept unless the method is a callback or `e` is a Communication/
    SecurityError.  *Partial*: the class must be one the server forwards (`Sendable`: an `Exception`, and no
    CommunicationError other than SerializeError) — see `C07_roundtrip_Statement` and its refutations below. -/
theorem C07_roundtrip_partial {W : Type} (S : ServerEnv) (K : ClientEnv) (c : Codec W) (norm : Val → Val)
    (dom : Val → Prop) (law : CodecLaw c norm dom) (R : Render) (kind : CallKind) (e : Exc) (tb : Val)
    (hcontent : Content norm dom e tb)
    (hres : resolves K.names e.cls = some e.cls)
    (hctor : K.ctor e.cls e.args = .ok (e.cls, e.args))
    (hsend : Sendable (S.info e.cls)) :
    clientCall S K c R kind (.raise e) tb
      = (raisedBy K (withTraceback tb e), fateAfter (S.info e.cls) kind.isCallback) := by
  obtain ⟨w, A, hser, hA, hl⟩ := serializeException_ok law R e tb hcontent
  unfold clientCall serverCall
  simp only [hsend.exc, if_true]
  rw [errorPath_sent S c R e tb kind.isCallback hsend _ w hser]
  simp only
  rw [clientInvoke_arrived K c false false w e.cls A e.args (withTraceback tb e).attrs hl hA hres hctor
    hcontent.withTraceback.nodup]
  rfl

/-- **C07_roundtrip_batch_partial.**  In a batch whose member at position `before.length` raises `e` (the earlier
    members returned the lossless values `before`, whatever follows is not run), the caller's result generator yields
    exactly `before` and then raises exactly `e` with its attributes plus `_pyroTraceback`; the connection is kept.
    Holds for both shapes of the batch loop (`batchFallback`).  *Partial*: `e` must be an `Exception`, and not a
    StopIteration (the result generator cannot raise one: PEP 479, see `C07_batch_stopiteration`). -/
theorem C07_roundtrip_batch_partial {W : Type} (S : ServerEnv) (K : ClientEnv) (c : Codec W) (norm : Val → Val)
    (dom : Val → Prop) (law : CodecLaw c norm dom) (R : Render) (bf : Bool) (before : List Val) (after : List Step)
    (e : Exc) (tb : Val)
    (hcontent : Content norm dom e tb)
    (hbefore : ∀ v ∈ before, Lossless norm dom v ∧ hasClassDict v = false)
    (hres : resolves K.names e.cls = some e.cls)
    (hctor : K.ctor e.cls e.args = .ok (e.cls, e.args))
    (hreg : wrapperTag ∉ K.names.registry)
    (hexc : (S.info e.cls).isException = true)
    (hstop : (K.info e.cls).isStopIter = false) :
    clientBatch S K c R bf (before.map .ret ++ .raise e :: after) tb
      = (⟨before, .raised (withTraceback tb e), false⟩, .active) := by
  have hc1 := hcontent.withTraceback
  -- the loop
  have hloop : batchLoop S c R bf tb (before.map .ret ++ .raise e :: after)
      = .done (before.map .ok ++ [.err (withTraceback tb e)]) := by
    rw [batchLoop_rets, batchLoop_raise_indep]
    obtain ⟨w, A, hser, _, _⟩ := serializeException_ok law R e tb hcontent
    cases bf <;> simp only [batchLoop, hexc, if_true, hser, Bool.false_eq_true, if_false]
  -- the reply
  have hdom : dom (.list (before ++ [wrapperToDict (withTraceback tb e)])) := by
    apply law.dom_list
    intro x hx
    rcases List.mem_append.mp hx with hx | hx
    · exact (hbefore x hx).1.1
    · simp only [List.mem_singleton] at hx
      subst hx
      exact dom_wrapperToDict law _ (fun a ha => (hc1.args a ha).1) (fun p hp => (hc1.attrs p hp).1)
  obtain ⟨w, hw, hl⟩ := law.roundtrip _ hdom
  obtain ⟨A, hA, hn⟩ := norm_wrapperToDict law (withTraceback tb e) (fun a ha => (hc1.args a ha).2)
    (fun p hp => (hc1.attrs p hp).2)
  have hnorm : norm (.list (before ++ [wrapperToDict (withTraceback tb e)]))
      = .list (before ++ [.dict (arrivedWrapper (arrivedDict e.cls A (withTraceback tb e).attrs))]) := by
    rw [law.norm_list, List.map_append, map_fix norm before (fun a ha => (hbefore a ha).1.2)]
    simp only [List.map_cons, List.map_nil, hn]
    rfl
  rw [hnorm] at hl
  -- the caller
  have hrec := recreateItems_plain_then K before _ _ (fun v hv => (hbefore v hv).2)
    (recreate_wrapper K e.cls A e.args (withTraceback tb e).attrs hreg hA hres hctor hc1.nodup)
  unfold clientBatch serverBatch
  simp only [hloop, map_itemLit_oks, List.map_cons, List.map_nil, itemLit, hw]
  unfold clientInvoke
  simp only [hl, recreate, hrec, Except.map, Bool.false_eq_true, if_false, if_true]
  rw [batchResults_datas]
  simp only [batchResults, hstop, Bool.false_eq_true, if_false, List.append_nil]
  rfl

/-! ## fallback: content that cannot be serialised -/

/-- the fallback text names the class of the original exception -/
theorem fallbackMsg_describes (R : Render) (dumpErr e : Exc) : R.typeRepr e.cls <:+: fallbackMsg R dumpErr e := by
  unfold fallbackMsg
  refine ⟨cs "Error serializing exception: " ++ R.strOf dumpErr ++ cs ". Original exception: ", cs ": " ++ R.strOf e, ?_⟩
  simp only [List.append_assoc]

/-- **C07_fallback.**  If the exception (its arguments or attributes) cannot be serialised — the library's `dumps`
    of its dict raises — the caller of a plain call / attribute access / stream item still gets a reply and raises a
    `Pyro5.errors.PyroError` whose single argument is the text "Error serializing exception: … Original exception:
    <class>: …", which contains the rendering of the original class, and which carries the traceback lines; never
    nothing, never a value.  The connection's fate is that of the original exception's class. -/
theorem C07_fallback {W : Type} (S : ServerEnv) (K : ClientEnv) (c : Codec W) (norm : Val → Val)
    (dom : Val → Prop) (law : CodecLaw c norm dom) (R : Render) (kind : CallKind) (e : Exc) (tb : Val)
    (htb : Lossless norm dom tb)
    (hun : c.dumps (excToDict (withTraceback tb e)) = none)
    (hres : resolves K.names qPyroError = some qPyroError)
    (hctor : ∀ m, K.ctor qPyroError [.str m] = .ok (qPyroError, [.str m]))
    (hsend : Sendable (S.info e.cls)) :
    clientCall S K c R kind (.raise e) tb
        = (raisedBy K (fallbackExc R c.unserErr tb (withTraceback tb e)), fateAfter (S.info e.cls) kind.isCallback)
      ∧ fallbackExc R c.unserErr tb (withTraceback tb e)
          = ⟨qPyroError, [.str (fallbackMsg R c.unserErr (withTraceback tb e))], [(kTraceback, tb)]⟩
      ∧ R.typeRepr e.cls <:+: fallbackMsg R c.unserErr (withTraceback tb e) := by
  refine ⟨?_, rfl, fallbackMsg_describes R c.unserErr (withTraceback tb e)⟩
  obtain ⟨w, A, hser, hA, hl⟩ := serializeException_fallback law R e tb htb hun
  unfold clientCall serverCall
  simp only [hsend.exc, if_true]
  rw [errorPath_sent S c R e tb kind.isCallback hsend _ w hser]
  simp only
  rw [clientInvoke_arrived K c false false w qPyroError A _ [(kTraceback, tb)] hl hA hres (hctor _) (by simp [keys])]
  rfl

/-- **C07_fallback_batch.**  With the batch loop that wraps what `_serializeException` returns
    (`batchFallback = true`, fixes/C07-batch-unserialisable-exception.patch), a batch member whose exception cannot
    be serialised reaches the caller the same way: the earlier results, then the generic PyroError naming the
    original class, with the traceback; the connection is kept. -/
theorem C07_fallback_batch {W : Type} (S : ServerEnv) (K : ClientEnv) (c : Codec W) (norm : Val → Val)
    (dom : Val → Prop) (law : CodecLaw c norm dom) (R : Render) (before : List Val) (after : List Step)
    (e : Exc) (tb : Val)
    (htb : Lossless norm dom tb)
    (hun : c.dumps (excToDict (withTraceback tb e)) = none)
    (hbefore : ∀ v ∈ before, Lossless norm dom v ∧ hasClassDict v = false)
    (hres : resolves K.names qPyroError = some qPyroError)
    (hctor : ∀ m, K.ctor qPyroError [.str m] = .ok (qPyroError, [.str m]))
    (hreg : wrapperTag ∉ K.names.registry)
    (hexc : (S.info e.cls).isException = true)
    (hstop : (K.info qPyroError).isStopIter = false) :
    clientBatch S K c R true (before.map .ret ++ .raise e :: after) tb
      = (⟨before, .raised (fallbackExc R c.unserErr tb (withTraceback tb e)), false⟩, .active) := by
  have hcf := (content_fallback law (fallbackMsg R c.unserErr (withTraceback tb e)) tb htb)
  have hc1 := hcf.withTraceback
  have hfb : fallbackExc R c.unserErr tb (withTraceback tb e)
      = withTraceback tb ⟨qPyroError, [.str (fallbackMsg R c.unserErr (withTraceback tb e))], []⟩ := rfl
  have hloop : batchLoop S c R true tb (before.map .ret ++ .raise e :: after)
      = .done (before.map .ok ++ [.err (fallbackExc R c.unserErr tb (withTraceback tb e))]) := by
    rw [batchLoop_rets, batchLoop_raise_indep]
    obtain ⟨w, A, hser, _, _⟩ := serializeException_fallback law R e tb htb hun
    simp only [batchLoop, hexc, if_true, hser]
  have hdom : dom (.list (before ++ [wrapperToDict (fallbackExc R c.unserErr tb (withTraceback tb e))])) := by
    apply law.dom_list
    intro x hx
    rcases List.mem_append.mp hx with hx | hx
    · exact (hbefore x hx).1.1
    · simp only [List.mem_singleton] at hx
      subst hx
      rw [hfb]
      exact dom_wrapperToDict law _ (fun a ha => (hc1.args a ha).1) (fun p hp => (hc1.attrs p hp).1)
  obtain ⟨w, hw, hl⟩ := law.roundtrip _ hdom
  obtain ⟨A, hA, hn⟩ := norm_wrapperToDict law (fallbackExc R c.unserErr tb (withTraceback tb e))
    (fun a ha => (hc1.args a ha).2) (fun p hp => (hc1.attrs p hp).2)
  have hnorm : norm (.list (before ++ [wrapperToDict (fallbackExc R c.unserErr tb (withTraceback tb e))]))
      = .list (before ++ [.dict (arrivedWrapper (arrivedDict qPyroError A
          (fallbackExc R c.unserErr tb (withTraceback tb e)).attrs))]) := by
    rw [law.norm_list, List.map_append, map_fix norm before (fun a ha => (hbefore a ha).1.2)]
    simp only [List.map_cons, List.map_nil, hn]
    rfl
  rw [hnorm] at hl
  have hrec := recreateItems_plain_then K before _ _ (fun v hv => (hbefore v hv).2)
    (recreate_wrapper K qPyroError A _ (fallbackExc R c.unserErr tb (withTraceback tb e)).attrs hreg hA hres
      (hctor _) hc1.nodup)
  unfold clientBatch serverBatch
  simp only [hloop, map_itemLit_oks, List.map_cons, List.map_nil, itemLit, hw]
  unfold clientInvoke
  simp only [hl, recreate, hrec, Except.map, Bool.false_eq_true, if_false, if_true]
  rw [batchResults_datas]
  simp only [batchResults, hstop, Bool.false_eq_true, if_false, List.append_nil]
  rfl

/-! ## never silent, never a hang, usable afterwards -/

/-- **C07_never_silent.**  Whatever the serializer library does (no law assumed), whatever the class and content of
    the exception: a single call whose remote code raises never makes the caller's call return a value. -/
theorem C07_never_silent {W : Type} (S : ServerEnv) (K : ClientEnv) (c : Codec W) (R : Render) (kind : CallKind)
    (e : Exc) (tb : Val) (v : Val) :
    (clientCall S K c R kind (.raise e) tb).1.outcome ≠ .value v := by
  have key : ∀ (r : Option (Reply W)), (∀ rep, r = some rep → rep.exception = true) →
      (clientInvoke K c false r).outcome ≠ .value v := by
    intro r hr
    unfold clientInvoke
    cases r with
    | none => simp
    | some rep =>
      have hx := hr rep rfl
      simp only [hx, if_true]
      cases c.loads rep.body with
      | none => simp
      | some lit =>
        simp only
        cases recreate K lit with
        | error x => cases x <;> simp [raisedBy]
        | ok l =>
          cases l with
          | one o => cases o <;> simp [raiseData, raisedBy]
          | many os => simp [raisedBy]
  unfold clientCall
  apply key
  intro rep hrep
  unfold serverCall at hrep
  simp only at hrep
  by_cases hx : (S.info e.cls).isException = true
  · simp only [hx, if_true] at hrep
    unfold errorPath at hrep
    simp only at hrep
    split at hrep
    · split at hrep
      · simp only [Option.some.injEq] at hrep; rw [← hrep]
      · cases hrep
    · cases hrep
  · simp only [hx, Bool.false_eq_true, if_false] at hrep
    cases hrep

/-- class relations as Python has them: a ConnectionClosedError is a CommunicationError -/
def FlagsSane (info : Str → Flags) : Prop := ∀ q, (info q).isConnClosed = true → (info q).isComm = true

theorem errorPath_no_hang {W : Type} (S : ServerEnv) (hs : FlagsSane S.info) (c : Codec W) (R : Render) (xv : Exc)
    (tb : Val) (cb : Bool) : (errorPath S c R xv tb cb).reply = none → (errorPath S c R xv tb cb).conn = .dropped := by
  unfold errorPath
  simp only
  split
  · split
    · intro h; cases h
    · intro _; rfl
  · rename_i hcond
    intro _
    have hcomm : (S.info xv.cls).isComm = true := by
      by_cases hcl : (S.info xv.cls).isConnClosed = true
      · exact hs _ hcl
      · simp only [repliesTo, hcl, Bool.not_false, Bool.true_and, Bool.or_eq_true, Bool.not_eq_true', not_or,
          Bool.not_eq_true, Bool.not_eq_false] at hcond
        exact hcond.2
    simp [reraisesAfter, hcomm]

/-- **C07_no_hang.**  Whatever the serializer library does and whatever is raised or returned: when the server sends
    no reply to a single call or to a batch, it drops the connection — the caller's receive ends with a
    ConnectionClosedError (`connLost`, the proxy releases its end and reconnects on the next call); there is no state
    in which the caller waits on a connection the server keeps open. -/
theorem C07_no_hang {W : Type} (S : ServerEnv) (hs : FlagsSane S.info) (K : ClientEnv) (c : Codec W) (R : Render)
    (tb : Val) :
    (∀ kind step, (serverCall S c R kind step tb).reply = none →
        (serverCall S c R kind step tb).conn = .dropped
        ∧ clientCall S K c R kind step tb = (⟨[], .connLost, true⟩, .dropped))
    ∧ (∀ bf steps, (serverBatch S c R bf steps tb).reply = none →
        (serverBatch S c R bf steps tb).conn = .dropped
        ∧ clientBatch S K c R bf steps tb = (⟨[], .connLost, true⟩, .dropped)) := by
  constructor
  · intro kind step h
    have hd : (serverCall S c R kind step tb).conn = .dropped := by
      revert h
      unfold serverCall
      cases step with
      | ret v =>
        simp only
        cases c.dumps v with
        | some w => intro h; cases h
        | none => exact errorPath_no_hang S hs c R _ tb _
      | raise e =>
        simp only
        split
        · exact errorPath_no_hang S hs c R _ tb _
        · intro _; rfl
    refine ⟨hd, ?_⟩
    unfold clientCall
    simp only [h, hd, clientInvoke]
  · intro bf steps h
    have hd : (serverBatch S c R bf steps tb).conn = .dropped := by
      revert h
      unfold serverBatch
      cases batchLoop S c R bf tb steps with
      | done items =>
        simp only
        cases c.dumps (.list (items.map itemLit)) with
        | some w => intro h; cases h
        | none => exact errorPath_no_hang S hs c R _ tb _
      | escaped e =>
        simp only
        split
        · exact errorPath_no_hang S hs c R _ tb _
        · intro _; rfl
    refine ⟨hd, ?_⟩
    unfold clientBatch
    simp only [h, hd, clientInvoke]

/-- **C07_usable_after.**  After a forwarded exception (round trip or fallback: any call whose outcome and fate are
    those the theorems above give) the next call on the proxy goes through, provided the method is no callback and
    the exception's class is no Communication/SecurityError: the server kept the connection. -/
theorem C07_usable_after (f : Flags) (kind : CallKind) (o : ClientOut)
    (hcb : kind.isCallback = false) (hcomm : f.isComm = false) (hsec : f.isSecurity = false) :
    usableAfter (o, fateAfter f kind.isCallback) = true := by
  simp [usableAfter, fateAfter, hcb, hcomm, hsec]

/-- **C07_usable_after_roundtrip.**  The round trip of a single call leaves the proxy usable (no callback, no
    Communication/SecurityError). -/
theorem C07_usable_after_roundtrip {W : Type} (S : ServerEnv) (K : ClientEnv) (c : Codec W) (norm : Val → Val)
    (dom : Val → Prop) (law : CodecLaw c norm dom) (R : Render) (kind : CallKind) (e : Exc) (tb : Val)
    (hcontent : Content norm dom e tb) (hres : resolves K.names e.cls = some e.cls)
    (hctor : K.ctor e.cls e.args = .ok (e.cls, e.args)) (hsend : Sendable (S.info e.cls))
    (hcb : kind.isCallback = false) (hcomm : (S.info e.cls).isComm = false) (hsec : (S.info e.cls).isSecurity = false) :
    usableAfter (clientCall S K c R kind (.raise e) tb) = true := by
  rw [C07_roundtrip_partial S K c norm dom law R kind e tb hcontent hres hctor hsend]
  exact C07_usable_after _ kind _ hcb hcomm hsec

/-- **C07_usable_after_fallback.**  So does the fallback: after the generic error for an unserialisable exception the
    next call goes through. -/
theorem C07_usable_after_fallback {W : Type} (S : ServerEnv) (K : ClientEnv) (c : Codec W) (norm : Val → Val)
    (dom : Val → Prop) (law : CodecLaw c norm dom) (R : Render) (kind : CallKind) (e : Exc) (tb : Val)
    (htb : Lossless norm dom tb) (hun : c.dumps (excToDict (withTraceback tb e)) = none)
    (hres : resolves K.names qPyroError = some qPyroError)
    (hctor : ∀ m, K.ctor qPyroError [.str m] = .ok (qPyroError, [.str m])) (hsend : Sendable (S.info e.cls))
    (hcb : kind.isCallback = false) (hcomm : (S.info e.cls).isComm = false) (hsec : (S.info e.cls).isSecurity = false) :
    usableAfter (clientCall S K c R kind (.raise e) tb) = true := by
  rw [(C07_fallback S K c norm dom law R kind e tb htb hun hres hctor hsend).1]
  exact C07_usable_after _ kind _ hcb hcomm hsec

/-- **C07_usable_after_comm.**  A forwarded exception that is a CommunicationError on the caller's side (of the forwarded
    classes: SerializeError) leaves the proxy usable although the server drops the connection after replying: raising
    it inside `_pyroInvoke` releases the proxy's end, the next call reconnects.  (Two-call history: call 1 raises
    SerializeError remotely, call 2 must get its own result.) -/
theorem C07_usable_after_comm {W : Type} (S : ServerEnv) (K : ClientEnv) (c : Codec W) (norm : Val → Val)
    (dom : Val → Prop) (law : CodecLaw c norm dom) (R : Render) (kind : CallKind) (e : Exc) (tb : Val)
    (hcontent : Content norm dom e tb) (hres : resolves K.names e.cls = some e.cls)
    (hctor : K.ctor e.cls e.args = .ok (e.cls, e.args)) (hsend : Sendable (S.info e.cls))
    (hcomm : (K.info e.cls).isComm = true) :
    usableAfter (clientCall S K c R kind (.raise e) tb) = true := by
  rw [C07_roundtrip_partial S K c norm dom law R kind e tb hcontent hres hctor hsend]
  simp [usableAfter, raisedBy, releases, withTraceback, hcomm]

/-- **C07_stream_item_after_housekeeping.**  A housekeeping run between two items does not touch the stream of a
    connected client that is younger than `ITER_STREAM_LIFETIME` (or when no lifetime is configured), whatever
    `ITER_STREAM_LINGER` is: the next item's exception travels exactly as without the run (so `C07_roundtrip_partial`
    applies to it). -/
theorem C07_stream_item_after_housekeeping {W : Type} (S : ServerEnv) (K : ClientEnv) (c : Codec W) (R : Render)
    (lifetime linger : Nat) (s : StreamAge) (step : Step) (tb : Val)
    (hconn : s.lingering = none) (hyoung : lifetime = 0 ∨ s.age ≤ lifetime) :
    streamItemCall S K c R lifetime linger s step tb = clientCall S K c R .streamItem step tb := by
  have hs : streamSurvives lifetime linger s = true := by
    unfold streamSurvives
    rw [hconn]
    rcases hyoung with h | h
    · subst h; simp
    · have : ¬ lifetime < s.age := by omega
      simp [this]
  unfold streamItemCall
  rw [if_pos hs]

/-- after a batch whose member raised, the connection is kept as well (second component of
    `C07_roundtrip_batch_partial` / `C07_fallback_batch`) -/
theorem C07_usable_after_batch (o : ClientOut) : usableAfter (o, ConnFate.active) = true := by
  simp [usableAfter]

/-! ## proxies that retry (MAX_RETRIES / _pyroMaxRetries ≥ 1) -/

theorem retryLoop_some (K : ClientEnv) (m : Nat) (run : Nat → ClientOut × ConnFate) :
    ∀ (rem att : Nat), att + rem = m + 1 → 1 ≤ rem →
      ∃ r k, retryLoop K m run rem att = (some r, k + 1) ∧ att ≤ k ∧ k ≤ m ∧ r = run k
        ∧ (retryable K r.1.outcome = true → k = m) := by
  intro rem
  induction rem with
  | zero => intro att _ h; omega
  | succ n ih =>
    intro att hsum _
    unfold retryLoop
    by_cases hr : retryable K (run att).1.outcome = true
    · simp only [hr, if_true]
      by_cases hlast : att ≥ m
      · rw [if_pos hlast]
        exact ⟨run att, att, rfl, Nat.le_refl _, by omega, rfl, fun _ => by omega⟩
      · rw [if_neg hlast]
        obtain ⟨r, k, h1, h2, h3, h4, h5⟩ := ih (att + 1) (by omega) (by omega)
        exact ⟨r, k, h1, by omega, h3, h4, h5⟩
    · simp only [hr, Bool.false_eq_true, if_false]
      refine ⟨run att, att, rfl, Nat.le_refl _, by omega, rfl, ?_⟩
      intro h; exact absurd h hr

/-- **C07_retry_never_none.**  With the loop bound of the code (`range(max_retries + 1)`), whatever every attempt
    does and for every `max_retries`: a method call never falls out of the retry loop — it ends with what one of its
    attempts did (it *raises* the last attempt's communication error instead of returning None), after at most
    `max_retries + 1` sends, and an attempt whose outcome is not a ConnectionClosed/TimeoutError is final. -/
theorem C07_retry_never_none (K : ClientEnv) (m : Nat) (run : Nat → ClientOut × ConnFate) :
    ∃ r k, remoteMethod K (retryBound m) m run = (some r, k + 1) ∧ k ≤ m ∧ r = run k
      ∧ (retryable K r.1.outcome = true → k = m) := by
  obtain ⟨r, k, h1, _, h3, h4, h5⟩ := retryLoop_some K m run (m + 1) 0 (by omega) (by omega)
  exact ⟨r, k, h1, h3, h4, h5⟩

/-- **C07_retry_forwarded_once.**  An attempt that ends in anything but a ConnectionClosed/TimeoutError (a forwarded
    exception in particular) is not repeated: the call does what the first attempt did, the remote code ran once. -/
theorem C07_retry_forwarded_once (K : ClientEnv) (m : Nat) (run : Nat → ClientOut × ConnFate)
    (h : retryable K (run 0).1.outcome = false) :
    remoteMethod K (retryBound m) m run = (some (run 0), 1) := by
  unfold remoteMethod retryBound retryLoop
  simp only [h, Bool.false_eq_true, if_false]

/-- **C07_roundtrip_retry.**  The round trip through a retrying proxy: same conclusion as `C07_roundtrip_partial`,
    for every `max_retries`, with one execution of the remote code (the raised class is no ConnectionClosed/TimeoutError
    on the caller's side). -/
theorem C07_roundtrip_retry {W : Type} (S : ServerEnv) (K : ClientEnv) (c : Codec W) (norm : Val → Val)
    (dom : Val → Prop) (law : CodecLaw c norm dom) (R : Render) (cb : Bool) (e : Exc) (tb : Val) (m : Nat)
    (hcontent : Content norm dom e tb) (hres : resolves K.names e.cls = some e.cls)
    (hctor : K.ctor e.cls e.args = .ok (e.cls, e.args)) (hsend : Sendable (S.info e.cls))
    (hnc : (K.info e.cls).isConnClosed = false) (hnt : (K.info e.cls).isPyroTimeout = false) :
    remoteMethod K (retryBound m) m (fun _ => clientCall S K c R (.plain cb) (.raise e) tb)
      = (some (raisedBy K (withTraceback tb e), fateAfter (S.info e.cls) cb), 1) := by
  have hrt := C07_roundtrip_partial S K c norm dom law R (.plain cb) e tb hcontent hres hctor hsend
  rw [C07_retry_forwarded_once K m _ (by
    simp only [hrt, raisedBy, retryable, withTraceback, hnc, hnt, Bool.or_false])]
  simp only [hrt, CallKind.isCallback]

/-- why the bound matters: with `range(max(max_retries, 1))` and `max_retries = 1`, a call whose every attempt loses
    the connection falls out of the loop — the call returns None.  (Obligation `C07_gen_retry_shape` pins the bound.) -/
theorem C07_retry_bound_matters (K : ClientEnv) :
    (remoteMethod K (max 1 1) 1 (fun _ => (⟨[], .connLost, true⟩, .dropped))).1.isNone = true := by
  rfl

/-! ## classes the receiver does not know -/

/-- **C07_unknown_class.**  An exception of a class outside the receiver's whitelist (an application class
    `ns.Name`: no double underscore, not a Pyro5 / struct / builtins / sqlite3 name, no converter registered), with
    lossless content, makes the caller raise `SerializeError("unsupported serialized class: ns.Name")` — a Pyro error
    naming the original's class; the proxy releases its connection (SerializeError is a CommunicationError) and the
    next call reconnects: usable. -/
theorem C07_unknown_class {W : Type} (S : ServerEnv) (K : ClientEnv) (c : Codec W) (norm : Val → Val)
    (dom : Val → Prop) (law : CodecLaw c norm dom) (R : Render) (kind : CallKind) (e : Exc) (tb : Val)
    (ns short : Str)
    (hcontent : Content norm dom e tb)
    (hsend : Sendable (S.info e.cls))
    (h1 : e.cls ∉ K.names.registry) (h2 : hasDunder e.cls = false) (h3 : e.cls ∉ fixedPyroClasses)
    (h4 : utilPrefix.isPrefixOf e.cls = false) (h5 : errorsPrefix.isPrefixOf e.cls = false)
    (h6 : ¬ e.cls = qStructError) (h7 : ¬ e.cls = wrapperTag)
    (h8 : assoc e.cls K.names.allExceptions = none) (h9 : splitDot e.cls = some (ns, short))
    (h10 : ¬ (ns = cs "builtins" ∨ ns = cs "exceptions")) (h11 : ¬ ns = cs "sqlite3")
    (hser : (K.info qSerializeError).isComm = true) :
    (clientCall S K c R kind (.raise e) tb).1
        = ⟨[], .raised (pyroErr qSerializeError (msgUnsupported ++ e.cls)), true⟩
      ∧ usableAfter (clientCall S K c R kind (.raise e) tb) = true := by
  obtain ⟨w, A, hserx, hA, hl⟩ := serializeException_ok law R e tb hcontent
  have hout : (clientCall S K c R kind (.raise e) tb).1
      = ⟨[], .raised (pyroErr qSerializeError (msgUnsupported ++ e.cls)), true⟩ := by
    unfold clientCall serverCall
    simp only [hsend.exc, if_true]
    rw [errorPath_sent S c R e tb kind.isCallback hsend _ w hserx]
    unfold clientInvoke
    simp only [hl, recreate, recreateItem, lookup_arrived_class, Option.isSome_some, if_true]
    rw [dictFuel_eq]
    unfold dictToClass
    simp only [lookup_arrived_class, h1, if_false, h2, Bool.false_eq_true, h3, h4, h5, h6, h7,
      lookup_arrived_exception, truthy, if_true, h8, h9, h10, h11, false_and, Except.map]
    simp only [raisedBy, releases, pyroErr, hser, Bool.true_or]
  refine ⟨hout, ?_⟩
  simp only [usableAfter, hout, Bool.or_true]

/-! ## the full statement, and why only part of it holds -/

/-- the classes the property quantifies over: every exception class of `builtins` and every Pyro5 error
    (extracted; `struct.error` is in the table too but not in the property's quantifier) -/
def whitelist : List Str := (Pyro.Gen.C07.classFlags.map Prod.fst).filter (fun q => q != qStructError)

/-- **C07_roundtrip_Statement** — the property at full strength for single calls: *every* whitelisted class,
    with the extracted class relations and name tables, round-trips through every lawful serializer library. -/
def C07_roundtrip_Statement : Prop :=
  ∀ (W : Type) (c : Codec W) (norm : Val → Val) (dom : Val → Prop), CodecLaw c norm dom →
  ∀ (R : Render) (ctor : Str → List Val → Except Exc (Str × List Val)) (kind : CallKind) (e : Exc) (tb : Val),
    e.cls ∈ whitelist → Content norm dom e tb → ctor e.cls e.args = .ok (e.cls, e.args) →
    (clientCall genServerEnv (genClientEnv ctor) c R kind (.raise e) tb).1.outcome = .raised (withTraceback tb e)

/-- the same for a batch member -/
def C07_roundtrip_batch_Statement : Prop :=
  ∀ (W : Type) (c : Codec W) (norm : Val → Val) (dom : Val → Prop), CodecLaw c norm dom →
  ∀ (R : Render) (ctor : Str → List Val → Except Exc (Str × List Val)) (bf : Bool) (before : List Val) (after : List Step)
    (e : Exc) (tb : Val),
    e.cls ∈ whitelist → Content norm dom e tb → ctor e.cls e.args = .ok (e.cls, e.args) →
    (∀ v ∈ before, Lossless norm dom v ∧ hasClassDict v = false) →
    (clientBatch genServerEnv (genClientEnv ctor) c R bf (before.map .ret ++ .raise e :: after) tb).1.outcome
      = .raised (withTraceback tb e)

def isRaised : Outcome → Bool
  | .raised _ => true
  | _ => false

def isConnLost : Outcome → Bool
  | .connLost => true
  | _ => false

def idCtor : Str → List Val → Except Exc (Str × List Val) := fun c a => .ok (c, a)
def plainRender : Render := ⟨fun e => e.cls, fun q => q⟩
def tbVal : Val := .list [.str (cs "Traceback (most recent call last):")]

theorem content_empty (q : Str) : Content (relist false) (fun v => hasObj v = false) ⟨q, [], []⟩ tbVal := by
  refine ⟨?_, ?_, ⟨rfl, rfl⟩, ?_⟩
  · intro a ha; cases ha
  · intro p hp; cases hp
  · simp [keys]

/-- witness 1: a remote method raising `KeyboardInterrupt` (a BaseException that is no Exception) — the server's
    handler does not catch it, no reply is sent, the caller sees the connection close -/
def witnessNonException : Exc := ⟨cs "builtins.KeyboardInterrupt", [], []⟩
/-- witness 2: a remote method raising `Pyro5.errors.TimeoutError` (a CommunicationError) — caught, not reported
    back, re-raised: the caller sees the connection close -/
def witnessComm : Exc := ⟨cs "Pyro5.errors.TimeoutError", [], []⟩
/-- witness 3: a batch member raising `StopIteration` — forwarded, but the caller's result generator turns it into
    RuntimeError (PEP 479) -/
def witnessStop : Exc := ⟨cs "builtins.StopIteration", [], []⟩

theorem witnessNonException_lost :
    isConnLost (clientCall genServerEnv (genClientEnv idCtor) (treeCodec false (pyErr qTypeError)) plainRender
      (.plain false) (.raise witnessNonException) tbVal).1.outcome = true := by decide +kernel

theorem witnessComm_lost :
    isConnLost (clientCall genServerEnv (genClientEnv idCtor) (treeCodec false (pyErr qTypeError)) plainRender
      (.plain false) (.raise witnessComm) tbVal).1.outcome = true := by decide +kernel

/-- **C07_roundtrip_fails_nonexception.**  The full statement is false: witness 1. -/
theorem C07_roundtrip_fails_nonexception : ¬ C07_roundtrip_Statement := by
  intro h
  have := h Val (treeCodec false (pyErr qTypeError)) _ _ (treeCodec_law false _) plainRender idCtor (.plain false)
    witnessNonException tbVal (by decide +kernel) (content_empty _) rfl
  have hl := witnessNonException_lost
  rw [this] at hl
  cases hl

/-- **C07_roundtrip_fails_comm.**  The full statement is false also inside `Exception`: witness 2. -/
theorem C07_roundtrip_fails_comm : ¬ C07_roundtrip_Statement := by
  intro h
  have := h Val (treeCodec false (pyErr qTypeError)) _ _ (treeCodec_law false _) plainRender idCtor (.plain false)
    witnessComm tbVal (by decide +kernel) (content_empty _) rfl
  have hl := witnessComm_lost
  rw [this] at hl
  cases hl

def raisedClass : Outcome → Str
  | .raised e => e.cls
  | _ => []

theorem witnessStop_runtime :
    raisedClass (clientBatch genServerEnv (genClientEnv idCtor) (treeCodec false (pyErr qTypeError)) plainRender true
      ([].map .ret ++ .raise witnessStop :: []) tbVal).1.outcome = qRuntimeError := by decide +kernel

/-- **C07_batch_stopiteration.**  The full batch statement is false: witness 3 — the caller gets RuntimeError. -/
theorem C07_batch_stopiteration : ¬ C07_roundtrip_batch_Statement := by
  intro h
  have := h Val (treeCodec false (pyErr qTypeError)) _ _ (treeCodec_law false _) plainRender idCtor true [] []
    witnessStop tbVal (by decide +kernel) (content_empty _) rfl (by intro v hv; cases hv)
  have hl := witnessStop_runtime
  rw [this] at hl
  revert hl
  decide

/-! ## obligations about the extracted facts -/

/-- every whitelisted class name is resolved by the receiver's dispatch to that very class -/
theorem C07_gen_whitelist_resolves : ∀ q ∈ whitelist, resolves genNames q = some q := by decide +kernel

/-- the whitelist is what the property says: 77 classes on this interpreter, the keys of `all_exceptions` map into it -/
theorem C07_gen_whitelist_covers :
    whitelist.length = Pyro.Gen.C07.classFlags.length - 1
    ∧ ∀ p ∈ Pyro.Gen.C07.allExceptions, p.2 ∈ whitelist := by decide +kernel

/-- `struct.error` and the generic error used by the fallback resolve too; SerializeError is a CommunicationError
    (so the proxy releases on it), PyroError is not; no whitelisted class other than StopIteration is one -/
theorem C07_gen_special :
    resolves genNames qStructError = some qStructError
    ∧ resolves genNames qPyroError = some qPyroError
    ∧ (genInfo qSerializeError).isComm = true ∧ (genInfo qSerializeError).isSerialize = true
    ∧ (genInfo qPyroError).isComm = false ∧ (genInfo qPyroError).isStopIter = false
    ∧ (genInfo qPyroError).isSecurity = false := by decide +kernel

/-- the extracted relations are consistent with Python's class tree: ConnectionClosed ⊂ Communication,
    Serialize ⊂ Communication, everything flagged Communication/Security is an Exception -/
theorem C07_gen_flags_sane : ∀ r ∈ Pyro.Gen.C07.classFlags,
    (r.2.isConnClosed = true → r.2.isComm = true) ∧ (r.2.isSerialize = true → r.2.isComm = true)
    ∧ (r.2.isComm = true → r.2.isException = true) ∧ (r.2.isSecurity = true → r.2.isException = true) := by
  decide +kernel

theorem genInfo_sane : FlagsSane genInfo := by
  intro q
  unfold genInfo
  cases h : assoc q Pyro.Gen.C07.classFlags with
  | none => simp [defaultFlags]
  | some f =>
    simp only [Option.getD_some]
    have hmem : (q, f) ∈ Pyro.Gen.C07.classFlags := assoc_mem q f _ h
    exact (C07_gen_flags_sane (q, f) hmem).1

/-! The following obligations compare the model's *decision functions* with behaviour probed on the real code at
    extraction time (harness/props/c07_probe.py drives the real handleRequest / _pyroInvoke / BatchProxy / retry loop over
    in-memory sockets); no fact is read from the syntax of the source. -/

/-- **the server's error handler**: for every class (all 77 + struct.error) and both kinds of method, the real
    handleRequest sent an exception reply exactly when the model's `isException ∧ repliesTo` says so, and let the exception
    leave (connection dropped) exactly when the model's `¬isException ∨ reraisesAfter` says so -/
theorem C07_gen_error_path : ∀ r ∈ Pyro.Gen.C07.errorPathProbe,
    r.2.2.1 = ((genInfo r.1).isException && repliesTo (genInfo r.1))
    ∧ r.2.2.2 = (!(genInfo r.1).isException || reraisesAfter (genInfo r.1) r.2.1) := by decide +kernel

theorem C07_gen_error_path_covers :
    Pyro.Gen.C07.errorPathProbe.map (fun r => (r.1, r.2.1))
      = Pyro.Gen.C07.classFlags.flatMap (fun c => [(c.1, false), (c.1, true)]) := by decide +kernel

/-- attribute read / write and stream items decide like a plain call; what an accessor raises (AttributeError on an
    object with `__getattr__` included) is what is sent; a forwarded exception is intact and gains exactly the attribute
    `_pyroTraceback`, a non-empty list of str -/
theorem C07_gen_other_kinds :
    Pyro.Gen.C07.otherKindsDecideAlike = true ∧ Pyro.Gen.C07.accessorErrorForwarded = true
    ∧ Pyro.Gen.C07.youngStreamSurvivesHousekeeping = true
    ∧ Pyro.Gen.C07.forwardedIntact = true ∧ Pyro.Gen.C07.tracebackIsLines = true
    ∧ Pyro.Gen.C07.tracebackAttr.map String.toList = [kTraceback] := by decide

/-- the fallback: exactly a PyroError, with the modelled text, carrying only the traceback, nothing re-raised -/
theorem C07_gen_fallback :
    Pyro.Gen.C07.fallbackIsPyroError = true ∧ Pyro.Gen.C07.fallbackTextMatches = true
    ∧ Pyro.Gen.C07.fallbackCarriesOnlyTraceback = true := by decide

/-- **the batch loop**: a member's exception is wrapped (with traceback, after the earlier results, the later calls
    not run) exactly for `Exception`s; anything else leaves handleRequest without a reply -/
theorem C07_gen_batch : (∀ r ∈ Pyro.Gen.C07.batchProbe,
      r.2.1 = (genInfo r.1).isException ∧ r.2.2.1 = !(genInfo r.1).isException ∧ r.2.2.2 = (genInfo r.1).isException)
    ∧ Pyro.Gen.C07.batchProbe.map (·.1) = Pyro.Gen.C07.classFlags.map (·.1) := by decide +kernel

/-- the batch loop wraps the generic PyroError when the member's exception cannot be serialised -/
theorem C07_gen_batch_fallback : Pyro.Gen.C07.batchFallback = true := by decide

/-- **the caller**: `_pyroInvoke` raises the decoded exception and releases the connection exactly for
    CommunicationErrors and KeyboardInterrupt; a plain reply is returned; no reply is a ConnectionClosedError with release;
    the batch result iterator yields, then raises without releasing, and turns StopIteration into RuntimeError -/
theorem C07_gen_client : (∀ r ∈ Pyro.Gen.C07.clientProbe, r.2 = ((genInfo r.1).isComm || (genInfo r.1).isKbdInt))
    ∧ 70 ≤ Pyro.Gen.C07.clientProbe.length
    ∧ Pyro.Gen.C07.clientReturnsValue = true ∧ Pyro.Gen.C07.clientNoReplyIsConnectionClosedAndReleases = true
    ∧ Pyro.Gen.C07.batchYieldsThenRaises = true ∧ Pyro.Gen.C07.batchRaiseDoesNotRelease = true
    ∧ Pyro.Gen.C07.batchStopIterationBecomesRuntimeError = true := by decide +kernel

/-- what the scripted send of the retry probe does at an attempt (scripts as numbered in `Gen.C07.retryProbe`) -/
def probeOutcome (script attempt : Nat) : Outcome :=
  match script with
  | 0 => .connLost
  | 1 => .raised ⟨cs "Pyro5.errors.TimeoutError", [], []⟩
  | 2 => .raised ⟨cs "Pyro5.errors.CommunicationError", [], []⟩
  | 3 => .raised ⟨cs "builtins.ValueError", [], []⟩
  | 4 => .value .none
  | 5 => if attempt < 1 then .connLost else .value .none
  | 6 => if attempt < 2 then .connLost else .value .none
  | 7 => if attempt < 1 then .raised ⟨cs "Pyro5.errors.TimeoutError", [], []⟩
         else if attempt < 2 then .connLost else .value .none
  | _ => .unmodelled

/-- outcome numbers of `Gen.C07.retryProbe`: 0 value, 1 returned None, 2 ConnectionClosedError, 3 TimeoutError,
    4 other CommunicationError, 5 ValueError, 6 other -/
def outcomeCode : Option (ClientOut × ConnFate) → Nat
  | none => 1
  | some r =>
    match r.1.outcome with
    | .value _ => 0
    | .connLost => 2
    | .raised e =>
      if e.cls = cs "Pyro5.errors.ConnectionClosedError" then 2
      else if e.cls = cs "Pyro5.errors.TimeoutError" then 3
      else if e.cls = cs "Pyro5.errors.CommunicationError" then 4
      else if e.cls = cs "builtins.ValueError" then 5 else 6
    | _ => 6

/-- **the retry loop**: on every probed (max_retries 0–3, script) the real `_RemoteMethod` call ended as the model's
    `remoteMethod` with the bound `retryBound` does, after the same number of sends; attribute reads bypass it -/
theorem C07_gen_retry : (∀ r ∈ Pyro.Gen.C07.retryProbe,
      (let res := remoteMethod (genClientEnv idCtor) (retryBound r.1) r.1
          (fun a => (⟨[], probeOutcome r.2.1 a, false⟩, ConnFate.active));
       (outcomeCode res.1, res.2)) = (r.2.2.1, r.2.2.2))
    ∧ 32 ≤ Pyro.Gen.C07.retryProbe.length ∧ Pyro.Gen.C07.attributeReadSendsOnce = true := by decide +kernel

/-- the two classes the retry loop catches are flagged as such, and nothing else in the whitelist is -/
theorem C07_gen_retry_classes :
    (Pyro.Gen.C07.classFlags.filter (fun r => r.2.isConnClosed || r.2.isPyroTimeout)).map Prod.fst
      = [cs "Pyro5.errors.ConnectionClosedError", cs "Pyro5.errors.TimeoutError"] := by decide +kernel

/-- **the dicts**: what `class_to_dict` builds for an exception (keys `__class__` = module.Name, `__exception__` = True,
    `args`, `attributes` = vars), the wrapper's dict, `raiseIt`, and `make_exception` on four inputs -/
theorem C07_gen_dict :
    Pyro.Gen.C07.excDictProbe = [("__class__", "'builtins.ValueError'"), ("__exception__", "True"), ("args", "('a', 1)"),
      ("attributes", "{'x': 5, 'y': [1, {'k': None}]}")]
    ∧ Pyro.Gen.C07.excDictPyro = [("__class__", "'Pyro5.errors.NamingError'"), ("__exception__", "True"), ("args", "()"),
      ("attributes", "{}")]
    ∧ Pyro.Gen.C07.excDictProbe.map (fun p => p.1.toList) = [kClass, kException, kArgs, kAttributes]
    ∧ Pyro.Gen.C07.wrapperDictIsClassPlusException = true ∧ Pyro.Gen.C07.wrapperRaisesItsException = true
    ∧ Pyro.Gen.C07.makeExceptionProbe = [("tuple-args+attrs", "builtins.ValueError ('a', 1) [('x', 5), ('y', [1])]"),
      ("list-args", "builtins.ValueError ('a',) []"), ("empty-args", "builtins.ValueError () []"),
      ("no-args-key", "raises builtins.KeyError")] := by decide

/-- **the class-name dispatch**: for every probed serialised class name (all whitelisted names, all keys of
    `all_exceptions`, and thirty odd ones) the real `dict_to_class` calls `make_exception` with exactly the class the
    model's `resolves` gives — or does not call it at all -/
theorem C07_gen_dispatch : (∀ p ∈ Pyro.Gen.C07.dispatchProbe, resolves genNames p.1 = p.2)
    ∧ (∀ q ∈ whitelist, q ∈ Pyro.Gen.C07.dispatchProbe.map (·.1)) := by decide +kernel

/-! ## the partial theorems instantiated with the extracted tables -/

/-- **C07_roundtrip_whitelisted.**  With the extracted whitelist, name tables and class relations: every whitelisted
    class that is an `Exception` and no CommunicationError other than SerializeError round-trips in every single-call
    kind through every lawful serializer library. -/
theorem C07_roundtrip_whitelisted {W : Type} (c : Codec W) (norm : Val → Val) (dom : Val → Prop)
    (law : CodecLaw c norm dom) (R : Render) (ctor : Str → List Val → Except Exc (Str × List Val)) (kind : CallKind)
    (e : Exc) (tb : Val) (hw : e.cls ∈ whitelist) (hcontent : Content norm dom e tb)
    (hctor : ctor e.cls e.args = .ok (e.cls, e.args)) (hsend : Sendable (genInfo e.cls)) :
    clientCall genServerEnv (genClientEnv ctor) c R kind (.raise e) tb
      = (raisedBy (genClientEnv ctor) (withTraceback tb e), fateAfter (genInfo e.cls) kind.isCallback) :=
  C07_roundtrip_partial genServerEnv (genClientEnv ctor) c norm dom law R kind e tb hcontent
    (C07_gen_whitelist_resolves e.cls hw) hctor hsend

/-- which whitelisted classes the hypothesis `Sendable` excludes (by name, from the extracted relations) -/
def notSendable : List Str :=
  whitelist.filter (fun q => !((genInfo q).isException && !(genInfo q).isConnClosed
    && ((genInfo q).isSerialize || !(genInfo q).isComm)))

/-- every whitelisted class outside `notSendable` satisfies `Sendable` -/
theorem C07_gen_sendable : ∀ q ∈ whitelist, q ∉ notSendable → Sendable (genInfo q) := by
  intro q hq hn
  have : ((genInfo q).isException && !(genInfo q).isConnClosed
      && ((genInfo q).isSerialize || !(genInfo q).isComm)) = true := by
    cases hb : ((genInfo q).isException && !(genInfo q).isConnClosed
        && ((genInfo q).isSerialize || !(genInfo q).isComm)) with
    | true => rfl
    | false =>
      exfalso
      apply hn
      simp only [notSendable, List.mem_filter]
      exact ⟨hq, by simp [hb]⟩
  simp only [Bool.and_eq_true, Bool.or_eq_true, Bool.not_eq_true'] at this
  exact ⟨this.1.1, this.1.2, this.2⟩

/-! ## non-vacuity: concrete values meet the hypotheses -/

def exampleExc : Exc :=
  ⟨cs "builtins.ValueError", [.str (cs "bad value"), .int 42, .list [.none, .bool true]],
   [(cs "code", .int 7), (cs "detail", .dict [(cs "k", .str (cs "v"))])]⟩

theorem exampleContent (seq : Bool) : Content (relist seq) (fun v => hasObj v = false)
    { exampleExc with args := [.str (cs "bad value"), .int 42, .list [.none, .bool true]] } tbVal := by
  refine ⟨?_, ?_, ⟨rfl, rfl⟩, by decide⟩
  · intro a ha
    simp only [List.mem_cons, List.not_mem_nil, or_false] at ha
    rcases ha with rfl | rfl | rfl <;> exact ⟨rfl, rfl⟩
  · intro p hp
    simp only [exampleExc, List.mem_cons, List.not_mem_nil, or_false] at hp
    rcases hp with rfl | rfl <;> exact ⟨rfl, rfl⟩

/-- the hypotheses of `C07_roundtrip_whitelisted` hold for a ValueError with three arguments and two attributes,
    for the json-like codec (tuples come back as lists) -/
example : exampleExc.cls ∈ whitelist ∧ Sendable (genInfo exampleExc.cls)
    ∧ idCtor exampleExc.cls exampleExc.args = .ok (exampleExc.cls, exampleExc.args) :=
  ⟨by decide +kernel, ⟨by decide +kernel, by decide +kernel, Or.inr (by decide +kernel)⟩, rfl⟩

/-- … and the conclusion is the non-trivial one: the caller raises a ValueError with three arguments and *three*
    attributes (the two custom ones and the traceback) -/
example : (clientCall genServerEnv (genClientEnv idCtor) (treeCodec true (pyErr qTypeError)) plainRender .getattr
      (.raise exampleExc) tbVal).1.outcome = .raised (withTraceback tbVal exampleExc)
    ∧ (withTraceback tbVal exampleExc).attrs.length = 3 := by
  have := C07_roundtrip_whitelisted (treeCodec true (pyErr qTypeError)) _ _ (treeCodec_law true _) plainRender idCtor
    .getattr exampleExc tbVal (by decide +kernel) (exampleContent true) rfl
    ⟨by decide +kernel, by decide +kernel, Or.inr (by decide +kernel)⟩
  rw [this]
  exact ⟨rfl, by decide⟩

/-- an unserialisable attribute: the tree codec refuses the object, the hypothesis of `C07_fallback` holds -/
example : (treeCodec false (pyErr qTypeError)).dumps
    (excToDict (withTraceback tbVal ⟨cs "builtins.ValueError", [], [(cs "lock", .obj (cs "_thread.lock"))]⟩)) = none := by
  decide +kernel

/-- the excluded classes, by name: the five BaseExceptions that are no Exception and the five CommunicationErrors
    that are no SerializeError -/
example : notSendable = [cs "Pyro5.errors.CommunicationError", cs "Pyro5.errors.ConnectionClosedError",
    cs "Pyro5.errors.MessageTooLargeError", cs "Pyro5.errors.ProtocolError", cs "Pyro5.errors.TimeoutError",
    cs "builtins.BaseException", cs "builtins.BaseExceptionGroup", cs "builtins.GeneratorExit",
    cs "builtins.KeyboardInterrupt", cs "builtins.SystemExit"] := by decide +kernel

end Pyro.C07
