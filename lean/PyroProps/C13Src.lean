/-
  C13 — one poll round of the multiplex server (`SocketServer_Multiplex.events`), transcribed from the
  source on every run (harness/props/c13_tr.py → `Pyro.Gen.C13.eventsSrc`), proved equal to the
  hand-written model `Pyro.Cleanup.eventsModel` for ALL rounds, states and hook behaviours, and the
  property of a round: the disconnect handling, the unregistration and the close are made exactly for
  the connections that ended in the round — each once, in order, none for a connection that is still
  open — however many sockets are ready together and wherever the ended ones stand in the list.
-/
import PyroModel.Cleanup
import PyroModel.Gen.C13

namespace Pyro.C13Src

open Pyro.Cleanup

/-- a loop whose body agrees with `evBody`, followed by the housekeeping, is `eventsModel` -/
theorem loop_is_model (hr : HookBehaviour) (body : Ev → Stmt) (hb : ∀ e m, body e m = evBody hr e m) :
    ∀ (evs : List Ev) (m : Mux), seq (forEach evs body) housekeeping m = eventsModel hr m evs := by
  intro evs
  induction evs with
  | nil => intro m; simp [seq, forEach, housekeeping, eventsModel]
  | cons e es ih =>
    intro m
    have h := ih
    simp only [seq, forEach, eventsModel, hb] at h ⊢
    cases hbe : evBody hr e m with
    | ok m' => simpa using h m'
    | ret m' => rfl
    | raise x m' => rfl

/-- **C13_events_translated.**  The transcription of `events` computes, for every hook behaviour, every
    list of ready sockets and every state, exactly what the hand-written model computes. -/
theorem C13_events_translated (hr : HookBehaviour) (evs : List Ev) (m : Mux) :
    Pyro.Gen.C13.eventsSrc hr evs m = eventsModel hr m evs := by
  unfold Pyro.Gen.C13.eventsSrc
  apply loop_is_model
  intro e m
  obtain ⟨isL, id, acc, act, sd⟩ := e
  cases hs : m.shuttingDown <;> cases isL <;> cases act <;> cases acc <;>
    simp [seq, ifB, ret, skip, acceptThen, handleThen, ifTruthy, register, unregister, closeConn, callHook, tryExcept,
          evBody, drop, hs] <;>
    (try (cases hh : hr id <;> simp [hh])) <;>
    (try (rename_i x; cases x <;> simp))

/-! ### the property of a round, on the model -/

/-- nothing disturbs the round: no shutdown in progress or started, no BaseException out of a hook -/
structure Quiet (hr : HookBehaviour) (m : Mux) (evs : List Ev) : Prop where
  notDown : m.shuttingDown = false
  noShutdown : ∀ e ∈ evs, e.setsShutdown = false
  noBase : ∀ c, hr c ≠ some .base

/-- the state after an ended connection `c` was handled and dropped -/
def dropped (c : Nat) (m : Mux) : Mux :=
  { m with handled := m.handled ++ [c], shuttingDown := m.shuttingDown || false, hookLog := m.hookLog ++ [c], unregLog := m.unregLog ++ [c], registered := m.registered.erase c, closeLog := m.closeLog ++ [c] }

theorem drop_quiet (hr : HookBehaviour) (c : Nat) (m : Mux) (hq : hr c ≠ some .base) :
    drop hr c m = .ok { m with hookLog := m.hookLog ++ [c], unregLog := m.unregLog ++ [c],
                               registered := m.registered.erase c, closeLog := m.closeLog ++ [c] } := by
  unfold drop
  cases h : hr c with
  | none => rfl
  | some x => cases x with
    | user => rfl
    | base => exact absurd h hq

/-- **C13_round_cleanup.**  For every round (any number of ready sockets, in any order, any of them ended)
    that is not disturbed: `events` returns normally and has made the disconnect handling, the
    unregistration and the close for exactly the connections that ended in the round, in the order in
    which they were reported — nothing for the others —, has handled one request per ready connection, and
    has run the housekeeping once. -/
theorem C13_round_cleanup (hr : HookBehaviour) (evs : List Ev) :
    ∀ (m : Mux), Quiet hr m evs →
    ∃ m', eventsModel hr m evs = .ok m' ∧
      m'.hookLog = m.hookLog ++ ended evs ∧ m'.unregLog = m.unregLog ++ ended evs ∧
      m'.closeLog = m.closeLog ++ ended evs ∧ m'.handled = m.handled ++ readyConns evs ∧
      m'.housekeepings = m.housekeepings + 1 ∧ m'.shuttingDown = false := by
  induction evs with
  | nil => intro m q; exact ⟨_, rfl, by simp [ended], by simp [ended], by simp [ended], by simp [readyConns], rfl, q.notDown⟩
  | cons e es ih =>
    intro m q
    have hsd : e.setsShutdown = false := q.noShutdown e (by simp)
    have hrest : ∀ e' ∈ es, e'.setsShutdown = false := fun e' he' => q.noShutdown e' (by simp [he'])
    have hm := q.notDown
    obtain ⟨isL, id, acc, act, sd⟩ := e
    simp only at hsd; subst hsd
    cases isL with
    | true =>
      cases acc with
      | none =>
        obtain ⟨m', h1, h2⟩ := ih { m with shuttingDown := m.shuttingDown || false } ⟨by simp [hm], hrest, q.noBase⟩
        refine ⟨m', ?_, ?_⟩
        · simp [eventsModel, evBody, hm] at h1 ⊢; exact h1
        · simpa [ended, readyConns] using h2
      | some c =>
        obtain ⟨m', h1, h2⟩ := ih { m with shuttingDown := m.shuttingDown || false, registered := m.registered ++ [c] }
          ⟨by simp [hm], hrest, q.noBase⟩
        refine ⟨m', ?_, ?_⟩
        · simp [eventsModel, evBody, hm] at h1 ⊢; exact h1
        · simpa [ended, readyConns] using h2
    | false =>
      cases act with
      | true =>
        obtain ⟨m', h1, h2⟩ := ih { m with handled := m.handled ++ [id], shuttingDown := m.shuttingDown || false }
          ⟨by simp [hm], hrest, q.noBase⟩
        refine ⟨m', ?_, ?_⟩
        · simp [eventsModel, evBody, hm] at h1 ⊢; exact h1
        · simpa [ended, readyConns, List.append_assoc] using h2
      | false =>
        obtain ⟨m', h1, h2⟩ := ih (dropped id m) ⟨by simp [dropped, hm], hrest, q.noBase⟩
        refine ⟨m', ?_, ?_⟩
        · simp [eventsModel, evBody, hm, drop_quiet hr id _ (q.noBase id), dropped] at h1 ⊢; exact h1
        · simpa [ended, readyConns, List.append_assoc, dropped] using h2

theorem ended_sublist (evs : List Ev) : (ended evs).Sublist (readyConns evs) := by
  induction evs with
  | nil => simp [ended, readyConns]
  | cons e es ih =>
    obtain ⟨isL, id, acc, act, sd⟩ := e
    cases isL <;> cases act <;> simp [ended, readyConns] at ih ⊢ <;> first | exact ih | exact ih.cons _ | exact ih.cons₂ _

/-- **C13_round_once.**  In an undisturbed round in which every connection is reported at most once (what a
    selector does), the hook calls made by the round contain no connection twice, and a connection is
    among them if and only if it ended in this round: exactly once for each ended connection, never for
    one that is still open — whatever its position among the ready sockets.  The same for `close()`. -/
theorem C13_round_once (hr : HookBehaviour) (evs : List Ev) (m : Mux) (q : Quiet hr m evs)
    (hnd : (readyConns evs).Nodup) :
    ∃ m' new, eventsModel hr m evs = .ok m' ∧ m'.hookLog = m.hookLog ++ new ∧ m'.closeLog = m.closeLog ++ new ∧
      new.Nodup ∧ ∀ c, c ∈ new ↔ ∃ e ∈ evs, e.isListener = false ∧ e.active = false ∧ e.id = c := by
  obtain ⟨m', h1, h2, _, h4, _⟩ := C13_round_cleanup hr evs m q
  refine ⟨m', ended evs, h1, h2, h4, hnd.sublist (ended_sublist evs), ?_⟩
  intro c
  simp only [ended, List.mem_map, List.mem_filter, Bool.and_eq_true, Bool.not_eq_true']
  constructor
  · rintro ⟨e, ⟨he, h1, h2⟩, rfl⟩; exact ⟨e, he, h1, h2, rfl⟩
  · rintro ⟨e, he, h1, h2, rfl⟩; exact ⟨e, ⟨he, h1, h2⟩, rfl⟩

/-! ### the same, about the source as transcribed -/

/-- **C13_source_round_once.**  `C13_round_once` about the transcription of `events` itself. -/
theorem C13_source_round_once (hr : HookBehaviour) (evs : List Ev) (m : Mux) (q : Quiet hr m evs)
    (hnd : (readyConns evs).Nodup) :
    ∃ m' new, Pyro.Gen.C13.eventsSrc hr evs m = .ok m' ∧ m'.hookLog = m.hookLog ++ new ∧ m'.closeLog = m.closeLog ++ new ∧
      new.Nodup ∧ ∀ c, c ∈ new ↔ ∃ e ∈ evs, e.isListener = false ∧ e.active = false ∧ e.id = c := by
  rw [C13_events_translated]; exact C13_round_once hr evs m q hnd

/-! ### non-vacuity: an ended connection FOLLOWED by other ready sockets, a raising hook, a new client -/
private def round1 : List Ev :=
  [ { isListener := false, id := 1, active := false }, { isListener := false, id := 2, active := true },
    { isListener := false, id := 3, active := false }, { isListener := true, accepted := some 4 } ]
private def hr1 : HookBehaviour := fun c => if c = 3 then some .user else none
example : Quiet hr1 { registered := [1, 2, 3] } round1 ∧ (readyConns round1).Nodup := by
  refine ⟨⟨rfl, by decide, ?_⟩, by decide⟩
  intro c; unfold hr1; split <;> simp

end Pyro.C13Src
