/-
  C03Src.lean — the TRANSCRIPTION of the source (PyroModel/Gen/C03Src.lean, regenerated from Pyro5/client.py on every run by
  harness/props/c03_tr.py) computes what the hand-written model computes, for all inputs; the main theorems of C03 restated
  about the transcription.
-/
import PyroModel.Call
import PyroModel.CallOps
import PyroModel.Gen.C03Src
import PyroProofs.Call
import PyroProps.C03

set_option linter.unusedSimpArgs false

namespace Pyro.C03
open Pyro Pyro.Call Pyro.CallOps Pyro.Gen.C03Src

/-- agreement of two results: same outcome; and identical worlds / remaining scripts unless the (artificial) outcome is
    `scriptEnd` (the fault script ran out — the model reports the state at a different point then) -/
def Agree (a b : Outcome × World × List Ev) : Prop := a.1 = b.1 ∧ (b.1 ≠ .scriptEnd → a = b)

theorem and_mask (n : Nat) : n &&& 65535 = n % 65536 := by
  have := Nat.and_two_pow_sub_one_eq_mod n 16
  simpa using this

theorem flags_a (k : Kind) : ((if inOnewaySet k = true then flagsParam k ||| 4 else flagsParam k) &&& 4 = 0) ↔ k.isOneway = false := by
  cases k <;> decide
theorem flags_b (k : Kind) : ((if inOnewaySet k = true then flagsParam k ||| 32 ||| 4 else flagsParam k ||| 32) &&& 4 = 0) ↔ k.isOneway = false := by
  cases k <;> decide

set_option maxHeartbeats 4000000 in
theorem invokeOn_translated (blob raw : Bool) (k : Kind) (tok : Nat) (W : World) (c : Conn) (s : List Ev) (h : W.pc = .live c)
    (p : Pend) (l : List Msg) :
    Agree (run (pyroInvokeSrc blob raw k tok) ⟨W, s, p, l, W.seq⟩) (invokeOn real k tok W c s) := by
  obtain ⟨seq, pc, log, hist, connects, sends, reads⟩ := W
  simp only at h
  subst h
  obtain ⟨q, dead⟩ := c
  cases dead
  · cases s with
    | nil =>
      cases blob <;> cases ho : k.isOneway <;>
      simp [Agree, invokeSrc, run, pyroInvokeSrc, start, CallOps.bind, pure', checkOwner, readConnIsNone, blobBadArgs,
        readSeq, writeSeq, mkRequest, tryExcept, connSend, invokeOn, real, failWith, seqMod, and_mask,
        recvStub, release, raise, ret, delivered, serializerMismatch, isStreamReply, streamRefused, msgType,
        flags_a, flags_b, ho]
    | cons ev s' =>
      cases hr : ev.reachesServer <;> cases blob <;> cases ho : k.isOneway <;>
      simp [Agree, invokeSrc, run, pyroInvokeSrc, start, CallOps.bind, pure', checkOwner, readConnIsNone, blobBadArgs,
        readSeq, writeSeq, mkRequest, tryExcept, connSend, invokeOn, real, failWith, seqMod, and_mask,
        recvStub, release, raise, ret, delivered, serializerMismatch, isStreamReply, streamRefused, msgType,
        flags_a, flags_b, ho, hr] <;>
      (generalize deliver ev hist (hsMsg seq) _ = d
       obtain ⟨now, pend, dd, later⟩ := d
       cases hq : q ++ now with
       | nil => cases pend <;> simp [hq, pendOutcome, CallOps.bind, release, raise, ret]
       | cons m rest =>
         cases hh : m.hs <;> by_cases hs : m.seq = (seq + 1) % 65536 <;>
         simp [hq, hh, hs, pendOutcome, CallOps.bind, release, raise, ret])
  · cases blob <;> cases ho : k.isOneway <;>
    simp [Agree, invokeSrc, run, pyroInvokeSrc, start, CallOps.bind, pure', checkOwner, readConnIsNone, blobBadArgs,
      readSeq, writeSeq, mkRequest, tryExcept, connSend, invokeOn, real, failWith, seqMod, and_mask,
      recvStub, release, raise, ret, delivered, serializerMismatch, isStreamReply, streamRefused, msgType,
      flags_a, flags_b, ho]

/-- **C03_pyroInvoke_translated.**  For every payload mode (blob arguments or not, wire-level response mode or not), call kind,
    token, world and fault script: running the transcription of `Proxy._pyroInvoke` (helpers inlined) over the operations of
    CallOps gives the outcome, world and remaining script of the hand model `Call.invoke real`. -/
theorem C03_pyroInvoke_translated (blob raw : Bool) (k : Kind) (tok : Nat) (W : World) (s : List Ev) :
    Agree (invokeSrc blob raw k tok W s) (invoke real k tok W s) := by
  cases hpc : W.pc with
  | live c => simpa [invoke, hpc, invokeSrc, start] using invokeOn_translated blob raw k tok W c s hpc .block []
  | fresh | idle =>
    have hf := connect_facts W s
    rcases hc : connect W s with ⟨r, W', s'⟩
    rw [hc] at hf; simp only at hf
    cases r with
    | err o =>
      cases o <;> simp [Agree, invokeSrc, run, pyroInvokeSrc, start, CallOps.bind, checkOwner, pure', readConnIsNone, hpc,
        createConnection, hc, invoke]
    | ok c =>
      obtain ⟨hl, _, _⟩ := hf.ok c rfl
      have := invokeOn_translated blob raw k tok W' c s' hl .block []
      rw [hf.seq] at this
      simp [Agree, invokeSrc, run, pyroInvokeSrc, start, CallOps.bind, checkOwner, pure', readConnIsNone, hpc,
        createConnection, hc, hl, invoke] at this ⊢
      exact this

/-! ### the whole call with the single attempt taken from the transcription -/

theorem retryLoopG_model (k : Kind) (tok : Nat) (n : Nat) : ∀ W s, retryLoopG (invoke real) k tok n W s = retryLoop real k tok n W s := by
  induction n with
  | zero => intro W s; rfl
  | succ n ih =>
    intro W s
    simp only [retryLoopG, retryLoop]
    split <;> simp_all

theorem callG_model (retries : Nat) (k : Kind) (tok : Nat) (W : World) (s : List Ev) :
    callG (invoke real) retries k tok W s = call real retries k tok W s := by
  have hb : ∀ W s, bodyG (invoke real) retries k tok W s = body real retries k tok W s := by
    intro W s; simp [bodyG, body, retryLoopG_model]
  unfold callG call
  cases W.pc <;> simp only [hb] <;> (repeat' split) <;> simp_all

theorem Agree.refl (a : Outcome × World × List Ev) : Agree a a := ⟨rfl, fun _ => rfl⟩

theorem retryLoopG_agree {i1 i2 : Inv} (h : ∀ k t W s, Agree (i1 k t W s) (i2 k t W s)) (k : Kind) (tok : Nat) (n : Nat) :
    ∀ W s, Agree (retryLoopG i1 k tok n W s) (retryLoopG i2 k tok n W s) := by
  induction n with
  | zero => intro W s; exact h k tok W s
  | succ n ih =>
    intro W s
    have ha := h k tok W s
    simp only [retryLoopG]
    rcases h2 : i2 k tok W s with ⟨o2, W2, s2⟩
    rcases h1 : i1 k tok W s with ⟨o1, W1, s1⟩
    rw [h1, h2] at ha
    obtain ⟨ho, he⟩ := ha
    simp only at ho
    subst ho
    cases o1 with
    | failed e =>
      have := he (by simp)
      simp only [Prod.mk.injEq] at this
      obtain ⟨_, hW, hs⟩ := this
      subst hW; subst hs
      by_cases hr : e.retryable = true
      · simp [hr]; exact ih _ _
      · simp [hr]; exact Agree.refl _
    | scriptEnd => exact ⟨rfl, fun hne => absurd rfl hne⟩
    | returned k' t' => have := he (by simp); rw [this]; exact Agree.refl _
    | none_ => have := he (by simp); rw [this]; exact Agree.refl _
    | stuck => have := he (by simp); rw [this]; exact Agree.refl _

theorem callG_agree {i1 i2 : Inv} (h : ∀ k t W s, Agree (i1 k t W s) (i2 k t W s)) (retries : Nat) (k : Kind) (tok : Nat)
    (W : World) (s : List Ev) : Agree (callG i1 retries k tok W s) (callG i2 retries k tok W s) := by
  have hb : ∀ W s, Agree (bodyG i1 retries k tok W s) (bodyG i2 retries k tok W s) := by
    intro W s
    unfold bodyG
    split
    · exact retryLoopG_agree h k tok retries W s
    · exact h k tok W s
  unfold callG
  cases W.pc with
  | live c => exact hb W s
  | idle => simp only; split; exact Agree.refl _; exact hb W s
  | fresh =>
    simp only
    split
    · exact Agree.refl _
    · split
      · rcases connect W s with ⟨r, W', s'⟩
        cases r with
        | err o => exact Agree.refl _
        | ok c => exact hb W' s'
      · exact hb W s

/-- **C03_call_translated.**  A whole call (metadata lookup, stream precheck, retry loop) built on the transcribed `_pyroInvoke`
    agrees with the hand model `Call.call real`, for all inputs. -/
theorem C03_call_translated (blob raw : Bool) (retries : Nat) (k : Kind) (tok : Nat) (W : World) (s : List Ev) :
    Agree (callSrc blob raw retries k tok W s) (call real retries k tok W s) := by
  rw [← callG_model]
  exact callG_agree (fun k t W s => C03_pyroInvoke_translated blob raw k t W s) retries k tok W s

/-- **C03_source_own_reply.**  `C03_own_reply_partial` about the transcription: a call running the source's `_pyroInvoke` that
    returns, returns the body of its own invocation (young-reachable state, young script). -/
theorem C03_source_own_reply {W : World} (hW : ReachableYoung W) (blob raw : Bool) (retries : Nat) (k : Kind) (tok : Nat)
    (s : List Ev) (hy : Young W s) (k' : Kind) (t' : Nat)
    (h : (callSrc blob raw retries k tok W s).1 = .returned k' t') : k' = k ∧ t' = tok := by
  have ha := (C03_call_translated blob raw retries k tok W s).1
  exact C03_own_reply_partial hW retries k tok s hy k' t' (ha ▸ h)

/-- **C03_source_oneway.**  A oneway call through the transcription never returns a reply, takes nothing off the stream when it
    completes, runs its method exactly once when it returns None and not at all when it fails. -/
theorem C03_source_oneway (blob raw : Bool) (W : World) (retries : Nat) (k : Kind) (tok : Nat) (s : List Ev) (hk : k.isOneway = true) :
    (∀ k' t', (callSrc blob raw retries k tok W s).1 ≠ .returned k' t') ∧
    ((callSrc blob raw retries k tok W s).1 = .none_ →
        (callSrc blob raw retries k tok W s).2.1.reads = W.reads ∧
        (k.executes = true → execs tok (callSrc blob raw retries k tok W s).2.1 = execs tok W + 1)) ∧
    (∀ e, (callSrc blob raw retries k tok W s).1 = .failed e →
        (callSrc blob raw retries k tok W s).2.1.reads = W.reads ∧
        execs tok (callSrc blob raw retries k tok W s).2.1 = execs tok W) := by
  obtain ⟨ho, he⟩ := C03_call_translated blob raw retries k tok W s
  have m := C03_oneway W retries k tok s hk
  refine ⟨fun k' t' h => m.1 k' t' (ho ▸ h), fun h => ?_, fun e h => ?_⟩
  · have h' : (call real retries k tok W s).1 = .none_ := ho ▸ h
    rw [he (by rw [h']; simp)]
    exact ⟨m.2.1, fun hx => m.2.2.1 h' hx⟩
  · have h' : (call real retries k tok W s).1 = .failed e := ho ▸ h
    rw [he (by rw [h']; simp)]
    exact ⟨m.2.1, m.2.2.2.1 e h'⟩

/-- **C03_source_released.**  A call through the transcription that failed leaves the proxy without a connection. -/
theorem C03_source_released (blob raw : Bool) (W : World) (retries : Nat) (k : Kind) (tok : Nat) (s : List Ev) (e : Err)
    (h : (callSrc blob raw retries k tok W s).1 = .failed e) :
    (callSrc blob raw retries k tok W s).2.1.pc.isLive = false := by
  obtain ⟨ho, he⟩ := C03_call_translated blob raw retries k tok W s
  have h' : (call real retries k tok W s).1 = .failed e := ho ▸ h
  rw [he (by rw [h']; simp)]
  exact (C03_recovers W retries k tok s e h' 0 .normal 0 [] rfl).1

/-- **C03_source_recovers.**  After a call through the transcription failed, the proxy holds no connection, and the next call
    (any kind but a stream fetch) through the transcription over a healthy transport returns its own outcome. -/
theorem C03_source_recovers (blob raw : Bool) (W : World) (retries : Nat) (k : Kind) (tok : Nat) (s : List Ev) (e : Err)
    (h : (callSrc blob raw retries k tok W s).1 = .failed e)
    (blob2 raw2 : Bool) (retries2 : Nat) (k2 : Kind) (tok2 : Nat) (s2 : List Ev) (hk2 : k2.precheck = false) :
    (callSrc blob2 raw2 retries2 k2 tok2 (callSrc blob raw retries k tok W s).2.1 (.ok :: .ok :: s2)).1 = ownOutcome k2 tok2 := by
  obtain ⟨ho, he⟩ := C03_call_translated blob raw retries k tok W s
  have h' : (call real retries k tok W s).1 = .failed e := ho ▸ h
  rw [he (by rw [h']; simp)]
  rw [(C03_call_translated blob2 raw2 retries2 k2 tok2 _ _).1]
  exact (C03_recovers W retries k tok s e h' retries2 k2 tok2 s2 hk2).2.1

/-- the protocol constants the operations of CallOps use are the ones of protocol.py -/
theorem C03_gen_src_consts : protoConsts = [2, 4, 5, 4, 8] := by decide

/-- non-vacuity: the transcription, run on a duplicated reply, rejects it on the next call and releases the connection -/
example : (callSrc false false 0 .normal 2 (callSrc false false 0 .normal 1 (init 0) [.ok, .dup]).2.1 [.ok]).1 = .failed .protocol := by
  decide
example : (callSrc true true 1 .oneway 7 (init 65535) [.ok, .ok]).1 = .none_ := by decide

/-! ### the retry loop -/

/-- `_RemoteMethod.__call__` as the model has it (`Call.retryLoop`), over an arbitrary `send`: `n` = retries still allowed -/
def retrySpec (send : M Outcome) : Nat → M Unit
  | 0 => fun st =>
    match send st with
    | (.ok o, st') => (.ret o, st')
    | (.raise e, st') => (.raise e, st')
    | (.ret o, st') => (.ret o, st')
    | (.abort o, st') => (.abort o, st')
  | n + 1 => fun st =>
    match send st with
    | (.ok o, st') => (.ret o, st')
    | (.raise e, st') => if e.retryable then retrySpec send n st' else (.raise e, st')
    | (.ret o, st') => (.ret o, st')
    | (.abort o, st') => (.abort o, st')

theorem retrySpec_not_ok (send : M Outcome) (n : Nat) : ∀ st u st', retrySpec send n st ≠ (.ok u, st') := by
  induction n with
  | zero => intro st u st'; simp only [retrySpec]; split <;> simp
  | succ n ih =>
    intro st u st'; simp only [retrySpec]; split <;> try simp
    split
    · exact ih _ _ _
    · simp

theorem loop_spec (send : M Outcome) (n : Nat) (body : Nat → M Unit)
    (hbody : ∀ i st, body i st = match send st with
      | (.ok o, st') => (.ret o, st')
      | (.raise e, st') => if e.retryable then (if i ≥ n then (.raise e, st') else (.ok (), st')) else (.raise e, st')
      | (.ret o, st') => (.ret o, st')
      | (.abort o, st') => (.abort o, st')) :
    ∀ r i, i + r = n → ∀ st, forLoop body (r + 1) i st = retrySpec send r st := by
  intro r
  induction r with
  | zero =>
    intro i hi st
    simp only [forLoop, CallOps.bind, retrySpec, hbody]
    rcases send st with ⟨x, st'⟩
    cases x <;> simp [pure']
    rename_i e
    have : i ≥ n := by omega
    cases e <;> simp [Err.retryable, this]
  | succ r ih =>
    intro i hi st
    rw [forLoop]
    simp only [CallOps.bind, retrySpec, hbody]
    rcases send st with ⟨x, st'⟩
    cases x <;> simp
    rename_i e
    have : ¬ i ≥ n := by omega
    cases e <;> simp [Err.retryable, this] <;> exact ih (i + 1) (by omega) st'

/-- **C03_remoteCall_translated.**  The transcription of `_RemoteMethod.__call__`, for every `send` and retry limit, is the
    model's retry loop: a value is returned at once; ConnectionClosedError / TimeoutError lead to another `send` while retries
    are left (at most 1+N sends); every other exception, and the last failure, propagate. -/
theorem C03_remoteCall_translated (send : M Outcome) (n : Nat) (st : PSt) :
    remoteCallSrc send n st = retrySpec send n st := by
  unfold remoteCallSrc forRange
  simp only [CallOps.bind]
  rw [loop_spec send n _ ?hb n 0 (by omega) st]
  case hb =>
    intro i st
    simp only [tryExcept, CallOps.bind, ret, raise, pure']
    rcases send st with ⟨x, st'⟩
    cases x
    case raise e => cases e <;> simp [Err.retryable, raise, pure'] <;> (try split) <;> simp_all [raise, pure']
    all_goals simp
  have := retrySpec_not_ok send n st
  rcases hr : retrySpec send n st with ⟨x, st'⟩
  cases x
  case ok u => exact absurd hr (this _ _)
  all_goals simp

end Pyro.C03
