/-
  C01 — Values cross the wire unchanged, identically for arguments and results.
  Property theorems about `PyroModel.Values` (model of Pyro5/serializers.py) and, for compression,
  `PyroModel.Wire` (C06).
  Quantifiers: every serializer, every value term (`Val`: nested containers, unbounded ints, every
  float token, arbitrary text, bytes, complex, uuid / decimal / date tokens, class dicts, user
  instances), every position reached through `dumps/loads` or `dumpsCall/loadsCall`, compression
  on and off, every payload length.
  `srcCfg` is the hook configuration extracted from the source on this run (PyroModel/Gen/C01.lean).
-/
import PyroModel.Values
import PyroProofs.Values
import PyroProofs.ValuesNF
import PyroProofs.ValuesPaths
import PyroModel.Gen.C01
import PyroProps.C06

namespace Pyro.C01

open Pyro Pyro.Values

/-- The source as it is now passes `ext_hook` on both msgpack paths, handles class dicts on both
    (object_hook inside `unpackb`, or `recreate_classes` afterwards), and `MarshalSerializer.dumpsCall`
    accepts `kwargs=None`, and marshal treats a list argument like a list result.  (On a tree where this is false the theorems below do not apply; see
    `C01_symmetric_needs_ext_hook` and `C01_batch_needs_kwargs_guard` for what goes wrong.) -/
theorem src_good : srcCfg.good = true := by decide

/-- what the client receives when the method returned `v` -/
abbrev resPath (s : Ser) (v : Val) : Except Err Val := resRT srcCfg s v

/-- **C01_fixed_point.**  Every value in the image of serializer `s`'s type mapping (`nf s`) is
    delivered exactly, as a result, as a positional argument and as a keyword argument. -/
theorem C01_fixed_point (s : Ser) (w : Val) (h : nf s w = true) :
    resPath s w = .ok w ∧ argPath srcCfg s w = .ok w ∧ kwPath srcCfg s w = .ok w := by
  have hr := res_fixed srcCfg src_good s w h
  cases s with
  | serpent => obtain ⟨a, b⟩ := sym_serpent srcCfg w; exact ⟨hr, a.trans hr, b.trans hr⟩
  | marshal => obtain ⟨a, b⟩ := sym_marshal srcCfg src_good w; exact ⟨hr, a.trans hr, b.trans hr⟩
  | json => obtain ⟨a, b⟩ := sym_json srcCfg w; exact ⟨hr, a.trans hr, b.trans hr⟩
  | msgpack => obtain ⟨a, b⟩ := sym_msgpack srcCfg src_good w; exact ⟨hr, a.trans hr, b.trans hr⟩

/-- **C01_lossless.**  On the lossless core — None, booleans, integers of any size, floats incl.
    inf / nan, text, lists and string-keyed dicts without the reserved key, arbitrarily nested —
    all four serializers deliver exactly the value that was sent: as a method result, as a
    positional argument and as a keyword argument. -/
theorem C01_lossless (s : Ser) (v : Val) (h : lossless v = true) :
    resPath s v = .ok v ∧ argPath srcCfg s v = .ok v ∧ kwPath srcCfg s v = .ok v :=
  C01_fixed_point s v (lossless_nf s v h)

/-- **C01_symmetric.**  For every serializer and every value — supported or not — a positional
    argument and a keyword argument reach the server method as exactly what the same value looks
    like when it comes back as a result (same mapped value, or the same class of error). -/
theorem C01_symmetric (s : Ser) (v : Val) :
    argPath srcCfg s v = resPath s v ∧ kwPath srcCfg s v = resPath s v := by
  cases s with
  | serpent => exact sym_serpent srcCfg v
  | marshal => exact sym_marshal srcCfg src_good v
  | json => exact sym_json srcCfg v
  | msgpack => exact sym_msgpack srcCfg src_good v

/-- **C01_delivers_normal_form.**  Whatever a serializer delivers for a Python value is in the image
    `nf s` of its documented type mapping (lists for tuples and sets under json / msgpack, a base64
    dict for bytes under serpent, text for uuid / decimal, ...). -/
theorem C01_delivers_normal_form (s : Ser) (v w : Val) (hv : pyval v = true) (h : resPath s v = .ok w) :
    nf s w = true :=
  res_range srcCfg src_good s v w hv h

/-- **C01_idempotent.**  The type mapping changes nothing when applied twice: what was delivered
    once is delivered unchanged when sent again — as a result and as an argument. -/
theorem C01_idempotent (s : Ser) (v w : Val) (hv : pyval v = true) (h : resPath s v = .ok w) :
    resPath s w = .ok w ∧ argPath srcCfg s w = .ok w ∧ kwPath srcCfg s w = .ok w :=
  C01_fixed_point s w (C01_delivers_normal_form s v w hv h)

/-- **C01_batch_kwargs_none.**  A call whose `kwargs` is `None` (batch envelope, attribute access)
    is serialized exactly like the same call with empty keyword arguments, for every serializer
    that re-creates classes after loading. -/
theorem C01_batch_kwargs_none (vargs : Val) :
    callRT srcCfg .marshal vargs .none = callRT srcCfg .marshal vargs (.dict .nil) := by
  have hk : srcCfg.kwNoneSafe = true := by decide
  simp [callRT, hk, marshalTopVals]

/-- **C01_compression_transparent.**  The payload handed to `loads` is byte-for-byte the payload
    `dumps` produced, whether `config.COMPRESSION` is on or off, for every payload length (both
    sides of the 100-byte threshold) and every zlib satisfying the round-trip law — hence every
    statement above holds with compression on or off.  (Corollary of C06_roundtrip.) -/
theorem C01_compression_transparent {α : Type} (loads : Bytes → α) (z : Wire.Zlib) (hz : z.Lawful)
    (m : Wire.Msg) (hnd : (Wire.keysOf m.anns).Nodup) (maxOn maxOff : Nat) (bsOn bsOff : Bytes)
    (hon : Wire.encode ⟨true, maxOn⟩ z m = .ok bsOn) (hoff : Wire.encode ⟨false, maxOff⟩ z m = .ok bsOff) :
    (Wire.recvStub ⟨true, maxOn⟩ z [] bsOn).out.map (fun d => loads d.data) = .ok (loads m.payload) ∧
    (Wire.recvStub ⟨false, maxOff⟩ z [] bsOff).out.map (fun d => loads d.data) = .ok (loads m.payload) := by
  have h1 := (Pyro.C06.C06_roundtrip ⟨true, maxOn⟩ z m bsOn [] [] hz hnd hon (Or.inl rfl)).1
  have h2 := (Pyro.C06.C06_roundtrip ⟨false, maxOff⟩ z m bsOff [] [] hz hnd hoff (Or.inl rfl)).1
  rw [List.append_nil] at h1 h2
  rw [h1, h2]
  exact ⟨rfl, rfl⟩

/-! ### what goes wrong without the two repairs (hold on every tree; replayed by the oracle) -/

def bigInt : Val := .int 1180591620717411303424      -- 2^70

/-- Without `ext_hook` in `MsgpackSerializer.loadsCall` the argument path and the result path differ:
    `2**70` arrives as `ExtType(0x31, b"1180591620717411303424")` but returns as the integer. -/
theorem C01_symmetric_needs_ext_hook (c : Cfg) (h1 : c.callExtHook = false) (h2 : c.resExtHook = true) :
    argPath c .msgpack bigInt = .ok (.ext 0x31 (intToAscii 1180591620717411303424)) ∧
    resRT c .msgpack bigInt = .ok bigInt ∧ argPath c .msgpack bigInt ≠ resRT c .msgpack bigInt := by
  obtain ⟨x1, x2, o1, o2, r1, r2, k, l1, l2⟩ := c
  simp only at h1 h2
  subst h1; subst h2
  cases o1 <;> cases o2 <;> cases r1 <;> cases r2 <;> cases k <;> cases l1 <;> cases l2 <;> decide

/-- Without the `kwargs=None` guard in `MarshalSerializer.dumpsCall` every batch / attribute call
    fails on the client with AttributeError, whatever the calls are (unless an argument already
    fails to convert). -/
theorem C01_batch_needs_kwargs_guard (c : Cfg) (h : c.kwNoneSafe = false) (calls : Vals) :
    callRT c .marshal (.list calls) .none = .error .attribute ∨
    ∃ e, marshalTopList c.callListItems calls = .error e := by
  cases hc : marshalTopList c.callListItems calls with
  | error e => exact Or.inr ⟨e, rfl⟩
  | ok vs => left; simp [callRT, hc, h]

def uuidList : Val := .list (.cons (.uuid [53]) .nil)       -- [uuid] whose text is "5"

/-- If only `dumps` converts the items of a list (and `dumpsCall` does not), a list holding a uuid
    returns as a list of text but cannot be sent as an argument at all. -/
theorem C01_symmetric_needs_list_items_on_both_paths (c : Cfg) (h1 : c.resListItems = true) (h2 : c.callListItems = false) :
    resRT c .marshal uuidList = .ok (.list (.cons (.str [53]) .nil)) ∧ argPath c .marshal uuidList = .error .value := by
  obtain ⟨x1, x2, o1, o2, r1, r2, k, l1, l2⟩ := c
  simp only at h1 h2
  subst h1; subst h2
  constructor <;> rfl

/-! ### obligations about facts extracted from the current source (PyroModel/Gen/C01.lean) -/

/-- what the model's `dumps` builds for a value msgpack has no native form for: (ext code, data) -/
def extOf (v : Val) : Option (Nat × List Nat) :=
  match enc .msgpack true v with
  | .ok (.ext code data) => some (code, data.map UInt8.toNat)
  | _ => none

/-- The behaviour the model is written against is the behaviour of the module now (every fact below is
    obtained by calling the real functions at extraction time): hook placement is symmetric, the ext values
    `MsgpackSerializer.default` builds for complex(1.5, 2.0), 2**70 and date(2020, 1, 2) are byte for byte the
    ones the model's `enc` builds, and the probe tables of the hooks, of `recreate_classes`, `class_to_dict`,
    `dict_to_class` and `convert_obj_into_marshallable` are the ones the model's case analysis follows. -/
theorem C01_gen_facts :
    srcCfg.good = true ∧
    Pyro.Gen.C01.serializerIds = [1, 2, 3, 4] ∧
    Pyro.Gen.C01.extProbe = [extOf (.complex 0x3FF8000000000000 0x4000000000000000), extOf bigInt,
      extOf (.date 737426)].filterMap id ∧
    Pyro.Gen.C01.extProbe.length = 3 ∧
    Pyro.Gen.C01.extDatetimeCode = extDatetime ∧
    Pyro.Gen.C01.extHookTable = [("complex", "complex"), ("long", "int"), ("datetime", "datetime"), ("date", "date"),
      ("unknown-code", "SerializeError")] ∧
    Pyro.Gen.C01.msgpackBinStr = ["bytes", "str"] ∧
    Pyro.Gen.C01.marshalConvTable = [("str", "same"), ("int", "same"), ("float", "same"), ("NoneType", "same"),
      ("bool", "same"), ("complex", "same"), ("bytes", "same"), ("bytearray", "same"), ("tuple", "same"), ("set", "same"),
      ("frozenset", "same"), ("list", "same"), ("dict", "same"),
      ("uuid.UUID", "str:00000000-0000-0000-0000-000000000005"), ("decimal.Decimal", "SerializeError"),
      ("datetime.date", "SerializeError"), ("object", "dict:__class__,x")] ∧
    Pyro.Gen.C01.recreateDescends = ["set", "list", "tuple", "dict"] ∧
    Pyro.Gen.C01.recreateNotDescended = ["frozenset", "OrderedDict", "namedtuple", "bytearray"] ∧
    Pyro.Gen.C01.classKeyLiterals = ["__class__"] ∧
    Pyro.Gen.C01.classKey = [95, 95, 99, 108, 97, 115, 115, 95, 95] ∧
    Pyro.Gen.C01.refusesClassDict = [("serpent", [true, true, true]), ("marshal", [true, true, true]),
      ("json", [true, true, true]), ("msgpack", [true, true, true])] ∧
    Pyro.Gen.C01.classToDictRefused = ["set", "dict", "tuple", "list"] ∧
    Pyro.Gen.C01.dictToClassNames = [("a__b", "SecurityError"), ("__a", "SecurityError"), ("a__", "SecurityError"),
      ("a_b", "SerializeError"), ("a._b", "SerializeError"), ("x.Y", "SerializeError")] ∧
    Pyro.Gen.C01.serpentDictToClassValues = ["float:float"] ∧
    Pyro.Gen.C01.jsonCallKeys = ["object", "method", "params", "kwargs"] ∧
    Pyro.Gen.C01.jsonDefaultTable = [("set", "tuple"), ("frozenset", "SerializeError"),
      ("uuid.UUID", "str:00000000-0000-0000-0000-000000000005"), ("datetime", "str:2020-01-02T03:04:05"),
      ("date", "str:2020-01-02"), ("Decimal", "str:1.50"), ("array", "list"), ("bytes", "SerializeError"),
      ("complex", "SerializeError"), ("bigint", "SerializeError"), ("object", "dict:__class__,x")] ∧
    Pyro.Gen.C01.msgpackDefaultTable = [("set", "tuple"), ("frozenset", "SerializeError"),
      ("uuid.UUID", "str:00000000-0000-0000-0000-000000000005"), ("datetime", "ext:50:len8"),
      ("date", "ext:51:92400b0000000000"), ("Decimal", "str:1.50"), ("array", "list"), ("bytes", "SerializeError"),
      ("complex", "ext:48:000000000000f83f0000000000000040"),
      ("bigint", "ext:49:31313830353931363230373137343131333033343234"), ("object", "dict:__class__,x"),
      ("datetime+tz", "SerializeError")] ∧
    Pyro.Gen.C01.serpentModuleInClassname = true ∧ Pyro.Gen.C01.serpentBase64Bytes = true ∧
    dateIso 737426 = [50, 48, 50, 48, 45, 48, 49, 45, 48, 50] ∧
    Pyro.Gen.C06.lenComparisons = ["Gt 100", "NotEq 4"] := by decide

/-! ### non-vacuity -/

example : hookCfg.good = true ∧ topDownCfg.good = true := by decide

private def str (s : Str) : Val := .str s
/-- `{"a": [2**70, nan, -0.0, "é\x00", None, True], "__class__x": {}}` -/
private def v0 : Val :=
  .dict (.cons (str [97]) (.list (.cons bigInt (.cons (.float nanBits) (.cons (.float negZeroBits)
    (.cons (str [233, 0]) (.cons .none (.cons (.bool true) .nil)))))))
    (.cons (str [95, 95, 99, 108, 97, 115, 115, 95, 95, 120]) (.dict .nil) .nil))
example : lossless v0 = true ∧ pyval v0 = true := by decide
example : resRT hookCfg .msgpack v0 = .ok v0 ∧ resRT topDownCfg .msgpack v0 = .ok v0 ∧
    resRT hookCfg .serpent v0 = .ok v0 ∧ argPath hookCfg .json v0 = .ok v0 := by decide
/-- `((1, {2.5}), uuid, date(2020,1,2))` under json: tuples and the set become lists, uuid and date text -/
private def v1 : Val :=
  .tuple (.cons (.tuple (.cons (.int 1) (.cons (.set (.cons (.float 0x4004000000000000) .nil)) .nil)))
    (.cons (.uuid [97, 98]) (.cons (.date 737426) .nil)))
example : pyval v1 = true ∧ nf .json v1 = false := by decide
example : resRT hookCfg .json v1 =
    .ok (.list (.cons (.list (.cons (.int 1) (.cons (.list (.cons (.float 0x4004000000000000) .nil)) .nil)))
      (.cons (str [97, 98]) (.cons (str [50, 48, 50, 48, 45, 48, 49, 45, 48, 50]) .nil)))) := by decide
example : resRT hookCfg .msgpack (.date 737426) = .ok (.date 737426) ∧
    resRT hookCfg .msgpack (.complex 5 negZeroBits) = .ok (.complex 5 negZeroBits) := by decide

end Pyro.C01
