/-
  C02 (round 5) — the three server-side gates TRANSCRIBED from the source, and the member-list cache with
  computations that do not complete.

  `lean/PyroModel/Gen/C02Src.lean` is regenerated on every run by `harness/props/c02_tr.py` from the bodies of
  `server._get_attribute`, `server._get_exposed_property_value`, `server._set_exposed_property_value` (decision tree in
  evaluation order over the model's abstract operations: `isPrivate`, `lookupType`, `isDataDesc`, `getattrInst`,
  `objMarked`, `exposedOpt`, property accessors).  The `_translated` theorems prove, for all shapes and all string
  names, that the transcriptions compute outcome and effect log of the hand-written model gates; the `C02_source_…`
  theorems restate the gate-level properties about the transcriptions.  Non-string names are covered by the probed
  fact `privateGateNonStrTypeError` and `C02_nonstring_refused` (the gates' first action on them is
  `is_private_attribute`, which `C02_translated_private` / the probe table tie to the source).
-/
import PyroModel.Gen.C02Src
import PyroModel.ExposeCache
import PyroProofs.Expose

set_option linter.unusedSimpArgs false

namespace Pyro.C02
open Pyro.Expose Pyro.Gen.C02Src

/-- `a or b or c` of the transcription is the model's `primary` -/
theorem firstOf_primary (g s d : Option Fn) : firstOf g (firstOf s d) = primary g s d := by
  cases g <;> cases s <;> rfl

/-- **C02_getAttribute_translated.**  The transcription of `server._get_attribute` (regenerated from the source on
    every run) computes, for every shape and every string name, outcome and effect log of the model gate
    `getAttribute` (with the type-first refusal of data descriptors). -/
theorem C02_getAttribute_translated (cfg : Cfg) (hc : cfg.callTypeFirst = true) (sh : Shape) (n : Name) :
    getAttributeSrc sh n = getAttribute cfg sh (.str n) := by
  unfold getAttributeSrc getAttribute bindM
  simp only [hc, Bool.true_and]
  rcases h : getattrInst sh n with ⟨r, eff⟩
  cases r <;> (repeat' split) <;> simp_all

/-- **C02_getProp_translated.**  Transcription of `server._get_exposed_property_value` = model gate `getProp`. -/
theorem C02_getProp_translated (cfg : Cfg) (hc : cfg.getPriv = true) (sh : Shape) (n : Name) :
    getPropSrc sh n = getProp cfg sh (.str n) := by
  by_cases hp : isPrivate n = true
  · simp [getPropSrc, getProp, hc, hp]
  · cases h : lookupType n sh.mro with
    | none => simp [getPropSrc, getProp, hc, hp, bindM, clsGetattr, h]
    | some m =>
      cases m with
      | prop g s d =>
        cases g with
        | none => simp [getPropSrc, getProp, hc, hp, bindM, clsGetattr, h, isDataDesc, fgetOf, fsetOf, fdelOf, exposedOpt, callOptFn]
        | some f =>
          by_cases hf : f.exposed = true <;>
            simp [getPropSrc, getProp, hc, hp, bindM, clsGetattr, h, isDataDesc, fgetOf, fsetOf, fdelOf, exposedOpt, callOptFn, hf]
      | _ => simp [getPropSrc, getProp, hc, hp, bindM, clsGetattr, h, isDataDesc]

/-- **C02_setProp_translated.**  Transcription of `server._set_exposed_property_value` = model gate `setProp`. -/
theorem C02_setProp_translated (cfg : Cfg) (hc : cfg.setPriv = true) (sh : Shape) (n : Name) :
    setPropSrc sh n = setProp cfg sh (.str n) := by
  by_cases hp : isPrivate n = true
  · simp [setPropSrc, setProp, hc, hp]
  · cases h : lookupType n sh.mro with
    | none => simp [setPropSrc, setProp, hc, hp, bindM, clsGetattr, h]
    | some m =>
      cases m with
      | prop g s d =>
        cases s with
        | none => simp [setPropSrc, setProp, hc, hp, bindM, clsGetattr, h, isDataDesc, fgetOf, fsetOf, fdelOf, exposedOpt, callOptFn]
        | some f =>
          by_cases hf : exposedOpt (primary g (some f) d) = true <;>
            simp [setPropSrc, setProp, hc, hp, bindM, clsGetattr, h, isDataDesc, fgetOf, fsetOf, fdelOf, callOptFn, firstOf_primary, hf]
      | _ => simp [setPropSrc, setProp, hc, hp, bindM, clsGetattr, h, isDataDesc]

/-- the fixed gate configuration (what `C02_gen_gates` proves of the probed one) -/
def fixedCfg : Cfg := ⟨true, true, true, true⟩

theorem fixedCfg_fixed : Fixed fixedCfg := ⟨rfl, rfl, rfl⟩

/-- **C02_source_gates_are_model.**  For every fixed configuration the three gates that `dispatch` consults are,
    on string names, the transcriptions of the source: every theorem of `PyroProps/C02.lean` with hypothesis
    `Fixed cfg` is a theorem about a dispatch whose gates are the transcribed functions. -/
theorem C02_source_gates_are_model (cfg : Cfg) (hf : Fixed cfg) (sh : Shape) (n : Name) :
    getAttribute cfg sh (.str n) = getAttributeSrc sh n ∧ getProp cfg sh (.str n) = getPropSrc sh n ∧
    setProp cfg sh (.str n) = setPropSrc sh n :=
  ⟨(C02_getAttribute_translated cfg hf.1 sh n).symm, (C02_getProp_translated cfg hf.2.1 sh n).symm,
   (C02_setProp_translated cfg hf.2.2 sh n).symm⟩

/-- **C02_source_private_refused.**  The transcribed gates refuse every private name with the private-name error and
    without any effect, on every shape. -/
theorem C02_source_private_refused (sh : Shape) (n : Name) (hp : isPrivate n = true) :
    getAttributeSrc sh n = (.error .priv, []) ∧ getPropSrc sh n = (.error .priv, []) ∧
    setPropSrc sh n = (.error .priv, []) := by
  rw [C02_getAttribute_translated fixedCfg rfl, C02_getProp_translated fixedCfg rfl, C02_setProp_translated fixedCfg rfl]
  exact ⟨by simp [getAttribute, hp], by simp [getProp, fixedCfg, hp], by simp [setProp, fixedCfg, hp]⟩

/-- **C02_source_call_gate_sound.**  Whatever the transcribed `_get_attribute` lets through is the function of an
    exposed method that the (non-private) name denotes on the type, not shadowed by an instance attribute; and the gate
    itself runs no code of the target (no property getter in particular). -/
theorem C02_source_call_gate_sound {sh : Shape} {n : Name} {o : Obj} {eff : List Nat}
    (hh : NoExposedHelperAttr sh) (h : getAttributeSrc sh n = (.ok o, eff)) :
    eff = [] ∧ ∃ f m, o = .fn f ∧ isPrivate n = false ∧ lookupType n sh.mro = some m ∧
      isMethodMember (some m) = true ∧ memberExposed m = true ∧ memberFids m = [f.fid] ∧ find? n sh.inst = none := by
  rw [C02_getAttribute_translated fixedCfg rfl] at h
  obtain ⟨he, n', f, m, hn, rest⟩ := getAttribute_ok (cfg := fixedCfg) rfl hh h
  cases hn
  exact ⟨he, f, m, rest⟩

/-- **C02_source_call_gate_no_effect.**  The transcribed `_get_attribute` never runs code of the target, whatever it answers. -/
theorem C02_source_call_gate_no_effect (sh : Shape) (n : Name) : (getAttributeSrc sh n).2 = [] := by
  rw [C02_getAttribute_translated fixedCfg rfl]
  exact getAttribute_eff (cfg := fixedCfg) _ rfl

/-- **C02_source_prop_gates_sound.**  The transcribed property gates either refuse without effect, or run exactly the
    getter (resp. setter) of a property that the non-private name denotes on the type and whose marked function is exposed. -/
theorem C02_source_prop_gates_sound (sh : Shape) (n : Name) :
    (((getPropSrc sh n).2 = [] ∧ ∃ e, (getPropSrc sh n).1 = .error e) ∨
      ∃ f s d, isPrivate n = false ∧ lookupType n sh.mro = some (.prop (some f) s d) ∧ f.exposed = true ∧
        getPropSrc sh n = (.ok (), [f.fid])) ∧
    (((setPropSrc sh n).2 = [] ∧ ∃ e, (setPropSrc sh n).1 = .error e) ∨
      ∃ g f d, isPrivate n = false ∧ lookupType n sh.mro = some (.prop g (some f) d) ∧
        exposedOpt (primary g (some f) d) = true ∧ setPropSrc sh n = (.ok (), [f.fid])) := by
  rw [C02_getProp_translated fixedCfg rfl, C02_setProp_translated fixedCfg rfl]
  constructor
  · rcases getProp_spec (cfg := fixedCfg) (sh := sh) (.str n) rfl with h | ⟨n', f, s, d, hn, rest⟩
    · exact .inl h
    · cases hn; exact .inr ⟨f, s, d, rest⟩
  · rcases setProp_spec (cfg := fixedCfg) (sh := sh) (.str n) rfl with h | ⟨n', g, f, d, hn, rest⟩
    · exact .inl h
    · cases hn; exact .inr ⟨g, f, d, rest⟩

/-! ### the member-list cache with computations that do not complete (`PyroModel/ExposeCache.lean`) -/

/-- **C02_cache_failed_first.**  After any number of first computations that raised part-way (nothing is told, nothing
    is cached), the first list that is told is the complete `metadata` of the object's state — hence exact by
    `C02_metadata_exact` — and that list is what gets cached. -/
theorem C02_cache_failed_first (sh : Shape) (k : Nat) (rest : List CacheEv) :
    advertisedF none sh (List.replicate k .getFails ++ .get :: rest) =
      List.replicate k none ++ some (metadata sh) :: advertisedF (some (metadata sh)) sh rest := by
  induction k with
  | zero => simp [advertisedF]
  | succ k ih => simp [List.replicate_succ, advertisedF, ih]

theorem statesF_head_mem (sh : Shape) (evs : List CacheEv) : sh ∈ statesF sh evs := by
  induction evs generalizing sh with
  | nil => simp [statesF]
  | cons e rest ih => cases e <;> simp [statesF, ih]

theorem cache_never_partial_aux (P : Meta → Prop) :
    ∀ (evs : List CacheEv) (c : Option Meta) (sh : Shape),
      (∀ m, c = some m → P m) → (∀ sh' ∈ statesF sh evs, P (metadata sh')) →
      ∀ m, some m ∈ advertisedF c sh evs → P m := by
  intro evs
  induction evs with
  | nil => intro c sh _ _ m hm; simp [advertisedF] at hm
  | cons e rest ih =>
    intro c sh hc hs m hm
    have hsh : P (metadata sh) := hs sh (statesF_head_mem sh _)
    cases e with
    | step s =>
      simp only [advertisedF] at hm
      exact ih c (applyStep sh s) hc (fun sh' h' => hs sh' (by simp [statesF, h'])) m hm
    | reset =>
      simp only [advertisedF] at hm
      exact ih none sh (by simp) (fun sh' h' => hs sh' (by simpa [statesF] using h')) m hm
    | get =>
      cases c with
      | none =>
        simp only [advertisedF, List.mem_cons] at hm
        rcases hm with hm | hm
        · cases hm; exact hsh
        · exact ih _ sh (by intro m' e; cases e; exact hsh) (fun sh' h' => hs sh' (by simpa [statesF] using h')) m hm
      | some m0 =>
        simp only [advertisedF, List.mem_cons] at hm
        rcases hm with hm | hm
        · cases hm; exact hc _ rfl
        · exact ih _ sh hc (fun sh' h' => hs sh' (by simpa [statesF] using h')) m hm
    | getFails =>
      cases c with
      | none =>
        simp only [advertisedF, List.mem_cons] at hm
        rcases hm with hm | hm
        · cases hm
        · exact ih _ sh (by simp) (fun sh' h' => hs sh' (by simpa [statesF] using h')) m hm
      | some m0 =>
        simp only [advertisedF, List.mem_cons] at hm
        rcases hm with hm | hm
        · cases hm; exact hc _ rfl
        · exact ih _ sh hc (fun sh' h' => hs sh' (by simpa [statesF] using h')) m hm
    | getPair =>
      cases c with
      | none =>
        simp only [advertisedF, List.mem_cons] at hm
        rcases hm with hm | hm | hm
        · cases hm; exact hsh
        · cases hm; exact hsh
        · exact ih _ sh (by intro m' e; cases e; exact hsh) (fun sh' h' => hs sh' (by simpa [statesF] using h')) m hm
      | some m0 =>
        simp only [advertisedF, List.mem_cons] at hm
        rcases hm with hm | hm | hm
        · cases hm; exact hc _ rfl
        · cases hm; exact hc _ rfl
        · exact ih _ sh hc (fun sh' h' => hs sh' (by simpa [statesF] using h')) m hm

/-- **C02_cache_never_partial.**  For every history of run-time changes, resets, completed, failed and overlapping
    member-list requests, starting from an empty cache: every list that is told is the *complete* list `metadata sh'` of
    a state `sh'` the object was in — never a partially filled one. -/
theorem C02_cache_never_partial (sh : Shape) (evs : List CacheEv) (m : Meta)
    (hm : some m ∈ advertisedF none sh evs) : ∃ sh' ∈ statesF sh evs, m = metadata sh' :=
  cache_never_partial_aux (fun m => ∃ sh' ∈ statesF sh evs, m = metadata sh') evs none sh (by simp)
    (fun sh' h' => ⟨sh', h', rfl⟩) m hm

/-- **C02_cache_overlap_exact.**  Two overlapping first requests are both told the complete list of the present state. -/
theorem C02_cache_overlap_exact (sh : Shape) (rest : List CacheEv) :
    (advertisedF none sh (.getPair :: rest)).take 2 = [some (metadata sh), some (metadata sh)] := by
  simp [advertisedF]

/-- without failures and overlaps `advertisedF` is the `advertised` of `PyroModel/Expose.lean` (`C02_metadata_cache`) -/
def liftEv : Event → List CacheEv
  | .step s => [.step s]
  | .req _ => []
  | .resetMeta => [.reset]
  | .getMeta => [.get]

theorem C02_cache_refines (c : Option Meta) (sh : Shape) (evs : List Event) :
    advertisedF c sh (evs.flatMap liftEv) = (advertised c sh evs).map some := by
  induction evs generalizing c sh with
  | nil => simp [advertisedF, advertised]
  | cons e rest ih =>
    cases e with
    | step s => simp [liftEv, advertisedF, advertised, ih]
    | req r => simp [liftEv, advertised, ih]
    | resetMeta => simp [liftEv, advertisedF, advertised, ih]
    | getMeta => cases c <;> simp [liftEv, advertisedF, advertised, ih]

/-! ### non-vacuity -/

/-- class with an exposed method `n`, an unexposed method `u`, a property `p` (exposed getter, setter) -/
def srcExShape : Shape :=
  { mro := [{ members := [([110], .func ⟨[110], 3, true, false⟩), ([117], .func ⟨[117], 7, false, false⟩),
                          ([112], .prop (some ⟨[112], 5, true, false⟩) (some ⟨[112], 6, false, false⟩) none)] }],
    inst := [] }

example : getAttributeSrc srcExShape [110] = (.ok (.fn ⟨[110], 3, true, false⟩), []) := by rfl
example : getAttributeSrc srcExShape [117] = (.error .unexposed, []) := by rfl
example : getAttributeSrc srcExShape [112] = (.error .unexposed, []) := by rfl
example : getAttributeSrc srcExShape [95, 110] = (.error .priv, []) := by rfl
example : getPropSrc srcExShape [112] = (.ok (), [5]) := by rfl
example : setPropSrc srcExShape [112] = (.ok (), [6]) := by rfl
example : getPropSrc srcExShape [110] = (.error .unprop, []) := by rfl
example : getPropSrc srcExShape [122] = (.error .attr, []) := by rfl
example : advertisedF none srcExShape [.getFails, .getFails, .get, .step (.setInst [110] .data), .getPair] =
    [none, none, some (metadata srcExShape), some (metadata srcExShape), some (metadata srcExShape)] := by
  simp [advertisedF]

end Pyro.C02
