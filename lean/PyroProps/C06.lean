/-
  C06 — Wire messages decode to exactly what was encoded; nothing else decodes.
  Property theorems about `PyroModel.Wire` (model of Pyro5/protocol.py).
  Quantifiers: every field value, payload, annotation list, correlation id, compression setting,
  MAX_MESSAGE_SIZE, every compressor satisfying the zlib round-trip law; every trailing stream.
-/
import PyroModel.Wire
import PyroProofs.Wire
import PyroProofs.WireStages
import PyroProofs.WireReencode
import PyroModel.SockIO
import PyroModel.Gen.C06
import PyroProps.C17

namespace Pyro.C06

open Pyro Pyro.Wire

/-- What the receiver must reconstruct from `m`: everything, with the two codec-managed flag bits
    normalised (COMPRESSED cleared; CORR_ID set iff a correlation id travelled). -/
def decodedOf (m : Msg) : Decoded :=
  { type := m.type, serId := m.serId,
    flags := (let f := clearBit m.flags FLAGS_COMPRESSED
              if m.corr.isSome then setBit f FLAGS_CORR_ID else f),
    seq := m.seq, data := m.payload, anns := m.anns, corr := m.corr.getD zeroCorr }

theorem encode_ok_inv (cfg : Cfg) (z : Zlib) (m : Msg) (bs : Bytes) (h : encode cfg z m = .ok bs) :
    (wirePayload cfg z m).length + annSize m.anns ≤ cfg.maxSize ∧
    (m.corr.getD zeroCorr).length = 16 ∧
    m.type < 256 ∧ m.serId < 256 ∧ headerFlags cfg m < 65536 ∧ m.seq < 65536 ∧
    (wirePayload cfg z m).length < 2 ^ 32 ∧ annSize m.anns < 2 ^ 32 ∧
    ∃ abytes, encodeAnns m.anns = .ok abytes ∧
      bs = packHeader m.type m.serId (headerFlags cfg m) m.seq (wirePayload cfg z m).length
             (annSize m.anns) (m.corr.getD zeroCorr) ++ (abytes ++ wirePayload cfg z m) := by
  unfold encode at h
  simp only at h
  by_cases h1 : (wirePayload cfg z m).length + annSize m.anns > cfg.maxSize
  · rw [if_pos h1] at h; cases h
  · rw [if_neg h1] at h
    by_cases h2 : (m.corr.getD zeroCorr).length ≠ 16
    · rw [if_pos h2] at h; cases h
    · rw [if_neg h2] at h
      by_cases h3 : m.type ≥ 256 ∨ m.serId ≥ 256 ∨ headerFlags cfg m ≥ 65536 ∨ m.seq ≥ 65536 ∨
          (wirePayload cfg z m).length ≥ 2 ^ 32 ∨ annSize m.anns ≥ 2 ^ 32
      · rw [if_pos h3] at h; cases h
      · rw [if_neg h3] at h
        simp only [not_or, Nat.not_le] at h3
        obtain ⟨a1, a2, a3, a4, a5, a6⟩ := h3
        refine ⟨by omega, by omega, a1, a2, a3, a4, a5, a6, ?_⟩
        cases hr : encodeAnns m.anns with
        | error e => rw [hr] at h; cases h
        | ok abytes =>
          rw [hr] at h
          simp only [Except.ok.injEq] at h
          exact ⟨abytes, rfl, h.symm⟩

theorem parseHeader_pack (cfg : Cfg) (t s f q d a : Nat) (c : Bytes)
    (ht : t < 256) (hs : s < 256) (hf : f < 65536) (hq : q < 65536)
    (hd : d < 2 ^ 32) (ha : a < 2 ^ 32) (hc : c.length = 16) (hmax : d + a ≤ cfg.maxSize) :
    parseHeader cfg (packHeader t s f q d a c) =
      .ok { type := t, serId := s, flags := f, seq := q, dataSize := d, annSize := a, corr := c } := by
  unfold parseHeader packHeader headerPrefix
  simp only [List.append_assoc]
  have htag : tagPYRO.length = 4 := rfl
  simp only [take_append_len _ _ 4 htag, drop_append_len _ _ 4 htag, take_toBE_append, drop_toBE_append,
    take_append_len _ _ 16 hc, drop_append_len _ _ 16 hc]
  rw [fromBE_toBE 2 protocolVersion (by decide), fromBE_toBE 1 t (by simpa using ht),
    fromBE_toBE 1 s (by simpa using hs), fromBE_toBE 2 f (by simpa using hf),
    fromBE_toBE 2 q (by simpa using hq), fromBE_toBE 4 d (by simpa using hd),
    fromBE_toBE 4 a (by simpa using ha)]
  have hm : fromBE (List.take 2 (toBE 2 magicNumber)) = magicNumber := by
    have : List.take 2 (toBE 2 magicNumber) = toBE 2 magicNumber := by
      rw [List.take_of_length_le]; simp
    rw [this, fromBE_toBE 2 magicNumber (by decide)]
  rw [hm]
  simp only [ne_eq, not_true_eq_false, or_self, if_false]
  rw [if_neg (by omega)]

/-- **C06_roundtrip.**  Any message the sender can build is decoded by `recv_stub` into exactly its
    fields, payload, annotations and correlation id, consuming exactly the bytes of that message
    and leaving `rest` unread — for every trailing stream, compression on or off, and every zlib
    satisfying `decompress (compress p) = p`.  (`hnd`: annotation keys are distinct, as the keys of
    a Python dict are.) -/
theorem C06_roundtrip (cfg : Cfg) (z : Zlib) (m : Msg) (bs rest : Bytes) (accepted : List Nat)
    (hz : z.Lawful) (hnd : (keysOf m.anns).Nodup)
    (henc : encode cfg z m = .ok bs)
    (hacc : accepted = [] ∨ m.type ∈ accepted) :
    (recvStub cfg z accepted (bs ++ rest)).out = .ok (decodedOf m) ∧
    (recvStub cfg z accepted (bs ++ rest)).rest = rest ∧
    (recvStub cfg z accepted (bs ++ rest)).requested = bs.length := by
  obtain ⟨hmax, hc, ht, hs, hf, hq, hd, ha, abytes, hann, rfl⟩ := encode_ok_inv cfg z m bs henc
  have hal := encodeAnns_length m.anns abytes hann
  have hparse := parseHeader_pack cfg m.type m.serId (headerFlags cfg m) m.seq
    (wirePayload cfg z m).length (annSize m.anns) (m.corr.getD zeroCorr) ht hs hf hq hd ha hc hmax
  -- stream = prefix6 ++ (post34 ++ (abytes ++ payload ++ rest))
  unfold recvStub
  have hstream : packHeader m.type m.serId (headerFlags cfg m) m.seq (wirePayload cfg z m).length
        (annSize m.anns) (m.corr.getD zeroCorr) ++ (abytes ++ wirePayload cfg z m) ++ rest
      = headerPrefix ++ ((toBE 1 m.type ++ (toBE 1 m.serId ++ (toBE 2 (headerFlags cfg m) ++ (toBE 2 m.seq ++
          (toBE 4 (wirePayload cfg z m).length ++ (toBE 4 (annSize m.anns) ++ (m.corr.getD zeroCorr ++
          (toBE 2 0 ++ toBE 2 magicNumber)))))))) ++ ((abytes ++ wirePayload cfg z m) ++ rest)) := by
    simp only [packHeader, List.append_assoc]
  rw [hstream, recvN_append _ _ 6 headerPrefix_length]
  simp only
  have hp4 : List.take 4 headerPrefix = tagPYRO := by simp [headerPrefix, tagPYRO]
  have hd4 : List.drop 4 headerPrefix = toBE 2 protocolVersion := by simp [headerPrefix, tagPYRO]
  rw [hp4, hd4]
  simp only [ne_eq, not_true_eq_false, if_false]
  have h34 : (toBE 1 m.type ++ (toBE 1 m.serId ++ (toBE 2 (headerFlags cfg m) ++ (toBE 2 m.seq ++
          (toBE 4 (wirePayload cfg z m).length ++ (toBE 4 (annSize m.anns) ++ (m.corr.getD zeroCorr ++
          (toBE 2 0 ++ toBE 2 magicNumber)))))))).length = headerSize - 6 := by
    simp [hc, headerSize]
  rw [recvN_append _ _ _ h34]
  simp only
  have hpk : headerPrefix ++ (toBE 1 m.type ++ (toBE 1 m.serId ++ (toBE 2 (headerFlags cfg m) ++ (toBE 2 m.seq ++
          (toBE 4 (wirePayload cfg z m).length ++ (toBE 4 (annSize m.anns) ++ (m.corr.getD zeroCorr ++
          (toBE 2 0 ++ toBE 2 magicNumber))))))))
      = packHeader m.type m.serId (headerFlags cfg m) m.seq (wirePayload cfg z m).length
        (annSize m.anns) (m.corr.getD zeroCorr) := rfl
  unfold recvStage2
  rw [hpk, hparse]
  simp only
  have hfilter : (!accepted.isEmpty && !accepted.contains m.type) = false := by
    rcases hacc with h | h
    · subst h; rfl
    · have : accepted.contains m.type = true := by simpa using h
      rw [this]; simp
  rw [hfilter]
  simp only [Bool.false_eq_true, if_false]
  unfold recvStage3
  have hbody : (abytes ++ wirePayload cfg z m).length = annSize m.anns + (wirePayload cfg z m).length := by
    simp [hal]
  rw [recvN_append _ _ _ hbody]
  simp only
  refine ⟨?_, ?_, ?_⟩
  rotate_left
  · first | rfl | trivial
  · simp only [List.length_append, packHeader_length _ _ _ _ _ _ _ hc, headerSize, hal]
    omega
  · -- addPayload
    unfold addPayload
    simp only
    rw [if_neg (by simp [hal]; omega)]
    have hwalk := walk_encode m.anns abytes (wirePayload cfg z m) [] (annSize m.anns) hann (by omega)
      (by simpa using hnd)
    rw [hal] at hwalk
    rw [hwalk]
    simp only [List.nil_append]
    have hdrop : List.drop (annSize m.anns) (abytes ++ wirePayload cfg z m) = wirePayload cfg z m :=
      drop_append_len _ _ _ hal
    rw [hdrop]
    -- flags
    unfold decodedOf headerFlags wirePayload
    cases hcmp : isCompressed cfg m with
    | true =>
      simp only [if_true]
      cases hcorr : m.corr.isSome with
      | true =>
        simp only [if_true]
        have : hasBit (setBit (setBit (clearBit m.flags FLAGS_COMPRESSED) FLAGS_COMPRESSED) FLAGS_CORR_ID) FLAGS_COMPRESSED = true := by
          simp only [FLAGS_COMPRESSED, FLAGS_CORR_ID]; rw [hasBit2_setBit64, hasBit_setBit2]
        rw [this]
        simp only [if_true, hz m.payload]
        congr 1
        simp only [FLAGS_COMPRESSED, FLAGS_CORR_ID]
        rw [clearBit2_setBit64, clearBit2_setBit2_clearBit2]
      | false =>
        simp only [Bool.false_eq_true, if_false]
        have : hasBit (setBit (clearBit m.flags FLAGS_COMPRESSED) FLAGS_COMPRESSED) FLAGS_COMPRESSED = true := by
          simp only [FLAGS_COMPRESSED]; rw [hasBit_setBit2]
        rw [this]
        simp only [if_true, hz m.payload]
        congr 1
        simp only [FLAGS_COMPRESSED]
        rw [clearBit2_setBit2_clearBit2]
    | false =>
      simp only [Bool.false_eq_true, if_false]
      cases hcorr : m.corr.isSome with
      | true =>
        simp only [if_true]
        have : hasBit (setBit (clearBit m.flags FLAGS_COMPRESSED) FLAGS_CORR_ID) FLAGS_COMPRESSED = false := by
          simp only [FLAGS_COMPRESSED, FLAGS_CORR_ID]; rw [hasBit2_setBit64, hasBit_clearBit2]
        rw [this]
        simp only [Bool.false_eq_true, if_false]
      | false =>
        simp only [Bool.false_eq_true, if_false]
        have : hasBit (clearBit m.flags FLAGS_COMPRESSED) FLAGS_COMPRESSED = false := by
          simp only [FLAGS_COMPRESSED]; rw [hasBit_clearBit2]
        rw [this]
        simp only [Bool.false_eq_true, if_false]

/-! ### size limits -/

theorem encodeAnns_not_tooLarge (anns : List Ann) : encodeAnns anns ≠ .error .tooLarge := by
  induction anns with
  | nil => simp [encodeAnns]
  | cons a rest ih =>
    obtain ⟨k, v⟩ := a
    simp only [encodeAnns]
    repeat' split
    all_goals first | (intro h; cases h; done) | skip
    all_goals simp_all

/-- **C06_sender_limit.**  The sender refuses a message exactly when its wire size (payload as sent,
    i.e. after compression, plus 8 bytes per annotation plus the annotation values) exceeds
    MAX_MESSAGE_SIZE — for every MAX_MESSAGE_SIZE setting. -/
theorem C06_sender_limit (cfg : Cfg) (z : Zlib) (m : Msg) :
    encode cfg z m = .error .tooLarge ↔ (wirePayload cfg z m).length + annSize m.anns > cfg.maxSize := by
  constructor
  · intro h
    unfold encode at h
    simp only at h
    by_cases h1 : (wirePayload cfg z m).length + annSize m.anns > cfg.maxSize
    · exact h1
    · rw [if_neg h1] at h
      exfalso
      by_cases h2 : (m.corr.getD zeroCorr).length ≠ 16
      · rw [if_pos h2] at h; cases h
      · rw [if_neg h2] at h
        by_cases h3 : m.type ≥ 256 ∨ m.serId ≥ 256 ∨ headerFlags cfg m ≥ 65536 ∨ m.seq ≥ 65536 ∨
            (wirePayload cfg z m).length ≥ 2 ^ 32 ∨ annSize m.anns ≥ 2 ^ 32
        · rw [if_pos h3] at h; cases h
        · rw [if_neg h3] at h
          cases hr : encodeAnns m.anns with
          | error e =>
            rw [hr] at h
            simp only [Except.error.injEq] at h
            subst h
            exact encodeAnns_not_tooLarge _ hr
          | ok abytes => rw [hr] at h; cases h
  · intro h
    unfold encode
    simp only
    rw [if_pos h]

theorem parseHeader_ok_size (cfg : Cfg) (h : Bytes) (H : Header) (hp : parseHeader cfg h = .ok H) :
    H.dataSize + H.annSize ≤ cfg.maxSize := by
  unfold parseHeader at hp
  simp only at hp
  split at hp
  · cases hp
  · split at hp
    · cases hp
    · rename_i hsz
      simp only [Except.ok.injEq] at hp
      subst hp
      simp only
      omega

/-- **C06_receiver_limit.**  If `recv_stub` asks the connection for anything beyond the 40 header
    bytes, the header it parsed declared `data + annotations ≤ MAX_MESSAGE_SIZE`: an oversized
    message is refused before any of its body is read, for every stream and every limit. -/
theorem C06_receiver_limit (cfg : Cfg) (z : Zlib) (accepted : List Nat) (stream : Bytes)
    (h : (recvStub cfg z accepted stream).requested > headerSize) :
    ∃ H, parseHeader cfg (stream.take headerSize) = .ok H ∧ H.dataSize + H.annSize ≤ cfg.maxSize ∧
      (recvStub cfg z accepted stream).requested = headerSize + H.annSize + H.dataSize := by
  unfold recvStub at h ⊢
  generalize hr : recvN 6 stream = r at h ⊢
  cases r with
  | none => simp [headerSize] at h
  | some p =>
    obtain ⟨h6, s1⟩ := p
    simp only at h ⊢
    by_cases c1 : h6.take 4 ≠ tagPYRO
    · rw [if_pos c1] at h; simp [headerSize] at h
    · rw [if_neg c1] at h ⊢
      by_cases c2 : h6.drop 4 ≠ toBE 2 protocolVersion
      · rw [if_pos c2] at h; simp [headerSize] at h
      · rw [if_neg c2] at h ⊢
        generalize hr2 : recvN (headerSize - 6) s1 = r2 at h ⊢
        cases r2 with
        | none => simp at h
        | some p2 =>
          obtain ⟨h34, s2⟩ := p2
          simp only at h ⊢
          obtain ⟨e1, e2⟩ := recvN_some _ _ _ _ hr
          obtain ⟨e3, e4⟩ := recvN_some _ _ _ _ hr2
          obtain ⟨H, hp, hreq⟩ := stage2_requested cfg z accepted (h6 ++ h34) s2 h
          have htake : stream.take headerSize = h6 ++ h34 := by
            rw [e1, e3, ← List.append_assoc]
            apply take_append_len
            simp only [List.length_append, e2, e4, headerSize]
          rw [htake]
          exact ⟨H, hp, parseHeader_ok_size cfg _ H hp, hreq⟩

/-! ### acceptance implies well-formedness -/

/-- **C06_accepts_only_wellformed.**  Whatever byte string `recv_stub` accepts is a well-formed
    message: a 40-byte header that parses, followed by an annotation area that is tiled *exactly* by
    (4-byte id, 4-byte length, value) chunks, followed by exactly `data_size` bytes, followed by the
    untouched rest; the decoded annotations are those chunks (later duplicate wins) and exactly the
    message's bytes were requested.  Everything else raises. -/
theorem C06_accepts_only_wellformed (cfg : Cfg) (z : Zlib) (accepted : List Nat) (stream : Bytes)
    (d : Decoded) (n : Nat) (rest : Bytes)
    (h : recvStub cfg z accepted stream = ⟨.ok d, n, rest⟩) :
    ∃ (hdr : Bytes) (H : Header) (chunks : List (Bytes × Bytes)) (data : Bytes),
      stream = hdr ++ (rawChunks chunks ++ (data ++ rest)) ∧
      hdr.length = headerSize ∧ parseHeader cfg hdr = .ok H ∧
      (rawChunks chunks).length = H.annSize ∧ data.length = H.dataSize ∧
      n = headerSize + H.annSize + H.dataSize ∧
      (accepted = [] ∨ H.type ∈ accepted) ∧
      d.anns = chunks.foldl (fun a c => dictSet a (c.1.map UInt8.toNat) c.2) [] ∧
      d.type = H.type ∧ d.serId = H.serId ∧ d.seq = H.seq ∧ d.corr = H.corr ∧
      ((hasBit H.flags FLAGS_COMPRESSED = false ∧ d.data = data ∧ d.flags = H.flags) ∨
       (hasBit H.flags FLAGS_COMPRESSED = true ∧ z.decompress data = some d.data ∧
          d.flags = clearBit H.flags FLAGS_COMPRESSED)) := by
  obtain ⟨h6, h34, s2, e1, l6, l34, hs2⟩ := recvStub_ok cfg z accepted stream d n rest h
  obtain ⟨H, hp, hacc, hs3⟩ := stage2_ok cfg z accepted _ s2 d n rest hs2
  obtain ⟨body, e2, lb, hadd, hn⟩ := stage3_ok z H s2 d n rest hs3
  obtain ⟨_, chunks, hc1, hanns, ht, hs, hq, hc, hdata⟩ := addPayload_ok z H body d hadd
  refine ⟨h6 ++ h34, H, chunks, body.drop H.annSize, ?_, ?_, hp, ?_, ?_, hn, hacc, hanns, ht, hs, hq, hc, hdata⟩
  · rw [e1, e2, ← hc1, List.append_assoc]
    congr 2
    rw [← List.append_assoc, List.take_append_drop]
  · simp only [List.length_append, l6, l34, headerSize]
  · rw [← hc1]; simp only [List.length_take]; omega
  · simp only [List.length_drop]; omega

/-! ### whatever is accepted re-encodes to an equivalent message -/

theorem parseHeader_ok_ranges (cfg : Cfg) (h : Bytes) (H : Header) (hl : h.length = headerSize)
    (hp : parseHeader cfg h = .ok H) :
    H.type < 256 ∧ H.serId < 256 ∧ H.flags < 65536 ∧ H.seq < 65536 ∧ H.dataSize < 2 ^ 32 ∧
    H.annSize < 2 ^ 32 ∧ H.corr.length = 16 := by
  unfold parseHeader at hp
  simp only at hp
  split at hp
  · cases hp
  · split at hp
    · cases hp
    · simp only [Except.ok.injEq] at hp
      subst hp
      simp only [headerSize] at hl
      have b1 : ∀ (x : Bytes), x.length = 1 → fromBE x < 256 := fun x hx => by
        have := fromBE_lt x; rw [hx] at this; simpa using this
      have b2 : ∀ (x : Bytes), x.length = 2 → fromBE x < 65536 := fun x hx => by
        have := fromBE_lt x; rw [hx] at this; simpa using this
      have b4 : ∀ (x : Bytes), x.length = 4 → fromBE x < 2 ^ 32 := fun x hx => by
        have := fromBE_lt x; rw [hx] at this; simpa using this
      refine ⟨b1 _ ?_, b1 _ ?_, b2 _ ?_, b2 _ ?_, b4 _ ?_, b4 _ ?_, ?_⟩ <;>
        (simp only [List.length_take, List.length_drop]; omega)

theorem addPayload_walk (z : Zlib) (H : Header) (body : Bytes) (d : Decoded)
    (h : addPayload z H body = .ok d) :
    body.length = H.dataSize + H.annSize ∧ walkAnns H.annSize body H.annSize [] = .ok d.anns := by
  unfold addPayload at h
  by_cases hl : body.length ≠ H.dataSize + H.annSize
  · rw [if_pos hl] at h; cases h
  · rw [if_neg hl] at h
    refine ⟨by omega, ?_⟩
    generalize hw : walkAnns H.annSize body H.annSize [] = w at h
    cases w with
    | error e => simp at h
    | ok anns =>
      simp only at h
      by_cases hc : hasBit H.flags FLAGS_COMPRESSED = true
      · rw [if_pos hc] at h
        generalize hz : z.decompress (List.drop H.annSize body) = zr at h
        cases zr with
        | none => simp at h
        | some dd => simp only [Except.ok.injEq] at h; subst h; rfl
      · rw [if_neg hc] at h
        simp only [Except.ok.injEq] at h; subst h; rfl

/-- the message a decoded message stands for (its correlation id travels explicitly) -/
def msgOf (d : Decoded) : Msg :=
  { type := d.type, serId := d.serId, flags := d.flags, seq := d.seq, payload := d.data, anns := d.anns,
    corr := some d.corr }

/-- **C06_reencode.**  Whatever `recv_stub` accepts can be sent again: encoding the decoded message
    (uncompressed, with any limit that admits it) succeeds, and decoding those bytes gives back the same
    type, serializer, sequence number, payload, annotations and correlation id, with flags equal up
    to the two codec-managed bits.  (`hdata`: a decompressed payload must itself fit the 32-bit
    length field.) -/
theorem C06_reencode (cfg cfg' : Cfg) (z : Zlib) (accepted : List Nat) (stream : Bytes)
    (d : Decoded) (n : Nat) (rest rest' : Bytes) (hz : z.Lawful)
    (h : recvStub cfg z accepted stream = ⟨.ok d, n, rest⟩)
    (hcomp : cfg'.compression = false) (hdata : d.data.length < 2 ^ 32)
    (hmax : d.data.length + annSize d.anns ≤ cfg'.maxSize) :
    ∃ bs, encode cfg' z (msgOf d) = .ok bs ∧
      (recvStub cfg' z [] (bs ++ rest')).out =
        .ok { d with flags := setBit (clearBit d.flags FLAGS_COMPRESSED) FLAGS_CORR_ID } ∧
      (recvStub cfg' z [] (bs ++ rest')).rest = rest' := by
  obtain ⟨h6, h34, s2, e1, l6, l34, hs2⟩ := recvStub_ok cfg z accepted stream d n rest h
  obtain ⟨H, hp, _, hs3⟩ := stage2_ok cfg z accepted _ s2 d n rest hs2
  obtain ⟨body, _, _, hadd, _⟩ := stage3_ok z H s2 d n rest hs3
  have hlen40 : (h6 ++ h34).length = headerSize := by simp [l6, l34, headerSize]
  obtain ⟨rt, rs, rf, rq, _, ra, rc⟩ := parseHeader_ok_ranges cfg _ H hlen40 hp
  obtain ⟨hbl, hwalk⟩ := addPayload_walk z H body d hadd
  obtain ⟨_, _, _, _, ht, hsr, hsq, hcr, hfl⟩ := addPayload_ok z H body d hadd
  obtain ⟨hnd, hok, hsz⟩ := walk_reencodable H.annSize body H.annSize [] d.anns H.annSize hwalk (by omega)
    (by simp [keysOf]) (by simp) (by simp [annSize])
  have hflags : d.flags < 65536 := by
    rcases hfl with ⟨_, _, hf⟩ | ⟨_, _, hf⟩
    · rw [hf]; exact rf
    · rw [hf]; exact Nat.lt_of_le_of_lt (clearBit_le _ _) rf
  -- the encoder's view of msgOf d under cfg'
  have hnc : isCompressed cfg' (msgOf d) = false := by simp [isCompressed, hcomp]
  have hwp : wirePayload cfg' z (msgOf d) = d.data := by
    unfold wirePayload; rw [hnc]; simp [msgOf]
  have hhf : headerFlags cfg' (msgOf d) = setBit (clearBit d.flags FLAGS_COMPRESSED) FLAGS_CORR_ID := by
    unfold headerFlags; rw [hnc]; simp [msgOf]
  obtain ⟨abytes, habytes⟩ := encodeAnns_ok d.anns hok
  have henc : ∃ bs, encode cfg' z (msgOf d) = .ok bs := by
    unfold encode
    simp only [hwp, hhf]
    have hm : (msgOf d).anns = d.anns := rfl
    have hcorr : (msgOf d).corr.getD zeroCorr = d.corr := rfl
    rw [hm, hcorr]
    rw [if_neg (by omega)]
    rw [if_neg (by rw [hcr]; simp [rc])]
    have hfl2 : setBit (clearBit d.flags FLAGS_COMPRESSED) FLAGS_CORR_ID < 65536 :=
      setBit64_lt _ (Nat.lt_of_le_of_lt (clearBit_le _ _) hflags)
    have : ¬ ((msgOf d).type ≥ 256 ∨ (msgOf d).serId ≥ 256 ∨
        setBit (clearBit d.flags FLAGS_COMPRESSED) FLAGS_CORR_ID ≥ 65536 ∨ (msgOf d).seq ≥ 65536 ∨
        d.data.length ≥ 2 ^ 32 ∨ annSize d.anns ≥ 2 ^ 32) := by
      simp only [msgOf, ht, hsr, hsq, not_or, Nat.not_le]
      exact ⟨rt, rs, hfl2, rq, hdata, by omega⟩
    rw [if_neg this, habytes]
    exact ⟨_, rfl⟩
  obtain ⟨bs, hbs⟩ := henc
  refine ⟨bs, hbs, ?_⟩
  have hrt := C06_roundtrip cfg' z (msgOf d) bs rest' [] hz (by simpa [msgOf] using hnd) hbs (Or.inl rfl)
  refine ⟨?_, hrt.2.1⟩
  rw [hrt.1]
  simp [decodedOf, msgOf, zeroCorr]

/-! ### fragmentation: the codec over the socket model of C17 -/

/-- `SocketConnection.recv(n)` over the scripted socket of `PyroModel.SockIO`. -/
def sockRecv (waitall : Bool) (n : Nat) (st : Bytes × List SockIO.Ev) : Option (Bytes × (Bytes × List SockIO.Ev)) :=
  match SockIO.receive waitall n st.1 st.2 with
  | (.ok d, rest, sc) => some (d, (rest, sc))
  | _ => none

theorem sockRecv_exact (waitall : Bool) (n : Nat) (st : Bytes × List SockIO.Ev) (d : Bytes)
    (st' : Bytes × List SockIO.Ev) (h : sockRecv waitall n st = some (d, st')) :
    recvN n st.1 = some (d, st'.1) := by
  unfold sockRecv at h
  split at h
  · rename_i d' rest sc heq
    simp only [Option.some.injEq, Prod.mk.injEq] at h
    obtain ⟨rfl, rfl⟩ := h
    obtain ⟨h1, h2, h3⟩ := Pyro.C17.C17_recv_exact waitall n st.1 st.2 d' rest sc heq
    unfold recvN
    have : n ≤ st.1.length := by
      rw [h1] at h3; simp only [List.length_take] at h3; omega
    rw [if_pos this, ← h1, ← h2]
  · cases h

/-- Generic: a connection whose `recv` returns exactly the next bytes of its unread stream makes
    `recv_stub` behave exactly as on the unfragmented stream. -/
theorem recvStubG_eq {σ : Type} (recv : Nat → σ → Option (Bytes × σ)) (unread : σ → Bytes)
    (hrecv : ∀ n s d s', recv n s = some (d, s') → recvN n (unread s) = some (d, unread s'))
    (cfg : Cfg) (z : Zlib) (accepted : List Nat) (s : σ) (r : StubResult)
    (h : recvStubG recv unread cfg z accepted s = some r) :
    recvStub cfg z accepted (unread s) = r := by
  unfold recvStubG at h
  unfold recvStub
  generalize h1 : recv 6 s = r1 at h
  cases r1 with
  | none => simp at h
  | some p1 =>
    obtain ⟨h6, s1⟩ := p1
    rw [hrecv 6 s h6 s1 h1]
    simp only at h ⊢
    by_cases c1 : h6.take 4 ≠ tagPYRO
    · rw [if_pos c1] at h ⊢; simpa using h
    · rw [if_neg c1] at h ⊢
      by_cases c2 : h6.drop 4 ≠ toBE 2 protocolVersion
      · rw [if_pos c2] at h ⊢; simpa using h
      · rw [if_neg c2] at h ⊢
        generalize h2 : recv (headerSize - 6) s1 = r2 at h
        cases r2 with
        | none => simp at h
        | some p2 =>
          obtain ⟨h34, s2⟩ := p2
          rw [hrecv _ s1 h34 s2 h2]
          simp only at h ⊢
          unfold recvStage2
          generalize hp : parseHeader cfg (h6 ++ h34) = ph at h ⊢
          cases ph with
          | error e => simpa using h
          | ok H =>
            simp only at h ⊢
            by_cases c3 : (!accepted.isEmpty && !accepted.contains H.type) = true
            · rw [if_pos c3] at h ⊢; simpa using h
            · rw [if_neg c3] at h ⊢
              unfold recvStage3
              generalize h3 : recv (H.annSize + H.dataSize) s2 = r3 at h
              cases r3 with
              | none => simp at h
              | some p3 =>
                obtain ⟨body, s3⟩ := p3
                rw [hrecv _ s2 body s3 h3]
                simpa using h

/-- **C06_fragmentation.**  Reading a message through the socket layer — any script of partial
    deliveries and retryable errors, with or without MSG_WAITALL — gives exactly the result of
    reading it from the unfragmented stream (same message or same error, same unread rest),
    whenever no socket read itself failed. -/
theorem C06_fragmentation (waitall : Bool) (cfg : Cfg) (z : Zlib) (accepted : List Nat)
    (stream : Bytes) (script : List SockIO.Ev) (r : StubResult)
    (h : recvStubG (sockRecv waitall) (fun st => st.1) cfg z accepted (stream, script) = some r) :
    recvStub cfg z accepted stream = r :=
  recvStubG_eq (sockRecv waitall) (fun st => st.1)
    (fun n s d s' hh => sockRecv_exact waitall n s d s' hh) cfg z accepted (stream, script) r h

/-! ### obligations about facts extracted from the current source (PyroModel/Gen/C06.lean) -/

/-- The constants and layout the model is written against are the ones in the source now. -/
theorem C06_gen_facts :
    Pyro.Gen.C06.headerFormat = "!4sHBBHHII16sHH" ∧
    Pyro.Gen.C06.headerSize = headerSize ∧
    Pyro.Gen.C06.protocolVersion = protocolVersion ∧
    Pyro.Gen.C06.magicNumber = magicNumber ∧
    Pyro.Gen.C06.flagsCompressed = FLAGS_COMPRESSED ∧
    Pyro.Gen.C06.flagsCorrId = FLAGS_CORR_ID ∧
    Pyro.Gen.C06.acceptedKeyLengths = [4] ∧
    (packHeader 0 0 0 0 0 0 zeroCorr).length = Pyro.Gen.C06.headerSize := by decide

/-- **C06_gen_conditions.**  The three decisions of the codec — compress or not, sender refuses, receiver
    refuses — are translated from the source's own `if` conditions on every run; for all arguments
    they are the conditions the model's `isCompressed`, `encode` (C06_sender_limit) and `parseHeader`
    use, and the sender checks its limit after the compression step. -/
theorem C06_gen_conditions :
    (∀ (cfg : Cfg) (m : Msg), Pyro.Gen.C06.compressCond cfg.compression m.payload.length = isCompressed cfg m) ∧
    (∀ (cfg : Cfg) (z : Zlib) (m : Msg),
        Pyro.Gen.C06.senderRefuses ((wirePayload cfg z m).length + annSize m.anns) cfg.maxSize = true ↔
          encode cfg z m = .error .tooLarge) ∧
    (∀ (cfg : Cfg) (h : Bytes) (H : Header), parseHeader cfg h = .ok H →
        Pyro.Gen.C06.receiverRefuses H.dataSize H.annSize cfg.maxSize = false) ∧
    Pyro.Gen.C06.senderLimitAfterCompression = true := by
  refine ⟨?_, ?_, ?_, by decide⟩
  · intro cfg m; simp [Pyro.Gen.C06.compressCond, isCompressed, compressThreshold]
  · intro cfg z m
    rw [C06_sender_limit]
    simp [Pyro.Gen.C06.senderRefuses]
  · intro cfg h H hp
    have := parseHeader_ok_size cfg h H hp
    simp only [Pyro.Gen.C06.receiverRefuses, decide_eq_false_iff_not, Nat.not_lt]
    omega

/-! ### non-vacuity -/

private def zId : Zlib := { compress := fun p => 0x78 :: p, decompress := fun d => d.tail? }
example : zId.Lawful := fun _ => rfl
private def m0 : Msg := { type := 4, serId := 2, flags := 2 + 8, seq := 65535, payload := [1, 2, 3],
                          anns := [([72, 77, 65, 67], [9, 9]), ([65, 66, 67, 68], [])], corr := some zeroCorr }
example : (encode ⟨false, 1000⟩ zId m0).toOption.isSome = true ∧ (keysOf m0.anns).Nodup := by decide
example : (recvStub ⟨false, 1000⟩ zId [4] (((encode ⟨false, 1000⟩ zId m0).toOption.getD []) ++ [7, 7])).out.toOption
    = some (decodedOf m0) := by decide

end Pyro.C06
