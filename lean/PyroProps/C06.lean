/-
  C06 — Wire messages decode to exactly what was encoded; nothing else decodes.
  Property theorems about `PyroModel.Wire` (model of Pyro5/protocol.py).
  Quantifiers: every field value, payload, annotation list, correlation id, compression setting,
  MAX_MESSAGE_SIZE, every compressor satisfying the zlib round-trip law; every trailing stream.
-/
import PyroModel.Wire
import PyroProofs.Wire

namespace Pyro.C06

open Pyro Pyro.Wire

/-- What the receiver must reconstruct from `m`: everything, with the two codec-managed flag bits
    normalised (COMPRESSED cleared; CORR_ID set iff a correlation id travelled). -/
def decodedOf (m : Msg) : Decoded :=
  { type := m.type, serId := m.serId,
    flags := (let f := clearBit m.flags FLAGS_COMPRESSED
              if m.corr.isSome then setBit f FLAGS_CORR_ID else f),
    seq := m.seq, data := m.payload, anns := m.anns, corr := m.corr.getD zeroCorr }

theorem encode_ok_inv (cfg : Cfg) (z : Zlib) (m : Msg) (bs : Bytes) (h : encode cfg z m = .ok bs) :
    (wirePayload cfg z m).length + annSize m.anns ≤ cfg.maxSize ∧
    (m.corr.getD zeroCorr).length = 16 ∧
    m.type < 256 ∧ m.serId < 256 ∧ headerFlags cfg m < 65536 ∧ m.seq < 65536 ∧
    (wirePayload cfg z m).length < 2 ^ 32 ∧ annSize m.anns < 2 ^ 32 ∧
    ∃ abytes, encodeAnns m.anns = .ok abytes ∧
      bs = packHeader m.type m.serId (headerFlags cfg m) m.seq (wirePayload cfg z m).length
             (annSize m.anns) (m.corr.getD zeroCorr) ++ (abytes ++ wirePayload cfg z m) := by
  unfold encode at h
  simp only at h
  by_cases h1 : (wirePayload cfg z m).length + annSize m.anns > cfg.maxSize
  · rw [if_pos h1] at h; cases h
  · rw [if_neg h1] at h
    by_cases h2 : (m.corr.getD zeroCorr).length ≠ 16
    · rw [if_pos h2] at h; cases h
    · rw [if_neg h2] at h
      by_cases h3 : m.type ≥ 256 ∨ m.serId ≥ 256 ∨ headerFlags cfg m ≥ 65536 ∨ m.seq ≥ 65536 ∨
          (wirePayload cfg z m).length ≥ 2 ^ 32 ∨ annSize m.anns ≥ 2 ^ 32
      · rw [if_pos h3] at h; cases h
      · rw [if_neg h3] at h
        simp only [not_or, Nat.not_le] at h3
        obtain ⟨a1, a2, a3, a4, a5, a6⟩ := h3
        refine ⟨by omega, by omega, a1, a2, a3, a4, a5, a6, ?_⟩
        cases hr : encodeAnns m.anns with
        | error e => rw [hr] at h; cases h
        | ok abytes =>
          rw [hr] at h
          simp only [Except.ok.injEq] at h
          exact ⟨abytes, rfl, h.symm⟩

theorem parseHeader_pack (cfg : Cfg) (t s f q d a : Nat) (c : Bytes)
    (ht : t < 256) (hs : s < 256) (hf : f < 65536) (hq : q < 65536)
    (hd : d < 2 ^ 32) (ha : a < 2 ^ 32) (hc : c.length = 16) (hmax : d + a ≤ cfg.maxSize) :
    parseHeader cfg (packHeader t s f q d a c) =
      .ok { type := t, serId := s, flags := f, seq := q, dataSize := d, annSize := a, corr := c } := by
  unfold parseHeader packHeader headerPrefix
  simp only [List.append_assoc]
  have htag : tagPYRO.length = 4 := rfl
  simp only [take_append_len _ _ 4 htag, drop_append_len _ _ 4 htag, take_toBE_append, drop_toBE_append,
    take_append_len _ _ 16 hc, drop_append_len _ _ 16 hc]
  rw [fromBE_toBE 2 protocolVersion (by decide), fromBE_toBE 1 t (by simpa using ht),
    fromBE_toBE 1 s (by simpa using hs), fromBE_toBE 2 f (by simpa using hf),
    fromBE_toBE 2 q (by simpa using hq), fromBE_toBE 4 d (by simpa using hd),
    fromBE_toBE 4 a (by simpa using ha)]
  have hm : fromBE (List.take 2 (toBE 2 magicNumber)) = magicNumber := by
    have : List.take 2 (toBE 2 magicNumber) = toBE 2 magicNumber := by
      rw [List.take_of_length_le]; simp
    rw [this, fromBE_toBE 2 magicNumber (by decide)]
  rw [hm]
  simp only [ne_eq, not_true_eq_false, or_self, if_false]
  rw [if_neg (by omega)]

/-- **C06_roundtrip.**  Any message the sender can build is decoded by `recv_stub` into exactly its
    fields, payload, annotations and correlation id, consuming exactly the bytes of that message
    and leaving `rest` unread — for every trailing stream, compression on or off, and every zlib
    satisfying `decompress (compress p) = p`.  (`hnd`: annotation keys are distinct, as the keys of
    a Python dict are.) -/
theorem C06_roundtrip (cfg : Cfg) (z : Zlib) (m : Msg) (bs rest : Bytes) (accepted : List Nat)
    (hz : z.Lawful) (hnd : (keysOf m.anns).Nodup)
    (henc : encode cfg z m = .ok bs)
    (hacc : accepted = [] ∨ m.type ∈ accepted) :
    (recvStub cfg z accepted (bs ++ rest)).out = .ok (decodedOf m) ∧
    (recvStub cfg z accepted (bs ++ rest)).rest = rest ∧
    (recvStub cfg z accepted (bs ++ rest)).requested = bs.length := by
  obtain ⟨hmax, hc, ht, hs, hf, hq, hd, ha, abytes, hann, rfl⟩ := encode_ok_inv cfg z m bs henc
  have hal := encodeAnns_length m.anns abytes hann
  have hparse := parseHeader_pack cfg m.type m.serId (headerFlags cfg m) m.seq
    (wirePayload cfg z m).length (annSize m.anns) (m.corr.getD zeroCorr) ht hs hf hq hd ha hc hmax
  -- stream = prefix6 ++ (post34 ++ (abytes ++ payload ++ rest))
  unfold recvStub
  have hstream : packHeader m.type m.serId (headerFlags cfg m) m.seq (wirePayload cfg z m).length
        (annSize m.anns) (m.corr.getD zeroCorr) ++ (abytes ++ wirePayload cfg z m) ++ rest
      = headerPrefix ++ ((toBE 1 m.type ++ (toBE 1 m.serId ++ (toBE 2 (headerFlags cfg m) ++ (toBE 2 m.seq ++
          (toBE 4 (wirePayload cfg z m).length ++ (toBE 4 (annSize m.anns) ++ (m.corr.getD zeroCorr ++
          (toBE 2 0 ++ toBE 2 magicNumber)))))))) ++ ((abytes ++ wirePayload cfg z m) ++ rest)) := by
    simp only [packHeader, List.append_assoc]
  rw [hstream, recvN_append _ _ 6 headerPrefix_length]
  simp only
  have hp4 : List.take 4 headerPrefix = tagPYRO := by simp [headerPrefix, tagPYRO]
  have hd4 : List.drop 4 headerPrefix = toBE 2 protocolVersion := by simp [headerPrefix, tagPYRO]
  rw [hp4, hd4]
  simp only [ne_eq, not_true_eq_false, if_false]
  have h34 : (toBE 1 m.type ++ (toBE 1 m.serId ++ (toBE 2 (headerFlags cfg m) ++ (toBE 2 m.seq ++
          (toBE 4 (wirePayload cfg z m).length ++ (toBE 4 (annSize m.anns) ++ (m.corr.getD zeroCorr ++
          (toBE 2 0 ++ toBE 2 magicNumber)))))))).length = headerSize - 6 := by
    simp [hc, headerSize]
  rw [recvN_append _ _ _ h34]
  simp only
  have hpk : headerPrefix ++ (toBE 1 m.type ++ (toBE 1 m.serId ++ (toBE 2 (headerFlags cfg m) ++ (toBE 2 m.seq ++
          (toBE 4 (wirePayload cfg z m).length ++ (toBE 4 (annSize m.anns) ++ (m.corr.getD zeroCorr ++
          (toBE 2 0 ++ toBE 2 magicNumber))))))))
      = packHeader m.type m.serId (headerFlags cfg m) m.seq (wirePayload cfg z m).length
        (annSize m.anns) (m.corr.getD zeroCorr) := rfl
  rw [hpk, hparse]
  simp only
  have hfilter : (!accepted.isEmpty && !accepted.contains m.type) = false := by
    rcases hacc with h | h
    · subst h; rfl
    · have : accepted.contains m.type = true := by simpa using h
      rw [this]; simp
  rw [hfilter]
  simp only [Bool.false_eq_true, if_false]
  have hbody : (abytes ++ wirePayload cfg z m).length = annSize m.anns + (wirePayload cfg z m).length := by
    simp [hal]
  rw [recvN_append _ _ _ hbody]
  simp only
  refine ⟨?_, ?_, ?_⟩
  rotate_left
  · first | rfl | trivial
  · simp only [List.length_append, packHeader_length _ _ _ _ _ _ _ hc, headerSize, hal]
    omega
  · -- addPayload
    unfold addPayload
    simp only
    rw [if_neg (by simp [hal]; omega)]
    have hwalk := walk_encode m.anns abytes (wirePayload cfg z m) [] (annSize m.anns) hann (by omega)
      (by simpa using hnd)
    rw [hal] at hwalk
    rw [hwalk]
    simp only [List.nil_append]
    have hdrop : List.drop (annSize m.anns) (abytes ++ wirePayload cfg z m) = wirePayload cfg z m :=
      drop_append_len _ _ _ hal
    rw [hdrop]
    -- flags
    unfold decodedOf headerFlags wirePayload
    cases hcmp : isCompressed cfg m with
    | true =>
      simp only [if_true]
      cases hcorr : m.corr.isSome with
      | true =>
        simp only [if_true]
        have : hasBit (setBit (setBit (clearBit m.flags FLAGS_COMPRESSED) FLAGS_COMPRESSED) FLAGS_CORR_ID) FLAGS_COMPRESSED = true := by
          simp only [FLAGS_COMPRESSED, FLAGS_CORR_ID]; rw [hasBit2_setBit64, hasBit_setBit2]
        rw [this]
        simp only [if_true, hz m.payload]
        congr 1
        simp only [FLAGS_COMPRESSED, FLAGS_CORR_ID]
        rw [clearBit2_setBit64, clearBit2_setBit2_clearBit2]
      | false =>
        simp only [Bool.false_eq_true, if_false]
        have : hasBit (setBit (clearBit m.flags FLAGS_COMPRESSED) FLAGS_COMPRESSED) FLAGS_COMPRESSED = true := by
          simp only [FLAGS_COMPRESSED]; rw [hasBit_setBit2]
        rw [this]
        simp only [if_true, hz m.payload]
        congr 1
        simp only [FLAGS_COMPRESSED]
        rw [clearBit2_setBit2_clearBit2]
    | false =>
      simp only [Bool.false_eq_true, if_false]
      cases hcorr : m.corr.isSome with
      | true =>
        simp only [if_true]
        have : hasBit (setBit (clearBit m.flags FLAGS_COMPRESSED) FLAGS_CORR_ID) FLAGS_COMPRESSED = false := by
          simp only [FLAGS_COMPRESSED, FLAGS_CORR_ID]; rw [hasBit2_setBit64, hasBit_clearBit2]
        rw [this]
        simp only [Bool.false_eq_true, if_false]
      | false =>
        simp only [Bool.false_eq_true, if_false]
        have : hasBit (clearBit m.flags FLAGS_COMPRESSED) FLAGS_COMPRESSED = false := by
          simp only [FLAGS_COMPRESSED]; rw [hasBit_clearBit2]
        rw [this]
        simp only [Bool.false_eq_true, if_false]

end Pyro.C06
