/-
  C18Src — the transcription of `Pool.process`, `Pool.notify_done`, `Pool.close` that harness/props/c18_tr.py
  regenerates from Pyro5/svr_threads.py on every run (PyroModel/Gen/C18Src.lean, vocabulary PyroModel/PoolSrc.lean)
  computes, FOR EVERY pool state (reachable or not), every `pick`, every size, exactly what the hand-written
  micro-step bodies of PyroModel/Pool.lean compute when run atomically (`Pool.call`) — theorems `C18_*_translated`.
  Consequently the coarse semantics with the pool methods taken from the source (`PoolSrc.runSrc Gen.C18Src.impl`)
  IS `Pool.run` (`C18_source_run`), and the main theorems are restated about it (`C18_source_*`).
  The lock discipline of the same three functions is discharged from generated lock skeletons with the shared
  checker `LockSkeleton.allLocked` + `allLocked_sound` (`C18_source_locked`).
-/
import PyroModel.PoolSrc
import PyroModel.LockSkeleton
import PyroModel.Gen.C18Src
import PyroProofs.Pool
import PyroProps.C18

namespace Pyro.C18

open Pyro Pyro.Pool Pyro.PoolSrc Pyro.Gen.C18Src

set_option linter.unusedSimpArgs false
set_option linter.unusedVariables false

/-- **C18_process_translated.**  For every pool state, `THREADPOOL_SIZE`, and choice of `set.pop()`: the
    transcription of the source's `Pool.process` returns / raises the same and leaves the same state (sets, flag,
    every worker's slot and event, ghost logs) as the model's `procBody` run atomically. -/
theorem C18_process_translated (mn mx pick : Nat) (s : St) :
    processSrc mx pick s = call mn mx (.process pick) s := by
  cases hc : s.closed with
  | true =>
    rw [call_process_closed mn mx pick s hc]
    simp [processSrc, enterProcess, acquire, release, ifc, raiseClosed, hc]
  | false =>
    cases hi : s.idle with
    | nil =>
      by_cases hlt : s.busy.length < mx
      · rw [call_process_new mn mx pick s hc hi hlt]
        simp [processSrc, enterProcess, acquire, release, ifc, newWorker, startW, busyAdd, handJob, ret, hc, hi, hlt,
          St.signal, St.setW]
      · rw [call_process_full mn mx pick s hc hi hlt]
        simp [processSrc, enterProcess, acquire, release, ifc, raiseNoFree, hc, hi, hlt]
    | cons a l =>
      have hpos : 0 < s.idle.length := by rw [hi]; simp
      obtain ⟨w, hw⟩ : ∃ w, s.idle[pick % s.idle.length]? = some w :=
        ⟨_, List.getElem?_eq_getElem (Nat.mod_lt _ hpos)⟩
      rw [call_process_idle mn mx pick s w hc hw]
      have hne : s.idle.isEmpty = false := by rw [hi]; rfl
      simp [processSrc, enterProcess, acquire, release, ifc, popIdle, busyAdd, handJob, ret, hc, hne, hw,
        St.signal, St.setW]

/-- **C18_notify_translated.**  For every pool state, `THREADPOOL_SIZE_MIN` and worker (also one that is not in
    `busy`, also in a closed pool): the transcription of `Pool.notify_done` = the model's `notifyBody` run atomically. -/
theorem C18_notify_translated (mn mx : Nat) (w : Wid) (s : St) :
    notifySrc mn w s = call mn mx (.notifyDone w) s := by
  by_cases hb : w ∈ s.busy <;> cases hc : s.closed <;> by_cases hge : mn ≤ s.idle.length <;>
    simp [notifySrc, acquire, release, ifc, busyDiscard, tellExit, idleAdd, ret, call, toOp, Lock.Op.run, Lock.runSteps, body,
      notifyBody, Pool.guard, hb, hc, hge, St.signal, St.setW, List.erase_of_not_mem]

/-- **C18_close_translated.**  For every pool state: the transcription of `Pool.close` (the locked part, then the
    sleep and the timed joins over the two local snapshots) = the model's `closeBody` run atomically. -/
theorem C18_close_translated (mn mx : Nat) (s : St) :
    closeSrc s = call mn mx .close s := by
  cases hc : s.closed with
  | true => rw [call_close_closed mn mx s hc]; simp [closeSrc, acquire, release, ifc, ret, hc]
  | false =>
    rw [call_close_open mn mx s hc]
    simp [closeSrc, acquire, release, ifc, ret, setClosed, swapIdle, swapBusy, tellExitAll, sleepStep, joinAllTimed, hc,
      St.signalAll]

/-! ### the coarse semantics with the methods taken from the source is the model's -/

theorem wstepSrc_eq (mn mx : Nat) (s : St) (w : Wid) : wstepSrc impl mn mx s w = wstep mn mx s w := by
  unfold wstepSrc wstep
  cases hx : s.ws[w]? with
  | none => rfl
  | some x =>
    simp only []
    by_cases hp : x.phase = .notifying
    · rw [if_pos hp]; simp only [hp, impl]; rw [C18_notify_translated mn mx]
    · rw [if_neg hp]

theorem stepSrc_eq (mn mx : Nat) (s : St) (a : Act) : stepSrc impl mn mx s a = step mn mx s a := by
  cases a with
  | submit pick => simp only [stepSrc, step, impl]; rw [C18_process_translated mn mx]
  | finish j => rfl
  | wstep w => simp only [stepSrc, step]; exact wstepSrc_eq mn mx s w
  | close => simp only [stepSrc, step, impl]; rw [C18_close_translated mn mx]

/-- **C18_source_run.**  Any history (any interleaving of submissions, job endings, worker statements and closes,
    of any length, from any state) executed with the pool methods AS TRANSCRIBED FROM THE SOURCE reaches exactly
    the state the model reaches. -/
theorem C18_source_run (mn mx : Nat) (s : St) (acts : List Act) :
    runSrc impl mn mx s acts = run mn mx s acts := by
  unfold runSrc run
  induction acts generalizing s with
  | nil => rfl
  | cons a rest ih => simp only [List.foldl_cons]; rw [stepSrc_eq]; exact ih _

/-! ### the main theorems restated about the transcription -/

/-- **C18_source_bounded.**  `C18_bounded` about the source's methods: under any timing the transcribed pool never
    has more than `THREADPOOL_SIZE` workers in `idle ∪ busy`, the two are duplicate-free and disjoint. -/
theorem C18_source_bounded (mn mx : Nat) (hm : mn ≤ mx) (acts : List Act) :
    let s := runSrc impl mn mx (init mn) acts
    s.idle.length + s.busy.length ≤ mx ∧ s.idle.Nodup ∧ s.busy.Nodup ∧ (∀ w, w ∈ s.idle → w ∉ s.busy) ∧
    (∀ w, w ∈ s.idle ∨ w ∈ s.busy → w < s.ws.length) := by
  intro s
  have h := C18_bounded mn mx hm acts
  simp only [s, C18_source_run]
  exact ⟨h.1, h.2.1, h.2.2.1, h.2.2.2.1, h.2.2.2.2.1⟩

/-- **C18_source_refused_iff_full.**  In every state reachable with the source's methods, the source's `process`
    raises NoFreeWorkersError iff the pool is open and all `THREADPOOL_SIZE` workers are busy, the closed-pool error
    iff the pool is closed, hands the job over iff open and `|busy| < THREADPOOL_SIZE`, and never fails otherwise. -/
theorem C18_source_refused_iff_full (mn mx : Nat) (hm : mn ≤ mx) (acts : List Act) (pick : Nat) :
    let s := runSrc impl mn mx (init mn) acts
    ((processSrc mx pick s).2 = .noFreeWorkers ↔ (s.closed = false ∧ s.busy.length = mx)) ∧
    ((processSrc mx pick s).2 = .poolClosed ↔ s.closed = true) ∧
    ((processSrc mx pick s).2 = .ok ↔ (s.closed = false ∧ s.busy.length < mx)) ∧
    (processSrc mx pick s).2 ≠ .internalError := by
  intro s
  simp only [s, C18_source_run, C18_process_translated mn mx]
  exact C18_refused_iff_full mn mx hm acts pick

/-- **C18_source_once_or_refused.**  `C18_once_or_refused` about the source's methods: every submitted job got exactly
    one answer; a job is started at most once, only if accepted, by the worker it was handed to; refused jobs never
    run; an accepted job that has not started sits in its worker's slot before the call. -/
theorem C18_source_once_or_refused (mn mx : Nat) (hm : mn ≤ mx) (acts : List Act) :
    let s := runSrc impl mn mx (init mn) acts
    (∀ j, j < s.nextJob ↔ j ∈ ids s) ∧
    (s.accepted.map (·.1)).Nodup ∧ s.refusedFull.Nodup ∧ s.refusedClosed.Nodup ∧
    (∀ j, (j ∈ s.accepted.map (·.1) → j ∉ s.refusedFull ∧ j ∉ s.refusedClosed) ∧ (j ∈ s.refusedFull → j ∉ s.refusedClosed)) ∧
    s.started.Nodup ∧ (∀ p, p ∈ s.started → p ∈ s.accepted) ∧
    (∀ j w w', (j, w) ∈ s.started → (j, w') ∈ s.started → w = w') ∧
    (∀ j w, (j, w) ∈ s.started → j ∉ s.refusedFull ∧ j ∉ s.refusedClosed) ∧
    (∀ j, j ∈ s.ended → ∃ w, (j, w) ∈ s.started) ∧
    (∀ p, p ∈ s.accepted → p ∈ s.started ∨ ∃ x, s.ws[p.2]? = some x ∧ x.slot = some p.1 ∧ preStart x.phase) := by
  intro s
  simp only [s, C18_source_run]
  exact C18_once_or_refused mn mx hm acts

/-- **C18_source_close.**  After the source's `close()` (from any reachable state, followed by any further history
    with the source's methods) the pool is closed and stays closed, both sets are empty, nothing more is accepted, and
    the source's `process` refuses with the closed-pool error. -/
theorem C18_source_close (mn mx : Nat) (hm : mn ≤ mx) (acts more : List Act) (pick : Nat) :
    let s1 := (closeSrc (runSrc impl mn mx (init mn) acts)).1
    let s2 := runSrc impl mn mx s1 more
    s1.closed = true ∧ s2.closed = true ∧ s2.idle = [] ∧ s2.busy = [] ∧ s2.accepted = s1.accepted ∧
    (processSrc mx pick s2).2 = .poolClosed := by
  intro s1 s2
  have e1 : s1 = run mn mx (init mn) (acts ++ [.close]) := by
    simp only [s1, C18_source_run, C18_close_translated mn mx, run, List.foldl_append, List.foldl_cons, List.foldl_nil, step]
  have e2 : s2 = run mn mx (init mn) ((acts ++ [.close]) ++ more) := by
    simp only [s2, C18_source_run, e1, run, List.foldl_append]
  have e3 : s2 = run mn mx s1 more := by simp only [s2, C18_source_run]
  have hA := C18_close mn mx hm acts [] pick
  have hc1 : s1.closed = true := by
    rw [e1]; simpa [run, List.foldl_append] using hA.1
  have hB := (C18_close mn mx hm (acts ++ [.close]) more pick).2 (by rw [← e1]; exact hc1)
  rw [← e1, ← e3] at hB
  have hc2 : s2.closed = true := hB.2.2.1
  have hC := (C18_close mn mx hm ((acts ++ [.close]) ++ more) [] pick).2 (by rw [← e2]; exact hc2)
  rw [← e2] at hC
  refine ⟨hc1, hc2, hC.1, hC.2.1, hB.2.2.2.1, ?_⟩
  rw [C18_process_translated mn mx]; exact hC.2.2.2.2

/-! ### lock discipline of the same three functions, from the source -/

/-- the skeleton mentions the protected data at all (so the claim below is not about an empty skeleton) -/
def hasAccess : LockSkeleton.Sk → Bool
  | .access => true
  | .seq a b => hasAccess a || hasAccess b
  | .locked b => hasAccess b
  | .alt a b => hasAccess a || hasAccess b
  | .star b => hasAccess b
  | _ => false

/-- **C18_source_locked.**  In the current source, in EVERY possible execution of `Pool.process`, `Pool.notify_done`
    and `Pool.close` (either side of every `if`, any number of loop rounds, helper methods of the class followed), every
    access of `self.idle` / `self.busy` / `self.closed` happens while `count_lock` is held — the premise under which
    `Lock.atomic` (`C18_methods_atomic`) makes the sequential reading of the three transcriptions the right one;
    and each of the three does access that data (inside the lock). -/
theorem C18_source_locked :
    (∀ sk ∈ [processSk, notifySk, closeSk], ∀ t, LockSkeleton.Exec sk 0 t → ∀ e ∈ t, 0 < e) ∧
    (∀ sk ∈ [processSk, notifySk, closeSk], hasAccess sk = true) := by
  refine ⟨?_, by decide⟩
  intro sk hsk t ht
  have hall : ∀ sk ∈ [processSk, notifySk, closeSk], LockSkeleton.allLocked sk 0 = true := by decide
  exact LockSkeleton.allLocked_sound ht (hall sk hsk)

end Pyro.C18
