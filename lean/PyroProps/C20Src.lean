/-
  C20Src.lean — the deciding functions of Pyro5/utils/httpgateway.py as TRANSCRIBED from the source on
  every run (harness/props/c20_tr.py → PyroModel/Gen/C20Src.lean) compute, for every configuration,
  backend, request, path and parameter dict, exactly what the hand-written model of
  PyroModel/Gateway.lean computes (`C20_…_translated`), and the property theorems restated about the
  transcription (`C20_source_…`).

  The proofs below do not depend on the exact text of the generated definitions, only on their being
  a decision tree over the vocabulary of PyroModel/GatewaySrc.lean that agrees with the model: the
  harmless variants (`method == "OPTIONS"` for `method in ("OPTIONS")`, `d.pop(k, None)` for
  `if k in d: del d[k]`, helpers extracted or inlined, locals renamed) go through unchanged.
-/
import PyroModel.Gen.C20Src
import PyroProps.C20

set_option linter.unusedSimpArgs false

namespace Pyro.C20

open Pyro Pyro.Gateway Pyro.Gen.C20Src

/-! ### the vocabulary against the model's own string / dict functions -/

theorem src_lstrip_slash (s : Str) : Src.lstrip [47] s = lstripSlash s := by
  induction s with
  | nil => rfl
  | cons c rest ih =>
    by_cases h : c = 47
    · subst h; simp [Src.lstrip, lstripSlash, cSlash, ih]
    · simp [Src.lstrip, lstripSlash, cSlash, h]

theorem src_truthy (s : Str) : (Src.truthy s = true) ↔ s ≠ [] := by
  cases s <;> simp [Src.truthy]

theorem src_truthyB (cfg : Cfg) : Src.truthyB cfg.key = keyConfigured cfg := by
  unfold Src.truthyB keyConfigured; cases cfg.key <;> rfl

theorem src_presented (req : Req) (ps : Params) :
    Src.orP req.keyHeader (Src.getP [36, 107, 101, 121] ps (PVal.one [])) = presentedKey req ps := by
  unfold Src.orP Src.getP presentedKey
  by_cases h : req.keyHeader = []
  · simp [h, Src.truthy, sKey]; cases lookupP [36, 107, 101, 121] ps <;> rfl
  · have : Src.truthy req.keyHeader = true := (src_truthy _).2 h
    simp [h, this]

/-- `OPTIONS` is the only one of the three allowed methods that is a substring of "OPTIONS" -/
theorem src_substr_options (m : Str) (h : m = sGET ∨ m = sPOST ∨ m = sOPTIONS) :
    Src.substr m [79, 80, 84, 73, 79, 78, 83] = decide (m = sOPTIONS) := by
  rcases h with h | h | h <;> subst h <;> decide

/-! ### the transcriptions compute what the model computes -/

/-- `singlyfy_parameters` as transcribed = the model's `singlyfy`, for every parsed query string. -/
theorem C20_singlyfy_translated (q : List (Str × List Str)) : singlyfySrc q = singlyfy q := by
  unfold singlyfySrc singlyfy
  apply List.map_congr_left
  intro kv _
  rcases kv with ⟨k, v⟩
  match v with
  | [] => rfl
  | [a] => rfl
  | a :: b :: t => simp

/-- the assignments to `Pyro5.config` at the head of `pyro_app` as transcribed = the model's `writeConfig`. -/
theorem C20_configWrite_translated (tmo : Nat) (c : PyroConfig) : configWriteSrc tmo c = writeConfig tmo c := by
  rfl

/-- `process_pyro_request` as transcribed (index page, path split, key check, removal of `$key`,
    expose-pattern check, refusals, hand-over to the forwarding block) = the model's `process`, for
    every configuration, backend, request, path and parameter dict. -/
theorem C20_process_translated (cfg : Cfg) (be : Backend) (req : Req) (p : Str) (ps : Params) :
    processSrc cfg be req p ps = process cfg be req p ps := by
  unfold processSrc process
  by_cases hp : p = []
  · subst hp; simp [Src.truthy]
  · have ht : Src.truthy p = true := (src_truthy _).2 hp
    simp only [ht, hp, if_true, if_false]
    cases hs : splitPath p with
    | none => simp [resp404]
    | some om =>
      obtain ⟨o, m⟩ := om
      simp only [src_truthyB, src_presented]
      unfold keyOK patternOK forwardParams Src.fwd
      by_cases hk : keyConfigured cfg = true
      · simp only [hk, if_true]
        cases hpk : presentedKey req ps with
        | one s =>
          by_cases he : some (utf8 s) = cfg.key
          · cases hpat : cfg.pattern with
            | none => simp [he, respBadKey, respDenied, sKey]
            | some pat =>
              by_cases hpe : pat = []
              · subst hpe; simp [he, Src.truthy, sKey]
              · have := (src_truthy pat).2 hpe
                by_cases hm : be.rmatch pat o = true
                · simp [he, this, hm, hpe, sKey]
                · simp [he, this, hm, hpe, sKey, respDenied]
          · simp [he, respBadKey]
        | many vs =>
          cases hck : cfg.key with
          | none => simp [keyConfigured, hck] at hk
          | some k => simp [respBadKey]
      · simp only [hk]
        cases hpat : cfg.pattern with
        | none => simp
        | some pat =>
          by_cases hpe : pat = []
          · subst hpe; simp [Src.truthy]
          · have := (src_truthy pat).2 hpe
            by_cases hm : be.rmatch pat o = true
            · simp [this, hm, hpe]
            · simp [this, hm, hpe, respDenied]

/-- `pyro_app` as transcribed (routing by path and method) = the model's `app`, for every
    configuration, backend and request. -/
theorem C20_app_translated (cfg : Cfg) (be : Backend) (req : Req) : appSrc cfg be req = app cfg be req := by
  unfold appSrc app
  simp only [src_lstrip_slash, C20_process_translated, C20_singlyfy_translated, Src.startswith, Src.sliceFrom, Src.strIn]
  by_cases hp : lstripSlash req.path = []
  · simp [hp, Src.truthy, resp302]
  · have ht : Src.truthy (lstripSlash req.path) = true := (src_truthy _).2 hp
    simp only [ht, hp, if_true, if_false]
    by_cases hpre : sPyro.isPrefixOf (lstripSlash req.path) = true
    · have hpre' : List.isPrefixOf [112, 121, 114, 111, 47] (lstripSlash req.path) = true := hpre
      simp only [hpre, hpre', if_true]
      by_cases hm : req.method = sGET ∨ req.method = sPOST ∨ req.method = sOPTIONS
      · have hin : List.contains [[71, 69, 84], [80, 79, 83, 84], [79, 80, 84, 73, 79, 78, 83]] req.method = true := by
          rcases hm with h | h | h <;> rw [h] <;> decide
        simp only [hin, hm, if_true, src_substr_options _ hm]
        by_cases ho : req.method = sOPTIONS
        · have ho' : req.method = [79, 80, 84, 73, 79, 78, 83] := ho
          simp [ho', respOptions, sOPTIONS]
        · have ho' : ¬ req.method = [79, 80, 84, 73, 79, 78, 83] := ho
          simp [ho', sOPTIONS]
      · have hm' : ¬(req.method = [71, 69, 84] ∨ req.method = [80, 79, 83, 84] ∨ req.method = [79, 80, 84, 73, 79, 78, 83]) := hm
        have hin : List.contains [[71, 69, 84], [80, 79, 83, 84], [79, 80, 84, 73, 79, 78, 83]] req.method = false := by
          cases hc : List.contains [[71, 69, 84], [80, 79, 83, 84], [79, 80, 84, 73, 79, 78, 83]] req.method with
          | false => rfl
          | true =>
            exfalso; apply hm'
            have := List.mem_of_elem_eq_true hc
            simpa using this
        simp [hin, hm, hm', resp405]
    · have hpre' : List.isPrefixOf [112, 121, 114, 111, 47] (lstripSlash req.path) = false := eq_false_of_ne_true hpre
      simp [hpre, hpre', resp404]

/-! ### the property, restated about the transcription of the source -/

/-- **C20_source_no_traffic.**  `C20_no_traffic` about `pyro_app` as transcribed from the source: any
    Pyro traffic at all ⇒ index page, or a call request with the configured key and a matching name. -/
theorem C20_source_no_traffic (cfg : Cfg) (be : Backend) (req : Req) (h : (appSrc cfg be req).2 ≠ []) :
    IsHomepage req ∨ ∃ obj member, Authorised cfg be req obj member := by
  rw [C20_app_translated] at h; exact C20_no_traffic cfg be req h

/-- **C20_source_refused.**  `C20_refused` about the transcription: everything else gets the gateway's own
    403 / 404 / 405 (302 for the empty path, 200 for OPTIONS) and an empty action list. -/
theorem C20_source_refused (cfg : Cfg) (be : Backend) (req : Req)
    (hh : ¬ IsHomepage req) (ha : ¬ ∃ obj member, Authorised cfg be req obj member) :
    (appSrc cfg be req).2 = [] ∧
    ∃ r, (appSrc cfg be req).1 = .http r ∧
      (r.status = 403 ∨ r.status = 404 ∨ r.status = 405 ∨
       (r.status = 302 ∧ lstripSlash req.path = []) ∨
       (r = respOptions ∧ req.method = sOPTIONS)) := by
  rw [C20_app_translated]; exact C20_refused cfg be req hh ha

/-- **C20_source_forwarded.**  An authorised request is handed by the transcribed `pyro_app` to the
    forwarding block with exactly the object name and member name of the path split and exactly the
    flattened query parameters of the transcribed `singlyfy_parameters`, minus `$key` when a key is
    configured — nothing else of the request decides what is forwarded. -/
theorem C20_source_forwarded (cfg : Cfg) (be : Backend) (req : Req) (obj member : Str)
    (hA : Authorised cfg be req obj member) :
    appSrc cfg be req = Src.fwd be req obj member (forwardParams cfg (singlyfySrc req.query)) := by
  rw [C20_app_translated, C20_singlyfy_translated, app_authorised hA]; rfl

/-- **C20_source_faithful_call.**  `C20_faithful_call` about the transcription. -/
theorem C20_source_faithful_call (cfg : Cfg) (be : Backend) (req : Req) (obj member uri : Str) (m : Meta)
    (hA : Authorised cfg be req obj member) (hR : Reaches be req obj uri m)
    (hmeta : member ≠ sMeta) (hattr : m.attrs.contains member = false)
    (hmeth : m.methods.contains member = true) (hself : lookupP sSelf (fwdParams cfg req) = none) :
    appSrc cfg be req =
      (.http (replyOfResult (onewayOpt req)
          (be.call uri member (fwdParams cfg req) (onewayOpt req || m.oneway.contains member))),
       [.getNameServer, .lookup obj, .connect uri, .getMetadata uri,
        .call uri member (fwdParams cfg req) (onewayOpt req || m.oneway.contains member),
        .release uri]) := by
  rw [C20_app_translated]; exact C20_faithful_call cfg be req obj member uri m hA hR hmeta hattr hmeth hself

/-! ### exactly once, for every request of every history -/

/-- name-server lookups of single names (the index page's batch is `batchLookup`) -/
def isLookup : Action → Bool
  | .lookup _ => true
  | _ => false

theorem withProxy_no_lookup (be : Backend) (req : Req) (uri member : Str) (ps : Params) :
    (withProxy be req uri member ps).2.filter isLookup = [] := by
  unfold withProxy
  repeat' split
  all_goals simp [isLookup]

/-- what the property says about ONE request and its outcome `out` = (reply, action log) -/
structure PerRequest (cfg : Cfg) (be : Backend) (req : Req) (out : Reply × List Action) : Prop where
  /-- not authorised (and not the index page): no Pyro traffic whatsoever -/
  refused : ¬ IsHomepage req → (¬ ∃ obj member, Authorised cfg be req obj member) → out.2 = []
  /-- authorised: the name server is asked for exactly the named object, exactly once (not at all
      only if the name server itself cannot be reached) -/
  one_lookup : ∀ obj member, Authorised cfg be req obj member →
      out.2.filter isLookup = if be.nsGet = none then [.lookup obj] else []
  /-- never more than one invocation -/
  at_most_one : (out.2.filter isInvoke).length ≤ 1
  /-- authorised, object reached, member is a method: exactly one invocation, of exactly that method
      of exactly that object's uri with exactly the query parameters (minus `$key`) -/
  one_call : ∀ obj member uri m, Authorised cfg be req obj member → Reaches be req obj uri m →
      member ≠ sMeta → m.attrs.contains member = false → m.methods.contains member = true →
      lookupP sSelf (fwdParams cfg req) = none →
      out.2.filter isInvoke = [.call uri member (fwdParams cfg req) (onewayOpt req || m.oneway.contains member)]
  /-- authorised, object reached, member is an attribute, no parameters: exactly one read of it -/
  one_getattr : ∀ obj member uri m, Authorised cfg be req obj member → Reaches be req obj uri m →
      member ≠ sMeta → m.attrs.contains member = true → fwdParams cfg req = [] →
      out.2.filter isInvoke = [.getattr uri member]

/-- **C20_exactly_once.**  For every configuration, backend and request: no traffic for an
    unauthorised request; for an authorised one exactly one lookup, of exactly the named object, and —
    when the object is reached — exactly one invocation, of exactly the named method (attribute) with
    exactly the query parameters; never two invocations. -/
theorem C20_exactly_once (cfg : Cfg) (be : Backend) (req : Req) : PerRequest cfg be req (app cfg be req) where
  refused hh ha := (C20_refused cfg be req hh ha).1
  one_lookup obj member hA := by
    rw [app_authorised hA]
    show (forward be req obj member (fwdParams cfg req)).2.filter isLookup = _
    unfold forward
    cases hns : be.nsGet with
    | some c => simp [isLookup]
    | none =>
      cases hl : be.lookup obj with
      | error c => simp [isLookup]
      | ok uri =>
        cases hc : be.connect uri with
        | some c => simp [hc, isLookup, List.filter]
        | none => simp [hc, isLookup, List.filter, List.filter_append, withProxy_no_lookup]
  at_most_one := C20_at_most_one_invocation cfg be req
  one_call obj member uri m hA hR h1 h2 h3 h4 := by
    rw [C20_faithful_call cfg be req obj member uri m hA hR h1 h2 h3 h4]; simp [isInvoke, List.filter]
  one_getattr obj member uri m hA hR h1 h2 h3 := by
    rw [C20_faithful_attr cfg be req obj member uri m hA hR h1 h2 h3]; simp [isInvoke, List.filter]

/-- **C20_source_exactly_once.**  The same about `pyro_app` as transcribed from the source. -/
theorem C20_source_exactly_once (cfg : Cfg) (be : Backend) (req : Req) :
    PerRequest cfg be req (appSrc cfg be req) := by
  rw [C20_app_translated]; exact C20_exactly_once cfg be req

/-- **C20_history_exactly_once.**  Over whole histories: whatever was requested before, whatever other
    code wrote to the Pyro configuration in between and from whatever configuration the process started,
    EVERY request of the history satisfies `PerRequest` with the settings, backend and request of its own
    moment — one lookup and one invocation per authorised request with exactly the given name, member
    and parameters, none for an unauthorised one; nothing leaks from one request into a later one. -/
theorem C20_history_exactly_once (c0 : PyroConfig) (evs : List HEv) :
    (runHistory c0 evs).length = (requestsOf evs).length ∧
    ∀ p ∈ (runHistory c0 evs).zip (requestsOf evs),
      PerRequest p.2.1 p.2.2.2.1 p.2.2.2.2 (p.1.reply, p.1.actions) := by
  induction evs generalizing c0 with
  | nil => exact ⟨rfl, fun p hp => by simp [runHistory] at hp⟩
  | cons ev rest ih =>
    cases ev with
    | perturb c' => simpa [runHistory, requestsOf] using ih c'
    | request cfg tmo be req =>
      simp only [runHistory, requestsOf, List.zip_cons_cons, List.length_cons]
      refine ⟨by rw [(ih _).1], fun p hp => ?_⟩
      rcases List.mem_cons.1 hp with h | h
      · subst h; exact C20_exactly_once cfg be req
      · exact (ih _).2 p h

-- non-vacuity: the example request of PyroProps/C20.lean through the transcription (key in `$key`, name matching
-- `http\.`): one lookup of `http.a`, one invocation
example : ((appSrc exCfg exBe exReq).2.filter isLookup, ((appSrc exCfg exBe exReq).2.filter isInvoke).length) =
    ([.lookup exObj], 1) := by decide

end Pyro.C20
