/-
  C04 — the transcription of the source (PyroModel/Gen/C04Src.lean, regenerated from Pyro5/serializers.py on every run by
  harness/props/c04_tr.py) computes exactly what the hand-written model (PyroModel/Classes.lean) computes, for all inputs;
  the main C04 theorems restated about the transcription.
-/
import PyroProps.C04
import PyroModel.Gen.C04Src

namespace Pyro.C04

open Pyro.Classes Pyro.Classes.Src Pyro.Gen.C04 Pyro.Gen.C04Src

/-! ### the monad `M` is lawful -/

theorem M_pure_bind {α β : Type} (a : α) (f : α → M β) : (pure a >>= f) = f a := rfl

theorem M_bind_pure {α : Type} (x : M α) : (x >>= pure) = x := by
  rcases x with ⟨r, l⟩
  cases r with
  | error e => rfl
  | ok a =>
    show (Except.ok a, l ++ []) = (Except.ok a, l)
    rw [List.append_nil]

theorem M_bind_assoc {α β γ : Type} (x : M α) (f : α → M β) (g : β → M γ) :
    ((x >>= f) >>= g) = (x >>= fun a => f a >>= g) := by
  show M.bind (M.bind x f) g = M.bind x (fun a => M.bind (f a) g)
  rcases x with ⟨r, l⟩
  cases r with
  | error e => rfl
  | ok a =>
    rcases hfa : f a with ⟨r2, l2⟩
    cases r2 <;> simp only [M.bind, hfa, List.append_assoc] <;> rfl

theorem M_fail_bind {α β : Type} (e : Err) (f : α → M β) : ((M.fail e : M α) >>= f) = M.fail e := rfl

/-! ### make_exception -/

theorem mkexc_tail (E : Env) (c : Cls) (xs : List Val) (o : Option Val) :
    (if o.isSome = true then do
        let t0 ← (match o with
          | some v => pure v
          | none => M.fail Err.lookup : M Val)
        pySetattrItems E (Val.inst c [Val.tuple xs, Val.dict [] []]) t0
      else pure (Val.inst c [Val.tuple xs, Val.dict [] []])) =
    (match o with
    | none => pure (.inst c [.tuple xs, .dict [] []])
    | some (.dict aks avs) => do
      setattrs E c aks avs
      pure (.inst c [.tuple xs, .dict aks avs])
    | some (.inst _ _) => M.fail .unmodelled
    | some (.blob _ _) => M.fail .unmodelled
    | some (.ext _ _ _ _) => M.fail .unmodelled
    | some _ => M.fail .typeAttr : M Val) := by
  cases o with
  | none => rfl
  | some a => cases a <;> rfl

/-- **C04_makeException_translated.**  The transcription of `SerializerBase.make_exception` applied to an exception class
    computes what the model's `makeException` computes — result and effect log, for every class dict and every outcome of
    the external calls. -/
theorem C04_makeException_translated (E : Env) (q : Str) (ks : List Key) (vs : List Val) :
    makeExceptionSrc E (.exc q) ks vs = makeException E (.exc q) ks vs := by
  unfold makeExceptionSrc makeException
  simp only [kArgs, kAttributes, pyCallStar, hasKey, M_bind_assoc, M_pure_bind]
  congr 1; funext args
  congr 1; funext xs
  congr 1; funext _
  congr 1; funext _
  exact mkexc_tail E (.exc q) xs (lookup (cs "attributes") ks vs)

/-! ### recreate_classes -/

theorem mapMV_recreate (E : Env) (ser : Ser) (fuel : Nat) :
    ∀ xs, mapMV (recreate E ser fuel) xs = recreateList E ser fuel xs
  | [] => rfl
  | x :: xs => by
    simp only [mapMV, recreateList, mapMV_recreate E ser fuel xs]

/-- **C04_recreate_translated.**  The model's `recreate` satisfies the transcribed defining equation of
    `SerializerBase.recreate_classes` (recursive call = `recreate` itself, `self.dict_to_class` = `dictEntry`) on every
    value: result and effect log. -/
theorem C04_recreate_translated (E : Env) (ser : Ser) (fuel : Nat) (v : Val) :
    recreateSrc (recreate E ser fuel) (dictEntry E ser fuel) v = recreate E ser fuel v := by
  cases v with
  | dict ks vs =>
    have hk : hasKey (cs "__class__") ks vs = hasKey kClass ks vs := rfl
    by_cases h : hasKey kClass ks vs = true
    · simp [recreateSrc, recreate, pyTypeIs, pyHasKeyV, pyCallDict, hk, h]
    · simp [recreateSrc, recreate, pyTypeIs, pyHasKeyV, pyCallDict, pyEmptyDict, pyDictMapInto, mapMV_recreate, hk, h,
        M_bind_pure, M_pure_bind]
  | _ =>
    simp [recreateSrc, recreate, pyTypeIs, pyMapSet, pyMapList, pyMapTuple, mapMV_recreate, M_bind_pure, M_pure_bind]

mutual
/-- **C04_recreate_unique.**  Every function that satisfies the transcribed equation of `recreate_classes` IS the model's
    `recreate` (the equation has exactly one solution on finite trees): whatever the Python function computes when it
    terminates, the model computes. -/
theorem C04_recreate_unique (E : Env) (ser : Ser) (fuel : Nat) (f : Val → M Val)
    (hf : ∀ v, f v = recreateSrc f (dictEntry E ser fuel) v) : ∀ v, f v = recreate E ser fuel v
  | .set xs => by
    rw [hf]; simp [recreateSrc, recreate, pyTypeIs, pyMapSet, recreateList_unique E ser fuel f hf xs]
  | .list xs => by
    rw [hf]; simp [recreateSrc, recreate, pyTypeIs, pyMapList, recreateList_unique E ser fuel f hf xs]
  | .tuple xs => by
    rw [hf]; simp [recreateSrc, recreate, pyTypeIs, pyMapTuple, recreateList_unique E ser fuel f hf xs]
  | .dict ks vs => by
    rw [hf]
    have hk : hasKey (cs "__class__") ks vs = hasKey kClass ks vs := rfl
    by_cases h : hasKey kClass ks vs = true
    · simp [recreateSrc, recreate, pyTypeIs, pyHasKeyV, pyCallDict, hk, h]
    · simp [recreateSrc, recreate, pyTypeIs, pyHasKeyV, pyCallDict, pyEmptyDict, pyDictMapInto,
        recreateList_unique E ser fuel f hf vs, hk, h, M_bind_pure, M_pure_bind]
  | .atom _ _ => by rw [hf]; simp [recreateSrc, recreate, pyTypeIs]
  | .blob _ _ => by rw [hf]; simp [recreateSrc, recreate, pyTypeIs]
  | .str _ => by rw [hf]; simp [recreateSrc, recreate, pyTypeIs]
  | .bytes _ => by rw [hf]; simp [recreateSrc, recreate, pyTypeIs]
  | .ext _ _ _ _ => by rw [hf]; simp [recreateSrc, recreate, pyTypeIs]
  | .inst _ _ => by rw [hf]; simp [recreateSrc, recreate, pyTypeIs]
theorem recreateList_unique (E : Env) (ser : Ser) (fuel : Nat) (f : Val → M Val)
    (hf : ∀ v, f v = recreateSrc f (dictEntry E ser fuel) v) : ∀ xs, mapMV f xs = recreateList E ser fuel xs
  | [] => rfl
  | x :: xs => by
    simp only [mapMV, recreateList, C04_recreate_unique E ser fuel f hf x, recreateList_unique E ser fuel f hf xs]
end

/-! ### dict_to_class -/

theorem isInfixB_dunder : ∀ s : Str, isInfixB (cs "__") s = hasDunder s
  | [] => rfl
  | [c] => by
    by_cases h : c = '_'
    · subst h; rfl
    · have h' : ¬ '_' = c := fun e => h e.symm
      simp [isInfixB, hasDunder, cs, h, h', List.isPrefixOf]
  | c :: d :: rest => by
    have ih := isInfixB_dunder (d :: rest)
    by_cases h1 : c = '_'
    · subst h1
      by_cases h2 : d = '_'
      · subst h2; simp [isInfixB, hasDunder, cs, List.isPrefixOf]
      · have h' : ¬ '_' = d := fun e => h2 e.symm
        rw [isInfixB, ih]
        simp [hasDunder, cs, List.isPrefixOf, h2, h']
    · have h' : ¬ '_' = c := fun e => h1 e.symm
      rw [isInfixB, ih]
      simp [hasDunder, cs, List.isPrefixOf, h1, h']

theorem splitAt1_dot : ∀ s : Str, splitAt1 '.' s = splitDot s
  | [] => rfl
  | c :: rest => by
    unfold splitAt1 splitDot
    rw [splitAt1_dot rest]
    rfl

theorem ite_congr' {α : Type} {c : Prop} [Decidable c] {a a' b b' : α} (ha : c → a = a') (hb : ¬ c → b = b') :
    (if c then a else b) = (if c then a' else b') := by
  by_cases h : c
  · rw [if_pos h, if_pos h]; exact ha h
  · rw [if_neg h, if_neg h]; exact hb h

theorem resolve_eq (E : Env) (m : ModId) (name : Str) (ks : List Key) (vs : List Val) :
    (do let k ← pyGetattr m name
        let b ← pyIssubclass k
        if b = true then makeExceptionSrc E k ks vs
        else do
          pyLog
          M.fail Err.serialize) = resolveExc E (modName m) (modTable m) name ks vs := by
  unfold pyGetattr resolveExc
  simp only [M_bind_assoc]
  congr 1; funext _
  cases assoc name (modTable m) with
  | none => rfl
  | some k =>
    cases k with
    | exc q => exact C04_makeException_translated E q ks vs
    | cls => rfl
    | other => rfl

theorem flag_eq (ks : List Key) (vs : List Val) :
    truthy (dGet ks vs (cs "__exception__") (.atom false "False")) = excFlag ks vs := by
  unfold dGet excFlag
  show truthy (match lookup kExcFlag ks vs with | some v => v | none => _) = _
  cases lookup kExcFlag ks vs <;> rfl

theorem split_errors (cn : Str) (h : startsWith cn (cs "Pyro5.errors.") = true) :
    pySplitIdx (.str cn) '.' 2 2 = pure (cn.drop (cs "Pyro5.errors.").length) := by
  have he := startsWith_eq h
  generalize cn.drop (cs "Pyro5.errors.").length = rest at he ⊢
  subst he
  have hc : cs "Pyro5.errors." = ['P','y','r','o','5','.','e','r','r','o','r','s','.'] := by decide
  simp [pySplitIdx, hc, splitN, splitAt1]

/-- the transcription agrees with the model whenever the tag is (or decodes to) the text `cn` -/
theorem dtc_core (E : Env) (fuel : Nat) (ks : List Key) (vs : List Val) (cn : Str) (v : Val)
    (hd : dGet ks vs (cs "__class__") (.str (cs "<unknown>")) = v)
    (hdec : (if pyIsBytes v = true then pyDecodeUtf8 v else pure v) = (pure (.str cn) : M Val))
    (ht : tagOf ks vs = .ok cn) :
    dictToClassSrc E (dictToClass E fuel) ks vs = dictToClass E (fuel + 1) ks vs := by
  unfold dictToClassSrc
  rw [dictToClass]
  simp only [ht, hd, flag_eq]
  rw [hdec]
  simp [pyIsBytes, pyInRegistry, pyConvert, pyStrIn, pyAddStr, pyEqStr, strEqB, pyStartsWith, M_pure_bind, M_bind_assoc,
    M_fail_bind, isInfixB_dunder]
  dsimp only [tURI, tProxy, tDaemon, pUtil, tSerpent, tMarshal, tJson, tMsgpack, pErrors, tStructError, tWrapper,
    nsBuiltins, nsExceptions, nsSqlite3, sufError]
  repeat' (first
    | rfl
    | exact C04_makeException_translated E _ ks vs
    | exact resolve_eq E _ _ ks vs
    | refine ite_congr' (fun _ => ?_) (fun _ => ?_))
  · -- Pyro5.errors.<name>
    rename_i h
    rw [split_errors cn h, M_pure_bind]
    exact resolve_eq E .errors _ ks vs
  · -- Pyro5.core._ExceptionWrapper
    congr 1; funext ex
    cases ex with
    | dict ks' vs' =>
      by_cases h : hasKey kClass ks' vs' = true
      · have h' : hasKey (cs "__class__") ks' vs' = true := h
        simp [pyIsDict, pyHasKeyV, pyCallDict, h, h']; rfl
      · have h' : ¬ hasKey (cs "__class__") ks' vs' = true := h
        simp [pyIsDict, pyHasKeyV, pyCallDict, h, h', M_pure_bind]; rfl
    | _ => simp [pyIsDict, pyHasKeyV, M_pure_bind] <;> rfl
  · -- __exception__ flagged names
    simp only [pyInAllExc, pyAllExcGet]
    rcases Option.eq_none_or_eq_some (assoc cn allExceptions) with hall | ⟨q, hall⟩
    · simp only [hall, Option.isSome_none, Bool.false_eq_true, if_false, pySplit2, splitN, splitAt1_dot]
      rcases Option.eq_none_or_eq_some (splitDot cn) with hs | ⟨p, hs⟩
      · simp only [hs]; rfl
      · obtain ⟨ns, short⟩ := p
        simp only [hs, M_pure_bind]
        refine ite_congr' (fun _ => ?_) (fun _ => ?_)
        · exact resolve_eq E .builtins short ks vs
        · refine ite_congr' (fun _ => ?_) (fun _ => ?_)
          · show (pyImport (cs "sqlite3") >>= fun _ => _) = (emit (Effect.importMod (cs "sqlite3")) >>= fun _ => _)
            congr 1; funext _
            exact resolve_eq E .sqlite3 short ks vs
          · rfl
    · simp only [hall, Option.isSome_some, if_true, M_pure_bind]
      exact C04_makeException_translated E q ks vs


/-- **C04_dictToClass_translated.**  The transcription of `SerializerBase.dict_to_class` (recursive call = the model at the
    remaining budget) computes exactly what the model's `dictToClass` computes — result and effect log — for every class
    dict (any tag value: absent, text, bytes with valid or invalid UTF-8, numbers, containers, opaque leaves; any members),
    every registry and every outcome of the external calls. -/
theorem C04_dictToClass_translated (E : Env) (fuel : Nat) (ks : List Key) (vs : List Val) :
    dictToClassSrc E (dictToClass E fuel) ks vs = dictToClass E (fuel + 1) ks vs := by
  rcases Option.eq_none_or_eq_some (lookup (cs "__class__") ks vs) with hl | ⟨v, hl⟩
  · have hl2 : lookup kClass ks vs = none := hl
    exact dtc_core E fuel ks vs tUnknown (.str (cs "<unknown>")) (by simp [dGet, hl]) (by simp [pyIsBytes, tUnknown])
      (by simp [tagOf, hl2])
  · have hl2 : lookup kClass ks vs = some v := hl
    have hd : dGet ks vs (cs "__class__") (.str (cs "<unknown>")) = v := by simp [dGet, hl]
    cases v with
    | str cn => exact dtc_core E fuel ks vs cn (.str cn) hd (by simp [pyIsBytes]) (by simp [tagOf, hl2])
    | bytes b =>
      rcases Option.eq_none_or_eq_some (utf8Decode b) with hu | ⟨cn, hu⟩
      · unfold dictToClassSrc
        rw [dictToClass]
        simp [tagOf, hl2, hd, hu, pyIsBytes, pyDecodeUtf8, M_fail_bind]
      · exact dtc_core E fuel ks vs cn (.bytes b) hd (by simp [pyIsBytes, pyDecodeUtf8, hu, M_pure_bind])
          (by simp [tagOf, hl2, hu])
    | tuple xs =>
      unfold dictToClassSrc
      rw [dictToClass]
      simp only [tagOf, hl2, hd]
      by_cases hh : hashableListB xs = true <;> by_cases ha : xs.any (strEqB (cs "__")) = true <;>
        simp [pyIsBytes, pyInRegistry, pyStrIn, pyAddStr, pyEqStr, strEqB, pyStartsWith, M_pure_bind, M_fail_bind, hh, ha]
    | _ =>
      unfold dictToClassSrc
      rw [dictToClass]
      simp [tagOf, hl2, hd, pyIsBytes, pyInRegistry, pyStrIn, pyAddStr, pyEqStr, strEqB, pyStartsWith, M_pure_bind,
        M_fail_bind]


/-! ### the property theorems restated about the transcription of the source -/

/-- **C04_dictToClassFix_translated.**  The transcribed `dict_to_class`, with its recursive call unfolded any number of
    times, is the model's `dictToClass` at that budget. -/
theorem C04_dictToClassFix_translated (E : Env) : ∀ n, dictToClassFix E n = dictToClass E n
  | 0 => by
    funext ks vs
    simp [dictToClassFix, dictToClass]
  | n + 1 => by
    funext ks vs
    rw [dictToClassFix, C04_dictToClassFix_translated E n]
    exact C04_dictToClass_translated E n ks vs

/-- **C04_source_dunder.**  The transcribed `dict_to_class` refuses every class dict whose tag (text, or bytes decoding
    to text) contains a double underscore and has no registered converter with SecurityError, before any effect. -/
theorem C04_source_dunder (E : Env) (n : Nat) (ks : List Key) (vs : List Val) (tag : Str)
    (ht : tagOf ks vs = .ok tag) (hr : tag ∉ E.reg) (hd : ['_', '_'] <:+: tag) :
    dictToClassFix E (n + 1) ks vs = (.error .security, []) := by
  rw [C04_dictToClassFix_translated]
  exact C04_dunder E n ks vs tag ht hr hd

/-- **C04_source_unknown.**  The transcribed `dict_to_class` returns a value only for a tag with a registered converter or
    a dunder-free tag of the closed set; every other tag ends in an error. -/
theorem C04_source_unknown (E : Env) (n : Nat) (ks : List Key) (vs : List Val) (w : Val) (log : List Effect)
    (h : dictToClassFix E n ks vs = (.ok w, log)) :
    ∃ tag, tagOf ks vs = .ok tag ∧ (tag ∈ E.reg ∨ (hasDunder tag = false ∧ KnownTag (excFlag ks vs) tag)) := by
  rw [C04_dictToClassFix_translated] at h
  exact C04_unknown E n ks vs w log h

/-- **C04_source_closed.**  Closed world, stated about the source: ANY function satisfying the transcribed defining
    equation of `recreate_classes` (with `self.dict_to_class` = the serializer's entry over the transcribed
    `dict_to_class`) maps a value whose instances are of the closed set — in particular every literal tree, however
    nested — to a value all of whose instances are of the closed set, whenever it returns. -/
theorem C04_source_closed (E : Env) (ser : Ser) (n : Nat) (f : Val → M Val)
    (hf : ∀ v, f v = recreateSrc f (dictEntry E ser n) v) (v w : Val) (log : List Effect)
    (hv : Closed E.reg v) (h : f v = (.ok w, log)) : Closed E.reg w := by
  rw [C04_recreate_unique E ser n f hf v] at h
  exact C04_closed E ser n v w log hv h

/-- **C04_source_effects.**  … and everything it does besides building data is an allowed effect. -/
theorem C04_source_effects (E : Env) (ser : Ser) (n : Nat) (f : Val → M Val)
    (hf : ∀ v, f v = recreateSrc f (dictEntry E ser n) v) (v : Val) (hv : Closed E.reg v) :
    ∀ e ∈ (f v).2, Allowed E.reg e := by
  rw [C04_recreate_unique E ser n f hf v]
  exact C04_effects E ser n v hv

/-- **C04_recreateFix_translated.**  The transcribed `recreate_classes` unfolded `k` times agrees with the model on every
    value it finishes on without exhausting `k` — so the unfolding computes nothing the model does not. -/
theorem C04_source_closed_fix (E : Env) (ser : Ser) (n k : Nat) (v w : Val) (log : List Effect)
    (hv : Closed E.reg v) (hk : depth v < k)
    (h : recreateFix (dictEntry E ser n) k v = (.ok w, log)) : Closed E.reg w := by
  have key : ∀ k v, depth v < k → recreateFix (dictEntry E ser n) k v = recreate E ser n v := by
    intro k
    induction k with
    | zero => intro v hd; omega
    | succ k ih =>
      intro v hd
      have hlist : ∀ xs, depthList xs < k → mapMV (recreateFix (dictEntry E ser n) k) xs = recreateList E ser n xs := by
        intro xs
        induction xs with
        | nil => intro _; rfl
        | cons x xs ihx =>
          intro hdl
          simp only [depthList] at hdl
          simp only [mapMV, recreateList, ih x (by omega), ihx (by omega)]
      rw [recreateFix]
      cases v with
      | dict ks vs =>
        have hk' : hasKey (cs "__class__") ks vs = hasKey kClass ks vs := rfl
        simp only [depth] at hd
        by_cases h : hasKey kClass ks vs = true
        · simp [recreateSrc, recreate, pyTypeIs, pyHasKeyV, pyCallDict, hk', h]
        · simp [recreateSrc, recreate, pyTypeIs, pyHasKeyV, pyCallDict, pyEmptyDict, pyDictMapInto, hk', h,
            hlist vs (by omega), M_bind_pure, M_pure_bind]
      | set xs => simp only [depth] at hd; simp [recreateSrc, recreate, pyTypeIs, pyMapSet, hlist xs (by omega)]
      | list xs => simp only [depth] at hd; simp [recreateSrc, recreate, pyTypeIs, pyMapList, hlist xs (by omega)]
      | tuple xs => simp only [depth] at hd; simp [recreateSrc, recreate, pyTypeIs, pyMapTuple, hlist xs (by omega)]
      | _ => simp [recreateSrc, recreate, pyTypeIs]
  rw [key k v hk] at h
  exact C04_closed E ser n v w log hv h

/-! ### non-vacuity: the TRANSCRIPTION (not the model) decodes a plain payload into real instances of the closed set with a
    non-empty effect log, satisfies its own equation's hypothesis there, and refuses unknown / dunder tags -/

example : okClosedNotPlain [] (recreateFix (dictToClassFix E0 9) 9 vGood) = true
    ∧ (recreateFix (dictToClassFix E0 9) 9 vGood).2 ≠ []
    ∧ depth vGood < 9
    ∧ failsWith (dictToClassFix E0 3 [.str kClass] [.str (cs "os.system")]) .serialize = true
    ∧ failsWith (dictToClassFix E0 3 [.str kClass] [.bytes [0x61, 0x5f, 0x5f, 0x62]]) .security = true
    ∧ failsWith (dictToClassFix E0 3 [.str kClass] [.tuple [.str (cs "__")]]) .typeAttr = true := by
  decide +kernel

end Pyro.C04
