/-
  C09 — the property theorems restated about the transcription of the current source of `Daemon._getInstance`
  (corollaries of PyroProps/C09.lean through `C09_runHist_translated` / `C09_getInstance_translated`, PyroProps/C09Ast.lean).
-/
import PyroModel.Instances
import PyroModel.InstancesSrc
import PyroModel.Gen.C09Src
import PyroProofs.Instances
import PyroProps.C09
import PyroProps.C09Ast
import PyroProps.C09Surv

set_option linter.unusedSimpArgs false

namespace Pyro.C09

open Pyro Pyro.Inst Pyro.Inst.Src Pyro.Gen.C09Src

/-! ### the property, about the transcription of the current source -/

theorem src_trace {spec : Nat → ClassSpec} {ub : Bool} {h : List Event} {sf : State} {tr : List Res}
    (hrun : runHistSrc getInstanceSrc spec ub State.init h = some (sf, tr)) : tr = trace fixed spec State.init h := by
  rw [C09_runHist_translated] at hrun
  change some (runHist fixed spec State.init h) = some (sf, tr) at hrun
  simp only [Option.some.injEq] at hrun
  show tr = (runHist fixed spec State.init h).2
  rw [hrun]

/-- **C09_source_single.**  `C09_single` with every call made by the transcribed `_getInstance`: all served calls on a
    `single` class are served by the same instance and only the first creates. -/
theorem C09_source_single (spec : Nat → ClassSpec) (ub : Bool) (h : List Event) (sf : State) (tr : List Res)
    (hrun : runHistSrc getInstanceSrc spec ub State.init h = some (sf, tr))
    (i j c c' k : Nat) (o o' : Outcome) (a : Instance) (x y : Bool)
    (hm : (spec k).mode = .single) (hij : i < j) (hi : h[i]? = some (.call c k o)) (hj : h[j]? = some (.call c' k o'))
    (hti : tr[i]? = some (.served a x y)) : tr[j]? = some (.served a false false) := by
  have := src_trace hrun
  subst this
  exact C09_single spec h i j c c' k o o' a x y hm hij hi hj hti

/-- **C09_source_session.**  `C09_session` about the transcription. -/
theorem C09_source_session (spec : Nat → ClassSpec) (ub : Bool) (h : List Event) (sf : State) (tr : List Res)
    (hrun : runHistSrc getInstanceSrc spec ub State.init h = some (sf, tr))
    (i j c k : Nat) (o o' : Outcome) (a : Instance) (x y : Bool)
    (hm : (spec k).mode = .session) (hij : i < j) (hi : h[i]? = some (.call c k o)) (hj : h[j]? = some (.call c k o'))
    (hopen : ∀ m, i < m → m < j → h[m]? ≠ some (.close c) ∧ ∀ kp, h[m]? ≠ some (.openConn c kp))
    (hti : tr[i]? = some (.served a x y)) : tr[j]? = some (.served a false false) := by
  have := src_trace hrun
  subst this
  exact C09_session spec h i j c k o o' a x y hm hij hi hj hopen hti

/-- **C09_source_no_sharing.**  `C09_no_sharing` about the transcription: calls that do not address the same slot
    (different classes, `session` on different connections, anything vs `percall`) never share an instance. -/
theorem C09_source_no_sharing (spec : Nat → ClassSpec) (ub : Bool) (h : List Event) (sf : State) (tr : List Res)
    (hrun : runHistSrc getInstanceSrc spec ub State.init h = some (sf, tr))
    (i j c k c' k' : Nat) (o o' : Outcome) (a b : Instance) (x y x' y' : Bool) (hij : i ≠ j)
    (hi : h[i]? = some (.call c k o)) (hj : h[j]? = some (.call c' k' o'))
    (hslots : ∀ sl, slotOf (spec k).mode c k = some sl → slotOf (spec k').mode c' k' ≠ some sl)
    (hti : tr[i]? = some (.served a x y)) (htj : tr[j]? = some (.served b x' y')) : a.idx ≠ b.idx := by
  have := src_trace hrun
  subst this
  exact C09_no_sharing fixed spec h i j c k c' k' o o' a b x y x' y' hij hi hj hslots hti htj

/-- **C09_source_percall.**  `C09_percall` about the transcription. -/
theorem C09_source_percall (spec : Nat → ClassSpec) (ub : Bool) (h : List Event) (sf : State) (tr : List Res)
    (hrun : runHistSrc getInstanceSrc spec ub State.init h = some (sf, tr))
    (j c k : Nat) (o : Outcome) (a : Instance) (x y : Bool) (hm : (spec k).mode = .percall)
    (hj : h[j]? = some (.call c k o)) (htj : tr[j]? = some (.served a x y)) :
    x = true ∧
    ∀ (i c' k' : Nat) (o' : Outcome) (b : Instance) (x' y' : Bool), i ≠ j → h[i]? = some (.call c' k' o') →
      tr[i]? = some (.served b x' y') → b.idx ≠ a.idx := by
  have := src_trace hrun
  subst this
  exact C09_percall fixed spec h j c k o a x y hm hj htj

/-- **C09_source_creator_once.**  `C09_creator_once` about one call of the transcription, where "the creator was
    called" is the transcription's own count of `creator(clazz)` evaluations (> 0), not a flag of the model. -/
theorem C09_source_creator_once (spec : Nat → ClassSpec) (conn cls : Nat) (o : Outcome) (ub : Bool) (s s' : State) (r : Res)
    (hrun : runCall getInstanceSrc spec conn cls o ub s = some (s', r)) : creatorOk (spec cls).creator r := by
  rw [C09_getInstance_translated] at hrun
  change some (getInstance fixed (spec cls) conn cls o s) = some (s', r) at hrun
  simp only [Option.some.injEq] at hrun
  have : r = (getInstance fixed (spec cls) conn cls o s).2 := by rw [hrun]
  subst this
  exact getInstance_creator fixed (spec cls) conn cls o s

/-- **C09_source_session_never_survives.**  `C09_session_never_survives` about the transcription: with every call made by
    the transcribed `_getInstance`, a session instance serves no call at all once its connection has been closed. -/
theorem C09_source_session_never_survives (spec : Nat → ClassSpec) (ub : Bool) (h : List Event) (sf : State) (tr : List Res)
    (hrun : runHistSrc getInstanceSrc spec ub State.init h = some (sf, tr))
    (i m j c k c' k' : Nat) (o o' : Outcome) (a b : Instance) (x y cr cc : Bool)
    (hno : ∀ n, n < m → h[n]? ≠ some (.openConn c true))
    (hmode : (spec k).mode = .session) (hi : h[i]? = some (.call c k o)) (hti : tr[i]? = some (.served a x y))
    (him : i < m) (hm : h[m]? = some (.close c)) (hmj : m < j) (hj : h[j]? = some (.call c' k' o'))
    (htj : tr[j]? = some (.served b cr cc)) : b.idx ≠ a.idx := by
  have := src_trace hrun
  subst this
  exact C09_session_never_survives fixed spec h i m j c k c' k' o o' a b x y cr cc hno hmode hi hti him hm hmj hj htj

end Pyro.C09
