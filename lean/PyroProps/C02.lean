/-
  C02 — Only explicitly exposed, non-private members are remotely reachable.

  Property theorems about `PyroModel.Expose` (model of is_private_attribute, expose/oneway, _get_attribute,
  the two property gates, the dispatch branches of Daemon.handleRequest and _get_exposed_members).
  Quantifiers: every class shape (any MRO length, any members, any marks that the decorators can leave),
  every instance dict, every request (any name or non-string, all request kinds, batches of any length).

  The theorems are stated for a gate configuration `cfg` with the hypothesis `Fixed cfg`; the obligation
  `C02_gen_gates` shows that the configuration *extracted from the current source* is fixed.
  Finding F2b (a plain attribute holding an instance / the class of an `@expose`d helper class is invoked)
  stays open: the full statement `RefusedNoEffect` is kept as a definition, `C02_refused_no_effect_partial`
  proves it under the excluding hypothesis `NoExposedHelperAttr`, and `C02_refused_no_effect_not_full`
  refutes the full statement from the witness shape (replayed on the real code by the oracle).
-/
import PyroProofs.Expose

namespace Pyro.C02

open Pyro Pyro.Expose

/-- the gate configuration read off the current source by the extractor -/
def genCfg : Cfg :=
  { callTypeFirst := Pyro.Gen.C02.callGateTypeFirst
    getPriv := Pyro.Gen.C02.getGatePrivate
    setPriv := Pyro.Gen.C02.setGatePrivate
    nonStrType := Pyro.Gen.C02.privateGateNonStrTypeError }

/-- **C02_served_sound.**  Whatever a request names — normal call, oneway call, attribute read, attribute
    write or a batch of any length — every piece of target code that runs is code of a member that (i) one
    of the requested *string* names denotes on the type, (ii) carries an exposure mark and (iii) is requested
    under a non-private name.  (Shapes without exposed-helper attributes, see F2b.) -/
theorem C02_served_sound (cfg : Cfg) (sh : Shape) (r : Req) (hf : Fixed cfg) (hh : NoExposedHelperAttr sh) :
    ∀ e ∈ (dispatch cfg sh r).2, Justified sh (reqNames r) e := by
  intro e he
  rw [dispatch_snd] at he
  cases hb : r.batch with
  | true =>
    have : reqNames r = r.args := by simp [reqNames, hb]
    rw [this]
    have hd : dispatchBody cfg sh r = runBatch cfg sh r.args := by simp [dispatchBody, hb]
    rw [hd] at he
    exact runBatch_sound hf.1 hh r.args e he
  | false =>
    cases body_single r hf hh hb with
    | inl h => rw [h.1] at he; cases he
    | inr h =>
      obtain ⟨n, m, fid, h1, h2, h3, h4, h5, h6⟩ := h
      rw [h6] at he
      have : e = fid := by simpa using he
      subst this
      exact ⟨n, m, h1, h2, h3, h4, h5⟩

/-- The statement at full strength: a request that is not a batch and does not name an allowed member
    (an exposed, public method or property of the type) is refused — error reply, or no reply if oneway —
    and runs nothing. -/
def RefusedNoEffect (cfg : Cfg) : Prop :=
  ∀ (sh : Shape) (r : Req), r.batch = false → (∀ n, ReqName.str n ∈ reqNames r → ¬ Allowed sh n) →
    Refused r (dispatch cfg sh r).1 ∧ (dispatch cfg sh r).2 = []

/-- the same, for shapes in which no plain attribute holds an instance or the class of an exposed helper -/
def RefusedNoEffectPartial (cfg : Cfg) : Prop :=
  ∀ (sh : Shape) (r : Req), NoExposedHelperAttr sh → r.batch = false →
    (∀ n, ReqName.str n ∈ reqNames r → ¬ Allowed sh n) →
    Refused r (dispatch cfg sh r).1 ∧ (dispatch cfg sh r).2 = []

/-- **C02_refused_no_effect_partial.**  Under the repaired gate every non-batch request for anything but an
    exposed public member — inherited unexposed members, plain attributes, unknown and dotted names,
    private names, non-strings, too few arguments — is refused and has no effect. -/
theorem C02_refused_no_effect_partial (cfg : Cfg) (hf : Fixed cfg) : RefusedNoEffectPartial cfg := by
  intro sh r hh hb hn
  cases body_single r hf hh hb with
  | inl h =>
    obtain ⟨h1, e, h2⟩ := h
    exact ⟨dispatch_refused_of_error h2, by rw [dispatch_snd, h1]⟩
  | inr h =>
    obtain ⟨n, m, fid, h1, h2, h3, h4, _, _⟩ := h
    exact absurd ⟨h2, m, h3, h4⟩ (hn n h1)

/-- witness of F2b: class attribute `h` holding an instance of an exposed helper class with `__call__` -/
def f2bShape : Shape :=
  { mro := [{ members := [([104], .attr (.inst { exposed := true, hasCall := true, callId := 8, initId := 9 }))] }]
    inst := [] }
def f2bReq : Req := { batch := false, oneway := false, method := .str [104], args := [] }

/-- **C02_refused_no_effect_not_full** (finding F2b).  The full statement is false of the faithful model,
    whatever the gate configuration: the call `h` is answered with a result and the helper's `__call__`
    (effect 8) runs although `h` is a plain attribute. -/
theorem C02_refused_no_effect_not_full (cfg : Cfg) : ¬ RefusedNoEffect cfg := by
  intro h
  have hna : ∀ n, ReqName.str n ∈ reqNames f2bReq → ¬ Allowed f2bShape n := by
    intro n hn
    have : n = [104] := by simpa [reqNames, f2bReq, nmGetattr, nmSetattr] using hn
    subst this
    rintro ⟨_, m, hm, he⟩
    have : lookupType [104] f2bShape.mro = some (.attr (.inst ⟨true, true, 8, 9⟩)) := by decide
    rw [this] at hm
    cases hm
    simp [memberExposed] at he
  have h2 := (h f2bShape f2bReq rfl hna).2
  obtain ⟨a, b, c, d⟩ := cfg
  revert h2
  cases a <;> cases b <;> cases c <;> cases d <;> decide

/-- **C02_batch_refused.**  A batch that contains a single name which is not an allowed member is refused as
    a whole (its effects are covered by `C02_served_sound`: only allowed members named before it ran). -/
theorem C02_batch_refused (cfg : Cfg) (sh : Shape) (r : Req) (hf : Fixed cfg) (hh : NoExposedHelperAttr sh)
    (hb : r.batch = true) (hbad : ∃ rn ∈ r.args, ¬ ∃ n, rn = .str n ∧ Allowed sh n) :
    Refused r (dispatch cfg sh r).1 := by
  have hd : dispatchBody cfg sh r = runBatch cfg sh r.args := by simp [dispatchBody, hb]
  cases hres : (runBatch cfg sh r.args).1 with
  | error e => exact dispatch_refused_of_error (by rw [hd, hres])
  | ok u =>
    obtain ⟨rn, hrn, hno⟩ := hbad
    exact absurd (runBatch_ok hf.1 hh r.args hres rn hrn) hno

/-- **C02_history_no_memory.**  The object may change between requests (instance attributes set or deleted,
    class members replaced or deleted); the answer to a request is a function of the object's state *at that
    time* only — no gate remembers what a name denoted earlier (in particular not the cached metadata). -/
theorem C02_history_no_memory (cfg : Cfg) : ∀ (evs : List Event) (sh : Shape),
    runHistory cfg sh evs = (statesOf sh evs).map (fun p => dispatch cfg p.1 p.2) := by
  intro evs
  induction evs with
  | nil => intro sh; rfl
  | cons ev rest ih =>
    intro sh
    cases ev with
    | step s => simp only [runHistory, statesOf]; exact ih _
    | req r => simp only [runHistory, statesOf, List.map_cons]; rw [ih]
    | resetMeta => simp only [runHistory, statesOf]; exact ih _
    | getMeta => simp only [runHistory, statesOf]; exact ih _

/-- **C02_history_sound.**  In every history of run-time changes and requests, whatever target code a request
    runs is code of a member that a requested public name denotes, exposed, *in the state the object has at
    that moment* (states without marked plain attribute values, see F2b). -/
theorem C02_history_sound (cfg : Cfg) (hf : Fixed cfg) (sh : Shape) (evs : List Event)
    (hh : ∀ p ∈ statesOf sh evs, NoExposedHelperAttr p.1) :
    ∀ p ∈ statesOf sh evs, ∀ e ∈ (dispatch cfg p.1 p.2).2, Justified p.1 (reqNames p.2) e :=
  fun p hp => C02_served_sound cfg p.1 p.2 hf (hh p hp)

/-- **C02_metadata_cache.**  What is advertised along a history: a cached list is repeated unchanged whatever happened
    to the object since (documented: the cache is per class), but after `resetMetadataCache` the next advertisement is
    the member list *of the object's state at that moment* — for every kind of registered object — and hence, by
    `C02_metadata_exact`, again exactly the set of names served. -/
theorem C02_metadata_cache (sh : Shape) (rest : List Event) (m : Meta) (c : Option Meta) :
    advertised (some m) sh (.getMeta :: rest) = m :: advertised (some m) sh rest ∧
    advertised c sh (.resetMeta :: .getMeta :: rest) = metadata sh :: advertised (some (metadata sh)) sh rest ∧
    (∀ s, advertised c sh (.step s :: rest) = advertised c (applyStep sh s) rest) ∧
    (∀ r, advertised c sh (.req r :: rest) = advertised c sh rest) := by
  refine ⟨rfl, ?_, fun _ => rfl, fun _ => rfl⟩
  cases c <;> rfl

/-- **C02_served_complete.**  The gate serves what is exposed: a call of an exposed public method (not
    hidden by an instance attribute) runs exactly that method; reading an exposed public property runs
    exactly its getter; writing one that has a setter runs exactly its setter.  Reply = result, or nothing
    if oneway.  (Holds for every configuration.) -/
theorem C02_served_complete (cfg : Cfg) (sh : Shape) (n : Name) (hp : isPrivate n = false) (ow : Bool) :
    (∀ m f args, lookupType n sh.mro = some m → (m = .func f ∨ m = .static f ∨ m = .clsm f) →
      f.exposed = true → find? n sh.inst = none →
      dispatch cfg sh ⟨false, ow, .str n, args⟩ = (if ow then .none else .result, [f.fid])) ∧
    (∀ f s d rest, lookupType n sh.mro = some (.prop (some f) s d) → f.exposed = true →
      dispatch cfg sh ⟨false, ow, .str nmGetattr, .str n :: rest⟩ = (if ow then .none else .result, [f.fid])) ∧
    (∀ g f d v rest, lookupType n sh.mro = some (.prop g (some f) d) → exposedOpt (primary g (some f) d) = true →
      dispatch cfg sh ⟨false, ow, .str nmSetattr, .str n :: v :: rest⟩ = (if ow then .none else .result, [f.fid])) :=
  ⟨fun _ _ args hl hm he hi => dispatch_method hp hl hm he hi ow args,
   fun _ _ _ rest hl he => dispatch_getattr hp hl he ow rest,
   fun _ _ _ v rest hl he => dispatch_setattr hp hl he ow v rest⟩

/-- served as a method / readable / writable: the (non-oneway) request is answered with a result -/
def ServedCall (cfg : Cfg) (sh : Shape) (n : Name) : Prop :=
  (dispatch cfg sh ⟨false, false, .str n, []⟩).1 = .result
def ServedGet (cfg : Cfg) (sh : Shape) (n : Name) : Prop :=
  (dispatch cfg sh ⟨false, false, .str nmGetattr, [.str n]⟩).1 = .result
def ServedSet (cfg : Cfg) (sh : Shape) (n : Name) : Prop :=
  (dispatch cfg sh ⟨false, false, .str nmSetattr, [.str n, .hashable]⟩).1 = .result

/-- **C02_metadata_exact.**  The advertised member list is exactly what the daemon serves: `methods` are the
    names a call is served for, `attrs` the names an attribute read or write is served for, `oneway` is part
    of `methods`.  Hypotheses: the repaired gate; no exposed-helper attribute (F2b: served, never
    advertised); no instance attribute hiding a class member; every property has a getter or a setter. -/
theorem C02_metadata_exact (cfg : Cfg) (sh : Shape) (hf : Fixed cfg) (hh : NoExposedHelperAttr sh)
    (hs : NoShadow sh) (hu : PropsUsable sh) (n : Name) :
    (n ∈ (metadata sh).methods ↔ ServedCall cfg sh n) ∧
    (n ∈ (metadata sh).attrs ↔ ServedGet cfg sh n ∨ ServedSet cfg sh n) ∧
    (n ∈ (metadata sh).oneway → n ∈ (metadata sh).methods) := by
  have noinst : ∀ m, lookupType n sh.mro = some m → find? n sh.inst = none := by
    intro m hm
    cases hi : find? n sh.inst with
    | none => rfl
    | some v => rw [hs n v hi] at hm; cases hm
  refine ⟨?_, ?_, ?_⟩
  · rw [mem_methods]
    constructor
    · rintro ⟨hp, hm⟩
      cases hl : lookupType n sh.mro with
      | none => rw [hl] at hm; simp [isMethodMember] at hm
      | some m =>
        rw [hl] at hm
        unfold ServedCall
        cases m with
        | func f => rw [dispatch_method hp hl (.inl rfl) (by simpa [isMethodMember] using hm) (noinst _ hl)]; rfl
        | static f => rw [dispatch_method hp hl (.inr (.inl rfl)) (by simpa [isMethodMember] using hm) (noinst _ hl)]; rfl
        | clsm f => rw [dispatch_method hp hl (.inr (.inr rfl)) (by simpa [isMethodMember] using hm) (noinst _ hl)]; rfl
        | prop g s d => simp [isMethodMember] at hm
        | attr v => simp [isMethodMember] at hm
    · intro hsv
      unfold ServedCall at hsv
      by_cases hg : ReqName.str n = .str nmGetattr
      · have : dispatch cfg sh ⟨false, false, .str n, []⟩ = (.error .index, []) := by
          simp [dispatch, dispatchBody, hg]
        rw [this] at hsv; cases hsv
      · by_cases hst : ReqName.str n = .str nmSetattr
        · have : dispatch cfg sh ⟨false, false, .str n, []⟩ = (.error .index, []) := by
            simp [dispatch, dispatchBody, hst]
          rw [this] at hsv; cases hsv
        · have hd : dispatch cfg sh ⟨false, false, .str n, []⟩ =
              (match (runCall cfg sh (.str n)).1 with | .ok () => .result | .error e => .error e,
               (runCall cfg sh (.str n)).2) := by
            simp only [dispatch, dispatchBody, Bool.false_eq_true, if_false, hg, hst]
            generalize runCall cfg sh (.str n) = p
            obtain ⟨a, b⟩ := p
            rfl
          rw [hd] at hsv
          cases runCall_spec (cfg := cfg) (sh := sh) (.str n) hf.1 hh with
          | inl h =>
            obtain ⟨_, e, he⟩ := h
            rw [he] at hsv; cases hsv
          | inr h =>
            obtain ⟨n', f, m, e1, e2, e3, e4, _⟩ := h
            cases e1
            exact ⟨e2, by rw [e3]; exact e4⟩
  · rw [mem_attrs]
    constructor
    · rintro ⟨hp, hm⟩
      cases hl : lookupType n sh.mro with
      | none => rw [hl] at hm; simp [isAttrMember] at hm
      | some m =>
        rw [hl] at hm
        cases m with
        | func f => simp [isAttrMember] at hm
        | static f => simp [isAttrMember] at hm
        | clsm f => simp [isAttrMember] at hm
        | attr v => simp [isAttrMember] at hm
        | prop g s d =>
          simp only [isAttrMember] at hm
          cases g with
          | some f =>
            left
            unfold ServedGet
            rw [dispatch_getattr hp hl (by simpa [primary, exposedOpt] using hm)]; rfl
          | none =>
            cases s with
            | some f =>
              right
              unfold ServedSet
              rw [dispatch_setattr hp hl hm]; rfl
            | none =>
              have := hu n none none d hl
              simp at this
    · intro hsv
      cases hsv with
      | inl hg =>
        unfold ServedGet at hg
        have hd : dispatch cfg sh ⟨false, false, .str nmGetattr, [.str n]⟩ =
            (match (getProp cfg sh (.str n)).1 with | .ok () => .result | .error e => .error e,
             (getProp cfg sh (.str n)).2) := by
          simp only [dispatch, dispatchBody, Bool.false_eq_true, if_false, if_true]
          generalize getProp cfg sh (.str n) = p
          obtain ⟨a, b⟩ := p
          rfl
        rw [hd] at hg
        cases getProp_spec (cfg := cfg) (sh := sh) (.str n) hf.2.1 with
        | inl h => obtain ⟨_, e, he⟩ := h; rw [he] at hg; cases hg
        | inr h =>
          obtain ⟨n', f, s, d, e1, e2, e3, e4, _⟩ := h
          cases e1
          exact ⟨e2, by rw [e3]; simpa [isAttrMember, primary, exposedOpt] using e4⟩
      | inr hst =>
        unfold ServedSet at hst
        have hne : ReqName.str nmSetattr ≠ .str nmGetattr := by decide
        have hd : dispatch cfg sh ⟨false, false, .str nmSetattr, [.str n, .hashable]⟩ =
            (match (setProp cfg sh (.str n)).1 with | .ok () => .result | .error e => .error e,
             (setProp cfg sh (.str n)).2) := by
          simp only [dispatch, dispatchBody, Bool.false_eq_true, if_false, if_true, hne]
          generalize setProp cfg sh (.str n) = p
          obtain ⟨a, b⟩ := p
          rfl
        rw [hd] at hst
        cases setProp_spec (cfg := cfg) (sh := sh) (.str n) hf.2.2 with
        | inl h => obtain ⟨_, e, he⟩ := h; rw [he] at hst; cases hst
        | inr h =>
          obtain ⟨n', g, f, d, e1, e2, e3, e4, _⟩ := h
          cases e1
          exact ⟨e2, by rw [e3]; simpa [isAttrMember] using e4⟩
  · rw [mem_oneway, mem_methods]
    exact fun h => ⟨h.1, oneway_is_method _ h.2⟩

/-- **C02_expose_marks.**  Marks come from the decorators only, and `expose(cls)` marks only the class's own
    members: in a shape built by the (model) decorators a name is *allowed* iff it is not private and the
    class declaration that defines it (first in the MRO) exposes it — by a decorator on the member itself, or
    by `@expose` on that very class with the member stored under a public key. -/
theorem C02_expose_marks (ds : List ClassDecl) (inst : List (Name × Val)) (sh : Shape)
    (hb : buildShape ds inst = .ok sh) (n : Name) :
    Allowed sh n ↔ isPrivate n = false ∧ ∃ cd md, lookupDecl n ds = some (cd, md) ∧ declExposed cd n md = true := by
  unfold buildShape at hb
  split at hb
  · cases hb
  · next cs hcs =>
    cases hb
    obtain ⟨h1, h2⟩ := buildClasses_lookup (k := n) hcs
    unfold Allowed
    constructor
    · rintro ⟨hp, m, hm, he⟩
      refine ⟨hp, ?_⟩
      cases hl : lookupDecl n ds with
      | none => rw [h1 hl] at hm; cases hm
      | some p =>
        obtain ⟨cd, md⟩ := p
        obtain ⟨m', hm', he'⟩ := h2 cd md hl
        rw [hm] at hm'
        cases hm'
        exact ⟨cd, md, rfl, by rw [← he', he]⟩
    · rintro ⟨hp, cd, md, hl, he⟩
      obtain ⟨m, hm, he'⟩ := h2 cd md hl
      exact ⟨hp, m, hm, by rw [he', he]⟩

/-- **C02_inherited_unexposed_refused.**  A name whose *defining* class does not expose it is refused without
    effect, however the other classes of the MRO — in particular the registered subclass — are decorated. -/
theorem C02_inherited_unexposed_refused (cfg : Cfg) (hf : Fixed cfg) (ds : List ClassDecl)
    (inst : List (Name × Val)) (sh : Shape) (hb : buildShape ds inst = .ok sh) (hh : NoExposedHelperAttr sh)
    (n : Name) (hn : ∀ cd md, lookupDecl n ds = some (cd, md) → declExposed cd n md = false)
    (r : Req) (hr : r.batch = false) (hnames : ∀ rn ∈ reqNames r, rn = .str n) :
    Refused r (dispatch cfg sh r).1 ∧ (dispatch cfg sh r).2 = [] := by
  apply C02_refused_no_effect_partial cfg hf sh r hh hr
  intro n' hn' ha
  have := hnames _ hn'
  cases this
  obtain ⟨_, cd, md, hl, he⟩ := (C02_expose_marks ds inst sh hb n).mp ha
  rw [hn cd md hl] at he
  cases he

/-- **C02_private_refused.**  A private name (reserved dunder, or leading underscore and not of dunder form)
    is refused without effect in every non-batch request kind, on *every* shape (F2b shapes included). -/
theorem C02_private_refused (cfg : Cfg) (hf : Fixed cfg) (sh : Shape) (r : Req) (hb : r.batch = false)
    (hn : ∀ rn ∈ reqNames r, ∃ n, rn = .str n ∧ isPrivate n = true) :
    Refused r (dispatch cfg sh r).1 ∧ (dispatch cfg sh r).2 = [] :=
  single_refused (fun rn => ∃ n, rn = .str n ∧ isPrivate n = true)
    (fun _ ⟨_, e, hp⟩ => e ▸ gates_private hf hp) r hb hn

/-- **C02_nonstring_refused.**  A non-string name is refused without effect by every gate configuration. -/
theorem C02_nonstring_refused (cfg : Cfg) (sh : Shape) (r : Req) (hb : r.batch = false)
    (hn : ∀ rn ∈ reqNames r, rn = .hashable ∨ rn = .unhashable) :
    Refused r (dispatch cfg sh r).1 ∧ (dispatch cfg sh r).2 = [] :=
  single_refused (fun rn => rn = .hashable ∨ rn = .unhashable) (fun _ h => gates_nonstring cfg sh h) r hb hn

/-- **C02_dotted.**  A dotted path is one attribute name: if no key of the classes or of the instance dict
    contains a dot, every name containing one is refused without effect (no traversal into nested objects),
    by every gate configuration and on every shape. -/
theorem C02_dotted (cfg : Cfg) (sh : Shape)
    (hk : ∀ cl ∈ sh.mro, ∀ km ∈ cl.members, 46 ∉ km.1) (hi : ∀ kv ∈ sh.inst, 46 ∉ kv.1)
    (r : Req) (hb : r.batch = false) (hn : ∀ rn ∈ reqNames r, ∃ n, rn = .str n ∧ 46 ∈ n) :
    Refused r (dispatch cfg sh r).1 ∧ (dispatch cfg sh r).2 = [] :=
  single_refused (fun rn => ∃ n, rn = .str n ∧ 46 ∈ n)
    (fun _ ⟨_, e, hd⟩ =>
      let ⟨h1, h2⟩ := lookups_none_of_no_key 46 hd hk hi
      e ▸ gates_unknown cfg h1 h2) r hb hn

/-! ### why the repairs are needed (findings F2a, F2c): the unrepaired configurations are unsound -/

/-- witness of F2a: unexposed property `p` (getter = effect 3), normal call `p` -/
def f2aShape : Shape :=
  { mro := [{ members := [([112], .prop (some ⟨[112], 3, false, false⟩) none none)] }], inst := [] }
def f2aReq : Req := { batch := false, oneway := false, method := .str [112], args := [] }

theorem f2aShape_noHelper : NoExposedHelperAttr f2aShape := noExposedHelperAttr_of_check (by decide)

/-- **C02_unfixed_call_gate_unsound** (finding F2a).  If `_get_attribute` does not refuse data descriptors of
    the type first, even the partial statement fails: a call naming an unexposed property runs its getter. -/
theorem C02_unfixed_call_gate_unsound (cfg : Cfg) (h : cfg.callTypeFirst = false) : ¬ RefusedNoEffectPartial cfg := by
  intro hs
  have hna : ∀ n, ReqName.str n ∈ reqNames f2aReq → ¬ Allowed f2aShape n := by
    intro n hn
    have : n = [112] := by simpa [reqNames, f2aReq, nmGetattr, nmSetattr] using hn
    subst this
    rintro ⟨_, m, hm, he⟩
    have : lookupType [112] f2aShape.mro = some (.prop (some ⟨[112], 3, false, false⟩) none none) := by decide
    rw [this] at hm
    cases hm
    simp [memberExposed, primary, exposedOpt] at he
  have h2 := (hs f2aShape f2aReq f2aShape_noHelper rfl hna).2
  obtain ⟨a, b, c, d⟩ := cfg
  simp only at h
  subst h
  revert h2
  cases b <;> cases c <;> cases d <;> decide

/-- witness of F2c: `_h = property(expose(hidden), expose(hidden_setter))`, read and written by attribute requests -/
def f2cShape : Shape :=
  { mro := [{ members := [([95, 104], .prop (some ⟨[104], 7, true, false⟩) (some ⟨[104], 6, false, false⟩) none)] }],
    inst := [] }
def f2cGet : Req := { batch := false, oneway := false, method := .str nmGetattr, args := [.str [95, 104]] }
def f2cSet : Req := { batch := false, oneway := false, method := .str nmSetattr, args := [.str [95, 104], .hashable] }

theorem f2cShape_noHelper : NoExposedHelperAttr f2cShape := noExposedHelperAttr_of_check (by decide)

/-- **C02_unfixed_attr_gate_unsound** (finding F2c).  If a property gate does not test the name with
    `is_private_attribute`, the partial statement fails: an attribute request reaches a property stored under
    a private name whose function is marked. -/
theorem C02_unfixed_attr_gate_unsound (cfg : Cfg) (h : cfg.getPriv = false ∨ cfg.setPriv = false) :
    ¬ RefusedNoEffectPartial cfg := by
  intro hs
  have hpriv : isPrivate [95, 104] = true := by decide
  have hna : ∀ (r : Req), (∀ rn ∈ reqNames r, rn = .str [95, 104]) →
      ∀ n, ReqName.str n ∈ reqNames r → ¬ Allowed f2cShape n := by
    intro r hr n hn
    have := hr _ hn
    cases this
    rintro ⟨hp, _⟩
    rw [hpriv] at hp; cases hp
  obtain ⟨a, b, c, d⟩ := cfg
  simp only at h
  cases h with
  | inl hb =>
    subst hb
    have h2 := (hs f2cShape f2cGet f2cShape_noHelper rfl (hna f2cGet (by decide))).2
    revert h2
    cases a <;> cases c <;> cases d <;> decide
  | inr hc =>
    subst hc
    have h2 := (hs f2cShape f2cSet f2cShape_noHelper rfl (hna f2cSet (by decide))).2
    revert h2
    cases a <;> cases b <;> cases d <;> decide

/-! ### obligations about facts extracted from the current source (PyroModel/Gen/C02.lean) -/

def nm (s : String) : Name := s.toList.map Char.toNat

/-- the statement's reserved dunder names -/
def specReserved : List String :=
  ["__call__", "__class__", "__cmp__", "__coerce__", "__copy__", "__deepcopy__", "__del__", "__delattr__", "__dir__",
   "__enter__", "__eq__", "__exit__", "__format__", "__ge__", "__getattr__", "__getattribute__", "__getinitargs__",
   "__getnewargs__", "__getstate__", "__gt__", "__hasattr__", "__hash__", "__init__", "__init_subclass__",
   "__instancecheck__", "__le__", "__lt__", "__module__", "__ne__", "__new__", "__nonzero__", "__bool__",
   "__reduce__", "__reduce_ex__", "__repr__", "__setattr__", "__setstate__", "__sizeof__", "__str__",
   "__subclasscheck__", "__subclasshook__", "__weakref__"]

/-- **C02_gen_reserved.**  The reserved table of the source is exactly the statement's list (as a set), the
    code-point table the model computes with is that table, and every reserved name has dunder form — so the
    table only *adds* names to what the underscore rule already hides. -/
theorem C02_gen_reserved :
    (∀ s ∈ Pyro.Gen.C02.reservedDundersText, s ∈ specReserved) ∧
    (∀ s ∈ specReserved, s ∈ Pyro.Gen.C02.reservedDundersText) ∧
    Pyro.Gen.C02.reservedDunders = Pyro.Gen.C02.reservedDundersText.map nm ∧
    (∀ n ∈ Pyro.Gen.C02.reservedDunders, n.length > 4 ∧ n.take 2 = [95, 95] ∧ n.drop (n.length - 2) = [95, 95]) := by
  decide

/-- **C02_gen_gates.**  The current source has all three repairs (F2a: data descriptors of the type refused
    before the instance is touched; F2c: both property gates test the name for privacy), handleRequest calls
    the gates in the modelled order, passes them exactly `method` resp. `vargs[0]` (and `vargs[1]`) — never the peer's
    whole argument tuple — and special-cases exactly `__getattr__` / `__setattr__`. -/
theorem C02_gen_gates :
    Fixed genCfg ∧
    Pyro.Gen.C02.dispatchGateCalls =
      ["_get_attribute", "_get_exposed_property_value", "_set_exposed_property_value", "_get_attribute"] ∧
    Pyro.Gen.C02.dispatchGateArgs = ["obj, method", "obj, vargs[0]", "obj, vargs[0], vargs[1]", "obj, method"] ∧
    Pyro.Gen.C02.dispatchMethodConsts.map nm = [nmGetattr, nmSetattr] := by
  refine ⟨⟨?_, ?_, ?_⟩, ?_, ?_, ?_⟩ <;> decide

/-! #### the probed decision table: the real decorators and gate functions, called by the extractor, vs the model -/

namespace Probe

def keyOf : Nat → Name
  | 0 => [109]                                   -- "m"
  | 1 => [95, 109]                               -- "_m"
  | 2 => [95, 95, 109, 95, 95]                   -- "__m__"
  | _ => [95, 95, 99, 97, 108, 108, 95, 95]      -- "__call__"

def fnameOf (key : Name) : Nat → Name
  | 0 => key
  | 1 => [112, 117, 98]                          -- "pub"
  | _ => [95, 112]                               -- "_p"

def fnOpt (name : Name) (fid : Nat) : Nat → Option FnDecl
  | 0 => none
  | m => some ⟨name, fid, m == 2, false⟩

def valOf (vkind exposed call : Nat) (callId initId fid : Nat) : Val :=
  match vkind with
  | 0 => .data
  | 1 => .inst ⟨exposed != 0, call != 0, callId, initId⟩
  | 2 => .cls ⟨exposed != 0, call != 0, callId, initId⟩
  | _ => .fn ⟨[112, 108, 97, 105, 110], fid, exposed != 0, false⟩     -- "plain"

def memberOf (key : Name) (k a1 a2 a3 a4 a5 : Nat) : MemberDecl :=
  match k with
  | 0 => .func ⟨fnameOf key a3, 1, a1 != 0, a2 != 0⟩
  | 1 => .static ⟨fnameOf key a3, 1, a1 != 0, a2 != 0⟩
  | 2 => .clsm ⟨fnameOf key a3, 1, a1 != 0, a2 != 0⟩
  | 3 => .prop (a1 != 0) (fnOpt (fnameOf key a5) 1 a2) (fnOpt (fnameOf key a5) 2 a3) (fnOpt (fnameOf key a5) 3 a4)
  | _ => .attr (valOf a1 a2 a3 4 5 0)

/-- the row code of `Pyro.Gen.C02.probeTable` (same reading as `probe_shape` in harness/props/c02.py) -/
def decodeRow : List Nat → Option (List ClassDecl × List (Name × Val) × Name)
  | [ce, kk, bk, k, a1, a2, a3, a4, a5, _, _, ip, iv, ie, ic] =>
    let key := keyOf kk
    let member := memberOf key k a1 a2 a3 a4 a5
    let classes : List ClassDecl :=
      if bk == 0 then [⟨ce != 0, [(key, member)]⟩] else [⟨ce != 0, []⟩, ⟨false, [(key, member)]⟩]
    let inst : List (Name × Val) := if ip != 0 then [(key, valOf iv ie ic 6 7 8)] else []
    some (classes, inst, key)
  | _ => none

def errCode : Err → Nat
  | .priv => 1 | .unexposed => 2 | .unprop => 3 | .attr => 4 | .type => 5 | .index => 6

def gateOut (r : Except Err Unit × List Nat) : List Nat :=
  (match r.1 with
   | .ok _ => 0
   | .error e => errCode e) :: r.2

def b2n (b : Bool) : Nat := if b then 1 else 0

/-- what the model says the probes of one row yield -/
def model (cfg : Cfg) (code : List Nat) : List Nat :=
  match decodeRow code with
  | none => [99]
  | some (ds, inst, key) =>
    match buildShape ds inst with
    | .error e => [9, errCode e]
    | .ok sh =>
      let call : List Nat :=
        match getAttribute cfg sh (.str key) with
        | (.error e, eff) => errCode e :: eff
        | (.ok o, eff) =>
          match callObj o with
          | (.ok _, eff2) => 0 :: (eff ++ eff2)
          | (.error _, eff2) => 8 :: (eff ++ eff2)
      let md := metadata sh
      call ++ [100] ++ gateOut (getProp cfg sh (.str key)) ++ [100] ++ gateOut (setProp cfg sh (.str key)) ++ [100] ++
        [b2n (md.methods.contains key), b2n (md.oneway.contains key), b2n (md.attrs.contains key)]

end Probe

/-- **C02_gen_probes.**  On every row of the decision table that the extractor obtains by *calling* the real `expose`,
    `oneway`, `_get_attribute` (and what it returns), `_get_exposed_property_value`, `_set_exposed_property_value` and
    `_get_exposed_members` — every member kind and mark, under public / private / dunder / reserved keys, class exposed or
    not, inherited from an unexposed base, shadowed by instance attributes — the model computes the same outcome, effect
    log and advertised membership.  (Replaces a comparison of source digests: the tie is to what the functions do.) -/
theorem C02_gen_probes : ∀ row ∈ Pyro.Gen.C02.probeTable, Probe.model genCfg row.1 = row.2 := by
  have h : Pyro.Gen.C02.probeTable.all (fun row => Probe.model genCfg row.1 == row.2) = true := by decide +kernel
  intro row hr
  have := List.all_eq_true.mp h row hr
  simpa using this

/-! ### non-vacuity: concrete shapes built by the model decorators -/

-- class Base: def m(self) (unexposed), @expose def go(self);  @expose class Sub(Base): def n(self); _x; p = property(get, set)
def exBase : ClassDecl :=
  { exposeClass := false
    members := [([109], .func ⟨[109], 1, false, false⟩), ([103, 111], .func ⟨[103, 111], 2, true, true⟩)] }
def exSub : ClassDecl :=
  { exposeClass := true
    members := [([110], .func ⟨[110], 3, false, false⟩), ([95, 120], .func ⟨[95, 120], 4, false, false⟩),
                ([112], .prop false (some ⟨[112], 5, false, false⟩) (some ⟨[112], 6, false, false⟩) none),
                ([100], .attr .data)] }
def exShape : Shape :=
  { mro := [{ members := [([110], .func ⟨[110], 3, true, false⟩), ([95, 120], .func ⟨[95, 120], 4, false, false⟩),
                          ([112], .prop (some ⟨[112], 5, true, false⟩) (some ⟨[112], 6, true, false⟩) none),
                          ([100], .attr .data)] },
            { members := [([109], .func ⟨[109], 1, false, false⟩), ([103, 111], .func ⟨[103, 111], 2, true, true⟩)] }]
    inst := [([105, 118], .data)] }

example : buildShape [exSub, exBase] [([105, 118], .data)] = .ok exShape := by rfl
-- the inherited unexposed `m` is refused although Sub is exposed as a class; `n`, `go` are served
example : dispatch genCfg exShape ⟨false, false, .str [109], []⟩ = (.error .unexposed, []) := by decide
example : dispatch genCfg exShape ⟨false, false, .str [110], []⟩ = (.result, [3]) := by decide
example : dispatch genCfg exShape ⟨false, true, .str [103, 111], []⟩ = (.none, [2]) := by decide
-- the property: refused as a call without running the getter, served as attribute read / write
example : dispatch genCfg exShape ⟨false, false, .str [112], []⟩ = (.error .unexposed, []) := by decide
example : dispatch genCfg exShape ⟨false, false, .str nmGetattr, [.str [112]]⟩ = (.result, [5]) := by decide
example : dispatch genCfg exShape ⟨false, false, .str nmSetattr, [.str [112], .hashable]⟩ = (.result, [6]) := by decide
-- private name, plain attribute, dotted path, non-string
example : dispatch genCfg exShape ⟨false, false, .str [95, 120], []⟩ = (.error .priv, []) := by decide
example : dispatch genCfg exShape ⟨false, false, .str [100], []⟩ = (.error .unexposed, []) := by decide
example : dispatch genCfg exShape ⟨false, false, .str [110, 46, 109], []⟩ = (.error .attr, []) := by decide
example : dispatch genCfg exShape ⟨false, false, .unhashable, []⟩ = (.error .type, []) := by decide
-- a batch stops at the first refused name; what ran before stays
example : dispatch genCfg exShape ⟨true, false, .str [], [.str [110], .str [103, 111], .str [109], .str [110]]⟩
    = (.error .unexposed, [3, 2]) := by decide
example : (metadata exShape).methods = [[110], [103, 111]] ∧ (metadata exShape).attrs = [[112]] ∧
    (metadata exShape).oneway = [[103, 111]] := by decide
example : Fixed genCfg := C02_gen_gates.1
example : NoExposedHelperAttr exShape := noExposedHelperAttr_of_check (by decide)
example : NoShadow exShape ∧ PropsUsable exShape ∧ Allowed exShape [110] ∧ ¬ Allowed exShape [109] := by
  refine ⟨?_, ?_, ⟨by decide, _, (by decide : lookupType [110] exShape.mro = some (.func ⟨[110], 3, true, false⟩)), rfl⟩, ?_⟩
  · intro n v h
    have := find?_mem h
    simp only [exShape, List.mem_singleton, Prod.mk.injEq] at this
    obtain ⟨rfl, _⟩ := this
    decide
  · intro n g s d h
    obtain ⟨c, hc, hm⟩ := lookupType_mem h
    simp only [exShape, List.mem_cons, List.not_mem_nil, or_false] at hc
    rcases hc with rfl | rfl <;> simp at hm <;> simp [hm]
  · rintro ⟨_, m, hm, he⟩
    have : lookupType [109] exShape.mro = some (.func ⟨[109], 1, false, false⟩) := by decide
    rw [this] at hm; cases hm; simp [memberExposed] at he
-- a history: `n` is served, then an unexposed function is put in the instance dict under `n`, then the exposed
-- override is deleted from the subclass: the same request is answered by the state of the moment
example : runHistory genCfg exShape
    [.req ⟨false, false, .str [110], []⟩, .step (.setInst [110] (.fn ⟨[110], 77, false, false⟩)),
     .req ⟨false, false, .str [110], []⟩, .step (.delInst [110]), .step (.delMember 0 [110]),
     .req ⟨false, false, .str [110], []⟩, .step (.setMember 1 [110] (.func ⟨[110], 78, false, false⟩)),
     .req ⟨false, false, .str [110], []⟩, .step (.setMember 0 [109] (.func ⟨[109], 79, true, false⟩)),
     .req ⟨false, false, .str [109], []⟩]
    = [(.result, [3]), (.error .unexposed, []), (.error .attr, []), (.error .unexposed, []), (.result, [79])] := by decide
-- the F2b witness does what the negative theorem says
example : dispatch genCfg f2bShape f2bReq = (.result, [8]) := by decide

end Pyro.C02

/-! ### the translated predicate: `is_private_attribute` regenerated from the source on every run -/

namespace Pyro.C02

open Pyro.Expose

theorem startsWith_one (n : List Nat) (a : Nat) : Pyro.PyLib.startsWith n [a] = (n.head? == some a) := by
  cases n with
  | nil => simp [Pyro.PyLib.startsWith, List.isPrefixOf]
  | cons x t =>
    simp only [Pyro.PyLib.startsWith, List.isPrefixOf, List.head?_cons, Bool.and_true]
    by_cases h : a = x
    · subst h; simp
    · have : x ≠ a := fun e => h e.symm
      rw [beq_eq_false_iff_ne.mpr h]
      have : (some x == some a) = false := beq_eq_false_iff_ne.mpr (fun e => this (Option.some.inj e))
      rw [this]

theorem startsWith_take (n p : List Nat) : Pyro.PyLib.startsWith n p = (n.take p.length == p) := by
  unfold Pyro.PyLib.startsWith
  by_cases h : p <+: n
  · have h1 : p.isPrefixOf n = true := List.isPrefixOf_iff_prefix.mpr h
    have h2 : n.take p.length = p := (List.prefix_iff_eq_take.mp h).symm
    rw [h1, h2]; simp
  · have h1 : p.isPrefixOf n = false := by
      cases hb : p.isPrefixOf n with
      | false => rfl
      | true => exact absurd (List.isPrefixOf_iff_prefix.mp hb) h
    have h2 : ¬ n.take p.length = p := fun e => h (List.prefix_iff_eq_take.mpr e.symm)
    rw [h1]; simp [h2]

theorem endsWith_drop (n p : List Nat) : Pyro.PyLib.endsWith n p = (n.drop (n.length - p.length) == p) := by
  unfold Pyro.PyLib.endsWith
  by_cases h : p <:+ n
  · have h1 : p.isSuffixOf n = true := List.isSuffixOf_iff_suffix.mpr h
    have h2 : n.drop (n.length - p.length) = p := (List.suffix_iff_eq_drop.mp h).symm
    rw [h1, h2]; simp
  · have h1 : p.isSuffixOf n = false := by
      cases hb : p.isSuffixOf n with
      | false => rfl
      | true => exact absurd (List.isSuffixOf_iff_suffix.mp hb) h
    have h2 : ¬ n.drop (n.length - p.length) = p := fun e => h (List.suffix_iff_eq_drop.mpr e.symm)
    rw [h1]; simp [h2]

/-- **C02_translated_private.**  The Lean definition that `harness/py2lean.py` regenerates from the body of
    `server.is_private_attribute` on every run denotes, for every name, the same predicate as the
    hand-written model's `isPrivate` that all gate theorems are about. -/
theorem C02_translated_private (n : List Nat) :
    Pyro.Gen.C02.is_private_attribute n = isPrivate n := by
  have htbl : Pyro.Gen.C02.is_private_attribute_tbl_private_dunder_methods = Pyro.Gen.C02.reservedDunders := by decide
  have hlen : decide (Int.ofNat n.length > (4 : Int)) = decide (n.length > 4) := by
    apply decide_eq_decide.mpr
    simp only [Int.ofNat_eq_natCast, gt_iff_lt]
    constructor <;> intro h <;> omega
  have hne : (n.head? != some 95) = !(n.head? == some 95) := rfl
  unfold Pyro.Gen.C02.is_private_attribute isPrivate isPrivateWith
  -- bring both sides to Boolean combinations of the same five atoms, whatever statement structure the source has
  -- (if-chains, early returns, conditions bound to locals), then decide by cases
  simp only [htbl, startsWith_one, startsWith_take n [95, 95], endsWith_drop n [95, 95], hlen, hne,
    List.length_cons, List.length_nil]
  -- (for some statement structures `simp only` has already closed the goal)
  try (
    generalize Pyro.Gen.C02.reservedDunders.contains n = a
    generalize (n.head? == some 95) = b
    generalize decide (n.length > 4) = c
    generalize (List.take 2 n == [95, 95]) = d
    generalize (List.drop (n.length - 2) n == [95, 95]) = e
    cases a <;> cases b <;> cases c <;> cases d <;> cases e <;> rfl)

end Pyro.C02
