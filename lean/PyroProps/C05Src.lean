/-
  C05 (round 5): `Daemon._clientDisconnect` as TRANSCRIBED from the current source (`Pyro.Gen.C05.clientDisconnectSrc`,
  written by harness/props/c05_tr.py on every run) computes exactly what the hand-written model
  `Streams.clientDisconnect` computes — for every table, connection, time and linger setting — and therefore the END OF ONE
  CONNECTION leaves the item streams of all other connections alone (the part of "clients that were connected all along keep
  receiving the correct replies to their own calls" that concerns a client in the middle of an item stream).
-/
import PyroModel.ServerLoopStreams
import PyroModel.Gen.C05

namespace Pyro.C05
open Pyro.ServerLoop.Streams Pyro.Gen.C05

/-- `ks = list(self.streaming_responses)` lists every key that is present (what a dict's key snapshot does) -/
def Covers (ks : List Nat) (t : Table) : Prop := ∀ k, (t k).isSome → k ∈ ks

/-- a table given as an association list (first match wins) -/
def ofList (l : List (Nat × Entry)) : Table := fun k => (l.find? (fun p => p.1 == k)).map (·.2)

theorem ofList_covers (l : List (Nat × Entry)) : Covers (l.map (·.1)) (ofList l) := by
  intro k hk
  simp only [ofList, Option.isSome_map, List.find?_isSome] at hk
  obtain ⟨p, hp, hpk⟩ := hk
  simp only [List.mem_map]
  exact ⟨p, hp, by simpa using hpk⟩

/-- one transcribed iteration = a dict update at that key with `release` of what was there -/
theorem step_eq (linger now conn : Nat) (t : Table) (k : Nat) :
    disconnectStepSrc linger now conn t k = t.upd k (release linger now conn (t k)) := by
  funext j
  simp only [disconnectStepSrc, ownerIs, release, stampOf, itemsOf]
  cases h : t k with
  | none => by_cases hj : j = k <;> simp [hj, h, Table.upd]
  | some e =>
    by_cases ho : e.owner = some conn <;> by_cases hl : linger > 0 <;> by_cases hj : j = k <;>
      simp [ho, hl, hj, h, Table.upd, Table.set, Table.pop]

theorem release_idem (linger now conn : Nat) (o : Option Entry) :
    release linger now conn (release linger now conn o) = release linger now conn o := by
  cases o with
  | none => rfl
  | some e => by_cases ho : e.owner = some conn <;> by_cases hl : linger > 0 <;> simp [release, ho, hl]

theorem foldl_eq (linger now conn : Nat) (ks : List Nat) : ∀ (t : Table) (j : Nat),
    (ks.foldl (disconnectStepSrc linger now conn) t) j = if j ∈ ks then release linger now conn (t j) else t j := by
  induction ks with
  | nil => intro t j; simp
  | cons k ks ih =>
    intro t j
    rw [List.foldl_cons, ih, step_eq]
    by_cases hjk : j = k
    · subst hjk
      by_cases hm : j ∈ ks <;> simp [Table.upd, hm, release_idem]
    · by_cases hm : j ∈ ks <;> simp [Table.upd, hjk, hm]

/-- **the transcription of `Daemon._clientDisconnect` equals the hand-written model**, for every linger setting, time,
    connection, table and every key snapshot that lists the keys present -/
theorem C05_clientDisconnect_translated (linger now conn : Nat) (ks : List Nat) (t : Table) (h : Covers ks t) :
    clientDisconnectSrc linger now conn ks t = clientDisconnect linger now conn t := by
  have hfold : ks.foldl (disconnectStepSrc linger now conn) t = fun k => release linger now conn (t k) := by
    funext j
    rw [foldl_eq]
    by_cases hm : j ∈ ks
    · simp [hm]
    · have hn : t j = none := by
        cases hj : t j with
        | none => rfl
        | some e => exact absurd (h j (by simp [hj])) hm
      simp [hm, hn, release]
  simp only [clientDisconnectSrc, clientDisconnect, hfold]

/-- the end of connection `conn`, as the SOURCE computes it, leaves every stream of every OTHER connection (and every
    lingering stream) exactly as it was: same owner, same clocks, same remaining items -/
theorem C05_source_streams_of_others_kept (linger now conn : Nat) (ks : List Nat) (t : Table) (h : Covers ks t)
    (k : Nat) (e : Entry) (hk : t k = some e) (ho : e.owner ≠ some conn) :
    (clientDisconnectSrc linger now conn ks t).1 k = some e := by
  rw [C05_clientDisconnect_translated _ _ _ _ _ h]
  simp [clientDisconnect, release, hk, ho]

/-- ... and it does release the streams of the connection that ended: removed at once without linger, otherwise kept with
    the client slot cleared and the linger clock started now (so that housekeeping can expire them) -/
theorem C05_source_own_streams_released (linger now conn : Nat) (ks : List Nat) (t : Table) (h : Covers ks t)
    (k : Nat) (e : Entry) (hk : t k = some e) (ho : e.owner = some conn) :
    (clientDisconnectSrc linger now conn ks t).1 k =
      if linger > 0 then some { owner := none, stamp := e.stamp, lingerSince := now, items := e.items } else none := by
  rw [C05_clientDisconnect_translated _ _ _ _ _ h]
  simp [clientDisconnect, release, hk, ho]

/-- no stream appears out of nothing, and the user hook is called -/
theorem C05_source_disconnect_adds_nothing (linger now conn : Nat) (ks : List Nat) (t : Table) (h : Covers ks t) (k : Nat)
    (hk : t k = none) :
    (clientDisconnectSrc linger now conn ks t).1 k = none ∧ (clientDisconnectSrc linger now conn ks t).2 = true := by
  rw [C05_clientDisconnect_translated _ _ _ _ _ h]
  simp [clientDisconnect, release, hk]

/-- the transcription reproduces what the REAL function did on the probed tables at extraction time -/
def rowOk (r : Nat × List (Nat × Entry) × List (Nat × Option Entry)) : Bool :=
  let out := (clientDisconnectSrc r.1 77 1 (r.2.1.map (·.1)) (ofList r.2.1)).1
  r.2.2.all fun p => out p.1 == p.2

theorem C05_gen_disconnect_rows : disconnectRows.all rowOk = true := by decide

/-! ### histories: a witness in the middle of a stream -/

/-- the event is not the end of the witness's own connection `w` and is not a fetch from the witness's stream `k` -/
def Ev.leaves (w k : Nat) : Ev → Prop
  | .disconnect c _ => c ≠ w
  | .housekeep _ => True
  | .next _ id => id ≠ k
  | .opened _ _ _ _ => True

theorem step_keeps (linger w k : Nat) (e : Entry) (t : Table) (ev : Ev) (hk : t k = some e) (ho : e.owner = some w)
    (hl : e.lingerSince = 0) (h : Ev.leaves w k ev) : step linger t ev k = some e := by
  cases ev with
  | disconnect c now =>
    have hc : ¬ w = c := fun h' => h h'.symm
    simp [step, clientDisconnect, release, hk, ho, hc]
  | housekeep now => simp [step, housekeeping, hk, hl]
  | next c id =>
    have hid : ¬ k = id := fun h' => h h'.symm
    simp only [step, nextItem]
    cases hi : t id with
    | none => simp [hk]
    | some e' =>
      simp only []
      split <;> simp [Table.pop, Table.set, Table.upd, hid, hk]
  | opened c id now items =>
    simp only [step]
    by_cases hs : (t id).isSome
    · simp [hs, hk]
    · by_cases hid : k = id
      · subst hid; simp [hk] at hs
      · simp [hs, Table.set, Table.upd, hid, hk]

/-- **for every history** of connections ending (any but the witness's own), housekeeping passes at any times, other
    streams being opened and fetched from, in any order and for every linger setting: the witness's stream is still there
    afterwards, unchanged — same owner, not lingering, same remaining items -/
theorem C05_stream_survives (linger w k : Nat) (e : Entry) (evs : List Ev) : ∀ (t : Table), t k = some e → e.owner = some w →
    e.lingerSince = 0 → (∀ ev ∈ evs, Ev.leaves w k ev) → run linger t evs k = some e := by
  induction evs with
  | nil => intro t hk _ _ _; simpa [run] using hk
  | cons ev evs ih =>
    intro t hk ho hl hev
    have h1 := step_keeps linger w k e t ev hk ho hl (hev ev (by simp))
    have := ih (step linger t ev) h1 ho hl (fun ev' hm => hev ev' (by simp [hm]))
    simpa [run] using this

/-- ... and so the witness's next fetch hands out exactly the next item of ITS stream -/
theorem C05_witness_next_item (linger w k : Nat) (e : Entry) (x : Nat) (rest : List Nat) (evs : List Ev) (t : Table)
    (hk : t k = some e) (ho : e.owner = some w) (hl : e.lingerSince = 0) (hi : e.items = x :: rest)
    (hev : ∀ ev ∈ evs, Ev.leaves w k ev) : (nextItem w k (run linger t evs)).2 = some x := by
  have h := C05_stream_survives linger w k e evs t hk ho hl hev
  simp [nextItem, h, ho, hi]

/-- non-vacuity / boundary: conn 2 ends, a housekeeping pass far later, conn 3 opens and reads a stream of its own; the
    witness (conn 1) then gets item 8 of its stream 5 — with and without linger.  The same history in which the witness's OWN
    connection ends loses the stream (linger 0) / lets housekeeping expire it (linger > 0). -/
def demoTable : Table := ofList [(5, ⟨some 1, 10, 0, [8, 9]⟩), (6, ⟨some 2, 11, 0, [1]⟩)]
def demoEvs : List Ev := [.disconnect 2 20, .housekeep 1000, .opened 3 7 21 [4], .next 3 7, .disconnect 3 30, .housekeep 2000]
example : (nextItem 1 5 (run 0 demoTable demoEvs)).2 = some 8 ∧ (nextItem 1 5 (run 3 demoTable demoEvs)).2 = some 8 := by decide
example : (run 0 demoTable demoEvs) 6 = none ∧ (run 3 demoTable demoEvs) 6 = none ∧ (run 3 demoTable [.disconnect 2 20]) 6 ≠ none := by
  decide
example : (nextItem 1 5 (run 0 demoTable [.disconnect 1 20])).2 = none
    ∧ (nextItem 1 5 (run 3 demoTable [.disconnect 1 20, .housekeep 1000])).2 = none := by decide
example : ∀ ev ∈ demoEvs, Ev.leaves 1 5 ev := by
  intro ev h
  simp only [demoEvs, List.mem_cons, List.mem_nil_iff, or_false] at h
  rcases h with h | h | h | h | h | h <;> subst h <;> simp [Ev.leaves]

end Pyro.C05
