/-
  C08 — `Daemon._handshake` transcribed from the source on every run (`Pyro.Gen.C08Src.handshakeSrc`,
  harness/props/c08_tr.py) against the hand-written statement-level model `Pyro.Handshake.handshakeM`
  and the abstract `Pyro.Server.handshake` all other C08 theorems are about.
-/
import PyroModel.Handshake
import PyroModel.Gen.C08Src
import PyroProps.C08

namespace Pyro.C08

open Pyro.Server Pyro.Handshake

/-- **C08_handshake_translated.**  For every behaviour of every collaborator and every `denied_reason`, the
    transcription of `Daemon._handshake` computes exactly what the hand-written model does. -/
theorem C08_handshake_translated (w : World) (d : Option String) :
    Pyro.Gen.C08Src.handshakeSrc w d = handshakeM w d := by
  unfold Pyro.Gen.C08Src.handshakeSrc handshakeM
  simp only [failWith, finish, MSG_CONNECT, MSG_CONNECTOK, MSG_CONNECTFAIL, marshalId]
  cases hrecv : w.recv [1] with
  | error e => cases e <;> simp <;> rfl
  | ok m =>
    simp only
    by_cases hd : truthy d = true
    · simp [hd] <;> rfl
    · simp only [hd]
      cases hser : w.serializer m.serId with
      | error e => cases e <;> simp <;> rfl
      | ok ser =>
        simp only
        cases hl : w.loads ser m.data with
        | error e => cases e <;> simp <;> rfl
        | ok p =>
          cases p with
          | notDict => simp [PVal.isDict] <;> rfl
          | dict hs obj =>
            cases hs with
            | none => simp [PVal.isDict, PVal.item] <;> rfl
            | some h =>
              simp [PVal.isDict, PVal.item]
              cases hv : w.validate h with
              | error e => cases e <;> simp <;> rfl
              | ok r =>
                cases obj with
                | none => simp <;> rfl
                | some o =>
                  simp only
                  cases hm : w.metadata o with
                  | error e => cases e <;> simp <;> rfl
                  | ok md =>
                    simp only
                    cases hdu : w.dumps ser (DVal.response r md) with
                    | error e => cases e <;> simp <;> rfl
                    | ok data => simp <;> rfl

/-! ### what the statement-level model does, for every behaviour of the collaborators -/

theorem finish_ok {w : World} {cc : Ctx} {t sq i : Nat} {data : Blob} {res : Result}
    (h : finish w cc t sq i data = .ok res) :
    ∃ ann, w.annotations = .ok ann ∧ w.send ⟨t, 0, sq, i, data, ann⟩ = .ok () ∧
      res = ⟨cc, [⟨t, 0, sq, i, data, ann⟩], t == MSG_CONNECTOK⟩ := by
  unfold finish at h
  cases ha : w.annotations with
  | error e => simp [ha] at h
  | ok ann =>
    simp only [ha] at h
    cases hs : w.send ⟨t, 0, sq, i, data, ann⟩ with
    | error e => simp [hs] at h
    | ok u =>
      simp only [hs] at h
      exact ⟨ann, rfl, by cases u; exact hs, by injection h with h; exact h.symm⟩

/-- the except clauses never report success: nothing is sent for a ConnectionClosedError, one CONNECTFAIL otherwise -/
theorem failWith_ok {w : World} {cc : Ctx} {e : Err} {sq i : Nat} {res : Result}
    (h : failWith w cc e sq i = .ok res) :
    res.ret = false ∧ ((e = .connClosed ∧ res.sent = []) ∨
      ∃ m, res.sent = [m] ∧ m.type = MSG_CONNECTFAIL ∧ m.seq = sq) := by
  unfold failWith at h
  cases e with
  | connClosed => simp only at h; injection h with h; subst h; exact ⟨rfl, .inl ⟨rfl, rfl⟩⟩
  | other r =>
    simp only at h
    generalize (if (w.serializers i).isNone = true then marshalId else i) = i' at h
    cases hser : w.serializer i' with
    | error e => simp [hser] at h
    | ok ser =>
      simp only [hser] at h
      cases hd : w.dumps ser (.reason r) with
      | error e => simp [hd] at h
      | ok data =>
        simp only [hd] at h
        obtain ⟨ann, _, _, hres⟩ := finish_ok h
        subst hres
        exact ⟨rfl, .inr ⟨_, rfl, rfl, rfl⟩⟩

/-- what a completed `_handshake` did: either it failed (returned False; sent nothing or one CONNECTFAIL), or it
    returned True, and then every step succeeded in this order: a CONNECT arrived, no denial, known serializer, the
    payload is a dict with a "handshake" entry that the VALIDATOR accepted, it has an "object" entry whose metadata
    was found, the answer could be serialised and sent - as one CONNECTOK -/
theorem hs_cases {w : World} {d : Option String} {res : Result} (hres : handshakeM w d = .ok res) :
    (res.ret = false ∧ (res.sent = [] ∨ ∃ m, res.sent = [m] ∧ m.type = MSG_CONNECTFAIL)) ∨
    (res.ret = true ∧ ∃ m ser h o r md data ann,
      w.recv [MSG_CONNECT] = .ok m ∧ truthy d = false ∧ w.serializers m.serId = some ser ∧
      w.loads ser m.data = .ok (.dict (some h) (some o)) ∧ w.validate h = .ok r ∧ w.metadata o = .ok md ∧
      w.dumps ser (.response r md) = .ok data ∧ w.annotations = .ok ann ∧
      w.send ⟨MSG_CONNECTOK, 0, m.seq, m.serId, data, ann⟩ = .ok () ∧
      res.sent = [⟨MSG_CONNECTOK, 0, m.seq, m.serId, data, ann⟩]) := by
  have fail : ∀ {cc e sq i}, failWith w cc e sq i = .ok res →
      (res.ret = false ∧ (res.sent = [] ∨ ∃ m, res.sent = [m] ∧ m.type = MSG_CONNECTFAIL)) := by
    intro cc e sq i h
    obtain ⟨h1, h2⟩ := failWith_ok h
    refine ⟨h1, ?_⟩
    rcases h2 with ⟨_, h2⟩ | ⟨m, h2, h3, _⟩
    · exact .inl h2
    · exact .inr ⟨m, h2, h3⟩
  unfold handshakeM at hres
  simp only at hres
  cases hrecv : w.recv [MSG_CONNECT] with
  | error e => rw [hrecv] at hres; exact .inl (fail hres)
  | ok m =>
    rw [hrecv] at hres
    simp only at hres
    by_cases hd : truthy d = true
    · rw [if_pos hd] at hres; exact .inl (fail hres)
    · rw [if_neg hd] at hres
      cases hser : w.serializer m.serId with
      | error e => rw [hser] at hres; exact .inl (fail hres)
      | ok ser =>
        rw [hser] at hres
        simp only at hres
        have hser' : w.serializers m.serId = some ser := by
          unfold World.serializer at hser
          cases hx : w.serializers m.serId with
          | none => simp [hx] at hser
          | some s => simp [hx] at hser; rw [hser]
        cases hl : w.loads ser m.data with
        | error e => rw [hl] at hres; exact .inl (fail hres)
        | ok p =>
          rw [hl] at hres
          cases p with
          | notDict => exact .inl (fail hres)
          | dict hs obj =>
            cases hs with
            | none => exact .inl (fail hres)
            | some h =>
              simp only at hres
              cases hv : w.validate h with
              | error e => rw [hv] at hres; exact .inl (fail hres)
              | ok r =>
                rw [hv] at hres
                cases obj with
                | none => exact .inl (fail hres)
                | some o =>
                  simp only at hres
                  cases hm : w.metadata o with
                  | error e => rw [hm] at hres; exact .inl (fail hres)
                  | ok md =>
                    rw [hm] at hres
                    simp only at hres
                    cases hdu : w.dumps ser (.response r md) with
                    | error e => rw [hdu] at hres; exact .inl (fail hres)
                    | ok data =>
                      rw [hdu] at hres
                      simp only at hres
                      obtain ⟨ann, ha, hsend, hr⟩ := finish_ok hres
                      subst hr
                      exact .inr ⟨rfl, m, ser, h, o, r, md, data, ann, rfl, by simpa using hd, hser', hl, hv, hm, hdu, ha,
                        hsend, rfl⟩

/-- **C08_hs_accept_iff.**  For every behaviour of the collaborators: `_handshake` returns True exactly when a CONNECT
    arrived, no denial reason was given, the serializer is known, the payload is a dict WITH a "handshake" entry that
    the validator accepted (returned normally for), WITH an "object" entry whose metadata lookup succeeded, and the
    answer could be serialised, annotated and sent.  (Any payload shape without a "handshake" entry, any validator
    that raises - whatever exception - and any unknown object are on the other side.) -/
theorem C08_hs_accept_iff (w : World) (d : Option String) :
    (∃ res, handshakeM w d = .ok res ∧ res.ret = true) ↔
    ∃ m ser h o r md data ann,
      w.recv [MSG_CONNECT] = .ok m ∧ truthy d = false ∧ w.serializers m.serId = some ser ∧
      w.loads ser m.data = .ok (.dict (some h) (some o)) ∧ w.validate h = .ok r ∧ w.metadata o = .ok md ∧
      w.dumps ser (.response r md) = .ok data ∧ w.annotations = .ok ann ∧
      w.send ⟨MSG_CONNECTOK, 0, m.seq, m.serId, data, ann⟩ = .ok () := by
  constructor
  · rintro ⟨res, h, hret⟩
    rcases hs_cases h with ⟨hf, _⟩ | ⟨_, m, ser, hh, o, r, md, data, ann, h1, h2, h3, h4, h5, h6, h7, h8, h9, _⟩
    · rw [hf] at hret; cases hret
    · exact ⟨m, ser, hh, o, r, md, data, ann, h1, h2, h3, h4, h5, h6, h7, h8, h9⟩
  · rintro ⟨m, ser, h, o, r, md, data, ann, h1, h2, h3, h4, h5, h6, h7, h8, h9⟩
    refine ⟨⟨{ annCleared := true, corr := if m.hasCorr then .ofMsg m.corrId else .fresh },
      [⟨MSG_CONNECTOK, 0, m.seq, m.serId, data, ann⟩], true⟩, ?_, rfl⟩
    unfold handshakeM
    simp only [h1, h2, World.serializer, h3, h4, h5, h6, h7, finish, h8, h9]
    rfl

/-- **C08_hs_fail_reply.**  A handshake that returns False has sent nothing at all (a ConnectionClosedError was raised:
    the peer is gone, or a collaborator raised one) or exactly one message, a CONNECTFAIL; one that returns True has
    sent exactly one message, a CONNECTOK. -/
theorem C08_hs_fail_reply (w : World) (d : Option String) (res : Result) (h : handshakeM w d = .ok res) :
    (res.ret = false → res.sent = [] ∨ ∃ m, res.sent = [m] ∧ m.type = MSG_CONNECTFAIL) ∧
    (res.ret = true → ∃ m, res.sent = [m] ∧ m.type = MSG_CONNECTOK) := by
  rcases hs_cases h with ⟨hf, hs⟩ | ⟨ht, m, ser, hh, o, r, md, data, ann, _, _, _, _, _, _, _, _, _, hs⟩
  · exact ⟨fun _ => hs, fun ht => (by rw [hf] at ht; cases ht)⟩
  · exact ⟨fun hf => (by rw [ht] at hf; cases hf), fun _ => ⟨_, hs, rfl⟩⟩

/-- **C08_hs_refusing_validator.**  With a validator that never returns normally (raises whatever exception for
    whatever it is shown) no first message of any shape is accepted. -/
theorem C08_hs_refusing_validator (w : World) (d : Option String) (res : Result)
    (hv : ∀ h r, w.validate h ≠ .ok r) (h : handshakeM w d = .ok res) : res.ret = false := by
  rcases hs_cases h with ⟨hf, _⟩ | ⟨_, m, ser, hh, o, r, md, data, ann, _, _, _, _, h5, _⟩
  · exact hf
  · exact absurd h5 (hv hh r)

/-- **C08_hs_refines.**  On the world a history item of `Server.lean` stands for, the statement-level model reports
    exactly what the abstract `Server.handshake` (the subject of C08_accept_iff ... C08_daemon) reports: same reply
    (type, sequence number, serializer) or none, same flag. -/
theorem C08_hs_refines (it : Item) : abstract (handshakeM (worldOf it) none) = some (handshake it) := by
  cases it with
  | cut => rfl
  | garbage => rfl
  | timeout => rfl
  | msg m =>
    obtain ⟨ty, sid, sq, ow, body⟩ := m
    by_cases h1 : ty = 1
    · subst h1
      by_cases h2 : knownSerializer sid = true
      · cases body with
        | undecodable b =>
          simp [handshakeM, handshake, worldOf, recvOf, payloadOf, World.serializer, failWith, finish, abstract, truthy, h2,
            MSG_CONNECT, MSG_CONNECTFAIL, MSG_CONNECTOK]
        | call t =>
          simp [handshakeM, handshake, worldOf, recvOf, payloadOf, World.serializer, failWith, finish, abstract, truthy, h2,
            MSG_CONNECT, MSG_CONNECTFAIL, MSG_CONNECTOK]
        | handshake wf ok v =>
          cases wf <;> cases ok <;> cases v <;>
          simp [handshakeM, handshake, worldOf, recvOf, payloadOf, World.serializer, failWith, finish, abstract, truthy, h2,
            MSG_CONNECT, MSG_CONNECTFAIL, MSG_CONNECTOK]
      · have h2' : knownSerializer sid = false := by simpa using h2
        have hk : knownSerializer 2 = true := by decide
        simp [handshakeM, handshake, worldOf, recvOf, payloadOf, World.serializer, failWith, finish, abstract, truthy, h2', hk,
          MSG_CONNECT, MSG_CONNECTFAIL, MSG_CONNECTOK, marshalId]
    · have hk : knownSerializer 2 = true := by decide
      simp [handshakeM, handshake, worldOf, recvOf, World.serializer, failWith, finish, abstract, h1, hk,
        MSG_CONNECT, MSG_CONNECTFAIL, MSG_CONNECTOK, marshalId]

/-- **C08_hs_validator_before_lookup.**  With a validator that never returns normally, what `_handshake` does (reply,
    result, context) does not depend on the metadata lookup of the requested object at all: the object named in the
    payload is not looked at before the validator has accepted. -/
theorem C08_hs_validator_before_lookup (w : World) (d : Option String) (f : Nat → Except Err Nat)
    (hv : ∀ h r, w.validate h ≠ .ok r) :
    handshakeM { w with metadata := f } d = handshakeM w d := by
  have hf : ∀ cc e sq i, failWith { w with metadata := f } cc e sq i = failWith w cc e sq i := fun _ _ _ _ => rfl
  unfold handshakeM
  simp only [hf]
  cases hrecv : w.recv [MSG_CONNECT] with
  | error e => rfl
  | ok m =>
    simp only
    by_cases hd : truthy d = true
    · simp only [hd, if_true]
    · simp only [hd]
      have hs : World.serializer { w with metadata := f } m.serId = w.serializer m.serId := rfl
      rw [hs]
      cases hser : w.serializer m.serId with
      | error e => rfl
      | ok ser =>
        simp only
        cases hl : w.loads ser m.data with
        | error e => rfl
        | ok p =>
          cases p with
          | notDict => rfl
          | dict hs' obj =>
            cases hs' with
            | none => rfl
            | some h =>
              simp only
              cases hval : w.validate h with
              | error e => rfl
              | ok r => exact absurd hval (hv h r)

/-- **C08_hs_never_raises.**  "Every exception becomes CONNECTFAIL / False": if the marshal serializer exists, a reason
    text can always be serialised, and the daemon's `annotations()` hook and the send do not raise, then no exception
    leaves `_handshake`, whatever `recv_stub`, the deserialiser, the validator and the metadata lookup raise. -/
theorem C08_hs_never_raises (w : World) (d : Option String)
    (hm : (w.serializers marshalId).isSome = true) (hdump : ∀ ser s, ∃ b, w.dumps ser (.reason s) = .ok b)
    (ha : ∃ a, w.annotations = .ok a) (hsend : ∀ m, w.send m = .ok ()) :
    ∃ res, handshakeM w d = .ok res := by
  obtain ⟨a, ha⟩ := ha
  have fin : ∀ cc t sq i data, ∃ res, finish w cc t sq i data = .ok res := by
    intro cc t sq i data
    unfold finish
    simp only [ha, hsend]
    exact ⟨_, rfl⟩
  have fail : ∀ cc e sq i, ∃ res, failWith w cc e sq i = .ok res := by
    intro cc e sq i
    unfold failWith
    cases e with
    | connClosed => exact ⟨_, rfl⟩
    | other r =>
      simp only
      have hk : ∃ ser, w.serializer (if (w.serializers i).isNone = true then marshalId else i) = .ok ser := by
        unfold World.serializer
        by_cases hi : (w.serializers i).isNone = true
        · rw [if_pos hi]
          cases hx : w.serializers marshalId with
          | none => rw [hx] at hm; cases hm
          | some s => exact ⟨s, rfl⟩
        · rw [if_neg hi]
          cases hx : w.serializers i with
          | none => rw [hx] at hi; exact absurd rfl hi
          | some s => exact ⟨s, rfl⟩
      obtain ⟨ser, hk⟩ := hk
      rw [hk]
      obtain ⟨b, hb⟩ := hdump ser r
      simp only [hb]
      exact fin _ _ _ _ _
  unfold handshakeM
  simp only
  cases w.recv [MSG_CONNECT] with
  | error e => exact fail _ _ _ _
  | ok m =>
    simp only
    by_cases hd : truthy d = true
    · rw [if_pos hd]; exact fail _ _ _ _
    · rw [if_neg hd]
      cases w.serializer m.serId with
      | error e => exact fail _ _ _ _
      | ok ser =>
        simp only
        cases w.loads ser m.data with
        | error e => exact fail _ _ _ _
        | ok p =>
          cases p with
          | notDict => exact fail _ _ _ _
          | dict hs obj =>
            cases hs with
            | none => exact fail _ _ _ _
            | some h =>
              simp only
              cases w.validate h with
              | error e => exact fail _ _ _ _
              | ok r =>
                cases obj with
                | none => exact fail _ _ _ _
                | some o =>
                  simp only
                  cases w.metadata o with
                  | error e => exact fail _ _ _ _
                  | ok md =>
                    simp only
                    cases w.dumps ser (.response r md) with
                    | error e => exact fail _ _ _ _
                    | ok data => exact fin _ _ _ _ _

/-! ### the same, about the transcription of the source -/

/-- **C08_source_accept_iff.**  C08_hs_accept_iff about `handshakeSrc`, the function transcribed from server.py. -/
theorem C08_source_accept_iff (w : World) (d : Option String) :
    (∃ res, Pyro.Gen.C08Src.handshakeSrc w d = .ok res ∧ res.ret = true) ↔
    ∃ m ser h o r md data ann,
      w.recv [MSG_CONNECT] = .ok m ∧ truthy d = false ∧ w.serializers m.serId = some ser ∧
      w.loads ser m.data = .ok (.dict (some h) (some o)) ∧ w.validate h = .ok r ∧ w.metadata o = .ok md ∧
      w.dumps ser (.response r md) = .ok data ∧ w.annotations = .ok ann ∧
      w.send ⟨MSG_CONNECTOK, 0, m.seq, m.serId, data, ann⟩ = .ok () := by
  rw [C08_handshake_translated]; exact C08_hs_accept_iff w d

/-- **C08_source_fail_reply.**  C08_hs_fail_reply about the transcription. -/
theorem C08_source_fail_reply (w : World) (d : Option String) (res : Result)
    (h : Pyro.Gen.C08Src.handshakeSrc w d = .ok res) :
    (res.ret = false → res.sent = [] ∨ ∃ m, res.sent = [m] ∧ m.type = MSG_CONNECTFAIL) ∧
    (res.ret = true → ∃ m, res.sent = [m] ∧ m.type = MSG_CONNECTOK) := by
  rw [C08_handshake_translated] at h; exact C08_hs_fail_reply w d res h

/-- **C08_source_refusing_validator.**  C08_hs_refusing_validator about the transcription. -/
theorem C08_source_refusing_validator (w : World) (d : Option String) (res : Result)
    (hv : ∀ h r, w.validate h ≠ .ok r) (h : Pyro.Gen.C08Src.handshakeSrc w d = .ok res) : res.ret = false := by
  rw [C08_handshake_translated] at h; exact C08_hs_refusing_validator w d res hv h

/-- **C08_source_validator_before_lookup.**  C08_hs_validator_before_lookup about the transcription. -/
theorem C08_source_validator_before_lookup (w : World) (d : Option String) (f : Nat → Except Err Nat)
    (hv : ∀ h r, w.validate h ≠ .ok r) :
    Pyro.Gen.C08Src.handshakeSrc { w with metadata := f } d = Pyro.Gen.C08Src.handshakeSrc w d := by
  rw [C08_handshake_translated, C08_handshake_translated]; exact C08_hs_validator_before_lookup w d f hv

/-- **C08_source_never_raises.**  C08_hs_never_raises about the transcription. -/
theorem C08_source_never_raises (w : World) (d : Option String)
    (hm : (w.serializers marshalId).isSome = true) (hdump : ∀ ser s, ∃ b, w.dumps ser (.reason s) = .ok b)
    (ha : ∃ a, w.annotations = .ok a) (hsend : ∀ m, w.send m = .ok ()) :
    ∃ res, Pyro.Gen.C08Src.handshakeSrc w d = .ok res := by
  rw [C08_handshake_translated]; exact C08_hs_never_raises w d hm hdump ha hsend

/-- the handshake step of a connection as the transcription computes it on a history item -/
def handshakeOfSrc (it : Item) : Option Reply × Bool :=
  (abstract (Pyro.Gen.C08Src.handshakeSrc (worldOf it) none)).getD (none, false)

/-- **C08_source_refines.**  The transcription, run on the world a history item stands for, IS `Server.handshake`. -/
theorem C08_source_refines : handshakeOfSrc = handshake := by
  funext it
  unfold handshakeOfSrc
  rw [C08_handshake_translated, C08_hs_refines]
  rfl

/-- the per-connection life cycle of `Server.connEvent` with the handshake step as a parameter -/
def connEventWith (hs : Item → Option Reply × Bool) (c : Conn) (it : Item) : Conn :=
  match c.phase with
  | .fresh =>
    let (reply, ok) := hs it
    let c := { c with outbox := c.outbox ++ reply.toList }
    if ok then { c with phase := .active, slot := true }
    else { c.close with phase := .closed }
  | _ => connEvent c it

theorem connEventWith_handshake : connEventWith handshake = connEvent := by
  funext c it
  unfold connEventWith connEvent
  cases c.phase <;> rfl

/-- **C08_source_no_exec_before.**  The main theorem with the handshake step computed by the transcription of
    `Daemon._handshake`: for every sequence of items on a new connection, if anything was executed on its behalf the
    first message sent on it was a CONNECTOK. -/
theorem C08_source_no_exec_before (items : List Item) :
    let c := items.foldl (connEventWith handshakeOfSrc) {}
    c.execs ≠ [] → AcceptedFirst c := by
  rw [C08_source_refines, connEventWith_handshake]
  exact C08_no_exec_before items

/-- **C08_source_failed_then_anything.**  ... and whatever is pipelined behind a first item the transcription refuses is
    never executed. -/
theorem C08_source_failed_then_anything (it : Item) (items : List Item) (h : (handshakeOfSrc it).2 = false) :
    ((it :: items).foldl (connEventWith handshakeOfSrc) {}).execs = [] := by
  rw [C08_source_refines] at h ⊢
  rw [connEventWith_handshake]
  exact C08_failed_then_anything it items h

/-! ### non-vacuity -/
private def okItem : Item := .msg { type := 1, serId := 3, seq := 7, body := .handshake true true .accept }
example : abstract (Pyro.Gen.C08Src.handshakeSrc (worldOf okItem) none) = some (some ⟨2, 7, 3, false, []⟩, true) := by decide
example : abstract (Pyro.Gen.C08Src.handshakeSrc (worldOf okItem) (some "no free workers")) = some (some ⟨3, 7, 2, false, []⟩, false) := by
  decide
/-- a payload dict without a "handshake" entry in front of a validator that would accept: refused with KeyError's text -/
example : (match handshakeM { worldOf okItem with loads := fun _ _ => .ok (.dict none (some 0)) } none with
    | .ok r => r.sent.map (·.type) | .error _ => []) = [3] := by rfl

end Pyro.C08
