/-
  C06Ast.lean — `ReceivingMessage.add_payload`, transcribed from the source into PyIR on every run
  (PyroModel/Gen/C06.lean, `addPayloadSrc`), computes exactly what the hand-written `Wire.addPayload` computes:
  same annotation dict, same data, same flags, same error kind — for every header and every payload.
-/
import PyroModel.PyIR
import PyroModel.Wire
import PyroModel.Gen.C06
import PyroModel.C06AstRun
import PyroProofs.WireStages
import PyroProps.C06

set_option linter.unusedSimpArgs false

namespace Pyro.C06Ast

open Pyro Pyro.Wire Pyro.PyIR Pyro.C06AstRun

theorem land_two (x : Nat) : x &&& 2 = if x / 2 % 2 = 1 then 2 else 0 := by
  apply Nat.eq_of_testBit_eq
  intro i
  rw [Nat.testBit_and]
  have h2 : Nat.testBit 2 i = decide (i = 1) := by
    have := @Nat.testBit_two_pow 1 i
    simpa [eq_comm] using this
  rw [h2]
  by_cases hi : i = 1
  · subst hi
    simp only [decide_true, Bool.and_true]
    rw [Nat.testBit_eq_decide_div_mod_eq]
    split <;> simp_all [Nat.testBit_eq_decide_div_mod_eq]
  · simp only [hi, decide_false, Bool.and_false]
    split
    · have := @Nat.testBit_two_pow 1 i
      simp at this; simp [this]; omega
    · simp

theorem dictPut_eq (d : List Ann) (k : List Nat) (v : Bytes) : dictPut d k v = dictSet d k v := by
  induction d with
  | nil => rfl
  | cons a rest ih => obtain ⟨k', v'⟩ := a; simp only [dictPut, dictSet, ih]

/-- the annotation walk as the source writes it: an index `i` into the whole payload -/
def walkSpec (payload : Bytes) (A : Nat) : Nat → Nat → List Ann → Option (Nat × List Ann)
  | 0, i, acc => some (i, acc)
  | f + 1, i, acc =>
    if i < A then
      let idb := (payload.drop i).take 4
      if idb.any (· ≥ 128) then none
      else
        let len := fromBE ((payload.drop (i + 4)).take 4)
        walkSpec payload A f (i + 8 + len) (dictSet acc (idb.map UInt8.toNat) ((payload.drop (i + 8)).take len))
    else some (i, acc)

/-- the model's walk (suffix + remaining count) is the source's walk (index) -/
theorem walkAnns_spec (payload : Bytes) (A : Nat) : ∀ (f i : Nat) (acc : List Ann), i ≤ A → A - i ≤ f →
    walkAnns f (payload.drop i) (A - i) acc =
      match walkSpec payload A f i acc with
      | none => .error .nonAsciiId
      | some (i', acc') => if i' = A then .ok acc' else .error .assertion := by
  intro f
  induction f with
  | zero =>
    intro i acc hi hf
    have : A - i = 0 := by omega
    have hiA : i = A := by omega
    simp [walkAnns, walkSpec, this, hiA]
  | succ f ih =>
    intro i acc hi hf
    by_cases hlt : i < A
    · have hr : A - i ≠ 0 := by omega
      simp only [walkAnns, walkSpec, hr, if_false, hlt, if_true]
      split
      · rfl
      · rename_i hascii
        simp only [List.drop_drop]
        by_cases hstep : 8 + fromBE (List.take 4 (List.drop (i + 4) payload)) > A - i
        · simp only [hstep, if_true]
          -- the source goes on: i' > A, the loop stops, the assert fails
          cases f with
          | zero => simp [walkSpec]; omega
          | succ f' =>
            have : ¬ (i + 8 + fromBE (List.take 4 (List.drop (i + 4) payload)) < A) := by omega
            simp [walkSpec, this]; omega
        · simp only [hstep, if_false]
          have := ih (i + 8 + fromBE (List.take 4 (List.drop (i + 4) payload)))
            (dictSet acc (List.map UInt8.toNat (List.take 4 (List.drop i payload)))
              (List.take (fromBE (List.take 4 (List.drop (i + 4) payload))) (List.drop (i + 8) payload)))
            (by omega) (by omega)
          have e1 : A - (i + 8 + fromBE (List.take 4 (List.drop (i + 4) payload)))
              = A - i - (8 + fromBE (List.take 4 (List.drop (i + 4) payload))) := by omega
          have e2 : i + 8 + fromBE (List.take 4 (List.drop (i + 4) payload))
              = i + (8 + fromBE (List.take 4 (List.drop (i + 4) payload))) := by omega
          rw [e1] at this
          rw [← this]
          congr 1
          rw [e2]
    · have hiA : i = A := by omega
      subst hiA
      simp [walkAnns, walkSpec]

/-! ### the interpreter on the transcription -/

def loopStmt : Stmt :=
  match Gen.C06.addPayloadSrc with
  | .seq _ (.seq _ (.seq (.ite _ (.seq _ (.seq _ (.seq _ (.seq l _)))) _) _)) => l
  | _ => .skip

structure LoopEnv (env : Env) (payload : Bytes) (h : Header) (i : Nat) (acc : List Ann) : Prop where
  hi : env.lookup "v0" = some (.int i)
  hanns : env.lookup "self.annotations" = some (.dict acc)
  hp : env.lookup "p1" = some (.bytes payload)
  hA : env.lookup "self.annotations_size" = some (.int h.annSize)
  hD : env.lookup "self.data_size" = some (.int h.dataSize)
  hF : env.lookup "self.flags" = some (.int h.flags)
  hdata : env.lookup "self.data" = some (.bytes [])

theorem loop_ok (cfg : PyIR.Cfg) (payload : Bytes) (h : Header) :
    ∀ (f F : Nat) (cur : Option Val) (env : Env) (i : Nat) (acc : List Ann) (w : World),
      f + 1 ≤ F → h.annSize - i ≤ f → LoopEnv env payload h i acc →
      match walkSpec payload h.annSize f i acc with
      | none => ∃ env', exec cfg loopStmt F cur env w = .raise (.exc .unicodeDecodeError false none) env' w
      | some (i', acc') => ∃ env', exec cfg loopStmt F cur env w = .normal env' w ∧ LoopEnv env' payload h i' acc' := by
  intro f
  induction f with
  | zero =>
    intro F cur env i acc w hF hf ok
    obtain ⟨G, rfl⟩ : ∃ G, F = G + 1 := ⟨F - 1, by omega⟩
    have hge : ¬ ((i : Int) < (h.annSize : Int)) := by omega
    simp only [walkSpec]
    refine ⟨env, ?_, ok⟩
    simp [loopStmt, Gen.C06.addPayloadSrc, exec, truth, eval, truthy, ok.hi, ok.hA, hge]
  | succ f ih =>
    intro F cur env i acc w hF hf ok
    obtain ⟨G, rfl⟩ : ∃ G, F = G + 1 := ⟨F - 1, by omega⟩
    by_cases hlt : i < h.annSize
    · have hltI : ((i : Int) < (h.annSize : Int)) := by omega
      have h0 : (0 : Int) ≤ ↑i + 4 := by omega
      have h08 : (0 : Int) ≤ ↑i + 8 := by omega
      have h4 : ((i : Int) + 4).toNat = i + 4 := by omega
      have h8 : ((i : Int) + 8).toNat = i + 8 := by omega
      have e4 : i + 4 - i = 4 := by omega
      have e8 : i + 8 - (i + 4) = 4 := by omega
      simp only [walkSpec, hlt, if_true]
      by_cases hany : ((payload.drop i).take 4).any (· ≥ 128) = true
      · simp only [hany, if_true]
        refine ⟨env, ?_⟩
        simp at hany
        simp [loopStmt, Gen.C06.addPayloadSrc, exec, truth, eval, truthy, ok.hi, ok.hA, ok.hp, hltI, h0, h08, h4, h8, e4, e8, hany]
      · simp only [hany, if_false]
        simp at hany
        have hnot : ¬ ∃ x, x ∈ List.take 4 (List.drop i payload) ∧ 128 ≤ x := by
          rintro ⟨x, hx, hge⟩
          have := hany x hx
          exact absurd hge (by simpa using this)
        generalize hlen : fromBE (List.take 4 (List.drop (i + 4) payload)) = len
        have hl0 : (0 : Int) ≤ ↑i + 8 + ↑len := by omega
        have hl8 : ((i : Int) + 8 + (len : Int)).toNat = i + 8 + len := by omega
        have el : i + 8 + len - (i + 8) = len := by omega
        let env' : Env := ("v0", Val.int ((i : Int) + (8 + (len : Int)))) ::
          ("self.annotations", Val.dict (dictSet acc (List.map UInt8.toNat (List.take 4 (List.drop i payload)))
            (List.take len (List.drop (i + 8) payload)))) ::
          ("v2", Val.int (len : Int)) ::
          ("v1", Val.str (List.map UInt8.toNat (List.take 4 (List.drop i payload)))) :: env
        have ok' : LoopEnv env' payload h (i + 8 + len)
            (dictSet acc (List.map UInt8.toNat (List.take 4 (List.drop i payload))) (List.take len (List.drop (i + 8) payload))) :=
          ⟨by simp [env', List.lookup_cons]; omega, by simp [env', List.lookup_cons], by simp [env', List.lookup_cons, ok.hp],
           by simp [env', List.lookup_cons, ok.hA], by simp [env', List.lookup_cons, ok.hD], by simp [env', List.lookup_cons, ok.hF],
           by simp [env', List.lookup_cons, ok.hdata]⟩
        have step : exec cfg loopStmt (G + 1) cur env w = exec cfg loopStmt G cur env' w := by
          simp [loopStmt, Gen.C06.addPayloadSrc, exec, truth, eval, truthy, ok.hi, ok.hA, ok.hp, ok.hanns, hltI, h0, h08, h4, h8, e4, e8,
            hnot, hlen, hl0, hl8, el, List.lookup_cons, dictPut_eq, env']
        rw [step]
        exact ih G cur env' (i + 8 + len) _ w (by omega) (by omega) ok'
    · have hge : ¬ ((i : Int) < (h.annSize : Int)) := by omega
      simp only [walkSpec, hlt, if_false]
      refine ⟨env, ?_, ok⟩
      simp [loopStmt, Gen.C06.addPayloadSrc, exec, truth, eval, truthy, ok.hi, ok.hA, hge]

def tailStmt : Stmt :=
  match Gen.C06.addPayloadSrc with
  | .seq _ (.seq _ (.seq _ z)) => z
  | _ => .skip

def withParts (L Z : Stmt) : Stmt :=
  match Gen.C06.addPayloadSrc with
  | .seq a (.seq b (.seq (.ite c (.seq p1 (.seq p2 (.seq p3 (.seq _ rest)))) e) _)) =>
    .seq a (.seq b (.seq (.ite c (.seq p1 (.seq p2 (.seq p3 (.seq L rest)))) e) Z))
  | s => s

theorem src_shape : Gen.C06.addPayloadSrc = withParts loopStmt tailStmt := by rfl

/-- what the message is after the decompression step, given data / annotations / flags before it -/
def tailSpec (z : Zlib) (h : Header) (d : Bytes) (a : List Ann) (flags : Nat) : Except DecErr Decoded :=
  if hasBit flags FLAGS_COMPRESSED then
    match z.decompress d with
    | none => .error .zlib
    | some d' => .ok { type := h.type, serId := h.serId, flags := clearBit flags FLAGS_COMPRESSED, seq := h.seq, data := d',
                       anns := a, corr := h.corr }
  else .ok { type := h.type, serId := h.serId, flags := flags, seq := h.seq, data := d, anns := a, corr := h.corr }

def TailOK (z : Zlib) (cfg : PyIR.Cfg) (h : Header) (Z : Stmt) : Prop :=
  ∀ (F : Nat) (cur : Option Val) (env : Env) (w : World) (d : Bytes) (a : List Ann) (flags : Nat),
    env.lookup "self.data" = some (.bytes d) → env.lookup "self.annotations" = some (.dict a) →
    env.lookup "self.flags" = some (.int flags) →
    toDecoded h (exec cfg Z F cur env w) = some (tailSpec z h d a flags)

theorem tail_ok (z : Zlib) (cfg : PyIR.Cfg) (hz : cfg.unzip = z.decompress) (h : Header) : TailOK z cfg h tailStmt := by
  intro F cur env w d a flags hd ha hf
  have hl := land_two flags
  by_cases hb : flags / 2 % 2 = 1
  · have hc : (((flags &&& 2 : Nat) : Int) != 0) = true := by rw [hl]; simp [hb]
    cases hu : z.decompress d with
    | none =>
      simp [tailStmt, Gen.C06.addPayloadSrc, exec, truth, eval, truthy, hd, ha, hf, hc, hz, hu, toDecoded, tailSpec, hasBit,
        FLAGS_COMPRESSED, hb, List.lookup_cons]
    | some d' =>
      simp [tailStmt, Gen.C06.addPayloadSrc, exec, truth, eval, truthy, hd, ha, hf, hc, hz, hu, toDecoded, tailSpec, hasBit,
        FLAGS_COMPRESSED, hb, List.lookup_cons, clearBit, hl]
  · have hc : (((flags &&& 2 : Nat) : Int) != 0) = false := by rw [hl]; simp [hb]
    simp [tailStmt, Gen.C06.addPayloadSrc, exec, truth, eval, truthy, hd, ha, hf, hc, toDecoded, tailSpec, hasBit,
      FLAGS_COMPRESSED, hb, List.lookup_cons]

def LoopOK (cfg : PyIR.Cfg) (payload : Bytes) (h : Header) (L : Stmt) : Prop :=
  ∀ (f F : Nat) (cur : Option Val) (env : Env) (i : Nat) (acc : List Ann) (w : World),
    f + 1 ≤ F → h.annSize - i ≤ f → LoopEnv env payload h i acc →
    match walkSpec payload h.annSize f i acc with
    | none => ∃ env', exec cfg L F cur env w = .raise (.exc .unicodeDecodeError false none) env' w
    | some (i', acc') => ∃ env', exec cfg L F cur env w = .normal env' w ∧ LoopEnv env' payload h i' acc'

theorem addPayload_gen (z : Zlib) (cfg : PyIR.Cfg) (h : Header) (payload : Bytes)
    (L Z : Stmt) (hL : LoopOK cfg payload h L) (hZ : TailOK z cfg h Z) :
    toDecoded h (runAddPayload cfg (withParts L Z) h payload) = some (Wire.addPayload z h payload) := by
  unfold runAddPayload
  generalize hF : h.annSize + 2 = F
  by_cases hlen : payload.length = h.dataSize + h.annSize
  · have hI : (((payload.length : Int) != (h.dataSize : Int) + (h.annSize : Int))) = false := by
      simp only [bne_eq_false_iff_eq]; omega
    by_cases hA : h.annSize = 0
    · have hA0 : ((h.annSize : Int) != 0) = false := by simp [hA]
      have hI' : (((payload.length : Int) != (h.dataSize : Int))) = false := by
        simp only [bne_eq_false_iff_eq]; omega
      have := hZ F none (("self.data", .bytes payload) :: initEnv h payload) ⟨[], [], [], []⟩ payload [] h.flags
        (by simp [List.lookup_cons]) (by simp [initEnv, List.lookup_cons]) (by simp [initEnv, List.lookup_cons])
      simp [withParts, Gen.C06.addPayloadSrc, exec, truth, eval, truthy, initEnv, List.lookup_cons, hI, hI', hA0, hA] at this ⊢
      rw [this]
      simp [Wire.addPayload, hlen, hA, walkAnns, tailSpec]
      first | rfl | (split <;> rfl)
    · have hA0 : ((h.annSize : Int) != 0) = true := by simp; omega
      have ok0 : LoopEnv (("v0", Val.int 0) :: ("self.annotations", Val.dict []) :: ("p1", Val.bytes payload) :: initEnv h payload)
          payload h 0 [] :=
        ⟨by simp [List.lookup_cons], by simp [List.lookup_cons], by simp [List.lookup_cons], by simp [initEnv, List.lookup_cons],
         by simp [initEnv, List.lookup_cons], by simp [initEnv, List.lookup_cons], by simp [initEnv, List.lookup_cons]⟩
      have hloop := hL h.annSize F none _ 0 [] ⟨[], [], [], []⟩ (by omega) (by omega) ok0
      have hspec := walkAnns_spec payload h.annSize h.annSize 0 [] (by omega) (by omega)
      simp only [List.drop_zero, Nat.sub_zero] at hspec
      rcases hw : walkSpec payload h.annSize h.annSize 0 [] with _ | ⟨i', acc'⟩
      · rw [hw] at hloop hspec
        obtain ⟨env', he⟩ := hloop
        simp [initEnv] at he
        simp [withParts, Gen.C06.addPayloadSrc, exec, truth, eval, truthy, initEnv, List.lookup_cons, hI, hA0, he, toDecoded,
          Wire.addPayload, hlen, hspec]
      · rw [hw] at hloop hspec
        obtain ⟨env', he, ok'⟩ := hloop
        simp [initEnv] at he
        by_cases hi' : i' = h.annSize
        · subst hi'
          have heq : (((h.annSize : Int) == (h.annSize : Int))) = true := by simp
          have h0A : (0 : Int) ≤ (h.annSize : Int) := by omega
          have := hZ F none (("self.data", .bytes (payload.drop h.annSize)) :: env') ⟨[], [], [], []⟩ (payload.drop h.annSize) acc' h.flags
            (by simp [List.lookup_cons]) (by simp [List.lookup_cons, ok'.hanns]) (by simp [List.lookup_cons, ok'.hF])
          simp at hspec
          simp [withParts, Gen.C06.addPayloadSrc, exec, truth, eval, truthy, initEnv, List.lookup_cons, hI, hA0, he,
            ok'.hi, ok'.hA, ok'.hp, heq, h0A] at this ⊢
          rw [this]
          simp [Wire.addPayload, hlen, hspec, tailSpec]
          first | rfl | (split <;> rfl)
        · have hne : (((i' : Int) == (h.annSize : Int))) = false := by simp; omega
          simp [hi'] at hspec
          simp [withParts, Gen.C06.addPayloadSrc, exec, truth, eval, truthy, initEnv, List.lookup_cons, hI, hA0, he, toDecoded,
            Wire.addPayload, hlen, hspec, ok'.hi, ok'.hA, hne]
  · have hI : (((payload.length : Int) != (h.dataSize : Int) + (h.annSize : Int))) = true := by
      simp only [bne_iff_ne, ne_eq]; omega
    simp [withParts, Gen.C06.addPayloadSrc, exec, truth, eval, truthy, initEnv, List.lookup_cons, hI, toDecoded, Wire.addPayload, hlen]

/-- **`ReceivingMessage.add_payload`, as written now, is the model's `addPayload`** — for every header, payload and zlib -/
theorem addPayload_translated (z : Zlib) (cfg : PyIR.Cfg) (hz : cfg.unzip = z.decompress) (h : Header) (payload : Bytes) :
    toDecoded h (runAddPayload cfg Gen.C06.addPayloadSrc h payload) = some (Wire.addPayload z h payload) := by
  rw [src_shape]
  exact addPayload_gen z cfg h payload loopStmt tailStmt (loop_ok cfg payload h) (tail_ok z cfg hz h)

/-- C06's "accepts only what tiles exactly", stated about the source as it is written now: if the transcribed
    `add_payload` returns normally, the annotation area of the payload is tiled exactly by (id, length, value) chunks,
    the message's annotations are those chunks (later duplicate wins) and its data is the rest (decompressed if flagged) -/
theorem C06_source_accepts_tiled (z : Zlib) (cfg : PyIR.Cfg) (hz : cfg.unzip = z.decompress) (h : Header) (payload : Bytes)
    (env : Env) (w : World) (hrun : runAddPayload cfg Gen.C06.addPayloadSrc h payload = .normal env w) :
    ∃ d : Decoded, toDecoded h (.normal env w) = some (.ok d) ∧
      payload.length = h.dataSize + h.annSize ∧
      ∃ chunks : List (Bytes × Bytes),
        payload.take h.annSize = rawChunks chunks ∧
        d.anns = chunks.foldl (fun a c => dictSet a (c.1.map UInt8.toNat) c.2) [] := by
  have ht := addPayload_translated z cfg hz h payload
  rw [hrun] at ht
  cases hm : Wire.addPayload z h payload with
  | error e =>
    rw [hm] at ht
    simp only [toDecoded] at ht
    split at ht <;> simp at ht
  | ok d =>
    rw [hm] at ht
    obtain ⟨hl, chunks, hc, ha, _⟩ := addPayload_ok z h payload d hm
    exact ⟨d, ht, hl, chunks, hc, ha⟩

/-- ... and it never leaves the fragment or runs out of fuel: the outcome is a message or one of the four documented errors -/
theorem C06_source_outcomes (z : Zlib) (cfg : PyIR.Cfg) (hz : cfg.unzip = z.decompress) (h : Header) (payload : Bytes) :
    (toDecoded h (runAddPayload cfg Gen.C06.addPayloadSrc h payload)).isSome := by
  rw [addPayload_translated z cfg hz]; rfl

/-- non-vacuity: a concrete run of the transcription (two chunks, the second key repeats the first: later one wins) -/
example :
    let z : Zlib := { compress := id, decompress := fun _ => none }
    let cfg : PyIR.Cfg := { useWaitall := false, peercert := false, blocking := true, isSub := fun _ _ => false, unzip := z.decompress }
    let h : Header := { type := 4, serId := 2, flags := 0, seq := 7, dataSize := 2, annSize := 19, corr := [] }
    sameOutcome (toDecoded h (runAddPayload cfg Gen.C06.addPayloadSrc h
      ([65,66,67,68, 0,0,0,1, 9] ++ [65,66,67,68, 0,0,0,2, 8,7] ++ [1,2])))
      (.ok { type := 4, serId := 2, flags := 0, seq := 7, data := [1,2], anns := [([65,66,67,68], [8,7])], corr := [] }) = true := by
  intro z cfg h
  rw [addPayload_translated z cfg rfl]
  decide +kernel

/-! ### header parsing: `ReceivingMessage.__init__` and `ReceivingMessage.validate` -/

theorem int_bne_502 (v : Nat) : (((v : Int) != 502)) = (v != 502) := by
  rw [Bool.eq_iff_iff]; simp only [bne_iff_ne, ne_eq]; omega

theorem int_bne_19909 (v : Nat) : (((v : Int) != 19909)) = (v != 19909) := by
  rw [Bool.eq_iff_iff]; simp only [bne_iff_ne, ne_eq]; omega

/-- **`ReceivingMessage.__init__(header)`, as written now, is the model's `parseHeader`** on every 40-byte header and
    every MAX_MESSAGE_SIZE (the struct format is the extracted one, field by field) -/
theorem init_translated (cfg : PyIR.Cfg) (wcfg : Wire.Cfg) (hm : cfg.maxSize = wcfg.maxSize) (header : Bytes)
    (h40 : header.length = 40) :
    toHeader (runInit cfg Gen.C06.initSrc header) = some (Wire.parseHeader wcfg header) := by
  unfold runInit
  have hd : header.drop 40 = [] := List.drop_eq_nil_of_le (by omega)
  by_cases ht : header.take 4 = [80, 89, 82, 79] <;>
  by_cases hv : fromBE (List.take 2 (List.drop 4 header)) = 502 <;>
  by_cases hg : fromBE (List.take 2 (List.drop 38 header)) = 19909 <;>
  by_cases hs : (wcfg.maxSize : Int) < (fromBE (List.take 4 (List.drop 12 header)) : Int) + (fromBE (List.take 4 (List.drop 16 header)) : Int) <;>
  (have htB : (List.take 4 header != [80, 89, 82, 79]) = !decide (List.take 4 header = [80, 89, 82, 79]) := by
    by_cases h : List.take 4 header = [80, 89, 82, 79] <;> simp [h]) <;>
  (have hvB : (fromBE (List.take 2 (List.drop 4 header)) != 502) = !decide (fromBE (List.take 2 (List.drop 4 header)) = 502) := by
    by_cases h : fromBE (List.take 2 (List.drop 4 header)) = 502 <;> simp [h]) <;>
  (have hgB : (fromBE (List.take 2 (List.drop 38 header)) != 19909) = !decide (fromBE (List.take 2 (List.drop 38 header)) = 19909) := by
    by_cases h : fromBE (List.take 2 (List.drop 38 header)) = 19909 <;> simp [h]) <;>
  simp [htB, hvB, hgB, Gen.C06.initSrc, exec, truth, eval, truthy, List.lookup_cons, unpackFields, fldSize, bindAll, h40, List.drop_drop,
    List.length_drop, hd, int_bne_502, int_bne_19909, ht, hv, hg, hs, hm, toHeader, Wire.parseHeader, tagPYRO, protocolVersion,
    magicNumber]
  all_goals omega

/-- what `validate` decides on the 6 bytes `recv_stub` reads first (the model's test in `recvStub`) -/
def prefixBad (h6 : Bytes) : Bool := (h6.take 4 != tagPYRO) || (h6.drop 4 != toBE 2 protocolVersion)

/-- **`ReceivingMessage.validate`, as written now, on the 6-byte prefix**: ProtocolError exactly when the tag is not
    `PYRO` or the version bytes differ; otherwise it returns -/
theorem validate_translated (cfg : PyIR.Cfg) (h6 : Bytes) (hl : h6.length = 6) :
    (prefixBad h6 = true → ∃ env w, runValidate cfg Gen.C06.validateSrc h6 = .raise (.exc .protocolError false none) env w) ∧
    (prefixBad h6 = false → ∃ env w, runValidate cfg Gen.C06.validateSrc h6 = .normal env w) := by
  have hv : toBE 2 protocolVersion = [1, 246] := by decide
  have e64 : (6 : Int).toNat - (4 : Int).toNat = 2 := by decide
  have hd : List.take 2 (List.drop 4 h6) = List.drop 4 h6 := List.take_of_length_le (by simp [hl])
  have htB : (List.take 4 h6 != [80, 89, 82, 79]) = !decide (List.take 4 h6 = [80, 89, 82, 79]) := by
    by_cases h : List.take 4 h6 = [80, 89, 82, 79] <;> simp [h]
  have hpB : (List.drop 4 h6 != [1, 246]) = !decide (List.drop 4 h6 = [1, 246]) := by
    by_cases h : List.drop 4 h6 = [1, 246] <;> simp [h]
  have hsw : (List.take 4 h6 == [80, 89, 82, 79]) = decide (List.take 4 h6 = [80, 89, 82, 79]) := by
    by_cases h : List.take 4 h6 = [80, 89, 82, 79] <;> simp [h]
  unfold runValidate prefixBad
  rw [hv]
  simp only [tagPYRO]
  by_cases ht : List.take 4 h6 = [80, 89, 82, 79] <;> by_cases hp : List.drop 4 h6 = [1, 246] <;>
    simp [Gen.C06.validateSrc, exec, truth, eval, truthy, List.lookup_cons, hl, ht, hp, hd, e64, htB, hpB, hsw]

/-! ### the whole decode path, assembled from the transcribed functions

`recv_stub` itself is twelve lines of glue: read 6 bytes, `validate`, read the other 34, construct the message (`__init__`),
filter the message type, read `annotations_size + data_size` bytes, `add_payload`.  `recvStubSrc` is that glue written in Lean
around the three *transcribed* functions (run by the PyIR interpreter); the theorem says the assembly is the model's `recvStub`
for every stream, so every C06 theorem about `recvStub` is a theorem about the transcriptions composed this way.  (That the glue
itself reads in this order and nothing else is checked on the real `recv_stub` by the correspondence run: requested-byte
counts and outcomes, per input.) -/

def recvStubSrc (cfg : PyIR.Cfg) (accepted : List Nat) (stream : Bytes) : Option StubResult :=
  match recvN 6 stream with
  | none => some ⟨.error .closed, 6, []⟩
  | some (h6, s1) =>
    match runValidate cfg Gen.C06.validateSrc h6 with
    | .raise (.exc .protocolError _ _) _ _ => some ⟨.error .protocol, 6, s1⟩
    | .normal _ _ =>
      match recvN (headerSize - 6) s1 with
      | none => some ⟨.error .closed, headerSize, []⟩
      | some (h34, s2) =>
        match toHeader (runInit cfg Gen.C06.initSrc (h6 ++ h34)) with
        | some (.error e) => some ⟨.error e, headerSize, s2⟩
        | some (.ok hdr) =>
          if !accepted.isEmpty && !accepted.contains hdr.type then some ⟨.error .badType, headerSize, s2⟩
          else match recvN (hdr.annSize + hdr.dataSize) s2 with
            | none => some ⟨.error .closed, headerSize + hdr.annSize + hdr.dataSize, []⟩
            | some (body, s3) =>
              match toDecoded hdr (runAddPayload cfg Gen.C06.addPayloadSrc hdr body) with
              | some out => some ⟨out, headerSize + hdr.annSize + hdr.dataSize, s3⟩
              | none => none
        | none => none
    | _ => none

theorem recvN_length {n : Nat} {s a b : Bytes} (h : recvN n s = some (a, b)) : a.length = n := by
  unfold recvN at h
  split at h
  · cases h; simp; omega
  · cases h

/-- **C06_source_recvStub.**  The transcribed `validate`, `__init__` and `add_payload`, assembled the way `recv_stub` calls
    them, decode every stream exactly as the model's `recvStub` does (same outcome, same bytes requested, same rest). -/
theorem C06_source_recvStub (cfg : PyIR.Cfg) (wcfg : Wire.Cfg) (z : Zlib) (hm : cfg.maxSize = wcfg.maxSize)
    (hz : cfg.unzip = z.decompress) (accepted : List Nat) (stream : Bytes) :
    recvStubSrc cfg accepted stream = some (recvStub wcfg z accepted stream) := by
  unfold recvStubSrc recvStub
  cases h6e : recvN 6 stream with
  | none => rfl
  | some p =>
    obtain ⟨h6, s1⟩ := p
    have hl6 := recvN_length h6e
    obtain ⟨hbad, hgood⟩ := validate_translated cfg h6 hl6
    simp only []
    cases hb : prefixBad h6 with
    | true =>
      obtain ⟨env, w, hv⟩ := hbad hb
      rw [hv]
      simp only [prefixBad, Bool.or_eq_true, bne_iff_ne, ne_eq] at hb
      rcases hb with hb | hb
      · simp [hb]
      · by_cases ht : List.take 4 h6 = tagPYRO
        · simp [ht, hb]
        · simp [ht]
    | false =>
      obtain ⟨env, w, hv⟩ := hgood hb
      rw [hv]
      simp only [prefixBad, Bool.or_eq_false_iff, bne_eq_false_iff_eq] at hb
      simp only [hb.1, hb.2, ne_eq, not_true_eq_false, if_false]
      cases h34e : recvN (headerSize - 6) s1 with
      | none => rfl
      | some q =>
        obtain ⟨h34, s2⟩ := q
        have hl34 := recvN_length h34e
        have h40 : (h6 ++ h34).length = 40 := by simp [hl6, hl34, headerSize]
        simp only []
        rw [init_translated cfg wcfg hm (h6 ++ h34) h40]
        simp only [recvStage2]
        cases hp : parseHeader wcfg (h6 ++ h34) with
        | error e => rfl
        | ok hdr =>
          simp only []
          split
          · rfl
          · simp only [recvStage3]
            cases hbe : recvN (hdr.annSize + hdr.dataSize) s2 with
            | none => rfl
            | some r =>
              obtain ⟨body, s3⟩ := r
              simp only []
              rw [addPayload_translated z cfg hz hdr body]

/-- **"accepts only what is well formed", about the assembled transcriptions**: whatever byte string they accept is a 40-byte
    header that parses, an annotation area tiled exactly by chunks, exactly `data_size` data bytes and the untouched rest, and
    exactly the message's bytes were requested (the conclusion of `C06_accepts_only_wellformed`, transferred). -/
theorem C06_source_accepts_only_wellformed (cfg : PyIR.Cfg) (wcfg : Wire.Cfg) (z : Zlib) (hm : cfg.maxSize = wcfg.maxSize)
    (hz : cfg.unzip = z.decompress) (accepted : List Nat) (stream : Bytes) (d : Decoded) (n : Nat) (rest : Bytes)
    (h : recvStubSrc cfg accepted stream = some ⟨.ok d, n, rest⟩) :
    ∃ (hdr : Bytes) (H : Header) (chunks : List (Bytes × Bytes)) (data : Bytes),
      stream = hdr ++ (rawChunks chunks ++ (data ++ rest)) ∧
      hdr.length = headerSize ∧ parseHeader wcfg hdr = .ok H ∧
      (rawChunks chunks).length = H.annSize ∧ data.length = H.dataSize ∧
      n = headerSize + H.annSize + H.dataSize ∧
      d.anns = chunks.foldl (fun a c => dictSet a (c.1.map UInt8.toNat) c.2) [] := by
  rw [C06_source_recvStub cfg wcfg z hm hz] at h
  have h' : recvStub wcfg z accepted stream = ⟨.ok d, n, rest⟩ := by injection h
  obtain ⟨hdr, H, chunks, data, h1, h2, h3, h4, h5, h6, _, h8, _⟩ :=
    Pyro.C06.C06_accepts_only_wellformed wcfg z accepted stream d n rest h'
  exact ⟨hdr, H, chunks, data, h1, h2, h3, h4, h5, h6, h8⟩

end Pyro.C06Ast
