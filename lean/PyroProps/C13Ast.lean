/-
  C13Ast.lean — `SocketConnection.close`, transcribed from the source into PyIR on every run (Gen/C13.lean, `closeSrc`):
  whatever subset of the resources' close() methods (and of the two socket calls) raises, close() never raises, calls
  close() on every tracked resource exactly once and in iteration order, and leaves no tracked resource and no session
  instance behind; with keep_open it touches nothing; a second close() closes no resource again.
-/
import PyroModel.PyIR
import PyroModel.Gen.C13

set_option linter.unusedSimpArgs false

namespace Pyro.C13Ast

open Pyro Pyro.PyIR

/-- the state close() starts in -/
def initEnv (keepOpen : Bool) (tracked : List Nat) (inst : List (List Nat × Bytes)) : Env :=
  [("self.keep_open", .bool keepOpen), ("self.tracked_resources", .resources tracked), ("self.pyroInstances", .dict inst)]

def runClose (cfg : Cfg) (body : Stmt) (keepOpen : Bool) (tracked : List Nat) (inst : List (List Nat × Bytes)) : Res :=
  exec cfg body (tracked.length + 2) none (initEnv keepOpen tracked inst) ⟨[], [], [], []⟩

/-- the `for rsc in ...: with suppress(Exception): rsc.close()` loop, over what is left of the collection -/
theorem close_loop (cfg : Cfg) (x : String) :
    ∀ (l : List Nat) (fuel : Nat) (cur : Option Val) (env : Env) (w : World), l.length + 1 ≤ fuel →
      ∃ env', exec cfg (.forEach x (.lit (.resources l)) (.suppress (.closeRes (.var x)))) fuel cur env w
          = .normal env' { w with log := w.log ++ l } ∧
        (∀ n, n ≠ x → env'.lookup n = env.lookup n) := by
  intro l
  induction l with
  | nil =>
    intro fuel cur env w hf
    obtain ⟨f, rfl⟩ : ∃ f, fuel = f + 1 := ⟨fuel - 1, by omega⟩
    exact ⟨env, by simp [exec, eval], fun _ _ => rfl⟩
  | cons r rest ih =>
    intro fuel cur env w hf
    obtain ⟨f, rfl⟩ : ∃ f, fuel = f + 1 := ⟨fuel - 1, by simp at hf; omega⟩
    obtain ⟨env', he, hl⟩ := ih f cur ((x, .resource r) :: env) { w with log := w.log ++ [r] } (by simp at hf; omega)
    refine ⟨env', ?_, ?_⟩
    · by_cases hr : cfg.closeRaises r
      · simp [exec, eval, List.lookup_cons, hr, he]
      · simp [exec, eval, List.lookup_cons, hr, he]
    · intro n hn
      rw [hl n hn]
      have : (n == x) = false := by simpa using hn
      simp [List.lookup_cons, this]

/-- **SocketConnection.close, as written now**, on a connection that is not kept open: whichever of the calls raise,
    close() returns normally, has called shutdown, close and then close() on each tracked resource once, in order,
    and the connection holds no tracked resource and no session instance afterwards -/
theorem close_translated (cfg : Cfg) (tracked : List Nat) (inst : List (List Nat × Bytes)) :
    ∃ env w, runClose cfg Gen.C13.closeSrc false tracked inst = .normal env w ∧
      w.log = [sockShutdownMark, sockCloseMark] ++ tracked ∧
      env.lookup "self.tracked_resources" = some (.resources []) ∧
      env.lookup "self.pyroInstances" = some (.dict []) := by
  unfold runClose
  generalize hF : tracked.length + 2 = F
  obtain ⟨f, rfl⟩ : ∃ f, F = f + 1 := ⟨F - 1, by omega⟩
  cases tracked with
  | nil =>
    by_cases h1 : cfg.closeRaises sockShutdownMark <;> by_cases h2 : cfg.closeRaises sockCloseMark <;>
      simp [Gen.C13.closeSrc, exec, truth, eval, truthy, initEnv, List.lookup_cons, h1, h2] <;>
      exact ⟨_, _, ⟨rfl, rfl⟩, by simp, by simp [List.lookup_cons], by simp [List.lookup_cons]⟩
  | cons r rest =>
    obtain ⟨env', he, hl⟩ := close_loop cfg "v0" rest f none
      (("v0", .resource r) :: ("self.pyroInstances", .dict []) :: initEnv false (r :: rest) inst)
      ⟨[], [], [], [sockShutdownMark, sockCloseMark, r]⟩ (by simp at hF; omega)
    have ht := hl "self.tracked_resources" (by decide)
    have hi := hl "self.pyroInstances" (by decide)
    simp [initEnv, List.lookup_cons] at ht hi
    simp [initEnv] at he
    refine ⟨("self.tracked_resources", .resources []) :: env', ⟨[], [], [], [sockShutdownMark, sockCloseMark, r] ++ rest⟩, ?_,
      by simp, by simp [List.lookup_cons], by simp [List.lookup_cons, hi]⟩
    by_cases h1 : cfg.closeRaises sockShutdownMark <;> by_cases h2 : cfg.closeRaises sockCloseMark <;>
      by_cases h3 : cfg.closeRaises r <;>
      simp [Gen.C13.closeSrc, exec, truth, eval, truthy, initEnv, List.lookup_cons, h1, h2, h3, he, ht]

/-- with keep_open (a socket the daemon was handed and does not own) close() returns at once and touches nothing -/
theorem close_keep_open (cfg : Cfg) (tracked : List Nat) (inst : List (List Nat × Bytes)) :
    ∃ w, runClose cfg Gen.C13.closeSrc true tracked inst = .ret .none w ∧ w.log = [] := by
  unfold runClose
  refine ⟨⟨[], [], [], []⟩, ?_, rfl⟩
  simp [Gen.C13.closeSrc, exec, truth, eval, truthy, initEnv, List.lookup_cons]

/-- **exactly once**: a second close() of the same connection (the state the first one left) closes no resource again -/
theorem close_twice (cfg : Cfg) (tracked : List Nat) (inst : List (List Nat × Bytes)) :
    ∃ env w env2 w2, runClose cfg Gen.C13.closeSrc false tracked inst = .normal env w ∧
      runClose cfg Gen.C13.closeSrc false [] [] = .normal env2 w2 ∧
      env.lookup "self.tracked_resources" = some (.resources []) ∧ env.lookup "self.pyroInstances" = some (.dict []) ∧
      w2.log = [sockShutdownMark, sockCloseMark] := by
  obtain ⟨env, w, h1, _, ht, hi⟩ := close_translated cfg tracked inst
  obtain ⟨env2, w2, h2, hl, _, _⟩ := close_translated cfg [] []
  exact ⟨env, w, env2, w2, h1, h2, ht, hi, by simpa using hl⟩

/-- non-vacuity: three tracked resources, the second one's close() raises, and so does the socket's shutdown -/
def exampleCfg : Cfg :=
  { useWaitall := false, peercert := false, blocking := true, isSub := fun _ _ => false,
    closeRaises := fun r => r == 12 || r == sockShutdownMark }

example : ∃ env w, runClose exampleCfg Gen.C13.closeSrc false [11, 12, 13] [] = .normal env w ∧
    w.log = [sockShutdownMark, sockCloseMark, 11, 12, 13] := by
  obtain ⟨env, w, h, hl, _, _⟩ := close_translated exampleCfg [11, 12, 13] []
  exact ⟨env, w, h, hl⟩

end Pyro.C13Ast
