/- C01, round 5: `SerializerBase.recreate_classes` transcribed from the source on every run
   (harness/props/c01_tr.py -> PyroModel/Gen/C01Src.lean) computes exactly the hand-written `recreate`
   of the model, for every serializer and every value; the main theorems restated about the transcription. -/
import PyroModel.Gen.C01Src
import PyroProps.C01

namespace Pyro.C01
open Pyro.Values Pyro.Gen.C01Src

mutual
/-- the transcription of `recreate_classes`, with the model's `dict_to_class` as its collaborator, is the model's `recreate` -/
theorem C01_recreate_classes_translated (s : Ser) : ∀ v : Val, recreateSrc (dictToClass s) v = recreate s v
  | .set xs => by simp only [recreateSrc, recreate, recreateSrcItems_eq s xs]
  | .list xs => by simp only [recreateSrc, recreate, recreateSrcItems_eq s xs]
  | .tuple xs => by simp only [recreateSrc, recreate, recreateSrcItems_eq s xs]
  | .dict kvs => by simp only [recreateSrc, recreate, recreateSrcValues_eq s kvs, classKey, sClass]; rfl
  | .none => by simp only [recreateSrc, recreate]
  | .bool _ => by simp only [recreateSrc, recreate]
  | .int _ => by simp only [recreateSrc, recreate]
  | .float _ => by simp only [recreateSrc, recreate]
  | .str _ => by simp only [recreateSrc, recreate]
  | .bytes _ => by simp only [recreateSrc, recreate]
  | .bytearray _ => by simp only [recreateSrc, recreate]
  | .frozenset _ => by simp only [recreateSrc, recreate]
  | .complex _ _ => by simp only [recreateSrc, recreate]
  | .uuid _ => by simp only [recreateSrc, recreate]
  | .decimal _ => by simp only [recreateSrc, recreate]
  | .date _ => by simp only [recreateSrc, recreate]
  | .ext _ _ => by simp only [recreateSrc, recreate]
  | .inst _ _ => by simp only [recreateSrc, recreate]
theorem recreateSrcItems_eq (s : Ser) : ∀ xs : Vals, recreateSrcItems (dictToClass s) xs = recList s xs
  | .nil => by simp only [recreateSrcItems, recList]
  | .cons x xs => by
    simp only [recreateSrcItems, recList, C01_recreate_classes_translated s x, recreateSrcItems_eq s xs]
theorem recreateSrcValues_eq (s : Ser) : ∀ kvs : Pairs, recreateSrcValues (dictToClass s) kvs = recVals s kvs
  | .nil => by simp only [recreateSrcValues, recVals]
  | .cons k v rest => by
    simp only [recreateSrcValues, recVals, C01_recreate_classes_translated s v, recreateSrcValues_eq s rest]
end

/-- the result path with the transcribed `recreate_classes` is the model's result path -/
theorem C01_source_resPath (s : Ser) (v : Val) : resSrc srcCfg s v = resPath s v := by
  cases s <;> simp only [resSrc, resPath, resRT, C01_recreate_classes_translated]

/-- **C01_lossless, about the transcription**: on the lossless core `loads(dumps(v))`, with `recreate_classes` as it is
    written in the source now, delivers exactly `v` under every serializer. -/
theorem C01_source_lossless (s : Ser) (v : Val) (h : lossless v = true) : resSrc srcCfg s v = .ok v :=
  (C01_source_resPath s v).trans (C01_lossless s v h).1

/-- **C01_symmetric, about the transcription**: an argument (positional or keyword) arrives as what the source's
    result path delivers, values and error classes alike. -/
theorem C01_source_symmetric (s : Ser) (v : Val) :
    argPath srcCfg s v = resSrc srcCfg s v ∧ kwPath srcCfg s v = resSrc srcCfg s v := by
  rw [C01_source_resPath]; exact C01_symmetric s v

/-- **C01_idempotent / normal form, about the transcription**: what the source's result path delivers for a Python value
    is a normal form, and sending that again delivers it unchanged. -/
theorem C01_source_idempotent (s : Ser) (v w : Val) (hv : pyval v = true) (h : resSrc srcCfg s v = .ok w) :
    nf s w = true ∧ resSrc srcCfg s w = .ok w := by
  rw [C01_source_resPath] at h
  exact ⟨C01_delivers_normal_form s v w hv h, (C01_source_resPath s w).trans (C01_idempotent s v w hv h).1⟩

/-- non-vacuity: a nan inside a list inside a dict travels as serpent's class dict and is re-created by the transcription -/
example : resSrc srcCfg .serpent (.dict (.cons (.str [107]) (.list (.cons (.float nanBits) .nil)) .nil))
    = .ok (.dict (.cons (.str [107]) (.list (.cons (.float nanBits) .nil)) .nil)) := by decide

end Pyro.C01
