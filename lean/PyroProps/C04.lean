/-
  C04 — Deserialisation builds only data and a fixed set of known classes.

  Property theorems about `PyroModel.Classes` (model of SerializerBase.dict_to_class / make_exception /
  recreate_classes, SerpentSerializer.dict_to_class, MsgpackSerializer.ext_hook, loads / loadsCall of the four
  serializers, and the __setstate__ methods reached from there), for the tree with fixes/C04-msgpack-topdown.patch.

  Quantifiers: every literal tree (any depth, any tags, any members), every converter registry, every outcome of the
  external calls (`Ext`: exception constructors, setattr, float(), set(), URI parsing, ext parsing), every recursion
  budget.  The name tables of builtins / Pyro5.errors / sqlite3 and the shape of the decision list are the facts
  extracted from the current source (`Pyro.Gen.C04`); obligations about them are the `C04_gen_…` theorems.
-/
import PyroProofs.Classes

namespace Pyro.C04

open Pyro.Classes Pyro.Gen.C04

/-- **C04_closed.**  Class re-creation (`recreate_classes`) applied to a value whose instances (if any) are of the
    closed set yields, when it returns, a value all of whose instances are of the closed set: Pyro's own URI, Proxy,
    Daemon placeholder, serializer and exception-wrapper classes, exception classes found in builtins / Pyro5.errors /
    sqlite3 (`*Error`) / struct.error, and results of converters the application registered.  For every serializer,
    registry, outcome of the external calls and budget. -/
theorem C04_closed (E : Env) (ser : Ser) (fuel : Nat) (v w : Val) (log : List Effect)
    (hv : Closed E.reg v) (h : recreate E ser fuel v = (.ok w, log)) : Closed E.reg w :=
  (recreate_spec E False ser fuel v hv (fun hp => hp.elim)).1 w (congrArg Prod.fst h)

/-- **C04_closed_loads.**  The same for the whole result path `serializer.loads` (msgpack: `ext_hook` first). -/
theorem C04_closed_loads (E : Env) (ser : Ser) (fuel : Nat) (lit w : Val) (log : List Effect)
    (hv : Closed E.reg lit) (h : loads E ser fuel lit = (.ok w, log)) : Closed E.reg w :=
  (loads_spec E False ser fuel lit hv (fun hp => hp.elim)).1 w (congrArg Prod.fst h)

/-- **C04_closed_loadsCall.**  The same for the call-argument path `serializer.loadsCall`, whether or not msgpack's
    loadsCall passes `ext_hook`. -/
theorem C04_closed_loadsCall (E : Env) (hook : Bool) (ser : Ser) (fuel : Nat) (lit w : Val) (log : List Effect)
    (hv : Closed E.reg lit) (h : loadsCall E hook ser fuel lit = (.ok w, log)) : Closed E.reg w :=
  (loadsCall_spec E False hook ser fuel lit hv (fun hp => hp.elim)).1 w (congrArg Prod.fst h)

mutual
theorem plain_closed (reg : List Str) : ∀ (v : Val), plainB v = true → closedB reg v = true
  | .list xs, h => by simp only [plainB, closedB] at *; exact plainList_closed reg xs h
  | .tuple xs, h => by simp only [plainB, closedB] at *; exact plainList_closed reg xs h
  | .set xs, h => by simp only [plainB, closedB] at *; exact plainList_closed reg xs h
  | .dict _ vs, h => by simp only [plainB, closedB] at *; exact plainList_closed reg vs h
  | .inst _ _, h => by simp [plainB] at h
  | .atom _ _, _ => rfl
  | .blob _ _, _ => rfl
  | .str _, _ => rfl
  | .bytes _, _ => rfl
  | .ext _ _ _ _, _ => rfl
theorem plainList_closed (reg : List Str) : ∀ (vs : List Val), plainListB vs = true → closedListB reg vs = true
  | [], _ => rfl
  | x :: xs, h => by
    simp only [plainListB, closedListB, Bool.and_eq_true] at *
    exact ⟨plain_closed reg x h.1, plainList_closed reg xs h.2⟩
end

/-- **C04_plain_input.**  What the wire codecs deliver — literal data without any instance — meets the hypothesis of
    the `C04_closed…` theorems, so for every payload: whatever `loads` returns is closed. -/
theorem C04_plain_input (E : Env) (ser : Ser) (fuel : Nat) (lit w : Val) (log : List Effect)
    (hp : plainB lit = true) (h : loads E ser fuel lit = (.ok w, log)) : Closed E.reg w :=
  C04_closed_loads E ser fuel lit w log (plain_closed E.reg lit hp) h

/-- **C04_dunder.**  A class dict whose tag (text, or bytes decoding to text) contains a double underscore and has no
    registered converter is refused with SecurityError before anything else happens (empty effect log) — whatever its
    other members, whatever the budget. -/
theorem C04_dunder (E : Env) (fuel : Nat) (ks : List Key) (vs : List Val) (tag : Str)
    (ht : tagOf ks vs = .ok tag) (hr : tag ∉ E.reg) (hd : ['_', '_'] <:+: tag) :
    dictToClass E (fuel + 1) ks vs = (.error .security, []) := by
  unfold dictToClass
  simp only [ht]
  rw [if_neg hr, if_pos ((hasDunder_iff tag).mpr hd)]
  rfl

/-- **C04_unknown.**  `dict_to_class` returns a value only for a tag with a registered converter, or a dunder-free tag
    of the closed set (`KnownTag`: the nine hard-coded names, `Pyro5.errors.<PyroError subclass>`, and — only when the
    dict's `__exception__` entry is truthy — a name of `all_exceptions`, `builtins.`/`exceptions.` + a BaseException
    subclass of builtins, `sqlite3.` + an exception class whose name ends in `Error`).  Every other tag ends in an error. -/
theorem C04_unknown (E : Env) (fuel : Nat) (ks : List Key) (vs : List Val) (w : Val) (log : List Effect)
    (h : dictToClass E fuel ks vs = (.ok w, log)) :
    ∃ tag, tagOf ks vs = .ok tag ∧ (tag ∈ E.reg ∨ (hasDunder tag = false ∧ KnownTag (excFlag ks vs) tag)) := by
  have h1 : (dictToClass E fuel ks vs).1 = .ok w := congrArg Prod.fst h
  clear h
  cases fuel with
  | zero => unfold dictToClass at h1; cases h1
  | succ fuel =>
    unfold dictToClass at h1
    generalize htag : tagOf ks vs = tg at h1
    cases tg with
    | error e => cases h1
    | ok cn =>
      refine ⟨cn, rfl, ?_⟩
      simp only at h1
      by_cases hreg : cn ∈ E.reg
      · exact Or.inl hreg
      rw [if_neg hreg] at h1
      by_cases hdu : hasDunder cn = true
      · rw [if_pos hdu] at h1; cases h1
      rw [if_neg hdu] at h1
      refine Or.inr ⟨by simpa using hdu, ?_⟩
      have inList : cn ∈ [tURI, tProxy, tDaemon, tSerpent, tMarshal, tJson, tMsgpack, tStructError, tWrapper] →
          KnownTag (excFlag ks vs) cn := Or.inl
      by_cases c1 : cn = tURI
      · exact inList (by rw [c1]; simp only [List.mem_cons, true_or])
      rw [if_neg c1] at h1
      by_cases c2 : cn = tProxy
      · exact inList (by rw [c2]; simp only [List.mem_cons, true_or, or_true])
      rw [if_neg c2] at h1
      by_cases c3 : cn = tDaemon
      · exact inList (by rw [c3]; simp only [List.mem_cons, true_or, or_true])
      rw [if_neg c3] at h1
      by_cases c4 : startsWith cn pUtil = true
      · rw [if_pos c4] at h1
        by_cases d1 : cn = tSerpent
        · exact inList (by rw [d1]; simp only [List.mem_cons, true_or, or_true])
        rw [if_neg d1] at h1
        by_cases d2 : cn = tMarshal
        · exact inList (by rw [d2]; simp only [List.mem_cons, true_or, or_true])
        rw [if_neg d2] at h1
        by_cases d3 : cn = tJson
        · exact inList (by rw [d3]; simp only [List.mem_cons, true_or, or_true])
        rw [if_neg d3] at h1
        by_cases d4 : cn = tMsgpack
        · exact inList (by rw [d4]; simp only [List.mem_cons, true_or, or_true])
        rw [if_neg d4, unsupported_fst] at h1
        cases h1
      rw [if_neg c4] at h1
      by_cases c5 : startsWith cn pErrors = true
      · rw [if_pos c5] at h1
        obtain ⟨q, hq⟩ := resolveExc_ok h1
        exact Or.inr (Or.inl ⟨_, q, startsWith_eq c5, hq⟩)
      rw [if_neg c5] at h1
      by_cases c6 : cn = tStructError
      · exact inList (by rw [c6]; simp only [List.mem_cons, true_or, or_true])
      rw [if_neg c6] at h1
      by_cases c7 : cn = tWrapper
      · exact inList (by rw [c7]; simp only [List.mem_cons, List.mem_nil_iff, or_false, or_true])
      rw [if_neg c7] at h1
      by_cases c8 : excFlag ks vs = true
      · rw [if_pos c8] at h1
        refine Or.inr (Or.inr ⟨c8, ?_⟩)
        generalize hall : assoc cn allExceptions = r at h1
        cases r with
        | some q => exact Or.inl ⟨q, rfl⟩
        | none =>
          simp only at h1
          generalize hsp : splitDot cn = sp at h1
          cases sp with
          | none => cases h1
          | some p =>
            obtain ⟨ns, short⟩ := p
            have hcn := splitDot_eq hsp
            simp only at h1
            by_cases e1 : ns = nsBuiltins ∨ ns = nsExceptions
            · rw [if_pos e1] at h1
              obtain ⟨q, hq⟩ := resolveExc_ok h1
              refine Or.inr (Or.inl ⟨short, q, ?_, hq⟩)
              rcases e1 with e | e
              · exact Or.inl (by rw [hcn, e])
              · exact Or.inr (by rw [hcn, e])
            rw [if_neg e1] at h1
            by_cases e2 : ns = nsSqlite3 ∧ endsWith short sufError = true
            · rw [if_pos e2, emit_bind_fst] at h1
              obtain ⟨q, hq⟩ := resolveExc_ok h1
              exact Or.inr (Or.inr ⟨short, q, by rw [hcn, e2.1], e2.2, hq⟩)
            rw [if_neg e2, unsupported_fst] at h1
            cases h1
      rw [if_neg c8, unsupported_fst] at h1
      cases h1

/-- **C04_effects.**  Everything class re-creation does besides building data is in the allowed set: calling a
    converter the application registered for that very tag; constructing a class of the closed set; `getattr` on
    builtins / Pyro5.errors / sqlite3 only; `import sqlite3` only; `setattr` on an instance of a whitelisted exception
    class only; data-only conversions; a log warning.  (No other import, no other constructor, no other call.) -/
theorem C04_effects (E : Env) (ser : Ser) (fuel : Nat) (v : Val) (hv : Closed E.reg v) :
    ∀ e ∈ (recreate E ser fuel v).2, Allowed E.reg e :=
  (recreate_spec E False ser fuel v hv (fun hp => hp.elim)).2.1

theorem C04_effects_loads (E : Env) (ser : Ser) (fuel : Nat) (lit : Val) (hv : Closed E.reg lit) :
    ∀ e ∈ (loads E ser fuel lit).2, Allowed E.reg e :=
  (loads_spec E False ser fuel lit hv (fun hp => hp.elim)).2.1

theorem C04_effects_loadsCall (E : Env) (hook : Bool) (ser : Ser) (fuel : Nat) (lit : Val) (hv : Closed E.reg lit) :
    ∀ e ∈ (loadsCall E hook ser fuel lit).2, Allowed E.reg e :=
  (loadsCall_spec E False hook ser fuel lit hv (fun hp => hp.elim)).2.1

/-- **Obligation on the extracted tables** (`C04_gen_tables`): every exception class reachable through the tables is
    defined in builtins, Pyro5.errors or sqlite3 (or is struct.error); every sqlite3 attribute whose name ends in
    `Error` is an exception class (the `issubclass` test on that path never even sees anything else); no reachable
    exception name contains a double underscore. -/
theorem C04_gen_tables :
    (∀ q ∈ closedExcQuals, startsWith q (cs "builtins.") = true ∨ startsWith q (cs "Pyro5.errors.") = true
        ∨ startsWith q (cs "sqlite3.") = true ∨ q = cs "struct.error")
    ∧ (∀ r ∈ sqliteErrorRows, ∃ q, r.2 = Kind.exc q)
    ∧ (∀ q ∈ closedExcQuals, hasDunder q = false) := by
  have h := tablesOk_true
  simp only [tablesOk, Bool.and_eq_true] at h
  obtain ⟨⟨h1, h2⟩, _⟩ := h
  refine ⟨?_, ?_, ?_⟩
  · intro q hq
    have := List.all_eq_true.mp h1 q hq
    simp only [Bool.and_eq_true, Bool.or_eq_true, decide_eq_true_eq] at this
    rcases this.1 with ((h | h) | h) | h
    · exact Or.inl h
    · exact Or.inr (Or.inl h)
    · exact Or.inr (Or.inr (Or.inl h))
    · exact Or.inr (Or.inr (Or.inr h))
  · intro r hr
    have h := List.all_eq_true.mp h2 r hr
    cases hk : r.2 with
    | exc q => exact ⟨q, rfl⟩
    | cls => rw [hk] at h; cases h
    | other => rw [hk] at h; cases h
  · intro q hq
    have := List.all_eq_true.mp h1 q hq
    simp only [Bool.and_eq_true, Bool.not_eq_true'] at this
    exact this.2

/-- **C04_exc_sources.**  An exception class that decoding constructs is one of the closed list, hence defined in
    builtins, Pyro5.errors, sqlite3 or is struct.error. -/
theorem C04_exc_sources (E : Env) (ser : Ser) (fuel : Nat) (lit : Val) (hv : Closed E.reg lit) (q : Str)
    (h : Effect.construct (.exc q) ∈ (loads E ser fuel lit).2) :
    q ∈ closedExcQuals ∧ (startsWith q (cs "builtins.") = true ∨ startsWith q (cs "Pyro5.errors.") = true
        ∨ startsWith q (cs "sqlite3.") = true ∨ q = cs "struct.error") := by
  have ha : Allowed E.reg (.construct (.exc q)) := C04_effects_loads E ser fuel lit hv _ h
  have hq : q ∈ closedExcQuals := by
    simpa only [Allowed, ClosedCls, closedClsB, decide_eq_true_eq] using ha
  exact ⟨hq, C04_gen_tables.1 q hq⟩

/-- **C04_fuel_sufficient.**  With the budget `fuelFor lit` the `_ExceptionWrapper` recursion never runs out: the
    model's `fuel` error is not an outcome of `loads` / `loadsCall` (so the budget hides nothing). -/
theorem C04_fuel_sufficient (E : Env) (hook : Bool) (ser : Ser) (lit : Val) (hv : Closed E.reg lit) :
    (loads E ser (fuelFor lit) lit).1 ≠ .error .fuel ∧ (loadsCall E hook ser (fuelFor lit) lit).1 ≠ .error .fuel := by
  have hd : True → depth lit < fuelFor lit := fun _ => Nat.lt_succ_self _
  exact ⟨fun h => (loads_spec E True ser _ lit hv hd).2.2 _ h rfl trivial,
         fun h => (loadsCall_spec E True hook ser _ lit hv hd).2.2 _ h rfl trivial⟩

/-- **Obligation on the extracted table** (`C04_gen_all_exceptions`): every class `all_exceptions` maps to is an
    exception class of vars(builtins) or vars(Pyro5.errors). -/
theorem C04_gen_all_exceptions : ∀ p ∈ allExceptions, p.2 ∈ closedExcQuals := allExceptions_closed

/-- **Obligation** (`C04_gen_struct`): struct.error is an exception class, under that name. -/
theorem C04_gen_struct : structErrorIsException = true ∧ structErrorQual = cs "struct.error" := by decide

/-- **C04_ext_converted.**  On a path that runs msgpack's `ext_hook` (`loads`; `loadsCall` when the probed flag says so), once
    the hook pass over a literal tree succeeds no extension value is left in it: every one was converted to data, and an
    unknown code makes decoding fail (`C04_gen_ext_codes` ties the accepted codes to the real `ext_hook`).  Hence an
    undecoded `msgpack.ExtType` in a decoded value is not an outcome of the model (the oracle reports it as a foreign type). -/
theorem C04_ext_converted (E : Env) (lit w : Val) (hp : plainB lit = true) (h : (applyExt E lit).1 = .ok w) :
    noExtB w = true :=
  (applyExt_noExt E lit hp).1 w h

/-- **Obligation on the extracted probe table** (`C04_gen_probes`): on every one of the fixed probe inputs — one
    well-formed class dict per recognised tag, the refusing branches, every member missing or ill-typed, registry,
    wrappers, all container kinds, lists beyond 1024 items, the call shapes of the four serializers, msgpack extension
    values on both paths, class dicts nested in class dicts (top-down decoding) — the model computes exactly the outcome
    that the REAL `loads` / `loadsCall` produced at extraction time (canonical rendering of the value or error class;
    a recorded audit event never matches).  This replaces reading the if/elif chain: a refactoring that keeps the
    behaviour keeps the table, a change of behaviour on any probe breaks this theorem. -/
theorem C04_gen_probes : probeFailures = [] ∧ 200 ≤ probes.length := by decide +kernel

/-- **Obligation** (`C04_gen_ext_codes`): the extension codes the real `ext_hook` accepts (all 128 codes probed) are
    the four the model converts; and the model's `loadsCall` uses the probed "loadsCall applies ext_hook" flag. -/
theorem C04_gen_ext_codes : extHookAccepted = extCodes := by decide

/-! ### non-vacuity: concrete payloads meet the hypotheses and exercise the accepting and refusing branches -/

def allOk : Ext :=
  { ctorOk := fun _ _ => true, setattrOk := fun _ _ _ => true, floatOk := fun _ => true, uriOk := fun _ => true,
    setOk := fun _ => true, extOk := fun _ _ => true }

def E0 : Env := { reg := [], ext := allOk }
def E1 : Env := { reg := [cs "my.__special__.Thing"], ext := allOk }

/-- `[{"__class__": "ValueError", "__exception__": True, "args": ["hi"], "attributes": {"x_note": {"__class__": "os.system"}}},
      {"__class__": "Pyro5.core._ExceptionWrapper", "exception": {"__class__": "sqlite3.OperationalError", "__exception__": 1, "args": []}}]` -/
def vGood : Val :=
  .list [
    .dict [.str kClass, .str kExcFlag, .str kArgs, .str kAttributes]
      [.str (cs "ValueError"), .atom true "bool.t", .list [.str (cs "hi")],
       .dict [.str (cs "x_note")] [.dict [.str kClass] [.str (cs "os.system")]]],
    .dict [.str kClass, .str kException]
      [.str tWrapper,
       .dict [.str kClass, .str kExcFlag, .str kArgs] [.str (cs "sqlite3.OperationalError"), .atom true "int.1", .list []]]]

def okClosedNotPlain (reg : List Str) (m : M Val) : Bool :=
  match m.1 with
  | .ok w => closedB reg w && !plainB w
  | .error _ => false

def failsWith (m : M Val) (e : Err) : Bool :=
  match m.1 with
  | .ok _ => false
  | .error e' => decide (e' = e)

-- a plain payload is decoded into a value with real instances, all of the closed set; its log is non-empty
example : plainB vGood = true ∧ okClosedNotPlain [] (loads E0 .json (fuelFor vGood) vGood) = true
    ∧ (loads E0 .json (fuelFor vGood) vGood).2 ≠ [] := by decide +kernel

-- the same payload through the call path
example : okClosedNotPlain [] (loadsCall E0 true .msgpack 9 (.list [.str (cs "o"), .str (cs "m"), vGood, .dict [] []])) = true
    ∧ okClosedNotPlain [] (loadsCall E0 false .serpent 9 (.tuple [.str (cs "o"), .str (cs "m"), vGood, .dict [] []])) = true := by
  decide +kernel

-- refusing branches: unknown tag, exception flag on a function / on a non-exception class, dunder tag given as bytes
example : failsWith (loads E0 .marshal 5 (.dict [.str kClass] [.str (cs "os.system")])) .serialize = true
    ∧ failsWith (loads E0 .marshal 5 (.dict [.str kClass, .str kExcFlag, .str kArgs]
          [.str (cs "builtins.eval"), .atom true "bool.t", .list []])) .typeAttr = true
    ∧ failsWith (loads E0 .marshal 5 (.dict [.str kClass, .str kExcFlag, .str kArgs]
          [.str (cs "builtins.int"), .atom true "bool.t", .list []])) .serialize = true
    ∧ failsWith (loads E0 .marshal 5 (.dict [.str kClass] [.bytes [0x61, 0x5f, 0x5f, 0x62]])) .security = true := by
  decide +kernel

-- hypotheses of C04_dunder are satisfiable; the registry wins for its own tag only
example : tagOf [.str kClass] [.str (cs "my.__special__.Thing")] = .ok (cs "my.__special__.Thing")
    ∧ cs "my.__special__.Thing" ∉ E0.reg ∧ ['_', '_'] <:+: cs "my.__special__.Thing" := by
  refine ⟨rfl, by decide, ?_⟩
  exact (hasDunder_iff _).mp (by decide)
example : okClosedNotPlain E1.reg (loads E1 .json 5 (.dict [.str kClass] [.str (cs "my.__special__.Thing")])) = true
    ∧ failsWith (loads E1 .json 5 (.dict [.str kClass] [.str (cs "my.__other__.Thing")])) .security = true := by
  decide +kernel

-- `Allowed` and `Closed` are not trivially true: other imports / getattr targets / constructors / classes are
-- expressible and excluded
example : ¬ Allowed [] (.importMod (cs "os")) := by
  show ¬ (cs "os" = nsSqlite3); decide
example : ¬ Allowed [] (.getattrMod (cs "os") (cs "system")) := by
  show ¬ (cs "os" = nsBuiltins ∨ cs "os" = mErrors ∨ cs "os" = nsSqlite3); decide
example : ¬ Allowed [] (.construct (.exc (cs "subprocess.Popen"))) := by
  show ¬ (closedClsB [] (.exc (cs "subprocess.Popen")) = true); decide +kernel
example : ¬ Allowed [] (.convert (cs "x")) := by
  show ¬ (cs "x" ∈ ([] : List Str)); decide
example : closedB [] (.list [.inst (.exc (cs "os.system")) []]) = false
    ∧ closedB [] (.inst (.custom (cs "x")) []) = false := by decide +kernel

-- KnownTag: the conclusion of C04_unknown is met by concrete accepted tags
example : KnownTag false tProxy ∧ KnownTag true (cs "KeyError") := by
  refine ⟨Or.inl (by decide), Or.inr (Or.inr ⟨rfl, Or.inl ⟨cs "builtins.KeyError", by decide +kernel⟩⟩)⟩

end Pyro.C04
