/-
  C12, client on the wire — `Proxy._pyroInvoke` transcribed from the source on every run
  (`Pyro.Gen.C12Src.pyroInvokeSrc`, harness/props/c12_tr.py) equals the hand-written model
  `Pyro.Context.pyroInvoke` on every state and every call; the client half of the property is proved
  about the model and restated about the transcription.
-/
import PyroModel.Context
import PyroModel.Gen.C12Src

namespace Pyro.C12

open Pyro.Context Pyro.Gen.C12Src

/-- the `except` clause of the source catches exactly the classes the model says (CommunicationError and its
    subclasses, KeyboardInterrupt; not an application exception) -/
theorem C12_handler_translated : handlerCatchesSrc = handlerCatchesModel := by
  funext e; cases e <;> rfl

/-- **C12_pyroInvoke_translated.**  For every client state and every call (whatever the peer sends, whatever is
    still unread on the connection) the transcription of `_pyroInvoke` computes the state the model computes. -/
theorem C12_pyroInvoke_translated (s : CState) (c : WCall) : pyroInvokeSrc s c = pyroInvoke s c := by
  unfold pyroInvokeSrc pyroInvoke invokeBody
  rw [C12_handler_translated]
  rfl

theorem C12_wcall_translated (s : CState) (c : WCall) : wcallSrc s c = wcall s c := by
  unfold wcallSrc wcall; rw [C12_pyroInvoke_translated]

theorem C12_wrun_translated (cs : List WCall) : ∀ s, wrunSrc s cs = wrun s cs := by
  induction cs with
  | nil => intro s; rfl
  | cons c cs ih => intro s; simp only [wrunSrc, wrun, C12_wcall_translated, ih]

theorem tryRelease_ra (f : ExcCls → Bool) (x : CState × Exit) : (tryRelease f x).ra = x.1.ra := by
  obtain ⟨s, e⟩ := x
  cases e with
  | ret => rfl
  | raised e => simp only [tryRelease]; split <;> rfl

/-- the message a call reads: the head of what is unread plus the peer's answer to this very request -/
def readMsg (s : CState) (c : WCall) : Option PeerReply :=
  (s.inbox ++ (c.peer.map (mkReply s.seq)).toList).head?

/-- the `try` block changes the annotations only by accepting the message it read -/
theorem invokeBody_ra (s : CState) (c : WCall) :
    ∀ k ∈ (invokeBody s c).1.ra, k ∈ s.ra ∨
      (∃ r, readMsg s c = some r ∧ r.forCall = s.seq ∧ r.typeOk = true ∧ r.serOk = true ∧
            c.oneway = false ∧ c.interrupted = false ∧ k ∈ r.anns) := by
  intro k hk
  unfold invokeBody at hk
  unfold readMsg
  simp only [sendOp, recvOp] at hk
  cases how : c.oneway
  · cases hi : c.interrupted
    · rw [how, hi] at hk
      simp only [Bool.false_eq_true, if_false] at hk
      cases hl : s.inbox ++ (c.peer.map (mkReply s.seq)).toList with
      | nil => rw [hl] at hk; exact Or.inl hk
      | cons r rest =>
        rw [hl] at hk
        dsimp only at hk
        cases ht : r.typeOk
        · rw [ht] at hk; exact Or.inl hk
        · rw [ht] at hk
          simp only [if_true] at hk
          by_cases hf : r.forCall = s.seq
          · cases hs : r.serOk
            · simp [hf, hs] at hk; exact Or.inl hk
            · by_cases he : r.anns.isEmpty = true
              · left
                simp only [hf, hs, he, bne_self_eq_false, Bool.false_eq_true, if_false, Bool.not_true] at hk
                (repeat' split at hk) <;> exact hk
              · right
                refine ⟨r, by simp, hf, ht, hs, rfl, rfl, ?_⟩
                simp only [hf, hs, he, bne_self_eq_false, Bool.false_eq_true, if_false, Bool.not_true, Bool.not_false,
                  if_true] at hk
                (repeat' split at hk) <;> exact hk
          · have hne : (r.forCall != s.seq) = true := by simp [hf]
            simp only [hne, if_true] at hk
            exact Or.inl hk
    · rw [how, hi] at hk; exact Or.inl hk
  · rw [how] at hk; exact Or.inl hk

/-- the state in which the body of `_pyroInvoke` sends: after release / reset / connect / sequence increment -/
def atSend (s : CState) (c : WCall) : CState :=
  let s := if c.releaseFirst then releaseOp s else s
  let s := { s with ra := [] }
  let s := if s.connected then s else (connectOp s c).1
  { s with seq := nextSeq s.seq 65535 }

/-- a handshake happens inside this call and is accepted -/
def handshakes (s : CState) (c : WCall) : Bool :=
  (c.releaseFirst || !s.connected) && c.hsOk

/-- **C12_client_wire.**  For EVERY client state (connected or not, any unread replies of earlier calls on the
    connection, any annotations left behind) and every call: each annotation the client observes afterwards
    is on the CONNECTOK answer of a handshake made inside this call, or on the message this call read —
    and then that message was accepted: a MSG_RESULT carrying this call's own sequence number and serializer,
    the call was not oneway and its wait was not interrupted.  A rejected, stale or unread reply contributes
    nothing. -/
theorem C12_client_wire (s : CState) (c : WCall) :
    ∀ k ∈ (wcall s c).ra,
      (handshakes s c = true ∧ k ∈ c.hsAnns) ∨
      (∃ r, readMsg (atSend s c) c = some r ∧ r.forCall = (atSend s c).seq ∧ r.typeOk = true ∧ r.serOk = true ∧
            c.oneway = false ∧ c.interrupted = false ∧ k ∈ r.anns) := by
  intro k hk
  unfold wcall pyroInvoke at hk
  unfold atSend handshakes
  generalize hs' : (if c.releaseFirst = true then releaseOp s else s) = s' at hk ⊢
  have hconn : s'.connected = false → (c.releaseFirst || !s.connected) = true := by
    intro h
    cases hr : c.releaseFirst
    · rw [hr] at hs'; simp only [Bool.false_eq_true, if_false] at hs'; rw [hs']; simp [h]
    · rfl
  cases hc : s'.connected
  · simp only [hc, Bool.false_eq_true, if_false] at hk ⊢
    cases hh : c.hsOk
    · simp [connectOp, hh] at hk
    · simp only [connectOp, hh, if_true] at hk ⊢
      rw [tryRelease_ra] at hk
      rcases invokeBody_ra _ c k hk with h | h
      · left
        refine ⟨by rw [hconn hc]; rfl, ?_⟩
        simp only at h
        split at h
        · exact h
        · simp at h
      · right; exact h
  · simp only [hc, if_true] at hk ⊢
    rw [tryRelease_ra] at hk
    rcases invokeBody_ra _ c k hk with h | h
    · simp at h
    · right; exact h

/-- **C12_source_client_wire.**  The same statement about the TRANSCRIPTION of `Proxy._pyroInvoke`: whatever state the
    client is in and whatever the peer does, after the call the client observes only annotations of the handshake answer of
    this call or of the reply this call read and accepted (own sequence number, own serializer, MSG_RESULT). -/
theorem C12_source_client_wire (s : CState) (c : WCall) :
    ∀ k ∈ (wcallSrc s c).ra,
      (handshakes s c = true ∧ k ∈ c.hsAnns) ∨
      (∃ r, readMsg (atSend s c) c = some r ∧ r.forCall = (atSend s c).seq ∧ r.typeOk = true ∧ r.serOk = true ∧
            c.oneway = false ∧ c.interrupted = false ∧ k ∈ r.anns) := by
  rw [C12_wcall_translated]; exact C12_client_wire s c

/-- what is observed after a call does not depend on what earlier calls left in `response_annotations`
    (model and transcription) -/
theorem C12_client_wire_fresh (s : CState) (c : WCall) (x : List Nat) :
    wcall { s with ra := x } c = wcall s c ∧ wcallSrc { s with ra := x } c = wcallSrc s c := by
  have h : wcall { s with ra := x } c = wcall s c := by
    unfold wcall pyroInvoke releaseOp
    cases c.releaseFirst <;> rfl
  exact ⟨h, by rw [C12_wcall_translated, C12_wcall_translated, h]⟩

theorem atSend_seq (s : CState) (c : WCall) : (atSend s c).seq = s.seq + 1 := by
  obtain ⟨conn, seq, inbox, ra⟩ := s
  obtain ⟨rel, hsOk, hsAnns, ow, raw, peer, intr⟩ := c
  cases rel <;> cases conn <;> cases hsOk <;> simp [atSend, releaseOp, connectOp, nextSeq]

theorem atSend_inbox (s : CState) (c : WCall) : ∀ r ∈ (atSend s c).inbox, r ∈ s.inbox := by
  intro r
  obtain ⟨conn, seq, inbox, ra⟩ := s
  obtain ⟨rel, hsOk, hsAnns, ow, raw, peer, intr⟩ := c
  cases rel <;> cases conn <;> cases hsOk <;> simp [atSend, releaseOp, connectOp, nextSeq]

/-- **C12_client_own_reply.**  In every client state in which the unread replies are not newer than the last request
    (kept by every call to a peer that answers with the request's sequence number: `wcall_old`), whatever the peer sends
    now: what the client observes after the call is on this call's handshake answer or on the peer's answer to THIS
    request — never on an unread reply of an earlier call. -/
theorem C12_client_own_reply (s : CState) (c : WCall)
    (hold : ∀ r ∈ s.inbox, r.forCall ≤ s.seq) :
    ∀ k ∈ (wcall s c).ra,
      (handshakes s c = true ∧ k ∈ c.hsAnns) ∨ (∃ p, c.peer = some p ∧ k ∈ p.anns) := by
  intro k hk
  rcases C12_client_wire s c k hk with h | ⟨r, hr, hf, _, _, _, _, hka⟩
  · exact Or.inl h
  · right
    unfold readMsg at hr
    rw [atSend_seq] at hf
    cases hi : (atSend s c).inbox with
    | cons r' rest =>
      rw [hi] at hr
      simp only [List.cons_append, List.head?_cons, Option.some.injEq] at hr
      have := hold r' (atSend_inbox s c r' (by rw [hi]; exact List.mem_cons_self))
      rw [hr] at this; omega
    | nil =>
      rw [hi] at hr
      cases hpe : c.peer with
      | none => rw [hpe] at hr; simp at hr
      | some p =>
        rw [hpe] at hr
        simp only [List.nil_append, Option.map_some, Option.toList_some, List.head?_cons, Option.some.injEq] at hr
        refine ⟨p, rfl, ?_⟩
        rw [← hr] at hka; exact hka

theorem tryRelease_seq (f : ExcCls → Bool) (x : CState × Exit) : (tryRelease f x).seq = x.1.seq := by
  obtain ⟨s, e⟩ := x
  cases e with
  | ret => rfl
  | raised e => simp only [tryRelease]; split <;> rfl

theorem tryRelease_inbox (f : ExcCls → Bool) (x : CState × Exit) : ∀ r ∈ (tryRelease f x).inbox, r ∈ x.1.inbox := by
  obtain ⟨s, e⟩ := x
  intro r
  cases e with
  | ret => exact id
  | raised e => simp only [tryRelease]; split <;> simp [releaseOp]

theorem recvOp_seq (s : CState) (c : WCall) : (recvOp s c).1.seq = s.seq := by
  unfold recvOp
  split
  · rfl
  · split
    · rfl
    · split <;> rfl

theorem recvOp_inbox (s : CState) (c : WCall) : ∀ r ∈ (recvOp s c).1.inbox, r ∈ s.inbox := by
  intro r
  unfold recvOp
  split
  · exact id
  · split
    · exact id
    · rename_i r' rest heq
      split
      · intro h; rw [heq]; exact List.mem_cons_of_mem _ h
      · exact id

theorem invokeBody_seq (s : CState) (c : WCall) : (invokeBody s c).1.seq = s.seq := by
  unfold invokeBody
  simp only
  split
  · rfl
  · have h1 := recvOp_seq (sendOp s c) c
    generalize recvOp (sendOp s c) c = q at h1 ⊢
    obtain ⟨s2, rv⟩ := q
    cases rv with
    | raised e => exact h1
    | msg r =>
      simp only at h1 ⊢
      (repeat' split) <;> exact h1

theorem invokeBody_inbox (s : CState) (c : WCall) :
    ∀ r ∈ (invokeBody s c).1.inbox, r ∈ s.inbox ++ (c.peer.map (mkReply s.seq)).toList := by
  intro r
  unfold invokeBody
  simp only
  split
  · exact id
  · have h1 := recvOp_inbox (sendOp s c) c r
    generalize recvOp (sendOp s c) c = q at h1 ⊢
    obtain ⟨s2, rv⟩ := q
    cases rv with
    | raised e => exact h1
    | msg r' =>
      simp only at h1 ⊢
      (repeat' split) <;> exact h1

/-- the invariant "every unread reply is at most as new as the last request" is kept by every call to an honest peer -/
theorem wcall_old (s : CState) (c : WCall) (hold : ∀ r ∈ s.inbox, r.forCall ≤ s.seq)
    (hp : ∀ p, c.peer = some p → p.seqDelta = 0) :
    ∀ r ∈ (wcall s c).inbox, r.forCall ≤ (wcall s c).seq := by
  have hs := atSend_seq s c
  have hi := atSend_inbox s c
  intro r hr
  unfold wcall pyroInvoke at hr ⊢
  unfold atSend at hs hi
  generalize (if c.releaseFirst = true then releaseOp s else s) = s' at hr hs hi ⊢
  cases hc : s'.connected
  · simp only [hc, Bool.false_eq_true, if_false] at hr hs hi ⊢
    cases hh : c.hsOk
    · simp only [connectOp, hh, Bool.false_eq_true, if_false] at hr hs hi ⊢
      have := hold r (hi r hr); simp only [nextSeq] at hs ⊢; omega
    · simp only [connectOp, hh, if_true] at hr hs hi ⊢
      rw [tryRelease_seq, invokeBody_seq]
      have h2 := invokeBody_inbox _ c r (tryRelease_inbox _ _ r hr)
      simp only [List.nil_append] at h2
      cases hpe : c.peer with
      | none => rw [hpe] at h2; simp at h2
      | some p =>
        rw [hpe] at h2
        simp only [Option.map_some, Option.toList_some, List.mem_singleton] at h2
        rw [h2]; simp only [mkReply, hp p hpe]; omega
  · simp only [hc, if_true] at hr hs hi ⊢
    rw [tryRelease_seq, invokeBody_seq]
    have h2 := invokeBody_inbox _ c r (tryRelease_inbox _ _ r hr)
    simp only [List.mem_append] at h2
    rcases h2 with h2 | h2
    · have := hold r (hi r h2); simp only [nextSeq] at hs ⊢; omega
    · cases hpe : c.peer with
      | none => rw [hpe] at h2; simp at h2
      | some p =>
        rw [hpe] at h2
        simp only [Option.map_some, Option.toList_some, List.mem_singleton] at h2
        rw [h2]; simp only [mkReply, hp p hpe]; omega

/-- pointwise relation between the calls of a history and the states after them -/
def AllCalls (P : WCall → CState → Prop) : List WCall → List CState → Prop
  | [], [] => True
  | c :: cs, s :: ss => P c s ∧ AllCalls P cs ss
  | _, _ => False

/-- **C12_client_history.**  For all histories of calls of one proxy to a peer that answers each request with the request's
    sequence number (any replies lost, unread, rejected for their type or serializer, any releases, reconnects, refused
    handshakes, oneway calls, interrupted waits): after EVERY call the client observes only annotations of that call's own
    handshake answer or of the peer's answer to that very call. -/
theorem C12_client_history (cs : List WCall) (hp : ∀ c ∈ cs, ∀ p, c.peer = some p → p.seqDelta = 0) :
    ∀ (s : CState), (∀ r ∈ s.inbox, r.forCall ≤ s.seq) →
    AllCalls (fun c s' => ∀ k ∈ s'.ra, k ∈ c.hsAnns ∨ ∃ p, c.peer = some p ∧ k ∈ p.anns) cs (wrun s cs) := by
  induction cs with
  | nil => intro s _; exact True.intro
  | cons c cs ih =>
    intro s hold
    simp only [wrun]
    refine ⟨?_, ih (fun c' hc' => hp c' (List.mem_cons_of_mem _ hc')) _
      (wcall_old s c hold (hp c List.mem_cons_self))⟩
    intro k hk
    rcases C12_client_own_reply s c hold k hk with h | h
    · exact Or.inl h.2
    · exact Or.inr h

theorem C12_source_client_history (cs : List WCall) (hp : ∀ c ∈ cs, ∀ p, c.peer = some p → p.seqDelta = 0) :
    AllCalls (fun c s' => ∀ k ∈ s'.ra, k ∈ c.hsAnns ∨ ∃ p, c.peer = some p ∧ k ∈ p.anns) cs
      (wrunSrc { connected := true } cs) := by
  rw [C12_wrun_translated]
  exact C12_client_history cs hp _ (fun _ h => by simp at h)

/-! ### non-vacuity: the history of the seeded defect r5m1 — call 1 is interrupted while waiting, its reply (annotation 4)
    stays unread; call 2 reads it, rejects it (sequence), observes nothing and drops the connection -/
example : (wrun { connected := true } [
      ⟨false, true, [], false, false, some { seqDelta := 0, typeOk := true, serOk := true, anns := [4] }, true⟩,
      ⟨false, true, [], false, false, some { seqDelta := 0, typeOk := true, serOk := true, anns := [5] }, false⟩,
      ⟨false, true, [9], false, false, some { seqDelta := 0, typeOk := true, serOk := true, anns := [6] }, false⟩]).map (fun s => (s.connected, s.ra))
    = [(true, []), (false, []), (true, [6])] := by decide
example : (wrunSrc { connected := true } [
      ⟨false, true, [], false, false, some { seqDelta := 0, typeOk := true, serOk := true, anns := [4] }, true⟩,
      ⟨false, true, [], false, false, some { seqDelta := 0, typeOk := true, serOk := true, anns := [5] }, false⟩]).map (fun s => (s.connected, s.ra))
    = [(true, []), (false, [])] := by decide

end Pyro.C12
