/-
  C15 — the operations of the atomicity theorems are the SOURCE's operations.

  harness/props/c15.py:extract (translator: harness/props/c14_tr.py, C14's, used read-only) transcribes `NameServer.count /
  lookup / register / set_metadata / remove / list / yplookup` from Pyro5/nameserver.py into PyroModel/Gen/C15Src.lean on every
  run (`nsStepSrc`); PyroProofs/NsSrcTr.lean proves `nsStepSrc = nsStep` (C14's hand-written methods over the storage interface) on
  every back-end meeting the storage contract.  This file
    * embeds C15's small operation model (PyroModel/NsOps.lean: names, numbered uris, numbered tags) into the
      vocabulary of that transcription and proves, for every call and every well-formed map, that the transcribed
      method run on the transcribed `MemoryStorage` computes exactly what `NsOps.apply` computes
      (`C15_ops_translated`, histories: `C15_source_seq_translated`);
    * instantiates the interleaving semantics with the transcribed methods themselves (`srcOp`: any `NS.Op`, any
      argument, including the regex / metadata forms NsOps does not have) and restates the property theorems about
      them (`C15_source_…`).
-/
import PyroModel.NsOps
import PyroModel.NsOpsEmb
import PyroProofs.Lock
import PyroProofs.NSMem
import PyroProofs.NsSrcTr
import PyroModel.Gen.C15Src
import PyroProps.C15

namespace Pyro.C15

open Pyro Pyro.Lock Pyro.NsOps

/-! ### the embedding of NsOps into the transcription's vocabulary -/

/-- the tag collection of a call has no repetitions (the driver and the harness hand over sets) -/
def TagsOK : Call → Prop
  | .register _ _ _ tags => tags.Nodup
  | .setMeta _ tags => tags.Nodup
  | _ => True

/-- a map: names pairwise distinct, tag lists without repetition -/
def WF (s : Store) : Prop := (s.map (·.1)).Nodup ∧ ∀ e ∈ s, e.2.2.Nodup

/-! ### list lemmas -/

theorem single_inj : Function.Injective single := by
  intro a b h; simpa [single] using h

theorem nodup_map_single {l : List Nat} (h : l.Nodup) : (l.map single).Nodup :=
  List.Pairwise.map single (fun _ _ hab hh => hab (single_inj hh)) h

theorem dedup_of_nodup : ∀ {l : NS.Tags}, l.Nodup → NS.dedup l = l
  | [], _ => rfl
  | a :: l, h => by
    have h' := List.nodup_cons.mp h
    simp only [NS.dedup, dedup_of_nodup h'.2]
    congr 1
    apply List.filter_eq_self.mpr
    intro b hb
    simp only [bne_iff_ne, ne_eq]
    intro hba; subst hba; exact h'.1 hb

theorem storedTags_emb {tags : List Nat} (h : tags.Nodup) : NS.storedTags (embMeta tags) = tags.map single := by
  cases tags with
  | nil => simp [NS.storedTags, embMeta, NS.MetaArg.truthy]
  | cons a l =>
    simp only [NS.storedTags, embMeta, NS.MetaArg.truthy, NS.MetaArg.tags, List.map_cons, List.isEmpty_cons,
      Bool.not_false, if_true]
    exact dedup_of_nodup (l := single a :: l.map single) (by simpa using nodup_map_single h)

theorem any_emb (s : Store) (n : Name) : (embS s).any (·.name == n) = s.has n := by
  induction s with
  | nil => rfl
  | cons e r ih =>
    simp only [embS, List.map_cons, List.any_cons, Store.has] at ih ⊢
    rw [ih]; by_cases h : e.1 = n <;> simp [embE, h]

theorem find_emb (s : Store) (n : Name) :
    (embS s).find? (·.name == n) = (s.find? (·.1 = n)).map embE := by
  induction s with
  | nil => rfl
  | cons e r ih =>
    simp only [embS, List.map_cons] at ih ⊢
    by_cases h : e.1 = n
    · simp [List.find?_cons, embE, h]
    · have h1 : ((embE e).name == n) = false := by simp [embE, h]
      rw [List.find?_cons, h1, ih, List.find?_cons]; simp [h]

theorem del_emb (s : Store) (n : Name) : (embS s).filter (·.name != n) = embS (Store.del s n) := by
  induction s with
  | nil => rfl
  | cons e r ih =>
    simp only [embS, List.map_cons, Store.del] at ih ⊢
    by_cases h : e.1 = n
    · have h1 : ((embE e).name != n) = false := by simp [embE, h]
      rw [List.filter_cons, h1, ih, List.filter_cons]; simp [h]
    · have h1 : ((embE e).name != n) = true := by simp [embE, h]
      rw [List.filter_cons, h1, ih, List.filter_cons]; simp [h]

/-- dict assignment on a map with distinct names, said the way `MemoryStorage` (a dict) does it -/
theorem set_eq : ∀ (s : Store) (n : Name) (v : Nat × List Nat), (s.map (·.1)).Nodup →
    Store.set s n v = if s.has n then s.map (fun e => if e.1 = n then (n, v) else e) else s ++ [(n, v)]
  | [], n, v, _ => by simp [Store.set, Store.has]
  | (k, w) :: r, n, v, hk => by
    have hk2 : (k :: r.map (·.1)).Nodup := hk
    have hk' := List.nodup_cons.mp hk2
    simp only [Store.set]
    by_cases h : k = n
    · subst h
      have hr : r.map (fun e => if e.1 = k then (k, v) else e) = r := by
        conv => rhs; rw [← List.map_id r]
        apply List.map_congr_left
        intro e he
        have : e.1 ≠ k := fun hh => hk'.1 (hh ▸ List.mem_map_of_mem (f := (·.1)) he)
        simp [this]
      simp [Store.has, hr]
    · have ih := set_eq r n v hk'.2
      have hh : Store.has ((k, w) :: r) n = Store.has r n := by simp [Store.has, h]
      rw [if_neg h, hh, ih]
      cases hr : Store.has r n <;> simp [h]

theorem memSet_emb (s : Store) (n : Name) (u : Nat) (t : List Nat) (hk : (s.map (·.1)).Nodup) :
    NS.memSet n [u] (t.map single) (embS s) = embS (Store.set s n (u, t)) := by
  rw [NS.memSet, any_emb, set_eq s n (u, t) hk]
  cases hs : s.has n
  · simp [embS, embE]
  · simp only [if_true, embS, List.map_map]
    apply List.map_congr_left
    intro e _
    by_cases h : e.1 = n <;> simp [embE, h]

theorem isPrefix_eq : ∀ (p n : Name), isPrefix p n = p.isPrefixOf n
  | [], _ => by simp [isPrefix]
  | _ :: _, [] => by simp [isPrefix]
  | a :: p, b :: n => by simp [isPrefix, List.isPrefixOf, isPrefix_eq p n]

theorem find_self {s : Store} (hk : (s.map (·.1)).Nodup) : ∀ e ∈ s, s.find? (·.1 = e.1) = some e := by
  induction s with
  | nil => intro e he; cases he
  | cons a r ih =>
    intro e he
    have hk2 : (a.1 :: r.map (·.1)).Nodup := hk
    have hk' := List.nodup_cons.mp hk2
    rcases List.mem_cons.mp he with rfl | her
    · simp
    · have hne : a.1 ≠ e.1 := fun hh => hk'.1 (hh ▸ List.mem_map_of_mem (f := (·.1)) her)
      rw [List.find?_cons]; simp [hne, ih hk'.2 e her]

/-- the loop of `NameServer.list` over a dict whose names are distinct: every listed name is found again -/
theorem collect_emb (s : Store) (pred : Name → Bool) (hk : (s.map (·.1)).Nodup) :
    ∀ (l : List (Name × Nat × List Nat)), (∀ e ∈ l, e ∈ s) →
    NS.collect NS.memStore pred false (l.map (·.1)) (embS s)
      = (.listing ((l.filter fun e => pred e.1).map fun e => ⟨e.1, [e.2.1], []⟩), embS s)
  | [], _ => by simp [NS.collect]
  | e :: l, hl => by
    have ih := collect_emb s pred hk l (fun x hx => hl x (List.mem_cons_of_mem _ hx))
    have hf : NS.memStore.getItem e.1 (embS s) = (some (some (embE e)), embS s) := by
      simp [NS.memStore, find_emb, find_self hk e (hl e List.mem_cons_self)]
    simp only [List.map_cons, NS.collect]
    cases hp : pred e.1
    · simp only [Bool.false_eq_true, if_false, ih, List.filter_cons, hp]
    · simp only [if_true, hf, ih, List.filter_cons, hp, List.map_cons]
      simp [NS.Entry.strip, embE]

theorem memRemoveItems_emb : ∀ (items : List Name) (s : Store),
    NS.memRemoveItems items (embS s) = embS (items.foldl (fun st it => if st.has it then st.del it else st) s)
  | [], _ => rfl
  | it :: items, s => by
    simp only [NS.memRemoveItems, List.foldl_cons, any_emb]
    cases h : s.has it
    · simpa using memRemoveItems_emb items s
    · simp only [if_true, del_emb]; exact memRemoveItems_emb items (s.del it)

/-! ### the hand-written operation model against the hand-written method model (C14's `nsStep`) -/

theorem truthy_cons (a : Nat) (l : List Nat) : NS.truthy? (some (a :: l)) = some (a :: l) := rfl

theorem model_eq_nsStep (env : NS.Env) (henv : ∀ u, env.uriOk u = true) (c : Call) (s : Store)
    (hc : TagsOK c) (hk : (s.map (·.1)).Nodup) :
    NS.nsStep NS.memStore env (embC c) (embS s) = (embR (apply c s).2, embS (apply c s).1) := by
  cases c with
  | register n u safe tags =>
    simp only [embC, NS.nsStep, henv, Bool.not_true, Bool.false_eq_true, if_false, embMeta, NS.MetaArg.isStr,
      apply, toOp, Op.run, runSteps, body, List.foldl_cons, List.foldl_nil]
    have ht : NS.storedTags (NS.MetaArg.list (tags.map single)) = tags.map single := storedTags_emb hc
    rw [ht]
    cases safe
    · simp [NS.call, NS.memStore, memSet_emb s n u tags hk, embR]
    · cases h : s.has n
      · simp [NS.call, NS.memStore, any_emb, h, memSet_emb s n u tags hk, embR]
      · simp [NS.call, NS.memStore, any_emb, h, embR]
  | setMeta n tags =>
    simp only [embC, NS.nsStep, embMeta, NS.MetaArg.isStr, Bool.false_eq_true, if_false,
      apply, toOp, Op.run, runSteps, body, List.foldl_cons, List.foldl_nil]
    have ht : NS.storedTags (NS.MetaArg.list (tags.map single)) = tags.map single := storedTags_emb hc
    rw [ht]
    simp only [NS.call, NS.memStore, find_emb, Store.get]
    cases hf : s.find? (·.1 = n) with
    | none => simp [embR]
    | some e =>
      obtain ⟨k, u, t⟩ := e
      simp [embE, memSet_emb s n u tags hk, embR]
  | remove n =>
    cases n with
    | nil => simp [embC, NS.nsStep, NS.truthy?, apply, toOp, Op.run, runSteps, body, embR]
    | cons a l =>
      simp only [embC, NS.nsStep, truthy_cons, NS.call, NS.memStore, any_emb,
        apply, toOp, Op.run, runSteps, body, List.foldl_cons, List.foldl_nil, List.isEmpty_cons, Bool.not_false,
        Bool.true_and]
      have hn : NS.nsName = nsName := rfl
      cases h : Store.has s (a :: l) <;> cases h2 : (a :: l != nsName)
      all_goals simp [h, h2, hn, NS.truthy?, embR, any_emb, del_emb]
  | removePrefix p =>
    cases p with
    | nil => simp [embC, NS.nsStep, NS.truthy?, apply, toOp, Op.run, runSteps, body, embR]
    | cons a l =>
      have hcol := collect_emb s (fun n => (a :: l).isPrefixOf n) hk s (fun _ h => h)
      have hn : NS.nsName = nsName := rfl
      simp only [embC, NS.nsStep, NS.truthy?, truthy_cons, NS.nsRemoveListed, NS.nsList, NS.call, NS.memStore]
      have hcol' : NS.collect NS.memStore (fun n => (a :: l).isPrefixOf n) false (List.map (fun x => x.name) (embS s)) (embS s)
          = (.listing ((s.filter fun e => (a :: l).isPrefixOf e.1).map fun e => ⟨e.1, [e.2.1], []⟩), embS s) := by
        have : List.map (fun x => x.name) (embS s) = s.map (·.1) := by simp [embS, embE]
        rw [this]; exact hcol
      simp only [NS.memStore] at hcol'
      rw [hcol']
      simp only [apply, toOp, Op.run, runSteps, body, List.isEmpty_cons, Bool.false_eq_true, if_false, listStep,
        List.foldl_cons, List.foldl_nil, List.map_map, hn, memRemoveItems_emb, embR]
      have hfil : (s.filter fun e => isPrefix (a :: l) e.1) = s.filter fun e => (a :: l).isPrefixOf e.1 := by
        congr 1; funext e; exact isPrefix_eq _ _
      have hmap : (List.map ((fun x : NS.Entry => x.name) ∘ fun e : Name × Nat × List Nat => (⟨e.1, [e.2.1], []⟩ : NS.Entry))
          (s.filter fun e => (a :: l).isPrefixOf e.1)) = (s.filter fun e => (a :: l).isPrefixOf e.1).map (·.1) := by
        apply List.map_congr_left; intro e _; rfl
      rw [hfil, hmap]
      have hflt : ∀ (xs : List Name), xs.filter (fun x => x != nsName) = xs.filter (fun x => decide (x ≠ nsName)) := by
        intro xs; apply List.filter_congr; intro x _; by_cases hx : x = nsName <;> simp [hx]
      simp [hflt]
  | lookup n =>
    simp only [embC, NS.nsStep, NS.call, NS.memStore, find_emb, apply, toOp, Op.run, runSteps, body,
      List.foldl_cons, List.foldl_nil, Store.get]
    cases hf : s.find? (·.1 = n) with
    | none => simp [embR]
    | some e => obtain ⟨k, u, t⟩ := e; simp [embE, henv, embR]
  | count => simp [embC, NS.nsStep, NS.call, NS.memStore, apply, toOp, Op.run, runSteps, body, embR, embS]
  | list p =>
    cases p with
    | nil =>
      simp [embC, NS.nsStep, NS.nsList, NS.truthy?, NS.call, NS.memStore, apply, toOp, Op.run, runSteps, body,
        listStep, isPrefix, embR, embS]
      rw [List.filter_eq_self.mpr (fun _ _ => rfl)]
      apply List.map_congr_left; intro e _; simp [NS.Entry.strip, embE]
    | cons a l =>
      have hcol := collect_emb s (fun n => (a :: l).isPrefixOf n) hk s (fun _ h => h)
      have hnm : List.map (fun x => x.name) (embS s) = s.map (·.1) := by simp [embS, embE]
      simp only [embC, NS.nsStep, NS.nsList, NS.truthy?, NS.call, NS.memStore, hnm]
      simp only [NS.memStore] at hcol
      rw [hcol]
      have hfil : (s.filter fun e => isPrefix (a :: l) e.1) = s.filter fun e => (a :: l).isPrefixOf e.1 := by
        congr 1; funext e; exact isPrefix_eq _ _
      simp [apply, toOp, Op.run, runSteps, body, listStep, embR, hfil]

/-! ### well-formedness is kept by every operation -/

theorem keys_set : ∀ (s : Store) (n : Name) (v : Nat × List Nat),
    (Store.set s n v).map (·.1) = if s.has n then s.map (·.1) else s.map (·.1) ++ [n]
  | [], n, v => by simp [Store.set, Store.has]
  | (k, w) :: r, n, v => by
    simp only [Store.set]
    by_cases h : k = n
    · subst h; simp [Store.has]
    · have hh : Store.has ((k, w) :: r) n = Store.has r n := by simp [Store.has, h]
      rw [if_neg h, hh, List.map_cons, keys_set r n v]
      cases Store.has r n <;> simp

theorem mem_set : ∀ (s : Store) (n : Name) (v : Nat × List Nat) (e), e ∈ Store.set s n v → e ∈ s ∨ e = (n, v)
  | [], n, v, e, h => by simp [Store.set] at h; exact Or.inr h
  | (k, w) :: r, n, v, e, h => by
    simp only [Store.set] at h
    by_cases hk : k = n
    · rw [if_pos hk] at h
      rcases List.mem_cons.mp h with h | h
      · exact Or.inr h
      · exact Or.inl (List.mem_cons_of_mem _ h)
    · rw [if_neg hk] at h
      rcases List.mem_cons.mp h with h | h
      · exact Or.inl (h ▸ List.mem_cons_self)
      · rcases mem_set r n v e h with h | h
        · exact Or.inl (List.mem_cons_of_mem _ h)
        · exact Or.inr h

theorem wf_set {s : Store} (hw : WF s) (n : Name) (v : Nat × List Nat) (hv : v.2.Nodup) : WF (Store.set s n v) := by
  refine ⟨?_, ?_⟩
  · rw [keys_set]
    cases h : s.has n
    · simp only [Bool.false_eq_true, if_false]
      refine List.nodup_append.mpr ⟨hw.1, by simp, ?_⟩
      intro a ha b hb
      simp only [List.mem_singleton] at hb
      subst hb
      intro hab; subst hab
      obtain ⟨e, he, hea⟩ := List.mem_map.mp ha
      have : s.any (fun x => decide (x.1 = a)) = true := List.any_eq_true.mpr ⟨e, he, by simp [hea]⟩
      simp [Store.has, this] at h
    · simpa using hw.1
  · intro e he
    rcases mem_set s n v e he with h | h
    · exact hw.2 e h
    · subst h; exact hv

theorem wf_del {s : Store} (hw : WF s) (n : Name) : WF (Store.del s n) :=
  ⟨List.Pairwise.sublist (List.Sublist.map _ List.filter_sublist) hw.1,
   fun e he => hw.2 e (List.mem_filter.mp he).1⟩

theorem wf_foldl_del : ∀ (items : List Name) {s : Store}, WF s →
    WF (items.foldl (fun st it => if st.has it then st.del it else st) s)
  | [], _, hw => hw
  | it :: items, s, hw => by
    simp only [List.foldl_cons]
    cases s.has it
    · simpa using wf_foldl_del items hw
    · simpa using wf_foldl_del items (wf_del hw it)

theorem wf_nil : WF [] := ⟨by simp, by simp⟩

theorem wf_apply {s : Store} (hw : WF s) (c : Call) (hc : TagsOK c) : WF (apply c s).1 := by
  cases c with
  | register n u safe tags =>
    simp only [apply, toOp, Op.run, runSteps, body, List.foldl_cons, List.foldl_nil]
    cases (safe && s.has n)
    · simpa using wf_set hw n (u, tags) hc
    · simpa using hw
  | setMeta n tags =>
    simp only [apply, toOp, Op.run, runSteps, body, List.foldl_cons, List.foldl_nil]
    cases hg : s.get n with
    | none => simpa using hw
    | some v => obtain ⟨u, t⟩ := v; simpa using wf_set hw n (u, tags) hc
  | remove n =>
    simp only [apply, toOp, Op.run, runSteps, body, List.foldl_cons, List.foldl_nil]
    cases (!n.isEmpty && s.has n && n != nsName)
    · simpa using hw
    · simpa using wf_del hw n
  | removePrefix p =>
    simp only [apply, toOp, Op.run, runSteps, body]
    cases hp : p.isEmpty
    · simpa [List.foldl, listStep] using wf_foldl_del _ hw
    · simpa [List.foldl] using hw
  | lookup n =>
    simp only [apply, toOp, Op.run, runSteps, body, List.foldl_cons, List.foldl_nil]
    cases hg : s.get n with
    | none => simpa using hw
    | some v => obtain ⟨u, t⟩ := v; simpa using hw
  | count => simpa [apply, toOp, Op.run, runSteps, body] using hw
  | list p => simpa [apply, toOp, Op.run, runSteps, body, listStep] using hw

theorem specInv_emb {s : Store} (hw : WF s) : NS.SpecInv (embS s) := by
  refine ⟨?_, ?_⟩
  · have h1 : List.Pairwise (fun a b : Name × Nat × List Nat => a.1 ≠ b.1) s := List.pairwise_map.mp hw.1
    exact List.Pairwise.map embE (fun _ _ h => h) h1
  · intro e he
    obtain ⟨x, hx, rfl⟩ := List.mem_map.mp he
    exact nodup_map_single (hw.2 x hx)

/-! ### the transcription of the source -/

/-- **C15_ops_translated.**  For every call of the operation model (register safe / unsafe with tags, set_metadata, remove by
    name, remove by prefix, lookup, count, list by prefix), every map with distinct names and every environment in which the
    stored uris parse: the METHOD AS TRANSCRIBED FROM nameserver.py, run on the transcribed in-memory storage, returns exactly
    the result and leaves exactly the map that the hand-written `NsOps.apply` computes. -/
theorem C15_ops_translated (env : NS.Env) (henv : ∀ u, env.uriOk u = true) (c : Call) (s : Store)
    (hc : TagsOK c) (hw : WF s) :
    Pyro.Gen.C15Src.nsStepSrc NS.memStore env (embC c) (embS s) = (embR (apply c s).2, embS (apply c s).1) := by
  rw [Pyro.C15.Tr.C14_ns_translated NS.mem_storeOK env (embC c) (embS s) trivial (specInv_emb hw)]
  exact model_eq_nsStep env henv c s hc hw.1

/-- a transcribed method as an operation of the interleaving semantics: it runs while holding `NameServer.lock` (premise:
    `C15_source_every_access_locked`); `o` is ANY call the method accepts, `s` any dict -/
def srcOp (env : NS.Env) (o : NS.Op) : Lock.Op NS.MemDb NS.Res NS.Res :=
  { init := .none, steps := [fun _ s => Pyro.Gen.C15Src.nsStepSrc NS.memStore env o s], result := id }

theorem srcOp_run (env : NS.Env) (o : NS.Op) (s : NS.MemDb) :
    (srcOp env o).run s = ((Pyro.Gen.C15Src.nsStepSrc NS.memStore env o s).2, (Pyro.Gen.C15Src.nsStepSrc NS.memStore env o s).1) := rfl

/-- **C15_source_seq_translated.**  Whole sequential histories: running the transcribed methods one after the other from a
    well-formed map gives the embedded results and the embedded final map of the model's sequential run. -/
theorem C15_source_seq_translated (env : NS.Env) (henv : ∀ u, env.uriOk u = true) :
    ∀ (calls : List Call) (s : Store), (∀ c ∈ calls, TagsOK c) → WF s →
      seqRun (calls.map fun c => srcOp env (embC c)) (embS s)
        = (embS (seqRun (calls.map toOp) s).1, (seqRun (calls.map toOp) s).2.map embR)
  | [], _, _, _ => rfl
  | c :: cs, s, hc, hw => by
    have h1 := C15_ops_translated env henv c s (hc c List.mem_cons_self) hw
    have ih := C15_source_seq_translated env henv cs (apply c s).1
      (fun x hx => hc x (List.mem_cons_of_mem _ hx)) (wf_apply hw c (hc c List.mem_cons_self))
    simp only [List.map_cons, seqRun, srcOp_run, h1]
    simp only [apply] at ih ⊢
    rw [ih]

/-- **C15_source_linearizable.**  `C15_linearizable` about the source's own operations: for every initial dict, every list of
    concurrent calls of the transcribed methods (any arguments) and every schedule, the completed calls took effect one at a
    time in lock-release order, and every thread's bookkeeping is consistent. -/
theorem C15_source_linearizable (env : NS.Env) (s0 : NS.MemDb) (ops : List NS.Op) (schedule : List Nat) :
    let c := run (Config.init s0 (ops.map (srcOp env))) schedule
    Inv s0 c ∧ Book (ops.map (srcOp env)) c :=
  ⟨atomic s0 _ schedule, book s0 _ schedule⟩

/-- **C15_source_results_explained.**  Every completed call of a transcribed method returned what the sequential execution
    of the release-order log returns at its position. -/
theorem C15_source_results_explained (env : NS.Env) (s0 : NS.MemDb) (ops : List NS.Op) (schedule : List Nat) (t : Nat) (r : NS.Res)
    (hdone : (run (Config.init s0 (ops.map (srcOp env))) schedule).threads[t]? = some (TState.done r)) :
    let c := run (Config.init s0 (ops.map (srcOp env))) schedule
    ∃ (i : Nat) (op : Op NS.MemDb NS.Res NS.Res), c.log[i]? = some (t, op, r) ∧ (ops.map (srcOp env))[t]? = some op ∧
      (seqRun (c.log.map (·.2.1)) s0).2[i]? = some r := by
  intro c
  have hb := book s0 (ops.map (srcOp env)) schedule
  have hi := atomic s0 (ops.map (srcOp env)) schedule
  obtain ⟨op, hm⟩ := hb.done_logged t r hdone
  obtain ⟨i, hi1, hi2⟩ := List.getElem_of_mem hm
  refine ⟨i, op, ?_, (hb.logged _ hm).1, ?_⟩
  · rw [List.getElem?_eq_getElem hi1, hi2]
  · rw [← hi.results, List.getElem?_map, List.getElem?_eq_getElem hi1, hi2]; rfl

/-- **C15_source_failed_no_effect.**  A transcribed method that answers with the naming error leaves the dict as it was. -/
theorem C15_source_failed_no_effect (env : NS.Env) (henv : ∀ u, env.uriOk u = true) (c : Call) (s : Store)
    (hc : TagsOK c) (hw : WF s)
    (h : (Pyro.Gen.C15Src.nsStepSrc NS.memStore env (embC c) (embS s)).1 = .err .naming) :
    (Pyro.Gen.C15Src.nsStepSrc NS.memStore env (embC c) (embS s)).2 = embS s := by
  rw [C15_ops_translated env henv c s hc hw] at h ⊢
  have hr : (apply c s).2 = .namingError := by
    generalize (apply c s).2 = r at h
    cases r <;> simp [embR] at h ⊢
  simp only
  rw [C15_failed_no_effect c s hr]

/-- the operations in the release-order log are calls of the given list -/
theorem log_calls {S L R : Type} (f : Call → Op S L R) (s0 : S) (calls : List Call) (schedule : List Nat) :
    ∃ lc : List Call, (run (Config.init s0 (calls.map f)) schedule).log.map (·.2.1) = lc.map f ∧ ∀ x ∈ lc, x ∈ calls := by
  have hb := book s0 (calls.map f) schedule
  have : ∀ (lg : List (Nat × Op S L R × R)), (∀ e ∈ lg, (calls.map f)[e.1]? = some e.2.1) →
      ∃ lc : List Call, lg.map (·.2.1) = lc.map f ∧ ∀ x ∈ lc, x ∈ calls := by
    intro lg
    induction lg with
    | nil => intro _; exact ⟨[], rfl, by simp⟩
    | cons e es ih =>
      intro hl
      obtain ⟨lc, h1, h2⟩ := ih (fun e' he' => hl e' (List.mem_cons_of_mem _ he'))
      have he := hl e List.mem_cons_self
      rw [List.getElem?_map] at he
      cases hc : calls[e.1]? with
      | none => rw [hc] at he; cases he
      | some cl =>
        rw [hc] at he
        simp only [Option.map_some, Option.some.injEq] at he
        refine ⟨cl :: lc, by simp [h1, he], ?_⟩
        intro x hx
        rcases List.mem_cons.mp hx with rfl | hx
        · exact List.mem_of_getElem? hc
        · exact h2 x hx
  exact this _ (fun e he => (hb.logged e he).1)

/-- **C15_source_safe_register_once.**  Any number of clients concurrently calling the transcribed `register(name, …,
    safe=True)` for one name that is not registered, under any schedule: the results of the calls completed so far, in
    release order, are `None, NamingError, NamingError, …` — exactly one success as soon as one call has completed. -/
theorem C15_source_safe_register_once (env : NS.Env) (henv : ∀ u, env.uriOk u = true) (s0 : Store) (hw : WF s0)
    (n : Name) (calls : List Call) (schedule : List Nat)
    (hall : ∀ c ∈ calls, ∃ u t, c = .register n u true t ∧ t.Nodup) (hs : s0.has n = false) :
    let c := run (Config.init (embS s0) (calls.map fun c => srcOp env (embC c))) schedule
    c.log.map (·.2.2) = match c.log.length with
      | 0 => []
      | j + 1 => NS.Res.none :: List.replicate j (NS.Res.err .naming) := by
  intro c
  have hi := atomic (embS s0) (calls.map fun c => srcOp env (embC c)) schedule
  obtain ⟨lc, hlc1, hlc2⟩ := log_calls (fun c => srcOp env (embC c)) (embS s0) calls schedule
  have hlen : c.log.length = lc.length := by
    have := congrArg List.length hlc1; simp only [List.length_map] at this; exact this
  have htags : ∀ x ∈ lc, TagsOK x := by
    intro x hx; obtain ⟨u, t, rfl, ht⟩ := hall x (hlc2 x hx); exact ht
  have hreg : ∀ x ∈ lc, ∃ u t, x = .register n u true t := by
    intro x hx; obtain ⟨u, t, h, _⟩ := hall x (hlc2 x hx); exact ⟨u, t, h⟩
  rw [hi.results, hlc1, C15_source_seq_translated env henv lc s0 htags hw, hlen, seq_regsafe_absent n lc hreg s0 hs]
  cases lc with
  | nil => rfl
  | cons x xs => simp [regPattern, embR, Function.comp_def, List.map_const']

/-- **C15_source_remove_once.**  Concurrent calls of the transcribed `remove(name)` for one registered name under any
    schedule: in release order the results are `1, 0, 0, …` — a total of exactly one removed entry, and no call fails. -/
theorem C15_source_remove_once (env : NS.Env) (henv : ∀ u, env.uriOk u = true) (s0 : Store) (hw : WF s0)
    (n : Name) (k : Nat) (schedule : List Nat)
    (hne : n.isEmpty = false) (hns : (n != nsName) = true) (hs : s0.has n = true) :
    let c := run (Config.init (embS s0) ((List.replicate k (Call.remove n)).map fun c => srcOp env (embC c))) schedule
    c.log.map (·.2.2) = match c.log.length with
      | 0 => []
      | j + 1 => NS.Res.num 1 :: List.replicate j (NS.Res.num 0) := by
  intro c
  have hi := atomic (embS s0) ((List.replicate k (Call.remove n)).map fun c => srcOp env (embC c)) schedule
  obtain ⟨lc, hlc1, hlc2⟩ := log_calls (fun c => srcOp env (embC c)) (embS s0) (List.replicate k (Call.remove n)) schedule
  have hlen : c.log.length = lc.length := by
    have := congrArg List.length hlc1; simp only [List.length_map] at this; exact this
  have hrep : lc = List.replicate lc.length (Call.remove n) :=
    List.eq_replicate_iff.mpr ⟨rfl, fun x hx => (List.mem_replicate.mp (hlc2 x hx)).2⟩
  have htags : ∀ x ∈ lc, TagsOK x := by
    intro x hx; rw [(List.mem_replicate.mp (hlc2 x hx)).2]; trivial
  rw [hi.results, hlc1, C15_source_seq_translated env henv lc s0 htags hw, hlen, hrep]
  cases hl : lc.length with
  | zero => simp [seqRun]
  | succ j =>
    rw [seq_remove_present n j s0 hne hns hs]
    simp [embR]

/-! ### non-vacuity: the transcription evaluated -/

private def envT : NS.Env := ⟨fun _ => true, fun _ => true, fun _ _ => false⟩
private def sB : Store := [([97], 1, []), ([97, 98], 2, [7])]
example : WF sB := ⟨by decide, by decide⟩
example : Pyro.Gen.C15Src.nsStepSrc NS.memStore envT (embC (.removePrefix [97])) (embS sB) = (.num 2, []) := by decide
example : Pyro.Gen.C15Src.nsStepSrc NS.memStore envT (embC (.register [97] 5 true [3])) (embS sB) = (.err .naming, embS sB) := by decide
example : ((run (Config.init (embS sB) ([Call.remove [97], Call.remove [97]].map fun c => srcOp envT (embC c)))
    [1, 0, 1, 1, 0, 0, 0]).log.map (fun e => (e.1, e.2.2))) = [(1, NS.Res.num 1), (0, NS.Res.num 0)] := by decide

end Pyro.C15
