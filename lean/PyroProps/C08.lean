/-
  C08 — Nothing is invoked on a connection before an accepted handshake.
  Theorems about `PyroModel.Server` (handshake, handleRequest, per-connection life cycle of both
  transports).  Quantifiers: every first item (any message type, any serializer id, any payload
  shape, any validator behaviour, unknown objects, garbage, cut, timeout), every sequence of items
  pipelined behind it, every interleaving of events of any number of connections.
-/
import PyroModel.Server
import PyroModel.Gen.C08

namespace Pyro.C08

open Pyro.Server

/-- the first thing ever sent to the peer is a CONNECTOK -/
def AcceptedFirst (c : Conn) : Prop := ∃ r rest, c.outbox = r :: rest ∧ r.type = MSG_CONNECTOK

structure Inv (c : Conn) : Prop where
  fresh : c.phase = .fresh → c.outbox = [] ∧ c.execs = []
  active : c.phase = .active → AcceptedFirst c
  execs : c.execs ≠ [] → AcceptedFirst c

/-- **C08_accept_iff.**  The handshake succeeds exactly for a CONNECT message with a known
    serializer whose payload is a well-formed handshake for a registered object that the validator
    accepted; in that case, and only then, the reply is CONNECTOK. -/
theorem C08_accept_iff (it : Item) :
    (handshake it).2 = true ↔
      ∃ m, it = .msg m ∧ m.type = MSG_CONNECT ∧ knownSerializer m.serId = true ∧
        m.body = .handshake true true .accept := by
  constructor
  · intro h
    cases it with
    | cut => simp [handshake] at h
    | garbage => simp [handshake] at h
    | timeout => simp [handshake] at h
    | msg m =>
      simp only [handshake] at h
      by_cases h1 : m.type ≠ MSG_CONNECT
      · rw [if_pos h1] at h; simp at h
      · rw [if_neg h1] at h
        by_cases h2 : (!knownSerializer m.serId) = true
        · rw [if_pos h2] at h; simp at h
        · rw [if_neg h2] at h
          refine ⟨m, rfl, by simpa using h1, by simpa using h2, ?_⟩
          cases hb : m.body with
          | undecodable _ => rw [hb] at h; simp at h
          | call t => rw [hb] at h; simp at h
          | handshake wf ok v =>
            rw [hb] at h
            cases wf <;> cases ok <;> cases v <;> simp at h ⊢
  · rintro ⟨m, rfl, h1, h2, h3⟩
    simp [handshake, h1, h2, h3]

theorem handshake_reply (it : Item) :
    ((handshake it).2 = true → ∃ r, (handshake it).1 = some r ∧ r.type = MSG_CONNECTOK) ∧
    ((handshake it).2 = false →
        (it = .cut ∧ (handshake it).1 = none) ∨
        ∃ r, (handshake it).1 = some r ∧ r.type = MSG_CONNECTFAIL) := by
  cases it with
  | cut => simp [handshake]
  | garbage => simp [handshake, MSG_CONNECTFAIL]
  | timeout => simp [handshake, MSG_CONNECTFAIL]
  | msg m =>
    simp only [handshake]
    by_cases h1 : m.type ≠ MSG_CONNECT
    · rw [if_pos h1]; simp [MSG_CONNECTFAIL]
    · rw [if_neg h1]
      by_cases h2 : (!knownSerializer m.serId) = true
      · rw [if_pos h2]; simp [MSG_CONNECTFAIL]
      · rw [if_neg h2]
        cases m.body with
        | undecodable _ => simp [MSG_CONNECTFAIL]
        | call t => simp [MSG_CONNECTFAIL]
        | handshake wf ok v => cases wf <;> cases ok <;> cases v <;> simp [MSG_CONNECTFAIL, MSG_CONNECTOK]

/-- **C08_fail_reply_and_close.**  If the first item is anything but an acceptable handshake, the
    peer is sent a CONNECTFAIL (or nothing, exactly when the peer itself is already gone), the
    connection is closed, nothing was executed and the disconnect hook is not called. -/
theorem C08_fail_reply_and_close (it : Item) (h : (handshake it).2 = false) :
    let c := connEvent {} it
    c.phase = .closed ∧ c.execs = [] ∧ c.hookCalls = 0 ∧
    ((it = .cut ∧ c.outbox = []) ∨ ∃ r, c.outbox = [r] ∧ r.type = MSG_CONNECTFAIL) := by
  have hr := (handshake_reply it).2 h
  simp only [connEvent]
  generalize hh : handshake it = p at h hr
  obtain ⟨reply, ok⟩ := p
  simp only at h hr
  subst h
  simp only [Bool.false_eq_true, if_false, Conn.close]
  refine ⟨by first | rfl | trivial, by first | rfl | trivial, by first | rfl | trivial, ?_⟩
  rcases hr with ⟨h1, h2⟩ | ⟨r, h1, h2⟩
  · left; subst h2; exact ⟨h1, rfl⟩
  · right; subst h1; exact ⟨r, rfl, h2⟩

theorem inv_event (c : Conn) (it : Item) (h : Inv c) : Inv (connEvent c it) := by
  unfold connEvent
  cases hp : c.phase with
  | closed => simpa [hp] using h
  | fresh =>
    obtain ⟨ho, he⟩ := h.fresh hp
    simp only
    generalize hh : handshake it = p
    obtain ⟨reply, ok⟩ := p
    simp only
    cases ok with
    | false =>
      simp only [Bool.false_eq_true, if_false, Conn.close]
      exact ⟨by simp, by simp, by simp [he]⟩
    | true =>
      simp only [if_true]
      have := (handshake_reply it).1 (by rw [hh])
      rw [hh] at this
      obtain ⟨r, hr1, hr2⟩ := this
      simp only at hr1
      subst hr1
      have hacc : AcceptedFirst { c with outbox := c.outbox ++ (some r).toList, phase := .active, slot := true } :=
        ⟨r, [], by simp [ho], hr2⟩
      exact ⟨by simp, fun _ => hacc, fun _ => hacc⟩
  | active =>
    obtain ⟨r, rest, ho, hr⟩ := h.active hp
    simp only
    have hacc : ∀ (x : List Reply), ∃ r' rest', c.outbox ++ x = r' :: rest' ∧ r'.type = MSG_CONNECTOK :=
      fun x => ⟨r, rest ++ x, by simp [ho], hr⟩
    by_cases hraised : (handleRequest it).raised = true
    · rw [if_pos hraised]
      simp only [Conn.close]
      exact ⟨by simp, by simp, fun _ => hacc _⟩
    · rw [if_neg hraised]
      exact ⟨by simp [hp], fun _ => hacc _, fun _ => hacc _⟩

/-- **C08_no_exec_before.**  For every sequence of items arriving on a new connection: if any
    method was executed on its behalf, the very first message the daemon sent on it was a CONNECTOK
    (i.e. the handshake for a registered object had been accepted by the validator before). -/
theorem C08_no_exec_before (items : List Item) :
    let c := items.foldl connEvent {}
    c.execs ≠ [] → AcceptedFirst c := by
  have : ∀ (c : Conn), Inv c → Inv (items.foldl connEvent c) := by
    induction items with
    | nil => intro c h; exact h
    | cons it its ih => intro c h; exact ih _ (inv_event c it h)
  exact (this {} ⟨fun _ => ⟨rfl, rfl⟩, fun h => (by cases h), fun h => absurd rfl h⟩).execs

/-- **C08_pipelined_dead.**  Once a connection is closed (in particular after a failed handshake)
    nothing that arrives on it afterwards has any effect: no execution, no reply, no state change. -/
theorem C08_pipelined_dead (c : Conn) (items : List Item) (h : c.phase = .closed) :
    items.foldl connEvent c = c := by
  induction items with
  | nil => rfl
  | cons it its ih =>
    simp only [List.foldl_cons]
    have : connEvent c it = c := by simp [connEvent, h]
    rw [this, ih]

/-- Whatever is pipelined behind a failing first message is never executed. -/
theorem C08_failed_then_anything (it : Item) (items : List Item) (h : (handshake it).2 = false) :
    ((it :: items).foldl connEvent {}).execs = [] := by
  simp only [List.foldl_cons]
  obtain ⟨hc, he, _, _⟩ := C08_fail_reply_and_close it h
  rw [C08_pipelined_dead _ items hc]
  exact he

/-- events of one connection never change another connection's record (both transports) -/
theorem step_frame (d : Daemon) (i j : Nat) (it : Item) (h : i ≠ j) : (step d (i, it))[j]? = d[j]? := by
  unfold step
  cases hd : d[i]? with
  | none => rfl
  | some c => simp [List.getElem?_set, h]

theorem run_inv (evs : List (Nat × Item)) :
    ∀ (d : Daemon), (∀ (j : Nat) (c' : Conn), d[j]? = some c' → Inv c') →
      ∀ (j : Nat) (c' : Conn), (run d evs)[j]? = some c' → Inv c' := by
  induction evs with
  | nil => intro d hd; exact hd
  | cons ev evs ih =>
    intro d hd
    apply ih (step d ev)
    intro j c' hj
    unfold step at hj
    cases hde : d[ev.1]? with
    | none => rw [hde] at hj; exact hd j c' hj
    | some c0 =>
      rw [hde] at hj
      simp only at hj
      by_cases hij : ev.1 = j
      · subst hij
        have hlt : ev.1 < d.length := (List.getElem?_eq_some_iff.mp hde).1
        simp only [List.getElem?_set, hlt, if_true, Option.some.injEq] at hj
        subst hj
        exact inv_event c0 ev.2 (hd _ _ hde)
      · simp only [List.getElem?_set, hij, if_false] at hj
        exact hd j c' hj

/-- Daemon-level form: in any interleaving of events of any number of new connections, a
    connection on whose behalf something was executed had its handshake accepted first. -/
theorem C08_daemon (n : Nat) (evs : List (Nat × Item)) (i : Nat) (c : Conn)
    (h : (run (List.replicate n {}) evs)[i]? = some c) : c.execs ≠ [] → AcceptedFirst c := by
  have hinit : ∀ (j : Nat) (c' : Conn), (List.replicate n ({} : Conn))[j]? = some c' → Inv c' := by
    intro j c' hj
    have := List.mem_of_getElem? hj
    rw [List.mem_replicate] at this
    rw [this.2]
    exact ⟨fun _ => ⟨rfl, rfl⟩, fun h => (by cases h), fun h => absurd rfl h⟩
  exact (run_inv evs _ hinit i c h).execs

/-- **C08_gen_facts.**  Facts extracted from the current source: the request handler accepts only
    INVOKE and PING, the handshake only CONNECT, and both transports enter the request loop /
    register the connection only under `if <handshake>`. -/
theorem C08_gen_facts :
    Pyro.Gen.C08.handshakeAccepts = [MSG_CONNECT] ∧
    Pyro.Gen.C08.requestAccepts = [MSG_INVOKE, MSG_PING] ∧
    Pyro.Gen.C08.threadLoopGuardedByHandshake = true ∧
    Pyro.Gen.C08.multiplexRegisterGuardedByHandshake = true ∧
    Pyro.Gen.C08.knownSerializerIds = [1, 2, 3, 4] ∧
    Pyro.Gen.C08.marshalId = marshalId := by decide

/-! ### the except-ladder of handleRequest, regenerated from the source, agrees with the model -/

/-- class membership of the model's exception classes, as the source's `isinstance` tests see them -/
def excBitsOf : Exc → Bool × Bool × Bool × Bool      -- (ConnectionClosed, Serialize, Communication, Security)
  | .generic => (false, false, false, false)
  | .serialize => (false, true, true, false)
  | .connClosed => (true, false, true, false)
  | .commOther => (false, false, true, false)
  | .security => (false, false, false, true)

def excName : Exc → String
  | .generic => "generic" | .serialize => "serialize" | .connClosed => "connClosed"
  | .commOther => "commOther" | .security => "security"

/-- **C08_gen_except_rule.**  `exceptSends` / `exceptReraises` are translated on every run from the
    `except Exception as xv:` handler of `Daemon.handleRequest`, and `excBits` from `issubclass` on
    `Pyro5.errors`.  For every exception class a method may raise, every callback flag and the oneway
    flag, the model's `handleRequest` sends an error reply exactly when the translated rule says so
    and reports `raised` (the transports then close the connection) exactly when the translated rule
    re-raises. -/
theorem C08_gen_except_rule (e : Exc) (cb ser : Bool) (tok seq sid : Nat) (hk : knownSerializer sid = true) :
    (Pyro.Gen.C08.excBits.lookup (excName e) = some (excBitsOf e)) ∧
    let bits := excBitsOf e
    let md : Method := { token := tok, outcome := .raises e ser, isCallback := cb }
    let r := handleRequest (.msg { type := MSG_INVOKE, serId := sid, seq := seq, oneway := false, body := .call (.method md) })
    r.reply.isSome = Pyro.Gen.C08.exceptSends cb false bits.1 bits.2.1 bits.2.2.1 bits.2.2.2 ∧
    r.raised = Pyro.Gen.C08.exceptReraises cb false bits.1 bits.2.1 bits.2.2.1 bits.2.2.2 := by
  refine ⟨by cases e <;> decide, ?_⟩
  simp only [handleRequest, MSG_INVOKE, MSG_PING, hk]
  cases e <;> cases cb <;> simp [excBitsOf, Pyro.Gen.C08.exceptSends, Pyro.Gen.C08.exceptReraises, errReply]

/-! ### non-vacuity -/
private def okShake : Item := .msg { type := 1, serId := 2, seq := 7, body := .handshake true true .accept }
private def call9 : Item := .msg { type := 4, serId := 2, seq := 8, body := .call (.method { token := 9, outcome := .returns .ok }) }
example : ([okShake, call9].foldl connEvent {}).execs = [9] := by decide
example : ([call9, okShake, call9].foldl connEvent {}).execs = [] ∧
    ([call9, okShake, call9].foldl connEvent {}).outbox = [⟨MSG_CONNECTFAIL, 0, marshalId, false, []⟩] := by decide

end Pyro.C08
