/-
  C17Ast.lean — the source of receive_data / send_data, transcribed into PyIR on every run
  (PyroModel/Gen/C17.lean), computes exactly what the hand-written SockIO model computes.
-/
import PyroModel.PyIR
import PyroModel.Gen.C17
import PyroProps.C17

set_option linter.unusedSimpArgs false

namespace Pyro.C17Ast

open Pyro Pyro.SockIO Pyro.PyIR

/-- the body of send_data's non-blocking loop, as generated -/
def sendLoopStmt : Stmt :=
  match Gen.C17.sendData with
  | .ite _ _ (.seq _ w) => w
  | _ => .skip

theorem send_loop (cfg : Cfg) (hsub : cfg.isSub = Gen.C17.isSub) :
    ∀ (script : List Ev) (fuel : Nat) (env : Env) (data acc st : Bytes),
      script.length + 1 ≤ fuel → env.lookup "p1" = some (.bytes data) →
      toSend (exec cfg sendLoopStmt fuel none env ⟨st, acc, script, []⟩) = some (sendLoop data acc script) := by
  intro script
  induction script with
  | nil =>
    intro fuel env data acc st hf henv
    obtain ⟨f, rfl⟩ : ∃ f, fuel = f + 1 := ⟨fuel - 1, by omega⟩
    cases data with
    | nil => simp [sendLoopStmt, Gen.C17.sendData, exec, truth, eval, henv, truthy, toSend, sendLoop]
    | cons b bs =>
      simp [sendLoopStmt, Gen.C17.sendData, exec, truth, eval, henv, truthy, toSend, sendLoop, sys]
  | cons ev rest ih =>
    intro fuel env data acc st hf henv
    obtain ⟨f, rfl⟩ : ∃ f, fuel = f + 1 := ⟨fuel - 1, by simp at hf; omega⟩
    have hf' : rest.length + 1 ≤ f := by simp at hf; omega
    cases data with
    | nil => simp [sendLoopStmt, Gen.C17.sendData, exec, truth, eval, henv, truthy, toSend, sendLoop]
    | cons b bs =>
      cases ev with
      | deliver k =>
        have := ih f (("p1", Val.bytes (List.drop (min k (bs.length + 1)) (b :: bs))) ::
          ("v2", Val.int ↑(min k (bs.length + 1))) :: env) (List.drop (min k (bs.length + 1)) (b :: bs))
          (acc ++ List.take (min k (bs.length + 1)) (b :: bs)) st hf' (by simp [List.lookup_cons])
        simp [sendLoopStmt, Gen.C17.sendData] at this
        simp [sendLoopStmt, Gen.C17.sendData, exec, truth, eval, henv, truthy, toSend, sendLoop, sys, List.lookup_cons]
        simpa [toSend] using this
      | retryable =>
        have := ih f (("v3", Val.errno true) :: ("v0", Val.exc .osError true none) :: env) (b :: bs) acc st hf'
          (by simp [List.lookup_cons, henv])
        simp [sendLoopStmt, Gen.C17.sendData] at this
        simp [sendLoopStmt, Gen.C17.sendData, exec, truth, eval, henv, truthy, toSend, sendLoop, sys, List.lookup_cons,
          hsub, Gen.C17.isSub]
        simpa [toSend] using this
      | fatal =>
        simp [sendLoopStmt, Gen.C17.sendData, exec, truth, eval, henv, truthy, toSend, sendLoop, sys, List.lookup_cons,
          hsub, Gen.C17.isSub]
      | timeout =>
        simp [sendLoopStmt, Gen.C17.sendData, exec, truth, eval, henv, truthy, toSend, sendLoop, sys, List.lookup_cons,
          hsub, Gen.C17.isSub]
      | partialFail k r =>
        cases r with
        | true =>
          have := ih f (("v3", Val.errno true) :: ("v0", Val.exc .osError true none) :: env) (b :: bs) acc st hf'
            (by simp [List.lookup_cons, henv])
          simp [sendLoopStmt, Gen.C17.sendData] at this
          simp [sendLoopStmt, Gen.C17.sendData, exec, truth, eval, henv, truthy, toSend, sendLoop, sys, List.lookup_cons,
            hsub, Gen.C17.isSub]
          simpa [toSend] using this
        | false =>
          simp [sendLoopStmt, Gen.C17.sendData, exec, truth, eval, henv, truthy, toSend, sendLoop, sys, List.lookup_cons,
            hsub, Gen.C17.isSub]

/-- **send_data, as written now, is the model's `send`** -/
theorem send_translated (cfg : Cfg) (hsub : cfg.isSub = Gen.C17.isSub) (data : Bytes) (script : List Ev) :
    toSend (runSend cfg Gen.C17.sendData data script) = some (SockIO.send cfg.blocking data script) := by
  cases hb : cfg.blocking with
  | true =>
    cases script with
    | nil => simp [runSend, Gen.C17.sendData, exec, truth, eval, truthy, toSend, SockIO.send, sys, hb, List.lookup_cons]
    | cons ev rest =>
      cases ev <;>
        simp [runSend, Gen.C17.sendData, exec, truth, eval, truthy, toSend, SockIO.send, sys, hb, List.lookup_cons,
          hsub, Gen.C17.isSub]
  | false =>
    unfold runSend
    generalize hF : script.length + 2 = F
    have := send_loop cfg hsub script F [("v1", .opaque), ("p1", .bytes data)] data [] []
      (by omega) (by simp [List.lookup_cons])
    simp [sendLoopStmt, Gen.C17.sendData] at this
    simp [Gen.C17.sendData, exec, truth, eval, truthy, SockIO.send, hb, List.lookup_cons]
    simpa using this

/-! ### receive_data -/

inductive InnerOut where
  | done | retry | fatal | timeout | scriptEnd
  deriving Repr, DecidableEq

/-- what the inner `while msglen < size` loop does, event by event (it stops at the first raising call) -/
def innerSpec (size : Nat) (data stream : Bytes) : List Ev → InnerOut × Bytes × Bytes × List Ev
  | [] => if data.length < size then (.scriptEnd, data, stream, []) else (.done, data, stream, [])
  | ev :: rest =>
    if data.length < size then
      match ev with
      | .deliver k =>
        let n := min k (min recvCap (size - data.length))
        if (stream.take n).isEmpty then (.done, data, stream, rest)
        else innerSpec size (data ++ stream.take n) (stream.drop n) rest
      | .retryable => (.retry, data, stream, rest)
      | .fatal => (.fatal, data, stream, rest)
      | .timeout => (.timeout, data, stream, rest)
      | .partialFail _ true => (.retry, data, stream, rest)
      | .partialFail _ false => (.fatal, data, stream, rest)
    else (.done, data, stream, ev :: rest)

theorem innerSpec_len (size : Nat) : ∀ (script : List Ev) (data stream : Bytes),
    (innerSpec size data stream script).2.2.2.length ≤ script.length ∧
    ((innerSpec size data stream script).1 = .retry → (innerSpec size data stream script).2.2.2.length < script.length) := by
  intro script
  induction script with
  | nil => intro data stream; simp [innerSpec]; split <;> simp
  | cons ev rest ih =>
    intro data stream
    simp only [innerSpec]
    split
    · cases ev with
      | deliver k =>
        simp only []
        split
        · simp
        · have := ih (data ++ List.take (min k (min recvCap (size - data.length))) stream)
            (List.drop (min k (min recvCap (size - data.length))) stream)
          constructor
          · simp; omega
          · intro h; have := this.2 h; simp; omega
      | retryable => simp
      | fatal => simp
      | timeout => simp
      | partialFail k r => cases r <;> simp
    · simp

/-- the model's loop, read as "run the inner loop, then look at how it ended" -/
theorem recvLoop_inner (size : Nat) : ∀ (script : List Ev) (data stream : Bytes),
    recvLoop size data stream script =
      match innerSpec size data stream script with
      | (.done, d, st, sc) => recvFinish size d st sc
      | (.retry, d, st, sc) => recvLoop size d st sc
      | (.fatal, _, st, sc) => (.closed none, st, sc)
      | (.timeout, _, st, sc) => (.timeout, st, sc)
      | (.scriptEnd, _, st, sc) => (.scriptEnd, st, sc) := by
  intro script
  induction script with
  | nil => intro data stream; simp only [recvLoop, innerSpec]; split <;> simp
  | cons ev rest ih =>
    intro data stream
    simp only [recvLoop, innerSpec]
    split
    · cases ev with
      | deliver k =>
        simp only []
        split
        · next h => simp [recvFinish]; omega
        · exact ih _ _
      | retryable => simp
      | fatal => simp
      | timeout => simp
      | partialFail k r => cases r <;> simp
    · simp

def waitStmt : Stmt :=
  match Gen.C17.receiveData with
  | .try_ (.seq _ (.seq _ (.seq _ (.seq (.ite _ w _) _)))) _ => w
  | _ => .skip

def oldStmt : Stmt :=
  match Gen.C17.receiveData with
  | .try_ (.seq _ (.seq _ (.seq _ (.seq _ o)))) _ => o
  | _ => .skip

def innerStmt : Stmt :=
  match oldStmt with
  | .while_ _ (.try_ (.seq i _) _) => i
  | _ => .skip

structure EnvOK (env : Env) (size : Nat) (data : Bytes) : Prop where
  hsize : env.lookup "p1" = some (.int size)
  hlen : env.lookup "v1" = some (.int data.length)
  hdata : env.lookup "v2" = some (.bytes data)

def innerRes (r : InnerOut × Bytes × Bytes × List Ev) (env : Env) (sent : Bytes) : Res :=
  match r with
  | (.done, _, st, sc) => .normal env ⟨st, sent, sc, []⟩
  | (.retry, _, st, sc) => .raise (.exc .osError true none) env ⟨st, sent, sc, []⟩
  | (.fatal, _, st, sc) => .raise (.exc .osError false none) env ⟨st, sent, sc, []⟩
  | (.timeout, _, st, sc) => .raise (.exc .socketTimeout false none) env ⟨st, sent, sc, []⟩
  | (.scriptEnd, _, st, sc) => .scriptEnd ⟨st, sent, sc, []⟩

theorem cap_int (size len : Nat) (h : len < size) :
    (if (60000 : Int) ≤ (size : Int) - (len : Int) then (60000 : Int) else (size : Int) - (len : Int))
      = ((min recvCap (size - len) : Nat) : Int) := by
  unfold recvCap
  split <;> omega

theorem drop_of_take_empty (n : Nat) (l : Bytes) (h : (l.take n).isEmpty = true) : l.drop n = l := by
  cases n with
  | zero => rfl
  | succ m => cases l with
    | nil => rfl
    | cons a t => simp at h

theorem inner_loop (cfg : Cfg) (size : Nat) :
    ∀ (script : List Ev) (fuel : Nat) (cur : Option Val) (env : Env) (data stream sent : Bytes),
      script.length + 1 ≤ fuel → EnvOK env size data →
      ∃ env', EnvOK env' size (innerSpec size data stream script).2.1 ∧
        exec cfg innerStmt fuel cur env ⟨stream, sent, script, []⟩
          = innerRes (innerSpec size data stream script) env' sent := by
  intro script
  induction script with
  | nil =>
    intro fuel cur env data stream sent hf ok
    obtain ⟨f, rfl⟩ : ∃ f, fuel = f + 1 := ⟨fuel - 1, by omega⟩
    refine ⟨env, ?_, ?_⟩
    · simp only [innerSpec]; split <;> exact ok
    · by_cases h : data.length < size
      · have hneg : ¬ ((min recvCap (size - data.length) : Nat) : Int) < 0 := by omega
        simp [innerStmt, oldStmt, Gen.C17.receiveData, exec, truth, eval, truthy, ok.hsize, ok.hlen, ok.hdata, innerSpec,
          innerRes, h, sys, cap_int size data.length h, hneg]
      · simp [innerStmt, oldStmt, Gen.C17.receiveData, exec, truth, eval, truthy, ok.hsize, ok.hlen, ok.hdata, innerSpec,
          innerRes, h, sys]
  | cons ev rest ih =>
    intro fuel cur env data stream sent hf ok
    obtain ⟨f, rfl⟩ : ∃ f, fuel = f + 1 := ⟨fuel - 1, by simp at hf; omega⟩
    have hf' : rest.length + 1 ≤ f := by simp at hf; omega
    by_cases h : data.length < size
    · have hneg : ¬ ((min recvCap (size - data.length) : Nat) : Int) < 0 := by omega
      cases ev with
      | deliver k =>
        by_cases hc : (stream.take (min k (min recvCap (size - data.length)))).isEmpty
        · refine ⟨("v3", .bytes (stream.take (min k (min recvCap (size - data.length))))) :: env, ?_, ?_⟩
          · simp only [innerSpec, h, if_true, hc]
            exact ⟨by simp [List.lookup_cons, ok.hsize], by simp [List.lookup_cons, ok.hlen], by simp [List.lookup_cons, ok.hdata]⟩
          · simp [innerStmt, oldStmt, Gen.C17.receiveData, exec, truth, eval, truthy, ok.hsize, ok.hlen, ok.hdata, innerSpec,
              innerRes, h, sys, cap_int size data.length h, hneg, hc, List.lookup_cons]
            exact drop_of_take_empty _ _ hc
        · obtain ⟨env', ok', he⟩ := ih f cur
            (("v1", .int ((data.length : Int) + ((stream.take (min k (min recvCap (size - data.length)))).length : Int))) ::
              ("v2", .bytes (data ++ stream.take (min k (min recvCap (size - data.length))))) ::
              ("v3", .bytes (stream.take (min k (min recvCap (size - data.length))))) :: env)
            (data ++ stream.take (min k (min recvCap (size - data.length))))
            (stream.drop (min k (min recvCap (size - data.length)))) sent hf'
            ⟨by simp [List.lookup_cons, ok.hsize], by simp [List.lookup_cons], by simp [List.lookup_cons]⟩
          have e : innerSpec size data stream (.deliver k :: rest)
              = innerSpec size (data ++ stream.take (min k (min recvCap (size - data.length))))
                  (stream.drop (min k (min recvCap (size - data.length)))) rest := by
            simp [innerSpec, h, hc]
          refine ⟨env', ?_, ?_⟩
          · rw [e]; exact ok'
          · rw [e]
            simp [innerStmt, oldStmt, Gen.C17.receiveData] at he
            simp [innerStmt, oldStmt, Gen.C17.receiveData, exec, truth, eval, truthy, ok.hsize, ok.hlen, ok.hdata, innerSpec,
              innerRes, h, sys, cap_int size data.length h, hneg, hc, List.lookup_cons]
            simpa [innerRes] using he
      | retryable =>
        refine ⟨env, ?_, ?_⟩
        · simp only [innerSpec, h, if_true]; exact ok
        · simp [innerStmt, oldStmt, Gen.C17.receiveData, exec, truth, eval, truthy, ok.hsize, ok.hlen, ok.hdata, innerSpec,
            innerRes, h, sys, cap_int size data.length h, hneg]
      | fatal =>
        refine ⟨env, ?_, ?_⟩
        · simp only [innerSpec, h, if_true]; exact ok
        · simp [innerStmt, oldStmt, Gen.C17.receiveData, exec, truth, eval, truthy, ok.hsize, ok.hlen, ok.hdata, innerSpec,
            innerRes, h, sys, cap_int size data.length h, hneg]
      | timeout =>
        refine ⟨env, ?_, ?_⟩
        · simp only [innerSpec, h, if_true]; exact ok
        · simp [innerStmt, oldStmt, Gen.C17.receiveData, exec, truth, eval, truthy, ok.hsize, ok.hlen, ok.hdata, innerSpec,
            innerRes, h, sys, cap_int size data.length h, hneg]
      | partialFail k r =>
        cases r <;> refine ⟨env, ?_, ?_⟩
        · simp only [innerSpec, h, if_true]; exact ok
        · simp [innerStmt, oldStmt, Gen.C17.receiveData, exec, truth, eval, truthy, ok.hsize, ok.hlen, ok.hdata, innerSpec,
            innerRes, h, sys, cap_int size data.length h, hneg]
        · simp only [innerSpec, h, if_true]; exact ok
        · simp [innerStmt, oldStmt, Gen.C17.receiveData, exec, truth, eval, truthy, ok.hsize, ok.hlen, ok.hdata, innerSpec,
            innerRes, h, sys, cap_int size data.length h, hneg]
    · refine ⟨env, ?_, ?_⟩
      · simp only [innerSpec, h, if_false]; exact ok
      · simp [innerStmt, oldStmt, Gen.C17.receiveData, exec, truth, eval, truthy, ok.hsize, ok.hlen, ok.hdata, innerSpec,
          innerRes, h, sys]

def oldRest : Stmt :=
  match oldStmt with
  | .while_ _ (.try_ (.seq _ r) _) => r
  | _ => .skip

def oldHandlers : Stmt :=
  match oldStmt with
  | .while_ _ (.try_ _ h) => h
  | _ => .skip

theorem oldStmt_shape : oldStmt = .while_ (.lit (.bool true)) (.try_ (.seq innerStmt oldRest) oldHandlers) := by
  rfl

/-- what the inner loop is assumed to do (proved for the generated one in `inner_loop`) -/
def InnerOK (cfg : Cfg) (size : Nat) (I : Stmt) : Prop :=
  ∀ (script : List Ev) (fuel : Nat) (cur : Option Val) (env : Env) (data stream sent : Bytes),
    script.length + 1 ≤ fuel → EnvOK env size data →
    ∃ env', EnvOK env' size (innerSpec size data stream script).2.1 ∧
      exec cfg I fuel cur env ⟨stream, sent, script, []⟩ = innerRes (innerSpec size data stream script) env' sent

theorem old_loop_gen (cfg : Cfg) (hsub : cfg.isSub = Gen.C17.isSub) (size : Nat) (I : Stmt) (hI : InnerOK cfg size I) :
    ∀ (n : Nat) (script : List Ev), script.length = n →
    ∀ (fuel : Nat) (cur : Option Val) (env : Env) (data stream sent : Bytes),
      script.length + 1 ≤ fuel → EnvOK env size data →
      toRecv (exec cfg (.while_ (.lit (.bool true)) (.try_ (.seq I oldRest) oldHandlers)) fuel cur env ⟨stream, sent, script, []⟩)
        = some (recvLoop size data stream script) := by
  intro n
  induction n using Nat.strongRecOn with
  | _ n ih =>
    intro script hn fuel cur env data stream sent hf ok
    obtain ⟨f, rfl⟩ : ∃ f, fuel = f + 1 := ⟨fuel - 1, by omega⟩
    obtain ⟨env', ok', he⟩ := hI script (f + 1) cur env data stream sent hf ok
    have hlen := innerSpec_len size script data stream
    rw [recvLoop_inner]
    rcases hsp : innerSpec size data stream script with ⟨o, d, st, sc⟩
    rw [hsp] at he ok' hlen
    simp only [] at ok' hlen
    cases o with
    | done =>
      by_cases hds : d.length = size
      · simp [exec, truth, eval, truthy, he, innerRes, oldRest, oldHandlers, oldStmt, Gen.C17.receiveData, ok'.hsize,
        ok'.hlen, ok'.hdata, List.lookup_cons, hsub, Gen.C17.isSub, recvFinish, toRecv, hds]
      · have hne : ((d.length : Int) != (size : Int)) = true := by simp; omega
        simp [exec, truth, eval, truthy, he, innerRes, oldRest, oldHandlers, oldStmt, Gen.C17.receiveData, ok'.hsize,
        ok'.hlen, ok'.hdata, List.lookup_cons, hsub, Gen.C17.isSub, recvFinish, toRecv, hds, hne]
    | retry =>
      have hsc : sc.length < script.length := hlen.2 rfl
      have := ih sc.length (by omega) sc rfl f cur
        (("v5", Val.errno true) :: ("v4", Val.exc .osError true none) :: env') d st sent (by omega)
        ⟨by simp [List.lookup_cons, ok'.hsize], by simp [List.lookup_cons, ok'.hlen], by simp [List.lookup_cons, ok'.hdata]⟩
      simp [oldRest, oldHandlers, oldStmt, Gen.C17.receiveData] at this
      simp [exec, truth, eval, truthy, he, innerRes, oldRest, oldHandlers, oldStmt, Gen.C17.receiveData, ok'.hsize,
        ok'.hlen, ok'.hdata, List.lookup_cons, hsub, Gen.C17.isSub, recvFinish, toRecv]
      simpa [toRecv] using this
    | fatal =>
      simp [exec, truth, eval, truthy, he, innerRes, oldRest, oldHandlers, oldStmt, Gen.C17.receiveData, ok'.hsize,
        ok'.hlen, ok'.hdata, List.lookup_cons, hsub, Gen.C17.isSub, recvFinish, toRecv]
    | timeout =>
      simp [exec, truth, eval, truthy, he, innerRes, oldRest, oldHandlers, oldStmt, Gen.C17.receiveData, ok'.hsize,
        ok'.hlen, ok'.hdata, List.lookup_cons, hsub, Gen.C17.isSub, recvFinish, toRecv]
    | scriptEnd =>
      simp [exec, truth, eval, truthy, he, innerRes, oldRest, oldHandlers, oldStmt, Gen.C17.receiveData, ok'.hsize,
        ok'.hlen, ok'.hdata, List.lookup_cons, hsub, Gen.C17.isSub, recvFinish, toRecv]

theorem old_loop (cfg : Cfg) (hsub : cfg.isSub = Gen.C17.isSub) (size : Nat)
    (script : List Ev) (fuel : Nat) (cur : Option Val) (env : Env) (data stream sent : Bytes)
    (hf : script.length + 1 ≤ fuel) (ok : EnvOK env size data) :
    toRecv (exec cfg oldStmt fuel cur env ⟨stream, sent, script, []⟩) = some (recvLoop size data stream script) := by
  rw [oldStmt_shape]
  exact old_loop_gen cfg hsub size innerStmt (inner_loop cfg size) script.length script rfl fuel cur env data stream sent hf ok

/-! #### the MSG_WAITALL loop -/

inductive WaitOut where
  | ok | fall | fatal | timeout | scriptEnd
  deriving Repr, DecidableEq

def waitSpec (size : Nat) (stream : Bytes) : List Ev → WaitOut × Bytes × Bytes × List Ev
  | [] => (.scriptEnd, [], stream, [])
  | .deliver k :: rest =>
    if (stream.take (min k size)).length = size then (.ok, stream.take (min k size), stream.drop (min k size), rest)
    else (.fall, stream.take (min k size), stream.drop (min k size), rest)
  | .retryable :: rest => waitSpec size stream rest
  | .fatal :: rest => (.fatal, [], stream, rest)
  | .timeout :: rest => (.timeout, [], stream, rest)
  | .partialFail _ true :: rest => waitSpec size stream rest
  | .partialFail _ false :: rest => (.fatal, [], stream, rest)

theorem recvWaitall_spec (size : Nat) (stream : Bytes) : ∀ (script : List Ev),
    recvWaitall size stream script =
      match waitSpec size stream script with
      | (.ok, c, st, sc) => (.ok c, st, sc)
      | (.fall, c, st, sc) => recvLoop size c st sc
      | (.fatal, _, st, sc) => (.closed none, st, sc)
      | (.timeout, _, st, sc) => (.timeout, st, sc)
      | (.scriptEnd, _, st, sc) => (.scriptEnd, st, sc) := by
  intro script
  induction script with
  | nil => simp [recvWaitall, waitSpec]
  | cons ev rest ih =>
    cases ev with
    | deliver k => simp only [recvWaitall, waitSpec]; split <;> simp
    | retryable => simpa [recvWaitall, waitSpec] using ih
    | fatal => simp [recvWaitall, waitSpec]
    | timeout => simp [recvWaitall, waitSpec]
    | partialFail k r => cases r <;> simp [recvWaitall, waitSpec] <;> exact ih

theorem waitSpec_len (size : Nat) (stream : Bytes) : ∀ (script : List Ev),
    (waitSpec size stream script).2.2.2.length ≤ script.length := by
  intro script
  induction script with
  | nil => simp [waitSpec]
  | cons ev rest ih =>
    cases ev with
    | deliver k => simp only [waitSpec]; split <;> simp
    | retryable => simp only [waitSpec]; simp; omega
    | fatal => simp [waitSpec]
    | timeout => simp [waitSpec]
    | partialFail k r => cases r <;> simp only [waitSpec] <;> simp <;> omega

def waitRes (r : WaitOut × Bytes × Bytes × List Ev) (env : Env) (sent : Bytes) : Res :=
  match r with
  | (.ok, c, st, sc) => .ret (.bytes c) ⟨st, sent, sc, []⟩
  | (.fall, _, st, sc) => .normal env ⟨st, sent, sc, []⟩
  | (.fatal, _, st, sc) => .raise (.exc .connClosed false none) env ⟨st, sent, sc, []⟩
  | (.timeout, _, st, sc) => .raise (.exc .pyroTimeout false none) env ⟨st, sent, sc, []⟩
  | (.scriptEnd, _, st, sc) => .scriptEnd ⟨st, sent, sc, []⟩

def WaitOK (cfg : Cfg) (size : Nat) (W : Stmt) : Prop :=
  ∀ (script : List Ev) (fuel : Nat) (cur : Option Val) (env : Env) (stream sent : Bytes),
    script.length + 1 ≤ fuel → EnvOK env size [] →
    ∃ env', exec cfg W fuel cur env ⟨stream, sent, script, []⟩ = waitRes (waitSpec size stream script) env' sent ∧
      ((waitSpec size stream script).1 = .fall → EnvOK env' size (waitSpec size stream script).2.1)

theorem wait_loop (cfg : Cfg) (hsub : cfg.isSub = Gen.C17.isSub) (size : Nat) : WaitOK cfg size waitStmt := by
  have hn : ¬ ((size : Int) < 0) := by omega
  intro script
  induction script with
  | nil =>
    intro fuel cur env stream sent hf ok
    obtain ⟨f, rfl⟩ : ∃ f, fuel = f + 1 := ⟨fuel - 1, by omega⟩
    refine ⟨env, ?_, ?_⟩
    · simp [waitStmt, Gen.C17.receiveData, exec, truth, eval, truthy, ok.hsize, ok.hlen, ok.hdata, waitSpec, waitRes, sys, hn]
    · simp [waitSpec]
  | cons ev rest ih =>
    intro fuel cur env stream sent hf ok
    obtain ⟨f, rfl⟩ : ∃ f, fuel = f + 1 := ⟨fuel - 1, by simp at hf; omega⟩
    have hf' : rest.length + 1 ≤ f := by simp at hf; omega
    cases ev with
    | deliver k =>
      by_cases hk : (stream.take (min k size)).length = size
      · refine ⟨env, ?_, ?_⟩
        · simp [waitStmt, Gen.C17.receiveData, exec, truth, eval, truthy, ok.hsize, ok.hlen, ok.hdata, waitSpec, waitRes, sys,
            List.lookup_cons, hn, hk]
        · simp [waitSpec, hk]
      · refine ⟨("v2", .bytes (stream.take (min k size))) :: ("v1", .int ((stream.take (min k size)).length : Int)) ::
          ("v3", .bytes (stream.take (min k size))) :: env, ?_, ?_⟩
        · have hk' : ¬ (min k (min size stream.length) = size) := by simpa [List.length_take] using hk
          have hkI : (((min k (min size stream.length) : Nat) : Int) == (size : Int)) = false := by
            simp only [beq_eq_false_iff_ne, ne_eq, Int.natCast_inj]; exact hk'
          simp [waitStmt, Gen.C17.receiveData, exec, truth, eval, truthy, ok.hsize, ok.hlen, ok.hdata, waitSpec, waitRes, sys,
            List.lookup_cons, hn, hk, hk', hkI]
        · intro _
          simp only [waitSpec, hk, if_false]
          exact ⟨by simp [List.lookup_cons, ok.hsize], by simp [List.lookup_cons], by simp [List.lookup_cons]⟩
    | retryable =>
      obtain ⟨env', he, hok⟩ := ih f cur (("v5", Val.errno true) :: ("v4", Val.exc .osError true none) :: env) stream sent hf'
        ⟨by simp [List.lookup_cons, ok.hsize], by simpa [List.lookup_cons] using ok.hlen, by simp [List.lookup_cons, ok.hdata]⟩
      refine ⟨env', ?_, ?_⟩
      · simp [waitStmt, Gen.C17.receiveData] at he
        simp [waitStmt, Gen.C17.receiveData, exec, truth, eval, truthy, ok.hsize, ok.hlen, ok.hdata, waitSpec, sys,
          List.lookup_cons, hsub, Gen.C17.isSub, hn]
        exact he
      · simpa [waitSpec] using hok
    | fatal =>
      refine ⟨("v5", Val.errno false) :: ("v4", Val.exc .osError false none) :: env, ?_, ?_⟩
      · simp [waitStmt, Gen.C17.receiveData, exec, truth, eval, truthy, ok.hsize, ok.hlen, ok.hdata, waitSpec, waitRes, sys,
          List.lookup_cons, hsub, Gen.C17.isSub, hn]
      · simp [waitSpec]
    | timeout =>
      refine ⟨env, ?_, ?_⟩
      · simp [waitStmt, Gen.C17.receiveData, exec, truth, eval, truthy, ok.hsize, ok.hlen, ok.hdata, waitSpec, waitRes, sys,
          List.lookup_cons, hsub, Gen.C17.isSub, hn]
      · simp [waitSpec]
    | partialFail k r =>
      cases r with
      | true =>
        obtain ⟨env', he, hok⟩ := ih f cur (("v5", Val.errno true) :: ("v4", Val.exc .osError true none) :: env) stream sent hf'
          ⟨by simp [List.lookup_cons, ok.hsize], by simpa [List.lookup_cons] using ok.hlen, by simp [List.lookup_cons, ok.hdata]⟩
        refine ⟨env', ?_, ?_⟩
        · simp [waitStmt, Gen.C17.receiveData] at he
          simp [waitStmt, Gen.C17.receiveData, exec, truth, eval, truthy, ok.hsize, ok.hlen, ok.hdata, waitSpec, sys,
            List.lookup_cons, hsub, Gen.C17.isSub, hn]
          exact he
        · simpa [waitSpec] using hok
      | false =>
        refine ⟨("v5", Val.errno false) :: ("v4", Val.exc .osError false none) :: env, ?_, ?_⟩
        · simp [waitStmt, Gen.C17.receiveData, exec, truth, eval, truthy, ok.hsize, ok.hlen, ok.hdata, waitSpec, waitRes, sys,
          List.lookup_cons, hsub, Gen.C17.isSub, hn]
        · simp [waitSpec]

/-! #### the whole function -/

def outerH : Stmt :=
  match Gen.C17.receiveData with
  | .try_ _ h => h
  | _ => .skip

def waitCond : Expr :=
  match Gen.C17.receiveData with
  | .try_ (.seq _ (.seq _ (.seq _ (.seq (.ite c _ _) _)))) _ => c
  | _ => .lit .none

theorem receiveData_shape : Gen.C17.receiveData =
    .try_ (.seq (.assign "v0" .delays) (.seq (.assign "v1" (.lit (.int 0))) (.seq (.assign "v2" .emptyBytes)
      (.seq (.ite waitCond waitStmt .skip) oldStmt)))) outerH := by
  rfl

/-- the function's outer `except socket.timeout` leaves every outcome the loops can produce as it is -/
theorem outer_wrap (cfg : Cfg) (hsub : cfg.isSub = Gen.C17.isSub) (fuel : Nat) (r : Res)
    (x : RecvResult × Bytes × List Ev) :
    toRecv r = some x →
    toRecv (match r with
      | .raise e env w => exec cfg outerH fuel (some e) env w
      | r => r) = some x := by
  intro h
  cases r with
  | raise e env w =>
    cases e with
    | exc c rr p =>
      cases c <;> simp [toRecv] at h <;>
        simp [outerH, Gen.C17.receiveData, exec, hsub, Gen.C17.isSub, toRecv, eval, h]
    | _ => simp [toRecv] at h
  | _ => simpa using h

def OldOK (cfg : Cfg) (size : Nat) (O : Stmt) : Prop :=
  ∀ (script : List Ev) (fuel : Nat) (cur : Option Val) (env : Env) (data stream sent : Bytes),
    script.length + 1 ≤ fuel → EnvOK env size data →
    toRecv (exec cfg O fuel cur env ⟨stream, sent, script, []⟩) = some (recvLoop size data stream script)

theorem recv_gen (cfg : Cfg) (hsub : cfg.isSub = Gen.C17.isSub) (size : Nat) (W O : Stmt)
    (hW : WaitOK cfg size W) (hO : OldOK cfg size O) (stream : Bytes) (script : List Ev) :
    toRecv (runRecv cfg (.try_ (.seq (.assign "v0" .delays) (.seq (.assign "v1" (.lit (.int 0)))
        (.seq (.assign "v2" .emptyBytes) (.seq (.ite waitCond W .skip) O)))) outerH) size stream script)
      = some (SockIO.receive (cfg.useWaitall && !cfg.peercert) size stream script) := by
  unfold runRecv
  generalize hF : script.length + 2 = F
  have okE : EnvOK [("v2", .bytes []), ("v1", .int 0), ("v0", .opaque), ("p1", .int size)] size [] :=
    ⟨by simp [List.lookup_cons], by simp [List.lookup_cons], by simp [List.lookup_cons]⟩
  cases hw : (cfg.useWaitall && !cfg.peercert) with
  | false =>
    have := hO script F none _ [] stream [] (by omega) okE
    have hwc : (cfg.useWaitall && !cfg.peercert) = false := hw
    simp [exec, truth, eval, truthy, waitCond, Gen.C17.receiveData, List.lookup_cons, SockIO.receive, hwc]
    exact outer_wrap cfg hsub F _ _ this
  | true =>
    have hwc : (cfg.useWaitall && !cfg.peercert) = true := hw
    obtain ⟨env', he, hok⟩ := hW script F none _ stream [] (by omega) okE
    have hlen := waitSpec_len size stream script
    simp only [SockIO.receive, if_true]
    rw [recvWaitall_spec]
    rcases hsp : waitSpec size stream script with ⟨o, c, st, sc⟩
    rw [hsp] at he hok hlen
    simp only [] at hok hlen
    cases o with
    | fall =>
      have := hO sc F none env' c st [] (by omega) (hok rfl)
      simp [exec, truth, eval, truthy, waitCond, Gen.C17.receiveData, List.lookup_cons, hwc, he, waitRes]
      exact outer_wrap cfg hsub F _ _ this
    | ok =>
      simp [exec, truth, eval, truthy, waitCond, Gen.C17.receiveData, List.lookup_cons, hwc, he, waitRes, toRecv]
    | fatal =>
      simp [exec, truth, eval, truthy, waitCond, Gen.C17.receiveData, List.lookup_cons, hwc, he, waitRes, toRecv,
        outerH, hsub, Gen.C17.isSub]
    | timeout =>
      simp [exec, truth, eval, truthy, waitCond, Gen.C17.receiveData, List.lookup_cons, hwc, he, waitRes, toRecv,
        outerH, hsub, Gen.C17.isSub]
    | scriptEnd =>
      simp [exec, truth, eval, truthy, waitCond, Gen.C17.receiveData, List.lookup_cons, hwc, he, waitRes, toRecv]

/-- **receive_data, as written now, is the model's `receive`** -/
theorem recv_translated (cfg : Cfg) (hsub : cfg.isSub = Gen.C17.isSub) (size : Nat) (stream : Bytes) (script : List Ev) :
    toRecv (runRecv cfg Gen.C17.receiveData size stream script)
      = some (SockIO.receive (cfg.useWaitall && !cfg.peercert) size stream script) := by
  rw [receiveData_shape]
  exact recv_gen cfg hsub size waitStmt oldStmt (wait_loop cfg hsub size)
    (fun script fuel cur env data stream sent hf ok => old_loop cfg hsub size script fuel cur env data stream sent hf ok)
    stream script

/-! ### C17, stated about the source as it is written now

`runRecv cfg Gen.C17.receiveData size stream script` runs the transcription of today's `receive_data` over a peer stream
and a socket script; `cfg` ranges over MSG_WAITALL on/off, ssl / plain sockets, blocking / timeout mode. -/

/-- the transcribed `receive_data` never leaves the fragment, never runs out of fuel and never raises anything but the
    two documented errors: its outcome is always data, ConnectionClosedError, TimeoutError (or the script ran out) -/
theorem C17_source_recv_outcomes (cfg : Cfg) (hsub : cfg.isSub = Gen.C17.isSub) (size : Nat) (stream : Bytes) (script : List Ev) :
    (toRecv (runRecv cfg Gen.C17.receiveData size stream script)).isSome := by
  rw [recv_translated cfg hsub]; rfl

/-- if it returns, it returns exactly the next `size` bytes and leaves exactly the rest unread -/
theorem C17_source_recv_exact (cfg : Cfg) (hsub : cfg.isSub = Gen.C17.isSub) (size : Nat) (stream : Bytes) (script : List Ev)
    (b : Bytes) (w : World) (h : runRecv cfg Gen.C17.receiveData size stream script = .ret (.bytes b) w) :
    b = stream.take size ∧ w.stream = stream.drop size ∧ b.length = size := by
  have := recv_translated cfg hsub size stream script
  rw [h] at this
  simp only [toRecv, Option.some.injEq] at this
  exact Pyro.C17.C17_recv_exact _ size stream script b w.stream w.script this.symm

/-- a ConnectionClosedError that carries partialData carries exactly the bytes consumed so far, fewer than asked for -/
theorem C17_source_recv_fail (cfg : Cfg) (hsub : cfg.isSub = Gen.C17.isSub) (size : Nat) (stream : Bytes) (script : List Ev)
    (r : Bool) (p : Bytes) (env : Env) (w : World)
    (h : runRecv cfg Gen.C17.receiveData size stream script = .raise (.exc .connClosed r (some p)) env w) :
    p.length < size ∧ stream = p ++ w.stream := by
  have := recv_translated cfg hsub size stream script
  rw [h] at this
  simp only [toRecv, Option.some.injEq] at this
  exact Pyro.C17.C17_recv_fail _ size stream script p w.stream w.script this.symm

/-- `send_data`: what the peer accepted is a prefix of the buffer, and the whole buffer if the call returned -/
theorem C17_source_send (cfg : Cfg) (hsub : cfg.isSub = Gen.C17.isSub) (data : Bytes) (script : List Ev) :
    ∃ out, toSend (runSend cfg Gen.C17.sendData data script) = some out ∧
      out.2.1 <+: data ∧ (out.1 = .ok → out.2.1 = data) := by
  refine ⟨_, send_translated cfg hsub data script, ?_⟩
  exact Pyro.C17.C17_send cfg.blocking data script

/-- non-vacuity: a concrete run of the transcribed source (MSG_WAITALL, fragmented, one retryable error) -/
example : toRecv (runRecv { useWaitall := true, peercert := false, blocking := true, isSub := Gen.C17.isSub } Gen.C17.receiveData 5 [1,2,3,4,5,6,7]
    [.retryable, .deliver 3, .deliver 1, .retryable, .deliver 9]) = some (.ok [1,2,3,4,5], [6,7], []) := by
  rw [recv_translated _ rfl]; decide

end Pyro.C17Ast
