/-
  C05 — No client input can stop the daemon or disturb other clients.
  Theorems about `PyroModel.ServerLoop` (the transport loops of the thread-pool and the multiplex
  server around `Server.connEvent`), for every except-ladder configuration whose containment
  layers end in a catch-all for `Exception` (`GoodCfg`); that the ladders extracted from the
  current source are of that kind is the obligation `C05_gen_cfg_good`.
  Quantifiers: every history of events (connects; items = every outcome of reading the next bytes
  of a connection: any message, garbage, cut, timeout; the peer gone or not when the daemon
  answers; methods raising any subclass of `Exception`), on any number of connections, in any
  interleaving, both server types, any pool sizes.
  Outside the statement (and shown reachable in the model, see the last section): exceptions that
  are not subclasses of `Exception`.
-/
import PyroModel.ServerLoop
import PyroModel.Gen.C05
import PyroProofs.ServerLoop

namespace Pyro.C05

open Pyro.Server hiding run step
open Pyro.ServerLoop

/-! ### run-level forms of the single-step lemmas -/

theorem run_running (p : Params) (hg : GoodCfg p.cfg) (evs : List Ev) :
    ∀ (l : Loop), (∀ ev ∈ evs, ClientEv ev) → (run p l evs).running = l.running := by
  induction evs with
  | nil => intro l _; rfl
  | cons ev evs ih =>
    intro l h
    simp only [run, List.foldl_cons]
    have := ih (step p l ev) (fun e he => h e (List.mem_cons_of_mem _ he))
    simp only [run] at this
    rw [this, step_running p hg l ev (h ev List.mem_cons_self)]

theorem run_frame (p : Params) (j : Nat) (evs : List Ev) :
    ∀ (l : Loop), (∀ ev ∈ evs, ev.conn ≠ j) →
      (run p l evs).conns[j]? = l.conns[j]? ∧ MemFrame l (run p l evs) j := by
  induction evs with
  | nil => intro l _; exact ⟨rfl, MemFrame.refl l j⟩
  | cons ev evs ih =>
    intro l h
    simp only [run, List.foldl_cons]
    have h1 := ih (step p l ev) (fun e he => h e (List.mem_cons_of_mem _ he))
    simp only [run] at h1
    have hne := h ev List.mem_cons_self
    exact ⟨by rw [h1.1, step_frame p l ev j hne], (step_mem_frame p l ev j hne).trans h1.2⟩

theorem run_tinv (p : Params) (hk : p.kind = .thread) (hg : GoodCfg p.cfg) (evs : List Ev) :
    ∀ (l : Loop), TInv p l → (∀ ev ∈ evs, ClientEv ev) → TInv p (run p l evs) := by
  induction evs with
  | nil => intro l h _; exact h
  | cons ev evs ih =>
    intro l h hc
    simp only [run, List.foldl_cons]
    apply ih _ _ (fun e he => hc e (List.mem_cons_of_mem _ he))
    have := threadStep_inv p hg l h ev (hc ev List.mem_cons_self)
    simpa [step, hk] using this

theorem run_minv (p : Params) (hk : p.kind = .multiplex) (hg : GoodCfg p.cfg) (evs : List Ev) :
    ∀ (l : Loop), MInv l → (∀ ev ∈ evs, ClientEv ev) → MInv (run p l evs) := by
  induction evs with
  | nil => intro l h _; exact h
  | cons ev evs ih =>
    intro l h hc
    simp only [run, List.foldl_cons]
    apply ih _ _ (fun e he => hc e (List.mem_cons_of_mem _ he))
    have := muxStep_inv p hg l h ev (hc ev List.mem_cons_self)
    simpa [step, hk] using this

theorem tinv_init (p : Params) (n : Nat) (objs : List Nat) : TInv p (init p n objs) :=
  ⟨List.nodup_nil, fun i => by simp [init], rfl, Nat.le_refl _, by simp [init]⟩

theorem minv_init (p : Params) (n : Nat) (objs : List Nat) : MInv (init p n objs) := by
  refine ⟨List.nodup_nil, fun i => ?_, rfl⟩
  simp only [init, List.not_mem_nil, false_iff, not_exists, not_and]
  intro c hc
  have := List.mem_of_getElem? hc
  rw [List.mem_replicate] at this
  rw [this.2]; decide

/-! ### the property -/

/-- **C05_loop_survives.**  Whatever clients send, in whatever order, on however many connections
    (garbage, wrong versions, cut messages, timeouts, unknown serializers / objects / members,
    methods raising any `Exception` subclass, serialisable or not, peers that vanish before the
    answer is sent, connections beyond the pool size): the request loop of either server type is
    still running afterwards. -/
theorem C05_loop_survives (p : Params) (hg : GoodCfg p.cfg) (l : Loop) (hr : l.running = true)
    (evs : List Ev) (hc : ∀ ev ∈ evs, ClientEv ev) : (run p l evs).running = true := by
  rw [run_running p hg evs l hc]; exact hr

/-- **C05_frame.**  Events on other connections never change connection `j`'s record (its replies,
    what was executed for it, its resources), nor whether a worker / the selector holds it — for
    every except-ladder configuration and every event, client-originated or not. -/
theorem C05_frame (p : Params) (l : Loop) (j : Nat) (evs : List Ev) (h : ∀ ev ∈ evs, ev.conn ≠ j) :
    (run p l evs).conns[j]? = l.conns[j]? ∧
    (j ∈ (run p l evs).busy ↔ j ∈ l.busy) ∧ (j ∈ (run p l evs).registered ↔ j ∈ l.registered) := by
  have := run_frame p j evs l h
  exact ⟨this.1, this.2.1, this.2.2.2.1⟩

/-- **C05_witness_correct.**  A connection that is being served (handshake done; a worker holds
    it / it is registered) and whose peer stays connected ends up with exactly the record that
    `Server.connEvent` computes from ITS OWN items alone, in their order — its replies, sequence
    numbers, executed calls — whatever is interleaved on any other connections. -/
theorem C05_witness_correct (p : Params) (hg : GoodCfg p.cfg) (w : Nat) (evs : List Ev) :
    ∀ (l : Loop) (c : Conn), l.conns[w]? = some c → c.phase = .active → Served p l w →
      (∀ ev ∈ evs, ClientEv ev) → (∀ it gone raw, Ev.item w it gone raw ∈ evs → gone = false) →
      (run p l evs).conns[w]? = some ((itemsOf w evs).foldl connEvent c) := by
  have gen : ∀ (evs : List Ev) (l : Loop) (c : Conn), l.conns[w]? = some c →
      (c.phase = .closed ∨ (c.phase = .active ∧ Served p l w)) →
      (∀ ev ∈ evs, ClientEv ev) → (∀ it gone raw, Ev.item w it gone raw ∈ evs → gone = false) →
      (run p l evs).conns[w]? = some ((itemsOf w evs).foldl connEvent c) := by
    intro evs
    induction evs with
    | nil => intro l c hcw _ _ _; exact hcw
    | cons ev evs ih =>
      intro l c hcw hph hcl hst
      have hfold : (itemsOf w (ev :: evs)).foldl connEvent c = (itemsOf w evs).foldl connEvent (evOn w ev c) := by
        cases ev with
        | connect i => rfl
        | item i it gone raw =>
          simp only [itemsOf, evOn]
          by_cases hi : i = w
          · rw [if_pos hi, if_pos hi]; rfl
          · rw [if_neg hi, if_neg hi]
      rw [hfold]
      simp only [run, List.foldl_cons]
      have hcl' : ∀ e ∈ evs, ClientEv e := fun e he => hcl e (List.mem_cons_of_mem _ he)
      have hst' : ∀ it gone raw, Ev.item w it gone raw ∈ evs → gone = false :=
        fun it gone raw he => hst it gone raw (List.mem_cons_of_mem _ he)
      rcases hph with hclosed | ⟨hact, hserved⟩
      · have h1 := step_closed_stays p l ev w c hcw hclosed
        have hev : evOn w ev c = c := by
          cases ev with
          | connect i => rfl
          | item i it gone raw =>
            simp only [evOn]
            by_cases hi : i = w
            · rw [if_pos hi]; simp [connEvent, hclosed]
            · rw [if_neg hi]
        rw [hev]
        exact ih (step p l ev) c h1 (Or.inl hclosed) hcl' hst'
      · obtain ⟨h1, h2⟩ := step_witness p hg l ev (hcl ev List.mem_cons_self) w c hcw hact hserved
          (fun it gone raw e => hst it gone raw (by rw [e]; exact List.mem_cons_self))
        apply ih (step p l ev) (evOn w ev c) h1 _ hcl' hst'
        -- the new record is active (still served) or closed
        cases ev with
        | connect i => exact Or.inr ⟨hact, h2 hact⟩
        | item i it gone raw =>
          simp only [evOn] at h2 ⊢
          by_cases hi : i = w
          · rw [if_pos hi] at h2 ⊢
            obtain ⟨_, hce⟩ := doRequest_connEvent c it raw hact
            by_cases hs : (doRequest c it false raw).esc.isSome = true
            · rw [if_pos hs] at hce; left; rw [hce]; rfl
            · rw [if_neg hs] at hce
              have hph' : (connEvent c it).phase = .active := by rw [hce]; simp [hact]
              exact Or.inr ⟨hph', h2 hph'⟩
          · rw [if_neg hi] at h2 ⊢
            exact Or.inr ⟨hact, h2 hact⟩
  intro l c hcw hact hs hcl hst
  exact gen evs l c hcw (Or.inr ⟨hact, hs⟩) hcl hst

/-- **C05_no_stranded_worker.**  Thread-pool server: after any client history the workers in
    `Pool.busy` are exactly (no duplicates) the accepted connections that are still open — a
    connection that ended, however it ended, has given its worker back; no connection is abandoned
    unread; `len(idle) ≤ THREADPOOL_SIZE_MIN ≤ len(idle) + len(busy)`. -/
theorem C05_no_stranded_worker (p : Params) (hk : p.kind = .thread) (hg : GoodCfg p.cfg) (l0 : Loop)
    (h0 : TInv p l0) (evs : List Ev) (hc : ∀ ev ∈ evs, ClientEv ev) :
    let l := run p l0 evs
    l.busy.Nodup ∧ (∀ i, i ∈ l.busy ↔ (i ∈ l.seen ∧ ∃ c, l.conns[i]? = some c ∧ c.phase ≠ .closed)) ∧
    l.zombie = [] ∧ l.idle ≤ p.mn ∧ p.mn ≤ l.idle + l.busy.length := by
  have h := run_tinv p hk hg evs l0 h0 hc
  exact ⟨h.nodup, h.live, h.nozombie, h.idle_le, h.total_ge⟩

/-- **C05_selector_exact.**  Multiplex server: after any client history the selector holds exactly
    (no duplicates) the connections that passed the handshake and are still open. -/
theorem C05_selector_exact (p : Params) (hk : p.kind = .multiplex) (hg : GoodCfg p.cfg) (l0 : Loop)
    (h0 : MInv l0) (evs : List Ev) (hc : ∀ ev ∈ evs, ClientEv ev) :
    let l := run p l0 evs
    l.registered.Nodup ∧ (∀ i, i ∈ l.registered ↔ ∃ c, l.conns[i]? = some c ∧ c.phase = .active) ∧
    l.zombie = [] := by
  have h := run_minv p hk hg evs l0 h0 hc
  exact ⟨h.nodup, h.reg, h.nozombie⟩

/-- **C05_accounting_restored.**  Once the attack is over — the connections that are open are
    again exactly those that held a worker before — `Pool.busy` is what it was (same workers'
    connections, same count), and the idle set is within `[len(idle) before, THREADPOOL_SIZE_MIN]`
    when the pool was at its resting size before (`idle + busy ≤ THREADPOOL_SIZE_MIN`; in general
    it is within `[MIN − busy, MIN]`).  Multiplex: the selector's registrations are what they were. -/
theorem C05_accounting_restored (p : Params) (hg : GoodCfg p.cfg) (l0 : Loop) (evs : List Ev)
    (hc : ∀ ev ∈ evs, ClientEv ev) :
    let l := run p l0 evs
    (p.kind = .thread → TInv p l0 →
      (∀ i, (i ∈ l.seen ∧ ∃ c, l.conns[i]? = some c ∧ c.phase ≠ .closed) ↔ i ∈ l0.busy) →
      l.busy.Perm l0.busy ∧ l.busy.length = l0.busy.length ∧ l.idle ≤ p.mn ∧
      p.mn ≤ l.idle + l0.busy.length ∧ (l0.idle + l0.busy.length ≤ p.mn → l0.idle ≤ l.idle)) ∧
    (p.kind = .multiplex → MInv l0 →
      (∀ i, (∃ c, l.conns[i]? = some c ∧ c.phase = .active) ↔ i ∈ l0.registered) →
      l.registered.Perm l0.registered ∧ l.registered.length = l0.registered.length) := by
  constructor
  · intro hk h0 hsame
    have h := run_tinv p hk hg evs l0 h0 hc
    have hperm : (run p l0 evs).busy.Perm l0.busy :=
      (List.perm_ext_iff_of_nodup h.nodup h0.nodup).2 (fun i => (h.live i).trans (hsame i))
    have hlen := hperm.length_eq
    refine ⟨hperm, hlen, h.idle_le, by have := h.total_ge; omega, ?_⟩
    intro hrest
    have := h.total_ge
    omega
  · intro hk h0 hsame
    have h := run_minv p hk hg evs l0 h0 hc
    have hperm : (run p l0 evs).registered.Perm l0.registered :=
      (List.perm_ext_iff_of_nodup h.nodup h0.nodup).2 (fun i => (h.reg i).trans (hsame i))
    exact ⟨hperm, hperm.length_eq⟩

/-- the handshake of a new connection on a running loop with a worker to spare succeeds -/
theorem accept_step (p : Params) (l : Loop) (hr : l.running = true) (j : Nat)
    (hj : l.conns[j]? = some {}) (hs : j ∉ l.seen)
    (hinv : (p.kind = .thread → TInv p l ∧ l.busy.length < p.mx) ∧ (p.kind = .multiplex → MInv l))
    (it : Item) (hok : (handshake it).2 = true) (raw : Cls) :
    ∃ c r, (step p l (.item j it false raw)).conns[j]? = some c ∧ c.phase = .active ∧
      c.outbox = [r] ∧ r.type = MSG_CONNECTOK ∧ c.execs = [] := by
  obtain ⟨r, hr1, hr2⟩ := handshake_ok_reply it hok
  have hdo : doHandshake {} it false = { conn := { outbox := [r] }, ok := true } := by
    simp [doHandshake, hr1, hok]
  refine ⟨{ phase := .active, outbox := [r], slot := true }, r, ?_, rfl, rfl, hr2, rfl⟩
  unfold step
  cases hk : p.kind with
  | thread =>
    obtain ⟨hti, hroom⟩ := hinv.1 hk
    have hnb : j ∉ l.busy := fun hb => hs ((hti.live j).1 hb).1
    obtain ⟨l', ht⟩ := poolTake_isSome p l j hroom
    have hconns := (poolTake_some p l j l' ht).2.1
    simp only [threadStep, hj, hti.nozombie]
    rw [if_neg (by simp), if_neg (by simpa using hnb), if_neg (by simpa using hs), if_neg (by simp [hr])]
    simp only [ht, threadItem, hdo]
    have : ({ l' with seen := l'.seen ++ [j] } : Loop).conns[j]? = some {} := by simpa [hconns] using hj
    exact setConn_get_self _ j _ _ this
  | multiplex =>
    have hmi := hinv.2 hk
    simp only [muxStep, hj, hmi.nozombie]
    rw [if_neg (by simp [hr])]
    rw [if_neg (by simpa using hs)]
    simp only [hdo]
    have : ({ l with seen := l.seen ++ [j] } : Loop).conns[j]? = some {} := hj
    simp only [if_true]
    exact setConn_get_self _ j _ _ this

/-- **C05_accepts_after.**  After any client history, on a daemon that was running and in order
    before, a new connection `j` (nothing happened on it so far) that sends an acceptable handshake
    gets CONNECTOK and becomes active — on the multiplex server always, on the thread-pool server
    whenever fewer than THREADPOOL_SIZE connections are open at that moment. -/
theorem C05_accepts_after (p : Params) (hg : GoodCfg p.cfg) (l0 : Loop) (hr : l0.running = true)
    (h0 : (p.kind = .thread → TInv p l0) ∧ (p.kind = .multiplex → MInv l0))
    (evs : List Ev) (hc : ∀ ev ∈ evs, ClientEv ev) (j : Nat) (hj : l0.conns[j]? = some {}) (hs : j ∉ l0.seen)
    (hne : ∀ ev ∈ evs, ev.conn ≠ j)
    (hroom : p.kind = .thread → (run p l0 evs).busy.length < p.mx)
    (it : Item) (hok : (handshake it).2 = true) (raw : Cls) :
    ∃ c r, (step p (run p l0 evs) (.item j it false raw)).conns[j]? = some c ∧ c.phase = .active ∧
      c.outbox = [r] ∧ r.type = MSG_CONNECTOK ∧ c.execs = [] := by
  have hf := run_frame p j evs l0 hne
  apply accept_step p (run p l0 evs) (C05_loop_survives p hg l0 hr evs hc) j (by rw [hf.1]; exact hj)
    (fun h => hs (hf.2.2.2.2.1 h)) _ it hok raw
  exact ⟨fun hk => ⟨run_tinv p hk hg evs l0 (h0.1 hk) hc, hroom hk⟩, fun hk => run_minv p hk hg evs l0 (h0.2 hk) hc⟩

/-- **C05_objects_kept.**  No event removes or replaces a registered object. -/
theorem C05_objects_kept (p : Params) (l : Loop) (evs : List Ev) : (run p l evs).objects = l.objects := by
  induction evs generalizing l with
  | nil => rfl
  | cons ev evs ih => simp only [run, List.foldl_cons]; have := ih (step p l ev); simp only [run] at this; rw [this, step_objects]

/-- the loop model is `Server.connEvent` per connection when the peer stays: what C08 / C13 prove
    about a connection's record holds under the transports' loops too (multiplex form: a new
    connection never meets a full pool) -/
theorem C05_refines_server (p : Params) (hk : p.kind = .multiplex) (hg : GoodCfg p.cfg) (l : Loop)
    (hr : l.running = true) (hm : MInv l) (i : Nat) (c : Conn) (hci : l.conns[i]? = some c)
    (hfresh : c.phase = .fresh → i ∉ l.seen) (it : Item) (raw : Cls) (hraw : isException raw = true) :
    (step p l (.item i it false raw)).conns[i]? = some (connEvent c it) := by
  unfold step
  simp only [hk, muxStep, hci, hm.nozombie]
  rw [if_neg (by simp [hr])]
  cases hp : c.phase with
  | closed => simp [connEvent, hp, hci]
  | fresh =>
    simp only
    rw [if_neg (by simpa using hfresh hp)]
    obtain ⟨he, hce⟩ := doHandshake_connEvent c it hp
    simp only at he hce
    simp only [he, hce]
    have : ({ l with seen := l.seen ++ [i] } : Loop).conns[i]? = some c := hci
    split
    · exact setConn_get_self _ i _ _ this
    · exact setConn_get_self _ i _ _ this
  | active =>
    simp only
    have hreg : i ∈ l.registered := (hm.reg i).2 ⟨c, hci, hp⟩
    rw [if_neg (by simpa using hreg)]
    obtain ⟨_, hce⟩ := doRequest_connEvent c it raw hp
    cases he : (doRequest c it false raw).esc with
    | none =>
      simp only [he, Option.isSome_none, Bool.false_eq_true, if_false] at hce
      simp only [hce]
      exact setConn_get_self l i _ c hci
    | some e =>
      have hx := doRequest_esc_exc c it false raw hraw e he
      simp only [he, Option.isSome_some, if_true] at hce
      simp only [caught_of_exception hg.muxReq hx, if_true, hce]
      exact setConn_get_self l i _ c hci

/-! ### obligations about the facts extracted from the current source -/

/-- **C05_gen_cfg_good.**  In the current source every containment layer the theorems rest on — a
    connection job's handshake, the denied-connection handshake run by the acceptor, Worker.run,
    the multiplex request handler and its handshake — ends in `except Exception`. -/
theorem C05_gen_cfg_good : GoodCfg Pyro.Gen.C05.cfg := by
  constructor <;> intro c hc <;> cases c <;> first | decide | exact absurd hc (by decide)

def allCls : List Cls :=
  [.connClosed, .pyroTimeout, .protocol, .serialize, .security, .osError, .sockTimeout, .other, .keyboardInterrupt, .baseOther]

/-- **C05_gen_classes.**  The model's `isException` is `issubclass(·, Exception)` of the real classes
    the extractor raises as representatives (Pyro5.errors / builtins / socket). -/
theorem C05_gen_classes : allCls.filter isException = Pyro.Gen.C05.exceptionClasses := by decide

/-- **C05_gen_shape.**  Source shape the model relies on: the connection job runs the disconnect
    hook and the close in a `finally`; Worker.run notifies the pool after (outside) its try; the
    multiplex server handles an inactive connection by hook, unregister, close; `denyConnection`
    closes the socket on every path (all measured by running the layers with stand-ins whose
    auxiliary socket methods fail as after a reset: the model's handlers never raise); with COMMTIMEOUT configured the accepted socket is given its timeout in the accept
    loop before the job exists (so the refusal path, run by the acceptor, cannot block for ever on a
    stalling peer) resp. before the multiplex handshake; `recv_stub` validates the first six bytes
    before it reads on (`Item.garbage` is refused at once, also from a peer that stays connected and
    silent); the fallback for an exception that cannot be serialised is `except Exception` (what
    `Outcome.raises _ false` = "reported, connection stays" rests on). -/
theorem C05_gen_shape :
    Pyro.Gen.C05.threadFinally = ["_clientDisconnect", "close"] ∧
    Pyro.Gen.C05.workerNotifiesAfterTry = true ∧
    Pyro.Gen.C05.multiplexInactive = ["_clientDisconnect", "unregister", "close"] ∧
    Pyro.Gen.C05.denyAlwaysCloses = true ∧
        Pyro.Gen.C05.threadTimeoutBeforeJob = true ∧
    Pyro.Gen.C05.multiplexTimeoutBeforeHandshake = true ∧
    Pyro.Gen.C05.headerPrefixValidatedFirst = true ∧
    Pyro.Gen.C05.exceptionFallbackCatchesAll = true := by decide

/-- **C05_current_source.**  The property for the ladders of the current source, from a daemon
    that has just started: the loop is running, no worker is stranded / the selector is exact. -/
theorem C05_current_source (kind : Kind) (mn mx n : Nat) (objs : List Nat) (evs : List Ev)
    (hc : ∀ ev ∈ evs, ClientEv ev) :
    let p : Params := { kind, mn, mx, cfg := Pyro.Gen.C05.cfg }
    let l := run p (init p n objs) evs
    l.running = true ∧ l.zombie = [] ∧ l.objects = objs ∧
    (kind = .thread → ∀ i, i ∈ l.busy ↔ (i ∈ l.seen ∧ ∃ c, l.conns[i]? = some c ∧ c.phase ≠ .closed)) ∧
    (kind = .multiplex → ∀ i, i ∈ l.registered ↔ ∃ c, l.conns[i]? = some c ∧ c.phase = .active) := by
  intro p l
  have hg : GoodCfg p.cfg := C05_gen_cfg_good
  refine ⟨C05_loop_survives p hg _ rfl evs hc, ?_, C05_objects_kept p _ evs, ?_, ?_⟩
  · cases kind with
    | thread => exact (run_tinv p rfl hg evs _ (tinv_init p n objs) hc).nozombie
    | multiplex => exact (run_minv p rfl hg evs _ (minv_init p n objs) hc).nozombie
  · intro hk; subst hk; exact (run_tinv p rfl hg evs _ (tinv_init p n objs) hc).live
  · intro hk; subst hk; exact (run_minv p rfl hg evs _ (minv_init p n objs) hc).reg

/-! ### what the model exhibits when a layer is missing, and where the statement ends -/

private def okShake : Item := .msg { type := 1, serId := 2, seq := 7, body := .handshake true true .accept }
private def call (tok : Nat) (o : Outcome) : Item :=
  .msg { type := 4, serId := 2, seq := 8, body := .call (.method { token := tok, outcome := o }) }

/-- the ladders of the tree BEFORE fixes/C05-deny-contained.patch: `denyConnection` had no try -/
def cfgUnguardedDeny : Cfg := { Pyro.Gen.C05.cfg with thrDeny := [] }

/-- **C05_unguarded_deny_stops.**  With the denied-connection handshake uncontained (the source
    before the fix), one client history stops the thread-pool server's request loop: the pool
    (size 1) is busy with connection 0, connection 1 sends garbage and is gone when the acceptor
    answers.  The oracle replays exactly this on the real code. -/
theorem C05_unguarded_deny_stops :
    let p : Params := { kind := .thread, mn := 1, mx := 1, cfg := cfgUnguardedDeny }
    (run p (init p 2 []) [.item 0 okShake false .other, .item 1 .garbage true .other]).running = false := by
  decide

/-- the same history on the current ladders: contained -/
example :
    let p : Params := { kind := .thread, mn := 1, mx := 1, cfg := Pyro.Gen.C05.cfg }
    let l := run p (init p 2 []) [.item 0 okShake false .other, .item 1 .garbage true .other]
    l.running = true ∧ l.busy = [0] ∧ (l.conns[1]?.map (·.phase)) = some .closed := by decide

/-- where the statement ends: a method raising a BaseException that is not an Exception strands
    the worker (thread) / stops the loop (multiplex) — `ClientEv` excludes exactly this -/
example :
    let p : Params := { kind := .thread, mn := 1, mx := 2, cfg := Pyro.Gen.C05.cfg }
    let l := run p (init p 1 []) [.item 0 okShake false .other,
      .item 0 (call 5 (.raises .generic true)) false .baseOther]
    -- not re-raised by handleRequest (not a callback), so nothing happens …
    l.busy = [0] ∧ l.zombie = [] := by decide
example :
    let p : Params := { kind := .thread, mn := 1, mx := 2, cfg := Pyro.Gen.C05.cfg }
    let l := run p (init p 1 []) [.item 0 okShake false .other, .item 0 .garbage false .baseOther]
    l.busy = [0] ∧ l.zombie = [0] ∧ (l.conns[0]?.map (·.phase)) = some .closed := by decide
example :
    let p : Params := { kind := .multiplex, mn := 1, mx := 2, cfg := Pyro.Gen.C05.cfg }
    (run p (init p 1 []) [.item 0 okShake false .other, .item 0 .garbage false .keyboardInterrupt]).running = false := by
  decide

/-! ### non-vacuity: a witness among hostile connections, both server types -/
private def history : List Ev :=
  [ .item 0 okShake false .other,                                   -- witness connects
    .item 1 .garbage false .protocol,                                -- garbage before the handshake
    .item 0 (call 1 (.returns .ok)) false .other,
    .item 2 okShake false .other,
    .item 2 (call 2 (.raises .generic false)) false .other,          -- unserialisable exception: reported, stays
    .item 2 (.msg { type := 4, serId := 42, seq := 1, body := .undecodable false }) true .other,  -- unknown serializer, peer gone
    .connect 3, .item 3 .cut false .other,                           -- disconnect during the handshake
    .item 0 (call 3 (.returns .ok)) false .other,
    .item 4 okShake true .other ]                                    -- handshake, gone before the answer

example :
    let p : Params := { kind := .thread, mn := 2, mx := 3, cfg := Pyro.Gen.C05.cfg }
    let l := run p (init p 6 [1, 2]) history
    l.running = true ∧ l.busy = [0] ∧ l.idle = 1 ∧ l.objects = [1, 2] ∧
    (l.conns[0]?.map (·.execs)) = some [1, 3] ∧ (l.conns[0]?.map (·.outbox.length)) = some 3 ∧
    (l.conns[2]?.map (·.execs)) = some [2] ∧ (l.conns[2]?.map (·.phase)) = some .closed := by decide

example :
    let p : Params := { kind := .multiplex, mn := 2, mx := 3, cfg := Pyro.Gen.C05.cfg }
    let l := run p (init p 6 [1, 2]) history
    l.running = true ∧ l.registered = [0] ∧
    (l.conns[0]?.map (·.execs)) = some [1, 3] ∧ (l.conns[4]?.map (·.phase)) = some .closed := by decide

example : ∀ ev ∈ history, ClientEv ev := by decide
example : itemsOf 0 history = [okShake, call 1 (.returns .ok), call 3 (.returns .ok)] := by decide

end Pyro.C05
