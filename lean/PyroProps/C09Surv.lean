/-
  C09 — "dropped when the connection ends", at full strength: a session instance never survives its connection.
  `C09_session_dropped` says that the NEXT call on the closed connection creates a new instance (if its creation
  succeeds); the theorems here say that the old instance never serves ANY later call — on whatever connection, for
  whatever class, in whatever mode, whether creations in between fail or not.
-/
import PyroModel.Instances
import PyroProofs.Instances
import PyroProps.C09

namespace Pyro.C09

open Pyro Pyro.Inst

/-- an index that is used up and sits in no slot at all is never handed out again -/
theorem gone_forever (ts : Tests) (spec : Nat → ClassSpec) (x : Nat) (h : List Event) (s : State) (j c k : Nat)
    (o : Outcome) (b : Instance) (cr cc : Bool) (hx : x < s.next)
    (hgone : ∀ sl b, s.tab sl = some b → b.idx ≠ x) (hj : h[j]? = some (.call c k o))
    (ht : (trace ts spec s h)[j]? = some (.served b cr cc)) : b.idx ≠ x :=
  avoid ts spec (fun _ => True) x h s j c k o b cr cc hx (fun sl _ b hb => hgone sl b hb) hj (fun _ _ => trivial) ht

/-- an index held by no slot other than `sess c k`: once connection `c` (not keep_open) is closed, it is gone -/
theorem gone_after_close (ts : Tests) (spec : Nat → ClassSpec) (x c k : Nat) :
    ∀ (h : List Event) (s : State) (m j c' k' : Nat) (o : Outcome) (b : Instance) (cr cc : Bool),
      x < s.next → (∀ sl, sl ≠ .sess c k → ∀ b, s.tab sl = some b → b.idx ≠ x) →
      s.keep c = false → (∀ n, n < m → h[n]? ≠ some (.openConn c true)) →
      h[m]? = some (.close c) → m < j → h[j]? = some (.call c' k' o) →
      (trace ts spec s h)[j]? = some (.served b cr cc) → b.idx ≠ x := by
  intro h
  induction h with
  | nil => intro s m j c' k' o b cr cc _ _ _ _ hm; simp at hm
  | cons e es ih =>
    intro s m j c' k' o b cr cc hx hP hk hno hm hmj hj ht
    cases j with
    | zero => omega
    | succ j =>
      simp only [List.getElem?_cons_succ] at hj
      rw [trace_succ] at ht
      cases m with
      | zero =>
        simp only [List.getElem?_cons_zero, Option.some.injEq] at hm
        subst hm
        refine gone_forever ts spec x es _ j c' k' o b cr cc
          (Nat.lt_of_lt_of_le hx (next_mono ts spec s _)) ?_ hj ht
        intro sl b' hb'
        simp only [stepEv, hk, Bool.false_eq_true, if_false] at hb'
        by_cases hsl : sl = .sess c k
        · subst hsl; rw [clearConn_own] at hb'; cases hb'
        · exact hP sl hsl b' (clearConn_some _ _ _ _ hb')
      | succ m =>
        simp only [List.getElem?_cons_succ] at hm
        refine ih _ m j c' k' o b cr cc (Nat.lt_of_lt_of_le hx (next_mono ts spec s e))
          (avoid_step ts spec s e (fun sl => sl ≠ .sess c k) x hx hP) ?_ ?_ hm (Nat.lt_of_succ_lt_succ hmj) hj ht
        · exact keep_step ts spec s e c hk (by
            intro heq; exact hno 0 (Nat.succ_pos _) (by simp [heq]))
        · intro n hn
          have := hno (n + 1) (Nat.succ_lt_succ hn)
          simpa using this

theorem never_survives_general (ts : Tests) (spec : Nat → ClassSpec) (c k : Nat) (a : Instance) :
    ∀ (h : List Event) (s : State) (i m j c' k' : Nat) (o o' : Outcome) (x y : Bool) (b : Instance) (cr cc : Bool),
      WF s → s.keep c = false → (∀ n, n < m → h[n]? ≠ some (.openConn c true)) →
      (spec k).mode = .session → h[i]? = some (.call c k o) → (trace ts spec s h)[i]? = some (.served a x y) →
      i < m → h[m]? = some (.close c) → m < j → h[j]? = some (.call c' k' o') →
      (trace ts spec s h)[j]? = some (.served b cr cc) → b.idx ≠ a.idx := by
  intro h
  induction h with
  | nil => intro s i m j c' k' o o' x y b cr cc _ _ _ _ hi; simp at hi
  | cons e es ih =>
    intro s i m j c' k' o o' x y b cr cc hwf hk hno hmode hi hti him hm hmj hj htj
    have hke : (stepEv ts spec s e).1.keep c = false :=
      keep_step ts spec s e c hk (by
        intro heq; exact hno 0 (by omega) (by simp [heq]))
    cases m with
    | zero => omega
    | succ m =>
      cases j with
      | zero => omega
      | succ j =>
        simp only [List.getElem?_cons_succ] at hm hj
        rw [trace_succ] at htj
        have hno' : ∀ n, n < m → es[n]? ≠ some (.openConn c true) := by
          intro n hn
          have := hno (n + 1) (Nat.succ_lt_succ hn)
          simpa using this
        cases i with
        | zero =>
          simp only [List.getElem?_cons_zero, Option.some.injEq] at hi
          subst hi
          rw [trace_zero] at hti
          simp only [Option.some.injEq] at hti
          have hst := served_stored ts spec s c k o (.sess c k) a x y (by rw [hmode]; rfl) hti
          have hwf' := wf_step ts spec s (.call c k o) hwf
          have hb := served_bound ts spec s (.call c k o) a x y hwf hti
          refine gone_after_close ts spec a.idx c k es _ m j c' k' o' b cr cc hb ?_ hke hno' hm
            (Nat.lt_of_succ_lt_succ hmj) hj htj
          intro sl hsl b' hb' heq
          exact hsl (hwf'.inj sl (.sess c k) b' a hb' hst heq)
        | succ i =>
          simp only [List.getElem?_cons_succ] at hi
          rw [trace_succ] at hti
          exact ih _ i m j c' k' o o' x y b cr cc (wf_step ts spec s e hwf) hke hno' hmode hi hti
            (Nat.lt_of_succ_lt_succ him) hm (Nat.lt_of_succ_lt_succ hmj) hj htj

/-- **C09_session_never_survives.**  (Either operator.)  In every history: an instance that served a `session` call on
    connection `c` serves NO call at all after `c` (not `keep_open`) has been closed — not on a new connection under the
    same label, not on any other connection, not for any other class or mode; whatever user code does in between. -/
theorem C09_session_never_survives (ts : Tests) (spec : Nat → ClassSpec) (h : List Event) (i m j c k c' k' : Nat)
    (o o' : Outcome) (a b : Instance) (x y cr cc : Bool)
    (hno : ∀ n, n < m → h[n]? ≠ some (.openConn c true))
    (hmode : (spec k).mode = .session) (hi : h[i]? = some (.call c k o))
    (hti : (trace ts spec State.init h)[i]? = some (.served a x y))
    (him : i < m) (hm : h[m]? = some (.close c)) (hmj : m < j) (hj : h[j]? = some (.call c' k' o'))
    (htj : (trace ts spec State.init h)[j]? = some (.served b cr cc)) : b.idx ≠ a.idx :=
  never_survives_general ts spec c k a h State.init i m j c' k' o o' x y b cr cc wf_init rfl hno hmode hi hti him hm
    hmj hj htj

/-- non-vacuity: session instance #0 serves connection 0 twice, the connection is closed, and the calls after that — on
    the same label, on another connection, on a `single` class — are served by #1, #2, #3 -/
example :
    trace fixed (fun k => if k = 0 then ⟨.session, .none⟩ else ⟨.single, .callable⟩) State.init
      [.call 0 0 (.ok false 7), .call 0 0 (.ok true 7), .close 0, .call 0 0 (.ok false 7), .call 1 0 (.ok false 7),
       .call 0 1 (.ok false 7)]
    = [.served ⟨0, false, 7⟩ true false, .served ⟨0, false, 7⟩ false false, .done, .served ⟨1, false, 7⟩ true false,
       .served ⟨2, false, 7⟩ true false, .served ⟨3, false, 7⟩ true true] := by decide

end Pyro.C09
