/-
  C20 — The HTTP gateway forwards only authorised requests, and forwards them faithfully.
  Property theorems about `PyroModel.Gateway` (model of Pyro5/utils/httpgateway.py, with
  fixes/C20-dupkey.patch and fixes/C20-proxy-local-member.patch applied).
  Quantifiers: every configuration (key, expose pattern), every request (method, path, parsed
  query, key header, options, correlation id) and every backend (regex function, name server,
  proxies, remote objects) — no bound on any of them.
-/
import PyroModel.Gateway
import PyroModel.Gen.C20
import PyroProofs.Gateway

set_option linter.unusedSimpArgs false

namespace Pyro.C20

open Pyro Pyro.Gateway

/-- The object and member a request names, when it is a call request: a GET or POST whose path
    (leading slashes dropped) is `pyro/<rest>` with `<rest>` non-empty and of the form
    `<object>/<member>` on its first line. -/
def callTarget (req : Req) : Option (Str × Str) :=
  match routed req with
  | some rest => if rest = [] then none else splitPath rest
  | none => none

/-- the gateway's own index page: GET or POST of exactly `pyro/` -/
def IsHomepage (req : Req) : Prop := routed req = some []

/-- the request names `obj`/`member`, presents the configured key (if one is configured), and the
    object name matches the configured expose pattern (if one is configured) -/
def Authorised (cfg : Cfg) (be : Backend) (req : Req) (obj member : Str) : Prop :=
  callTarget req = some (obj, member) ∧ keyOK cfg req (singlyfy req.query) = true ∧
    patternOK cfg be obj = true

/-- the query parameters that are passed on: all of them, minus `$key` when a key is configured -/
abbrev fwdParams (cfg : Cfg) (req : Req) : Params := forwardParams cfg (singlyfy req.query)

/-- the replies by which the gateway refuses a request (plus its redirect and the CORS preflight answer) -/
def Refusal (req : Req) (r : Response) : Prop :=
  (r = resp302 ∧ lstripSlash req.path = []) ∨ r = resp404 ∨ r = resp405 ∨
  (r = respOptions ∧ req.method = sOPTIONS) ∨ r = respBadKey ∨ r = respDenied

theorem callTarget_some {req : Req} {obj member : Str} (h : callTarget req = some (obj, member)) :
    ∃ rest, routed req = some rest ∧ rest ≠ [] ∧ splitPath rest = some (obj, member) := by
  unfold callTarget at h
  cases hr : routed req with
  | none => rw [hr] at h; simp at h
  | some rest =>
    rw [hr] at h
    by_cases he : rest = []
    · simp [he] at h
    · simp only [he, if_false] at h
      exact ⟨rest, rfl, he, h⟩

/-- an authorised request is answered by `forward`, whatever else is in it -/
theorem app_authorised {cfg : Cfg} {be : Backend} {req : Req} {obj member : Str}
    (h : Authorised cfg be req obj member) :
    app cfg be req = (.http (forward be req obj member (fwdParams cfg req)).1,
                      (forward be req obj member (fwdParams cfg req)).2) := by
  obtain ⟨ht, hk, hp⟩ := h
  obtain ⟨rest, hr, hne, hs⟩ := callTarget_some ht
  rcases app_cases cfg be req with ⟨hr', _⟩ | ⟨hr', _⟩ | ⟨rest', hr', _, ha⟩
  · rw [hr] at hr'; simp at hr'
  · rw [hr] at hr'; simp only [Option.some.injEq] at hr'; exact absurd hr' hne
  · rw [hr] at hr'; simp only [Option.some.injEq] at hr'; subst hr'
    rw [ha]
    rcases process_cases cfg be req rest (singlyfy req.query) hne with ⟨hs', _⟩ | ⟨o, m, hs', hc⟩
    · rw [hs] at hs'; simp at hs'
    · rw [hs] at hs'
      simp only [Option.some.injEq, Prod.mk.injEq] at hs'
      obtain ⟨rfl, rfl⟩ := hs'
      rcases hc with ⟨hk', _⟩ | ⟨_, hp', _⟩ | ⟨_, _, hproc⟩
      · rw [hk] at hk'; simp at hk'
      · rw [hp] at hp'; simp at hp'
      · exact hproc

/-- every request is the index page, or refused without any action, or authorised -/
theorem app_char (cfg : Cfg) (be : Backend) (req : Req) :
    (IsHomepage req ∧ app cfg be req = homepage cfg be)
    ∨ (¬ IsHomepage req ∧ (∀ o m, ¬ Authorised cfg be req o m) ∧ (app cfg be req).2 = [] ∧
        ∃ r, (app cfg be req).1 = .http r ∧ Refusal req r)
    ∨ (¬ IsHomepage req ∧ ∃ o m, Authorised cfg be req o m) := by
  rcases app_cases cfg be req with ⟨hr, ha, r, h1, h2⟩ | ⟨hr, ha⟩ | ⟨rest, hr, hne, ha⟩
  · right; left
    refine ⟨by simp [IsHomepage, hr], ?_, ha, r, h1, ?_⟩
    · intro o m hA
      have := hA.1
      simp [callTarget, hr] at this
    · rcases h2 with h | h | h | h
      · exact Or.inl h
      · exact Or.inr (Or.inl h)
      · exact Or.inr (Or.inr (Or.inl h))
      · exact Or.inr (Or.inr (Or.inr (Or.inl h)))
  · left; exact ⟨hr, ha⟩
  · have hnh : ¬ IsHomepage req := by
      simp only [IsHomepage, hr, Option.some.injEq]; exact hne
    have hct : callTarget req = splitPath rest := by simp [callTarget, hr, hne]
    rcases process_cases cfg be req rest (singlyfy req.query) hne with ⟨hs, hp⟩ | ⟨o, m, hs, hc⟩
    · right; left
      refine ⟨hnh, ?_, by rw [ha, hp], resp404, by rw [ha, hp], Or.inr (Or.inl rfl)⟩
      intro o m hA
      have := hA.1
      rw [hct, hs] at this; simp at this
    · rcases hc with ⟨hk, hp⟩ | ⟨_, hpat, hp⟩ | ⟨hk, hpat, _⟩
      · right; left
        refine ⟨hnh, ?_, by rw [ha, hp], respBadKey, by rw [ha, hp], Or.inr (Or.inr (Or.inr (Or.inr (Or.inl rfl))))⟩
        intro o' m' hA
        rw [hA.2.1] at hk; simp at hk
      · right; left
        refine ⟨hnh, ?_, by rw [ha, hp], respDenied, by rw [ha, hp], Or.inr (Or.inr (Or.inr (Or.inr (Or.inr rfl))))⟩
        intro o' m' hA
        have h1 := hA.1
        rw [hct, hs] at h1
        simp only [Option.some.injEq, Prod.mk.injEq] at h1
        have h2 := hA.2.2
        rw [← h1.1, hpat] at h2; simp at h2
      · right; right
        exact ⟨hnh, o, m, by rw [hct, hs], hk, hpat⟩

/-! ## Only authorised requests cause Pyro traffic -/

/-- **C20_no_traffic.**  If the gateway contacts the name server, a proxy or a remote object at
    all (its action list is not empty), then the request is either the gateway's own index page or
    a call request that presents the configured key and whose object name matches the configured
    expose pattern. -/
theorem C20_no_traffic (cfg : Cfg) (be : Backend) (req : Req) (h : (app cfg be req).2 ≠ []) :
    IsHomepage req ∨ ∃ obj member, Authorised cfg be req obj member := by
  rcases app_char cfg be req with ⟨hh, _⟩ | ⟨_, _, hnil, _⟩ | ⟨_, o, m, hA⟩
  · exact Or.inl hh
  · exact absurd hnil h
  · exact Or.inr ⟨o, m, hA⟩

/-- **C20_refused.**  Every request that is neither the index page nor an authorised call request
    is answered by the gateway itself, without any Pyro traffic: with 403, 404 or 405 — or, for the
    two requests that are not call requests at all, 302 (empty path: redirect to the index page)
    and 200 `OK` (the CORS preflight method OPTIONS). -/
theorem C20_refused (cfg : Cfg) (be : Backend) (req : Req)
    (hh : ¬ IsHomepage req) (ha : ¬ ∃ obj member, Authorised cfg be req obj member) :
    (app cfg be req).2 = [] ∧
    ∃ r, (app cfg be req).1 = .http r ∧
      (r.status = 403 ∨ r.status = 404 ∨ r.status = 405 ∨
       (r.status = 302 ∧ lstripSlash req.path = []) ∨
       (r = respOptions ∧ req.method = sOPTIONS)) := by
  rcases app_char cfg be req with ⟨h, _⟩ | ⟨_, _, hnil, r, hr, hf⟩ | ⟨_, o, m, hA⟩
  · exact absurd h hh
  · refine ⟨hnil, r, hr, ?_⟩
    rcases hf with ⟨h, hp⟩ | h | h | h | h | h
    · subst h; exact Or.inr (Or.inr (Or.inr (Or.inl ⟨rfl, hp⟩)))
    · subst h; exact Or.inr (Or.inl rfl)
    · subst h; exact Or.inr (Or.inr (Or.inl rfl))
    · exact Or.inr (Or.inr (Or.inr (Or.inr h)))
    · subst h; exact Or.inl rfl
    · subst h; exact Or.inl rfl
  · exact absurd ⟨o, m, hA⟩ ha

/-- **C20_no_escape.**  No request other than the index page makes an exception leave `pyro_app`:
    the gateway always answers with an HTTP response of its own.  (False for the unfixed tree:
    a repeated `$key` parameter raised AttributeError — finding F20.) -/
theorem C20_no_escape (cfg : Cfg) (be : Backend) (req : Req) (hh : ¬ IsHomepage req) :
    ∃ r, (app cfg be req).1 = .http r := by
  rcases app_char cfg be req with ⟨h, _⟩ | ⟨_, _, _, r, hr, _⟩ | ⟨_, o, m, hA⟩
  · exact absurd h hh
  · exact ⟨r, hr⟩
  · rw [app_authorised hA]; exact ⟨_, rfl⟩

/-- **C20_dupkey_refused.**  With a key configured and no key header, a `$key` parameter that is
    still a list after `singlyfy_parameters` (it was repeated in the query string) never passes the
    key check — whatever the values are; the request is refused like any other keyless one. -/
theorem C20_dupkey_refused (cfg : Cfg) (be : Backend) (req : Req) (vs : List Str)
    (hk : keyConfigured cfg = true) (hh : req.keyHeader = [])
    (hd : lookupP sKey (singlyfy req.query) = some (.many vs)) (hn : ¬ IsHomepage req) :
    keyOK cfg req (singlyfy req.query) = false ∧ (app cfg be req).2 = [] ∧
      ∃ r, (app cfg be req).1 = .http r := by
  have hko : keyOK cfg req (singlyfy req.query) = false := by
    simp [keyOK, hk, presentedKey, hh, hd]
  refine ⟨hko, ?_, C20_no_escape cfg be req hn⟩
  have := C20_refused cfg be req hn (by
    rintro ⟨o, m, hA⟩
    rw [hA.2.1] at hko; simp at hko)
  exact this.1

/-! ## Authorised requests are forwarded faithfully -/

theorem forward_actions (be : Backend) (req : Req) (obj member : Str) (ps : Params) :
    ∀ a ∈ (forward be req obj member ps).2,
      a = .getNameServer ∨ a = .lookup obj ∨
      ∃ uri, be.lookup obj = .ok uri ∧
        (a = .connect uri ∨ a = .getMetadata uri ∨ a = .release uri ∨
         (∃ ow, a = .call uri member ps ow) ∨ (a = .getattr uri member ∧ ps = [])) := by
  intro a ha
  unfold forward at ha
  split at ha
  · simp only [List.mem_singleton] at ha; exact Or.inl ha
  · split at ha
    · simp only [List.mem_cons, List.not_mem_nil, or_false] at ha
      rcases ha with h | h
      · exact Or.inl h
      · exact Or.inr (Or.inl h)
    · rename_i uri hlk
      split at ha
      · simp only [List.mem_cons, List.not_mem_nil, or_false] at ha
        rcases ha with h | h | h
        · exact Or.inl h
        · exact Or.inr (Or.inl h)
        · exact Or.inr (Or.inr ⟨uri, hlk, Or.inl h⟩)
      · simp only [List.cons_append, List.nil_append, List.mem_cons, List.mem_append,
          List.not_mem_nil, or_false] at ha
        rcases ha with h | h | h | h | h
        · exact Or.inl h
        · exact Or.inr (Or.inl h)
        · exact Or.inr (Or.inr ⟨uri, hlk, Or.inl h⟩)
        · refine Or.inr (Or.inr ⟨uri, hlk, ?_⟩)
          unfold withProxy at h
          split at h
          · simp at h
          · split at h
            · simp only [List.mem_singleton] at h; exact Or.inr (Or.inl h)
            · dsimp only at h
              split at h
              · simp only [List.mem_singleton] at h; exact Or.inr (Or.inl h)
              · split at h
                · split at h
                  · simp only [List.mem_singleton] at h; exact Or.inr (Or.inl h)
                  · rename_i hps
                    simp only [List.mem_cons, List.not_mem_nil, or_false] at h
                    rcases h with h | h
                    · exact Or.inr (Or.inl h)
                    · exact Or.inr (Or.inr (Or.inr (Or.inr ⟨h, by simpa using hps⟩)))
                · split at h
                  · split at h
                    · simp only [List.mem_singleton] at h; exact Or.inr (Or.inl h)
                    · simp only [List.mem_cons, List.not_mem_nil, or_false] at h
                      rcases h with h | h
                      · exact Or.inr (Or.inl h)
                      · exact Or.inr (Or.inr (Or.inr (Or.inl ⟨_, h⟩)))
                  · simp only [List.mem_singleton] at h; exact Or.inr (Or.inl h)
        · exact Or.inr (Or.inr ⟨uri, hlk, Or.inr (Or.inr (Or.inl h))⟩)

/-- **C20_actions_shape.**  Whatever the backend does, everything an authorised request causes
    concerns the named object only: the name-server handle, one lookup of exactly the named object,
    and — on the proxy for the URI that lookup returned — connect, metadata, release and an
    invocation that is either a call of exactly the named member with exactly the forwarded query
    parameters, or (only when there are no parameters) a read of exactly the named attribute. -/
theorem C20_actions_shape (cfg : Cfg) (be : Backend) (req : Req) (obj member : Str)
    (hA : Authorised cfg be req obj member) :
    ∀ a ∈ (app cfg be req).2,
      a = .getNameServer ∨ a = .lookup obj ∨
      ∃ uri, be.lookup obj = .ok uri ∧
        (a = .connect uri ∨ a = .getMetadata uri ∨ a = .release uri ∨
         (∃ ow, a = .call uri member (fwdParams cfg req) ow) ∨
         (a = .getattr uri member ∧ fwdParams cfg req = [])) := by
  rw [app_authorised hA]
  exact forward_actions be req obj member (fwdParams cfg req)

theorem withProxy_invoke_le (be : Backend) (req : Req) (uri member : Str) (ps : Params) :
    ((withProxy be req uri member ps).2.filter isInvoke).length ≤ 1 := by
  unfold withProxy
  split
  · simp
  · split
    · simp [isInvoke]
    · dsimp only
      split
      · simp [isInvoke]
      · split
        · split <;> simp [List.filter_cons, isInvoke]
        · split
          · split <;> simp [List.filter_cons, isInvoke]
          · simp [isInvoke]

theorem forward_invoke_le (be : Backend) (req : Req) (obj member : Str) (ps : Params) :
    ((forward be req obj member ps).2.filter isInvoke).length ≤ 1 := by
  unfold forward
  split
  · simp [isInvoke]
  · split
    · simp [isInvoke]
    · split
      · simp [isInvoke]
      · rename_i uri _ _ _
        have := withProxy_invoke_le be req uri member ps
        simp only [List.cons_append, List.nil_append, List.filter_cons, isInvoke, Bool.false_eq_true,
          if_false, List.filter_append, List.filter_nil, List.append_nil]
        exact this

/-- **C20_at_most_one_invocation.**  No request — authorised or not, whatever the backend answers —
    makes the gateway invoke more than one method or attribute. -/
theorem C20_at_most_one_invocation (cfg : Cfg) (be : Backend) (req : Req) :
    ((app cfg be req).2.filter isInvoke).length ≤ 1 := by
  rcases app_char cfg be req with ⟨_, ha⟩ | ⟨_, _, hnil, _⟩ | ⟨_, o, m, hA⟩
  · rw [ha, filter_invoke_of_listing _ (homepage_listing cfg be)]; simp
  · rw [hnil]; simp
  · rw [app_authorised hA]
    exact forward_invoke_le be req o m (fwdParams cfg req)

/-- the backend lets the request through to the object: name server reachable, name known, proxy
    created, correlation id (if any) well formed, metadata `m` obtained -/
structure Reaches (be : Backend) (req : Req) (obj uri : Str) (m : Meta) : Prop where
  ns : be.nsGet = none
  lk : be.lookup obj = .ok uri
  conn : be.connect uri = none
  corr : req.corr ≠ .invalid
  md : be.getMeta uri = .ok m

theorem forward_reaches {be : Backend} {req : Req} {obj uri member : Str} {m : Meta} {ps : Params}
    (hR : Reaches be req obj uri m) :
    forward be req obj member ps =
      ((withProxy be req uri member ps).1,
       [.getNameServer, .lookup obj, .connect uri] ++ (withProxy be req uri member ps).2 ++ [.release uri]) := by
  unfold forward
  simp [hR.ns, hR.lk, hR.conn]

/-- **C20_faithful_call.**  An authorised request for a member that the remote object's metadata
    lists as a method (and not as an attribute, and that is not the pseudo-member `$meta`) makes
    the gateway perform exactly: get the name server, look up exactly the named object, create the
    proxy for the URI returned, fetch its metadata, invoke exactly the named method with exactly
    the query parameters (minus `$key` when a key is configured) exactly once, release the proxy —
    and the HTTP reply is the reply for that invocation's result.  (A query parameter called
    `self` cannot be passed by Pyro's `_RemoteMethod.__call__(self, ...)`: see `C20_self_param`.) -/
theorem C20_faithful_call (cfg : Cfg) (be : Backend) (req : Req) (obj member uri : Str) (m : Meta)
    (hA : Authorised cfg be req obj member) (hR : Reaches be req obj uri m)
    (hmeta : member ≠ sMeta) (hattr : m.attrs.contains member = false)
    (hmeth : m.methods.contains member = true) (hself : lookupP sSelf (fwdParams cfg req) = none) :
    app cfg be req =
      (.http (replyOfResult (onewayOpt req)
          (be.call uri member (fwdParams cfg req) (onewayOpt req || m.oneway.contains member))),
       [.getNameServer, .lookup obj, .connect uri, .getMetadata uri,
        .call uri member (fwdParams cfg req) (onewayOpt req || m.oneway.contains member),
        .release uri]) := by
  rw [app_authorised hA, forward_reaches hR]
  have hc := hR.corr
  unfold withProxy
  simp only [List.contains_eq_mem, decide_eq_true_eq, decide_eq_false_iff_not] at *
  cases hcr : req.corr with
  | invalid => exact absurd hcr hc
  | absent => simp [hR.md, hmeta, hattr, hmeth, hself]
  | valid => simp [hR.md, hmeta, hattr, hmeth, hself]

/-- **C20_faithful_attr.**  Same for a member the metadata lists as an attribute, requested
    without parameters: exactly one read of exactly that attribute of exactly that object. -/
theorem C20_faithful_attr (cfg : Cfg) (be : Backend) (req : Req) (obj member uri : Str) (m : Meta)
    (hA : Authorised cfg be req obj member) (hR : Reaches be req obj uri m)
    (hmeta : member ≠ sMeta) (hattr : m.attrs.contains member = true)
    (hps : fwdParams cfg req = []) :
    app cfg be req =
      (.http (replyOfResult (onewayOpt req) (be.getattr uri member)),
       [.getNameServer, .lookup obj, .connect uri, .getMetadata uri, .getattr uri member,
        .release uri]) := by
  rw [app_authorised hA, forward_reaches hR]
  have hc := hR.corr
  unfold withProxy
  simp only [List.contains_eq_mem, decide_eq_true_eq, decide_eq_false_iff_not] at *
  cases hcr : req.corr with
  | invalid => exact absurd hcr hc
  | absent => simp [hR.md, hmeta, hattr, hps]
  | valid => simp [hR.md, hmeta, hattr, hps]

/-- **C20_faithful_meta.**  The pseudo-member `$meta` only reports the object's metadata: 200 with
    the method and attribute names, and nothing is invoked. -/
theorem C20_faithful_meta (cfg : Cfg) (be : Backend) (req : Req) (obj uri : Str) (m : Meta)
    (hA : Authorised cfg be req obj sMeta) (hR : Reaches be req obj uri m) :
    app cfg be req =
      (.http ⟨200, .json, true, .metaInfo m.methods m.attrs⟩,
       [.getNameServer, .lookup obj, .connect uri, .getMetadata uri, .release uri]) := by
  rw [app_authorised hA, forward_reaches hR]
  have hc := hR.corr
  unfold withProxy
  simp only [List.contains_eq_mem, decide_eq_true_eq, decide_eq_false_iff_not] at *
  cases hcr : req.corr with
  | invalid => exact absurd hcr hc
  | absent => simp [hR.md]
  | valid => simp [hR.md]

/-- **C20_unknown_member.**  A member name that the remote object's metadata lists neither as a
    method nor as an attribute (and that is not `$meta`) is answered 500 AttributeError and nothing
    is invoked — in particular for names that are attributes of the gateway's own proxy object
    (`_pyroInvoke`, `_pyroRelease`, …; finding F20b on the unfixed tree). -/
theorem C20_unknown_member (cfg : Cfg) (be : Backend) (req : Req) (obj member uri : Str) (m : Meta)
    (hA : Authorised cfg be req obj member) (hR : Reaches be req obj uri m)
    (hmeta : member ≠ sMeta) (hattr : m.attrs.contains member = false)
    (hmeth : m.methods.contains member = false) :
    app cfg be req =
      (.http (resp500 .attribute),
       [.getNameServer, .lookup obj, .connect uri, .getMetadata uri, .release uri]) := by
  rw [app_authorised hA, forward_reaches hR]
  have hc := hR.corr
  unfold withProxy
  simp only [List.contains_eq_mem, decide_eq_true_eq, decide_eq_false_iff_not] at *
  cases hcr : req.corr with
  | invalid => exact absurd hcr hc
  | absent => simp [hR.md, hmeta, hattr, hmeth]
  | valid => simp [hR.md, hmeta, hattr, hmeth]

/-- **C20_self_param.**  The one call the gateway cannot express: with a query parameter named
    `self` the method call fails inside the gateway (TypeError, 500) before anything is sent. -/
theorem C20_self_param (cfg : Cfg) (be : Backend) (req : Req) (obj member uri : Str) (m : Meta)
    (hA : Authorised cfg be req obj member) (hR : Reaches be req obj uri m)
    (hmeta : member ≠ sMeta) (hattr : m.attrs.contains member = false)
    (hmeth : m.methods.contains member = true) (v : PVal)
    (hself : lookupP sSelf (fwdParams cfg req) = some v) :
    app cfg be req =
      (.http (resp500 .type),
       [.getNameServer, .lookup obj, .connect uri, .getMetadata uri, .release uri]) := by
  rw [app_authorised hA, forward_reaches hR]
  have hc := hR.corr
  unfold withProxy
  simp only [List.contains_eq_mem, decide_eq_true_eq, decide_eq_false_iff_not] at *
  cases hcr : req.corr with
  | invalid => exact absurd hcr hc
  | absent => simp [hR.md, hmeta, hattr, hmeth, hself]
  | valid => simp [hR.md, hmeta, hattr, hmeth, hself]

/-- **C20_params_exact.**  The parameters passed on are exactly the query parameters: without a
    configured key all of them, unchanged; with one, all except `$key` (which is never passed on),
    every other one unchanged. -/
theorem C20_params_exact (cfg : Cfg) (req : Req) :
    (keyConfigured cfg = false → fwdParams cfg req = singlyfy req.query) ∧
    (keyConfigured cfg = true →
      lookupP sKey (fwdParams cfg req) = none ∧
      ∀ k, k ≠ sKey → lookupP k (fwdParams cfg req) = lookupP k (singlyfy req.query)) := by
  constructor
  · intro h; simp [fwdParams, forwardParams, h]
  · intro h
    simp only [fwdParams, forwardParams, h, if_true]
    exact ⟨lookupP_eraseP_self _ _, fun k hk => lookupP_eraseP_other _ _ _ hk⟩

/-- **C20_status.**  The HTTP client receives the invocation's answer: 200 with the call's
    serialized result exactly when it returned one (and no oneway option was given), 500 with the
    call's serialized error exactly when it answered with an exception, 500 with the error's class
    exactly when the invocation itself failed, and 200 without body for oneway. -/
theorem C20_status (ow : Bool) (res : CallResult) :
    ((replyOfResult ow res).status = 200 ∨ (replyOfResult ow res).status = 500) ∧
    (∀ d, replyOfResult ow res = ⟨200, .json, true, .raw d⟩ ↔ (res = .ret d ∧ ow = false)) ∧
    (∀ d, replyOfResult ow res = ⟨500, .json, false, .raw d⟩ ↔ (res = .exc d ∧ ow = false)) ∧
    (∀ c, replyOfResult ow res = resp500 c ↔ res = .raised c) ∧
    (replyOfResult ow res = ⟨200, .json, true, .empty⟩ ↔
      (res = .none ∨ (ow = true ∧ ∃ d, res = .ret d ∨ res = .exc d))) := by
  cases res <;> cases ow <;> simp [replyOfResult, resp500]

/-! ## The index page is the only keyless exception -/

/-- **C20_homepage_only_keyless.**  A request that does not pass the key check and still causes
    Pyro traffic is the gateway's index page; and the index page (with or without key) only gets
    the name server, lists the names matching the configured pattern, looks up names from that
    listing and connects to fetch their metadata — it never invokes anything. -/
theorem C20_homepage_only_keyless (cfg : Cfg) (be : Backend) (req : Req) :
    (keyOK cfg req (singlyfy req.query) = false → (app cfg be req).2 ≠ [] → IsHomepage req) ∧
    (IsHomepage req →
      (∀ a ∈ (app cfg be req).2, isListing a = true ∧ isInvoke a = false) ∧
      (∀ r ∈ (app cfg be req).2, ∀ re, r = .nsList re → re = cfg.pattern) ∧
      (∀ names, .batchLookup names ∈ (app cfg be req).2 →
        ∃ keys, be.nsList cfg.pattern = .ok keys ∧ ∀ n ∈ names, n ∈ keys)) := by
  constructor
  · intro hk hne
    rcases C20_no_traffic cfg be req hne with h | ⟨o, m, hA⟩
    · exact h
    · rw [hA.2.1] at hk; simp at hk
  · intro hh
    have happ : app cfg be req = homepage cfg be := by
      rcases app_char cfg be req with ⟨_, ha⟩ | ⟨h, _⟩ | ⟨h, _⟩
      · exact ha
      · exact absurd hh h
      · exact absurd hh h
    rw [happ]
    refine ⟨fun a ha => ⟨homepage_listing cfg be a ha, listing_not_invoke a (homepage_listing cfg be a ha)⟩, ?_, ?_⟩
    · intro r hr re hre
      subst hre
      unfold homepage at hr
      split at hr
      · split at hr <;> simp at hr
      · split at hr
        · simp at hr; exact hr
        · rename_i keys _
          have hrows := homeRows_listing be (sortS (keys.take 10))
          dsimp only at hr
          split at hr
          · rename_i cls acts heq
            simp only [List.cons_append, List.nil_append, List.mem_cons, reduceCtorEq, false_or,
              Action.nsList.injEq] at hr
            rcases hr with h | h
            · exact h
            · have := hrows _ (by rw [heq]; exact h)
              simp [isRowAction] at this
          · rename_i rows acts heq
            simp only [List.cons_append, List.nil_append, List.mem_cons, reduceCtorEq, false_or,
              Action.nsList.injEq] at hr
            rcases hr with h | h
            · exact h
            · have := hrows _ (by rw [heq]; exact h)
              simp [isRowAction] at this
    · intro names hn
      unfold homepage at hn
      split at hn
      · split at hn <;> simp at hn
      · split at hn
        · simp at hn
        · rename_i keys hkeys
          refine ⟨keys, hkeys, ?_⟩
          dsimp only at hn
          have key : names = sortS (keys.take 10) := by
            split at hn
            · rename_i cls acts heq
              simp only [List.cons_append, List.nil_append, List.mem_cons, reduceCtorEq, false_or,
                Action.batchLookup.injEq] at hn
              rcases hn with h | h
              · exact h
              · have := homeRows_listing be _ _ (by rw [heq]; exact h)
                simp [isRowAction] at this
            · rename_i rows acts heq
              simp only [List.cons_append, List.nil_append, List.mem_cons, reduceCtorEq, false_or,
                Action.batchLookup.injEq] at hn
              rcases hn with h | h
              · exact h
              · have := homeRows_listing be _ _ (by rw [heq]; exact h)
                simp [isRowAction] at this
          intro n hnn
          rw [key, mem_sortS] at hnn
          exact List.mem_of_mem_take hnn

/-! ## The path split is the regex `(.+)/(.+)` on the first line -/

/-- **C20_split_sound.**  The object and member the gateway takes from a path are a real split of
    the path's first line at a '/', both parts non-empty and free of newlines. -/
theorem C20_split_sound (p o m : Str) (h : splitPath p = some (o, m)) :
    firstLine p = o ++ cSlash :: m ∧ o ≠ [] ∧ m ≠ [] ∧ cNewline ∉ o ∧ cNewline ∉ m ∧
      ∃ t, p = o ++ cSlash :: m ++ t ∧ (t = [] ∨ ∃ t', t = cNewline :: t') := by
  have hv : ValidSplit ([] ++ firstLine p) o m :=
    splitGo_sound (firstLine p) [] none (by intro _ _ h; simp at h) o m h
  simp only [List.nil_append] at hv
  obtain ⟨h1, h2, h3⟩ := hv
  have hnl := firstLine_no_newline p
  rw [h1] at hnl
  simp only [List.mem_append, List.mem_cons, not_or] at hnl
  obtain ⟨t, ht, htc⟩ := firstLine_prefix p
  refine ⟨h1, h2, h3, hnl.1, hnl.2.2, t, ?_, htc⟩
  rw [← h1]; exact ht

/-- **C20_split_greedy.**  Among all ways to split the first line into non-empty object and member
    at a '/', the gateway takes the one with the longest object name (both regex groups are greedy). -/
theorem C20_split_greedy (p o m : Str) (h : splitPath p = some (o, m)) :
    ∀ o' m', firstLine p = o' ++ cSlash :: m' → o' ≠ [] → m' ≠ [] → o'.length ≤ o.length := by
  intro o' m' h1 h2 h3
  have := splitGo_max (firstLine p) [] none (by intro _ _ _ hl; simp at hl) o' m'
    (by simpa [ValidSplit] using ⟨h1, h2, h3⟩)
  obtain ⟨o2, m2, hs, hl⟩ := this
  unfold splitPath at h
  rw [h] at hs
  simp only [Option.some.injEq, Prod.mk.injEq] at hs
  rw [hs.1]; exact hl

/-- **C20_split_complete.**  The gateway answers 404 for want of object/member only when the first
    line has no admissible split at all. -/
theorem C20_split_complete (p : Str) (h : splitPath p = none) :
    ¬ ∃ o m, firstLine p = o ++ cSlash :: m ∧ o ≠ [] ∧ m ≠ [] := by
  rintro ⟨o', m', h1, h2, h3⟩
  have := splitGo_max (firstLine p) [] none (by intro _ _ _ hl; simp at hl) o' m'
    (by simpa [ValidSplit] using ⟨h1, h2, h3⟩)
  obtain ⟨o2, m2, hs, _⟩ := this
  unfold splitPath at h
  rw [h] at hs; simp at hs

/-! ## Histories: the gateway is stateless, and every call travels as JSON -/

/-- the requests of a history, in order, each with the gateway settings of its moment -/
def requestsOf : List HEv → List (Cfg × Nat × Backend × Req)
  | [] => []
  | .perturb _ :: rest => requestsOf rest
  | .request cfg tmo be req :: rest => (cfg, tmo, be, req) :: requestsOf rest

/-- **C20_history.**  For every history — any number of requests, with arbitrary writes to the
    process-global Pyro configuration (serializer, timeout) by other code before, between and after
    them, from any starting configuration — each request is answered exactly as if it were the only
    one (`app` of its own settings, backend and request: no state is carried from request to
    request), and while it is handled the configuration is `SERIALIZER = json`,
    `COMMTIMEOUT = pyro_app.comm_timeout`: the forwarded call is sent, and its answer comes back,
    as JSON whatever happened in the process before. -/
theorem C20_history (c0 : PyroConfig) (evs : List HEv) :
    (runHistory c0 evs).map (fun o => (o.reply, o.actions, o.config)) =
    (requestsOf evs).map (fun r =>
      ((app r.1 r.2.2.1 r.2.2.2).1, (app r.1 r.2.2.1 r.2.2.2).2, (⟨.json, r.2.1⟩ : PyroConfig))) := by
  induction evs generalizing c0 with
  | nil => rfl
  | cons ev rest ih =>
    cases ev with
    | perturb c' => simpa [runHistory, requestsOf] using ih c'
    | request cfg tmo be req =>
      simp only [runHistory, requestsOf, List.map_cons, appC, writeConfig]
      rw [ih]

/-- **C20_history_json.**  In every history every request is handled under the JSON serializer. -/
theorem C20_history_json (c0 : PyroConfig) (evs : List HEv) :
    ∀ o ∈ runHistory c0 evs, o.config.serializer = .json := by
  induction evs generalizing c0 with
  | nil => intro o ho; simp [runHistory] at ho
  | cons ev rest ih =>
    cases ev with
    | perturb c' => intro o ho; exact ih c' o (by simpa [runHistory] using ho)
    | request cfg tmo be req =>
      intro o ho
      simp only [runHistory, List.mem_cons] at ho
      rcases ho with h | h
      · subst h; rfl
      · exact ih _ o h

/-! ## obligations about facts extracted from the current source (PyroModel/Gen/C20.lean) -/

/-- What the real `pyro_app` did on the extractor's probe requests is what the model does: the prefix
    cut off a forwarded path and its length, the methods that are not 405 and the preflight one,
    the redirect target, the object/member split on a table of paths (`splitPath` gives exactly the
    observed split, or `none` where nothing was forwarded), the three request headers are honoured,
    the names `$key` / `$meta` / `oneway`, the status codes of all fixed replies and of a forwarded
    call, zero Pyro actions for a request refused for its key or for the pattern, the defaults
    (no key, pattern `http\.`), and — over a history of four requests with other code writing the
    global configuration in between — `SERIALIZER = json`, `COMMTIMEOUT = pyro_app.comm_timeout`
    already hold at the moment each request is first read (`writeConfig`). -/
theorem C20_gen_facts :
    Pyro.Gen.C20.routePrefix = sPyro ∧ Pyro.Gen.C20.routeSlice = sPyro.length ∧
    Pyro.Gen.C20.allowedMethods = [sGET, sPOST, sOPTIONS] ∧ Pyro.Gen.C20.optionsLiteral = sOPTIONS ∧
    Pyro.Gen.C20.redirectTarget = "/pyro/" ∧
    (∀ p ∈ Pyro.Gen.C20.splitProbes, splitPath p.1 = p.2) ∧ 10 ≤ Pyro.Gen.C20.splitProbes.length ∧
    Pyro.Gen.C20.headerProbes = [("HTTP_X_PYRO_GATEWAY_KEY", true), ("HTTP_X_PYRO_OPTIONS", true),
                                 ("HTTP_X_PYRO_CORRELATION_ID", true)] ∧
    Pyro.Gen.C20.keyParam = sKey ∧ Pyro.Gen.C20.metaMember = sMeta ∧ Pyro.Gen.C20.onewayOption = sOneway ∧
    Pyro.Gen.C20.statuses =
      [("notAllowed", resp405.status), ("optionsOk", respOptions.status), ("notFound", resp404.status),
       ("redirect", resp302.status), ("badKey", respBadKey.status), ("denied", respDenied.status),
       ("nsDown", respNsDown.status)] ∧
    Pyro.Gen.C20.otherStatuses = [200, 500] ∧
    Pyro.Gen.C20.refusalEvents = [("badKey", 0), ("denied", 0)] ∧
    Pyro.Gen.C20.defaultPattern = "http\\." ∧ Pyro.Gen.C20.defaultKeyIsNone = true ∧
    Pyro.Gen.C20.configAtFirstRead =
      List.replicate 4 ("json", (writeConfig Pyro.Gen.C20.configProbeTimeout ⟨.serpent, 0⟩).commTimeout) ∧
    (writeConfig Pyro.Gen.C20.configProbeTimeout ⟨.serpent, 0⟩).serializer = .json := by decide

/-! ## non-vacuity: concrete requests meeting the hypotheses -/

section Examples

/-- "http.a" -/
def exObj : Str := [104, 116, 116, 112, 46, 97]
/-- "echo" -/
def exEcho : Str := [101, 99, 104, 111]
/-- "PYRO:o@h:1" (any text will do) -/
def exUri : Str := [80, 89, 82, 79]
/-- "msg" -/
def exMsg : Str := [109, 115, 103]

/-- a backend with one object "http.a" exposing method `echo`; pattern matching = "starts with http." -/
def exBe : Backend where
  rmatch := fun _ n => [104, 116, 116, 112, 46].isPrefixOf n
  nsGet := none
  nsGetIsNaming := false
  nsList := fun _ => .ok [exObj]
  lookup := fun n => if n = exObj then .ok exUri else .error (.other 0)
  connect := fun _ => none
  isPyroError := fun _ => true
  bind := fun _ => none
  getMeta := fun _ => .ok { methods := [exEcho], attrs := [[118]], oneway := [] }
  call := fun _ _ _ _ => .ret [1, 2, 3]
  getattr := fun _ _ => .ret [4]

def exCfg : Cfg := { key := some [75], pattern := some [104, 116, 116, 112, 92, 46] }   -- key b"K", pattern r"http\."

/-- GET /pyro/http.a/echo?msg=hi&$key=K -/
def exReq : Req where
  method := sGET
  path := [47] ++ sPyro ++ exObj ++ [47] ++ exEcho
  query := [(exMsg, [[104, 105]]), (sKey, [[75]])]
  keyHeader := []
  options := []
  corr := .absent

-- the authorised request: one call of `echo` with {msg: "hi"} ($key removed), answer passed through
example : app exCfg exBe exReq =
    (.http ⟨200, .json, true, .raw [1, 2, 3]⟩,
     [.getNameServer, .lookup exObj, .connect exUri, .getMetadata exUri,
      .call exUri exEcho [(exMsg, .one [104, 105])] false, .release exUri]) := by decide
example : Authorised exCfg exBe exReq exObj exEcho := ⟨by decide, by decide, by decide⟩
example : Reaches exBe exReq exObj exUri { methods := [exEcho], attrs := [[118]], oneway := [] } :=
  ⟨rfl, rfl, rfl, by decide, rfl⟩
-- wrong key: refused, no traffic
example : app exCfg exBe { exReq with query := [(sKey, [[76]])] } = (.http respBadKey, []) := by decide
-- repeated $key (F20's witness): refused, no traffic, no escaping exception
example : app exCfg exBe { exReq with query := [(sKey, [[75], [75]])] } = (.http respBadKey, []) := by decide
-- a name that differs from the exposed one by a prefix: denied by the pattern, no traffic
example : app exCfg exBe { exReq with path := [47] ++ sPyro ++ [120] ++ exObj ++ [47] ++ exEcho }
    = (.http respDenied, []) := by decide
-- a member that is an attribute of the gateway's own proxy object, "_pyroRelease" (F20b's witness): 500, nothing invoked
example : app exCfg exBe { exReq with
      path := [47] ++ sPyro ++ exObj ++ [47, 95, 112, 121, 114, 111, 82, 101, 108, 101, 97, 115, 101] }
    = (.http (resp500 .attribute),
       [.getNameServer, .lookup exObj, .connect exUri, .getMetadata exUri, .release exUri]) := by decide
-- the index page needs no key
example : (app exCfg exBe { exReq with path := [47] ++ sPyro, query := [] }).1
    = .http ⟨200, .html, false, .homepage [(exObj, true)]⟩ := by decide
example : IsHomepage { exReq with path := [47] ++ sPyro, query := [] } := by
  show routed _ = some []; decide
-- greedy split: "a/b/c" names object "a/b", member "c"; "a/b\nc/d" only sees its first line
example : splitPath [97, 47, 98, 47, 99] = some ([97, 47, 98], [99]) := by decide
example : splitPath [97, 47, 98, 10, 99, 47, 100] = some ([97], [98]) := by decide
example : splitPath [47, 98] = none := by decide

-- a history: request, other code switches the process to serpent, request again: same answer, JSON both times
example : (runHistory ⟨.serpent, 0⟩ [.request exCfg 5000 exBe exReq, .perturb ⟨.serpent, 0⟩, .request exCfg 5000 exBe exReq]).map
      (fun o => (o.reply, o.config))
    = [(.http ⟨200, .json, true, .raw [1, 2, 3]⟩, ⟨.json, 5000⟩), (.http ⟨200, .json, true, .raw [1, 2, 3]⟩, ⟨.json, 5000⟩)] := by
  decide

end Examples

end Pyro.C20
