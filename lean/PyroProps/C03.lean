/-
  C03 — A call returns its own reply or fails; never another call's answer.
  Property theorems about `PyroModel.Call` (one proxy, one daemon, a faulty transport).

  Quantifiers: every reachable state of the proxy/daemon pair (any history of calls of any kind, any
  fault scripts, any MAX_RETRIES, any initial sequence number — so also across the 16-bit wrap), every
  next call, every fault script for it.  `real` is the code as it is (release on error + sequence check).
-/
import PyroModel.Call
import PyroModel.Gen.C03
import PyroProofs.Call

namespace Pyro.C03

open Pyro Pyro.Call

/-- States reachable by some history of calls on one proxy, under arbitrary fault scripts. -/
inductive Reachable : World → Prop
  | init (seq0 : Nat) : Reachable (init seq0)
  | step {W : World} (h : Reachable W) (retries : Nat) (k : Kind) (tok : Nat) (s : List Ev) :
      Reachable (call real retries k tok W s).2.1

/-- The same, when every replayed reply (`stale a`) and every reply still unread at the start of a call
    is younger than 2^16 INVOKE sends (`Young`): the explicit hypothesis of the own-reply theorem. -/
inductive ReachableYoung : World → Prop
  | init (seq0 : Nat) : ReachableYoung (init seq0)
  | step {W : World} (h : ReachableYoung W) (retries : Nat) (k : Kind) (tok : Nat) (s : List Ev)
      (hy : Young W s) : ReachableYoung (call real retries k tok W s).2.1

/-- **Invariant.**  In every young-reachable state the proxy's sequence number is the number of INVOKE
    sends modulo 2^16, every recorded reply carries the number of the send that produced it, and every
    unread RESULT message on the live connection is an unaltered reply of an earlier send. -/
theorem C03_reachable_inv {W : World} (h : ReachableYoung W) : Inv W := by
  induction h with
  | init seq0 => exact inv_init seq0
  | step _ retries k tok s hy ih => exact (call_inv retries k tok _ s ih hy).1

/-! ### own reply -/

/-- Full statement: a call that returns, returns the body produced by its own invocation — whatever
    the history before it and whatever the fault script. -/
def C03_own_reply_Statement : Prop :=
  ∀ (W : World), Reachable W → ∀ (retries : Nat) (k : Kind) (tok : Nat) (s : List Ev) (k' : Kind) (t' : Nat),
    (call real retries k tok W s).1 = .returned k' t' → k' = k ∧ t' = tok

/-- **C03_own_reply (partial).**  Under the explicit hypothesis that no replayed or still-unread reply
    is 2^16 or more INVOKE sends old, a call that returns delivers the result (or remote exception) of its
    own invocation: same call kind, same token.  Lost, late, cut, duplicated, replayed and
    sequence-altered replies, resets before and after processing, interrupts, on handshakes and on
    calls, with any number of retries, never make it return another call's answer. -/
theorem C03_own_reply_partial {W : World} (hW : ReachableYoung W) (retries : Nat) (k : Kind) (tok : Nat)
    (s : List Ev) (hy : Young W s) (k' : Kind) (t' : Nat)
    (h : (call real retries k tok W s).1 = .returned k' t') : k' = k ∧ t' = tok :=
  (call_inv retries k tok W s (C03_reachable_inv hW) hy).2 k' t' h

theorem reachable_onewayN (n : Nat) : ∀ W, Reachable W → Reachable (onewayN n W) := by
  induction n with
  | zero => intro W h; exact h
  | succ n ih => intro W h; exact ih _ (.step h 0 .oneway 0 [.ok])

/-- **Finding K2 (negation of the full statement).**  A 16-bit sequence number repeats after 65536
    sends: if the reply of call 1 is delivered twice and 65535 oneway calls (which read nothing) follow,
    the next normal call — token 7 — finds the duplicate at the head of the stream with exactly its own
    sequence number and returns call 1's answer. -/
theorem C03_own_reply_full_false : ¬ C03_own_reply_Statement := by
  intro h
  have hr : Reachable (onewayN 65535 dupWorld) :=
    reachable_onewayN 65535 dupWorld (.step (.init 0) 0 .normal 1 [.ok, .dup])
  have := h _ hr 0 .normal 7 [.ok] .normal 1 (alias_after 65535 (by decide))
  exact absurd this.2 (by decide)

/-! ### how often the method runs -/

/-- Full statement: a call (of a method the object has) that returns has run its method exactly once. -/
def C03_exec_once_Statement : Prop :=
  ∀ (W : World), Reachable W → ∀ (retries : Nat) (k : Kind) (tok : Nat) (s : List Ev) (k' : Kind) (t' : Nat),
    k.executes = true → (call real retries k tok W s).1 = .returned k' t' →
    execs tok (call real retries k tok W s).2.1 = execs tok W + 1

/-- **C03_exec_once (partial).**  When the call makes a single attempt — retries disabled, or a call that
    never goes through the retry loop (attribute access, batch, stream fetch) — then: if it returns, its
    method ran exactly once; if it fails, at most once.  No hypothesis on the state or the script. -/
theorem C03_exec_once_partial (W : World) (retries : Nat) (k : Kind) (tok : Nat) (s : List Ev)
    (ha : attempts retries k = 1) :
    (k.executes = true → ∀ k' t', (call real retries k tok W s).1 = .returned k' t' →
        execs tok (call real retries k tok W s).2.1 = execs tok W + 1) ∧
    execs tok (call real retries k tok W s).2.1 ≤ execs tok W + 1 ∧
    (k.executes = false → execs tok (call real retries k tok W s).2.1 = execs tok W) := by
  have f := call_facts retries k tok W s
  rw [ha] at f
  obtain ⟨m, hm, hlog, _, hret, _, hne⟩ := f.log
  have e := execs_replicate tok m W _ hlog
  refine ⟨fun he k' t' h => ?_, by omega, fun he => by have := hne he; omega⟩
  have := hret he k' t' h
  omega

/-- **Finding K1 (negation of the full statement).**  MAX_RETRIES = 1, one normal call: handshake
    delivered, request processed, reply lost (timeout, connection released), the retry reconnects and
    re-sends: the call returns its own result after the method ran twice (documented at-least-once). -/
theorem C03_exec_once_full_false : ¬ C03_exec_once_Statement := by
  intro h
  have := h (init 0) (.init 0) 1 .normal 1 [.ok, .lost, .ok, .ok] .normal 1 (by decide) (by decide)
  exact absurd this (by decide)

/-- **C03_exec_bound.**  Whatever happens, the server log grows by `n` copies of this call's token with
    `n ≤ 1 + retries` (`≤ 1` for calls that are not retried): the method runs at most 1 + N times, and a
    call never runs another call's method. -/
theorem C03_exec_bound (W : World) (retries : Nat) (k : Kind) (tok : Nat) (s : List Ev) :
    execs tok (call real retries k tok W s).2.1 ≤ execs tok W + attempts retries k ∧
    attempts retries k ≤ 1 + retries ∧
    ∀ t, t ≠ tok → execs t (call real retries k tok W s).2.1 = execs t W := by
  obtain ⟨m, hm, hlog, _⟩ := (call_facts retries k tok W s).log
  refine ⟨by rw [execs_replicate tok m W _ hlog]; omega, ?_, fun t ht => execs_other tok t m W _ hlog ht⟩
  unfold attempts; split <;> omega

/-- **C03_oneway.**  A oneway call (oneway method or oneway batch), with any number of retries: never
    returns a value; takes no message off the stream (`reads` unchanged); if it returns (None) its method
    (if the object has it) ran exactly once; if it fails its request was never delivered and the method did not run; in no case
    does it run twice. -/
theorem C03_oneway (W : World) (retries : Nat) (k : Kind) (tok : Nat) (s : List Ev) (hk : k.isOneway = true) :
    (∀ k' t', (call real retries k tok W s).1 ≠ .returned k' t') ∧
    (call real retries k tok W s).2.1.reads = W.reads ∧
    ((call real retries k tok W s).1 = .none_ → k.executes = true →
        execs tok (call real retries k tok W s).2.1 = execs tok W + 1) ∧
    (∀ e, (call real retries k tok W s).1 = .failed e → execs tok (call real retries k tok W s).2.1 = execs tok W) ∧
    execs tok (call real retries k tok W s).2.1 ≤ execs tok W + 1 := by
  have f := call_facts retries k tok W s
  obtain ⟨m, _, hlog, hnone, _, how, _⟩ := f.log
  have e := execs_replicate tok m W _ hlog
  have h1 := how hk
  refine ⟨f.onewayOut hk, f.reads hk, fun h he => ?_, fun e' h => ?_, by omega⟩
  · have := hnone he h; omega
  · have := h1.2 e' h; omega

/-- **C03_recovers.**  After a call failed (any communication error or interrupt) the proxy holds no
    connection; and the next call of any kind other than a stream fetch, over a healthy transport
    (handshake and request delivered), returns its own result, having run its method once, on a fresh
    connection with nothing unread.  (A stream iterator is bound to the connection that was lost:
    client.py:535-536 refuses it by design.) -/
theorem C03_recovers (W : World) (retries : Nat) (k : Kind) (tok : Nat) (s : List Ev) (e : Err)
    (h : (call real retries k tok W s).1 = .failed e)
    (retries2 : Nat) (k2 : Kind) (tok2 : Nat) (s2 : List Ev) (hk2 : k2.precheck = false) :
    let W1 := (call real retries k tok W s).2.1
    W1.pc.isLive = false ∧
    (call real retries2 k2 tok2 W1 (.ok :: .ok :: s2)).1 = ownOutcome k2 tok2 ∧
    (call real retries2 k2 tok2 W1 (.ok :: .ok :: s2)).2.2 = s2 ∧
    (call real retries2 k2 tok2 W1 (.ok :: .ok :: s2)).2.1.log = logAfter k2 tok2 W1.log ∧
    (call real retries2 k2 tok2 W1 (.ok :: .ok :: s2)).2.1.pc = .live ⟨[], false⟩ := by
  intro W1
  have hrel := (call_facts retries k tok W s).released e h
  have hh := call_healthy retries2 k2 tok2 W1 s2 hrel hk2
  exact ⟨hrel, hh.1, hh.2.1, hh.2.2.1, hh.2.2.2⟩

/-- a history of calls over a transport that delivers every message (each call is given two `ok` events) -/
def runHealthy (retries : Nat) : List (Kind × Nat) → World → List Outcome
  | [], _ => []
  | (k, t) :: rest, W =>
    (call real retries k t W [.ok, .ok]).1 :: runHealthy retries rest (call real retries k t W [.ok, .ok]).2.1

/-- no connection, or a live one with nothing unread that was not reset -/
def Clean (W : World) : Prop := W.pc.isLive = false ∨ W.pc = .live ⟨[], false⟩

/-- **C03_fault_free.**  Over a transport that delivers everything, starting without a connection or with a clean
    one, EVERY call of a history (any kinds other than a stream fetch, any retries, also calls of methods the object
    no longer has, oneway or not) returns its own outcome: no communication error arises without a fault, in
    particular a oneway call — whether or not its method exists — leaves nothing behind for the next call. -/
theorem C03_fault_free (retries : Nat) (calls : List (Kind × Nat)) :
    ∀ W, Clean W → (∀ c ∈ calls, c.1.precheck = false) →
      runHealthy retries calls W = calls.map (fun c => ownOutcome c.1 c.2) := by
  induction calls with
  | nil => intro W _ _; rfl
  | cons c rest ih =>
    intro W hW hk
    obtain ⟨k, t⟩ := c
    have hk1 : k.precheck = false := hk (k, t) (List.mem_cons_self ..)
    have hrest : ∀ c ∈ rest, c.1.precheck = false := fun c hc => hk c (List.mem_cons_of_mem _ hc)
    simp only [runHealthy, List.map_cons]
    rcases hW with hW | hW
    · have h := call_healthy retries k t W [] hW hk1
      rw [h.1, ih _ (Or.inr h.2.2.2) hrest]
    · have h := call_healthy_live retries k t W [.ok] hW
      rw [h.1, ih _ (Or.inr h.2.2.2) hrest]

/-- **C03_wrap.**  The statement holds across the 16-bit wrap: from a state with sequence number 65535,
    a call that returns still returns its own reply (replayed replies from before the wrap are rejected),
    and after a single-attempt call that came back the proxy's sequence number is 0. -/
theorem C03_wrap {W : World} (hW : ReachableYoung W) (hseq : W.seq = 65535) (retries : Nat) (k : Kind) (tok : Nat)
    (s : List Ev) (hy : Young W s) :
    (∀ k' t', (call real retries k tok W s).1 = .returned k' t' → k' = k ∧ t' = tok) ∧
    (attempts retries k = 1 → (call real retries k tok W s).1.done = true → (call real retries k tok W s).2.1.seq = 0) := by
  refine ⟨fun k' t' h => C03_own_reply_partial hW retries k tok s hy k' t' h, fun ha hd => ?_⟩
  rw [call_seq_single retries k tok W s ha hd, hseq]; decide

/-- **C03_never_stuck.**  The model never needs the artificial outcome `stuck`: whenever the proxy reads,
    the transport has either delivered a message or raises. -/
theorem C03_never_stuck (W : World) (retries : Nat) (k : Kind) (tok : Nat) (s : List Ev) :
    (call real retries k tok W s).1 ≠ .stuck :=
  (call_facts retries k tok W s).notStuck

/-! ### each of the two defences is necessary -/

/-- Without the sequence check (everything else as is) a duplicated reply is returned to the next call:
    call 1's reply delivered twice, call 2 — token 2 — returns call 1's answer. -/
theorem C03_seqcheck_needed :
    let cfg : Cfg := ⟨true, false⟩
    let W1 := (call cfg 0 .normal 1 (init 0) [.ok, .dup]).2.1
    (call cfg 0 .normal 2 W1 [.ok]).1 = .returned .normal 1 := by decide

/-- Without the release on error (sequence check kept) no foreign reply is returned, but the proxy never
    recovers: after one late reply the next two calls over a healthy transport both fail. -/
theorem C03_release_needed :
    let cfg : Cfg := ⟨false, true⟩
    let W1 := (call cfg 0 .normal 1 (init 0) [.ok, .late]).2.1
    let W2 := (call cfg 0 .normal 2 W1 [.ok]).2.1
    (call cfg 0 .normal 1 (init 0) [.ok, .late]).1 = .failed .timeout ∧
    (call cfg 0 .normal 2 W1 [.ok]).1 = .failed .protocol ∧
    (call cfg 0 .normal 3 W2 [.ok]).1 = .failed .protocol := by decide

/-! ### obligations about facts extracted from the current source (PyroModel/Gen/C03.lean)

  The facts are *probes*: the extractor calls the real `_pyroInvoke`, `_pyroBind`, `_RemoteMethod.__call__`,
  `BatchProxy`, `_StreamResultIterator`, `Daemon._handshake/handleRequest/get_next_stream_item` on small tables of
  scripted inputs and emits what they did.  The obligations say that this is what the model does on those inputs. -/

/-- model-side names of the exception classes the probes report -/
def errOfName (s : String) : Option Err :=
  if s = "ConnectionClosedError" then some .connClosed
  else if s = "TimeoutError" then some .timeout
  else if s = "ProtocolError" then some .protocol
  else none

/-- The header field that carries the sequence number holds exactly the values below `seqMod`; the proxy's
    counter goes 41 → 42, 255 → 256 (no 8-bit wrap), 65535 → 0, also when the send fails. -/
theorem C03_gen_seq :
    Pyro.Gen.C03.seqFieldMax + 1 = seqMod ∧
    Pyro.Gen.C03.invokeProbe.lookup "own-reply" = some "ret/kept/seq=42/reads=1" ∧
    Pyro.Gen.C03.invokeProbe.lookup "no-wrap-255" = some "ret/kept/seq=256/reads=1" ∧
    Pyro.Gen.C03.invokeProbe.lookup "wrap-65535" = some "ret/kept/seq=0/reads=1" ∧
    (41 + 1) % seqMod = 42 ∧ (255 + 1) % seqMod = 256 ∧ (65535 + 1) % seqMod = 0 := by decide

/-- What the real `_pyroInvoke` does over a scripted connection is what `invokeOn real` does: own reply returned and
    connection kept; a reply with another sequence number, of another message type (rejected after the header only) or
    another serializer: protocol error and connection released — also in wire-level response mode; a remote exception
    is the call's own outcome (connection kept); errors while sending and while receiving, and KeyboardInterrupt,
    release the connection; a oneway call returns None without reading.  The handshake accepts a CONNECTOK whatever
    its sequence number, turns a RESULT-typed reply into a protocol error, and leaves no connection behind on any error. -/
theorem C03_gen_invoke :
    Pyro.Gen.C03.invokeProbe =
      [("own-reply", "ret/kept/seq=42/reads=1"),
       ("wrap-65535", "ret/kept/seq=0/reads=1"),
       ("no-wrap-255", "ret/kept/seq=256/reads=1"),
       ("reply-seq-plus-1", "ProtocolError/released/seq=42/reads=1"),
       ("reply-seq-minus-1", "ProtocolError/released/seq=42/reads=1"),
       ("reply-type-connectok", "ProtocolError/released/seq=42/reads=1"),
       ("reply-other-serializer", "SerializeError/released/seq=42/reads=1"),
       ("remote-exception", "ValueError/kept/seq=42/reads=1"),
       ("send-connection-closed", "ConnectionClosedError/released/seq=42/reads=0"),
       ("send-timeout", "TimeoutError/released/seq=42/reads=0"),
       ("recv-connection-closed", "ConnectionClosedError/released/seq=42/reads=1"),
       ("recv-timeout", "TimeoutError/released/seq=42/reads=1"),
       ("recv-keyboard-interrupt", "KeyboardInterrupt/released/seq=42/reads=1"),
       ("oneway", "none/kept/seq=42/reads=0"),
       ("oneway-send-connection-closed", "ConnectionClosedError/released/seq=42/reads=0"),
       ("raw-own-reply", "msg/kept/seq=42/reads=1"),
       ("raw-reply-seq-plus-1", "ProtocolError/released/seq=42/reads=1"),
       ("raw-reply-other-serializer", "SerializeError/released/seq=42/reads=1"),
       ("type-filter-consumed", "header-only")] ∧
    Pyro.Gen.C03.handshakeProbe =
      [("connectok", "connected/live/seq=7/meta=1"),
       ("connectok-seq-altered", "connected/live/seq=7/meta=1"),
       ("reply-type-result", "ProtocolError/none/seq=7/meta=0"),
       ("connectfail", "CommunicationError/none/seq=7/meta=0"),
       ("send-reset", "ConnectionClosedError/none/seq=7/meta=0"),
       ("recv-timeout", "TimeoutError/none/seq=7/meta=0"),
       ("recv-reset", "ConnectionClosedError/none/seq=7/meta=0")] := by decide

/-- The real retry loop makes `max_retries + 1` attempts exactly for the classes the model calls retryable
    (`Err.retryable`: connection closed, timeout) and one attempt for every other exception; the exception that comes out
    is the one that went in; it stops at the first attempt that returns.  These and ProtocolError / SerializeError are
    communication errors (so `_pyroInvoke` releases on them); retries are off by default. -/
theorem C03_gen_retry :
    Pyro.Gen.C03.retryProbe.length = 15 ∧
    (∀ r ∈ Pyro.Gen.C03.retryProbe, r.2.2.2 = r.2.1 ∧
      r.2.2.1 = (match errOfName r.2.1 with | some e => if e.retryable then r.1 + 1 else 1 | none => 1)) ∧
    Pyro.Gen.C03.retrySuccessProbe.length = 9 ∧
    (∀ r ∈ Pyro.Gen.C03.retrySuccessProbe,
      if r.2.1 ≤ r.1 then r.2.2.1 = r.2.1 + 1 ∧ r.2.2.2 = "returned" else r.2.2.1 = r.1 + 1 ∧ r.2.2.2 = "TimeoutError") ∧
    "ConnectionClosedError" ∈ Pyro.Gen.C03.commErrors ∧ "TimeoutError" ∈ Pyro.Gen.C03.commErrors ∧
    "ProtocolError" ∈ Pyro.Gen.C03.commErrors ∧ "SerializeError" ∈ Pyro.Gen.C03.commErrors ∧
    Pyro.Gen.C03.maxRetriesDefault = 0 := by decide

/-- The number of `_pyroInvoke` attempts each way of using a real proxy makes (its `_pyroMaxRetries` being 2) is the
    model's `attempts 2 kind`: only method calls go through the retry loop; the proxy's own setting governs, whatever
    the global one is (`attempts 0`, `attempts 1`); a stream fetch without a connection is refused without any attempt
    (`Kind.precheck`); attribute access on a proxy without metadata looks the metadata up once, batch recording never
    (`Kind.needsMeta`); a re-used BatchProxy submits only the calls recorded since its last submit, oneway or not. -/
theorem C03_gen_paths :
    Pyro.Gen.C03.pathProbe =
      [("method", attempts 2 .normal),
       ("oneway-method", attempts 2 .oneway),
       ("attribute-read", attempts 2 .getattr),
       ("attribute-write", attempts 2 .setattr),
       ("batch", attempts 2 .batch),
       ("batch-oneway", attempts 2 .batchOneway),
       ("stream-fetch", attempts 2 .fetch),
       ("stream-fetch-no-connection:ConnectionClosedError", 0),
       ("method-own-0-global-2", attempts 0 .normal),
       ("method-own-1-global-0", attempts 1 .normal),
       ("metadata-lookups-first-method-access", 1),
       ("metadata-lookups-later", 0),
       ("metadata-lookups-first-attribute-write", 1),
       ("metadata-lookups-batch-recording", 0),
       ("batch-reuse-submit-1-size", 1),
       ("batch-reuse-submit-2-size", 1),
       ("batch-reuse-submit-3-size", 2),
       ("batch-reuse-submit-4-size", 1)] ∧
    Kind.precheck .fetch = true ∧ Kind.needsMeta .normal = true ∧ Kind.needsMeta .setattr = true ∧
    Kind.needsMeta .batch = false := by decide

/-- Every reply of the real daemon — handshake answer (accepted or refused), result, error reply, batch result —
    carries the sequence number of the request it answers; oneway requests (also failing ones, also batches) are
    answered with nothing; a lingering stream that a fetch re-attaches to the fetching connection is no longer
    lingering, so that a `fetch` after a recovery is an ordinary call answered with the stream's next item. -/
theorem C03_gen_server :
    Pyro.Gen.C03.serverProbe =
      [("handshake-4321", "connectok/seq=4321"),
       ("handshake-refused-4321", "connectfail/seq=4321"),
       ("call-777", "result/seq=777"),
       ("call-65535", "result/seq=65535"),
       ("call-raises-777", "result+exception/seq=777"),
       ("unknown-object-777", "result+exception/seq=777"),
       ("oneway-777", "no-reply"),
       ("oneway-raises-777", "no-reply"),
       ("batch-777", "result+batch/seq=777"),
       ("batch-oneway-777", "no-reply"),
       ("reattach", "item=10/client=fetching-connection/linger=0")] := by decide

/-! ### non-vacuity: concrete histories meeting the hypotheses -/

-- a young-reachable state with sequence number 65535 and a live connection holding an unread duplicate
example : ReachableYoung (call real 0 .normal 1 (init 65534) [.ok, .dup]).2.1 :=
  .step (.init 65534) 0 .normal 1 [.ok, .dup] ⟨by intro a h; simp at h, by intro c h; simp [init] at h⟩
example : (call real 0 .normal 1 (init 65534) [.ok, .dup]).2.1.seq = 65535 := by decide
-- ... from which the next call reads the duplicate, rejects it (protocol error) and releases; seq wraps to 0
example : (call real 0 .normal 2 (call real 0 .normal 1 (init 65534) [.ok, .dup]).2.1 [.ok]).1 = .failed .protocol ∧
    (call real 0 .normal 2 (call real 0 .normal 1 (init 65534) [.ok, .dup]).2.1 [.ok]).2.1.seq = 0 := by decide
-- a reply from before the wrap replayed after it is rejected (stale age 2 across 65535 → 0 → 1)
example :
    let W1 := (call real 0 .normal 1 (init 65534) [.ok, .ok]).2.1
    let W2 := (call real 0 .normal 2 W1 [.ok]).2.1
    W2.seq = 0 ∧ (call real 0 .normal 3 W2 [.stale 1]).1 = .failed .protocol ∧
    (call real 0 .normal 3 W2 [.ok]).1 = .returned .normal 3 := by decide
-- retries = 2: two failed attempts (reset after processing, lost reply), third succeeds: returned, 3 executions
example : (call real 2 .normal 5 (init 0) [.ok, .resetAfter, .ok, .lost, .ok, .ok]).1 = .returned .normal 5 ∧
    execs 5 (call real 2 .normal 5 (init 0) [.ok, .resetAfter, .ok, .lost, .ok, .ok]).2.1 = 3 := by decide
-- a oneway call with a replayed reply injected: returns None, the replay stays unread; the next call rejects it
example :
    let W1 := (call real 0 .normal 1 (init 0) [.ok, .ok]).2.1
    let W2 := (call real 0 .oneway 2 W1 [.stale 0]).2.1
    (call real 0 .oneway 2 W1 [.stale 0]).1 = .none_ ∧ W2.reads = W1.reads ∧
    (call real 1 .normal 3 W2 [.ok, .ok, .ok]).1 = .failed .protocol := by decide
-- a failed call followed by a healthy one (hypotheses of C03_recovers)
example : (call real 0 .getattr 1 (init 0) [.ok, .cut]).1 = .failed .connClosed := by decide
-- a fault-free history with calls of methods the object no longer has: every call gets its own outcome
example : runHealthy 1 [(.normal, 1), (.onewayMissing, 2), (.normal, 3), (.missing, 4), (.oneway, 5), (.getattr, 6)] (init 0)
    = [.returned .normal 1, .none_, .returned .normal 3, .returned .missing 4, .none_, .returned .getattr 6] := by decide
example : attempts 0 .normal = 1 ∧ attempts 5 .batch = 1 ∧ attempts 2 .normal = 3 := by decide

end Pyro.C03
