/-
  C06Src.lean — `protocol.recv_stub`, transcribed from the source on every run by the shallow translator of this property
  (harness/props/c06_tr.py → `Pyro.Gen.C06.recvStubGlueSrc`), is the model's `Wire.recvStub`:

  * `C06_recv_stub_translated`  with the model's own collaborators (`parseHeader`, `addPayload`, the 6-byte prefix test) the
    transcription computes, for every stream / accepted list / limit / zlib, the outcome, the number of bytes requested and the
    unread rest that `recvStub` computes;
  * `C06_source_recv_stub`      with the *transcribed* collaborators (`validate`, `ReceivingMessage.__init__`, `add_payload`, run
    by the PyIR interpreter) it still does: the whole decode path of the source, no hand-written glue left;
  * `C06_source_…`              the property theorems restated about that whole-source decoder.
-/
import PyroModel.PyIR
import PyroModel.Wire
import PyroModel.C06Glue
import PyroModel.Gen.C06
import PyroModel.C06AstRun
import PyroProofs.Wire
import PyroProofs.WireStages
import PyroProps.C06
import PyroProps.C06Ast
import PyroProps.C06EncAst

set_option linter.unusedSimpArgs false

namespace Pyro.C06Src

open Pyro Pyro.Wire Pyro.C06Glue Pyro.C06AstRun

/-- **`recv_stub`, as written now, is the model's `recvStub`** (collaborators = the model's operations) — for every limit,
    zlib, accepted-types list and stream: same outcome, same number of bytes requested from the connection, same unread rest. -/
theorem C06_recv_stub_translated (cfg : Cfg) (z : Zlib) (accepted : List Nat) (stream : Bytes) :
    run (Gen.C06.recvStubGlueSrc (modelOps cfg z) accepted) stream = some (recvStub cfg z accepted stream) := by
  unfold run Gen.C06.recvStubGlueSrc recvStub
  simp only [gBind, gRecv, gLift, gRet, gRaise, modelOps]
  cases h6e : recvN 6 stream with
  | none => rfl
  | some p =>
    obtain ⟨h6, s1⟩ := p
    simp only []
    by_cases ht : List.take 4 h6 = tagPYRO
    · by_cases hv : List.drop 4 h6 = toBE 2 protocolVersion
      · simp only [ht, hv, ne_eq, not_true_eq_false, if_false]
        have e34 : headerSize - 6 = 34 := by decide
        rw [e34]
        cases h34e : recvN 34 s1 with
        | none => rfl
        | some q =>
          obtain ⟨h34, s2⟩ := q
          simp only [recvStage2]
          cases hp : parseHeader cfg (h6 ++ h34) with
          | error e => rfl
          | ok hdr =>
            simp only []
            cases hc : (!accepted.isEmpty && !accepted.contains hdr.type) with
            | true => simp [hc]; rfl
            | false =>
              simp only [hc, Bool.false_eq_true, if_false, recvStage3, gBind, gRecv, gLift, gRet]
              cases hbe : recvN (hdr.annSize + hdr.dataSize) s2 with
              | none => simp [headerSize]; omega
              | some r =>
                obtain ⟨body, s3⟩ := r
                simp only [headerSize]
                generalize addPayload z hdr body = ap
                cases ap <;> simp <;> omega
      · simp [ht, hv]
    · simp [ht]

/-- the collaborators as the source writes them: the three transcribed functions run by the PyIR interpreter
    (`none` = the interpreter left its fragment / ran out of fuel) -/
def srcOps (cfg : PyIR.Cfg) : Ops where
  validate := fun d =>
    match runValidate cfg Gen.C06.validateSrc d with
    | .raise (.exc .protocolError _ _) _ _ => some (.error .protocol)
    | .normal _ _ => some (.ok ())
    | _ => none
  construct := fun h => toHeader (runInit cfg Gen.C06.initSrc h)
  addPayload := fun hdr body => toDecoded hdr (runAddPayload cfg Gen.C06.addPayloadSrc hdr body)

/-- the whole decode path of the source: transcribed `recv_stub` around the transcribed `validate`, `__init__`, `add_payload` -/
def recvStubSource (cfg : PyIR.Cfg) (accepted : List Nat) (stream : Bytes) : Option StubResult :=
  run (Gen.C06.recvStubGlueSrc (srcOps cfg) accepted) stream

/-- **C06_source_recv_stub.**  The source's whole decode path — `recv_stub` as written now calling `validate`,
    `ReceivingMessage.__init__` and `add_payload` as written now — decodes every stream exactly as the model's `recvStub`
    does (same outcome, same bytes requested, same rest), and never leaves the translated fragment. -/
theorem C06_source_recv_stub (cfg : PyIR.Cfg) (wcfg : Wire.Cfg) (z : Zlib) (hm : cfg.maxSize = wcfg.maxSize)
    (hz : cfg.unzip = z.decompress) (accepted : List Nat) (stream : Bytes) :
    recvStubSource cfg accepted stream = some (recvStub wcfg z accepted stream) := by
  rw [← C06_recv_stub_translated wcfg z accepted stream]
  unfold recvStubSource run Gen.C06.recvStubGlueSrc
  simp only [gBind, gRecv, gLift, gRet, gRaise, modelOps, srcOps]
  cases h6e : recvN 6 stream with
  | none => rfl
  | some p =>
    obtain ⟨h6, s1⟩ := p
    have hl6 := C06Ast.recvN_length h6e
    obtain ⟨hbad, hgood⟩ := C06Ast.validate_translated cfg h6 hl6
    simp only []
    cases hb : C06Ast.prefixBad h6 with
    | true =>
      obtain ⟨env, w, hv⟩ := hbad hb
      rw [hv]
      simp only [C06Ast.prefixBad, Bool.or_eq_true, bne_iff_ne, ne_eq] at hb
      rcases hb with hb | hb
      · simp [hb]
      · by_cases ht : List.take 4 h6 = tagPYRO
        · simp [ht, hb]
        · simp [ht]
    | false =>
      obtain ⟨env, w, hv⟩ := hgood hb
      rw [hv]
      simp only [C06Ast.prefixBad, Bool.or_eq_false_iff, bne_eq_false_iff_eq] at hb
      simp only [hb.1, hb.2, ne_eq, not_true_eq_false, if_false]
      cases h34e : recvN 34 s1 with
      | none => rfl
      | some q =>
        obtain ⟨h34, s2⟩ := q
        have hl34 := C06Ast.recvN_length h34e
        have h40 : (h6 ++ h34).length = 40 := by simp [hl6, hl34]
        simp only []
        rw [C06Ast.init_translated cfg wcfg hm (h6 ++ h34) h40]
        cases hp : parseHeader wcfg (h6 ++ h34) with
        | error e => rfl
        | ok hdr =>
          simp only []
          cases hc : (!accepted.isEmpty && !accepted.contains hdr.type) with
          | true => simp [hc]
          | false =>
            simp only [hc, Bool.false_eq_true, if_false, gBind, gRecv, gLift, gRet]
            cases hbe : recvN (hdr.annSize + hdr.dataSize) s2 with
            | none => rfl
            | some r =>
              obtain ⟨body, s3⟩ := r
              simp only []
              rw [C06Ast.addPayload_translated z cfg hz hdr body]

/-! ### the property, about the whole-source decoder -/

/-- **"accepts only what is well formed", about the source's whole decode path**: whatever byte string it accepts is a 40-byte
    header that parses, an annotation area tiled exactly by chunks, exactly `data_size` data bytes and the untouched rest;
    exactly the message's bytes were requested, and the message type passed the filter. -/
theorem C06_source_decoder_accepts_only_wellformed (cfg : PyIR.Cfg) (wcfg : Wire.Cfg) (z : Zlib)
    (hm : cfg.maxSize = wcfg.maxSize) (hz : cfg.unzip = z.decompress) (accepted : List Nat) (stream : Bytes)
    (d : Decoded) (n : Nat) (rest : Bytes)
    (h : recvStubSource cfg accepted stream = some ⟨.ok d, n, rest⟩) :
    ∃ (hdr : Bytes) (H : Header) (chunks : List (Bytes × Bytes)) (data : Bytes),
      stream = hdr ++ (rawChunks chunks ++ (data ++ rest)) ∧
      hdr.length = headerSize ∧ parseHeader wcfg hdr = .ok H ∧
      (rawChunks chunks).length = H.annSize ∧ data.length = H.dataSize ∧
      n = headerSize + H.annSize + H.dataSize ∧
      (accepted = [] ∨ H.type ∈ accepted) ∧
      d.anns = chunks.foldl (fun a c => dictSet a (c.1.map UInt8.toNat) c.2) [] := by
  rw [C06_source_recv_stub cfg wcfg z hm hz] at h
  have h' : recvStub wcfg z accepted stream = ⟨.ok d, n, rest⟩ := by injection h
  obtain ⟨hdr, H, chunks, data, h1, h2, h3, h4, h5, h6, h7, h8, _⟩ :=
    Pyro.C06.C06_accepts_only_wellformed wcfg z accepted stream d n rest h'
  exact ⟨hdr, H, chunks, data, h1, h2, h3, h4, h5, h6, h7, h8⟩

/-- **receiver-side limit, about the source's whole decode path**: if it asks the connection for anything beyond the 40 header
    bytes, the header declared `data + annotations ≤ MAX_MESSAGE_SIZE` — an oversized message is refused before any of its body
    is read. -/
theorem C06_source_decoder_receiver_limit (cfg : PyIR.Cfg) (wcfg : Wire.Cfg) (z : Zlib)
    (hm : cfg.maxSize = wcfg.maxSize) (hz : cfg.unzip = z.decompress) (accepted : List Nat) (stream : Bytes)
    (r : StubResult) (h : recvStubSource cfg accepted stream = some r) (hreq : r.requested > headerSize) :
    ∃ H, parseHeader wcfg (stream.take headerSize) = .ok H ∧ H.dataSize + H.annSize ≤ wcfg.maxSize ∧
      r.requested = headerSize + H.annSize + H.dataSize := by
  rw [C06_source_recv_stub cfg wcfg z hm hz] at h
  have h' : recvStub wcfg z accepted stream = r := by injection h
  subst h'
  exact Pyro.C06.C06_receiver_limit wcfg z accepted stream hreq

/-- **round trip, source to source**: whatever the source's `SendingMessage.__init__` puts into `.data`, the source's
    `recv_stub` (with the source's `validate` / `__init__` / `add_payload`) reads back as the same message, consuming exactly
    those bytes — every message with distinct annotation keys, every configuration, every lawful zlib, every accepted-types
    list that lets the type through, whatever follows on the stream. -/
theorem C06_source_decoder_roundtrip (cfg : Wire.Cfg) (z : Zlib) (m : Msg) (bs rest : Bytes) (accepted : List Nat)
    (rcfg : PyIR.Cfg) (hm : rcfg.maxSize = cfg.maxSize) (hzr : rcfg.unzip = z.decompress)
    (hz : z.Lawful) (hnd : (keysOf m.anns).Nodup) (hcorr : ∀ c, m.corr = some c → c.length = 16)
    (hsend : toEncoded (runSendInit (sendCfg cfg z m.corr) Gen.C06.sendInitSrc m) = some (.ok bs))
    (hacc : accepted = [] ∨ m.type ∈ accepted) :
    recvStubSource rcfg accepted (bs ++ rest) = some ⟨.ok (C06.decodedOf m), bs.length, rest⟩ := by
  have h := C06EncAst.C06_source_roundtrip cfg z m bs rest accepted rcfg hm hzr hz hnd hcorr hsend hacc
  rw [C06Ast.C06_source_recvStub rcfg cfg z hm hzr accepted (bs ++ rest)] at h
  rw [C06_source_recv_stub rcfg cfg z hm hzr accepted (bs ++ rest)]
  exact h

/-- non-vacuity: the transcribed `recv_stub` run on a concrete stream (header + one annotation chunk + 2 data bytes + 1 stray
    byte; accepted types [4]) accepts, requests 40 + 10 + 2 bytes and leaves the stray byte -/
example :
    (match run (Gen.C06.recvStubGlueSrc (modelOps ⟨false, 1000⟩ ⟨id, some⟩) [4])
        ([80, 89, 82, 79, 1, 246, 4, 2, 0, 0, 0, 7, 0, 0, 0, 2, 0, 0, 0, 10] ++ List.replicate 16 0 ++ [0, 0, 77, 197] ++
         [65, 66, 67, 68, 0, 0, 0, 2, 5, 6] ++ [1, 2] ++ [9]) with
     | some r => (r.requested, r.rest, r.out.toOption.map (·.anns)) == (52, [9], some [([65, 66, 67, 68], [5, 6])])
     | none => false) = true := by decide +kernel

/-- ... and refuses a message of a type outside the accepted list after exactly the 40 header bytes -/
example :
    (match run (Gen.C06.recvStubGlueSrc (modelOps ⟨false, 1000⟩ ⟨id, some⟩) [5, 6])
        ([80, 89, 82, 79, 1, 246, 4, 2, 0, 0, 0, 7, 0, 0, 0, 2, 0, 0, 0, 0] ++ List.replicate 16 0 ++ [0, 0, 77, 197] ++ [1, 2]) with
     | some r => (r.requested, r.rest, r.out.toOption.isSome) == (40, [1, 2], false)
     | none => false) = true := by decide +kernel

/-! ### stronger statements -/

/-- **C06_accept_independent_of_rest.**  An accepted message is a prefix of the stream (`stream = take n ++ rest`, exactly `n`
    bytes were requested) and acceptance depends on those bytes alone: followed by ANY other continuation the same message is
    decoded, the same `n` bytes are requested and the continuation is left untouched. -/
theorem C06_accept_independent_of_rest (cfg : Cfg) (z : Zlib) (accepted : List Nat) (stream : Bytes)
    (d : Decoded) (n : Nat) (rest : Bytes)
    (h : recvStub cfg z accepted stream = ⟨.ok d, n, rest⟩) :
    stream = stream.take n ++ rest ∧ (stream.take n).length = n ∧
    ∀ rest', recvStub cfg z accepted (stream.take n ++ rest') = ⟨.ok d, n, rest'⟩ := by
  unfold recvStub at h
  generalize hr : recvN 6 stream = r at h
  cases r with
  | none => simp at h
  | some p =>
    obtain ⟨h6, s1⟩ := p
    simp only at h
    by_cases c1 : h6.take 4 ≠ tagPYRO
    · rw [if_pos c1] at h; simp at h
    · rw [if_neg c1] at h
      by_cases c2 : h6.drop 4 ≠ toBE 2 protocolVersion
      · rw [if_pos c2] at h; simp at h
      · rw [if_neg c2] at h
        generalize hr2 : recvN (headerSize - 6) s1 = r2 at h
        cases r2 with
        | none => simp at h
        | some p2 =>
          obtain ⟨h34, s2⟩ := p2
          simp only at h
          obtain ⟨e1, e2⟩ := recvN_some _ _ _ _ hr
          obtain ⟨e3, e4⟩ := recvN_some _ _ _ _ hr2
          unfold recvStage2 at h
          generalize hp : parseHeader cfg (h6 ++ h34) = ph at h
          cases ph with
          | error e => simp at h
          | ok H =>
            simp only at h
            by_cases hf : (!accepted.isEmpty && !accepted.contains H.type) = true
            · rw [if_pos hf] at h; simp at h
            · rw [if_neg hf] at h
              obtain ⟨body, e5, lb, hadd, hn⟩ := stage3_ok z H s2 d n rest h
              have htake : stream.take n = h6 ++ (h34 ++ body) := by
                rw [e1, e3, e5, hn, ← List.append_assoc h34, ← List.append_assoc h6]
                apply take_append_len
                simp only [List.length_append, e2, e4, lb, headerSize]; omega
              refine ⟨?_, ?_, ?_⟩
              · rw [htake, e1, e3, e5]; simp only [List.append_assoc]
              · rw [htake]; simp only [List.length_append, e2, e4, lb, hn, headerSize]; omega
              · intro rest'
                rw [htake]
                unfold recvStub
                rw [List.append_assoc, recvN_append h6 _ 6 e2]
                simp only
                rw [if_neg c1, if_neg c2, List.append_assoc, recvN_append h34 _ _ e4]
                simp only [recvStage2, hp]
                rw [if_neg hf]
                unfold recvStage3
                rw [recvN_append body _ _ lb]
                simp only [hadd, hn]

/-- ... and so for the source's whole decode path -/
theorem C06_source_decoder_independent_of_rest (cfg : PyIR.Cfg) (wcfg : Wire.Cfg) (z : Zlib)
    (hm : cfg.maxSize = wcfg.maxSize) (hz : cfg.unzip = z.decompress) (accepted : List Nat) (stream : Bytes)
    (d : Decoded) (n : Nat) (rest : Bytes)
    (h : recvStubSource cfg accepted stream = some ⟨.ok d, n, rest⟩) :
    stream = stream.take n ++ rest ∧
    ∀ rest', recvStubSource cfg accepted (stream.take n ++ rest') = some ⟨.ok d, n, rest'⟩ := by
  rw [C06_source_recv_stub cfg wcfg z hm hz] at h
  have h' : recvStub wcfg z accepted stream = ⟨.ok d, n, rest⟩ := by injection h
  obtain ⟨h1, _, h3⟩ := C06_accept_independent_of_rest wcfg z accepted stream d n rest h'
  refine ⟨h1, fun rest' => ?_⟩
  rw [C06_source_recv_stub cfg wcfg z hm hz, h3 rest']

/-- `recv_stub` called `k` times on the same connection: the messages in order and what is left unread;
    `none` as soon as one call raises -/
def recvSeq (cfg : Cfg) (z : Zlib) (accepted : List Nat) : Nat → Bytes → Option (List Decoded × Bytes)
  | 0, s => some ([], s)
  | k + 1, s =>
    match (recvStub cfg z accepted s).out with
    | .error _ => none
    | .ok d =>
      match recvSeq cfg z accepted k (recvStub cfg z accepted s).rest with
      | none => none
      | some (ds, r) => some (d :: ds, r)

/-- **C06_roundtrip_sequence** (all histories of the per-message round trip).  `k` messages sent back to back on one connection,
    followed by anything: `k` calls of `recv_stub` return the `k` messages in order (each call consumes exactly its message, or the
    next one would not parse) and leave exactly what followed the last one. -/
theorem C06_roundtrip_sequence (cfg : Cfg) (z : Zlib) (accepted : List Nat) (hz : z.Lawful)
    (ps : List (Msg × Bytes)) (rest : Bytes)
    (hall : ∀ p ∈ ps, encode cfg z p.1 = .ok p.2 ∧ (keysOf p.1.anns).Nodup ∧ (accepted = [] ∨ p.1.type ∈ accepted)) :
    recvSeq cfg z accepted ps.length ((ps.map (·.2)).flatten ++ rest) = some (ps.map (fun p => C06.decodedOf p.1), rest) := by
  induction ps with
  | nil => simp [recvSeq]
  | cons p ps' ih =>
    obtain ⟨he, hnd, hacc⟩ := hall p (by simp)
    have ih' := ih (fun q hq => hall q (by simp [hq]))
    obtain ⟨h1, h2, _⟩ := C06.C06_roundtrip cfg z p.1 p.2 ((ps'.map (·.2)).flatten ++ rest) accepted hz hnd he hacc
    simp only [List.length_cons, List.map_cons, List.flatten_cons, List.append_assoc, recvSeq, h1, h2, ih']

/-- non-vacuity: two messages and a stray byte -/
example : (recvSeq ⟨false, 1000⟩ ⟨id, some⟩ [] 2
    ((((encode ⟨false, 1000⟩ ⟨id, some⟩ ⟨4, 2, 0, 7, [1, 2], [([65, 66, 67, 68], [5])], none⟩).toOption.getD []) ++
      ((encode ⟨false, 1000⟩ ⟨id, some⟩ ⟨5, 2, 0, 8, [], [], none⟩).toOption.getD [])) ++ [9])).map
      (fun p => (p.1.map (·.seq), p.2)) = some ([7, 8], [9]) := by decide +kernel

end Pyro.C06Src
