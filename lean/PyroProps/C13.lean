/-
  C13 — Every connection is cleaned up exactly once, however it ends.
  Theorems about `PyroModel.Server` (per-connection life cycle of both transports and
  SocketConnection.close).  Quantifiers: every sequence of items on a connection (every ending:
  orderly/abrupt close at any point, malformed request, timeout, security error, re-raised errors),
  any numbers of resources tracked / untracked before, any interleaving with other connections.
  Reading fixed in DESIGN.md: "accepted" = passed the handshake; a connection that fails the
  handshake is closed once and gets no disconnect-hook call.
-/
import PyroModel.Server
import PyroModel.Gen.C13

namespace Pyro.C13

open Pyro.Server

def Accepted (c : Conn) : Prop := ∃ r rest, c.outbox = r :: rest ∧ r.type = MSG_CONNECTOK

/-- the accounting invariant of one connection record -/
structure Inv (c : Conn) : Prop where
  fresh : c.phase = .fresh → c.outbox = [] ∧ c.hookCalls = 0 ∧ c.closeCalls = 0 ∧ c.resClosed = [] ∧
            c.tracked = [] ∧ c.slot = false
  active : c.phase = .active → Accepted c ∧ c.hookCalls = 0 ∧ c.closeCalls = 0 ∧ c.resClosed = [] ∧
            c.tracked.Nodup ∧ c.slot = true
  closed : c.phase = .closed → c.closeCalls = 1 ∧ c.tracked = [] ∧ c.slot = false ∧ c.sessionInst = false ∧
            c.resClosed.Nodup ∧ (Accepted c → c.hookCalls = 1) ∧ (¬ Accepted c → c.hookCalls = 0 ∧ c.resClosed = [])

theorem addTracked_nodup (cur add : List Nat) (h : cur.Nodup) : (addTracked cur add).Nodup := by
  unfold addTracked
  induction add generalizing cur with
  | nil => simpa using h
  | cons a as ih =>
    simp only [List.foldl_cons]
    apply ih
    by_cases hc : cur.contains a = true
    · rw [if_pos hc]; exact h
    · rw [if_neg hc]
      rw [List.nodup_append]
      refine ⟨h, by simp, ?_⟩
      intro x hx y hy
      simp only [List.mem_singleton] at hy
      subst hy
      intro heq; subst heq
      exact hc (by simpa using hx)

theorem delTracked_nodup (cur del : List Nat) (h : cur.Nodup) : (delTracked cur del).Nodup := by
  unfold delTracked
  exact h.sublist List.filter_sublist

theorem handshake_ok_reply (it : Item) (h : (handshake it).2 = true) :
    ∃ r, (handshake it).1 = some r ∧ r.type = MSG_CONNECTOK := by
  cases it with
  | cut => simp [handshake] at h
  | garbage => simp [handshake] at h
  | timeout => simp [handshake] at h
  | msg m =>
    simp only [handshake] at h ⊢
    by_cases h1 : m.type ≠ MSG_CONNECT
    · rw [if_pos h1] at h; simp at h
    · rw [if_neg h1] at h ⊢
      by_cases h2 : (!knownSerializer m.serId) = true
      · rw [if_pos h2] at h; simp at h
      · rw [if_neg h2] at h ⊢
        cases hb : m.body with
        | undecodable _ => rw [hb] at h; simp at h
        | call t => rw [hb] at h; simp at h
        | handshake wf ok v =>
          rw [hb] at h
          cases wf <;> cases ok <;> cases v <;> simp [MSG_CONNECTOK] at h ⊢

theorem handshake_fail_reply (it : Item) (h : (handshake it).2 = false) :
    ∀ r, (handshake it).1 = some r → r.type = MSG_CONNECTFAIL := by
  intro r hr
  cases it with
  | cut => simp [handshake] at hr
  | garbage => simp [handshake] at hr; subst hr; rfl
  | timeout => simp [handshake] at hr; subst hr; rfl
  | msg m =>
    simp only [handshake] at h hr
    by_cases h1 : m.type ≠ MSG_CONNECT
    · rw [if_pos h1] at hr; simp at hr; subst hr; rfl
    · rw [if_neg h1] at h hr
      by_cases h2 : (!knownSerializer m.serId) = true
      · rw [if_pos h2] at hr; simp at hr; subst hr; rfl
      · rw [if_neg h2] at h hr
        cases hb : m.body with
        | undecodable _ => rw [hb] at hr; simp at hr; subst hr; rfl
        | call t => rw [hb] at hr; simp at hr; subst hr; rfl
        | handshake wf ok v =>
          rw [hb] at h hr
          cases wf <;> cases ok <;> cases v <;> simp at h hr <;> (subst hr; rfl)

theorem inv_event (c : Conn) (it : Item) (h : Inv c) : Inv (connEvent c it) := by
  unfold connEvent
  cases hp : c.phase with
  | closed => simpa [hp] using h
  | fresh =>
    obtain ⟨ho, hh, hc, hr, ht, hs⟩ := h.fresh hp
    simp only
    generalize hsk : handshake it = p
    obtain ⟨reply, ok⟩ := p
    simp only
    cases ok with
    | true =>
      simp only [if_true]
      obtain ⟨r, hr1, hr2⟩ := handshake_ok_reply it (by rw [hsk])
      rw [hsk] at hr1; simp only at hr1; subst hr1
      refine ⟨by simp, fun _ => ⟨⟨r, [], by simp [ho], hr2⟩, hh, hc, hr, by simp [ht], rfl⟩, by simp⟩
    | false =>
      simp only [Bool.false_eq_true, if_false, Conn.close]
      have hfail := handshake_fail_reply it (by rw [hsk])
      rw [hsk] at hfail; simp only at hfail
      refine ⟨by simp, by simp, fun _ => ⟨by simp [hc], rfl, hs, rfl, by simp [hr, ht], ?_, ?_⟩⟩
      · rintro ⟨r, rest, h1, h2⟩
        exfalso
        simp only [ho, List.nil_append] at h1
        cases reply with
        | none => simp at h1
        | some r' =>
          simp only [Option.toList_some, List.cons.injEq] at h1
          have := hfail r' rfl
          rw [h1.1] at this
          rw [this] at h2; cases h2
      · intro _; exact ⟨hh, by simp [hr, ht]⟩
  | active =>
    obtain ⟨⟨r, rest, ho, hr⟩, hh, hc, hrc, hnd, hs⟩ := h.active hp
    simp only
    have hacc : ∀ (x : List Reply), ∃ r' rest', c.outbox ++ x = r' :: rest' ∧ r'.type = MSG_CONNECTOK :=
      fun x => ⟨r, rest ++ x, by simp [ho], hr⟩
    have hnd' : (delTracked (addTracked c.tracked (handleRequest it).tracks) (handleRequest it).untracks).Nodup :=
      delTracked_nodup _ _ (addTracked_nodup _ _ hnd)
    by_cases hraised : (handleRequest it).raised = true
    · rw [if_pos hraised]
      simp only [Conn.close]
      refine ⟨by simp, by simp, fun _ => ⟨by simp [hc], rfl, rfl, rfl, by simpa [hrc] using hnd', ?_, ?_⟩⟩
      · intro _; simp [hh]
      · intro hna; exact absurd (hacc _) hna
    · rw [if_neg hraised]
      exact ⟨by simp [hp], fun _ => ⟨hacc _, hh, hc, hrc, hnd', hs⟩, by simp [hp]⟩

theorem inv_init : Inv {} :=
  ⟨fun _ => ⟨rfl, rfl, rfl, rfl, rfl, rfl⟩, fun h => (by cases h), fun h => (by cases h)⟩

theorem inv_run (items : List Item) : ∀ (c : Conn), Inv c → Inv (items.foldl connEvent c) := by
  induction items with
  | nil => intro c h; exact h
  | cons it its ih => intro c h; exact ih _ (inv_event c it h)

/-- **C13_once.**  For every sequence of items on a connection, once it is closed: if it had been
    accepted, the disconnect hook ran exactly once, the connection was closed exactly once, every
    resource closed by that close was closed exactly once (no resource appears twice), nothing stays
    tracked, its session instances are dropped and its worker / selector slot is released; while it
    is still open none of this has happened yet (no early hook, no early close, slot still held). -/
theorem C13_once (items : List Item) :
    let c := items.foldl connEvent {}
    (c.phase = .closed → c.closeCalls = 1 ∧ c.tracked = [] ∧ c.slot = false ∧ c.sessionInst = false ∧
        c.resClosed.Nodup ∧ (Accepted c → c.hookCalls = 1) ∧ (¬ Accepted c → c.hookCalls = 0 ∧ c.resClosed = [])) ∧
    (c.phase = .active → c.hookCalls = 0 ∧ c.closeCalls = 0 ∧ c.resClosed = [] ∧ c.slot = true) := by
  have h := inv_run items {} inv_init
  exact ⟨h.closed, fun ha => let ⟨_, a, b, c, _, d⟩ := h.active ha; ⟨a, b, c, d⟩⟩

/-- **C13_closes_what_is_tracked.**  The step that ends an accepted connection closes exactly the
    resources tracked at that moment (after the last request's own track / untrack calls): resources
    untracked before are not closed, tracked ones are closed once. -/
theorem C13_closes_what_is_tracked (c : Conn) (it : Item) (hp : c.phase = .active) (hinv : Inv c)
    (hr : (handleRequest it).raised = true) :
    (connEvent c it).resClosed =
      delTracked (addTracked c.tracked (handleRequest it).tracks) (handleRequest it).untracks ∧
    (connEvent c it).phase = .closed ∧ (connEvent c it).hookCalls = 1 := by
  obtain ⟨_, hh, _, hrc, _, _⟩ := hinv.active hp
  simp only [connEvent, hp, hr, if_true, Conn.close, hrc, List.nil_append, hh]
  refine ⟨?_, ?_, ?_⟩ <;> first | rfl | trivial

/-- every way a connection can end does end it: a cut stream, garbage, a timeout, a message of a
    type the request loop does not accept — each closes an active connection (and so, by C13_once,
    cleans it up exactly once) -/
theorem C13_endings_close (c : Conn) (hp : c.phase = .active) :
    (connEvent c .cut).phase = .closed ∧ (connEvent c .garbage).phase = .closed ∧
    (connEvent c .timeout).phase = .closed ∧
    (∀ m, m.type ≠ MSG_INVOKE → m.type ≠ MSG_PING → (connEvent c (.msg m)).phase = .closed) := by
  refine ⟨by simp [connEvent, hp, handleRequest, Conn.close], by simp [connEvent, hp, handleRequest, Conn.close],
    by simp [connEvent, hp, handleRequest, Conn.close], ?_⟩
  intro m h1 h2
  simp [connEvent, hp, handleRequest, h1, h2, Conn.close]

/-- **C13_idempotent_close.**  A second `close()` of a connection (Python's `__del__`) closes no
    resource again. -/
theorem C13_idempotent_close (c : Conn) : c.close.close.resClosed = c.close.resClosed ∧ c.close.close.tracked = [] := by
  simp [Conn.close]

/-- **C13_frame.**  An event on one connection leaves every other connection's record — its hook
    count, its tracked resources, its slot — untouched. -/
theorem C13_frame (d : Daemon) (i j : Nat) (it : Item) (h : i ≠ j) : (step d (i, it))[j]? = d[j]? := by
  unfold step
  cases hd : d[i]? with
  | none => rfl
  | some c => simp [List.getElem?_set, h]

/-- Daemon level: the accounting invariant holds for every connection after any interleaving of
    the events of any number of connections. -/
theorem C13_daemon (evs : List (Nat × Item)) :
    ∀ (d : Daemon), (∀ (j : Nat) (c' : Conn), d[j]? = some c' → Inv c') →
      ∀ (j : Nat) (c' : Conn), (run d evs)[j]? = some c' → Inv c' := by
  induction evs with
  | nil => intro d hd; exact hd
  | cons ev evs ih =>
    intro d hd
    apply ih (step d ev)
    intro j c' hj
    unfold step at hj
    cases hde : d[ev.1]? with
    | none => rw [hde] at hj; exact hd j c' hj
    | some c0 =>
      rw [hde] at hj
      simp only at hj
      by_cases hij : ev.1 = j
      · subst hij
        have hlt : ev.1 < d.length := (List.getElem?_eq_some_iff.mp hde).1
        simp only [List.getElem?_set, hlt, if_true, Option.some.injEq] at hj
        subst hj
        exact inv_event c0 ev.2 (hd _ _ hde)
      · simp only [List.getElem?_set, hij, if_false] at hj
        exact hd j c' hj

/-- **C13_gen_facts.**  Source shape the model relies on: the thread server runs the disconnect
    handling and the close in a `finally` around the request loop; the multiplex server runs
    disconnect handling, unregister and close for an inactive connection; SocketConnection.close
    clears the session instances and the tracked resources. -/
theorem C13_gen_facts :
    Pyro.Gen.C13.threadFinally = ["_clientDisconnect", "close"] ∧
    Pyro.Gen.C13.multiplexInactive = ["_clientDisconnect", "unregister", "close"] ∧
    Pyro.Gen.C13.closeClearsInstances = true ∧ Pyro.Gen.C13.closeClearsTracked = true ∧
    Pyro.Gen.C13.closeClosesEachTracked = true := by decide

/-! ### non-vacuity -/
private def okShake : Item := .msg { type := 1, serId := 2, seq := 7, body := .handshake true true .accept }
private def callT (tok : Nat) (tr un : List Nat) : Item :=
  .msg { type := 4, serId := 2, seq := 8, body := .call (.method { token := tok, outcome := .returns .ok, tracks := tr, untracks := un }) }
example : let c := ([okShake, callT 1 [5, 6] [], callT 2 [7] [5], .cut].foldl connEvent {})
    c.phase = .closed ∧ c.hookCalls = 1 ∧ c.closeCalls = 1 ∧ c.resClosed = [6, 7] ∧ c.slot = false := by decide

end Pyro.C13
