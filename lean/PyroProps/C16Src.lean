/-
  C16 — the property theorems restated about the source transcription (corollaries of PyroProps/C16.lean through the
  `_translated` theorems of PyroProps/C16Ast.lean).
-/
import PyroProps.C16
import PyroProps.C16Ast

namespace Pyro.C16

open Pyro Pyro.Registry Pyro.Registry.Src Pyro.Gen.C16Src

/-! ### the property, restated about the transcription -/

/-- **C16_source_failed_register_unchanged.** A call of the transcribed `Daemon.register` that does not return a URI
    (it raised) has changed nothing: not the table, not the attributes, not the finalizers. -/
theorem C16_source_failed_register_unchanged (s : State) (e : Ent) (ia : IdArg) (force weak : Bool)
    (hd : isDead s e = false) (hf : ∀ n, ia = .str (.gen n) → n ≠ s.next)
    (hfail : ∀ i, (registerSrc s (.ent e) (IdArg.val ia) force weak).2 ≠ .ret (.uri i)) :
    (registerSrc s (.ent e) (IdArg.val ia) force weak).1 = s := by
  rw [C16_register_translated s e ia force weak hd hf] at hfail ⊢
  apply C16_failed_register_unchanged .fixed s e ia force weak
  intro i hi
  simp only [step] at hi
  exact hfail i (by simp [hi, resR])

/-- **C16_source_double_refused.** After every history without forced aliasing, the transcribed `register` without
    `force`, for an object that is registered or an id that is taken, raises and leaves the state as it was. -/
theorem C16_source_double_refused (h : List Op) (hA : noAliasHist init h = true) (e : Ent) (ia : IdArg) (w : Bool)
    (hd : isDead (run .fixed init h) e = false) (hf : ∀ n, ia = .str (.gen n) → n ≠ (run .fixed init h).next)
    (hdup : (specRun Spec.init h).has e ∨ ((specRun Spec.init h).m ((specRun Spec.init h).resolve ia)).isSome = true) :
    (registerSrc (run .fixed init h) (.ent e) (IdArg.val ia) false w).1 = run .fixed init h ∧
    ∀ i, (registerSrc (run .fixed init h) (.ent e) (IdArg.val ia) false w).2 ≠ .ret (.uri i) := by
  obtain ⟨h1, h2⟩ := C16_double_refused h hA e ia w hdup
  rw [C16_register_translated _ e ia false w hd hf]
  simp only [step] at h1 h2
  refine ⟨h1, ?_⟩
  intro i hi
  generalize (register Cfg.fixed (run Cfg.fixed init h) e ia false w).2 = r at h2 hi
  cases r <;> simp [resR] at hi
  exact h2 _ (by rw [hi])

/-- **C16_source_return_unregistered.** In any state: for an object that is not registered and whose class is not
    registered, the transcribed hook returns the object itself (so it is serialised by value), state untouched —
    whatever stale `_pyroId` / `_pyroDaemon` it still carries. -/
theorem C16_source_return_unregistered (s : State) (k : Nat) (hd : s.dead k = false)
    (hk : ∀ i w, lookup i s.objs ≠ some ⟨.ent (.obj k), w⟩)
    (hc : ∀ i w, lookup i s.objs ≠ some ⟨.ent (.cls (classOf k)), w⟩) :
    autoProxySrc s (.ent (.obj k)) = (s, .ret (.ent (.obj k))) := by
  rw [C16_autoProxy_translated]
  have h := (C16_return_unregistered .fixed rfl s k .serpent hd hk hc).1
  by_cases hcond : (getDm s (.obj k) = .this && ownsEntry s k) = true
  · exfalso
    have hcond' : (decide (getDm s (Ent.obj k) = DAttr.this) && ownsEntry s k) = true := hcond
    simp only [returnObj, hd, Cfg.fixed, Bool.not_true, Bool.false_or, hcond', if_true, Bool.false_eq_true, if_false] at h
    unfold proxyFor at h
    split at h
    · split at h
      · cases h
      · split at h <;> cases h
    · rename_i r hne
      simp only [uriFor, isDead, hd, Bool.false_eq_true, if_false] at h hne
      split at h
      · cases h
      · split at h <;> first | cases h | exact hne _ rfl
  · simp [hcond]

/-- **C16_source_return_registered.** After every history without forced aliasing, for a registered object the
    transcribed hook returns `daemon.proxyFor(obj)`, which is the proxy of the id the object is registered under
    (a call to which runs on that very object: `C16_return_partial`). -/
theorem C16_source_return_registered (h : List Op) (hA : noAliasHist init h = true) (k : Nat) (i : Id) (w : Bool)
    (hr : lookup i (run .fixed init h).objs = some ⟨.ent (.obj k), w⟩) :
    autoProxySrc (run .fixed init h) (.ent (.obj k)) = (run .fixed init h, .ret (.proxy i)) ∧
    call (run .fixed init h) i = .reached (.ent (.obj k)) := by
  obtain ⟨h1, h2⟩ := C16_return_partial h hA k i w .serpent hr
  refine ⟨?_, h2⟩
  rw [C16_autoProxy_translated]
  obtain ⟨hI, _, _⟩ := reach h invW_init back_init hA
  have hd : (run .fixed init h).dead k = false := hI.alive i k w hr
  generalize run Cfg.fixed init h = s at *
  by_cases hcond : (getDm s (.obj k) = .this && ownsEntry s k) = true
  · have hcond' : (decide (getDm s (Ent.obj k) = DAttr.this) && ownsEntry s k) = true := hcond
    simp only [returnObj, hd, Cfg.fixed, Bool.not_true, Bool.false_or, hcond', if_true, Bool.false_eq_true, if_false] at h1
    have : proxyFor s (.byObj (.obj k)) = .proxy i := by injection h1
    simp [hcond, this, resR]
  · exfalso
    have hcond' : (decide (getDm s (Ent.obj k) = DAttr.this) && ownsEntry s k) = false := by simpa using hcond
    simp only [returnObj, hd, Cfg.fixed, Bool.not_true, Bool.false_or, hcond', Bool.false_eq_true, if_false] at h1
    have := congrArg Prod.snd h1
    simp only [byValue] at this
    split at this <;> cases this

end Pyro.C16
