/-
  C09 — Instance modes: one per daemon, one per connection, or one per call.

  Model: PyroModel/Instances.lean (`_getInstance`, `createInstance`, `SocketConnection.__init__/close`,
  `behavior`, the default of `register`).  The operator with which `_getInstance` decides that a table
  holds no instance yet is a parameter of the model (`Tests`); the extractor reads it from the source
  (`Pyro.Gen.C09.singleTest/sessionTest`).  The property is proved for `instance is None` (`fixed`);
  `C09_gen_tests` is the obligation that this is what the source does.  For the operator upstream
  shipped (`if not instance:`, `asShipped`) the statement is refuted from a concrete witness (finding
  F9) and only the `_partial` theorems hold (instances that are truthy).

  All theorems quantify over every class table `spec`, every history of opening connections, calls and
  closing, and every behaviour of user code (each call carries the `Outcome` its constructor / creator
  would have); the `single` race is quantified over every schedule through `Pyro.Lock.atomic`.
-/
import PyroModel.Instances
import PyroProofs.Instances
import PyroModel.Gen.C09

namespace Pyro.C09

open Pyro Pyro.Inst Pyro.Lock

/-- `if instance is None:` in both branches -/
def fixed : Tests := ⟨.isNone, .isNone⟩
/-- `if not instance:` in both branches (upstream before the fix) -/
def asShipped : Tests := ⟨.falsy, .falsy⟩

/-- the operators the current source uses -/
def srcTests : Option Tests :=
  match Test.ofString Pyro.Gen.C09.singleTest, Test.ofString Pyro.Gen.C09.sessionTest with
  | some a, some b => some ⟨a, b⟩
  | _, _ => none

/-! ### obligations about the extracted facts -/

/-- **C09_gen_tests.**  Both table lookups of `_getInstance` test `instance is None`: the theorems
    below are about the code as it is. -/
theorem C09_gen_tests : srcTests = some fixed := by decide

/-- **C09_gen_shape.**  `_getInstance` has the control structure the model follows, up to renaming of
    parameters / locals / the helper, logging, docstrings, message texts and the early-return ⇄ else and negated-test
    forms (see harness/props/c09_extract.py): unpack of `_pyroInstancing`; the three mode branches in order;
    get / test / create / store / return in `single` (all inside the lock) and `session`; a bare create in
    `percall`; `DaemonError` otherwise; the creation helper is creator-if-truthy, isinstance check else
    `TypeError`, otherwise `clazz()`, every exception re-raised. -/
theorem C09_gen_shape :
    Pyro.Gen.C09.unpack = "v0, v1 = a0._pyroInstancing" ∧
    Pyro.Gen.C09.modeBranches = ["single", "session", "percall"] ∧
    Pyro.Gen.C09.singleShape = "with(self.create_single_instance_lock)[x0 = self._pyroInstances.get(a0);if(TEST)[x0 = f0(a0, v1);self._pyroInstances[a0] = x0];return x0]" ∧
    Pyro.Gen.C09.sessionShape = "x0 = a1.pyroInstances.get(a0);if(TEST)[x0 = f0(a0, v1);a1.pyroInstances[a0] = x0];return x0" ∧
    Pyro.Gen.C09.percallShape = "return f0(a0, v1)" ∧
    Pyro.Gen.C09.elseShape = "raise errors.DaemonError" ∧
    Pyro.Gen.C09.createShape = "try[if(a1)[x0 = a1(a0);if(isinstance(x0, a0))[return x0]else[raise TypeError]]else[return a0()]]except(Exception)[raise]" :=
  ⟨rfl, rfl, rfl, rfl, rfl, rfl, rfl⟩

/-- **C09_gen_lock.**  The only functions that touch `_pyroInstances` are `Daemon.__init__` (where the daemon is
    not shared yet) and `_getInstance`, whose accesses are all lexically inside `with <the single-instance lock>:`;
    the lock is a real `threading` lock, and the lock attribute and the table attribute are bound once, in `__init__`
    (one lock object and one table for the daemon's whole lifetime: closing the daemon or re-entering its request
    loop does not replace them); no other function of the package mentions either table; `_getInstance`
    has its one call site in `handleRequest`. -/
theorem C09_gen_lock :
    Pyro.Gen.C09.instShape.map (·.1) = ["Daemon.__init__", "Daemon._getInstance"] ∧
    (∀ m ∈ Pyro.Gen.C09.instShape, m.1 = "Daemon.__init__" ∨ (m.2.2 = 0 ∧ 0 < m.2.1)) ∧
    Pyro.Gen.C09.lockKind ∈ ["Lock", "RLock"] ∧
    Pyro.Gen.C09.lockWriters = ["Daemon.__init__"] ∧ Pyro.Gen.C09.tableWriters = ["Daemon.__init__"] ∧
    Pyro.Gen.C09.tableUsers = ["server.py:Daemon.__init__", "server.py:Daemon._getInstance",
      "socketutil.py:SocketConnection.__init__", "socketutil.py:SocketConnection.close"] ∧
    Pyro.Gen.C09.getInstanceCallers = ["Daemon.handleRequest:1"] := by decide

/-- **C09_gen_daemon.**  (Probe of two real `Daemon` objects.)  Every daemon has an empty table and a lock of its
    own in its instance dict, and neither name exists as a class attribute (which all daemons of the process
    would share).  This is what makes m daemons m independent copies of the model. -/
theorem C09_gen_daemon :
    Pyro.Gen.C09.daemonsOwnTables = true ∧ Pyro.Gen.C09.daemonsOwnLocks = true ∧
    Pyro.Gen.C09.daemonClassLevelTables = [] :=
  ⟨rfl, rfl, rfl⟩

/-- **C09_gen_conn.**  (Probe of real `SocketConnection` objects.)  A connection starts with an empty session table
    of its own; `close` empties it — also when `shutdown()` and/or `close()` of the socket fail — and leaves it
    alone only for a `keep_open` connection; it never raises. -/
theorem C09_gen_conn :
    Pyro.Gen.C09.connFresh = true ∧
    Pyro.Gen.C09.connClose = [("plain", true), ("keep_open", false), ("shutdown-fails", true), ("close-fails", true),
      ("both-fail", true)] := by decide

def modeArgOfCode : Nat → ModeArg
  | 0 => .str .single | 1 => .str .session | 2 => .str .percall | 3 => .str .invalid | _ => .notStr

def creatorArgOfCode : Nat → CreatorArg
  | 0 => .none | 1 => .callable | 2 => .falsyCallable | 3 => .notCallable | _ => .falsyNotCallable

def specCode (s : ClassSpec) : Nat :=
  100 + 10 * (match s.mode with | .single => 0 | .session => 1 | .percall => 2 | .invalid => 3) +
    (match s.creator with | .none => 0 | .callable => 1 | .falsy => 2)

def behaviorCode : BehaviorRes → Nat
  | .stored s => specCode s | .typeError => 1 | .valueError => 2 | .syntaxError => 3

/-- **C09_gen_behavior.**  (Probe of the real `behavior` and `register`.)  On the whole abstract argument table —
    class or not × {three modes, another string, not a string} × {None, callable, falsy callable, truthy
    non-callable, falsy non-callable} — the real decorator does exactly what `behaviorCheck` says (which error,
    or which `(mode, creator)` pair is stored); its defaults are ("session", None); `register` stamps
    ("session", None) on an undecorated class only, leaving a decorated class and a subclass that inherits its
    instancing alone. -/
theorem C09_gen_behavior :
    Pyro.Gen.C09.behaviorTable.map (fun r => (r.1, r.2.1, r.2.2.1)) =
      ([true, false].flatMap fun ic => (List.range 5).flatMap fun m => (List.range 5).map fun c => (ic, m, c)) ∧
    (∀ r ∈ Pyro.Gen.C09.behaviorTable,
      behaviorCode (behaviorCheck r.1 (modeArgOfCode r.2.1) (creatorArgOfCode r.2.2.1)) = r.2.2.2) ∧
    Pyro.Gen.C09.behaviorDefault = specCode (registerSpec none) ∧
    Pyro.Gen.C09.registerProbe = [specCode (registerSpec none), specCode (registerSpec (some ⟨.percall, .callable⟩)),
      specCode (registerSpec (some ⟨.single, .none⟩))] := by decide

/-- **C09_behavior_modes.**  Whatever `behavior` accepts stores one of the three modes: the
    `DaemonError` branch of `_getInstance` is unreachable through the decorator; and a class registered
    without the decorator is a `session` class without creator. -/
theorem C09_behavior_modes (isClass : Bool) (m : ModeArg) (cr : CreatorArg) (spec : ClassSpec)
    (h : behaviorCheck isClass m cr = .stored spec) :
    spec.mode ≠ .invalid ∧ (∃ md, m = .str md ∧ spec.mode = md) ∧ spec.creator = cr.seen ∧ cr ≠ .notCallable ∧
    registerSpec none = ⟨.session, .none⟩ := by
  cases m with
  | notStr => simp [behaviorCheck] at h
  | str md =>
    cases isClass <;> cases md <;> cases cr <;> simp [behaviorCheck] at h <;> subst h <;>
      simp [CreatorArg.seen, registerSpec]

/-! ### single: one instance per daemon (sequential histories) -/

/-- Full statement for `single`: in every history, all calls on a `single` class that are served are
    served by one and the same instance (whichever connections they come from, whatever was opened or
    closed in between), and no call after the first served one creates anything. -/
def C09_single_Statement (ts : Tests) : Prop :=
  ∀ (spec : Nat → ClassSpec) (h : List Event) (i j c c' k : Nat) (o o' : Outcome) (a : Instance) (x y : Bool),
    (spec k).mode = .single → i < j → h[i]? = some (.call c k o) → h[j]? = some (.call c' k o') →
    (trace ts spec State.init h)[i]? = some (.served a x y) →
    (trace ts spec State.init h)[j]? = some (.served a false false)

theorem single_general (ts : Tests) (spec : Nat → ClassSpec) (s : State) (h : List Event) (i j c c' k : Nat)
    (o o' : Outcome) (a : Instance) (x y : Bool) (hr : reuse ts.single a = true)
    (hm : (spec k).mode = .single) (hij : i < j) (hi : h[i]? = some (.call c k o))
    (hj : h[j]? = some (.call c' k o')) (hti : (trace ts spec s h)[i]? = some (.served a x y)) :
    (trace ts spec s h)[j]? = some (.served a false false) := by
  refine slot_unique ts spec h s i j c k o c' k o' (.single k) a x y hij hi hj ?_ ?_ ?_ hr hti
  · rw [hm]; rfl
  · rw [hm]; rfl
  · intro m e _ _ _; cases e <;> rfl

/-- **C09_single.**  With `instance is None` the full statement holds — for every instance shape,
    truthy or falsy, whatever its `__eq__`. -/
theorem C09_single : C09_single_Statement fixed := by
  intro spec h i j c c' k o o' a x y hm hij hi hj hti
  exact single_general fixed spec State.init h i j c c' k o o' a x y rfl hm hij hi hj hti

/-- **C09_single_partial.**  With either operator the statement holds for instances that are truthy. -/
theorem C09_single_partial (ts : Tests) (spec : Nat → ClassSpec) (h : List Event) (i j c c' k : Nat)
    (o o' : Outcome) (a : Instance) (x y : Bool) (htruthy : a.truthy = true)
    (hm : (spec k).mode = .single) (hij : i < j) (hi : h[i]? = some (.call c k o))
    (hj : h[j]? = some (.call c' k o')) (hti : (trace ts spec State.init h)[i]? = some (.served a x y)) :
    (trace ts spec State.init h)[j]? = some (.served a false false) :=
  single_general ts spec State.init h i j c c' k o o' a x y (reuse_of_truthy _ a htruthy) hm hij hi hj hti

/-- **C09_single_falsy_refuted** (finding F9).  With `if not instance:` the statement is false: a
    `single` class whose instances are falsy, two calls → two instances. -/
theorem C09_single_falsy_refuted : ¬ C09_single_Statement asShipped := by
  intro hst
  have := hst (fun _ => ⟨.single, .none⟩) [.call 0 0 (.ok false 0), .call 1 0 (.ok false 0)] 0 1 0 1 0
    (.ok false 0) (.ok false 0) ⟨0, false, 0⟩ true false rfl (by decide) rfl rfl (by decide)
  revert this
  decide

/-! ### session: one instance per connection, private to it, dropped with it -/

/-- Full statement for `session`: two served calls on the same connection for the same `session`
    class, the connection neither closed nor replaced in between, are served by the same instance and
    the second creates nothing. -/
def C09_session_Statement (ts : Tests) : Prop :=
  ∀ (spec : Nat → ClassSpec) (h : List Event) (i j c k : Nat) (o o' : Outcome) (a : Instance) (x y : Bool),
    (spec k).mode = .session → i < j → h[i]? = some (.call c k o) → h[j]? = some (.call c k o') →
    (∀ m, i < m → m < j → h[m]? ≠ some (.close c) ∧ ∀ kp, h[m]? ≠ some (.openConn c kp)) →
    (trace ts spec State.init h)[i]? = some (.served a x y) →
    (trace ts spec State.init h)[j]? = some (.served a false false)

theorem session_general (ts : Tests) (spec : Nat → ClassSpec) (s : State) (h : List Event) (i j c k : Nat)
    (o o' : Outcome) (a : Instance) (x y : Bool) (hr : reuse ts.session a = true)
    (hm : (spec k).mode = .session) (hij : i < j) (hi : h[i]? = some (.call c k o))
    (hj : h[j]? = some (.call c k o'))
    (hopen : ∀ m, i < m → m < j → h[m]? ≠ some (.close c) ∧ ∀ kp, h[m]? ≠ some (.openConn c kp))
    (hti : (trace ts spec s h)[i]? = some (.served a x y)) :
    (trace ts spec s h)[j]? = some (.served a false false) := by
  refine slot_unique ts spec h s i j c k o c k o' (.sess c k) a x y hij hi hj ?_ ?_ ?_ hr hti
  · rw [hm]; rfl
  · rw [hm]; rfl
  · intro m e h1 h2 he
    obtain ⟨hc, ho⟩ := hopen m h1 h2
    cases e with
    | call _ _ _ => rfl
    | close c' =>
      by_cases hcc : c' = c
      · subst hcc; exact absurd he hc
      · simp [clears, hcc]
    | openConn c' kp =>
      by_cases hcc : c' = c
      · subst hcc; exact absurd he (ho kp)
      · simp [clears, hcc]

/-- **C09_session.**  With `instance is None` the full statement holds for every instance shape. -/
theorem C09_session : C09_session_Statement fixed := by
  intro spec h i j c k o o' a x y hm hij hi hj hopen hti
  exact session_general fixed spec State.init h i j c k o o' a x y rfl hm hij hi hj hopen hti

/-- **C09_session_partial.**  With either operator, for truthy instances. -/
theorem C09_session_partial (ts : Tests) (spec : Nat → ClassSpec) (h : List Event) (i j c k : Nat)
    (o o' : Outcome) (a : Instance) (x y : Bool) (htruthy : a.truthy = true)
    (hm : (spec k).mode = .session) (hij : i < j) (hi : h[i]? = some (.call c k o))
    (hj : h[j]? = some (.call c k o'))
    (hopen : ∀ m, i < m → m < j → h[m]? ≠ some (.close c) ∧ ∀ kp, h[m]? ≠ some (.openConn c kp))
    (hti : (trace ts spec State.init h)[i]? = some (.served a x y)) :
    (trace ts spec State.init h)[j]? = some (.served a false false) :=
  session_general ts spec State.init h i j c k o o' a x y (reuse_of_truthy _ a htruthy) hm hij hi hj hopen hti

/-- **C09_session_falsy_refuted** (finding F9, session branch). -/
theorem C09_session_falsy_refuted : ¬ C09_session_Statement asShipped := by
  intro hst
  have := hst (fun _ => ⟨.session, .none⟩) [.call 0 0 (.ok false 0), .call 0 0 (.ok false 0)] 0 1 0 0
    (.ok false 0) (.ok false 0) ⟨0, false, 0⟩ true false rfl (by decide) rfl rfl
    (by intro m h1 h2; omega) (by decide)
  revert this
  decide

/-- **C09_no_sharing.**  (Either operator.)  Two calls that do not address the same table slot — calls
    on different classes, `session` calls on different connections, any `percall` call and any other
    call — are never served by the same instance, in either order.  Hence no connection ever sees
    another connection's session instance, the single instance of a class serves no other class, and
    a per-call instance serves exactly one call. -/
theorem C09_no_sharing (ts : Tests) (spec : Nat → ClassSpec) (h : List Event) (i j c k c' k' : Nat)
    (o o' : Outcome) (a b : Instance) (x y x' y' : Bool) (hij : i ≠ j)
    (hi : h[i]? = some (.call c k o)) (hj : h[j]? = some (.call c' k' o'))
    (hslots : ∀ sl, slotOf (spec k).mode c k = some sl → slotOf (spec k').mode c' k' ≠ some sl)
    (hti : (trace ts spec State.init h)[i]? = some (.served a x y))
    (htj : (trace ts spec State.init h)[j]? = some (.served b x' y')) : a.idx ≠ b.idx := by
  rcases Nat.lt_or_gt_of_ne hij with hlt | hgt
  · exact exclusive ts spec h State.init i j c k o c' k' o' a x y b x' y' wf_init hlt hi hj hslots hti htj
  · have := exclusive ts spec h State.init j i c' k' o' c k o b x' y' a x y wf_init hgt hj hi
      (fun sl hs heq => hslots sl heq hs) htj hti
    exact fun heq => this heq.symm

/-- **C09_session_private.**  An instance that served a `session` call on one connection never serves
    a `session` call on another connection. -/
theorem C09_session_private (ts : Tests) (spec : Nat → ClassSpec) (h : List Event) (i j c k c' k' : Nat)
    (o o' : Outcome) (a b : Instance) (x y x' y' : Bool) (hc : c ≠ c')
    (hm : (spec k).mode = .session) (hm' : (spec k').mode = .session)
    (hi : h[i]? = some (.call c k o)) (hj : h[j]? = some (.call c' k' o'))
    (hti : (trace ts spec State.init h)[i]? = some (.served a x y))
    (htj : (trace ts spec State.init h)[j]? = some (.served b x' y')) : a.idx ≠ b.idx := by
  have hij : i ≠ j := by
    intro heq; subst heq; rw [hi] at hj
    simp only [Option.some.injEq, Event.call.injEq] at hj
    exact hc hj.1
  refine C09_no_sharing ts spec h i j c k c' k' o o' a b x y x' y' hij hi hj ?_ hti htj
  intro sl hs hs'
  rw [hm] at hs; rw [hm'] at hs'
  simp only [slotOf, Option.some.injEq] at hs hs'
  rw [← hs] at hs'
  simp only [Slot.sess.injEq] at hs'
  exact hc hs'.1.symm

/-- **C09_session_dropped.**  When a connection (not `keep_open`) is closed its session instances are
    dropped: the next call on that connection object for a `session` class finds nothing and — if its
    constructor / creator succeeds — is served by a newly created instance (which by
    `C09_created_fresh` is different from every instance that served before). -/
theorem C09_session_dropped (ts : Tests) (spec : Nat → ClassSpec) :
    ∀ (h : List Event) (s : State) (i j c k : Nat) (t : Bool) (q : Nat),
      s.keep c = false → (∀ m, m < i → h[m]? ≠ some (.openConn c true)) →
      (spec k).mode = .session → i < j → h[i]? = some (.close c) →
      (∀ m c' k' o', i < m → m < j → h[m]? = some (.call c' k' o') →
          slotOf (spec k').mode c' k' ≠ some (.sess c k)) →
      h[j]? = some (.call c k (.ok t q)) →
      ∃ n, (trace ts spec s h)[j]? = some (.served ⟨n, t, q⟩ true ((spec k).creator == .callable)) := by
  intro h
  induction h with
  | nil => intro s i j c k t q _ _ _ _ hi; simp at hi
  | cons e es ih =>
    intro s i j c k t q hk hno hm hij hi hcalls hj
    cases j with
    | zero => omega
    | succ j =>
      simp only [List.getElem?_cons_succ] at hj
      rw [trace_succ]
      cases i with
      | zero =>
        simp only [List.getElem?_cons_zero, Option.some.injEq] at hi
        subst hi
        refine none_created ts spec (.sess c k) es _ j c k t q ?_ ?_ hj (by rw [hm]; rfl)
        · simp only [stepEv, hk, Bool.false_eq_true, if_false]
          exact clearConn_own _ _ _
        · intro m c' k' o' hmj he
          exact hcalls (m + 1) c' k' o' (Nat.succ_pos _) (Nat.succ_lt_succ hmj) (by simpa using he)
      | succ i =>
        simp only [List.getElem?_cons_succ] at hi
        refine ih _ i j c k t q ?_ ?_ hm (Nat.lt_of_succ_lt_succ hij) hi ?_ hj
        · exact keep_step ts spec s e c hk (by
            intro heq; exact hno 0 (Nat.succ_pos _) (by simp [heq]))
        · intro m hmi
          have := hno (m + 1) (Nat.succ_lt_succ hmi)
          simpa using this
        · intro m c' k' o' h1 h2 he
          exact hcalls (m + 1) c' k' o' (Nat.succ_lt_succ h1) (Nat.succ_lt_succ h2) (by simpa using he)

/-- **C09_close_empties.**  (Either operator.)  Closing a connection that is not `keep_open` leaves it without any
    session instance, whatever it held and however it came to be closed (client gone, error, a `BaseException` that
    ended the server-side job): the oracle clause "a connection that has ended holds no session instance". -/
theorem C09_close_empties (ts : Tests) (spec : Nat → ClassSpec) (s : State) (c k : Nat) (hk : s.keep c = false) :
    (stepEv ts spec s (.close c)).1.tab (.sess c k) = none ∧
    ∀ k', (stepEv ts spec s (.close c)).1.tab (.single k') = s.tab (.single k') := by
  simp only [stepEv, hk, Bool.false_eq_true, if_false]
  exact ⟨clearConn_own _ _ _, fun k' => rfl⟩

/-! ### percall, freshness, creator -/

/-- **C09_percall.**  (Either operator.)  A served call on a `percall` class is served by an instance
    created for it, and that instance serves no other call of the history, before or after. -/
theorem C09_percall (ts : Tests) (spec : Nat → ClassSpec) (h : List Event) (j c k : Nat) (o : Outcome)
    (a : Instance) (x y : Bool) (hm : (spec k).mode = .percall) (hj : h[j]? = some (.call c k o))
    (htj : (trace ts spec State.init h)[j]? = some (.served a x y)) :
    x = true ∧
    ∀ (i c' k' : Nat) (o' : Outcome) (b : Instance) (x' y' : Bool), i ≠ j → h[i]? = some (.call c' k' o') →
      (trace ts spec State.init h)[i]? = some (.served b x' y') → b.idx ≠ a.idx := by
  refine ⟨?_, ?_⟩
  · obtain ⟨s', hs'⟩ := trace_at ts spec h State.init j _ _ hj htj
    exact percall_created ts (spec k) c k o s' a x y hm hs'.symm
  · intro i c' k' o' b x' y' hij hi hti
    have := C09_no_sharing ts spec h j i c k c' k' o o' a b x y x' y' (fun e => hij e.symm) hj hi
      (by intro sl hs; rw [hm] at hs; cases hs) htj hti
    exact fun heq => this heq.symm

/-- **C09_created_fresh.**  (Either operator.)  Whenever a call creates an instance, that instance is
    different from every instance that served any earlier call: creation never hands out an old
    object, and two creations never yield the same object. -/
theorem C09_created_fresh (ts : Tests) (spec : Nat → ClassSpec) (h : List Event) (i j : Nat)
    (a b : Instance) (x y cc : Bool) (hij : i < j)
    (hti : (trace ts spec State.init h)[i]? = some (.served b x y))
    (htj : (trace ts spec State.init h)[j]? = some (.served a true cc)) : b.idx ≠ a.idx :=
  created_fresh ts spec h State.init i j a b x y cc wf_init hij hti htj

/-- **C09_creator_once.**  (Either operator.)  For every call (`creatorOk`, PyroProofs/Instances.lean): if
    it re-used an instance the creator was not called; if it created one, the creator was called (once — `Res` records one invocation) exactly
    when the class has a creator that `createInstance` sees; a `TypeError` can only come from a creator's
    result; an exception from user code is reported with the same creator flag. -/
theorem C09_creator_once (ts : Tests) (spec : Nat → ClassSpec) (s : State) (h : List Event) (j c k : Nat)
    (o : Outcome) (r : Res) (hj : h[j]? = some (.call c k o)) (htj : (trace ts spec s h)[j]? = some r) :
    creatorOk (spec k).creator r := by
  obtain ⟨s', hs'⟩ := trace_at ts spec h s j _ _ hj htj
  subst hs'
  exact getInstance_creator ts (spec k) c k o s'

/-- **C09_created_count.**  (Either operator.)  The number of instances that exist after a history is the
    number of calls that reported a creation: every created instance is accounted for by exactly one call. -/
theorem C09_created_count (ts : Tests) (spec : Nat → ClassSpec) (h : List Event) :
    (runHist ts spec State.init h).1.next = createdCount (trace ts spec State.init h) := by
  have := next_count ts spec h State.init
  simpa [State.init] using this

/-- **C09_failed_creation_stores_nothing.**  A call that was not served (creator returned a foreign
    object, user code raised, invalid mode) leaves both tables and the instance counter unchanged: the
    next call simply tries again. -/
theorem C09_failed_creation_stores_nothing (ts : Tests) (spec : ClassSpec) (c k : Nat) (o : Outcome) (s : State)
    (h : (getInstance ts spec c k o s).2 = .typeError ∨ (∃ cc, (getInstance ts spec c k o s).2 = .raised cc) ∨
         (getInstance ts spec c k o s).2 = .daemonError) :
    (getInstance ts spec c k o s).1 = s := by
  apply fail_unchanged
  intro i x y heq
  rcases h with h | ⟨cc, h⟩ | h <;> rw [h] at heq <;> cases heq

/-- **C09_wf.**  In every reachable state no instance sits in two table slots and every stored instance
    has been created (the invariant behind the sharing theorems). -/
theorem C09_wf (ts : Tests) (spec : Nat → ClassSpec) (h : List Event) : WF (runHist ts spec State.init h).1 :=
  wf_run ts spec h State.init wf_init

/-! ### single under concurrency: every schedule -/

/-- **C09_single_concurrent.**  Any number of threads concurrently call `_getInstance` for `single`
    classes (any classes, any connections, any constructor/creator behaviour), from any state, under
    ANY schedule.  Because the whole find-or-create runs under `create_single_instance_lock`
    (`C09_gen_lock`), `Lock.atomic` applies: the completed calls took effect one at a time in
    lock-release order.  Consequently any two completed calls on the same class were served by the
    same instance, and at most one of them created it. -/
theorem C09_single_concurrent (ts : Tests) (hts : ts.single = .isNone) (spec : Nat → ClassSpec) (s0 : State)
    (calls : List SCall) (schedule : List Nat) (hall : ∀ cl ∈ calls, (spec cl.cls).mode = .single) :
    let cfg := run (Config.init s0 (calls.map (toOp ts spec))) schedule
    Inv s0 cfg ∧ Book (calls.map (toOp ts spec)) cfg ∧
    ∀ (t t' : Nat) (cl cl' : SCall) (a b : Instance) (x y x' y' : Bool),
      calls[t]? = some cl → calls[t']? = some cl' → cl.cls = cl'.cls →
      cfg.threads[t]? = some (.done (.served a x y)) → cfg.threads[t']? = some (.done (.served b x' y')) →
      a = b ∧ (x = true → x' = true → t = t') := by
  intro cfg
  have hb := book s0 (calls.map (toOp ts spec)) schedule
  have hi := atomic s0 (calls.map (toOp ts spec)) schedule
  refine ⟨hi, hb, ?_⟩
  -- the calls in lock-release order
  let lc : List SCall := cfg.log.map (fun e => (calls[e.1]?).getD ⟨0, 0, .raises⟩)
  have hent : ∀ e ∈ cfg.log, ∃ cl, calls[e.1]? = some cl ∧ toOp ts spec cl = e.2.1 := by
    intro e he
    have := (hb.logged e he).1
    rw [List.getElem?_map] at this
    cases hc : calls[e.1]? with
    | none => rw [hc] at this; cases this
    | some cl =>
      rw [hc] at this
      simp only [Option.map_some, Option.some.injEq] at this
      exact ⟨cl, rfl, this⟩
  have hlc : cfg.log.map (·.2.1) = lc.map (toOp ts spec) := by
    simp only [lc, List.map_map]
    apply List.map_congr_left
    intro e he
    obtain ⟨cl, h1, h2⟩ := hent e he
    simp [h1, h2]
  have hlcall : ∀ cl ∈ lc, (spec cl.cls).mode = .single := by
    intro cl hcl
    simp only [lc, List.mem_map] at hcl
    obtain ⟨e, he, rfl⟩ := hcl
    obtain ⟨cl', h1, _⟩ := hent e he
    rw [h1]
    exact hall cl' (List.mem_of_getElem? h1)
  have hres : cfg.log.map (·.2.2) = trace ts spec s0 (lc.map SCall.toEvent) := by
    rw [hi.results, hlc, seqRun_eq_runHist ts spec lc s0 hlcall]
  have hev : ∀ (i t : Nat) (op : Op State Local Res) (r : Res) (cl : SCall),
      cfg.log[i]? = some (t, op, r) → calls[t]? = some cl →
      (lc.map SCall.toEvent)[i]? = some (.call cl.conn cl.cls cl.o) ∧
      (trace ts spec s0 (lc.map SCall.toEvent))[i]? = some r := by
    intro i t op r cl hl hc
    refine ⟨?_, ?_⟩
    · simp only [lc, List.map_map, List.getElem?_map, hl, Option.map_some, Function.comp, hc, Option.getD_some,
        SCall.toEvent]
    · rw [← hres, List.getElem?_map, hl]; rfl
  -- two log positions in order
  have key : ∀ (i j t t' : Nat) (op op' : Op State Local Res) (cl cl' : SCall) (a b : Instance) (x y x' y' : Bool),
      i < j → cfg.log[i]? = some (t, op, .served a x y) → cfg.log[j]? = some (t', op', .served b x' y') →
      calls[t]? = some cl → calls[t']? = some cl' → cl.cls = cl'.cls → b = a ∧ x' = false := by
    intro i j t t' op op' cl cl' a b x y x' y' hij hli hlj hc hc' hcls
    obtain ⟨he1, ht1⟩ := hev i t op _ cl hli hc
    obtain ⟨he2, ht2⟩ := hev j t' op' _ cl' hlj hc'
    have hm := hall cl (List.mem_of_getElem? hc)
    rw [← hcls] at he2
    have := single_general ts spec s0 (lc.map SCall.toEvent) i j cl.conn cl'.conn cl.cls cl.o cl'.o a x y
      (by rw [hts]; rfl) hm hij he1 he2 ht1
    rw [ht2] at this
    simp only [Option.some.injEq, Res.served.injEq] at this
    exact ⟨this.1, this.2.1⟩
  intro t t' cl cl' a b x y x' y' hc hc' hcls hd hd'
  obtain ⟨op, hm⟩ := hb.done_logged t _ hd
  obtain ⟨op', hm'⟩ := hb.done_logged t' _ hd'
  obtain ⟨i, hi1, hi2⟩ := List.getElem_of_mem hm
  obtain ⟨j, hj1, hj2⟩ := List.getElem_of_mem hm'
  have hli : cfg.log[i]? = some (t, op, .served a x y) := by rw [List.getElem?_eq_getElem hi1, hi2]
  have hlj : cfg.log[j]? = some (t', op', .served b x' y') := by rw [List.getElem?_eq_getElem hj1, hj2]
  rcases Nat.lt_trichotomy i j with hlt | heq | hgt
  · obtain ⟨h1, h2⟩ := key i j t t' op op' cl cl' a b x y x' y' hlt hli hlj hc hc' hcls
    exact ⟨h1.symm, fun _ hx' => by rw [h2] at hx'; cases hx'⟩
  · subst heq
    rw [hli] at hlj
    simp only [Option.some.injEq, Prod.mk.injEq, Res.served.injEq] at hlj
    exact ⟨hlj.2.2.1, fun _ _ => hlj.1⟩
  · obtain ⟨h1, h2⟩ := key j i t' t op' op cl' cl b a x' y' x y hgt hlj hli hc' hc hcls.symm
    exact ⟨h1, fun hx _ => by rw [h2] at hx; cases hx⟩

/-! ### non-vacuity -/

/-- class 0 single with a creator, class 1 session without, class 2 percall with a creator -/
private def specA : Nat → ClassSpec := fun k =>
  if k = 0 then ⟨.single, .callable⟩ else if k = 1 then ⟨.session, .none⟩ else ⟨.percall, .callable⟩

/-- two connections; the single creator fails once, then yields a FALSY instance with all-equal `__eq__`;
    session instances are falsy; connection 0 is closed and used again -/
private def histA : List Event :=
  [.call 0 0 .raises, .call 0 0 (.ok false 7), .call 1 0 (.ok true 1), .call 0 1 (.ok false 7),
   .call 1 1 (.ok false 7), .call 0 1 (.ok true 2), .close 0, .call 0 1 (.ok true 3), .call 1 2 (.ok true 0),
   .call 1 2 (.wrongType true 0), .call 1 2 (.ok false 0), .call 1 0 .raises]

example : trace fixed specA State.init histA =
    [.raised true, .served ⟨0, false, 7⟩ true true, .served ⟨0, false, 7⟩ false false,
     .served ⟨1, false, 7⟩ true false, .served ⟨2, false, 7⟩ true false, .served ⟨1, false, 7⟩ false false,
     .done, .served ⟨3, true, 3⟩ true false, .served ⟨4, true, 0⟩ true true, .typeError,
     .served ⟨5, false, 0⟩ true true, .served ⟨0, false, 7⟩ false false] := by decide

-- the same history under the shipped operator: the falsy single instance is re-created by calls 3 and 12
example : trace asShipped specA State.init histA =
    [.raised true, .served ⟨0, false, 7⟩ true true, .served ⟨1, true, 1⟩ true true,
     .served ⟨2, false, 7⟩ true false, .served ⟨3, false, 7⟩ true false, .served ⟨4, true, 2⟩ true false,
     .done, .served ⟨5, true, 3⟩ true false, .served ⟨6, true, 0⟩ true true, .typeError,
     .served ⟨7, false, 0⟩ true true, .served ⟨1, true, 1⟩ false false] := by decide

-- hypotheses of C09_single / C09_session / C09_session_dropped are met by histA (i=1,j=2 ; i=3,j=5 ; close at 6, call at 7)
example : (specA 0).mode = .single ∧ histA[1]? = some (.call 0 0 (.ok false 7)) ∧ histA[2]? = some (.call 1 0 (.ok true 1)) ∧
    (specA 1).mode = .session ∧ histA[3]? = some (.call 0 1 (.ok false 7)) ∧ histA[5]? = some (.call 0 1 (.ok true 2)) ∧
    histA[6]? = some (.close 0) ∧ histA[7]? = some (.call 0 1 (.ok true 3)) ∧ (specA 2).mode = .percall := by decide

-- three racing first calls on a single class whose instances are falsy, one interleaving (threads 0 and 2 try the lock while 1 holds it): thread 1 wins the
-- lock, creates instance 0; threads 2 and 0 are served by it
example : ((run (Config.init State.init
      ([⟨0, 0, .ok false 1⟩, ⟨1, 0, .ok false 2⟩, ⟨2, 0, .ok false 3⟩].map (toOp fixed specA)))
      [1, 0, 1, 2, 1, 1, 1, 2, 0, 2, 2, 2, 2, 0, 0, 0, 0, 0]).log.map (fun e => (e.1, e.2.2)))
    = [(1, Res.served ⟨0, false, 2⟩ true true), (2, Res.served ⟨0, false, 2⟩ false false),
       (0, Res.served ⟨0, false, 2⟩ false false)] := by decide

example : behaviorCheck true (.str .single) .callable = .stored ⟨.single, .callable⟩ ∧
    behaviorCheck true (.str .invalid) .none = .valueError ∧ behaviorCheck true .notStr .none = .syntaxError ∧
    behaviorCheck false (.str .single) .none = .typeError ∧ behaviorCheck true (.str .percall) .notCallable = .typeError ∧
    behaviorCheck true (.str .session) .falsyNotCallable = .stored ⟨.session, .falsy⟩ := by decide

end Pyro.C09
