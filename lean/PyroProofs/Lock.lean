/-
  The atomicity theorem for `PyroModel.Lock`: every reachable configuration of the free
  interleaving semantics is the sequential replay of the completed operations, in lock-release
  order, plus the partially executed body of the current lock holder.
-/
import PyroModel.Lock

namespace Pyro.Lock

variable {S L R : Type}

def TState.isRunning : TState S L R → Bool
  | .running _ _ _ => true
  | _ => false

theorem runSteps_append (a b : List (L → S → L × S)) (l : L) (s : S) :
    runSteps (a ++ b) l s = runSteps b (runSteps a l s).1 (runSteps a l s).2 := by
  simp [runSteps, List.foldl_append]

theorem seqRun_snoc (ops : List (Op S L R)) (op : Op S L R) (s0 : S) :
    seqRun (ops ++ [op]) s0 =
      ((op.run (seqRun ops s0).1).1, (seqRun ops s0).2 ++ [(op.run (seqRun ops s0).1).2]) := by
  induction ops generalizing s0 with
  | nil => simp [seqRun]
  | cons o os ih =>
    simp only [List.cons_append, seqRun]
    rw [ih]

/-- The invariant: log results are the sequential results; the shared state is the sequential
    replay of the log (no holder) or that replay advanced by the consumed prefix of the holder's
    body (holder); nobody but the holder is inside a body. -/
structure Inv (s0 : S) (c : Config S L R) : Prop where
  results : c.log.map (·.2.2) = (seqRun (c.log.map (·.2.1)) s0).2
  state : match c.holder with
    | none => c.shared = (seqRun (c.log.map (·.2.1)) s0).1 ∧
              ∀ (t : Nat) (st : TState S L R), c.threads[t]? = some st → st.isRunning = false
    | some h => ∃ op l rest pre, c.threads[h]? = some (.running op l rest) ∧ op.steps = pre ++ rest ∧
              runSteps pre op.init (seqRun (c.log.map (·.2.1)) s0).1 = (l, c.shared) ∧
              ∀ (t : Nat) (st : TState S L R), t ≠ h → c.threads[t]? = some st → st.isRunning = false

theorem inv_init (s0 : S) (ops : List (Op S L R)) : Inv s0 (Config.init s0 ops) := by
  refine ⟨by simp [Config.init, seqRun], ?_⟩
  simp only [Config.init, List.map_nil, seqRun, true_and]
  intro t st h
  rw [List.getElem?_map] at h
  cases ho : ops[t]? with
  | none => simp [ho] at h
  | some o => simp [ho] at h; subst h; rfl

theorem getElem?_set_ne' {α} (l : List α) (i j : Nat) (a : α) (h : i ≠ j) :
    (l.set i a)[j]? = l[j]? := by
  simp [List.getElem?_set, h]

theorem getElem?_set_self' {α} (l : List α) (i : Nat) (a b : α) (h : l[i]? = some b) :
    (l.set i a)[i]? = some a := by
  have : i < l.length := by
    cases hl : l[i]? with
    | none => rw [hl] at h; cases h
    | some _ => exact (List.getElem?_eq_some_iff.mp hl).1
  simp [List.getElem?_set, this]

theorem inv_step (s0 : S) (c : Config S L R) (tid : Nat) (hinv : Inv s0 c) : Inv s0 (step c tid) := by
  unfold step
  cases ht : c.threads[tid]? with
  | none => simpa using hinv
  | some st =>
    cases st with
    | done r => simpa using hinv
    | waiting op =>
      simp only
      cases hh : c.holder with
      | some h => simpa [hh] using hinv
      | none =>
        simp only
        have hs := hinv.state
        rw [hh] at hs
        obtain ⟨hshared, hnr⟩ := hs
        refine ⟨hinv.results, ?_⟩
        simp only
        refine ⟨op, op.init, op.steps, [], getElem?_set_self' _ _ _ _ ht, rfl, ?_, ?_⟩
        · simp [runSteps, hshared]
        · intro t st hne hst
          rw [getElem?_set_ne' _ _ _ _ (Ne.symm hne)] at hst
          exact hnr t st hst
    | running op l rest =>
      -- the holder must be tid
      have hs := hinv.state
      have hhold : c.holder = some tid := by
        cases hh : c.holder with
        | none =>
          rw [hh] at hs
          have := hs.2 tid _ ht
          simp [TState.isRunning] at this
        | some h =>
          rw [hh] at hs
          obtain ⟨_, _, _, _, _, _, _, hnr⟩ := hs
          by_cases he : tid = h
          · rw [he]
          · have := hnr tid _ he ht
            simp [TState.isRunning] at this
      rw [hhold] at hs
      obtain ⟨op', l', rest', pre, hth, hsteps, hrun, hnr⟩ := hs
      rw [ht] at hth
      simp only [Option.some.injEq, TState.running.injEq] at hth
      obtain ⟨rfl, rfl, rfl⟩ := hth
      cases rest with
      | cons f rest =>
        simp only
        refine ⟨hinv.results, ?_⟩
        simp only [hhold]
        refine ⟨op, (f l c.shared).1, rest, pre ++ [f], getElem?_set_self' _ _ _ _ ht, ?_, ?_, ?_⟩
        · rw [hsteps]; simp
        · rw [runSteps_append, hrun]; simp [runSteps]
        · intro t st hne hst
          rw [getElem?_set_ne' _ _ _ _ (Ne.symm hne)] at hst
          exact hnr t st hne hst
      | nil =>
        simp only
        simp only [List.append_nil] at hsteps
        have hrunop : op.run (seqRun (c.log.map (·.2.1)) s0).1 = (c.shared, op.result l) := by
          simp only [Op.run, hsteps, hrun]
        refine ⟨?_, ?_⟩
        · simp only [List.map_append, List.map_cons, List.map_nil]
          rw [seqRun_snoc, hrunop, hinv.results]
        · simp only [List.map_append, List.map_cons, List.map_nil]
          rw [seqRun_snoc, hrunop]
          refine ⟨rfl, ?_⟩
          intro t st hst
          by_cases he : t = tid
          · subst he
            rw [getElem?_set_self' _ _ _ _ ht] at hst
            simp only [Option.some.injEq] at hst
            subst hst; rfl
          · rw [getElem?_set_ne' _ _ _ _ (Ne.symm he)] at hst
            exact hnr t st he hst

/-- **Lock.atomic.**  For every initial state, every set of operations whose bodies run under the
    one lock, and every schedule (any number of threads, any length): the reached configuration
    satisfies `Inv` — completed operations took effect atomically, one after another, in
    lock-release order, and each returned what sequential execution returns at its position. -/
theorem atomic (s0 : S) (ops : List (Op S L R)) (schedule : List Nat) :
    Inv s0 (run (Config.init s0 ops) schedule) := by
  have : ∀ (c : Config S L R), Inv s0 c → Inv s0 (run c schedule) := by
    induction schedule with
    | nil => intro c h; exact h
    | cons t ts ih =>
      intro c h
      simp only [run, List.foldl_cons]
      exact ih _ (inv_step s0 c t h)
  exact this _ (inv_init s0 ops)

/-- Quiescent corollary: when no thread holds the lock, the shared state is exactly the
    sequential replay of the completed operations in log order and the logged results are the
    sequential results. -/
theorem atomic_quiescent (s0 : S) (ops : List (Op S L R)) (schedule : List Nat)
    (hq : (run (Config.init s0 ops) schedule).holder = none) :
    let c := run (Config.init s0 ops) schedule
    (c.shared, c.log.map (·.2.2)) = seqRun (c.log.map (·.2.1)) s0 := by
  have h := atomic s0 ops schedule
  have hs := h.state
  rw [hq] at hs
  simp only
  rw [h.results, hs.1]

/-! ### bookkeeping: which thread ran which operation, and that each completes at most once -/

structure Book (ops : List (Op S L R)) (c : Config S L R) : Prop where
  logged : ∀ e ∈ c.log, ops[e.1]? = some e.2.1 ∧ c.threads[e.1]? = some (.done e.2.2)
  done_logged : ∀ (t : Nat) (r : R), c.threads[t]? = some (.done r) → ∃ op, (t, op, r) ∈ c.log
  waiting_op : ∀ (t : Nat) (op : Op S L R), c.threads[t]? = some (.waiting op) → ops[t]? = some op
  running_op : ∀ (t : Nat) (op : Op S L R) (l : L) (rest : List (L → S → L × S)),
      c.threads[t]? = some (.running op l rest) → ops[t]? = some op
  nodup : (c.log.map (·.1)).Nodup
  len : c.threads.length = ops.length

theorem book_init (s0 : S) (ops : List (Op S L R)) : Book ops (Config.init s0 ops) := by
  refine ⟨by simp [Config.init], ?_, ?_, ?_, by simp [Config.init], by simp [Config.init]⟩
  · intro t r h
    simp only [Config.init, List.getElem?_map] at h
    cases ho : ops[t]? <;> simp [ho] at h
  · intro t op h
    simp only [Config.init, List.getElem?_map] at h
    cases ho : ops[t]? with
    | none => simp [ho] at h
    | some o => simp [ho] at h; rw [h]
  · intro t op l rest h
    simp only [Config.init, List.getElem?_map] at h
    cases ho : ops[t]? <;> simp [ho] at h

theorem book_step (ops : List (Op S L R)) (c : Config S L R) (tid : Nat) (hb : Book ops c) :
    Book ops (step c tid) := by
  unfold step
  cases ht : c.threads[tid]? with
  | none => simpa using hb
  | some st =>
    cases st with
    | done r => simpa using hb
    | waiting op =>
      simp only
      cases hh : c.holder with
      | some h => simpa [hh] using hb
      | none =>
        simp only
        refine ⟨?_, ?_, ?_, ?_, hb.nodup, by simp [hb.len]⟩
        · intro e he
          obtain ⟨h1, h2⟩ := hb.logged e he
          refine ⟨h1, ?_⟩
          have hne : tid ≠ e.1 := by intro heq; rw [heq] at ht; rw [ht] at h2; cases h2
          rw [getElem?_set_ne' _ _ _ _ hne]; exact h2
        · intro t r h
          by_cases he : t = tid
          · subst he; rw [getElem?_set_self' _ _ _ _ ht] at h; cases h
          · rw [getElem?_set_ne' _ _ _ _ (Ne.symm he)] at h; exact hb.done_logged t r h
        · intro t op' h
          by_cases he : t = tid
          · subst he; rw [getElem?_set_self' _ _ _ _ ht] at h; cases h
          · rw [getElem?_set_ne' _ _ _ _ (Ne.symm he)] at h; exact hb.waiting_op t op' h
        · intro t op' l rest h
          by_cases he : t = tid
          · subst he; rw [getElem?_set_self' _ _ _ _ ht] at h
            simp only [Option.some.injEq, TState.running.injEq] at h
            obtain ⟨rfl, _, _⟩ := h
            exact hb.waiting_op t op ht
          · rw [getElem?_set_ne' _ _ _ _ (Ne.symm he)] at h; exact hb.running_op t op' l rest h
    | running op l rest =>
      cases rest with
      | cons f rest =>
        simp only
        refine ⟨?_, ?_, ?_, ?_, hb.nodup, by simp [hb.len]⟩
        · intro e he
          obtain ⟨h1, h2⟩ := hb.logged e he
          refine ⟨h1, ?_⟩
          have hne : tid ≠ e.1 := by intro heq; rw [heq] at ht; rw [ht] at h2; cases h2
          rw [getElem?_set_ne' _ _ _ _ hne]; exact h2
        · intro t r h
          by_cases he : t = tid
          · subst he; rw [getElem?_set_self' _ _ _ _ ht] at h; cases h
          · rw [getElem?_set_ne' _ _ _ _ (Ne.symm he)] at h; exact hb.done_logged t r h
        · intro t op' h
          by_cases he : t = tid
          · subst he; rw [getElem?_set_self' _ _ _ _ ht] at h; cases h
          · rw [getElem?_set_ne' _ _ _ _ (Ne.symm he)] at h; exact hb.waiting_op t op' h
        · intro t op' l' rest' h
          by_cases he : t = tid
          · subst he; rw [getElem?_set_self' _ _ _ _ ht] at h
            simp only [Option.some.injEq, TState.running.injEq] at h
            obtain ⟨rfl, _, _⟩ := h
            exact hb.running_op t op l (f :: rest) ht
          · rw [getElem?_set_ne' _ _ _ _ (Ne.symm he)] at h; exact hb.running_op t op' l' rest' h
      | nil =>
        simp only
        have hop := hb.running_op tid op l [] ht
        have hnotin : tid ∉ c.log.map (·.1) := by
          intro hm
          simp only [List.mem_map] at hm
          obtain ⟨e, he, heq⟩ := hm
          have := (hb.logged e he).2
          rw [heq, ht] at this; cases this
        refine ⟨?_, ?_, ?_, ?_, ?_, by simp [hb.len]⟩
        · intro e he
          simp only [List.mem_append, List.mem_singleton] at he
          rcases he with he | he
          · obtain ⟨h1, h2⟩ := hb.logged e he
            refine ⟨h1, ?_⟩
            have hne : tid ≠ e.1 := by intro heq; rw [heq] at ht; rw [ht] at h2; cases h2
            rw [getElem?_set_ne' _ _ _ _ hne]; exact h2
          · subst he
            exact ⟨hop, getElem?_set_self' _ _ _ _ ht⟩
        · intro t r h
          by_cases he : t = tid
          · subst he; rw [getElem?_set_self' _ _ _ _ ht] at h
            simp only [Option.some.injEq, TState.done.injEq] at h
            subst h
            exact ⟨op, by simp⟩
          · rw [getElem?_set_ne' _ _ _ _ (Ne.symm he)] at h
            obtain ⟨op', hm⟩ := hb.done_logged t r h
            exact ⟨op', by simp [hm]⟩
        · intro t op' h
          by_cases he : t = tid
          · subst he; rw [getElem?_set_self' _ _ _ _ ht] at h; cases h
          · rw [getElem?_set_ne' _ _ _ _ (Ne.symm he)] at h; exact hb.waiting_op t op' h
        · intro t op' l' rest' h
          by_cases he : t = tid
          · subst he; rw [getElem?_set_self' _ _ _ _ ht] at h; cases h
          · rw [getElem?_set_ne' _ _ _ _ (Ne.symm he)] at h; exact hb.running_op t op' l' rest' h
        · simp only [List.map_append, List.map_cons, List.map_nil]
          rw [List.nodup_append]
          refine ⟨hb.nodup, by simp, ?_⟩
          intro a ha b hb'
          simp only [List.mem_singleton] at hb'
          subst hb'
          intro heq; subst heq; exact hnotin ha

/-- Bookkeeping holds in every reachable configuration. -/
theorem book (s0 : S) (ops : List (Op S L R)) (schedule : List Nat) :
    Book ops (run (Config.init s0 ops) schedule) := by
  have : ∀ (c : Config S L R), Book ops c → Book ops (run c schedule) := by
    induction schedule with
    | nil => intro c h; exact h
    | cons t ts ih =>
      intro c h
      simp only [run, List.foldl_cons]
      exact ih _ (book_step ops c t h)
  exact this _ (book_init s0 ops)

end Pyro.Lock
