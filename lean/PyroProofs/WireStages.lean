/-
  Inversion lemmas for the stages of `recvStub` (helper lemmas for PyroProps/C06.lean).
-/
import PyroModel.Wire
import PyroProofs.Wire

namespace Pyro.Wire

open Pyro

theorem recvN_some (n : Nat) (s a b : Bytes) (h : recvN n s = some (a, b)) :
    s = a ++ b ∧ a.length = n := by
  unfold recvN at h
  split at h
  · simp only [Option.some.injEq, Prod.mk.injEq] at h
    obtain ⟨rfl, rfl⟩ := h
    refine ⟨(List.take_append_drop _ _).symm, ?_⟩
    simp only [List.length_take]; omega
  · cases h

theorem stage3_requested (z : Zlib) (H : Header) (s2 : Bytes) :
    (recvStage3 z H s2).requested = headerSize + H.annSize + H.dataSize := by
  unfold recvStage3
  generalize recvN (H.annSize + H.dataSize) s2 = r
  cases r with
  | none => rfl
  | some p => obtain ⟨_, _⟩ := p; rfl

theorem stage2_requested (cfg : Cfg) (z : Zlib) (acc : List Nat) (h40 s2 : Bytes)
    (h : (recvStage2 cfg z acc h40 s2).requested > headerSize) :
    ∃ H, parseHeader cfg h40 = .ok H ∧
      (recvStage2 cfg z acc h40 s2).requested = headerSize + H.annSize + H.dataSize := by
  unfold recvStage2 at h ⊢
  generalize hp : parseHeader cfg h40 = ph at h ⊢
  cases ph with
  | error e => simp at h
  | ok H =>
    simp only at h ⊢
    refine ⟨H, rfl, ?_⟩
    by_cases hf : (!acc.isEmpty && !acc.contains H.type) = true
    · rw [if_pos hf] at h; simp at h
    · rw [if_neg hf]; exact stage3_requested z H s2

theorem stage3_ok (z : Zlib) (H : Header) (s2 : Bytes) (d : Decoded) (n : Nat) (rest : Bytes)
    (h : recvStage3 z H s2 = ⟨.ok d, n, rest⟩) :
    ∃ body, s2 = body ++ rest ∧ body.length = H.annSize + H.dataSize ∧
      addPayload z H body = .ok d ∧ n = headerSize + H.annSize + H.dataSize := by
  unfold recvStage3 at h
  generalize hr : recvN (H.annSize + H.dataSize) s2 = r at h
  cases r with
  | none => simp at h
  | some p =>
    obtain ⟨body, s3⟩ := p
    simp only [StubResult.mk.injEq] at h
    obtain ⟨h1, h2, h3⟩ := h
    subst h3
    obtain ⟨e1, e2⟩ := recvN_some _ _ _ _ hr
    exact ⟨body, e1, e2, h1, h2.symm⟩

theorem stage2_ok (cfg : Cfg) (z : Zlib) (acc : List Nat) (h40 s2 : Bytes) (d : Decoded) (n : Nat)
    (rest : Bytes) (h : recvStage2 cfg z acc h40 s2 = ⟨.ok d, n, rest⟩) :
    ∃ H, parseHeader cfg h40 = .ok H ∧ (acc = [] ∨ H.type ∈ acc) ∧
      recvStage3 z H s2 = ⟨.ok d, n, rest⟩ := by
  unfold recvStage2 at h
  generalize hp : parseHeader cfg h40 = ph at h
  cases ph with
  | error e => simp at h
  | ok H =>
    simp only at h
    by_cases hf : (!acc.isEmpty && !acc.contains H.type) = true
    · rw [if_pos hf] at h; simp at h
    · rw [if_neg hf] at h
      refine ⟨H, rfl, ?_, h⟩
      cases acc with
      | nil => exact Or.inl rfl
      | cons a as =>
        right
        simp only [List.isEmpty_cons, Bool.not_false, Bool.true_and, Bool.not_eq_true', Bool.not_eq_false] at hf
        simpa using hf

theorem recvStub_ok (cfg : Cfg) (z : Zlib) (acc : List Nat) (stream : Bytes) (d : Decoded) (n : Nat)
    (rest : Bytes) (h : recvStub cfg z acc stream = ⟨.ok d, n, rest⟩) :
    ∃ h6 h34 s2, stream = h6 ++ (h34 ++ s2) ∧ h6.length = 6 ∧ h34.length = headerSize - 6 ∧
      recvStage2 cfg z acc (h6 ++ h34) s2 = ⟨.ok d, n, rest⟩ := by
  unfold recvStub at h
  generalize hr : recvN 6 stream = r at h
  cases r with
  | none => simp at h
  | some p =>
    obtain ⟨h6, s1⟩ := p
    simp only at h
    by_cases c1 : h6.take 4 ≠ tagPYRO
    · rw [if_pos c1] at h; simp at h
    · rw [if_neg c1] at h
      by_cases c2 : h6.drop 4 ≠ toBE 2 protocolVersion
      · rw [if_pos c2] at h; simp at h
      · rw [if_neg c2] at h
        generalize hr2 : recvN (headerSize - 6) s1 = r2 at h
        cases r2 with
        | none => simp at h
        | some p2 =>
          obtain ⟨h34, s2⟩ := p2
          simp only at h
          obtain ⟨e1, e2⟩ := recvN_some _ _ _ _ hr
          obtain ⟨e3, e4⟩ := recvN_some _ _ _ _ hr2
          exact ⟨h6, h34, s2, by rw [e1, e3], e2, e4, h⟩

/-- annotation chunks as they lie on the wire: raw 4-byte id, 4-byte big-endian length, value -/
def rawChunks : List (Bytes × Bytes) → Bytes
  | [] => []
  | (i, v) :: r => i ++ (toBE 4 v.length ++ (v ++ rawChunks r))

theorem walk_tiles (fuel : Nat) :
    ∀ (rest : Bytes) (remaining : Nat) (acc anns : List Ann),
      walkAnns fuel rest remaining acc = .ok anns → remaining ≤ rest.length →
      ∃ chunks : List (Bytes × Bytes),
        rest.take remaining = rawChunks chunks ∧
        (∀ c ∈ chunks, c.1.length = 4 ∧ c.2.length < 2 ^ 32) ∧
        anns = chunks.foldl (fun d c => dictSet d (c.1.map UInt8.toNat) c.2) acc := by
  induction fuel with
  | zero =>
    intro rest remaining acc anns h _
    simp only [walkAnns] at h
    by_cases h0 : remaining = 0
    · subst h0
      simp only [if_true, Except.ok.injEq] at h; subst h
      exact ⟨[], by simp [rawChunks], by simp, rfl⟩
    · rw [if_neg h0] at h; cases h
  | succ fuel ih =>
    intro rest remaining acc anns h hlen
    simp only [walkAnns] at h
    by_cases h0 : remaining = 0
    · subst h0
      simp only [if_true, Except.ok.injEq] at h; subst h
      exact ⟨[], by simp [rawChunks], by simp, rfl⟩
    · rw [if_neg h0] at h
      by_cases h1 : (List.take 4 rest).any (· ≥ 128) = true
      · rw [if_pos h1] at h; cases h
      · rw [if_neg h1] at h
        by_cases h2 : 8 + fromBE (List.take 4 (List.drop 4 rest)) > remaining
        · rw [if_pos h2] at h; cases h
        · rw [if_neg h2] at h
          have hl4 : (List.take 4 (List.drop 4 rest)).length = 4 := by
            simp only [List.length_take, List.length_drop]; omega
          have hlt := fromBE_lt (List.take 4 (List.drop 4 rest))
          rw [hl4] at hlt
          obtain ⟨chunks, hc1, hc2, hc3⟩ := ih _ _ _ _ h (by simp only [List.length_drop]; omega)
          refine ⟨(List.take 4 rest, List.take (fromBE (List.take 4 (List.drop 4 rest))) (List.drop 8 rest)) :: chunks, ?_, ?_, ?_⟩
          · simp only [rawChunks]
            have hvl : (List.take (fromBE (List.take 4 (List.drop 4 rest))) (List.drop 8 rest)).length
                = fromBE (List.take 4 (List.drop 4 rest)) := by
              simp only [List.length_take, List.length_drop]; omega
            rw [hvl]
            have hbe : toBE 4 (fromBE (List.take 4 (List.drop 4 rest))) = List.take 4 (List.drop 4 rest) := by
              have := toBE_fromBE (List.take 4 (List.drop 4 rest))
              rw [hl4] at this; exact this
            rw [hbe, ← hc1]
            generalize fromBE (List.take 4 (List.drop 4 rest)) = L at *
            have e1 : remaining = 4 + (4 + (L + (remaining - (8 + L)))) := by omega
            conv => lhs; rw [e1]
            rw [List.take_add, List.take_add, List.take_add]
            simp only [List.drop_drop]
          · intro c hc
            simp only [List.mem_cons] at hc
            rcases hc with rfl | hc
            · refine ⟨by simp only [List.length_take]; omega, ?_⟩
              simp only [List.length_take, List.length_drop]
              omega
            · exact hc2 c hc
          · rw [hc3]; rfl

theorem addPayload_ok (z : Zlib) (H : Header) (body : Bytes) (d : Decoded)
    (h : addPayload z H body = .ok d) :
    body.length = H.dataSize + H.annSize ∧
    ∃ chunks : List (Bytes × Bytes),
      body.take H.annSize = rawChunks chunks ∧
      d.anns = chunks.foldl (fun a c => dictSet a (c.1.map UInt8.toNat) c.2) [] ∧
      d.type = H.type ∧ d.serId = H.serId ∧ d.seq = H.seq ∧ d.corr = H.corr ∧
      ((hasBit H.flags FLAGS_COMPRESSED = false ∧ d.data = body.drop H.annSize ∧ d.flags = H.flags) ∨
       (hasBit H.flags FLAGS_COMPRESSED = true ∧ z.decompress (body.drop H.annSize) = some d.data ∧
          d.flags = clearBit H.flags FLAGS_COMPRESSED)) := by
  unfold addPayload at h
  by_cases hl : body.length ≠ H.dataSize + H.annSize
  · rw [if_pos hl] at h; cases h
  · rw [if_neg hl] at h
    have hl' : body.length = H.dataSize + H.annSize := by omega
    refine ⟨hl', ?_⟩
    generalize hw : walkAnns H.annSize body H.annSize [] = w at h
    cases w with
    | error e => simp at h
    | ok anns =>
      simp only at h
      obtain ⟨chunks, hc1, _, hc3⟩ := walk_tiles _ _ _ _ _ hw (by omega)
      refine ⟨chunks, hc1, ?_⟩
      by_cases hc : hasBit H.flags FLAGS_COMPRESSED = true
      · rw [if_pos hc] at h
        generalize hz : z.decompress (List.drop H.annSize body) = zr at h
        cases zr with
        | none => simp at h
        | some dd =>
          simp only [Except.ok.injEq] at h
          subst h
          exact ⟨hc3, rfl, rfl, rfl, rfl, Or.inr ⟨hc, rfl, rfl⟩⟩
      · rw [if_neg hc] at h
        simp only [Except.ok.injEq] at h
        subst h
        exact ⟨hc3, rfl, rfl, rfl, rfl, Or.inl ⟨by simpa using hc, rfl, rfl⟩⟩

end Pyro.Wire
