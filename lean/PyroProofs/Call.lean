/-
  Helper lemmas about `PyroModel.Call` (property C03).
-/
import PyroModel.Call

namespace Pyro.Call

/-! ### invariants -/

/-- A RESULT message produced by the server and not altered: its wire sequence number is the number of
    the INVOKE send that produced it, modulo 2^16. -/
def MsgOK (sends : Nat) (m : Msg) : Prop :=
  m.hs = false → m.seq = m.born % seqMod ∧ m.born ≤ sends

def HistInv (W : World) : Prop :=
  W.seq = W.sends % seqMod ∧
  ∀ a m, W.hist[a]? = some (some m) → m.hs = false ∧ m.seq = m.born % seqMod ∧ m.born + a = W.sends

def QOK (sends : Nat) (c : Conn) : Prop := ∀ m ∈ c.queue, MsgOK sends m

/-- every unread RESULT message is less than 2^16 INVOKE sends old when the next reply is read -/
def QYoung (sends : Nat) (c : Conn) : Prop :=
  ∀ m ∈ c.queue, m.hs = false → sends + 1 < m.born + seqMod

def Inv (W : World) : Prop := HistInv W ∧ ∀ c, W.pc = .live c → QOK W.sends c

/-- every replayed reply is less than 2^16 INVOKE sends old -/
def ScriptYoung (s : List Ev) : Prop := ∀ a, Ev.stale a ∈ s → a + 1 < seqMod

def Young (W : World) (s : List Ev) : Prop :=
  ScriptYoung s ∧ ∀ c, W.pc = .live c → QYoung W.sends c

def PConn.isLive : PConn → Bool
  | .live _ => true
  | _ => false

theorem inv_init (seq0 : Nat) : Inv (init seq0) := by
  refine ⟨⟨rfl, ?_⟩, ?_⟩
  · intro a m h; simp [init] at h
  · intro c h; simp [init] at h

theorem scriptYoung_tail {ev : Ev} {s : List Ev} (h : ScriptYoung (ev :: s)) : ScriptYoung s :=
  fun a ha => h a (List.mem_cons_of_mem _ ha)

theorem scriptYoung_suffix {pre s : List Ev} (h : ScriptYoung (pre ++ s)) : ScriptYoung s :=
  fun a ha => h a (List.mem_append_right _ ha)

/-! ### one connection attempt -/


theorem mem_staleOf {hist : List (Option Msg)} {a : Nat} {m : Msg} :
    m ∈ staleOf hist a ↔ hist[a]? = some (some m) := by
  unfold staleOf
  split
  · rename_i m' h; simp [h]; exact eq_comm
  · rename_i h
    constructor
    · intro hm; simp at hm
    · intro h'; exact absurd h' (by intro h''; exact h _ h'')

theorem staleOf_cases (hist : List (Option Msg)) (a : Nat) :
    staleOf hist a = [] ∨ ∃ m, staleOf hist a = [m] ∧ hist[a]? = some (some m) := by
  unfold staleOf
  split
  · rename_i m h; exact Or.inr ⟨m, rfl, h⟩
  · exact Or.inl rfl

/-- facts about one connection attempt -/
structure ConnFacts (W : World) (s : List Ev) (r : ConnRes) (W' : World) (s' : List Ev) : Prop where
  log : W'.log = W.log
  hist : W'.hist = W.hist
  seq : W'.seq = W.seq
  sends : W'.sends = W.sends
  reads : W'.reads = W.reads
  suffix : ∃ pre, s = pre ++ s'
  err : ∀ o, r = .err o → W'.pc = W.pc ∧ o ≠ .stuck ∧ o ≠ .none_ ∧ ∀ k t, o ≠ .returned k t
  ok : ∀ c, r = .ok c → W'.pc = .live c ∧ c.dead = false ∧ ∀ m ∈ c.queue, m.hs = true

theorem connect_facts (W : World) (s : List Ev) :
    ConnFacts W s (connect W s).1 (connect W s).2.1 (connect W s).2.2 := by
  unfold connect
  cases s with
  | nil => exact ⟨rfl, rfl, rfl, rfl, rfl, ⟨[], rfl⟩, by intro o h; cases h; simp, by intro c h; cases h⟩
  | cons ev s' =>
    cases ev <;> simp [deliver, Ev.reachesServer, hsMsg, pendOutcome, alterSeq]
    case stale a =>
      rcases staleOf_cases W.hist a with h | ⟨m, h, _⟩
      · rw [h]; simp
        exact ⟨rfl, rfl, rfl, rfl, rfl, ⟨[_], rfl⟩, by simp, by simp⟩
      · rw [h]; simp
        by_cases hm : m.hs = true
        · simp [hm]
          exact ⟨rfl, rfl, rfl, rfl, rfl, ⟨[_], rfl⟩, by simp, by simp⟩
        · simp [hm]
          exact ⟨rfl, rfl, rfl, rfl, rfl, ⟨[_], rfl⟩, by simp, by simp⟩
    all_goals exact ⟨rfl, rfl, rfl, rfl, rfl, ⟨[_], rfl⟩, by simp, by simp⟩


/-! ### one `_pyroInvoke` on an existing connection -/


structure InvFacts (k : Kind) (tok : Nat) (W : World) (s : List Ev) (o : Outcome) (W' : World) (s' : List Ev) : Prop where
  logGrow : W'.log = W.log ∨ W'.log = logAfter k tok W.log
  logNone : o = .none_ → W'.log = logAfter k tok W.log
  logRet : ∀ k' t', o = .returned k' t' → W'.log = logAfter k tok W.log
  logOnewayFail : k.isOneway = true → ∀ e, o = .failed e → W'.log = W.log
  released : ∀ e, o = .failed e → W'.pc.isLive = false
  suffix : ∃ pre, s = pre ++ s'
  notStuck : o ≠ .stuck
  reads : k.isOneway = true → W'.reads = W.reads
  onewayOut : k.isOneway = true → ∀ k' t', o ≠ .returned k' t'
  twowayOut : k.isOneway = false → o ≠ .none_

section
variable {k : Kind} {tok : Nat} {W W' : World} {s s' : List Ev}

theorem InvFacts.mk_none (hk : k.isOneway = true) (hlog : W'.log = logAfter k tok W.log) (hr : W'.reads = W.reads)
    (hs : ∃ pre, s = pre ++ s') : InvFacts k tok W s .none_ W' s' where
  logGrow := Or.inr hlog
  logNone := fun _ => hlog
  logRet := fun _ _ h => by cases h
  logOnewayFail := fun _ _ h => by cases h
  released := fun _ h => by cases h
  suffix := hs
  notStuck := by simp
  reads := fun _ => hr
  onewayOut := fun _ _ _ => by simp
  twowayOut := fun h => by simp [hk] at h

theorem InvFacts.mk_failed0 (e : Err) (hlog : W'.log = W.log) (hpc : W'.pc.isLive = false) (hr : W'.reads = W.reads)
    (hs : ∃ pre, s = pre ++ s') : InvFacts k tok W s (.failed e) W' s' where
  logGrow := Or.inl hlog
  logNone := fun h => by cases h
  logRet := fun _ _ h => by cases h
  logOnewayFail := fun _ _ _ => hlog
  released := fun _ _ => hpc
  suffix := hs
  notStuck := by simp
  reads := fun _ => hr
  onewayOut := fun _ _ _ => by simp
  twowayOut := fun _ => by simp

theorem InvFacts.mk_failed1 (e : Err) (hk : k.isOneway = false) (hlog : W'.log = logAfter k tok W.log) (hpc : W'.pc.isLive = false)
    (hs : ∃ pre, s = pre ++ s') : InvFacts k tok W s (.failed e) W' s' where
  logGrow := Or.inr hlog
  logNone := fun h => by cases h
  logRet := fun _ _ h => by cases h
  logOnewayFail := fun h => by simp [hk] at h
  released := fun _ _ => hpc
  suffix := hs
  notStuck := by simp
  reads := fun h => by simp [hk] at h
  onewayOut := fun _ _ _ => by simp
  twowayOut := fun _ => by simp

theorem InvFacts.mk_returned (k' : Kind) (t' : Nat) (hk : k.isOneway = false) (hlog : W'.log = logAfter k tok W.log)
    (hs : ∃ pre, s = pre ++ s') : InvFacts k tok W s (.returned k' t') W' s' where
  logGrow := Or.inr hlog
  logNone := fun h => by cases h
  logRet := fun _ _ _ => hlog
  logOnewayFail := fun h => by simp [hk] at h
  released := fun _ h => by cases h
  suffix := hs
  notStuck := by simp
  reads := fun h => by simp [hk] at h
  onewayOut := fun h => by simp [hk] at h
  twowayOut := fun _ => by simp

theorem InvFacts.mk_end (hs : ∃ pre, s = pre ++ s') : InvFacts k tok W s .scriptEnd W s' where
  logGrow := Or.inl rfl
  logNone := fun h => by cases h
  logRet := fun _ _ h => by cases h
  logOnewayFail := fun _ _ h => by cases h
  released := fun _ h => by cases h
  suffix := hs
  notStuck := by simp
  reads := fun _ => rfl
  onewayOut := fun _ _ _ => by simp
  twowayOut := fun _ => by simp
end

theorem invokeOn_facts (k : Kind) (tok : Nat) (W : World) (c : Conn) (s : List Ev) :
    InvFacts k tok W s (invokeOn real k tok W c s).1 (invokeOn real k tok W c s).2.1 (invokeOn real k tok W c s).2.2 := by
  unfold invokeOn
  by_cases hd : c.dead = true
  · simp [hd, failWith, real]
    exact .mk_failed0 _ rfl rfl rfl ⟨[], rfl⟩
  · simp only [hd]
    cases s with
    | nil => exact .mk_end ⟨[], rfl⟩
    | cons ev s' =>
      by_cases hk : k.isOneway = true
      · cases ev <;> simp [hk, deliver, Ev.reachesServer, failWith, real]
        all_goals first
          | exact .mk_none hk rfl rfl ⟨[_], rfl⟩
          | exact .mk_failed0 _ rfl rfl rfl ⟨[_], rfl⟩
      · have hk' : k.isOneway = false := by simpa using hk
        have two : ∀ (m : Msg) (q : Nat) (Wf Wr : World),
            Wf.log = logAfter k tok W.log → Wf.pc.isLive = false → Wr.log = logAfter k tok W.log →
            InvFacts k tok W (ev :: s')
              (if m.hs = true then (Outcome.failed Err.protocol, Wf, s')
               else if m.seq = q then (Outcome.returned m.kind m.tok, Wr, s') else (Outcome.failed Err.protocol, Wf, s')).1
              (if m.hs = true then (Outcome.failed Err.protocol, Wf, s')
               else if m.seq = q then (Outcome.returned m.kind m.tok, Wr, s') else (Outcome.failed Err.protocol, Wf, s')).2.1
              (if m.hs = true then (Outcome.failed Err.protocol, Wf, s')
               else if m.seq = q then (Outcome.returned m.kind m.tok, Wr, s') else (Outcome.failed Err.protocol, Wf, s')).2.2 := by
          intro m q Wf Wr h1 h2 h3
          by_cases hm : m.hs = true
          · simp [hm]; exact .mk_failed1 _ hk' h1 h2 ⟨[_], rfl⟩
          · by_cases hs : m.seq = q
            · simp [hm, hs]; exact .mk_returned _ _ hk' h3 ⟨[_], rfl⟩
            · simp [hm, hs]; exact .mk_failed1 _ hk' h1 h2 ⟨[_], rfl⟩
        cases hq : c.queue with
        | nil =>
          cases ev <;> simp [hk', deliver, Ev.reachesServer, failWith, real, pendOutcome, alterSeq, hsMsg]
          case stale a =>
            rcases staleOf_cases W.hist a with h | ⟨m, h, _⟩ <;> rw [h] <;> simp
            · exact .mk_returned _ _ hk' rfl ⟨[_], rfl⟩
            · exact two _ _ _ _ (by rfl) (by rfl) (by rfl)
          case seqAlt d =>
            have hne : ((W.seq + 1) % seqMod + 1 + d % 65535) % seqMod ≠ (W.seq + 1) % seqMod := by
              simp only [seqMod]; omega
            simp [hne]
            exact .mk_failed1 _ hk' rfl rfl ⟨[_], rfl⟩
          all_goals first
            | exact .mk_returned _ _ hk' rfl ⟨[_], rfl⟩
            | exact .mk_failed1 _ hk' rfl rfl ⟨[_], rfl⟩
            | exact .mk_failed0 _ rfl rfl rfl ⟨[_], rfl⟩
        | cons m rest =>
          by_cases hr : ev.reachesServer = true
          · simp [hk', hr, failWith, real]
            exact two _ _ _ _ (by rfl) (by rfl) (by rfl)
          · simp [hr, failWith, real]
            exact .mk_failed0 _ rfl rfl rfl ⟨[_], rfl⟩


/-! ### invariant preservation and the own-reply lemma for one `_pyroInvoke` -/


def QOKl (sends : Nat) (l : List Msg) : Prop := ∀ m ∈ l, MsgOK sends m

theorem qokl_nil (n : Nat) : QOKl n [] := by intro m h; cases h
theorem qokl_append {n : Nat} {a b : List Msg} (ha : QOKl n a) (hb : QOKl n b) : QOKl n (a ++ b) := by
  intro m h; rcases List.mem_append.mp h with h | h
  · exact ha m h
  · exact hb m h
theorem qokl_mono {n n' : Nat} {l : List Msg} (h : QOKl n l) (hn : n ≤ n') : QOKl n' l := by
  intro m hm hh; have := h m hm hh; exact ⟨this.1, Nat.le_trans this.2 hn⟩
theorem qokl_tail {n : Nat} {m : Msg} {l : List Msg} (h : QOKl n (m :: l)) : QOKl n l :=
  fun x hx => h x (List.mem_cons_of_mem _ hx)
theorem qokl_hs {n : Nat} {l : List Msg} (h : ∀ m ∈ l, m.hs = true) : QOKl n l := by
  intro m hm hh; rw [h m hm] at hh; cases hh
theorem qokl_stale {W : World} (hH : HistInv W) (a : Nat) : QOKl (W.sends + 1) (staleOf W.hist a) := by
  intro m hm hh
  have := hH.2 a m (mem_staleOf.mp hm)
  exact ⟨this.2.1, by omega⟩
theorem qokl_single {n : Nat} {m : Msg} (h : MsgOK n m) : QOKl n [m] := by
  intro x hx; simp at hx; subst hx; exact h

theorem histInv_push {W W' : World} (hH : HistInv W) (x : Option Msg)
    (hx : ∀ m, x = some m → m.hs = false ∧ m.seq = m.born % seqMod ∧ m.born = W.sends + 1)
    (h1 : W'.seq = (W.seq + 1) % seqMod) (h2 : W'.sends = W.sends + 1) (h3 : W'.hist = x :: W.hist) : HistInv W' := by
  refine ⟨?_, ?_⟩
  · rw [h1, h2, hH.1]; simp only [seqMod]; omega
  · intro a m h
    rw [h3] at h
    cases a with
    | zero =>
      simp at h
      have := hx m h
      exact ⟨this.1, this.2.1, by rw [h2]; omega⟩
    | succ a =>
      simp at h
      have := hH.2 a m h
      exact ⟨this.1, this.2.1, by rw [h2]; omega⟩

theorem inv_of {W' : World} (hH : HistInv W') (hq : ∀ c', W'.pc = .live c' → QOKl W'.sends c'.queue) : Inv W' :=
  ⟨hH, hq⟩


theorem inv_push_live {W W' : World} (hH : HistInv W) (x : Option Msg)
    (hx : ∀ m, x = some m → m.hs = false ∧ m.seq = m.born % seqMod ∧ m.born = W.sends + 1)
    (q : List Msg) (d : Bool) (hq : QOKl (W.sends + 1) q)
    (h1 : W'.seq = (W.seq + 1) % seqMod) (h2 : W'.sends = W.sends + 1) (h3 : W'.hist = x :: W.hist)
    (hpc : W'.pc = .live ⟨q, d⟩) : Inv W' := by
  refine ⟨histInv_push hH x hx h1 h2 h3, ?_⟩
  intro c' hc'
  rw [hpc] at hc'
  cases hc'
  rw [h2]; exact hq

theorem inv_push_idle {W W' : World} (hH : HistInv W) (x : Option Msg)
    (hx : ∀ m, x = some m → m.hs = false ∧ m.seq = m.born % seqMod ∧ m.born = W.sends + 1)
    (h1 : W'.seq = (W.seq + 1) % seqMod) (h2 : W'.sends = W.sends + 1) (h3 : W'.hist = x :: W.hist)
    (hpc : W'.pc = .idle) : Inv W' := by
  refine ⟨histInv_push hH x hx h1 h2 h3, ?_⟩
  intro c' hc'
  rw [hpc] at hc'
  cases hc'

theorem invokeOn_inv (k : Kind) (tok : Nat) (W : World) (c : Conn) (s : List Ev)
    (hI : Inv W) (hQ : QOKl W.sends c.queue) (hY : QYoung W.sends c) (hS : ScriptYoung s) :
    Inv (invokeOn real k tok W c s).2.1 ∧
    ∀ k' t', (invokeOn real k tok W c s).1 = .returned k' t' → k' = k ∧ t' = tok := by
  have hH := hI.1
  have hseq := hH.1
  have hQ1 : QOKl (W.sends + 1) c.queue := qokl_mono hQ (Nat.le_succ _)
  unfold invokeOn
  by_cases hd : c.dead = true
  · simp [hd, failWith, real]
    exact inv_push_idle hH none (by simp) rfl rfl rfl rfl
  · simp only [hd]
    cases s with
    | nil =>
      simp
      exact hI
    | cons ev s' =>
      by_cases hk : k.isOneway = true
      · cases ev <;> simp [hk, deliver, Ev.reachesServer, failWith, real]
        all_goals first
          | exact inv_push_idle hH none (by simp) rfl rfl rfl rfl
          | exact inv_push_live hH none (by simp) _ _ hQ1 rfl rfl rfl rfl
          | exact inv_push_live hH none (by simp) _ _ (qokl_append hQ1 (qokl_stale hH _)) rfl rfl rfl rfl
          | exact inv_push_live hH none (by simp) _ _ (qokl_append hQ1 (qokl_hs (by simp [hsMsg]))) rfl rfl rfl rfl
      · have hk' : k.isOneway = false := by simpa using hk
        let r : Msg := ⟨false, (W.seq + 1) % seqMod, k, tok, W.sends + 1⟩
        have hr : ∀ m, some r = some m → m.hs = false ∧ m.seq = m.born % seqMod ∧ m.born = W.sends + 1 := by
          intro m h; cases h
          refine ⟨rfl, ?_, rfl⟩
          show (W.seq + 1) % seqMod = (W.sends + 1) % seqMod
          rw [hseq]; simp only [seqMod]; omega
        have hrOK : MsgOK (W.sends + 1) r := fun _ => ⟨(hr r rfl).2.1, Nat.le_refl _⟩
        -- the read decision on a head message `m`
        have two : ∀ (m : Msg) (Wf Wr : World) (s1 : List Ev), Inv Wf →
            (m.hs = false → m.seq = (W.seq + 1) % seqMod → Inv Wr ∧ m.kind = k ∧ m.tok = tok) →
            Inv (if m.hs = true then (Outcome.failed Err.protocol, Wf, s1)
               else if m.seq = (W.seq + 1) % seqMod then (Outcome.returned m.kind m.tok, Wr, s1)
               else (Outcome.failed Err.protocol, Wf, s1)).2.1 ∧
            ∀ k' t', (if m.hs = true then (Outcome.failed Err.protocol, Wf, s1)
               else if m.seq = (W.seq + 1) % seqMod then (Outcome.returned m.kind m.tok, Wr, s1)
               else (Outcome.failed Err.protocol, Wf, s1)).1 = .returned k' t' → k' = k ∧ t' = tok := by
          intro m Wf Wr s1 hf hg
          by_cases hm : m.hs = true
          · simp [hm]; exact hf
          · by_cases hs : m.seq = (W.seq + 1) % seqMod
            · have := hg (by simpa using hm) hs
              simp [hm, hs]; exact this
            · simp [hm, hs]; exact hf
        cases hq : c.queue with
        | nil =>
          cases ev <;> simp [hk', deliver, Ev.reachesServer, failWith, real, pendOutcome, alterSeq, hsMsg]
          case stale a =>
            rcases staleOf_cases W.hist a with h | ⟨m, h, hm⟩ <;> rw [h] <;> simp
            · exact inv_push_live hH (some r) hr _ _ (qokl_nil _) rfl rfl rfl rfl
            · refine two m _ _ _ (inv_push_idle hH (some r) hr rfl rfl rfl rfl) ?_
              intro _ hs
              exfalso
              have h1 := hH.2 a m hm
              have h2 := hS a (List.mem_cons_self ..)
              rw [h1.2.1, hseq] at hs
              simp only [seqMod] at hs h2
              omega
          case seqAlt d =>
            have hne : ((W.seq + 1) % seqMod + 1 + d % 65535) % seqMod ≠ (W.seq + 1) % seqMod := by
              simp only [seqMod]; omega
            simp [hne]
            exact inv_push_idle hH (some r) hr rfl rfl rfl rfl
          all_goals first
            | exact inv_push_idle hH none (by simp) rfl rfl rfl rfl
            | exact inv_push_idle hH (some r) hr rfl rfl rfl rfl
            | exact inv_push_live hH (some r) hr _ _ (qokl_nil _) rfl rfl rfl rfl
            | exact inv_push_live hH (some r) hr _ _ (qokl_single hrOK) rfl rfl rfl rfl
        | cons m rest =>
          by_cases hrs : ev.reachesServer = true
          · simp [hk', hrs, failWith, real]
            refine two m _ _ _ (inv_push_idle hH (some r) hr rfl rfl rfl rfl) ?_
            intro hm hs
            exfalso
            have h1 := hQ m (by rw [hq]; exact List.mem_cons_self ..) hm
            have h2 := hY m (by rw [hq]; exact List.mem_cons_self ..) hm
            rw [h1.1, hseq] at hs
            simp only [seqMod] at hs h2
            omega
          · simp [hrs, failWith, real]
            exact inv_push_idle hH none (by simp) rfl rfl rfl rfl


/-! ### attempts, the retry loop, whole calls -/


theorem InvFacts.transport {k : Kind} {tok : Nat} {W W1 W' : World} {s s1 s' : List Ev} {o : Outcome}
    (h : InvFacts k tok W1 s1 o W' s') (hl : W1.log = W.log) (hr : W1.reads = W.reads) (hs : ∃ pre, s = pre ++ s1) :
    InvFacts k tok W s o W' s' where
  logGrow := hl ▸ h.logGrow
  logNone := hl ▸ h.logNone
  logRet := hl ▸ h.logRet
  logOnewayFail := hl ▸ h.logOnewayFail
  released := h.released
  suffix := by
    obtain ⟨p1, h1⟩ := hs
    obtain ⟨p2, h2⟩ := h.suffix
    exact ⟨p1 ++ p2, by rw [h1, h2, List.append_assoc]⟩
  notStuck := h.notStuck
  reads := fun hk => (h.reads hk).trans hr
  onewayOut := h.onewayOut
  twowayOut := h.twowayOut

theorem invoke_facts (k : Kind) (tok : Nat) (W : World) (s : List Ev) :
    InvFacts k tok W s (invoke real k tok W s).1 (invoke real k tok W s).2.1 (invoke real k tok W s).2.2 := by
  unfold invoke
  cases hpc : W.pc with
  | live c => exact invokeOn_facts k tok W c s
  | fresh | idle =>
    simp only
    have hc := connect_facts W s
    generalize connect W s = res at hc
    obtain ⟨r, W1, s1⟩ := res
    cases r with
    | err o =>
      have := hc.err o rfl
      simp only at this ⊢
      refine ⟨Or.inl hc.log, fun h => absurd h this.2.2.1, fun k' t' h => absurd h (this.2.2.2 k' t'), fun _ _ _ => hc.log,
        fun _ _ => by rw [this.1, hpc]; rfl, hc.suffix, this.2.1, fun _ => hc.reads, fun _ k' t' => this.2.2.2 k' t', fun _ => this.2.2.1⟩
    | ok c =>
      simp only
      exact (invokeOn_facts k tok W1 c s1).transport hc.log hc.reads hc.suffix

theorem not_live_young {W : World} {s : List Ev} (h : W.pc.isLive = false) (hs : ScriptYoung s) : Young W s :=
  ⟨hs, fun c hc => by rw [hc] at h; cases h⟩

theorem invoke_inv (k : Kind) (tok : Nat) (W : World) (s : List Ev) (hI : Inv W) (hY : Young W s) :
    Inv (invoke real k tok W s).2.1 ∧
    ∀ k' t', (invoke real k tok W s).1 = .returned k' t' → k' = k ∧ t' = tok := by
  unfold invoke
  cases hpc : W.pc with
  | live c => exact invokeOn_inv k tok W c s hI (hI.2 c hpc) (hY.2 c hpc) hY.1
  | fresh | idle =>
    simp only
    have hc := connect_facts W s
    generalize connect W s = res at hc
    obtain ⟨r, W1, s1⟩ := res
    have hH1 : HistInv W1 := by
      refine ⟨by rw [hc.seq, hc.sends]; exact hI.1.1, ?_⟩
      intro a m h
      rw [hc.hist] at h
      rw [hc.sends]
      exact hI.1.2 a m h
    obtain ⟨pre, hpre⟩ := hc.suffix
    have hS1 : ScriptYoung s1 := scriptYoung_suffix (hpre ▸ hY.1)
    cases r with
    | err o =>
      have := hc.err o rfl
      simp only at this ⊢
      refine ⟨⟨hH1, ?_⟩, fun k' t' h => absurd h (this.2.2.2 k' t')⟩
      intro c' hc'
      rw [this.1, hpc] at hc'
      cases hc'
    | ok c =>
      simp only
      have := hc.ok c rfl
      have hQ : QOKl W1.sends c.queue := qokl_hs this.2.2
      have hI1 : Inv W1 := ⟨hH1, fun c' hc' => by rw [this.1] at hc'; cases hc'; exact hQ⟩
      refine invokeOn_inv k tok W1 c s1 hI1 hQ ?_ hS1
      intro m hm hh
      rw [this.2.2 m hm] at hh
      cases hh

theorem logAfter_exec {k : Kind} (tok : Nat) (log : List Nat) (h : k.executes = true) : logAfter k tok log = tok :: log := by
  simp [logAfter, h]

theorem logAfter_noexec {k : Kind} (tok : Nat) (log : List Nat) (h : k.executes = false) : logAfter k tok log = log := by
  simp [logAfter, h]

/-- one attempt, counted: the log grows by m ≤ 1 copies of the token -/
theorem InvFacts.count {k : Kind} {tok : Nat} {W W' : World} {s s' : List Ev} {o : Outcome}
    (h : InvFacts k tok W s o W' s') :
    ∃ m, m ≤ 1 ∧ W'.log = List.replicate m tok ++ W.log ∧
      (k.executes = true → o = .none_ → m = 1) ∧ (k.executes = true → ∀ k' t', o = .returned k' t' → m = 1) ∧
      (k.isOneway = true → ∀ e, o = .failed e → m = 0) ∧ (k.executes = false → m = 0) := by
  by_cases he : k.executes = true
  · rcases h.logGrow with hl | hl
    · refine ⟨0, Nat.zero_le _, by simpa using hl, ?_, ?_, fun _ _ _ => rfl, fun h' => by simp [he] at h'⟩
      · intro _ ho; have := h.logNone ho; rw [hl, logAfter_exec _ _ he] at this; exact absurd this (by simp)
      · intro _ k' t' ho; have := h.logRet k' t' ho; rw [hl, logAfter_exec _ _ he] at this; exact absurd this (by simp)
    · rw [logAfter_exec _ _ he] at hl
      refine ⟨1, Nat.le_refl _, by simpa using hl, fun _ _ => rfl, fun _ _ _ _ => rfl, ?_, fun h' => by simp [he] at h'⟩
      intro hk e ho; have := h.logOnewayFail hk e ho; rw [hl] at this; exact absurd this (by simp)
  · have he' : k.executes = false := by simpa using he
    have hl : W'.log = W.log := by
      rcases h.logGrow with hl | hl
      · exact hl
      · rw [hl, logAfter_noexec _ _ he']
    exact ⟨0, Nat.zero_le _, by simpa using hl, fun h' => absurd h' he, fun h' => absurd h' he, fun _ _ _ => rfl, fun _ => rfl⟩

/-- facts about a whole call (`bound` = number of attempts allowed) -/
structure CallFacts (bound : Nat) (k : Kind) (tok : Nat) (W : World) (s : List Ev) (o : Outcome) (W' : World) (s' : List Ev) : Prop where
  log : ∃ m, m ≤ bound ∧ W'.log = List.replicate m tok ++ W.log ∧
        (k.executes = true → o = .none_ → 1 ≤ m) ∧ (k.executes = true → ∀ k' t', o = .returned k' t' → 1 ≤ m) ∧
        (k.isOneway = true → m ≤ 1 ∧ ∀ e, o = .failed e → m = 0) ∧ (k.executes = false → m = 0)
  released : ∀ e, o = .failed e → W'.pc.isLive = false
  suffix : ∃ pre, s = pre ++ s'
  notStuck : o ≠ .stuck
  reads : k.isOneway = true → W'.reads = W.reads
  onewayOut : k.isOneway = true → ∀ k' t', o ≠ .returned k' t'
  twowayOut : k.isOneway = false → o ≠ .none_

theorem InvFacts.toCall {k : Kind} {tok : Nat} {W W' : World} {s s' : List Ev} {o : Outcome}
    (h : InvFacts k tok W s o W' s') (b : Nat) : CallFacts (b + 1) k tok W s o W' s' where
  log := by
    obtain ⟨m, hm, hlog, h1, h2, h3, h4⟩ := h.count
    exact ⟨m, by omega, hlog, fun he ho => by have := h1 he ho; omega, fun he k' t' ho => by have := h2 he k' t' ho; omega,
      fun hk => ⟨hm, h3 hk⟩, h4⟩
  released := h.released
  suffix := h.suffix
  notStuck := h.notStuck
  reads := h.reads
  onewayOut := h.onewayOut
  twowayOut := h.twowayOut

theorem retryLoop_facts (k : Kind) (tok : Nat) (n : Nat) : ∀ (W : World) (s : List Ev),
    CallFacts (n + 1) k tok W s (retryLoop real k tok n W s).1 (retryLoop real k tok n W s).2.1 (retryLoop real k tok n W s).2.2 := by
  induction n with
  | zero => intro W s; exact (invoke_facts k tok W s).toCall 0
  | succ n ih =>
    intro W s
    unfold retryLoop
    have h1 := invoke_facts k tok W s
    generalize invoke real k tok W s = res at h1
    obtain ⟨o, W1, s1⟩ := res
    simp only at h1
    cases o with
    | failed e =>
      simp only
      by_cases hr : e.retryable = true
      · simp only [hr, if_true]
        have h2 := ih W1 s1
        generalize retryLoop real k tok n W1 s1 = res2 at h2
        obtain ⟨o2, W2, s2⟩ := res2
        simp only at h2 ⊢
        obtain ⟨m, hm, hlog, hnone, hret, how, hne⟩ := h2.log
        obtain ⟨m1, hm1, hlog1, _, _, hf1, hne1⟩ := h1.count
        refine ⟨?_, h2.released, ?_, h2.notStuck, fun hk => (h2.reads hk).trans (h1.reads hk), h2.onewayOut, h2.twowayOut⟩
        · refine ⟨m + m1, by omega, by rw [hlog, hlog1, ← List.append_assoc, List.replicate_append_replicate],
            fun he ho => by have := hnone he ho; omega, fun he k' t' ho => by have := hret he k' t' ho; omega, ?_,
            fun he => by have := hne he; have := hne1 he; omega⟩
          intro hk
          have z := hf1 hk e rfl
          have := how hk
          exact ⟨by omega, fun e' he' => by have := this.2 e' he'; omega⟩
        · obtain ⟨p1, e1⟩ := h1.suffix
          obtain ⟨p2, e2⟩ := h2.suffix
          exact ⟨p1 ++ p2, by rw [e1, e2, List.append_assoc]⟩
      · simp only [hr]
        have := h1.toCall (n + 1)
        simpa using this
    | returned k' t' => simpa using h1.toCall (n + 1)
    | none_ => simpa using h1.toCall (n + 1)
    | stuck => simpa using h1.toCall (n + 1)
    | scriptEnd => simpa using h1.toCall (n + 1)

theorem retryLoop_inv (k : Kind) (tok : Nat) (n : Nat) : ∀ (W : World) (s : List Ev), Inv W → Young W s →
    Inv (retryLoop real k tok n W s).2.1 ∧
    ∀ k' t', (retryLoop real k tok n W s).1 = .returned k' t' → k' = k ∧ t' = tok := by
  induction n with
  | zero => intro W s hI hY; exact invoke_inv k tok W s hI hY
  | succ n ih =>
    intro W s hI hY
    unfold retryLoop
    have h1 := invoke_inv k tok W s hI hY
    have f1 := invoke_facts k tok W s
    generalize invoke real k tok W s = res at h1 f1
    obtain ⟨o, W1, s1⟩ := res
    simp only at h1 f1
    cases o with
    | failed e =>
      simp only
      by_cases hr : e.retryable = true
      · simp only [hr, if_true]
        obtain ⟨pre, hpre⟩ := f1.suffix
        exact ih W1 s1 h1.1 (not_live_young (f1.released e rfl) (scriptYoung_suffix (hpre ▸ hY.1)))
      · simp only [hr]
        simpa using h1
    | returned k' t' => simpa using h1
    | none_ => simpa using h1
    | stuck => simpa using h1
    | scriptEnd => simpa using h1

/-- number of attempts a call of this kind may make -/
def attempts (retries : Nat) (k : Kind) : Nat := if k.retried then retries + 1 else 1

theorem body_facts (retries : Nat) (k : Kind) (tok : Nat) (W : World) (s : List Ev) :
    CallFacts (attempts retries k) k tok W s (body real retries k tok W s).1 (body real retries k tok W s).2.1
      (body real retries k tok W s).2.2 := by
  unfold body attempts
  by_cases hk : k.retried = true
  · simp only [hk, if_true]; exact retryLoop_facts k tok retries W s
  · simp only [hk]; exact (invoke_facts k tok W s).toCall 0

theorem body_inv (retries : Nat) (k : Kind) (tok : Nat) (W : World) (s : List Ev) (hI : Inv W) (hY : Young W s) :
    Inv (body real retries k tok W s).2.1 ∧
    ∀ k' t', (body real retries k tok W s).1 = .returned k' t' → k' = k ∧ t' = tok := by
  unfold body
  by_cases hk : k.retried = true
  · simp only [hk, if_true]; exact retryLoop_inv k tok retries W s hI hY
  · simp only [hk]; exact invoke_inv k tok W s hI hY

theorem CallFacts.refused {b : Nat} {k : Kind} {tok : Nat} {W : World} {s : List Ev} (e : Err) (h : W.pc.isLive = false) :
    CallFacts b k tok W s (.failed e) W s where
  log := ⟨0, Nat.zero_le _, rfl, (fun _ h => nomatch h), (fun _ _ _ h => nomatch h), (fun _ => ⟨Nat.zero_le _, fun _ _ => rfl⟩), fun _ => rfl⟩
  released := fun _ _ => h
  suffix := ⟨[], rfl⟩
  notStuck := by simp
  reads := fun _ => rfl
  onewayOut := fun _ _ _ => by simp
  twowayOut := fun _ => by simp

theorem call_facts (retries : Nat) (k : Kind) (tok : Nat) (W : World) (s : List Ev) :
    CallFacts (attempts retries k) k tok W s (call real retries k tok W s).1 (call real retries k tok W s).2.1
      (call real retries k tok W s).2.2 := by
  unfold call
  cases hpc : W.pc with
  | live c => exact body_facts retries k tok W s
  | idle =>
    simp only
    by_cases hp : k.precheck = true
    · simp only [hp, if_true]; exact .refused _ (by rw [hpc]; rfl)
    · simp only [hp]; exact body_facts retries k tok W s
  | fresh =>
    simp only
    by_cases hp : k.precheck = true
    · simp only [hp, if_true]; exact .refused _ (by rw [hpc]; rfl)
    · rw [if_neg hp]
      by_cases hm : k.needsMeta = true
      · rw [if_pos hm]
        have hc := connect_facts W s
        generalize connect W s = res at hc
        obtain ⟨r, W1, s1⟩ := res
        cases r with
        | err o =>
          have := hc.err o rfl
          simp only at this ⊢
          refine ⟨⟨0, Nat.zero_le _, by simpa using hc.log, fun _ h => absurd h this.2.2.1, fun _ k' t' h => absurd h (this.2.2.2 k' t'),
            (fun _ => ⟨Nat.zero_le _, fun _ _ => rfl⟩), fun _ => rfl⟩, fun _ _ => by rw [this.1, hpc]; rfl, hc.suffix, this.2.1, fun _ => hc.reads,
            fun _ k' t' => this.2.2.2 k' t', fun _ => this.2.2.1⟩
        | ok c =>
          simp only
          have hb := body_facts retries k tok W1 s1
          obtain ⟨m, hm1, hlog, h3⟩ := hb.log
          refine ⟨⟨m, hm1, by rw [hlog, hc.log], h3⟩, hb.released, ?_, hb.notStuck, fun hk => (hb.reads hk).trans hc.reads,
            hb.onewayOut, hb.twowayOut⟩
          obtain ⟨p1, e1⟩ := hc.suffix
          obtain ⟨p2, e2⟩ := hb.suffix
          exact ⟨p1 ++ p2, by rw [List.append_assoc, ← e2]; exact e1⟩
      · rw [if_neg hm]; exact body_facts retries k tok W s

theorem call_inv (retries : Nat) (k : Kind) (tok : Nat) (W : World) (s : List Ev) (hI : Inv W) (hY : Young W s) :
    Inv (call real retries k tok W s).2.1 ∧
    ∀ k' t', (call real retries k tok W s).1 = .returned k' t' → k' = k ∧ t' = tok := by
  unfold call
  cases hpc : W.pc with
  | live c => exact body_inv retries k tok W s hI hY
  | idle =>
    simp only
    by_cases hp : k.precheck = true
    · simp only [hp, if_true]; exact ⟨hI, fun _ _ h => by cases h⟩
    · simp only [hp]; exact body_inv retries k tok W s hI hY
  | fresh =>
    simp only
    by_cases hp : k.precheck = true
    · simp only [hp, if_true]; exact ⟨hI, fun _ _ h => by cases h⟩
    · rw [if_neg hp]
      by_cases hm : k.needsMeta = true
      · rw [if_pos hm]
        have hc := connect_facts W s
        generalize connect W s = res at hc
        obtain ⟨r, W1, s1⟩ := res
        have hH1 : HistInv W1 := by
          refine ⟨by rw [hc.seq, hc.sends]; exact hI.1.1, ?_⟩
          intro a m h
          rw [hc.hist] at h
          rw [hc.sends]
          exact hI.1.2 a m h
        obtain ⟨pre, hpre⟩ := hc.suffix
        have hS1 : ScriptYoung s1 := scriptYoung_suffix (hpre ▸ hY.1)
        cases r with
        | err o =>
          have := hc.err o rfl
          simp only at this ⊢
          refine ⟨⟨hH1, ?_⟩, fun k' t' h => absurd h (this.2.2.2 k' t')⟩
          intro c' hc'
          rw [this.1, hpc] at hc'
          cases hc'
        | ok c =>
          simp only
          have := hc.ok c rfl
          have hQ : QOKl W1.sends c.queue := qokl_hs this.2.2
          have hI1 : Inv W1 := ⟨hH1, fun c' hc' => by rw [this.1] at hc'; cases hc'; exact hQ⟩
          refine body_inv retries k tok W1 s1 hI1 ⟨hS1, ?_⟩
          intro c' hc' m hm' hh
          rw [this.1] at hc'
          cases hc'
          rw [this.2.2 m hm'] at hh
          cases hh
      · rw [if_neg hm]; exact body_inv retries k tok W s hI hY


/-! ### healthy transport, sequence numbers -/

/-- the reply a healthy transport hands to a call -/
def ownOutcome (k : Kind) (tok : Nat) : Outcome := if k.isOneway then .none_ else .returned k tok

theorem call_healthy (retries : Nat) (k : Kind) (tok : Nat) (W : World) (s : List Ev)
    (hpc : W.pc.isLive = false) (hk : k.precheck = false) :
    (call real retries k tok W (.ok :: .ok :: s)).1 = ownOutcome k tok ∧
    (call real retries k tok W (.ok :: .ok :: s)).2.2 = s ∧
    (call real retries k tok W (.ok :: .ok :: s)).2.1.log = logAfter k tok W.log ∧
    (call real retries k tok W (.ok :: .ok :: s)).2.1.pc = .live ⟨[], false⟩ := by
  cases hp : W.pc with
  | live c => rw [hp] at hpc; cases hpc
  | fresh =>
    cases k <;> cases retries <;>
      simp [call, body, retryLoop, invoke, connect, invokeOn, deliver, hp, Kind.precheck, Kind.retried,
        Kind.isOneway, Ev.reachesServer, hsMsg, ownOutcome, real] at hk ⊢
  | idle =>
    cases k <;> cases retries <;>
      simp [call, body, retryLoop, invoke, connect, invokeOn, deliver, hp, Kind.precheck, Kind.retried,
        Kind.isOneway, Ev.reachesServer, hsMsg, ownOutcome, real] at hk ⊢


/-- the same on a live connection with nothing unread: one event is consumed -/
theorem call_healthy_live (retries : Nat) (k : Kind) (tok : Nat) (W : World) (s : List Ev)
    (hpc : W.pc = .live ⟨[], false⟩) :
    (call real retries k tok W (.ok :: s)).1 = ownOutcome k tok ∧
    (call real retries k tok W (.ok :: s)).2.2 = s ∧
    (call real retries k tok W (.ok :: s)).2.1.log = logAfter k tok W.log ∧
    (call real retries k tok W (.ok :: s)).2.1.pc = .live ⟨[], false⟩ := by
  cases k <;> cases retries <;>
    simp [call, body, retryLoop, invoke, invokeOn, deliver, hpc, Kind.retried, Kind.isOneway, Ev.reachesServer, ownOutcome, real]

theorem invokeOn_seq (k : Kind) (tok : Nat) (W : World) (c : Conn) (s : List Ev)
    (h : (invokeOn real k tok W c s).1 ≠ .scriptEnd) :
    (invokeOn real k tok W c s).2.1.seq = (W.seq + 1) % seqMod := by
  revert h
  unfold invokeOn
  by_cases hd : c.dead = true
  · simp [hd, failWith, real]
  · simp only [hd]
    cases s with
    | nil => simp
    | cons ev s' =>
      intro _
      by_cases hr : ev.reachesServer = true
      · by_cases hk : k.isOneway = true
        · simp [hr, hk]
        · simp [hr, hk, failWith, real]
          split
          · split
            · rfl
            · split <;> rfl
          · split <;> rfl
      · simp [hr, failWith, real]


/-- the call came back to its caller with a value (or, oneway, with None) -/
def Outcome.done : Outcome → Bool
  | .returned _ _ => true
  | .none_ => true
  | _ => false

theorem invoke_seq (k : Kind) (tok : Nat) (W : World) (s : List Ev)
    (h : (invoke real k tok W s).1.done = true) :
    (invoke real k tok W s).2.1.seq = (W.seq + 1) % seqMod := by
  revert h
  unfold invoke
  cases hpc : W.pc with
  | live c =>
    intro h
    exact invokeOn_seq k tok W c s (by intro h'; rw [h'] at h; cases h)
  | fresh | idle =>
    simp only
    have hc := connect_facts W s
    generalize connect W s = res at hc
    obtain ⟨r, W1, s1⟩ := res
    cases r with
    | err o =>
      have := hc.err o rfl
      simp only
      intro h
      cases o <;> simp [Outcome.done] at h this
    | ok c =>
      simp only
      intro h
      rw [invokeOn_seq k tok W1 c s1 (by intro h'; rw [h'] at h; cases h)]
      have := hc.seq
      simp only at this
      rw [this]

theorem body_seq_single (retries : Nat) (k : Kind) (tok : Nat) (W : World) (s : List Ev)
    (ha : attempts retries k = 1) (h : (body real retries k tok W s).1.done = true) :
    (body real retries k tok W s).2.1.seq = (W.seq + 1) % seqMod := by
  revert h
  unfold body
  unfold attempts at ha
  by_cases hk : k.retried = true
  · rw [if_pos hk] at ha ⊢
    have : retries = 0 := by omega
    subst this
    exact invoke_seq k tok W s
  · rw [if_neg hk]
    exact invoke_seq k tok W s

theorem call_seq_single (retries : Nat) (k : Kind) (tok : Nat) (W : World) (s : List Ev)
    (ha : attempts retries k = 1) (h : (call real retries k tok W s).1.done = true) :
    (call real retries k tok W s).2.1.seq = (W.seq + 1) % seqMod := by
  revert h
  unfold call
  cases hpc : W.pc with
  | live c => exact body_seq_single retries k tok W s ha
  | idle =>
    simp only
    by_cases hp : k.precheck = true
    · rw [if_pos hp]; intro h; cases h
    · rw [if_neg hp]; exact body_seq_single retries k tok W s ha
  | fresh =>
    simp only
    by_cases hp : k.precheck = true
    · rw [if_pos hp]; intro h; cases h
    · rw [if_neg hp]
      by_cases hm : k.needsMeta = true
      · rw [if_pos hm]
        have hc := connect_facts W s
        generalize connect W s = res at hc
        obtain ⟨r, W1, s1⟩ := res
        cases r with
        | err o =>
          have := hc.err o rfl
          simp only
          intro h
          cases o <;> simp [Outcome.done] at h this
        | ok c =>
          simp only
          intro h
          rw [body_seq_single retries k tok W1 s1 ha h]
          have := hc.seq
          simp only at this
          rw [this]
      · rw [if_neg hm]; exact body_seq_single retries k tok W s ha


/-! ### the 2^16 alias: a reply left unread while 65535 oneway calls go by -/

/-- one delivered oneway call on a live, healthy connection -/
def onewayStep (W : World) : World := (call real 0 .oneway 0 W [.ok]).2.1

def onewayN : Nat → World → World
  | 0, W => W
  | n + 1, W => onewayN n (onewayStep W)

theorem onewayStep_live (W : World) (q : List Msg) (h : W.pc = .live ⟨q, false⟩) :
    (onewayStep W).pc = .live ⟨q, false⟩ ∧ (onewayStep W).seq = (W.seq + 1) % seqMod := by
  simp [onewayStep, call, body, retryLoop, invoke, invokeOn, deliver, h, Kind.retried, Kind.isOneway, Ev.reachesServer]

theorem onewayN_live (n : Nat) : ∀ (W : World) (q : List Msg), W.pc = .live ⟨q, false⟩ → W.seq < seqMod →
    (onewayN n W).pc = .live ⟨q, false⟩ ∧ (onewayN n W).seq = (W.seq + n) % seqMod := by
  induction n with
  | zero => intro W q h hs; exact ⟨h, by simp [onewayN, Nat.mod_eq_of_lt hs]⟩
  | succ n ih =>
    intro W q h hs
    have h1 := onewayStep_live W q h
    have h2 := ih (onewayStep W) q h1.1 (by rw [h1.2]; exact Nat.mod_lt _ (by decide))
    refine ⟨h2.1, ?_⟩
    show (onewayN n (onewayStep W)).seq = _
    rw [h2.2, h1.2]; simp only [seqMod]; omega

/-- a reply at the head of the unread queue whose sequence number equals the next one is accepted, whoever it was for -/
theorem alias_accepted (tok : Nat) (W : World) (m : Msg) (rest : List Msg)
    (h : W.pc = .live ⟨m :: rest, false⟩) (hm : m.hs = false) (hs : m.seq = (W.seq + 1) % seqMod) :
    (call real 0 .normal tok W [.ok]).1 = .returned m.kind m.tok := by
  simp [call, body, retryLoop, invoke, invokeOn, deliver, h, Kind.retried, Kind.isOneway, Ev.reachesServer, real, hm, hs]


/-- the history of finding K2: call 1's reply is delivered twice … -/
def dupWorld : World := (call real 0 .normal 1 (init 0) [.ok, .dup]).2.1

theorem dupWorld_facts : dupWorld.pc = .live ⟨[⟨false, 1, .normal, 1, 1⟩], false⟩ ∧ dupWorld.seq = 1 := by decide

/-- … and `n` delivered oneway calls follow; when `1 + n` is a multiple of 2^16 the next call accepts the duplicate -/
theorem alias_after (n : Nat) (hn : (1 + n) % seqMod = 0) :
    (call real 0 .normal 7 (onewayN n dupWorld) [.ok]).1 = .returned .normal 1 := by
  have hl := onewayN_live n dupWorld _ dupWorld_facts.1 (by rw [dupWorld_facts.2]; decide)
  refine alias_accepted 7 (onewayN n dupWorld) ⟨false, 1, .normal, 1, 1⟩ [] hl.1 rfl ?_
  show 1 = ((onewayN n dupWorld).seq + 1) % seqMod
  rw [hl.2, dupWorld_facts.2]
  simp only [seqMod] at hn ⊢
  omega

/-! ### execution counts -/

theorem execs_replicate (tok m : Nat) (W W' : World) (h : W'.log = List.replicate m tok ++ W.log) :
    execs tok W' = execs tok W + m := by
  unfold execs; rw [h, List.count_append, List.count_replicate_self]; omega

theorem execs_other (tok t m : Nat) (W W' : World) (h : W'.log = List.replicate m tok ++ W.log) (ht : t ≠ tok) :
    execs t W' = execs t W := by
  unfold execs; rw [h, List.count_append, List.count_replicate]
  simp [Ne.symm ht]


end Pyro.Call
