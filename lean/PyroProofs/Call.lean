/-
  Helper lemmas about `PyroModel.Call` (property C03).
-/
import PyroModel.Call

namespace Pyro.Call

/-! ### invariants -/

/-- A RESULT message produced by the server and not altered: its wire sequence number is the number of
    the INVOKE send that produced it, modulo 2^16. -/
def MsgOK (sends : Nat) (m : Msg) : Prop :=
  m.hs = false → m.seq = m.born % seqMod ∧ m.born ≤ sends

def HistInv (W : World) : Prop :=
  W.seq = W.sends % seqMod ∧
  ∀ a m, W.hist[a]? = some (some m) → m.hs = false ∧ m.seq = m.born % seqMod ∧ m.born + a = W.sends

def QOK (sends : Nat) (c : Conn) : Prop := ∀ m ∈ c.queue, MsgOK sends m

/-- every unread RESULT message is less than 2^16 INVOKE sends old when the next reply is read -/
def QYoung (sends : Nat) (c : Conn) : Prop :=
  ∀ m ∈ c.queue, m.hs = false → sends + 1 < m.born + seqMod

def Inv (W : World) : Prop := HistInv W ∧ ∀ c, W.pc = .live c → QOK W.sends c

/-- every replayed reply is less than 2^16 INVOKE sends old -/
def ScriptYoung (s : List Ev) : Prop := ∀ a, Ev.stale a ∈ s → a + 1 < seqMod

def Young (W : World) (s : List Ev) : Prop :=
  ScriptYoung s ∧ ∀ c, W.pc = .live c → QYoung W.sends c

def PConn.isLive : PConn → Bool
  | .live _ => true
  | _ => false

theorem inv_init (seq0 : Nat) : Inv (init seq0) := by
  refine ⟨⟨rfl, ?_⟩, ?_⟩
  · intro a m h; simp [init] at h
  · intro c h; simp [init] at h

theorem scriptYoung_tail {ev : Ev} {s : List Ev} (h : ScriptYoung (ev :: s)) : ScriptYoung s :=
  fun a ha => h a (List.mem_cons_of_mem _ ha)

theorem scriptYoung_suffix {pre s : List Ev} (h : ScriptYoung (pre ++ s)) : ScriptYoung s :=
  fun a ha => h a (List.mem_append_right _ ha)

end Pyro.Call
