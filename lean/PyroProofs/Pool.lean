/-
  Helper lemmas for PyroModel.Pool: closed forms of the three pool methods executed atomically,
  and the inductive invariant of the coarse semantics.
-/
import PyroModel.Pool

set_option linter.unusedSimpArgs false
set_option linter.unusedVariables false

namespace Pyro.Pool

open Pyro.Lock

/-! ### list / worker-table helpers -/

theorem getElem?_updW (ws : List Worker) (w i : Wid) (f : Worker → Worker) :
    (updW ws w f)[i]? = (ws[i]?).map (fun x => if i = w then f x else x) := by
  simp [updW, List.getElem?_mapIdx]

theorem length_updW (ws : List Worker) (w : Wid) (f : Worker → Worker) : (updW ws w f).length = ws.length := by
  simp [updW]

theorem mem_addSet (l : List Wid) (w v : Wid) : v ∈ addSet l w ↔ v ∈ l ∨ v = w := by
  unfold addSet
  by_cases h : w ∈ l
  · rw [if_pos h]; constructor
    · intro hv; exact Or.inl hv
    · rintro (hv | rfl)
      · exact hv
      · exact h
  · rw [if_neg h]; simp

theorem nodup_addSet (l : List Wid) (w : Wid) (h : l.Nodup) : (addSet l w).Nodup := by
  unfold addSet
  by_cases hw : w ∈ l
  · rw [if_pos hw]; exact h
  · rw [if_neg hw]
    rw [List.nodup_append]
    refine ⟨h, by simp, ?_⟩
    intro a ha b hb
    simp only [List.mem_singleton] at hb
    subst hb
    intro heq; subst heq; exact hw ha

theorem length_addSet_of_not_mem (l : List Wid) (w : Wid) (h : w ∉ l) : (addSet l w).length = l.length + 1 := by
  simp [addSet, h]

theorem mem_erase_nodup (l : List Wid) (w v : Wid) (h : l.Nodup) : v ∈ l.erase w ↔ v ∈ l ∧ v ≠ w := by
  rw [List.Nodup.mem_erase_iff h]; exact And.comm


/-! ### closed forms of the pool methods run atomically -/

theorem call_process_closed (mn mx pick : Nat) (s : St) (h : s.closed = true) :
    call mn mx (.process pick) s =
      ({ s with nextJob := s.nextJob + 1, refusedClosed := s.refusedClosed ++ [s.nextJob] }, .poolClosed) := by
  simp [call, toOp, Op.run, runSteps, body, procBody, guard, h]

theorem call_process_idle (mn mx pick : Nat) (s : St) (w : Wid) (h : s.closed = false)
    (hw : s.idle[pick % s.idle.length]? = some w) :
    call mn mx (.process pick) s =
      ({ ({ s with nextJob := s.nextJob + 1, idle := s.idle.erase w, busy := addSet s.busy w } : St).signal w (some s.nextJob)
          with accepted := s.accepted ++ [(s.nextJob, w)] }, .ok) := by
  have hne : s.idle.isEmpty = false := by
    cases hi : s.idle with
    | nil => rw [hi] at hw; simp at hw
    | cons a l => rfl
  simp [call, toOp, Op.run, runSteps, body, procBody, guard, h, hne, hw]

theorem call_process_new (mn mx pick : Nat) (s : St) (h : s.closed = false) (hi : s.idle = [])
    (hlt : s.busy.length < mx) :
    call mn mx (.process pick) s =
      ({ ({ s with nextJob := s.nextJob + 1, ws := s.ws ++ [{}], busy := addSet s.busy s.ws.length } : St).signal
            s.ws.length (some s.nextJob)
          with accepted := s.accepted ++ [(s.nextJob, s.ws.length)] }, .ok) := by
  simp [call, toOp, Op.run, runSteps, body, procBody, guard, h, hi, hlt]

theorem call_process_full (mn mx pick : Nat) (s : St) (h : s.closed = false) (hi : s.idle = [])
    (hge : ¬ s.busy.length < mx) :
    call mn mx (.process pick) s =
      ({ s with nextJob := s.nextJob + 1, refusedFull := s.refusedFull ++ [s.nextJob] }, .noFreeWorkers) := by
  simp [call, toOp, Op.run, runSteps, body, procBody, guard, h, hi, hge]

theorem call_notify_closed (mn mx : Nat) (s : St) (w : Wid) (h : s.closed = true) (hb : w ∉ s.busy) :
    call mn mx (.notifyDone w) s = (s.signal w none, .ok) := by
  simp [call, toOp, Op.run, runSteps, body, notifyBody, guard, h, hb]

theorem call_notify_retire (mn mx : Nat) (s : St) (w : Wid) (h : s.closed = false) (hb : w ∈ s.busy)
    (hge : s.idle.length ≥ mn) :
    call mn mx (.notifyDone w) s = (({ s with busy := s.busy.erase w } : St).signal w none, .ok) := by
  simp [call, toOp, Op.run, runSteps, body, notifyBody, guard, h, hb, hge]

theorem call_notify_idle (mn mx : Nat) (s : St) (w : Wid) (h : s.closed = false) (hb : w ∈ s.busy)
    (hlt : ¬ s.idle.length ≥ mn) :
    call mn mx (.notifyDone w) s = ({ s with busy := s.busy.erase w, idle := addSet s.idle w }, .ok) := by
  simp [call, toOp, Op.run, runSteps, body, notifyBody, guard, h, hb, hlt]

theorem call_close_closed (mn mx : Nat) (s : St) (h : s.closed = true) :
    call mn mx .close s = (s, .ok) := by
  simp [call, toOp, Op.run, runSteps, body, closeBody, guard, h]

theorem call_close_open (mn mx : Nat) (s : St) (h : s.closed = false) :
    call mn mx .close s = (({ s with closed := true, idle := [], busy := [] } : St).signalAll s.idle, .ok) := by
  simp [call, toOp, Op.run, runSteps, body, closeBody, guard, h, St.signalAll]


/-! ### the invariant -/

/-- worker `w` is in neither set -/
def Out (idle busy : List Wid) (w : Wid) : Prop := w ∉ idle ∧ w ∉ busy

/-- worker `w` holds job `j`: the job was accepted for it, it is not idle and (open pool) it is in `busy` -/
def Own (idle busy : List Wid) (closed : Bool) (acc : List (Jid × Wid)) (w : Wid) (j : Jid) : Prop :=
  (j, w) ∈ acc ∧ w ∉ idle ∧ (closed = false → w ∈ busy)

/-- what must hold of worker `w`'s record at each point of its loop -/
def WInv (idle busy : List Wid) (closed : Bool) (acc st : List (Jid × Wid)) (w : Wid) (x : Worker) : Prop :=
  match x.phase with
  | .waiting =>
    (x.ev = false ∧ x.slot = none ∧ w ∈ idle ∧ closed = false) ∨                         -- idle, waiting for a job
    (x.ev = true ∧ x.slot = none ∧ Out idle busy w) ∨                                     -- told to exit
    (x.ev = true ∧ ∃ j, x.slot = some j ∧ Own idle busy closed acc w j ∧ (j, w) ∉ st)     -- handed a job
  | .woken =>
    x.ev = true ∧ ((x.slot = none ∧ Out idle busy w) ∨
      ∃ j, x.slot = some j ∧ Own idle busy closed acc w j ∧ (j, w) ∉ st)
  | .cleared =>
    x.ev = false ∧ ((x.slot = none ∧ Out idle busy w) ∨
      ∃ j, x.slot = some j ∧ Own idle busy closed acc w j ∧ (j, w) ∉ st)
  | .checked => x.ev = false ∧ ∃ j, x.slot = some j ∧ Own idle busy closed acc w j ∧ (j, w) ∉ st
  | .running j => x.ev = false ∧ x.slot = some j ∧ Own idle busy closed acc w j ∧ (j, w) ∈ st
  | .finished => x.ev = false ∧ ∃ j, x.slot = some j ∧ Own idle busy closed acc w j ∧ (j, w) ∈ st
  | .notifying => x.ev = false ∧ x.slot = none ∧ w ∉ idle ∧ (closed = false → w ∈ busy)
  | .exited => x.slot = none ∧ Out idle busy w

/-- numbers of all jobs submitted so far, by outcome of `process` -/
def ids (s : St) : List Jid := s.accepted.map (·.1) ++ s.refusedFull ++ s.refusedClosed

def preStart (p : Phase) : Prop := p = .waiting ∨ p = .woken ∨ p = .cleared ∨ p = .checked

structure Inv (mx : Nat) (s : St) : Prop where
  idle_nodup : s.idle.Nodup
  busy_nodup : s.busy.Nodup
  disj : ∀ w, w ∈ s.idle → w ∉ s.busy
  bound : s.idle.length + s.busy.length ≤ mx
  closed_empty : s.closed = true → s.idle = [] ∧ s.busy = []
  idle_lt : ∀ w, w ∈ s.idle → w < s.ws.length
  busy_lt : ∀ w, w ∈ s.busy → w < s.ws.length
  wk : ∀ w x, s.ws[w]? = some x → WInv s.idle s.busy s.closed s.accepted s.started w x
  ids_lt : ∀ j, j ∈ ids s → j < s.nextJob
  ids_all : ∀ j, j < s.nextJob → j ∈ ids s
  acc_nodup : (s.accepted.map (·.1)).Nodup
  rf_nodup : s.refusedFull.Nodup
  rc_nodup : s.refusedClosed.Nodup
  excl : ∀ j, (j ∈ s.accepted.map (·.1) → j ∉ s.refusedFull ∧ j ∉ s.refusedClosed) ∧
      (j ∈ s.refusedFull → j ∉ s.refusedClosed)
  started_acc : ∀ p, p ∈ s.started → p ∈ s.accepted
  started_nodup : s.started.Nodup
  pending : ∀ p, p ∈ s.accepted → p ∈ s.started ∨
      ∃ x, s.ws[p.2]? = some x ∧ x.slot = some p.1 ∧ preStart x.phase
  ended_started : ∀ j, j ∈ s.ended → ∃ w, (j, w) ∈ s.started

theorem WInv_congr {idle busy idle' busy' : List Wid} {closed : Bool} {acc st acc' st' : List (Jid × Wid)}
    {w : Wid} {x : Worker}
    (hi : w ∈ idle' ↔ w ∈ idle) (hb : w ∈ busy' ↔ w ∈ busy)
    (ha : ∀ j, (j, w) ∈ acc → (j, w) ∈ acc') (hs : ∀ j, (j, w) ∈ st' ↔ (j, w) ∈ st)
    (h : WInv idle busy closed acc st w x) : WInv idle' busy' closed acc' st' w x := by
  unfold WInv Own Out at *
  cases hp : x.phase <;> simp only [hp] at h ⊢ <;> grind

/-- closing: workers outside `idle` keep their obligations with both sets emptied -/
theorem WInv_close {idle busy : List Wid} {acc st : List (Jid × Wid)} {w : Wid} {x : Worker}
    (hn : w ∉ idle) (h : WInv idle busy false acc st w x) : WInv [] [] true acc st w x := by
  unfold WInv Own Out at *
  cases hp : x.phase <;> simp only [hp] at h ⊢ <;> grind


theorem inv_init (mn mx : Nat) (h : mn ≤ mx) : Inv mx (init mn) := by
  refine ⟨List.nodup_range, List.nodup_nil, by simp [init], by simp [init]; exact h, by simp [init],
    by simp [init], by simp [init], ?_, by simp [ids, init], by simp [init], by simp [init], by simp [init],
    by simp [init], by simp [init], by simp [init], by simp [init], by simp [init], by simp [init]⟩
  intro w x hx
  simp only [init] at hx ⊢
  rw [List.getElem?_replicate] at hx
  by_cases hw : w < mn
  · rw [if_pos hw] at hx
    simp only [Option.some.injEq] at hx
    subst hx
    simp [WInv, hw]
  · rw [if_neg hw] at hx; cases hx

theorem inv_finish (mx : Nat) (s : St) (j : Jid) (h : Inv mx s) : Inv mx { s with fin := s.fin ++ [j] } :=
  ⟨h.idle_nodup, h.busy_nodup, h.disj, h.bound, h.closed_empty, h.idle_lt, h.busy_lt, h.wk, h.ids_lt, h.ids_all,
    h.acc_nodup, h.rf_nodup, h.rc_nodup, h.excl, h.started_acc, h.started_nodup, h.pending, h.ended_started⟩

theorem getElem?_signalAll (s : St) (l : List Wid) (i : Wid) :
    (s.signalAll l).ws[i]? = (s.ws[i]?).map (fun x => if i ∈ l then { x with slot := none, ev := true } else x) := by
  simp [St.signalAll, List.getElem?_mapIdx]

theorem inv_close (mn mx : Nat) (s : St) (h : Inv mx s) : Inv mx (call mn mx .close s).1 := by
  cases hc : s.closed with
  | true => rw [call_close_closed mn mx s hc]; exact h
  | false =>
    rw [call_close_open mn mx s hc]
    refine ⟨List.nodup_nil, List.nodup_nil, by simp [St.signalAll], by simp [St.signalAll],
      by simp [St.signalAll], by simp [St.signalAll], by simp [St.signalAll], ?_, h.ids_lt, h.ids_all, h.acc_nodup,
      h.rf_nodup, h.rc_nodup, h.excl, h.started_acc, h.started_nodup, ?_, h.ended_started⟩
    · intro w x hx
      rw [getElem?_signalAll] at hx
      simp only [St.signalAll]
      cases hy : s.ws[w]? with
      | none => rw [hy] at hx; cases hx
      | some y =>
        rw [hy] at hx
        simp only [Option.map_some, Option.some.injEq] at hx
        have hw := h.wk w y hy
        rw [hc] at hw
        by_cases hi : w ∈ s.idle
        · rw [if_pos hi] at hx
          subst hx
          have hnb := h.disj w hi
          unfold WInv Own Out at *
          cases hp : y.phase <;> simp only [hp] at hw ⊢ <;> grind
        · rw [if_neg hi] at hx
          subst hx
          exact WInv_close hi hw
    · intro p hp
      rcases h.pending p hp with hs | ⟨y, hy, hslot, hph⟩
      · exact Or.inl hs
      · right
        simp only [St.signalAll]
        have hw := h.wk p.2 y hy
        have hni : p.2 ∉ s.idle := by
          intro hi
          unfold WInv Own Out preStart at *
          cases hp' : y.phase <;> simp only [hp'] at hw hph <;> grind
        refine ⟨y, ?_, hslot, hph⟩
        have := getElem?_signalAll ({ s with closed := true, idle := [], busy := [] } : St) s.idle p.2
        simp only [St.signalAll] at this
        rw [this, hy]
        simp [hni]


theorem WInv_of_mem_idle {idle busy : List Wid} {closed : Bool} {acc st : List (Jid × Wid)} {w : Wid} {x : Worker}
    (hi : w ∈ idle) (h : WInv idle busy closed acc st w x) :
    x.phase = .waiting ∧ x.ev = false ∧ x.slot = none ∧ closed = false := by
  unfold WInv Own Out at h
  cases hp : x.phase <;> simp only [hp] at h <;> grind

theorem mem_ids (s : St) (j : Jid) :
    j ∈ ids s ↔ (∃ w, (j, w) ∈ s.accepted) ∨ j ∈ s.refusedFull ∨ j ∈ s.refusedClosed := by
  simp [ids, or_assoc]

theorem fresh_not_acc (mx : Nat) (s : St) (h : Inv mx s) (w : Wid) : (s.nextJob, w) ∉ s.accepted := by
  intro hm
  exact Nat.lt_irrefl _ (h.ids_lt s.nextJob ((mem_ids s _).mpr (Or.inl ⟨w, hm⟩)))

theorem inv_submit (mn mx pick : Nat) (s : St) (h : Inv mx s) : Inv mx (call mn mx (.process pick) s).1 := by
  have hfresh : ∀ j, j ∈ ids s → j ≠ s.nextJob := fun j hj => Nat.ne_of_lt (h.ids_lt j hj)
  have hidl := h.ids_lt
  have hida := h.ids_all
  have hexcl := h.excl
  have hfa : s.nextJob ∉ s.accepted.map (·.1) := by
    intro hm; simp only [List.mem_map] at hm
    obtain ⟨p, hp, he⟩ := hm
    exact fresh_not_acc mx s h p.2 (by rw [← he]; exact hp)
  have hfrf : s.nextJob ∉ s.refusedFull := fun hm => hfresh _ ((mem_ids s _).mpr (Or.inr (Or.inl hm))) rfl
  have hfrc : s.nextJob ∉ s.refusedClosed := fun hm => hfresh _ ((mem_ids s _).mpr (Or.inr (Or.inr hm))) rfl
  cases hc : s.closed with
  | true =>
    rw [call_process_closed mn mx pick s hc]
    refine ⟨h.idle_nodup, h.busy_nodup, h.disj, h.bound, h.closed_empty, h.idle_lt, h.busy_lt, h.wk, ?_, ?_,
      h.acc_nodup, h.rf_nodup, ?_, ?_, h.started_acc, h.started_nodup, h.pending, h.ended_started⟩
    · intro j hj
      simp only [ids, List.mem_append, List.mem_singleton] at hj
      have := hidl j
      simp only [ids, List.mem_append] at this
      grind
    · intro j hj
      simp only [ids, List.mem_append, List.mem_singleton]
      have := hida j
      simp only [ids, List.mem_append] at this
      by_cases he : j = s.nextJob
      · right; right; exact he
      · have hj' : j < s.nextJob + 1 := hj
        have := this (by omega); grind
    · simp only; rw [List.nodup_append]
      refine ⟨h.rc_nodup, by simp, ?_⟩
      intro a ha b hb; simp only [List.mem_singleton] at hb; subst hb
      intro he; subst he; exact hfrc ha
    · intro j; have := hexcl j; simp only [List.mem_append, List.mem_singleton]; grind
  | false =>
    cases hi : s.idle with
    | nil =>
      by_cases hlt : s.busy.length < mx
      · -- a new worker is created
        rw [call_process_new mn mx pick s hc hi hlt]
        have hnb : s.ws.length ∉ s.busy := fun hm => Nat.lt_irrefl _ (h.busy_lt _ hm)
        refine ⟨by simp [St.signal, St.setW, hi], by simpa [St.signal, St.setW] using nodup_addSet _ _ h.busy_nodup,
          by simp [St.signal, St.setW, hi], ?_, by simp [St.signal, St.setW, hc], by simp [St.signal, St.setW, hi], ?_, ?_,
          ?_, ?_, ?_, h.rf_nodup, h.rc_nodup, ?_, ?_, h.started_nodup, ?_, h.ended_started⟩
        · simp only [St.signal, St.setW, hi, List.length_nil, Nat.zero_add]
          rw [length_addSet_of_not_mem _ _ hnb]; omega
        · intro v hv
          simp only [St.signal, St.setW] at hv ⊢
          rw [length_updW, List.length_append, List.length_singleton]
          rcases (mem_addSet _ _ _).mp hv with hv | hv
          · exact Nat.lt_succ_of_lt (h.busy_lt v hv)
          · subst hv; exact Nat.lt_succ_self _
        · intro v x' hx'
          simp only [St.signal, St.setW] at hx' ⊢
          rw [getElem?_updW] at hx'
          by_cases hv : v = s.ws.length
          · subst hv
            simp only [List.getElem?_append_right (Nat.le_refl _), Nat.sub_self, List.getElem?_cons_zero,
              Option.map_some, if_true, Option.some.injEq] at hx'
            subst hx'
            have hns : (s.nextJob, s.ws.length) ∉ s.started := fun hm => fresh_not_acc mx s h _ (h.started_acc _ hm)
            simp [WInv, Own, mem_addSet, hns, hi]
          · cases hy : (s.ws ++ [({} : Worker)])[v]? with
            | none => rw [hy] at hx'; cases hx'
            | some y =>
              rw [hy] at hx'
              simp only [Option.map_some, if_neg hv, Option.some.injEq] at hx'
              subst hx'
              have hvl : v < s.ws.length := by
                have := (List.getElem?_eq_some_iff.mp hy).1
                simp only [List.length_append, List.length_singleton] at this
                exact Nat.lt_of_le_of_ne (Nat.le_of_lt_succ this) hv
              rw [List.getElem?_append_left hvl] at hy
              have hw := h.wk v y hy
              refine WInv_congr (Iff.rfl) ?_ ?_ (fun _ => Iff.rfl) hw
              · rw [mem_addSet]; constructor
                · rintro (h1 | h1); exact h1; exact absurd h1 hv
                · exact Or.inl
              · intro j hj; exact List.mem_append_left _ hj
        · intro j hj
          simp only [St.signal, St.setW, ids, List.map_append, List.mem_append, List.map_cons, List.map_nil,
            List.mem_singleton] at hj ⊢
          have := hidl j
          simp only [ids, List.mem_append] at this
          grind
        · intro j hj
          simp only [St.signal, St.setW, ids, List.map_append, List.mem_append, List.map_cons, List.map_nil,
            List.mem_singleton] at hj ⊢
          have := hida j
          simp only [ids, List.mem_append] at this
          by_cases he : j = s.nextJob
          · left; left; right; exact he
          · have hj' : j < s.nextJob + 1 := hj
            have := this (by omega); grind
        · simp only [St.signal, St.setW, List.map_append, List.map_cons, List.map_nil]
          rw [List.nodup_append]
          refine ⟨h.acc_nodup, by simp, ?_⟩
          intro a ha b hb; simp only [List.mem_singleton] at hb; subst hb
          intro he; subst he; exact hfa ha
        · intro j; have := hexcl j
          simp only [St.signal, St.setW, List.map_append, List.map_cons, List.map_nil, List.mem_append,
            List.mem_singleton]
          grind
        · intro p hp; simp only [St.signal, St.setW]; exact List.mem_append_left _ (h.started_acc p hp)
        · intro p hp
          simp only [St.signal, St.setW, List.mem_append, List.mem_singleton] at hp ⊢
          rcases hp with hp | hp
          · rcases h.pending p hp with hs | ⟨y, hy, hslot, hph⟩
            · exact Or.inl hs
            · right
              have hvl : p.2 < s.ws.length := (List.getElem?_eq_some_iff.mp hy).1
              refine ⟨y, ?_, hslot, hph⟩
              rw [getElem?_updW, List.getElem?_append_left hvl, hy]
              simp [Nat.ne_of_lt hvl]
          · right
            subst hp
            refine ⟨{ slot := some s.nextJob, ev := true }, ?_, rfl, Or.inl rfl⟩
            rw [getElem?_updW]
            simp
      · rw [call_process_full mn mx pick s hc hi hlt]
        refine ⟨h.idle_nodup, h.busy_nodup, h.disj, h.bound, h.closed_empty, h.idle_lt, h.busy_lt, h.wk, ?_, ?_,
          h.acc_nodup, ?_, h.rc_nodup, ?_, h.started_acc, h.started_nodup, h.pending, h.ended_started⟩
        · intro j hj
          simp only [ids, List.mem_append, List.mem_singleton] at hj
          have := hidl j
          simp only [ids, List.mem_append] at this
          grind
        · intro j hj
          simp only [ids, List.mem_append, List.mem_singleton]
          have := hida j
          simp only [ids, List.mem_append] at this
          by_cases he : j = s.nextJob
          · left; right; right; exact he
          · have hj' : j < s.nextJob + 1 := hj
            have := this (by omega); grind
        · simp only; rw [List.nodup_append]
          refine ⟨h.rf_nodup, by simp, ?_⟩
          intro a ha b hb; simp only [List.mem_singleton] at hb; subst hb
          intro he; subst he; exact hfrf ha
        · intro j; have := hexcl j; simp only [List.mem_append, List.mem_singleton]; grind
    | cons a l =>
      -- an idle worker takes the job
      have hpos : 0 < s.idle.length := by rw [hi]; simp
      have hidx : pick % s.idle.length < s.idle.length := Nat.mod_lt _ hpos
      obtain ⟨w, hw⟩ : ∃ w, s.idle[pick % s.idle.length]? = some w := ⟨_, List.getElem?_eq_getElem hidx⟩
      have hwi : w ∈ s.idle := List.mem_of_getElem? hw
      rw [call_process_idle mn mx pick s w hc hw]
      have hwb : w ∉ s.busy := h.disj w hwi
      have hwl : w < s.ws.length := h.idle_lt w hwi
      obtain ⟨x, hx⟩ : ∃ x, s.ws[w]? = some x := ⟨_, List.getElem?_eq_getElem hwl⟩
      obtain ⟨hxp, hxe, hxs, _⟩ := WInv_of_mem_idle hwi (h.wk w x hx)
      refine ⟨by simpa [St.signal, St.setW] using List.Nodup.erase w h.idle_nodup,
        by simpa [St.signal, St.setW] using nodup_addSet _ _ h.busy_nodup, ?_, ?_,
        by simp [St.signal, St.setW, hc], ?_, ?_, ?_, ?_, ?_, ?_, h.rf_nodup, h.rc_nodup, ?_, ?_, h.started_nodup, ?_,
        h.ended_started⟩
      · intro v hv
        simp only [St.signal, St.setW] at hv ⊢
        rw [mem_erase_nodup _ _ _ h.idle_nodup] at hv
        rw [mem_addSet]
        rintro (h1 | h1)
        · exact h.disj v hv.1 h1
        · exact hv.2 h1
      · simp only [St.signal, St.setW]
        rw [length_addSet_of_not_mem _ _ hwb, List.length_erase_of_mem hwi]
        have := h.bound; omega
      · intro v hv
        simp only [St.signal, St.setW, length_updW] at hv ⊢
        exact h.idle_lt v (List.mem_of_mem_erase hv)
      · intro v hv
        simp only [St.signal, St.setW, length_updW] at hv ⊢
        rcases (mem_addSet _ _ _).mp hv with hv | hv
        · exact h.busy_lt v hv
        · subst hv; exact hwl
      · intro v x' hx'
        simp only [St.signal, St.setW] at hx' ⊢
        rw [getElem?_updW] at hx'
        by_cases hv : v = w
        · subst hv
          rw [hx] at hx'
          simp only [Option.map_some, if_true, Option.some.injEq] at hx'
          subst hx'
          have hns : (s.nextJob, v) ∉ s.started := fun hm => fresh_not_acc mx s h _ (h.started_acc _ hm)
          have hne : v ∉ s.idle.erase v := fun hm => ((mem_erase_nodup _ _ _ h.idle_nodup).mp hm).2 rfl
          simp [WInv, Own, mem_addSet, hns, hxp, hne]
        · cases hy : s.ws[v]? with
          | none => rw [hy] at hx'; cases hx'
          | some y =>
            rw [hy] at hx'
            simp only [Option.map_some, if_neg hv, Option.some.injEq] at hx'
            subst hx'
            have hw' := h.wk v y hy
            refine WInv_congr ?_ ?_ ?_ (fun _ => Iff.rfl) hw'
            · rw [mem_erase_nodup _ _ _ h.idle_nodup]; constructor
              · exact fun h1 => h1.1
              · exact fun h1 => ⟨h1, hv⟩
            · rw [mem_addSet]; constructor
              · rintro (h1 | h1); exact h1; exact absurd h1 hv
              · exact Or.inl
            · intro j hj; exact List.mem_append_left _ hj
      · intro j hj
        simp only [St.signal, St.setW, ids, List.map_append, List.mem_append, List.map_cons, List.map_nil,
          List.mem_singleton] at hj ⊢
        have := hidl j
        simp only [ids, List.mem_append] at this
        grind
      · intro j hj
        simp only [St.signal, St.setW, ids, List.map_append, List.mem_append, List.map_cons, List.map_nil,
          List.mem_singleton] at hj ⊢
        have := hida j
        simp only [ids, List.mem_append] at this
        by_cases he : j = s.nextJob
        · left; left; right; exact he
        · have hj' : j < s.nextJob + 1 := hj
          have := this (by omega); grind
      · simp only [St.signal, St.setW, List.map_append, List.map_cons, List.map_nil]
        rw [List.nodup_append]
        refine ⟨h.acc_nodup, by simp, ?_⟩
        intro a ha b hb; simp only [List.mem_singleton] at hb; subst hb
        intro he; subst he; exact hfa ha
      · intro j; have := hexcl j
        simp only [St.signal, St.setW, List.map_append, List.map_cons, List.map_nil, List.mem_append,
          List.mem_singleton]
        grind
      · intro p hp; simp only [St.signal, St.setW]; exact List.mem_append_left _ (h.started_acc p hp)
      · intro p hp
        simp only [St.signal, St.setW, List.mem_append, List.mem_singleton] at hp ⊢
        rcases hp with hp | hp
        · rcases h.pending p hp with hs | ⟨y, hy, hslot, hph⟩
          · exact Or.inl hs
          · right
            have hne : p.2 ≠ w := by
              intro he; rw [he, hx] at hy
              simp only [Option.some.injEq] at hy; subst hy
              rw [hxs] at hslot; cases hslot
            refine ⟨y, ?_, hslot, hph⟩
            rw [getElem?_updW, hy]; simp [hne]
        · right
          subst hp
          refine ⟨{ x with slot := some s.nextJob, ev := true }, ?_, rfl, Or.inl hxp⟩
          rw [getElem?_updW, hx]; simp


/-- A step that rewrites only worker `w`'s record, possibly moves `w` between the sets, and possibly
    records that `w` started / ended its job, preserves the invariant if `w`'s new record is
    consistent with the new sets. -/
theorem inv_update (mx : Nat) (s s' : St) (w : Wid) (x x' : Worker) (h : Inv mx s)
    (hx : s.ws[w]? = some x) (hws_w : s'.ws[w]? = some x')
    (hws_o : ∀ v, v ≠ w → s'.ws[v]? = s.ws[v]?) (hlen : s'.ws.length = s.ws.length)
    (hclosed : s'.closed = s.closed) (hacc : s'.accepted = s.accepted) (hnext : s'.nextJob = s.nextJob)
    (hrf : s'.refusedFull = s.refusedFull) (hrc : s'.refusedClosed = s.refusedClosed)
    (hst : s'.started = s.started ∨ ∃ j, s'.started = s.started ++ [(j, w)] ∧ (j, w) ∈ s.accepted ∧ (j, w) ∉ s.started)
    (hend : ∀ j, j ∈ s'.ended → j ∈ s.ended ∨ ∃ v, (j, v) ∈ s'.started)
    (hin : s'.idle.Nodup) (hbn : s'.busy.Nodup) (hd : ∀ v, v ∈ s'.idle → v ∉ s'.busy)
    (hb : s'.idle.length + s'.busy.length ≤ mx) (hce : s.closed = true → s'.idle = [] ∧ s'.busy = [])
    (hil : ∀ v, v ∈ s'.idle → v < s.ws.length) (hbl : ∀ v, v ∈ s'.busy → v < s.ws.length)
    (hoi : ∀ v, v ≠ w → (v ∈ s'.idle ↔ v ∈ s.idle)) (hob : ∀ v, v ≠ w → (v ∈ s'.busy ↔ v ∈ s.busy))
    (hW : WInv s'.idle s'.busy s'.closed s'.accepted s'.started w x')
    (hpend : ∀ j, (j, w) ∈ s.accepted → (j, w) ∈ s'.started ∨ (x'.slot = some j ∧ preStart x'.phase)) :
    Inv mx s' := by
  have hstmono : ∀ p, p ∈ s.started → p ∈ s'.started := by
    intro p hp
    rcases hst with hst | ⟨j, hst, _, _⟩
    · rw [hst]; exact hp
    · rw [hst]; exact List.mem_append_left _ hp
  have hstother : ∀ v, v ≠ w → ∀ j, (j, v) ∈ s'.started ↔ (j, v) ∈ s.started := by
    intro v hv j
    rcases hst with hst | ⟨j', hst, _, _⟩
    · rw [hst]
    · rw [hst]; simp only [List.mem_append, List.mem_singleton, Prod.mk.injEq]
      constructor
      · rintro (h1 | ⟨_, h1⟩); exact h1; exact absurd h1 hv
      · exact Or.inl
  have hids : ids s' = ids s := by simp [ids, hacc, hrf, hrc]
  refine ⟨hin, hbn, hd, hb, by rw [hclosed]; exact hce, by rw [hlen]; exact hil, by rw [hlen]; exact hbl, ?_,
    by rw [hids, hnext]; exact h.ids_lt, by rw [hids, hnext]; exact h.ids_all, by rw [hacc]; exact h.acc_nodup,
    by rw [hrf]; exact h.rf_nodup, by rw [hrc]; exact h.rc_nodup, by rw [hacc, hrf, hrc]; exact h.excl, ?_, ?_, ?_, ?_⟩
  · intro v y hy
    by_cases hv : v = w
    · subst hv; rw [hws_w] at hy; simp only [Option.some.injEq] at hy; subst hy; exact hW
    · rw [hws_o v hv] at hy
      have := h.wk v y hy
      rw [hclosed, hacc]
      exact WInv_congr (hoi v hv) (hob v hv) (fun _ hj => hj) (hstother v hv) this
  · intro p hp
    rw [hacc]
    rcases hst with hst | ⟨j, hst, hj, _⟩
    · rw [hst] at hp; exact h.started_acc p hp
    · rw [hst] at hp; simp only [List.mem_append, List.mem_singleton] at hp
      rcases hp with hp | hp
      · exact h.started_acc p hp
      · subst hp; exact hj
  · rcases hst with hst | ⟨j, hst, _, hj⟩
    · rw [hst]; exact h.started_nodup
    · rw [hst, List.nodup_append]
      refine ⟨h.started_nodup, by simp, ?_⟩
      intro a ha b hb'; simp only [List.mem_singleton] at hb'; subst hb'
      intro he; subst he; exact hj ha
  · intro p hp
    rw [hacc] at hp
    by_cases hv : p.2 = w
    · have hp' : (p.1, w) ∈ s.accepted := by rw [← hv]; exact hp
      rcases hpend p.1 hp' with h1 | ⟨h1, h2⟩
      · left; rw [← hv] at h1; exact h1
      · right; exact ⟨x', by rw [hv]; exact hws_w, h1, h2⟩
    · rcases h.pending p hp with h1 | ⟨y, hy, h1, h2⟩
      · exact Or.inl (hstmono p h1)
      · right; exact ⟨y, by rw [hws_o _ hv]; exact hy, h1, h2⟩
  · intro j hj
    rcases hend j hj with h1 | h1
    · obtain ⟨v, hv⟩ := h.ended_started j h1
      exact ⟨v, hstmono _ hv⟩
    · exact h1


/-- the sets stay as they are; only `w`'s record and the start/end logs change -/
theorem inv_local (mx : Nat) (s : St) (w : Wid) (x : Worker) (f : Worker → Worker)
    (st' : List (Jid × Wid)) (e' : List Jid) (h : Inv mx s) (hx : s.ws[w]? = some x)
    (hst : st' = s.started ∨ ∃ j, st' = s.started ++ [(j, w)] ∧ (j, w) ∈ s.accepted ∧ (j, w) ∉ s.started)
    (hend : ∀ j, j ∈ e' → j ∈ s.ended ∨ ∃ v, (j, v) ∈ st')
    (hW : WInv s.idle s.busy s.closed s.accepted st' w (f x))
    (hpend : ∀ j, (j, w) ∈ s.accepted → (j, w) ∈ st' ∨ ((f x).slot = some j ∧ preStart (f x).phase)) :
    Inv mx { s with ws := updW s.ws w f, started := st', ended := e' } := by
  apply inv_update mx s _ w x (f x) h hx
  · simp [getElem?_updW, hx]
  · intro v hv; simp [getElem?_updW, hv]
  · simp [length_updW]
  all_goals first
    | rfl
    | exact hst
    | exact hend
    | exact hW
    | exact hpend
    | exact h.idle_nodup
    | exact h.busy_nodup
    | exact h.disj
    | exact h.bound
    | exact h.closed_empty
    | exact h.idle_lt
    | exact h.busy_lt
    | (intro v _; exact Iff.rfl)


theorem inv_wstep (mn mx : Nat) (s : St) (w : Wid) (h : Inv mx s) : Inv mx (wstep mn mx s w) := by
  unfold wstep
  cases hx : s.ws[w]? with
  | none => exact h
  | some x =>
    simp only
    have hw := h.wk w x hx
    have hpd := h.pending
    cases hp : x.phase with
    | waiting =>
      simp only
      by_cases he : x.ev = true
      · rw [if_pos he]
        refine inv_local mx s w x _ s.started s.ended h hx (Or.inl rfl) (fun j hj => Or.inl hj) ?_ ?_
        · unfold WInv Own Out at *; simp only [hp] at hw ⊢; grind
        · intro j hj
          rcases hpd (j, w) hj with h1 | ⟨y, hy, h1, h2⟩
          · exact Or.inl h1
          · right; rw [hx] at hy; simp only [Option.some.injEq] at hy; subst hy
            exact ⟨h1, Or.inr (Or.inl rfl)⟩
      · rw [if_neg he]; exact h
    | woken =>
      simp only
      refine inv_local mx s w x _ s.started s.ended h hx (Or.inl rfl) (fun j hj => Or.inl hj) ?_ ?_
      · unfold WInv Own Out at *; simp only [hp] at hw ⊢; grind
      · intro j hj
        rcases hpd (j, w) hj with h1 | ⟨y, hy, h1, h2⟩
        · exact Or.inl h1
        · right; rw [hx] at hy; simp only [Option.some.injEq] at hy; subst hy
          exact ⟨h1, Or.inr (Or.inr (Or.inl rfl))⟩
    | cleared =>
      simp only
      cases hs : x.slot with
      | none =>
        simp only
        refine inv_local mx s w x _ s.started s.ended h hx (Or.inl rfl) (fun j hj => Or.inl hj) ?_ ?_
        · unfold WInv Own Out at *; simp only [hp] at hw ⊢; grind
        · intro j hj
          rcases hpd (j, w) hj with h1 | ⟨y, hy, h1, h2⟩
          · exact Or.inl h1
          · rw [hx] at hy; simp only [Option.some.injEq] at hy; subst hy
            rw [hs] at h1; cases h1
      | some j0 =>
        simp only
        refine inv_local mx s w x _ s.started s.ended h hx (Or.inl rfl) (fun j hj => Or.inl hj) ?_ ?_
        · unfold WInv Own Out at *; simp only [hp] at hw ⊢; grind
        · intro j hj
          rcases hpd (j, w) hj with h1 | ⟨y, hy, h1, h2⟩
          · exact Or.inl h1
          · right; rw [hx] at hy; simp only [Option.some.injEq] at hy; subst hy
            exact ⟨h1, Or.inr (Or.inr (Or.inr rfl))⟩
    | checked =>
      simp only
      cases hs : x.slot with
      | none =>
        exfalso
        unfold WInv at hw; simp only [hp] at hw
        obtain ⟨_, j, hj, _⟩ := hw
        rw [hs] at hj; cases hj
      | some j0 =>
        simp only
        have hown : (j0, w) ∈ s.accepted ∧ (j0, w) ∉ s.started := by
          unfold WInv Own at hw; simp only [hp] at hw
          obtain ⟨_, j, hj, ho, hn⟩ := hw
          rw [hs] at hj; simp only [Option.some.injEq] at hj; subst hj
          exact ⟨ho.1, hn⟩
        refine inv_local mx s w x _ (s.started ++ [(j0, w)]) s.ended h hx
          (Or.inr ⟨j0, rfl, hown.1, hown.2⟩) (fun j hj => Or.inl hj) ?_ ?_
        · unfold WInv Own Out at *; simp only [hp] at hw ⊢
          simp only [List.mem_append, List.mem_singleton]; grind
        · intro j hj
          rcases hpd (j, w) hj with h1 | ⟨y, hy, h1, h2⟩
          · exact Or.inl (List.mem_append_left _ h1)
          · left; rw [hx] at hy; simp only [Option.some.injEq] at hy; subst hy
            rw [hs] at h1; simp only [Option.some.injEq] at h1; subst h1
            simp
    | running j0 =>
      simp only
      by_cases hf : j0 ∈ s.fin
      · rw [if_pos hf]
        have hstd : (j0, w) ∈ s.started := by
          unfold WInv at hw; simp only [hp] at hw; exact hw.2.2.2
        refine inv_local mx s w x _ s.started (s.ended ++ [j0]) h hx (Or.inl rfl) ?_ ?_ ?_
        · intro j hj
          simp only [List.mem_append, List.mem_singleton] at hj
          rcases hj with hj | hj
          · exact Or.inl hj
          · subst hj; exact Or.inr ⟨w, hstd⟩
        · unfold WInv Own Out at *; simp only [hp] at hw ⊢; grind
        · intro j hj
          rcases hpd (j, w) hj with h1 | ⟨y, hy, h1, h2⟩
          · exact Or.inl h1
          · rw [hx] at hy; simp only [Option.some.injEq] at hy; subst hy
            unfold preStart at h2; rw [hp] at h2; simp at h2
      · rw [if_neg hf]; exact h
    | finished =>
      simp only
      refine inv_local mx s w x _ s.started s.ended h hx (Or.inl rfl) (fun j hj => Or.inl hj) ?_ ?_
      · unfold WInv Own Out at *; simp only [hp] at hw ⊢; grind
      · intro j hj
        rcases hpd (j, w) hj with h1 | ⟨y, hy, h1, h2⟩
        · exact Or.inl h1
        · rw [hx] at hy; simp only [Option.some.injEq] at hy; subst hy
          unfold preStart at h2; rw [hp] at h2; simp at h2
    | notifying =>
      simp only
      have hw' : x.ev = false ∧ x.slot = none ∧ w ∉ s.idle ∧ (s.closed = false → w ∈ s.busy) := by
        unfold WInv at hw; simp only [hp] at hw; exact hw
      obtain ⟨hev, hsl, hni, hbz⟩ := hw'
      have hpend' : ∀ j, (j, w) ∈ s.accepted → (j, w) ∈ s.started := by
        intro j hj
        rcases hpd (j, w) hj with h1 | ⟨y, hy, h1, h2⟩
        · exact h1
        · rw [hx] at hy; simp only [Option.some.injEq] at hy; subst hy
          rw [hsl] at h1; cases h1
      cases hc : s.closed with
      | true =>
        obtain ⟨hie, hbe⟩ := h.closed_empty hc
        have hnb : w ∉ (s.setW w fun x => { x with phase := .waiting }).busy := by simp [St.setW, hbe]
        rw [call_notify_closed mn mx _ w (by simpa [St.setW] using hc) hnb]
        apply inv_update mx s _ w x { slot := none, ev := true, phase := .waiting } h hx
        · simp [St.signal, St.setW, getElem?_updW, hx]
        · intro v hv; simp [St.signal, St.setW, getElem?_updW, hv]
        · simp [St.signal, St.setW, length_updW]
        · rfl
        · rfl
        · rfl
        · rfl
        · rfl
        · exact Or.inl rfl
        · intro j hj; exact Or.inl hj
        · exact h.idle_nodup
        · exact h.busy_nodup
        · exact h.disj
        · exact h.bound
        · exact h.closed_empty
        · exact h.idle_lt
        · exact h.busy_lt
        · intro v _; exact Iff.rfl
        · intro v _; exact Iff.rfl
        · simp [St.signal, St.setW, WInv, Out, hie, hbe]
        · intro j hj; exact Or.inl (hpend' j hj)
      | false =>
        have hwb : w ∈ s.busy := hbz hc
        have hbn' : (s.busy.erase w).Nodup := List.Nodup.erase w h.busy_nodup
        have hnotin : w ∉ s.busy.erase w := fun hm => ((mem_erase_nodup _ _ _ h.busy_nodup).mp hm).2 rfl
        have hlen : (s.busy.erase w).length + 1 = s.busy.length := by
          rw [List.length_erase_of_mem hwb]
          have : 0 < s.busy.length := List.length_pos_of_mem hwb
          omega
        by_cases hge : s.idle.length ≥ mn
        · rw [call_notify_retire mn mx _ w (by simpa [St.setW] using hc) (by simpa [St.setW] using hwb)
            (by simpa [St.setW] using hge)]
          apply inv_update mx s _ w x { slot := none, ev := true, phase := .waiting } h hx
          · simp [St.signal, St.setW, getElem?_updW, hx]
          · intro v hv; simp [St.signal, St.setW, getElem?_updW, hv]
          · simp [St.signal, St.setW, length_updW]
          · rfl
          · rfl
          · rfl
          · rfl
          · rfl
          · exact Or.inl rfl
          · intro j hj; exact Or.inl hj
          · exact h.idle_nodup
          · exact hbn'
          · intro v hv hv'; exact h.disj v hv (List.mem_of_mem_erase hv')
          · simp only [St.signal, St.setW]; have := h.bound; omega
          · intro hct; rw [hc] at hct; cases hct
          · exact h.idle_lt
          · intro v hv; exact h.busy_lt v (List.mem_of_mem_erase hv)
          · intro v _; exact Iff.rfl
          · intro v hv; simp only [St.signal, St.setW]
            rw [mem_erase_nodup _ _ _ h.busy_nodup]
            exact ⟨fun h1 => h1.1, fun h1 => ⟨h1, hv⟩⟩
          · simp [St.signal, St.setW, WInv, Out, hni, hnotin]
          · intro j hj; exact Or.inl (hpend' j hj)
        · rw [call_notify_idle mn mx _ w (by simpa [St.setW] using hc) (by simpa [St.setW] using hwb)
            (by simpa [St.setW] using hge)]
          apply inv_update mx s _ w x { x with phase := .waiting } h hx
          · simp [St.setW, getElem?_updW, hx]
          · intro v hv; simp [St.setW, getElem?_updW, hv]
          · simp [St.setW, length_updW]
          · rfl
          · rfl
          · rfl
          · rfl
          · rfl
          · exact Or.inl rfl
          · intro j hj; exact Or.inl hj
          · exact nodup_addSet _ _ h.idle_nodup
          · exact hbn'
          · intro v hv hv'
            simp only [St.setW] at hv hv'
            rcases (mem_addSet _ _ _).mp hv with h1 | h1
            · exact h.disj v h1 (List.mem_of_mem_erase hv')
            · subst h1; exact hnotin hv'
          · simp only [St.setW]; rw [length_addSet_of_not_mem _ _ hni]; have := h.bound; omega
          · intro hct; rw [hc] at hct; cases hct
          · intro v hv
            simp only [St.setW] at hv
            rcases (mem_addSet _ _ _).mp hv with h1 | h1
            · exact h.idle_lt v h1
            · subst h1; exact h.busy_lt v hwb
          · intro v hv; exact h.busy_lt v (List.mem_of_mem_erase hv)
          · intro v hv; simp only [St.setW]; rw [mem_addSet]
            exact ⟨fun h1 => h1.elim id (fun h2 => absurd h2 hv), Or.inl⟩
          · intro v hv; simp only [St.setW]
            rw [mem_erase_nodup _ _ _ h.busy_nodup]
            exact ⟨fun h1 => h1.1, fun h1 => ⟨h1, hv⟩⟩
          · simp [St.setW, WInv, mem_addSet, hev, hsl, hc]
          · intro j hj; exact Or.inl (hpend' j hj)
    | exited => exact h


theorem inv_step (mn mx : Nat) (s : St) (a : Act) (h : Inv mx s) : Inv mx (step mn mx s a) := by
  cases a with
  | submit pick => exact inv_submit mn mx pick s h
  | finish j => exact inv_finish mx s j h
  | wstep w => exact inv_wstep mn mx s w h
  | close => exact inv_close mn mx s h

theorem inv_run (mn mx : Nat) (s : St) (acts : List Act) (h : Inv mx s) : Inv mx (run mn mx s acts) := by
  induction acts generalizing s with
  | nil => exact h
  | cons a as ih => simp only [run, List.foldl_cons]; exact ih _ (inv_step mn mx s a h)

/-! ### progress after close: every worker's distance to `exited` -/

/-- statements the worker still has to execute before its thread ends, in a closed pool -/
def rank (x : Worker) : Nat :=
  match x.phase, x.slot with
  | .waiting, none => 3
  | .waiting, some _ => 10
  | .woken, none => 2
  | .woken, some _ => 9
  | .cleared, none => 1
  | .cleared, some _ => 8
  | .checked, _ => 7
  | .running _, _ => 6
  | .finished, _ => 5
  | .notifying, _ => 4
  | .exited, _ => 0

theorem rank_zero (x : Worker) (h : rank x = 0) : x.phase = .exited := by
  unfold rank at h
  cases hp : x.phase <;> cases hs : x.slot <;> simp [hp, hs] at h ⊢

theorem updW_self (ws : List Worker) (w : Wid) (x : Worker) (hx : ws[w]? = some x) :
    updW ws w (fun _ => x) = ws := by
  apply List.ext_getElem?
  intro i
  rw [getElem?_updW]
  by_cases hi : i = w
  · subst hi; rw [hx]; simp
  · cases h : ws[i]? <;> simp [hi]

/-- In a closed pool a step of worker `w` rewrites only `w`'s own record (and the start/end logs),
    and brings it one statement closer to the end of its thread — unless it is inside a job that has
    not been allowed to end. -/
theorem wstep_closed (mn mx : Nat) (s : St) (w : Wid) (x : Worker) (h : Inv mx s) (hc : s.closed = true)
    (hx : s.ws[w]? = some x) :
    ∃ x' st' e', wstep mn mx s w = { s with ws := updW s.ws w (fun _ => x'), started := st', ended := e' } ∧
      (rank x' + 1 = rank x ∨ (x' = x ∧ (x.phase = .exited ∨ ∃ j, x.phase = .running j ∧ j ∉ s.fin))) := by
  have hw := h.wk w x hx
  have hself : s = { s with ws := updW s.ws w (fun _ => x), started := s.started, ended := s.ended } := by
    rw [updW_self _ _ _ hx]
  obtain ⟨hie, hbe⟩ := h.closed_empty hc
  unfold wstep
  simp only [hx]
  cases hp : x.phase with
  | waiting =>
    have hev : x.ev = true := by
      unfold WInv at hw; simp only [hp, hc] at hw; grind
    simp only [hev, if_true]
    refine ⟨{ x with phase := .woken }, s.started, s.ended, ?_, Or.inl ?_⟩
    · simp only [St.setW, updW]; congr 1
      apply List.ext_getElem?; intro i; simp only [List.getElem?_mapIdx]
      by_cases hi : i = w
      · subst hi; simp [hx]
      · cases s.ws[i]? <;> simp [hi]
    · unfold rank; cases hs : x.slot <;> simp [hp, hs]
  | woken =>
    simp only
    refine ⟨{ x with ev := false, phase := .cleared }, s.started, s.ended, ?_, Or.inl ?_⟩
    · simp only [St.setW, updW]; congr 1
      apply List.ext_getElem?; intro i; simp only [List.getElem?_mapIdx]
      by_cases hi : i = w
      · subst hi; simp [hx]
      · cases s.ws[i]? <;> simp [hi]
    · unfold rank; cases hs : x.slot <;> simp [hp, hs]
  | cleared =>
    simp only
    cases hs : x.slot with
    | none =>
      simp only
      refine ⟨{ x with phase := .exited }, s.started, s.ended, ?_, Or.inl ?_⟩
      · simp only [St.setW, updW]; congr 1
        apply List.ext_getElem?; intro i; simp only [List.getElem?_mapIdx]
        by_cases hi : i = w
        · subst hi; simp [hx]
        · cases s.ws[i]? <;> simp [hi]
      · unfold rank; simp [hp, hs]
    | some j0 =>
      simp only
      refine ⟨{ x with phase := .checked }, s.started, s.ended, ?_, Or.inl ?_⟩
      · simp only [St.setW, updW]; congr 1
        apply List.ext_getElem?; intro i; simp only [List.getElem?_mapIdx]
        by_cases hi : i = w
        · subst hi; simp [hx]
        · cases s.ws[i]? <;> simp [hi]
      · unfold rank; simp [hp, hs]
  | checked =>
    simp only
    cases hs : x.slot with
    | none =>
      exfalso
      unfold WInv at hw; simp only [hp] at hw
      obtain ⟨_, j, hj, _⟩ := hw
      rw [hs] at hj; cases hj
    | some j0 =>
      simp only
      refine ⟨{ x with phase := .running j0 }, s.started ++ [(j0, w)], s.ended, ?_, Or.inl ?_⟩
      · simp only [St.setW, updW]; congr 1
        apply List.ext_getElem?; intro i; simp only [List.getElem?_mapIdx]
        by_cases hi : i = w
        · subst hi; simp [hx]
        · cases s.ws[i]? <;> simp [hi]
      · unfold rank; simp [hp, hs]
  | running j0 =>
    simp only
    by_cases hf : j0 ∈ s.fin
    · rw [if_pos hf]
      refine ⟨{ x with phase := .finished }, s.started, s.ended ++ [j0], ?_, Or.inl ?_⟩
      · simp only [St.setW, updW]; congr 1
        apply List.ext_getElem?; intro i; simp only [List.getElem?_mapIdx]
        by_cases hi : i = w
        · subst hi; simp [hx]
        · cases s.ws[i]? <;> simp [hi]
      · unfold rank; cases hs : x.slot <;> simp [hp, hs]
    · rw [if_neg hf]
      exact ⟨x, s.started, s.ended, hself, Or.inr ⟨rfl, Or.inr ⟨j0, rfl, hf⟩⟩⟩
  | finished =>
    simp only
    refine ⟨{ x with slot := none, phase := .notifying }, s.started, s.ended, ?_, Or.inl ?_⟩
    · simp only [St.setW, updW]; congr 1
      apply List.ext_getElem?; intro i; simp only [List.getElem?_mapIdx]
      by_cases hi : i = w
      · subst hi; simp [hx]
      · cases s.ws[i]? <;> simp [hi]
    · unfold rank; cases hs : x.slot <;> simp [hp, hs]
  | notifying =>
    simp only
    have hnb : w ∉ (s.setW w fun x => { x with phase := .waiting }).busy := by simp [St.setW, hbe]
    rw [call_notify_closed mn mx _ w (by simpa [St.setW] using hc) hnb]
    refine ⟨{ x with slot := none, ev := true, phase := .waiting }, s.started, s.ended, ?_, Or.inl ?_⟩
    · simp only [St.signal, St.setW, updW]; congr 1
      apply List.ext_getElem?; intro i; simp only [List.getElem?_mapIdx]
      by_cases hi : i = w
      · subst hi; simp [hx]
      · cases s.ws[i]? <;> simp [hi]
    · unfold rank; cases hs : x.slot <;> simp [hp, hs]
  | exited =>
    exact ⟨x, s.started, s.ended, hself, Or.inr ⟨rfl, Or.inl rfl⟩⟩


/-- one action in a closed pool: it stays closed, nothing more is accepted, and worker `w`'s record
    changes only by `w`'s own steps, each of which brings it closer to the end of its thread -/
theorem closed_step (mn mx : Nat) (s : St) (a : Act) (w : Wid) (x : Worker) (h : Inv mx s)
    (hc : s.closed = true) (hx : s.ws[w]? = some x) :
    (step mn mx s a).closed = true ∧ (step mn mx s a).accepted = s.accepted ∧
    (∀ j, j ∈ s.fin → j ∈ (step mn mx s a).fin) ∧
    ∃ x', (step mn mx s a).ws[w]? = some x' ∧
      (a = .wstep w → rank x' + 1 = rank x ∨ (x' = x ∧ (x.phase = .exited ∨ ∃ j, x.phase = .running j ∧ j ∉ s.fin))) ∧
      (a ≠ .wstep w → x' = x) := by
  cases a with
  | submit pick =>
    simp only [step]; rw [call_process_closed mn mx pick s hc]
    exact ⟨hc, rfl, fun j hj => hj, x, hx, (fun h1 => by cases h1), fun _ => rfl⟩
  | finish j =>
    show ({ s with fin := s.fin ++ [j] } : St).closed = true ∧ _
    exact ⟨hc, rfl, fun j hj => List.mem_append_left _ hj, x, hx, (fun h1 => by cases h1), fun _ => rfl⟩
  | close =>
    simp only [step]; rw [call_close_closed mn mx s hc]
    exact ⟨hc, rfl, fun j hj => hj, x, hx, (fun h1 => by cases h1), fun _ => rfl⟩
  | wstep v =>
    simp only [step]
    cases hy : s.ws[v]? with
    | none =>
      have : wstep mn mx s v = s := by unfold wstep; simp [hy]
      rw [this]
      refine ⟨hc, rfl, fun j hj => hj, x, hx, ?_, fun _ => rfl⟩
      intro h1; simp only [Act.wstep.injEq] at h1; subst h1; rw [hx] at hy; cases hy
    | some y =>
      obtain ⟨y', st', e', heq, hr⟩ := wstep_closed mn mx s v y h hc hy
      rw [heq]
      refine ⟨hc, rfl, fun j hj => hj, ?_⟩
      by_cases hv : v = w
      · subst hv
        rw [hx] at hy; simp only [Option.some.injEq] at hy; subst hy
        refine ⟨y', by simp [getElem?_updW, hx], fun _ => hr, fun h1 => absurd rfl h1⟩
      · refine ⟨x, ?_, ?_, fun _ => rfl⟩
        · simp only [getElem?_updW, hx, Option.map_some]
          rw [if_neg (fun h1 => hv h1.symm)]
        · intro h1; simp only [Act.wstep.injEq] at h1; exact absurd h1 hv

/-! ### a pending job is started by four steps of its worker -/

theorem notify_started (mn mx : Nat) (s : St) (w : Wid) :
    (call mn mx (.notifyDone w) s).1.started = s.started := by
  by_cases h1 : w ∈ s.busy <;> cases h2 : s.closed <;> by_cases h3 : s.idle.length ≥ mn <;>
    simp [call, toOp, Op.run, runSteps, body, notifyBody, guard, h1, h2, h3, St.signal, St.setW]

theorem wstep_started_mono (mn mx : Nat) (s : St) (w : Wid) (p : Jid × Wid) (hp : p ∈ s.started) :
    p ∈ (wstep mn mx s w).started := by
  unfold wstep
  cases hx : s.ws[w]? with
  | none => exact hp
  | some x =>
    simp only
    cases hph : x.phase <;> simp only
    · split <;> simp [St.setW, hp]
    · simp [St.setW, hp]
    · cases x.slot <;> simp [St.setW, hp]
    · cases x.slot <;> simp [St.setW, hp]
    · split <;> simp [St.setW, hp]
    · simp [St.setW, hp]
    · -- notify_done never touches the start log
      rw [notify_started]; exact hp
    · exact hp

theorem iter_started_mono (mn mx : Nat) (w : Wid) (k : Nat) (s : St) (p : Jid × Wid) (hp : p ∈ s.started) :
    p ∈ (iter (fun t => wstep mn mx t w) k s).started := by
  induction k generalizing s with
  | zero => exact hp
  | succ k ih => simp only [iter]; exact ih _ (wstep_started_mono mn mx s w p hp)

theorem wstep_checked (mn mx : Nat) (s : St) (w : Wid) (x : Worker) (j : Jid) (hx : s.ws[w]? = some x)
    (hp : x.phase = .checked) (hs : x.slot = some j) : (j, w) ∈ (wstep mn mx s w).started := by
  unfold wstep; simp [hx, hp, hs, St.setW]

theorem wstep_cleared (mn mx : Nat) (s : St) (w : Wid) (x : Worker) (j : Jid) (hx : s.ws[w]? = some x)
    (hp : x.phase = .cleared) (hs : x.slot = some j) :
    (wstep mn mx s w).ws[w]? = some { x with phase := .checked } := by
  unfold wstep; simp [hx, hp, hs, St.setW, getElem?_updW]

theorem wstep_woken (mn mx : Nat) (s : St) (w : Wid) (x : Worker) (hx : s.ws[w]? = some x)
    (hp : x.phase = .woken) :
    (wstep mn mx s w).ws[w]? = some { x with ev := false, phase := .cleared } := by
  unfold wstep; simp [hx, hp, St.setW, getElem?_updW]

theorem wstep_waiting (mn mx : Nat) (s : St) (w : Wid) (x : Worker) (hx : s.ws[w]? = some x)
    (hp : x.phase = .waiting) (he : x.ev = true) :
    (wstep mn mx s w).ws[w]? = some { x with phase := .woken } := by
  unfold wstep; simp [hx, hp, he, St.setW, getElem?_updW]


theorem closed_step_basic (mn mx : Nat) (s : St) (a : Act) (h : Inv mx s) (hc : s.closed = true) :
    (step mn mx s a).closed = true ∧ (step mn mx s a).accepted = s.accepted ∧
    (∀ j, j ∈ s.fin → j ∈ (step mn mx s a).fin) := by
  cases a with
  | submit pick =>
    simp only [step]; rw [call_process_closed mn mx pick s hc]
    exact ⟨hc, rfl, fun j hj => hj⟩
  | finish j =>
    show ({ s with fin := s.fin ++ [j] } : St).closed = true ∧ _
    exact ⟨hc, rfl, fun j hj => List.mem_append_left _ hj⟩
  | close =>
    simp only [step]; rw [call_close_closed mn mx s hc]
    exact ⟨hc, rfl, fun j hj => hj⟩
  | wstep v =>
    simp only [step]
    cases hy : s.ws[v]? with
    | none =>
      have : wstep mn mx s v = s := by unfold wstep; simp [hy]
      rw [this]; exact ⟨hc, rfl, fun j hj => hj⟩
    | some y =>
      obtain ⟨y', st', e', heq, _⟩ := wstep_closed mn mx s v y h hc hy
      rw [heq]; exact ⟨hc, rfl, fun j hj => hj⟩

theorem closed_run (mn mx : Nat) (s : St) (acts : List Act) (h : Inv mx s) (hc : s.closed = true) :
    (run mn mx s acts).closed = true ∧ (run mn mx s acts).accepted = s.accepted := by
  induction acts generalizing s with
  | nil => exact ⟨hc, rfl⟩
  | cons a as ih =>
    simp only [run, List.foldl_cons]
    obtain ⟨h1, h2, _⟩ := closed_step_basic mn mx s a h hc
    obtain ⟨h3, h4⟩ := ih _ (inv_step mn mx s a h) h1
    exact ⟨h3, by rw [← h2]; exact h4⟩

/-- In a closed pool whose accepted jobs have all been allowed to end, a worker that still has
    `rank` statements to go has left its loop after that many steps of its own — whatever else is
    scheduled in between. -/
theorem close_exits_aux (mn mx : Nat) (w : Wid) (acts : List Act) :
    ∀ (s : St) (x : Worker), Inv mx s → s.closed = true → (∀ p, p ∈ s.accepted → p.1 ∈ s.fin) →
      s.ws[w]? = some x → rank x ≤ acts.count (.wstep w) →
      ∃ x', (run mn mx s acts).ws[w]? = some x' ∧ x'.phase = .exited := by
  induction acts with
  | nil =>
    intro s x _ _ _ hx hr
    simp only [List.count_nil, Nat.le_zero_eq] at hr
    exact ⟨x, hx, rank_zero x hr⟩
  | cons a as ih =>
    intro s x h hc hfin hx hr
    simp only [run, List.foldl_cons]
    obtain ⟨h1, h2, h3, x1, hx1, hown, hother⟩ := closed_step mn mx s a w x h hc hx
    have hfin' : ∀ p, p ∈ (step mn mx s a).accepted → p.1 ∈ (step mn mx s a).fin := by
      intro p hp; rw [h2] at hp; exact h3 _ (hfin p hp)
    refine ih _ x1 (inv_step mn mx s a h) h1 hfin' hx1 ?_
    by_cases ha : a = .wstep w
    · subst ha
      simp only [List.count_cons_self] at hr
      rcases hown rfl with h4 | ⟨h4, h5⟩
      · omega
      · subst h4
        rcases h5 with h5 | ⟨j, h5, h6⟩
        · have : rank x1 = 0 := by unfold rank; simp [h5]
          omega
        · exfalso
          have hw := h.wk w x1 hx
          unfold WInv Own at hw; simp only [h5] at hw
          exact h6 (hfin (j, w) hw.2.2.1.1)
    · have : x1 = x := hother ha
      subst this
      rw [List.count_cons] at hr
      have : (a == Act.wstep w) = false := by simp [ha]
      simpa [this] using hr

theorem rank_le (x : Worker) : rank x ≤ 10 := by
  unfold rank; cases x.phase <;> cases x.slot <;> simp

theorem inj_of_nodup_map {α β : Type} (f : α → β) (l : List α) (h : (l.map f).Nodup) (a b : α)
    (ha : a ∈ l) (hb : b ∈ l) (hab : f a = f b) : a = b := by
  induction l with
  | nil => cases ha
  | cons c l ih =>
    simp only [List.map_cons, List.nodup_cons, List.mem_map, not_exists, not_and] at h
    simp only [List.mem_cons] at ha hb
    rcases ha with rfl | ha <;> rcases hb with rfl | hb
    · rfl
    · exact absurd hab.symm (h.1 b hb)
    · exact absurd hab (h.1 a ha)
    · exact ih h.2 ha hb

end Pyro.Pool
