/-
  Lemmas for the transcribed stream functions (PyroModel/StreamsSrc.lean, Gen/C10.lean): more association-list facts
  and the loop lemma — a `for k in list(d): …get/set/pop d[k]…` loop over a snapshot of the keys of a table without
  duplicate keys is a per-entry update of the table (`foldl_applyUpd`).
-/
import PyroModel.Streams
import PyroModel.StreamsSrc
import PyroProofs.Streams

set_option linter.unusedSimpArgs false
set_option linter.unusedVariables false

namespace Pyro.Streams

theorem src_keys_eq (t : Table) : Src.keys t = t.keys := rfl

theorem set_set (t : Table) (id : Nat) (a b : Entry) : (t.set id a).set id b = t.set id b := by
  induction t with
  | nil => simp [Table.set]
  | cons p r ih =>
    obtain ⟨k, w⟩ := p
    by_cases h : k = id
    · simp [Table.set, h]
    · simp [Table.set, h, ih]

theorem erase_set (t : Table) (id : Nat) (a : Entry) : (t.set id a).erase id = t.erase id := by
  induction t with
  | nil => simp [Table.set, Table.erase]
  | cons p r ih =>
    obtain ⟨k, w⟩ := p
    by_cases h : k = id
    · simp [Table.set, Table.erase, h]
    · simpa [Table.set, Table.erase, h] using ih

theorem erase_of_not_mem (t : Table) (id : Nat) (h : id ∉ t.keys) : t.erase id = t := by
  induction t with
  | nil => simp [Table.erase]
  | cons p r ih =>
    obtain ⟨k, w⟩ := p
    simp only [Table.keys, List.map_cons, List.mem_cons, not_or] at h
    have h2 := ih (by simpa [Table.keys] using h.2)
    have : k ≠ id := fun e => h.1 e.symm
    simp [Table.erase, this] at h2 ⊢
    exact h2

theorem erase_of_get_none (t : Table) (id : Nat) (h : t.get id = none) : t.erase id = t :=
  erase_of_not_mem t id ((get_none_iff t id).1 h)

theorem get_append_right (d r : Table) (k : Nat) (h : k ∉ d.keys) : Table.get (d ++ r) k = Table.get r k := by
  induction d with
  | nil => rfl
  | cons p d ih =>
    obtain ⟨k', w⟩ := p
    simp only [Table.keys, List.map_cons, List.mem_cons, not_or] at h
    have : k' ≠ k := fun e => h.1 e.symm
    simp only [List.cons_append, Table.get, this, if_false]
    exact ih (by simpa [Table.keys] using h.2)

theorem erase_append_right (d r : Table) (k : Nat) (h : k ∉ d.keys) : Table.erase (d ++ r) k = d ++ Table.erase r k := by
  have := erase_of_not_mem d k h
  simp only [Table.erase] at this ⊢
  rw [List.filter_append, this]

theorem set_append_right (d r : Table) (k : Nat) (e : Entry) (h : k ∉ d.keys) :
    Table.set (d ++ (k, e) :: r) k e' = d ++ (k, e') :: r := by
  induction d with
  | nil => simp [Table.set]
  | cons p d ih =>
    obtain ⟨k', w⟩ := p
    simp only [Table.keys, List.map_cons, List.mem_cons, not_or] at h
    have : k' ≠ k := fun e => h.1 e.symm
    simp only [List.cons_append, Table.set, this, if_false]
    rw [ih (by simpa [Table.keys] using h.2)]

/-- what one round of a loop body does to the entry it looks at -/
inductive Upd where
  | keep
  | drop
  | put (e : Entry)

/-- a loop body: look the key up (`d.get(k)`), do nothing if it is gone, else keep / `pop` / assign -/
def applyUpd (u : Entry → Upd) (tb : Table) (k : Nat) : Table :=
  match Table.get tb k with
  | some e =>
    match u e with
    | .keep => tb
    | .drop => Table.erase tb k
    | .put e' => Table.set tb k e'
  | none => tb

/-- the same update applied to every entry at once -/
def updAll (u : Entry → Upd) (t : Table) : Table :=
  t.filterMap fun p =>
    match u p.2 with
    | .keep => some p
    | .drop => none
    | .put e' => some (p.1, e')

theorem foldl_applyUpd_aux (u : Entry → Upd) (r : Table) :
    ∀ d : Table, (Table.keys (d ++ r)).Nodup → List.foldl (applyUpd u) (d ++ r) (Table.keys r) = d ++ updAll u r := by
  induction r with
  | nil => intro d _; simp [Table.keys, updAll]
  | cons p r ih =>
    intro d hnd
    obtain ⟨k, e⟩ := p
    have hnd' := hnd
    simp only [Table.keys, List.map_append, List.map_cons] at hnd'
    rw [List.nodup_append] at hnd'
    obtain ⟨hd, hkr, hdisj⟩ := hnd'
    rw [List.nodup_cons] at hkr
    have hkd : k ∉ d.keys := by
      intro hm
      exact hdisj k (by simpa [Table.keys] using hm) k (by simp) rfl
    have hkr' : k ∉ Table.keys r := by simpa [Table.keys] using hkr.1
    have hget : Table.get (d ++ (k, e) :: r) k = some e := by
      rw [get_append_right _ _ _ hkd]; simp [Table.get]
    simp only [Table.keys, List.map_cons, List.foldl_cons]
    have hstep : applyUpd u (d ++ (k, e) :: r) k =
        match u e with
        | .keep => (d ++ [(k, e)]) ++ r
        | .drop => d ++ r
        | .put e' => (d ++ [(k, e')]) ++ r := by
      unfold applyUpd
      rw [hget]
      cases hu : u e with
      | keep => simp [hu]
      | drop =>
        simp only [hu]
        rw [erase_append_right _ _ _ hkd]
        have : Table.erase ((k, e) :: r) k = r := by
          have h2 := erase_of_not_mem r k hkr'
          simp [Table.erase] at h2 ⊢
          exact h2
        rw [this]
      | put e' =>
        simp only [hu]
        rw [set_append_right d r k e hkd]
        simp
    rw [hstep]
    have hfm : updAll u ((k, e) :: r) =
        match u e with
        | .keep => (k, e) :: updAll u r
        | .drop => updAll u r
        | .put e' => (k, e') :: updAll u r := by
      simp only [updAll, List.filterMap_cons]
      cases u e <;> simp
    rw [hfm]
    cases hu : u e with
    | keep =>
      simp only [hu]
      have := ih (d ++ [(k, e)]) (by simpa [List.append_assoc] using hnd)
      simpa [Table.keys, List.append_assoc] using this
    | drop =>
      simp only [hu]
      have hnd2 : (Table.keys (d ++ r)).Nodup := by
        simp only [Table.keys, List.map_append]
        rw [List.nodup_append]
        exact ⟨hd, hkr.2, fun a ha b hb => hdisj a ha b (List.mem_cons_of_mem _ hb)⟩
      have := ih d hnd2
      simpa [Table.keys] using this
    | put e' =>
      simp only [hu]
      have hnd2 : (Table.keys ((d ++ [(k, e')]) ++ r)).Nodup := by
        have : Table.keys ((d ++ [(k, e')]) ++ r) = Table.keys (d ++ (k, e) :: r) := by
          simp [Table.keys]
        rw [this]; exact hnd
      have := ih (d ++ [(k, e')]) hnd2
      simpa [Table.keys, List.append_assoc] using this

/-- **the loop lemma**: running the body over the key snapshot of a duplicate-free table = updating every entry -/
theorem foldl_applyUpd (u : Entry → Upd) (t : Table) (hnd : t.keys.Nodup) :
    List.foldl (applyUpd u) t (Src.keys t) = updAll u t := by
  have := foldl_applyUpd_aux u t [] (by simpa using hnd)
  simpa [src_keys_eq] using this

theorem updAll_filter (P : Entry → Bool) (t : Table) :
    updAll (fun e => if P e = true then .drop else .keep) t = t.filter (fun p => !P p.2) := by
  induction t with
  | nil => simp [updAll]
  | cons p r ih =>
    simp only [updAll] at ih ⊢
    simp only [List.filterMap_cons, List.filter_cons]
    cases h : P p.2 <;> simp [h, ih]

theorem updAll_map (P : Entry → Bool) (g : Entry → Entry) (t : Table) :
    updAll (fun e => if P e = true then .put (g e) else .keep) t = t.map (fun p => (p.1, if P p.2 = true then g p.2 else p.2)) := by
  induction t with
  | nil => simp [updAll]
  | cons p r ih =>
    simp only [updAll] at ih ⊢
    simp only [List.filterMap_cons, List.map_cons]
    cases h : P p.2 <;> simp [h, ih]

end Pyro.Streams
