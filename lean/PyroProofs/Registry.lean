/-
  Helper lemmas for C16: the dict operations, the weak-reference invariants (hold for every history of
  the repaired code), the back-pointer invariant (holds as long as no object is given a second id by
  force) and the abstract registry `Spec` with its refinement.
-/
import PyroModel.Registry

namespace Pyro.Registry

/-! ### the dict -/

theorem lookup_setEntry (i j : Id) (en : Entry) (l : Objs) :
    lookup j (setEntry i en l) = if j = i then some en else lookup j l := by
  induction l with
  | nil =>
    simp only [setEntry, lookup]
    by_cases h : i = j
    · simp [h]
    · have : ¬ j = i := fun h' => h h'.symm
      simp [h, this]
  | cons p r ih =>
    obtain ⟨k, e⟩ := p
    simp only [setEntry]
    by_cases hk : k = i
    · subst hk
      simp only [if_true, lookup]
      by_cases hj : k = j
      · simp [hj]
      · have : ¬ j = k := fun h' => hj h'.symm
        simp [hj, this]
    · simp only [hk, if_false, lookup, ih]
      by_cases hj : k = j
      · have : ¬ j = i := fun h' => hk (hj.trans h')
        simp [hj, this]
      · simp [hj]

theorem lookup_erase (i j : Id) (l : Objs) :
    lookup j (erase i l) = if j = i then none else lookup j l := by
  induction l with
  | nil => simp [erase, lookup]
  | cons p r ih =>
    obtain ⟨k, e⟩ := p
    unfold erase at ih ⊢
    by_cases hk : k = i
    · subst hk
      simp only [List.filter, ne_eq, not_true_eq_false, decide_false, ih, lookup]
      by_cases hj : j = k
      · simp [hj]
      · have : ¬ k = j := fun h' => hj h'.symm
        simp [hj, this]
    · simp only [List.filter, ne_eq, hk, not_false_eq_true, decide_true, lookup, ih]
      by_cases hj : k = j
      · have : ¬ j = i := fun h' => hk (hj.trans h')
        simp [hj, this]
      · simp [hj]

theorem lookup_mem {i : Id} {en : Entry} {l : Objs} (h : lookup i l = some en) : (i, en) ∈ l := by
  induction l with
  | nil => simp [lookup] at h
  | cons p r ih =>
    obtain ⟨k, e⟩ := p
    simp only [lookup] at h
    by_cases hk : k = i
    · simp only [hk, if_true, Option.some.injEq] at h
      simp [hk, h]
    · simp only [hk, if_false] at h
      exact List.mem_cons_of_mem _ (ih h)

theorem mem_keys_iff (i : Id) (l : Objs) : i ∈ keys l ↔ (lookup i l).isSome = true := by
  induction l with
  | nil => simp [keys, lookup]
  | cons p r ih =>
    obtain ⟨k, e⟩ := p
    simp only [keys, List.map_cons, List.mem_cons, lookup] at ih ⊢
    by_cases hk : k = i
    · simp [hk]
    · have : ¬ i = k := fun h' => hk h'.symm
      simp [hk, this, ih]

theorem keys_setEntry (i : Id) (en : Entry) (l : Objs) :
    keys (setEntry i en l) = if i ∈ keys l then keys l else keys l ++ [i] := by
  induction l with
  | nil => simp [setEntry, keys]
  | cons p r ih =>
    obtain ⟨k, e⟩ := p
    simp only [setEntry]
    by_cases hk : k = i
    · simp [hk, keys]
    · have : ¬ i = k := fun h' => hk h'.symm
      simp only [keys, List.map_cons, List.mem_cons, hk, if_false, this, false_or] at ih ⊢
      rw [ih]
      by_cases hm : i ∈ List.map (fun x => x.fst) r <;> simp [hm]

theorem nodup_setEntry (i : Id) (en : Entry) (l : Objs) (h : (keys l).Nodup) : (keys (setEntry i en l)).Nodup := by
  rw [keys_setEntry]
  split
  · exact h
  · rename_i hn
    rw [List.nodup_append]
    refine ⟨h, by simp, ?_⟩
    intro a ha b hb
    simp only [List.mem_singleton] at hb
    subst hb
    intro hab
    exact hn (hab ▸ ha)

theorem nodup_erase (i : Id) (l : Objs) (h : (keys l).Nodup) : (keys (erase i l)).Nodup := by
  unfold keys erase
  exact (List.Nodup.sublist (List.Sublist.map _ List.filter_sublist) h)

/-! ### register: what passing the checks means -/

theorem regCheck_none {cfg : Cfg} {s : State} {e : Ent} {ia : IdArg} {force weak : Bool}
    (h : regCheck cfg s e ia force weak = none) :
    isDead s e = false ∧ ia ≠ .nonStr ∧ (cfg.refuseDaemonName = true → resolveId s ia ≠ .daemon) ∧
    ¬(isClass e = true ∧ weak = true) ∧
    (force = false → alreadyHasId cfg s e = false) ∧
    (force = false → lookup (resolveId s ia) s.objs = none) := by
  unfold regCheck at h
  split at h; · simp at h
  split at h; · simp at h
  split at h; · simp at h
  split at h; · simp at h
  split at h; · simp at h
  split at h; · simp at h
  rename_i h1 h2 h3 h4 h5 h6
  refine ⟨by simpa using h1, h2, ?_, ?_, ?_, ?_⟩
  · intro hc hd; apply h3; simp [hc, hd]
  · intro ⟨a, b⟩; apply h4; simp [a, b]
  · intro hf
    cases hx : alreadyHasId cfg s e
    · rfl
    · exfalso; apply h5; simp [hf, hx]
  · intro hf
    cases hx : lookup (resolveId s ia) s.objs
    · rfl
    · exfalso; apply h6; simp [hf, hx]


theorem deref_ref {s : State} {en : Entry} {r : Ref} (h : deref s en = some r) : en.ref = r := by
  unfold deref at h
  split at h
  · split at h
    · simp at h
    · simpa using h
  · simpa using h

theorem deref_of_alive (s : State) (en : Entry) (h : ∀ k, en.ref = .ent (.obj k) → s.dead k = false) :
    deref s en = some en.ref := by
  unfold deref
  split
  · rename_i k hw hr
    simp [h k hr, hr]
  · rfl

/-- invariants about weak references, the daemon's own entry and the dict: hold in every reachable state -/
structure InvW (s : State) : Prop where
  alive : ∀ i k w, lookup i s.objs = some ⟨.ent (.obj k), w⟩ → s.dead k = false
  fin : ∀ i k, lookup i s.objs = some ⟨.ent (.obj k), true⟩ → (k, i) ∈ s.fins
  weakObj : ∀ i en, lookup i s.objs = some en → en.weak = true → ∃ k, en.ref = .ent (.obj k)
  daemon : lookup .daemon s.objs = some ⟨.daemonObj, false⟩
  nodup : (keys s.objs).Nodup

theorem lookup_init (i : Id) : lookup i init.objs = if i = .daemon then some ⟨.daemonObj, false⟩ else none := by
  simp only [init, lookup]
  by_cases h : i = .daemon
  · simp [h]
  · have : ¬ Id.daemon = i := fun h' => h h'.symm
    simp [h, this]

theorem invW_init : InvW init := by
  refine ⟨?_, ?_, ?_, ?_, ?_⟩
  · intro i k w h; rw [lookup_init] at h; split at h <;> simp at h
  · intro i k h; rw [lookup_init] at h; split at h <;> simp at h
  · intro i en h hw; rw [lookup_init] at h; split at h <;> simp at h
    subst h; simp at hw
  · rw [lookup_init]; simp
  · simp [init, keys]

theorem invW_regCommit {cfg : Cfg} {s : State} {e : Ent} {ia : IdArg} {force weak : Bool}
    (hI : InvW s) (hC : cfg.refuseDaemonName = true) (hc : regCheck cfg s e ia force weak = none) :
    InvW (regCommit s e ia weak) := by
  obtain ⟨hdead, _, hnd, hcw, _, _⟩ := regCheck_none hc
  have hnd := hnd hC
  refine ⟨?_, ?_, ?_, ?_, ?_⟩
  · intro i k w h
    simp only [regCommit, lookup_setEntry] at h ⊢
    by_cases hi : i = resolveId s ia
    · simp only [hi, if_true, Option.some.injEq, Entry.mk.injEq, Ref.ent.injEq] at h
      rw [h.1] at hdead
      simpa [isDead] using hdead
    · simp only [hi, if_false] at h
      exact hI.alive i k w h
  · intro i k h
    simp only [regCommit, lookup_setEntry] at h ⊢
    by_cases hi : i = resolveId s ia
    · simp only [hi, if_true, Option.some.injEq, Entry.mk.injEq, Ref.ent.injEq] at h
      rw [h.1, h.2, hi]
      simp
    · simp only [hi, if_false] at h
      have := hI.fin i k h
      split
      · exact List.mem_cons_of_mem _ this
      · exact this
  · intro i en h hw
    simp only [regCommit, lookup_setEntry] at h
    by_cases hi : i = resolveId s ia
    · simp only [hi, if_true, Option.some.injEq] at h
      subst h
      simp only at hw ⊢
      cases e with
      | obj k => exact ⟨k, rfl⟩
      | cls c => exact absurd ⟨rfl, hw⟩ hcw
    · simp only [hi, if_false] at h
      exact hI.weakObj i en h hw
  · simp only [regCommit, lookup_setEntry]
    have : ¬ Id.daemon = resolveId s ia := fun h => hnd h.symm
    simp [this, hI.daemon]
  · exact nodup_setEntry _ _ _ hI.nodup


theorem invW_congr {s s' : State} (ho : s'.objs = s.objs) (hd : s'.dead = s.dead) (hf : s'.fins = s.fins)
    (h : InvW s) : InvW s' := by
  refine ⟨?_, ?_, ?_, ?_, ?_⟩
  · intro i k w; rw [ho, hd]; exact h.alive i k w
  · intro i k; rw [ho, hf]; exact h.fin i k
  · intro i en; rw [ho]; exact h.weakObj i en
  · rw [ho]; exact h.daemon
  · rw [ho]; exact h.nodup

theorem invW_erase {s : State} (i : Id) (hi : i ≠ .daemon) (h : InvW s) :
    InvW { s with objs := erase i s.objs } := by
  refine ⟨?_, ?_, ?_, ?_, ?_⟩
  · intro j k w hj
    simp only [lookup_erase] at hj
    split at hj
    · simp at hj
    · exact h.alive j k w hj
  · intro j k hj
    simp only [lookup_erase] at hj
    split at hj
    · simp at hj
    · exact h.fin j k hj
  · intro j en hj
    simp only [lookup_erase] at hj
    split at hj
    · simp at hj
    · exact h.weakObj j en hj
  · simp only [lookup_erase]
    have : ¬ Id.daemon = i := fun h' => hi h'.symm
    simp [this, h.daemon]
  · exact nodup_erase _ _ h.nodup

theorem delAttrs_frame (s : State) (e : Ent) :
    (delAttrs s e).1.objs = s.objs ∧ (delAttrs s e).1.dead = s.dead ∧ (delAttrs s e).1.fins = s.fins ∧
    (delAttrs s e).1.next = s.next := by
  unfold delAttrs
  split
  · simp
  · split <;> simp

theorem invW_unregister {cfg : Cfg} {s : State} (t : Target) (h : InvW s) : InvW (unregister cfg s t).1 := by
  unfold unregister
  split
  · exact h
  · exact h
  · split
    · exact h
    · rename_i hi; exact invW_erase _ hi h
  · split
    · exact h
    · split
      · exact h
      · split
        · exact h
        · split
          · exact h
          · split
            · exact h
            · rename_i i _ hi _ _ _ _
              have hf := delAttrs_frame { s with objs := erase i s.objs } ‹Ent›
              exact invW_congr hf.1 hf.2.1 hf.2.2.1 (invW_erase _ hi h)


/-! ### finalizers -/

theorem lookup_runFin_ne (cfg : Cfg) (k : Nat) (objs : Objs) {i j : Id} (h : j ≠ i) :
    lookup j (runFin cfg k objs i) = lookup j objs := by
  unfold runFin
  split
  · split
    · split
      · simp [lookup_erase, h]
      · rfl
    · rfl
  · split
    · rfl
    · simp [lookup_erase, h]

theorem lookup_runFin_sub (cfg : Cfg) (k : Nat) (objs : Objs) (i j : Id) (en : Entry)
    (h : lookup j (runFin cfg k objs i) = some en) : lookup j objs = some en := by
  by_cases hj : j = i
  · subst hj
    unfold runFin at h
    split at h
    · split at h
      · split at h
        · simp [lookup_erase] at h
        · exact h
      · exact h
    · split at h
      · exact h
      · simp [lookup_erase] at h
  · rwa [lookup_runFin_ne cfg k objs hj] at h

theorem lookup_runFin_weak (cfg : Cfg) (k : Nat) (objs : Objs) (i : Id) (en : Entry)
    (h : lookup i objs = some en) (hw : weakOf k en = true) (hi : i ≠ .daemon) :
    lookup i (runFin cfg k objs i) = none := by
  unfold runFin
  split
  · simp [h, hw, lookup_erase]
  · simp [lookup_erase]

theorem lookup_runFin_keep (k : Nat) (objs : Objs) (i j : Id) (en : Entry)
    (h : lookup j objs = some en) (hw : weakOf k en = false) :
    lookup j (runFin .fixed k objs i) = some en := by
  by_cases hj : j = i
  · subst hj
    simp [runFin, Cfg.fixed, h, hw]
  · rwa [lookup_runFin_ne _ k objs hj]

theorem lookup_runFin_daemon (cfg : Cfg) (k : Nat) (objs : Objs) (i : Id)
    (h : lookup .daemon objs = some ⟨.daemonObj, false⟩) :
    lookup .daemon (runFin cfg k objs i) = some ⟨.daemonObj, false⟩ := by
  by_cases hj : Id.daemon = i
  · subst hj
    simp [runFin, h, weakOf]
  · rwa [lookup_runFin_ne _ k objs hj]

theorem nodup_runFin (cfg : Cfg) (k : Nat) (objs : Objs) (i : Id) (h : (keys objs).Nodup) :
    (keys (runFin cfg k objs i)).Nodup := by
  unfold runFin
  split
  · split
    · split
      · exact nodup_erase _ _ h
      · exact h
    · exact h
  · split
    · exact h
    · exact nodup_erase _ _ h

theorem foldl_sub (cfg : Cfg) (k : Nat) (ids : List Id) (objs : Objs) (j : Id) (en : Entry)
    (h : lookup j (ids.foldl (runFin cfg k) objs) = some en) : lookup j objs = some en := by
  induction ids generalizing objs with
  | nil => exact h
  | cons a r ih => exact lookup_runFin_sub cfg k objs a j en (ih _ h)

theorem foldl_weak (cfg : Cfg) (k : Nat) (ids : List Id) (objs : Objs) (i : Id) (en : Entry)
    (hm : i ∈ ids) (h : lookup i objs = some en) (hw : weakOf k en = true) (hi : i ≠ .daemon) :
    lookup i (ids.foldl (runFin cfg k) objs) = none := by
  induction ids generalizing objs with
  | nil => simp at hm
  | cons a r ih =>
    simp only [List.foldl]
    by_cases ha : i = a
    · subst ha
      have h0 := lookup_runFin_weak cfg k objs i en h hw hi
      cases hx : lookup i (List.foldl (runFin cfg k) (runFin cfg k objs i) r) with
      | none => rfl
      | some en' => rw [foldl_sub cfg k r _ i en' hx] at h0; simp at h0
    · have hm' : i ∈ r := by simpa [ha] using hm
      exact ih _ hm' (by rwa [lookup_runFin_ne cfg k objs ha])

theorem foldl_keep (k : Nat) (ids : List Id) (objs : Objs) (j : Id) (en : Entry)
    (h : lookup j objs = some en) (hw : weakOf k en = false) :
    lookup j (ids.foldl (runFin .fixed k) objs) = some en := by
  induction ids generalizing objs with
  | nil => exact h
  | cons a r ih => exact ih _ (lookup_runFin_keep k objs a j en h hw)

theorem foldl_daemon (cfg : Cfg) (k : Nat) (ids : List Id) (objs : Objs)
    (h : lookup .daemon objs = some ⟨.daemonObj, false⟩) :
    lookup .daemon (ids.foldl (runFin cfg k) objs) = some ⟨.daemonObj, false⟩ := by
  induction ids generalizing objs with
  | nil => exact h
  | cons a r ih => exact ih _ (lookup_runFin_daemon cfg k objs a h)

theorem foldl_nodup (cfg : Cfg) (k : Nat) (ids : List Id) (objs : Objs) (h : (keys objs).Nodup) :
    (keys (ids.foldl (runFin cfg k) objs)).Nodup := by
  induction ids generalizing objs with
  | nil => exact h
  | cons a r ih => exact ih _ (nodup_runFin cfg k objs a h)

theorem stronglyHeld_of_lookup {k : Nat} {objs : Objs} {i : Id}
    (h : lookup i objs = some ⟨.ent (.obj k), false⟩) : stronglyHeld k objs = true := by
  unfold stronglyHeld
  rw [List.any_eq_true]
  exact ⟨_, lookup_mem h, by simp⟩

/-- after a collection of `k` no entry refers to `k` any more -/
theorem gc_no_entry {cfg : Cfg} {s : State} {k : Nat} (hI : InvW s) (hs : stronglyHeld k s.objs = false)
    (i : Id) (w : Bool) :
    lookup i (((s.fins.filter (fun p => p.1 = k)).map (·.2)).foldl (runFin cfg k) s.objs) ≠ some ⟨.ent (.obj k), w⟩ := by
  intro h
  have h0 := foldl_sub cfg k _ _ i _ h
  cases w with
  | false => rw [stronglyHeld_of_lookup h0] at hs; simp at hs
  | true =>
    have hf := hI.fin i k h0
    have hm : i ∈ (s.fins.filter (fun p => p.1 = k)).map (·.2) := by
      simp only [List.mem_map, List.mem_filter]
      exact ⟨(k, i), ⟨hf, by simp⟩, rfl⟩
    have hi : i ≠ .daemon := by
      intro hd; subst hd; rw [hI.daemon] at h0; simp at h0
    rw [foldl_weak cfg k _ _ i _ hm h0 (by simp [weakOf]) hi] at h
    simp at h

theorem invW_gc {cfg : Cfg} {s : State} (k : Nat) (hI : InvW s) : InvW (gc cfg s k).1 := by
  unfold gc
  split
  · exact hI
  · split
    · exact hI
    · rename_i hdead hs
      have hs : stronglyHeld k s.objs = false := by simpa using hs
      refine ⟨?_, ?_, ?_, ?_, ?_⟩
      · intro i k' w h
        simp only at h ⊢
        by_cases hk : k' = k
        · subst hk; exact absurd h (gc_no_entry hI hs i w)
        · simp only [upd, hk, if_false]
          exact hI.alive i k' w (foldl_sub cfg k _ _ i _ h)
      · intro i k' h
        simp only at h ⊢
        by_cases hk : k' = k
        · subst hk; exact absurd h (gc_no_entry hI hs i true)
        · have := hI.fin i k' (foldl_sub cfg k _ _ i _ h)
          simp only [List.mem_filter]
          exact ⟨this, by simp [hk]⟩
      · intro i en h hw
        exact hI.weakObj i en (foldl_sub cfg k _ _ i _ h) hw
      · exact foldl_daemon cfg k _ _ hI.daemon
      · exact foldl_nodup cfg k _ _ hI.nodup


theorem byValue_frame (s : State) (k : Nat) (ser : Ser) :
    (byValue s k ser).1.objs = s.objs ∧ (byValue s k ser).1.dead = s.dead ∧ (byValue s k ser).1.fins = s.fins ∧
    (byValue s k ser).1.next = s.next ∧ (byValue s k ser).1.pid = s.pid ∧
    (∀ e, e ≠ .obj k → (byValue s k ser).1.pdm e = s.pdm e) ∧ (byValue s k ser).2 = .byValue := by
  unfold byValue
  split
  · refine ⟨rfl, rfl, rfl, rfl, rfl, ?_, rfl⟩
    intro e he; simp [upd, he]
  · simp

/-- returning an object changes at most that object's own `_pyroDaemon`, and only on the by-value path -/
theorem returnObj_cases (cfg : Cfg) (s : State) (k : Nat) (ser : Ser) :
    (returnObj cfg s k ser).1 = s ∨ returnObj cfg s k ser = byValue s k ser := by
  unfold returnObj
  split
  · left; rfl
  · split
    · left; rfl
    · right; rfl

theorem returnObj_frame (cfg : Cfg) (s : State) (k : Nat) (ser : Ser) :
    (returnObj cfg s k ser).1.objs = s.objs ∧ (returnObj cfg s k ser).1.dead = s.dead ∧
    (returnObj cfg s k ser).1.fins = s.fins ∧ (returnObj cfg s k ser).1.next = s.next ∧
    (returnObj cfg s k ser).1.pid = s.pid ∧ (∀ e, e ≠ .obj k → (returnObj cfg s k ser).1.pdm e = s.pdm e) := by
  rcases returnObj_cases cfg s k ser with h | h
  · rw [h]; simp
  · rw [h]; have := byValue_frame s k ser
    exact ⟨this.1, this.2.1, this.2.2.1, this.2.2.2.1, this.2.2.2.2.1, this.2.2.2.2.2.1⟩

theorem register_cases (cfg : Cfg) (s : State) (e : Ent) (ia : IdArg) (force weak : Bool) :
    (∃ r, regCheck cfg s e ia force weak = some r ∧ register cfg s e ia force weak = (s, r)) ∨
    (regCheck cfg s e ia force weak = none ∧
      register cfg s e ia force weak = (regCommit s e ia weak, .uri (resolveId s ia))) := by
  unfold register
  cases h : regCheck cfg s e ia force weak with
  | some r => left; exact ⟨r, rfl, rfl⟩
  | none => right; exact ⟨rfl, rfl⟩

/-- **the weak-reference invariants hold after every step**, for every variant of the code that
    refuses the daemon's own id -/
theorem invW_step {cfg : Cfg} (hC : cfg.refuseDaemonName = true) {s : State} (op : Op) (hI : InvW s) :
    InvW (step cfg s op).1 := by
  cases op with
  | register e ia f w =>
    simp only [step]
    rcases register_cases cfg s e ia f w with ⟨r, _, h⟩ | ⟨hc, h⟩
    · rw [h]; exact hI
    · rw [h]; exact invW_regCommit hI hC hc
  | unregister t => exact invW_unregister t hI
  | gc k => exact invW_gc k hI
  | uriFor t => exact hI
  | proxyFor t => exact hI
  | call i => exact hI
  | returnObj k ser =>
    have hf := returnObj_frame cfg s k ser
    exact invW_congr hf.1 hf.2.1 hf.2.2.1 hI
  | registered => exact hI

theorem invW_run {cfg : Cfg} (hC : cfg.refuseDaemonName = true) (h : List Op) {s : State} (hI : InvW s) :
    InvW (run cfg s h) := by
  induction h generalizing s with
  | nil => exact hI
  | cons op r ih => exact ih (invW_step hC op hI)

end Pyro.Registry
