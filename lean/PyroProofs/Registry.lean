/-
  Helper lemmas for C16: the dict operations, the weak-reference invariants (hold for every history of
  the repaired code), the back-pointer invariant (holds as long as no object is given a second id by
  force) and the abstract registry `Spec` with its refinement.
-/
import PyroModel.Registry

namespace Pyro.Registry

/-! ### the dict -/

theorem lookup_setEntry (i j : Id) (en : Entry) (l : Objs) :
    lookup j (setEntry i en l) = if j = i then some en else lookup j l := by
  induction l with
  | nil =>
    simp only [setEntry, lookup]
    by_cases h : i = j
    · simp [h]
    · have : ¬ j = i := fun h' => h h'.symm
      simp [h, this]
  | cons p r ih =>
    obtain ⟨k, e⟩ := p
    simp only [setEntry]
    by_cases hk : k = i
    · subst hk
      simp only [if_true, lookup]
      by_cases hj : k = j
      · simp [hj]
      · have : ¬ j = k := fun h' => hj h'.symm
        simp [hj, this]
    · simp only [hk, if_false, lookup, ih]
      by_cases hj : k = j
      · have : ¬ j = i := fun h' => hk (hj.trans h')
        simp [hj, this]
      · simp [hj]

theorem lookup_erase (i j : Id) (l : Objs) :
    lookup j (erase i l) = if j = i then none else lookup j l := by
  induction l with
  | nil => simp [erase, lookup]
  | cons p r ih =>
    obtain ⟨k, e⟩ := p
    unfold erase at ih ⊢
    by_cases hk : k = i
    · subst hk
      simp only [List.filter, ne_eq, not_true_eq_false, decide_false, ih, lookup]
      by_cases hj : j = k
      · simp [hj]
      · have : ¬ k = j := fun h' => hj h'.symm
        simp [hj, this]
    · simp only [List.filter, ne_eq, hk, not_false_eq_true, decide_true, lookup, ih]
      by_cases hj : k = j
      · have : ¬ j = i := fun h' => hk (hj.trans h')
        simp [hj, this]
      · simp [hj]

theorem lookup_mem {i : Id} {en : Entry} {l : Objs} (h : lookup i l = some en) : (i, en) ∈ l := by
  induction l with
  | nil => simp [lookup] at h
  | cons p r ih =>
    obtain ⟨k, e⟩ := p
    simp only [lookup] at h
    by_cases hk : k = i
    · simp only [hk, if_true, Option.some.injEq] at h
      simp [hk, h]
    · simp only [hk, if_false] at h
      exact List.mem_cons_of_mem _ (ih h)

theorem mem_keys_iff (i : Id) (l : Objs) : i ∈ keys l ↔ (lookup i l).isSome = true := by
  induction l with
  | nil => simp [keys, lookup]
  | cons p r ih =>
    obtain ⟨k, e⟩ := p
    simp only [keys, List.map_cons, List.mem_cons, lookup] at ih ⊢
    by_cases hk : k = i
    · simp [hk]
    · have : ¬ i = k := fun h' => hk h'.symm
      simp [hk, this, ih]

theorem keys_setEntry (i : Id) (en : Entry) (l : Objs) :
    keys (setEntry i en l) = if i ∈ keys l then keys l else keys l ++ [i] := by
  induction l with
  | nil => simp [setEntry, keys]
  | cons p r ih =>
    obtain ⟨k, e⟩ := p
    simp only [setEntry]
    by_cases hk : k = i
    · simp [hk, keys]
    · have : ¬ i = k := fun h' => hk h'.symm
      simp only [keys, List.map_cons, List.mem_cons, hk, if_false, this, false_or] at ih ⊢
      rw [ih]
      by_cases hm : i ∈ List.map (fun x => x.fst) r <;> simp [hm]

theorem nodup_setEntry (i : Id) (en : Entry) (l : Objs) (h : (keys l).Nodup) : (keys (setEntry i en l)).Nodup := by
  rw [keys_setEntry]
  split
  · exact h
  · rename_i hn
    rw [List.nodup_append]
    refine ⟨h, by simp, ?_⟩
    intro a ha b hb
    simp only [List.mem_singleton] at hb
    subst hb
    intro hab
    exact hn (hab ▸ ha)

theorem nodup_erase (i : Id) (l : Objs) (h : (keys l).Nodup) : (keys (erase i l)).Nodup := by
  unfold keys erase
  exact (List.Nodup.sublist (List.Sublist.map _ List.filter_sublist) h)

/-! ### register: what passing the checks means -/

theorem regCheck_none {cfg : Cfg} {s : State} {e : Ent} {ia : IdArg} {force weak : Bool}
    (h : regCheck cfg s e ia force weak = none) :
    isDead s e = false ∧ ia ≠ .nonStr ∧ (cfg.refuseDaemonName = true → resolveId s ia ≠ .daemon) ∧
    ¬(isClass e = true ∧ weak = true) ∧
    (force = false → alreadyHasId cfg s e = false) ∧
    (force = false → lookup (resolveId s ia) s.objs = none) ∧ canSet e = true := by
  unfold regCheck at h
  split at h; · simp at h
  split at h; · simp at h
  split at h; · simp at h
  split at h; · simp at h
  split at h; · simp at h
  split at h; · simp at h
  split at h; · simp at h
  rename_i h1 h2 h3 h4 h5 h6 h7
  refine ⟨by simpa using h1, h2, ?_, ?_, ?_, ?_, by simpa using h7⟩
  · intro hc hd; apply h3; simp [hc, hd]
  · intro ⟨a, b⟩; apply h4; simp [a, b]
  · intro hf
    cases hx : alreadyHasId cfg s e
    · rfl
    · exfalso; apply h5; simp [hf, hx]
  · intro hf
    cases hx : lookup (resolveId s ia) s.objs
    · rfl
    · exfalso; apply h6; simp [hf, hx]


theorem deref_ref {s : State} {en : Entry} {r : Ref} (h : deref s en = some r) : en.ref = r := by
  unfold deref at h
  split at h
  · split at h
    · simp at h
    · simpa using h
  · simpa using h

theorem deref_of_alive (s : State) (en : Entry) (h : ∀ k, en.ref = .ent (.obj k) → s.dead k = false) :
    deref s en = some en.ref := by
  unfold deref
  split
  · rename_i k hw hr
    simp [h k hr, hr]
  · rfl

/-- invariants about weak references, the daemon's own entry and the dict: hold in every reachable state -/
structure InvW (s : State) : Prop where
  alive : ∀ i k w, lookup i s.objs = some ⟨.ent (.obj k), w⟩ → s.dead k = false
  fin : ∀ i k, lookup i s.objs = some ⟨.ent (.obj k), true⟩ → (k, i) ∈ s.fins
  weakObj : ∀ i en, lookup i s.objs = some en → en.weak = true → ∃ k, en.ref = .ent (.obj k)
  daemon : lookup .daemon s.objs = some ⟨.daemonObj, false⟩
  nodup : (keys s.objs).Nodup

theorem lookup_init (i : Id) : lookup i init.objs = if i = .daemon then some ⟨.daemonObj, false⟩ else none := by
  simp only [init, lookup]
  by_cases h : i = .daemon
  · simp [h]
  · have : ¬ Id.daemon = i := fun h' => h h'.symm
    simp [h, this]

theorem invW_init : InvW init := by
  refine ⟨?_, ?_, ?_, ?_, ?_⟩
  · intro i k w h; rw [lookup_init] at h; split at h <;> simp at h
  · intro i k h; rw [lookup_init] at h; split at h <;> simp at h
  · intro i en h hw; rw [lookup_init] at h; split at h <;> simp at h
    subst h; simp at hw
  · rw [lookup_init]; simp
  · simp [init, keys]

theorem invW_regCommit {cfg : Cfg} {s : State} {e : Ent} {ia : IdArg} {force weak : Bool}
    (hI : InvW s) (hC : cfg.refuseDaemonName = true) (hc : regCheck cfg s e ia force weak = none) :
    InvW (regCommit s e ia weak) := by
  obtain ⟨hdead, _, hnd, hcw, _, _, _⟩ := regCheck_none hc
  have hnd := hnd hC
  refine ⟨?_, ?_, ?_, ?_, ?_⟩
  · intro i k w h
    simp only [regCommit, lookup_setEntry] at h ⊢
    by_cases hi : i = resolveId s ia
    · simp only [hi, if_true, Option.some.injEq, Entry.mk.injEq, Ref.ent.injEq] at h
      rw [h.1] at hdead
      simpa [isDead] using hdead
    · simp only [hi, if_false] at h
      exact hI.alive i k w h
  · intro i k h
    simp only [regCommit, lookup_setEntry] at h ⊢
    by_cases hi : i = resolveId s ia
    · simp only [hi, if_true, Option.some.injEq, Entry.mk.injEq, Ref.ent.injEq] at h
      rw [h.1, h.2, hi]
      simp
    · simp only [hi, if_false] at h
      have := hI.fin i k h
      split
      · exact List.mem_cons_of_mem _ this
      · exact this
  · intro i en h hw
    simp only [regCommit, lookup_setEntry] at h
    by_cases hi : i = resolveId s ia
    · simp only [hi, if_true, Option.some.injEq] at h
      subst h
      simp only at hw ⊢
      cases e with
      | obj k => exact ⟨k, rfl⟩
      | cls c => exact absurd ⟨rfl, hw⟩ hcw
    · simp only [hi, if_false] at h
      exact hI.weakObj i en h hw
  · simp only [regCommit, lookup_setEntry]
    have : ¬ Id.daemon = resolveId s ia := fun h => hnd h.symm
    simp [this, hI.daemon]
  · exact nodup_setEntry _ _ _ hI.nodup


theorem invW_congr {s s' : State} (ho : s'.objs = s.objs) (hd : s'.dead = s.dead) (hf : s'.fins = s.fins)
    (h : InvW s) : InvW s' := by
  refine ⟨?_, ?_, ?_, ?_, ?_⟩
  · intro i k w; rw [ho, hd]; exact h.alive i k w
  · intro i k; rw [ho, hf]; exact h.fin i k
  · intro i en; rw [ho]; exact h.weakObj i en
  · rw [ho]; exact h.daemon
  · rw [ho]; exact h.nodup

theorem invW_erase {s : State} (i : Id) (hi : i ≠ .daemon) (h : InvW s) :
    InvW { s with objs := erase i s.objs } := by
  refine ⟨?_, ?_, ?_, ?_, ?_⟩
  · intro j k w hj
    simp only [lookup_erase] at hj
    split at hj
    · simp at hj
    · exact h.alive j k w hj
  · intro j k hj
    simp only [lookup_erase] at hj
    split at hj
    · simp at hj
    · exact h.fin j k hj
  · intro j en hj
    simp only [lookup_erase] at hj
    split at hj
    · simp at hj
    · exact h.weakObj j en hj
  · simp only [lookup_erase]
    have : ¬ Id.daemon = i := fun h' => hi h'.symm
    simp [this, h.daemon]
  · exact nodup_erase _ _ h.nodup

theorem delAttrs_frame (s : State) (e : Ent) :
    (delAttrs s e).1.objs = s.objs ∧ (delAttrs s e).1.dead = s.dead ∧ (delAttrs s e).1.fins = s.fins ∧
    (delAttrs s e).1.next = s.next := by
  unfold delAttrs
  split
  · simp
  · split <;> simp

theorem invW_unregister {cfg : Cfg} {s : State} (t : Target) (h : InvW s) : InvW (unregister cfg s t).1 := by
  unfold unregister
  split
  · exact h
  · exact h
  · exact h
  · split
    · exact h
    · rename_i hi; exact invW_erase _ hi h
  · split
    · exact h
    · split
      · exact h
      · split
        · exact h
        · split
          · exact h
          · split
            · exact h
            · rename_i i _ hi _ _ _ _
              have hf := delAttrs_frame { s with objs := erase i s.objs } ‹Ent›
              exact invW_congr hf.1 hf.2.1 hf.2.2.1 (invW_erase _ hi h)


/-! ### finalizers -/

theorem lookup_runFin_ne (cfg : Cfg) (k : Nat) (objs : Objs) {i j : Id} (h : j ≠ i) :
    lookup j (runFin cfg k objs i) = lookup j objs := by
  unfold runFin
  split
  · split
    · split
      · simp [lookup_erase, h]
      · rfl
    · rfl
  · split
    · rfl
    · simp [lookup_erase, h]

theorem lookup_runFin_sub (cfg : Cfg) (k : Nat) (objs : Objs) (i j : Id) (en : Entry)
    (h : lookup j (runFin cfg k objs i) = some en) : lookup j objs = some en := by
  by_cases hj : j = i
  · subst hj
    unfold runFin at h
    split at h
    · split at h
      · split at h
        · simp [lookup_erase] at h
        · exact h
      · exact h
    · split at h
      · exact h
      · simp [lookup_erase] at h
  · rwa [lookup_runFin_ne cfg k objs hj] at h

theorem lookup_runFin_weak (cfg : Cfg) (k : Nat) (objs : Objs) (i : Id) (en : Entry)
    (h : lookup i objs = some en) (hw : weakOf k en = true) (hi : i ≠ .daemon) :
    lookup i (runFin cfg k objs i) = none := by
  unfold runFin
  split
  · simp [h, hw, lookup_erase]
  · simp [lookup_erase]

theorem lookup_runFin_keep (k : Nat) (objs : Objs) (i j : Id) (en : Entry)
    (h : lookup j objs = some en) (hw : weakOf k en = false) :
    lookup j (runFin .fixed k objs i) = some en := by
  by_cases hj : j = i
  · subst hj
    simp [runFin, Cfg.fixed, h, hw]
  · rwa [lookup_runFin_ne _ k objs hj]

theorem lookup_runFin_daemon (cfg : Cfg) (k : Nat) (objs : Objs) (i : Id)
    (h : lookup .daemon objs = some ⟨.daemonObj, false⟩) :
    lookup .daemon (runFin cfg k objs i) = some ⟨.daemonObj, false⟩ := by
  by_cases hj : Id.daemon = i
  · subst hj
    simp [runFin, h, weakOf]
  · rwa [lookup_runFin_ne _ k objs hj]

theorem nodup_runFin (cfg : Cfg) (k : Nat) (objs : Objs) (i : Id) (h : (keys objs).Nodup) :
    (keys (runFin cfg k objs i)).Nodup := by
  unfold runFin
  split
  · split
    · split
      · exact nodup_erase _ _ h
      · exact h
    · exact h
  · split
    · exact h
    · exact nodup_erase _ _ h

theorem foldl_sub (cfg : Cfg) (k : Nat) (ids : List Id) (objs : Objs) (j : Id) (en : Entry)
    (h : lookup j (ids.foldl (runFin cfg k) objs) = some en) : lookup j objs = some en := by
  induction ids generalizing objs with
  | nil => exact h
  | cons a r ih => exact lookup_runFin_sub cfg k objs a j en (ih _ h)

theorem foldl_weak (cfg : Cfg) (k : Nat) (ids : List Id) (objs : Objs) (i : Id) (en : Entry)
    (hm : i ∈ ids) (h : lookup i objs = some en) (hw : weakOf k en = true) (hi : i ≠ .daemon) :
    lookup i (ids.foldl (runFin cfg k) objs) = none := by
  induction ids generalizing objs with
  | nil => simp at hm
  | cons a r ih =>
    simp only [List.foldl]
    by_cases ha : i = a
    · subst ha
      have h0 := lookup_runFin_weak cfg k objs i en h hw hi
      cases hx : lookup i (List.foldl (runFin cfg k) (runFin cfg k objs i) r) with
      | none => rfl
      | some en' => rw [foldl_sub cfg k r _ i en' hx] at h0; simp at h0
    · have hm' : i ∈ r := by simpa [ha] using hm
      exact ih _ hm' (by rwa [lookup_runFin_ne cfg k objs ha])

theorem foldl_keep (k : Nat) (ids : List Id) (objs : Objs) (j : Id) (en : Entry)
    (h : lookup j objs = some en) (hw : weakOf k en = false) :
    lookup j (ids.foldl (runFin .fixed k) objs) = some en := by
  induction ids generalizing objs with
  | nil => exact h
  | cons a r ih => exact ih _ (lookup_runFin_keep k objs a j en h hw)

theorem foldl_daemon (cfg : Cfg) (k : Nat) (ids : List Id) (objs : Objs)
    (h : lookup .daemon objs = some ⟨.daemonObj, false⟩) :
    lookup .daemon (ids.foldl (runFin cfg k) objs) = some ⟨.daemonObj, false⟩ := by
  induction ids generalizing objs with
  | nil => exact h
  | cons a r ih => exact ih _ (lookup_runFin_daemon cfg k objs a h)

theorem foldl_nodup (cfg : Cfg) (k : Nat) (ids : List Id) (objs : Objs) (h : (keys objs).Nodup) :
    (keys (ids.foldl (runFin cfg k) objs)).Nodup := by
  induction ids generalizing objs with
  | nil => exact h
  | cons a r ih => exact ih _ (nodup_runFin cfg k objs a h)

theorem stronglyHeld_of_lookup {k : Nat} {objs : Objs} {i : Id}
    (h : lookup i objs = some ⟨.ent (.obj k), false⟩) : stronglyHeld k objs = true := by
  unfold stronglyHeld
  rw [List.any_eq_true]
  exact ⟨_, lookup_mem h, by simp⟩

/-- after a collection of `k` no entry refers to `k` any more -/
theorem gc_no_entry {cfg : Cfg} {s : State} {k : Nat} (hI : InvW s) (hs : stronglyHeld k s.objs = false)
    (i : Id) (w : Bool) :
    lookup i (((s.fins.filter (fun p => p.1 = k)).map (·.2)).foldl (runFin cfg k) s.objs) ≠ some ⟨.ent (.obj k), w⟩ := by
  intro h
  have h0 := foldl_sub cfg k _ _ i _ h
  cases w with
  | false => rw [stronglyHeld_of_lookup h0] at hs; simp at hs
  | true =>
    have hf := hI.fin i k h0
    have hm : i ∈ (s.fins.filter (fun p => p.1 = k)).map (·.2) := by
      simp only [List.mem_map, List.mem_filter]
      exact ⟨(k, i), ⟨hf, by simp⟩, rfl⟩
    have hi : i ≠ .daemon := by
      intro hd; subst hd; rw [hI.daemon] at h0; simp at h0
    rw [foldl_weak cfg k _ _ i _ hm h0 (by simp [weakOf]) hi] at h
    simp at h

theorem invW_gc {cfg : Cfg} {s : State} (k : Nat) (hI : InvW s) : InvW (gc cfg s k).1 := by
  unfold gc
  split
  · exact hI
  · split
    · exact hI
    · rename_i hdead hs
      have hs : stronglyHeld k s.objs = false := by simpa using hs
      refine ⟨?_, ?_, ?_, ?_, ?_⟩
      · intro i k' w h
        simp only at h ⊢
        by_cases hk : k' = k
        · subst hk; exact absurd h (gc_no_entry hI hs i w)
        · simp only [upd, hk, if_false]
          exact hI.alive i k' w (foldl_sub cfg k _ _ i _ h)
      · intro i k' h
        simp only at h ⊢
        by_cases hk : k' = k
        · subst hk; exact absurd h (gc_no_entry hI hs i true)
        · have := hI.fin i k' (foldl_sub cfg k _ _ i _ h)
          simp only [List.mem_filter]
          exact ⟨this, by simp [hk]⟩
      · intro i en h hw
        exact hI.weakObj i en (foldl_sub cfg k _ _ i _ h) hw
      · exact foldl_daemon cfg k _ _ hI.daemon
      · exact foldl_nodup cfg k _ _ hI.nodup


theorem byValue_frame (s : State) (k : Nat) (ser : Ser) :
    (byValue s k ser).1.objs = s.objs ∧ (byValue s k ser).1.dead = s.dead ∧ (byValue s k ser).1.fins = s.fins ∧
    (byValue s k ser).1.next = s.next ∧ (byValue s k ser).1.pid = s.pid ∧
    (∀ e, e ≠ .obj k → (byValue s k ser).1.pdm e = s.pdm e) ∧ (byValue s k ser).2 = .byValue := by
  unfold byValue
  split
  · refine ⟨rfl, rfl, rfl, rfl, rfl, ?_, rfl⟩
    intro e he; simp [upd, he]
  · simp

/-- returning an object changes at most that object's own `_pyroDaemon`, and only on the by-value path -/
theorem returnObj_cases (cfg : Cfg) (s : State) (k : Nat) (ser : Ser) :
    (returnObj cfg s k ser).1 = s ∨ returnObj cfg s k ser = byValue s k ser := by
  unfold returnObj
  split
  · left; rfl
  · split
    · left; rfl
    · right; rfl

theorem returnObj_frame (cfg : Cfg) (s : State) (k : Nat) (ser : Ser) :
    (returnObj cfg s k ser).1.objs = s.objs ∧ (returnObj cfg s k ser).1.dead = s.dead ∧
    (returnObj cfg s k ser).1.fins = s.fins ∧ (returnObj cfg s k ser).1.next = s.next ∧
    (returnObj cfg s k ser).1.pid = s.pid ∧ (∀ e, e ≠ .obj k → (returnObj cfg s k ser).1.pdm e = s.pdm e) := by
  rcases returnObj_cases cfg s k ser with h | h
  · rw [h]; simp
  · rw [h]; have := byValue_frame s k ser
    exact ⟨this.1, this.2.1, this.2.2.1, this.2.2.2.1, this.2.2.2.2.1, this.2.2.2.2.2.1⟩

theorem register_cases (cfg : Cfg) (s : State) (e : Ent) (ia : IdArg) (force weak : Bool) :
    (∃ r, regCheck cfg s e ia force weak = some r ∧ register cfg s e ia force weak = (s, r)) ∨
    (regCheck cfg s e ia force weak = none ∧
      register cfg s e ia force weak = (regCommit s e ia weak, .uri (resolveId s ia))) := by
  unfold register
  cases h : regCheck cfg s e ia force weak with
  | some r => left; exact ⟨r, rfl, rfl⟩
  | none => right; exact ⟨rfl, rfl⟩

/-- **the weak-reference invariants hold after every step**, for every variant of the code that
    refuses the daemon's own id -/
theorem invW_step {cfg : Cfg} (hC : cfg.refuseDaemonName = true) {s : State} (op : Op) (hI : InvW s) :
    InvW (step cfg s op).1 := by
  cases op with
  | register e ia f w =>
    simp only [step]
    rcases register_cases cfg s e ia f w with ⟨r, _, h⟩ | ⟨hc, h⟩
    · rw [h]; exact hI
    · rw [h]; exact invW_regCommit hI hC hc
  | unregister t => exact invW_unregister t hI
  | gc k => exact invW_gc k hI
  | uriFor t => exact hI
  | proxyFor t => exact hI
  | call i => exact hI
  | returnObj k ser =>
    have hf := returnObj_frame cfg s k ser
    exact invW_congr hf.1 hf.2.1 hf.2.2.1 hI
  | registered => exact hI

theorem invW_run {cfg : Cfg} (hC : cfg.refuseDaemonName = true) (h : List Op) {s : State} (hI : InvW s) :
    InvW (run cfg s h) := by
  induction h generalizing s with
  | nil => exact hI
  | cons op r ih => exact ih (invW_step hC op hI)


/-! ### the back-pointer invariant -/

/-- every registered pool entity carries the id it is registered under, and this daemon -/
def Back (s : State) : Prop :=
  ∀ i e w, lookup i s.objs = some ⟨.ent e, w⟩ → s.pid e = some i ∧ s.pdm e = .this

/-- the step does not give an already registered object a second id by force -/
def NoAliasOp (s : State) : Op → Prop
  | .register e ia true _ => ∀ j w, lookup j s.objs = some ⟨.ent e, w⟩ → j = resolveId s ia
  | _ => True

theorem back_init : Back init := by
  intro i e w h; rw [lookup_init] at h; split at h <;> simp at h

theorem getId_of_back {s : State} (hB : Back s) {i : Id} {e : Ent} {w : Bool}
    (h : lookup i s.objs = some ⟨.ent e, w⟩) : getId s e = some i := by
  have := (hB i e w h).1
  cases e with
  | obj k => simp [getId, this]
  | cls c => simp [getId, this]

theorem getDm_of_back {s : State} (hB : Back s) {i : Id} {e : Ent} {w : Bool}
    (h : lookup i s.objs = some ⟨.ent e, w⟩) : getDm s e = .this := by
  have := (hB i e w h).2
  cases e with
  | obj k => simp [getDm, this]
  | cls c => simp [getDm, this]

theorem deref_entry {s : State} (hI : InvW s) {i : Id} {en : Entry} (h : lookup i s.objs = some en) :
    deref s en = some en.ref := by
  apply deref_of_alive
  intro k hk
  obtain ⟨r, w⟩ := en
  simp only at hk; subst hk
  exact hI.alive i k w h

theorem alreadyHasId_of_entry {cfg : Cfg} (hB' : cfg.identityUnpacksWeak = true) {s : State} (hI : InvW s) (hB : Back s)
    {i : Id} {e : Ent} {w : Bool} (h : lookup i s.objs = some ⟨.ent e, w⟩) : alreadyHasId cfg s e = true := by
  unfold alreadyHasId
  rw [getId_of_back hB h]
  simp only [entryIs, h, hB']
  have := deref_entry hI h
  cases w <;> simp [this]

theorem back_regCommit {cfg : Cfg} (hB' : cfg.identityUnpacksWeak = true) {s : State} {e : Ent} {ia : IdArg} {force weak : Bool}
    (hI : InvW s) (hB : Back s) (hc : regCheck cfg s e ia force weak = none)
    (hA : NoAliasOp s (.register e ia force weak)) : Back (regCommit s e ia weak) := by
  have hne : ∀ j w, lookup j s.objs = some ⟨.ent e, w⟩ → j = resolveId s ia := by
    cases force with
    | true => exact hA
    | false =>
      intro j w h
      have := (regCheck_none hc).2.2.2.2.1 rfl
      rw [alreadyHasId_of_entry hB' hI hB h] at this
      simp at this
  intro i e' w h
  simp only [regCommit, lookup_setEntry] at h ⊢
  by_cases hi : i = resolveId s ia
  · simp only [hi, if_true, Option.some.injEq, Entry.mk.injEq, Ref.ent.injEq] at h
    rw [← h.1, hi]; simp [upd]
  · simp only [hi, if_false] at h
    have hee : e' ≠ e := by
      intro he; subst he; exact hi (hne i w h)
    simp only [upd, hee, if_false]
    exact hB i e' w h

theorem back_erase {s : State} (i : Id) (hB : Back s) : Back { s with objs := erase i s.objs } := by
  intro j e w h
  simp only [lookup_erase] at h
  split at h
  · simp at h
  · exact hB j e w h

theorem unregister_byObj_cases (cfg : Cfg) (s : State) (e : Ent) :
    (unregister cfg s (.byObj e)).1 = s ∨
    ∃ i en, getId s e = some i ∧ i ≠ .daemon ∧ lookup i s.objs = some en ∧ isDead s e = false ∧
      (cfg.unregChecksOwner = true → deref s en = some (.ent e)) ∧
      unregister cfg s (.byObj e) = delAttrs { s with objs := erase i s.objs } e := by
  by_cases hd : isDead s e = true
  · left; simp [unregister, hd]
  · cases hg : getId s e with
    | none => left; simp [unregister, hd, hg]
    | some i =>
      by_cases hi : i = .daemon
      · left; simp [unregister, hd, hg, hi]
      · cases hl : lookup i s.objs with
        | none => left; simp [unregister, hd, hg, hi, hl]
        | some en =>
          by_cases ho : (cfg.unregChecksOwner && !(deref s en == some (.ent e))) = true
          · left; simp only [unregister, hd, hg, hi, hl, ho]; simp
          · right
            refine ⟨i, en, rfl, hi, hl, by simpa using hd, ?_, ?_⟩
            · intro hD; simpa [hD] using ho
            · simp only [unregister, hd, hg, hi, hl, ho]; simp

theorem back_unregister {cfg : Cfg} {s : State} (t : Target) (hD : cfg.unregChecksOwner = true) (hB : Back s) :
    Back (unregister cfg s t).1 := by
  cases t with
  | noneArg => exact hB
  | plain => exact hB
  | daemonObj => exact hB
  | byId i =>
    simp only [unregister]
    split
    · exact hB
    · exact back_erase _ hB
  | byObj e =>
    rcases unregister_byObj_cases cfg s e with h | ⟨i, en, hgi, hi, hl, _, hown, h⟩
    · rw [h]; exact hB
    · have hown := hown hD
      have href := deref_ref hown
      obtain ⟨r, w⟩ := en
      simp only at href; subst href
      have hb := hB i e w hl
      have hd : delAttrs { s with objs := erase i s.objs } e =
          ({ s with objs := erase i s.objs, pid := upd s.pid e none, pdm := upd s.pdm e .absent }, .ok) := by
        simp [delAttrs, hb.1, hb.2]
      rw [h, hd]
      intro j e' w' hj'
      simp only [lookup_erase] at hj'
      split at hj'
      · simp at hj'
      · rename_i hj
        have hee : e' ≠ e := by
          intro he; subst he
          have := (hB j e' w' hj').1
          rw [hb.1] at this
          exact hj (by simpa using this.symm)
        simp only [upd, hee, if_false]
        exact hB j e' w' hj'

theorem back_gc {cfg : Cfg} {s : State} (k : Nat) (hB : Back s) : Back (gc cfg s k).1 := by
  unfold gc
  split
  · exact hB
  · split
    · exact hB
    · intro i e w h
      exact hB i e w (foldl_sub cfg k _ _ i _ h)

/-- a registered object returned from a method arrives as the proxy of its id, and nothing changes -/
theorem returnObj_registered {cfg : Cfg} {s : State} (hI : InvW s) (hB : Back s) {k : Nat} {i : Id} {w : Bool}
    (h : lookup i s.objs = some ⟨.ent (.obj k), w⟩) (ser : Ser) :
    returnObj cfg s k ser = (s, .proxy i) := by
  have hd : s.dead k = false := hI.alive i k w h
  have hgi := getId_of_back hB h
  have hgd := getDm_of_back hB h
  have hde := deref_entry hI h
  have hown : ownsEntry s k = true := by
    simp [ownsEntry, registeredRef, hgi, h, hde]
  have hp : proxyFor s (.byObj (.obj k)) = .proxy i := by
    simp [proxyFor, uriFor, isDead, hd, hgi, h, hde]
  simp [returnObj, hd, hgd, hown, hp]

theorem back_returnObj {cfg : Cfg} {s : State} (k : Nat) (ser : Ser) (hI : InvW s) (hB : Back s) :
    Back (returnObj cfg s k ser).1 := by
  by_cases hr : ∃ i w, lookup i s.objs = some ⟨.ent (.obj k), w⟩
  · obtain ⟨i, w, h⟩ := hr
    rw [returnObj_registered hI hB h]; exact hB
  · have hf := returnObj_frame cfg s k ser
    intro i e w h
    rw [hf.1] at h
    have hee : e ≠ .obj k := by
      intro he; subst he; exact hr ⟨i, w, h⟩
    rw [hf.2.2.2.2.1, hf.2.2.2.2.2 e hee]
    exact hB i e w h

theorem back_step {cfg : Cfg} (hB' : cfg.identityUnpacksWeak = true) (hD : cfg.unregChecksOwner = true)
    {s : State} (op : Op) (hI : InvW s) (hB : Back s) (hA : NoAliasOp s op) :
    Back (step cfg s op).1 := by
  cases op with
  | register e ia f w =>
    simp only [step]
    rcases register_cases cfg s e ia f w with ⟨r, _, h⟩ | ⟨hc, h⟩
    · rw [h]; exact hB
    · rw [h]; exact back_regCommit hB' hI hB hc hA
  | unregister t => exact back_unregister t hD hB
  | gc k => exact back_gc k hB
  | uriFor t => exact hB
  | proxyFor t => exact hB
  | call i => exact hB
  | returnObj k ser => exact back_returnObj k ser hI hB
  | registered => exact hB


/-! ### the abstract registry -/

/-- the specification: a partial map from ids to registered entities (with the weak flag), the set of
    collected objects, and the id counter.  No attributes on objects, no finalizers. -/
structure Spec where
  m : Id → Option Entry
  dead : Nat → Bool
  next : Nat

def abs (s : State) : Spec := ⟨fun i => lookup i s.objs, s.dead, s.next⟩

def Spec.init : Spec :=
  ⟨fun i => if i = .daemon then some ⟨.daemonObj, false⟩ else none, fun _ => false, 0⟩

/-- `e` is registered (under some id) -/
def Spec.has (σ : Spec) (e : Ent) : Prop := ∃ i w, σ.m i = some ⟨.ent e, w⟩

def Spec.isDead (σ : Spec) : Ent → Bool
  | .obj k => σ.dead k
  | .cls _ => false

def Spec.resolve (σ : Spec) : IdArg → Id
  | .str i => i
  | _ => .gen σ.next

/-- when the specification refuses a registration: the object is gone, the id is not a string, the id
    is the daemon's own, a class is to be registered weakly, — without `force` — the object is
    registered already or the id is taken, or the object cannot carry the pyro attributes -/
def Spec.refuses (σ : Spec) (e : Ent) (ia : IdArg) (force weak : Bool) : Prop :=
  σ.isDead e = true ∨ ia = .nonStr ∨ σ.resolve ia = .daemon ∨ (isClass e = true ∧ weak = true) ∨
  (force = false ∧ (σ.has e ∨ (σ.m (σ.resolve ia)).isSome = true)) ∨ canSet e = false

open Classical in
/-- one step of the specification -/
noncomputable def specStep (σ : Spec) : Op → Spec
  | .register e ia force weak =>
    if σ.refuses e ia force weak then σ
    else { σ with m := upd σ.m (σ.resolve ia) (some ⟨.ent e, weak⟩),
                  next := if generates ia then σ.next + 1 else σ.next }
  | .unregister (.byId i) => if i = .daemon then σ else { σ with m := upd σ.m i none }
  | .unregister (.byObj e) => { σ with m := fun i => (σ.m i).filter (fun en => en.ref ≠ .ent e) }
  | .unregister _ => σ
  | .gc k =>
    if σ.dead k = true ∨ (∃ i, σ.m i = some ⟨.ent (.obj k), false⟩) then σ
    else { σ with dead := upd σ.dead k true, m := fun i => (σ.m i).filter (fun en => en.ref ≠ .ent (.obj k)) }
  | _ => σ

noncomputable def specRun (σ : Spec) : List Op → Spec
  | [] => σ
  | op :: h => specRun (specStep σ op) h

theorem abs_init : abs init = Spec.init := by
  simp only [abs, Spec.init]
  congr 1
  funext i
  exact lookup_init i

theorem abs_resolve (s : State) (ia : IdArg) : (abs s).resolve ia = resolveId s ia := by
  cases ia <;> rfl

theorem abs_isDead (s : State) (e : Ent) : (abs s).isDead e = isDead s e := by
  cases e <;> rfl

theorem entryIs_has {s : State} {u : Bool} {p : Id} {e : Ent} (h : entryIs s u p e = true) :
    ∃ w, lookup p s.objs = some ⟨.ent e, w⟩ := by
  unfold entryIs at h
  split at h
  · simp at h
  · rename_i en hl
    obtain ⟨r, w⟩ := en
    split at h
    · simp only [Bool.and_eq_true, beq_iff_eq] at h
      have := deref_ref h.2
      simp only at this; subst this
      exact ⟨w, hl⟩
    · simp only [beq_iff_eq] at h
      subst h
      exact ⟨w, hl⟩

theorem regCheck_some_refuses {cfg : Cfg} (hC : cfg.refuseDaemonName = true) {s : State} {e : Ent} {ia : IdArg}
    {force weak : Bool} {r : Res} (h : regCheck cfg s e ia force weak = some r) : (abs s).refuses e ia force weak := by
  unfold regCheck at h
  unfold Spec.refuses
  rw [abs_resolve, abs_isDead]
  split at h
  · left; assumption
  split at h
  · right; left; assumption
  split at h
  · rename_i h3; right; right; left; simpa [hC] using h3
  split at h
  · rename_i h4; right; right; right; left; simpa using h4
  split at h
  · rename_i h5
    simp only [Bool.and_eq_true, Bool.not_eq_true'] at h5
    right; right; right; right; left
    refine ⟨h5.1, Or.inl ?_⟩
    have h5 := h5.2
    unfold alreadyHasId at h5
    split at h5
    · rename_i p _
      obtain ⟨w, hl⟩ := entryIs_has h5
      exact ⟨p, w, hl⟩
    · simp at h5
  split at h
  · rename_i h6
    simp only [Bool.and_eq_true, Bool.not_eq_true'] at h6
    right; right; right; right; left
    exact ⟨h6.1, Or.inr h6.2⟩
  split at h
  · rename_i h7
    right; right; right; right; right
    simpa using h7
  · simp at h

theorem regCheck_none_not_refuses {cfg : Cfg} (hC : cfg.refuseDaemonName = true) (hB' : cfg.identityUnpacksWeak = true)
    {s : State} (hI : InvW s) (hB : Back s) {e : Ent} {ia : IdArg}
    {force weak : Bool} (h : regCheck cfg s e ia force weak = none) : ¬ (abs s).refuses e ia force weak := by
  obtain ⟨h1, h2, h3, h4, h5, h6, h7⟩ := regCheck_none h
  unfold Spec.refuses
  rw [abs_resolve, abs_isDead]
  rintro (hd | hn | hdm | hcw | ⟨hf, hh | ht⟩ | hcs)
  · rw [h1] at hd; simp at hd
  · exact h2 hn
  · exact h3 hC hdm
  · exact h4 hcw
  · obtain ⟨i, w, hl⟩ := hh
    have := h5 hf
    rw [alreadyHasId_of_entry hB' hI hB hl] at this
    simp at this
  · have := h6 hf
    simp only [abs] at ht
    rw [this] at ht; simp at ht
  · rw [h7] at hcs; simp at hcs

theorem lookup_of_mem_nodup {l : Objs} (hn : (keys l).Nodup) {i : Id} {en : Entry} (h : (i, en) ∈ l) :
    lookup i l = some en := by
  induction l with
  | nil => simp at h
  | cons p r ih =>
    obtain ⟨k, e⟩ := p
    simp only [keys, List.map_cons, List.nodup_cons, List.mem_map, not_exists, not_and] at hn
    simp only [List.mem_cons, Prod.mk.injEq] at h
    simp only [lookup]
    rcases h with ⟨h1, h2⟩ | h
    · simp [h1, h2]
    · have : ¬ k = i := by
        intro hk; subst hk
        exact hn.1 (k, en) h rfl
      simp only [this, if_false]
      exact ih hn.2 h

theorem stronglyHeld_iff {s : State} (hI : InvW s) (k : Nat) :
    stronglyHeld k s.objs = true ↔ ∃ i, lookup i s.objs = some ⟨.ent (.obj k), false⟩ := by
  constructor
  · intro h
    unfold stronglyHeld at h
    rw [List.any_eq_true] at h
    obtain ⟨⟨i, en⟩, hm, hp⟩ := h
    obtain ⟨r, w⟩ := en
    simp only [Bool.and_eq_true, Bool.not_eq_true', decide_eq_true_eq] at hp
    obtain ⟨hw, hr⟩ := hp
    subst hw; subst hr
    exact ⟨i, lookup_of_mem_nodup hI.nodup hm⟩
  · rintro ⟨i, h⟩
    exact stronglyHeld_of_lookup h

/-- the concrete step of the repaired code refines the specification step -/
theorem abs_step {s : State} (op : Op) (hI : InvW s) (hB : Back s) (hA : NoAliasOp s op) :
    abs (step .fixed s op).1 = specStep (abs s) op := by
  cases op with
  | register e ia f w =>
    simp only [step, specStep]
    rcases register_cases .fixed s e ia f w with ⟨r, hc, h⟩ | ⟨hc, h⟩
    · rw [h, if_pos (regCheck_some_refuses rfl hc)]
    · rw [h, if_neg (regCheck_none_not_refuses rfl rfl hI hB hc)]
      simp only [abs, regCommit]
      congr 1
      funext i
      simp only [lookup_setEntry, upd]
      rw [show (Spec.resolve ⟨fun i => lookup i s.objs, s.dead, s.next⟩ ia) = resolveId s ia from abs_resolve s ia]
  | unregister t =>
    cases t with
    | noneArg => rfl
    | plain => rfl
    | daemonObj => rfl
    | byId i =>
      simp only [step, unregister, specStep]
      split
      · rfl
      · simp only [abs]
        congr 1
        funext j
        simp only [lookup_erase, upd]
    | byObj e =>
      simp only [step, specStep]
      by_cases hr : ∃ j w, lookup j s.objs = some ⟨.ent e, w⟩
      · obtain ⟨j, w, hl⟩ := hr
        have hb := hB j e w hl
        have hgi := getId_of_back hB hl
        have hde := deref_entry hI hl
        have hj : j ≠ .daemon := by
          intro hd; subst hd; rw [hI.daemon] at hl; simp at hl
        have hdead : isDead s e = false := by
          cases e with
          | obj k => exact hI.alive j k w hl
          | cls c => rfl
        have hu : unregister .fixed s (.byObj e) =
            ({ s with objs := erase j s.objs, pid := upd s.pid e none, pdm := upd s.pdm e .absent }, .ok) := by
          simp [unregister, hdead, hgi, hj, hl, hde, Cfg.fixed, delAttrs, hb.1, hb.2]
        rw [hu]
        simp only [abs]
        congr 1
        funext i
        simp only [lookup_erase]
        by_cases hi : i = j
        · subst hi; simp [hl, Option.filter]
        · simp only [hi, if_false]
          cases hx : lookup i s.objs with
          | none => rfl
          | some en =>
            obtain ⟨r, w'⟩ := en
            have : r ≠ .ent e := by
              intro hre; subst hre
              have := (hB i e w' hx).1
              rw [hb.1] at this
              exact hi (by simpa using this.symm)
            simp [Option.filter, this]
      · have ho : (unregister .fixed s (.byObj e)).1.objs = s.objs ∧
            (unregister .fixed s (.byObj e)).1.dead = s.dead ∧ (unregister .fixed s (.byObj e)).1.next = s.next := by
          rcases unregister_byObj_cases .fixed s e with h | ⟨i, en, _, _, hl, _, hown, h⟩
          · rw [h]; simp
          · exfalso
            have := deref_ref (hown rfl)
            obtain ⟨r, w⟩ := en
            simp only at this; subst this
            exact hr ⟨i, w, hl⟩
        simp only [abs, ho.1, ho.2.1, ho.2.2]
        congr 1
        funext i
        cases hx : lookup i s.objs with
        | none => rfl
        | some en =>
          obtain ⟨r, w'⟩ := en
          have : r ≠ .ent e := by
            intro hre; subst hre; exact hr ⟨i, w', hx⟩
          simp [Option.filter, this]
  | gc k =>
    simp only [step, specStep, gc]
    by_cases hd : s.dead k = true
    · rw [if_pos hd, if_pos (show (abs s).dead k = true ∨ ∃ i, (abs s).m i = some ⟨.ent (.obj k), false⟩ from Or.inl hd)]
    · rw [if_neg hd]
      by_cases hs : stronglyHeld k s.objs = true
      · rw [if_pos hs, if_pos (show (abs s).dead k = true ∨ ∃ i, (abs s).m i = some ⟨.ent (.obj k), false⟩ from
          Or.inr ((stronglyHeld_iff hI k).1 hs))]
      · rw [if_neg hs, if_neg (show ¬ ((abs s).dead k = true ∨ ∃ i, (abs s).m i = some ⟨.ent (.obj k), false⟩) from by
          rintro (h | h)
          · exact hd h
          · exact hs ((stronglyHeld_iff hI k).2 h))]
        have hs' : stronglyHeld k s.objs = false := by simpa using hs
        simp only [abs]
        congr 1
        funext i
        cases hx : lookup i s.objs with
        | none =>
          cases hy : lookup i (List.foldl (runFin Cfg.fixed k) s.objs
              (List.map (fun x => x.snd) (List.filter (fun p => decide (p.fst = k)) s.fins))) with
          | none => rfl
          | some en' => rw [foldl_sub _ k _ _ i en' hy] at hx; simp at hx
        | some en =>
          obtain ⟨r, w⟩ := en
          by_cases hre : r = .ent (.obj k)
          · subst hre
            cases hy : lookup i (List.foldl (runFin Cfg.fixed k) s.objs
                (List.map (fun x => x.snd) (List.filter (fun p => decide (p.fst = k)) s.fins))) with
            | none => simp [Option.filter]
            | some en' =>
              have := foldl_sub _ k _ _ i en' hy
              rw [hx] at this
              simp only [Option.some.injEq] at this
              subst this
              exact absurd hy (gc_no_entry hI hs' i w)
          · have hw : weakOf k ⟨r, w⟩ = false := by simp [weakOf, hre]
            rw [foldl_keep k _ _ i _ hx hw]
            simp [Option.filter, hre]
  | uriFor t => rfl
  | proxyFor t => rfl
  | call i => rfl
  | returnObj k ser =>
    have hf := returnObj_frame .fixed s k ser
    simp only [step, specStep, abs, hf.1, hf.2.1, hf.2.2.2.1]
  | registered => rfl


/-! ### histories -/

/-- decidable form of `NoAliasOp` -/
def noAliasOp (s : State) : Op → Bool
  | .register e ia true _ => s.objs.all (fun p => decide (p.2.ref ≠ .ent e) || decide (p.1 = resolveId s ia))
  | _ => true

theorem noAliasOp_sound {s : State} {op : Op} (h : noAliasOp s op = true) : NoAliasOp s op := by
  cases op with
  | register e ia f w =>
    cases f with
    | false => trivial
    | true =>
      intro j w' hl
      simp only [noAliasOp, List.all_eq_true] at h
      have := h _ (lookup_mem hl)
      simpa using this
  | unregister t => trivial
  | gc k => trivial
  | uriFor t => trivial
  | proxyFor t => trivial
  | call i => trivial
  | returnObj k ser => trivial
  | registered => trivial

/-- the history never gives an object that is registered under another id a second id by `force=True`
    (forced re-registration under the *same* id, forced take-over of an id held by another object, and
    everything without `force` are allowed) -/
def noAliasHist (s : State) : List Op → Bool
  | [] => true
  | op :: h => noAliasOp s op && noAliasHist (step .fixed s op).1 h

/-- along such a history of the repaired code all invariants hold and the state abstracts to the
    specification's state -/
theorem reach {s : State} (h : List Op) (hI : InvW s) (hB : Back s) (hA : noAliasHist s h = true) :
    InvW (run .fixed s h) ∧ Back (run .fixed s h) ∧ abs (run .fixed s h) = specRun (abs s) h := by
  induction h generalizing s with
  | nil => exact ⟨hI, hB, rfl⟩
  | cons op r ih =>
    simp only [noAliasHist, Bool.and_eq_true] at hA
    have hA1 := noAliasOp_sound hA.1
    have := ih (invW_step rfl op hI) (back_step rfl rfl op hI hB hA1) hA.2
    simp only [run, specRun]
    rw [← abs_step op hI hB hA1]
    exact this

/-- who answers a call addressed to `i` according to the specification -/
def specCall (σ : Spec) (i : Id) : Res :=
  match σ.m i with
  | none => .unknownObject
  | some ⟨.ent (.cls c), _⟩ => .inst c
  | some ⟨r, _⟩ => .reached r

theorem call_eq_specCall {s : State} (hI : InvW s) (i : Id) : call s i = specCall (abs s) i := by
  unfold call specCall
  simp only [abs]
  cases hx : lookup i s.objs with
  | none => rfl
  | some en =>
    simp only [deref_entry hI hx]
    obtain ⟨r, w⟩ := en
    cases r with
    | daemonObj => rfl
    | ent e => cases e <;> rfl

theorem regCheck_some_not_uri {cfg : Cfg} {s : State} {e : Ent} {ia : IdArg} {f w : Bool} {r : Res}
    (h : regCheck cfg s e ia f w = some r) (i : Id) : r ≠ .uri i := by
  unfold regCheck at h
  repeat (split at h; · (simp only [Option.some.injEq] at h; subst h; simp))
  simp at h

end Pyro.Registry
