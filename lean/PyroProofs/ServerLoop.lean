/-
  Helper lemmas for C05 (PyroModel/ServerLoop.lean): what escapes from a handshake / request,
  how the primitive operations (setConn, poolTake, poolDone, workerExit) act on each field,
  and the single-step facts the property theorems are assembled from.
-/
import PyroModel.ServerLoop

namespace Pyro.ServerLoop

open Pyro.Server

/-- every containment layer ends in a catch-all for `Exception` -/
structure GoodCfg (g : Cfg) : Prop where
  thrJob : Handler.exception ∈ g.thrJob
  thrShake : Handler.exception ∈ g.thrShake
  thrDeny : Handler.exception ∈ g.thrDeny
  thrWorker : Handler.exception ∈ g.thrWorker
  muxReq : Handler.exception ∈ g.muxReq
  muxShake : Handler.exception ∈ g.muxShake

/-- client-originated: whatever is raised behind an item is a subclass of `Exception` -/
def ClientEv : Ev → Prop
  | .connect _ => True
  | .item _ _ _ raw => isException raw = true

theorem caught_of_exception {hs : List Handler} (h : Handler.exception ∈ hs) {c : Cls}
    (hc : isException c = true) : caught hs c = true := by
  unfold caught
  rw [List.any_eq_true]
  exact ⟨_, h, hc⟩

/-! ### what escapes -/

theorem handshake_none_false (it : Item) (h : (handshake it).1 = none) : (handshake it).2 = false := by
  cases it with
  | cut => rfl
  | garbage => simp [handshake] at h
  | timeout => simp [handshake] at h
  | msg m =>
    simp only [handshake] at h ⊢
    by_cases h1 : m.type ≠ MSG_CONNECT
    · rw [if_pos h1] at h; simp at h
    · rw [if_neg h1] at h ⊢
      by_cases h2 : (!knownSerializer m.serId) = true
      · rw [if_pos h2] at h; simp at h
      · rw [if_neg h2] at h ⊢
        cases hb : m.body with
        | undecodable => rw [hb] at h; simp at h
        | call t => rw [hb] at h; simp at h
        | handshake wf ok v => rw [hb] at h; cases wf <;> cases ok <;> cases v <;> simp at h ⊢

theorem handshake_ok_reply (it : Item) (h : (handshake it).2 = true) :
    ∃ r, (handshake it).1 = some r ∧ r.type = MSG_CONNECTOK := by
  cases it with
  | cut => simp [handshake] at h
  | garbage => simp [handshake] at h
  | timeout => simp [handshake] at h
  | msg m =>
    simp only [handshake] at h ⊢
    by_cases h1 : m.type ≠ MSG_CONNECT
    · rw [if_pos h1] at h; simp at h
    · rw [if_neg h1] at h ⊢
      by_cases h2 : (!knownSerializer m.serId) = true
      · rw [if_pos h2] at h; simp at h
      · rw [if_neg h2] at h ⊢
        cases hb : m.body with
        | undecodable => rw [hb] at h; simp at h
        | call t => rw [hb] at h; simp at h
        | handshake wf ok v =>
          rw [hb] at h
          cases wf <;> cases ok <;> cases v <;> simp [MSG_CONNECTOK] at h ⊢

theorem doHandshake_esc (c : Conn) (it : Item) (gone : Bool) (e : Cls)
    (h : (doHandshake c it gone).esc = some e) : e = .connClosed ∧ gone = true := by
  unfold doHandshake at h
  split at h
  · simp at h
  · split at h
    · simp at h; exact ⟨h.symm, by assumption⟩
    · simp at h

theorem doDeny_esc (c : Conn) (it : Item) (gone : Bool) (e : Cls)
    (h : (doDeny c it gone).esc = some e) : e = .connClosed ∧ gone = true := by
  unfold doDeny at h
  split at h
  · simp at h
  · split at h
    · simp at h; exact ⟨h.symm, by assumption⟩
    · simp at h

theorem excCls_exc (raw : Cls) (hr : isException raw = true) (e : Exc) : isException (excCls raw e) = true := by
  cases e <;> first | exact hr | rfl

theorem escClass_exc (it : Item) (raw : Cls) (hr : isException raw = true) :
    isException (escClass it raw) = true := by
  unfold escClass
  split
  · rfl
  · rfl
  · exact hr
  · split
    · rfl
    · split
      · rfl
      · split
        · split
          · rfl
          · exact excCls_exc raw hr _
        · rfl

theorem doRequest_esc_exc (c : Conn) (it : Item) (gone : Bool) (raw : Cls) (hr : isException raw = true)
    (e : Cls) (h : (doRequest c it gone raw).esc = some e) : isException e = true := by
  unfold doRequest at h
  simp only at h
  split at h
  · split at h
    · simp at h; rw [← h]; rfl
    · simp only at h
      split at h
      · simp at h; rw [← h]; exact escClass_exc it raw hr
      · simp at h
  · simp only at h
    split at h
    · simp at h; rw [← h]; exact escClass_exc it raw hr
    · simp at h

/-! ### the loop model agrees with `Server.connEvent` when the peer stays and every layer catches -/

theorem doHandshake_connEvent (c : Conn) (it : Item) (hp : c.phase = .fresh) :
    let r := doHandshake c it false
    r.esc = none ∧
    connEvent c it = (if r.ok then { r.conn with phase := .active, slot := true } else closeNoHook r.conn) := by
  simp only [doHandshake, connEvent, hp]
  generalize hh : handshake it = q
  obtain ⟨reply, ok⟩ := q
  cases reply with
  | none =>
    have := handshake_none_false it (by rw [hh])
    rw [hh] at this; simp only at this; subst this
    simp [closeNoHook, Conn.close]
  | some r =>
    cases ok <;> simp [closeNoHook]

theorem doRequest_connEvent (c : Conn) (it : Item) (raw : Cls) (hp : c.phase = .active) :
    let r := doRequest c it false raw
    (r.esc.isSome = (handleRequest it).raised) ∧
    connEvent c it = (if r.esc.isSome then closeWithHook r.conn else r.conn) := by
  simp only [doRequest, connEvent, hp]
  generalize handleRequest it = q
  obtain ⟨reply, execs, tracks, untracks, session, raised⟩ := q
  cases reply <;> cases raised <;> simp [closeWithHook]

/-! ### field-by-field action of the primitive operations -/

section prim
variable (p : Params) (l : Loop) (i : Nat)

@[simp] theorem setConn_running (c : Conn) : (setConn l i c).running = l.running := rfl
@[simp] theorem setConn_seen (c : Conn) : (setConn l i c).seen = l.seen := rfl
@[simp] theorem setConn_busy (c : Conn) : (setConn l i c).busy = l.busy := rfl
@[simp] theorem setConn_idle (c : Conn) : (setConn l i c).idle = l.idle := rfl
@[simp] theorem setConn_registered (c : Conn) : (setConn l i c).registered = l.registered := rfl
@[simp] theorem setConn_zombie (c : Conn) : (setConn l i c).zombie = l.zombie := rfl
@[simp] theorem setConn_objects (c : Conn) : (setConn l i c).objects = l.objects := rfl
@[simp] theorem setConn_conns (c : Conn) : (setConn l i c).conns = l.conns.set i c := rfl

theorem setConn_get_ne (c : Conn) (j : Nat) (h : i ≠ j) : (setConn l i c).conns[j]? = l.conns[j]? := by
  simp [h]

theorem setConn_get_self (c c0 : Conn) (h : l.conns[i]? = some c0) : (setConn l i c).conns[i]? = some c := by
  have hlt : i < l.conns.length := (List.getElem?_eq_some_iff.mp h).1
  simp [hlt]

@[simp] theorem poolDone_running : (poolDone p l i).running = l.running := by unfold poolDone; split <;> rfl
@[simp] theorem poolDone_conns : (poolDone p l i).conns = l.conns := by unfold poolDone; split <;> rfl
@[simp] theorem poolDone_seen : (poolDone p l i).seen = l.seen := by unfold poolDone; split <;> rfl
@[simp] theorem poolDone_busy : (poolDone p l i).busy = l.busy.erase i := by unfold poolDone; split <;> rfl
@[simp] theorem poolDone_registered : (poolDone p l i).registered = l.registered := by unfold poolDone; split <;> rfl
@[simp] theorem poolDone_zombie : (poolDone p l i).zombie = l.zombie := by unfold poolDone; split <;> rfl
@[simp] theorem poolDone_objects : (poolDone p l i).objects = l.objects := by unfold poolDone; split <;> rfl
theorem poolDone_idle : (poolDone p l i).idle = if p.mn ≤ l.idle then l.idle else l.idle + 1 := by
  unfold poolDone; split <;> rfl

theorem poolTake_some (l' : Loop) (h : poolTake p l i = some l') :
    l'.running = l.running ∧ l'.conns = l.conns ∧ l'.seen = l.seen ∧ l'.busy = l.busy ++ [i] ∧
    l'.registered = l.registered ∧ l'.zombie = l.zombie ∧ l'.objects = l.objects ∧
    ((0 < l.idle ∧ l'.idle = l.idle - 1) ∨ (l.idle = 0 ∧ l.busy.length < p.mx ∧ l'.idle = 0)) := by
  unfold poolTake at h
  split at h
  · simp at h; subst h; refine ⟨rfl, rfl, rfl, rfl, rfl, rfl, rfl, Or.inl ⟨by assumption, rfl⟩⟩
  · split at h
    · simp at h; subst h
      refine ⟨rfl, rfl, rfl, rfl, rfl, rfl, rfl, Or.inr ⟨by omega, by omega, by simp; omega⟩⟩
    · simp at h

theorem poolTake_none (h : poolTake p l i = none) : l.idle = 0 ∧ p.mx ≤ l.busy.length := by
  unfold poolTake at h
  split at h
  · simp at h
  · split at h
    · simp at h
    · omega

theorem poolTake_isSome (h : l.busy.length < p.mx) : ∃ l', poolTake p l i = some l' := by
  unfold poolTake
  split
  · exact ⟨_, rfl⟩
  · split
    · exact ⟨_, rfl⟩
    · omega

end prim

/-- Worker.run under a catch-all: the pool is always notified -/
theorem workerExit_good (p : Params) (hg : GoodCfg p.cfg) (l : Loop) (i : Nat) (e : Option Cls)
    (he : ∀ x, e = some x → isException x = true) : workerExit p l i e = poolDone p l i := by
  unfold workerExit
  cases e with
  | none => rfl
  | some x => simp [caught_of_exception hg.thrWorker (he x rfl)]

@[simp] theorem workerExit_running (p : Params) (l : Loop) (i : Nat) (e : Option Cls) :
    (workerExit p l i e).running = l.running := by
  unfold workerExit
  split
  · simp
  · split <;> simp

@[simp] theorem workerExit_conns (p : Params) (l : Loop) (i : Nat) (e : Option Cls) :
    (workerExit p l i e).conns = l.conns := by
  unfold workerExit
  split
  · simp
  · split <;> simp

@[simp] theorem workerExit_objects (p : Params) (l : Loop) (i : Nat) (e : Option Cls) :
    (workerExit p l i e).objects = l.objects := by
  unfold workerExit
  split
  · simp
  · split <;> simp

@[simp] theorem workerExit_seen (p : Params) (l : Loop) (i : Nat) (e : Option Cls) :
    (workerExit p l i e).seen = l.seen := by
  unfold workerExit
  split
  · simp
  · split <;> simp

end Pyro.ServerLoop
