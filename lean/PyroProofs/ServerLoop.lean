/-
  Helper lemmas for C05 (PyroModel/ServerLoop.lean): what escapes from a handshake / request,
  how the primitive operations (setConn, poolTake, poolDone, workerExit) act on each field,
  and the single-step facts the property theorems are assembled from.
-/
import PyroModel.ServerLoop

namespace Pyro.ServerLoop

open Pyro.Server

/-- every containment layer the property rests on contains every subclass of `Exception`.
    (`thrJob`, the ladder inside the request loop of a connection job, is not among them: whatever
    it lets through still meets the job's `finally` and then `Worker.run`'s catch-all.) -/
structure GoodCfg (g : Cfg) : Prop where
  thrShake : ∀ c, isException c = true → caught g.thrShake c = true
  thrDeny : ∀ c, isException c = true → caught g.thrDeny c = true
  thrWorker : ∀ c, isException c = true → caught g.thrWorker c = true
  muxReq : ∀ c, isException c = true → caught g.muxReq c = true
  muxShake : ∀ c, isException c = true → caught g.muxShake c = true

/-- client-originated: whatever is raised behind an item is a subclass of `Exception` -/
def ClientEv : Ev → Prop
  | .connect _ => True
  | .item _ _ _ raw => isException raw = true

instance (ev : Ev) : Decidable (ClientEv ev) := by
  cases ev <;> unfold ClientEv <;> infer_instance

theorem caught_of_exception {cs : List Cls} (h : ∀ c, isException c = true → caught cs c = true) {c : Cls}
    (hc : isException c = true) : caught cs c = true := h c hc

/-! ### what escapes -/

theorem handshake_none_false (it : Item) (h : (handshake it).1 = none) : (handshake it).2 = false := by
  cases it with
  | cut => rfl
  | garbage => simp [handshake] at h
  | timeout => simp [handshake] at h
  | msg m =>
    simp only [handshake] at h ⊢
    by_cases h1 : m.type ≠ MSG_CONNECT
    · rw [if_pos h1] at h; simp at h
    · rw [if_neg h1] at h ⊢
      by_cases h2 : (!knownSerializer m.serId) = true
      · rw [if_pos h2] at h; simp at h
      · rw [if_neg h2] at h ⊢
        cases hb : m.body with
        | undecodable _ => rfl
        | call t => rfl
        | handshake wf ok v => rw [hb] at h; cases wf <;> cases ok <;> cases v <;> simp at h ⊢

theorem handshake_ok_reply (it : Item) (h : (handshake it).2 = true) :
    ∃ r, (handshake it).1 = some r ∧ r.type = MSG_CONNECTOK := by
  cases it with
  | cut => simp [handshake] at h
  | garbage => simp [handshake] at h
  | timeout => simp [handshake] at h
  | msg m =>
    simp only [handshake] at h ⊢
    by_cases h1 : m.type ≠ MSG_CONNECT
    · rw [if_pos h1] at h; simp at h
    · rw [if_neg h1] at h ⊢
      by_cases h2 : (!knownSerializer m.serId) = true
      · rw [if_pos h2] at h; simp at h
      · rw [if_neg h2] at h ⊢
        cases hb : m.body with
        | undecodable _ => rw [hb] at h; simp at h
        | call t => rw [hb] at h; simp at h
        | handshake wf ok v =>
          rw [hb] at h
          cases wf <;> cases ok <;> cases v <;> simp [MSG_CONNECTOK] at h ⊢

theorem doHandshake_esc (c : Conn) (it : Item) (gone : Bool) (e : Cls)
    (h : (doHandshake c it gone).esc = some e) : e = .connClosed ∧ gone = true := by
  unfold doHandshake at h
  split at h
  · simp at h
  · split at h
    · simp at h; exact ⟨h.symm, by assumption⟩
    · simp at h

theorem doDeny_esc (c : Conn) (it : Item) (gone : Bool) (e : Cls)
    (h : (doDeny c it gone).esc = some e) : e = .connClosed ∧ gone = true := by
  unfold doDeny at h
  split at h
  · simp at h
  · split at h
    · simp at h; exact ⟨h.symm, by assumption⟩
    · simp at h

theorem excCls_exc (raw : Cls) (hr : isException raw = true) (e : Exc) : isException (excCls raw e) = true := by
  cases e <;> first | exact hr | rfl

theorem escClass_exc (it : Item) (raw : Cls) (hr : isException raw = true) :
    isException (escClass it raw) = true := by
  unfold escClass
  split
  · rfl
  · rfl
  · exact hr
  · split
    · rfl
    · split
      · rfl
      · split
        · split
          · rfl
          · rfl
          · rfl
          · exact excCls_exc raw hr _
        · rfl

theorem doRequest_esc_exc (c : Conn) (it : Item) (gone : Bool) (raw : Cls) (hr : isException raw = true)
    (e : Cls) (h : (doRequest c it gone raw).esc = some e) : isException e = true := by
  unfold doRequest at h
  simp only at h
  split at h
  · split at h
    · simp at h; rw [← h]; rfl
    · simp only at h
      split at h
      · simp at h; rw [← h]; exact escClass_exc it raw hr
      · simp at h
  · simp only at h
    split at h
    · simp at h; rw [← h]; exact escClass_exc it raw hr
    · simp at h

/-! ### the loop model agrees with `Server.connEvent` when the peer stays and every layer catches -/

theorem doHandshake_connEvent (c : Conn) (it : Item) (hp : c.phase = .fresh) :
    let r := doHandshake c it false
    r.esc = none ∧
    connEvent c it = (if r.ok then { r.conn with phase := .active, slot := true } else closeNoHook r.conn) := by
  simp only [doHandshake, connEvent, hp]
  generalize hh : handshake it = q
  obtain ⟨reply, ok⟩ := q
  cases reply with
  | none =>
    have := handshake_none_false it (by rw [hh])
    rw [hh] at this; simp only at this; subst this
    simp [closeNoHook, Conn.close]
  | some r =>
    cases ok <;> simp [closeNoHook]

theorem doRequest_connEvent (c : Conn) (it : Item) (raw : Cls) (hp : c.phase = .active) :
    let r := doRequest c it false raw
    (r.esc.isSome = (handleRequest it).raised) ∧
    connEvent c it = (if r.esc.isSome then closeWithHook r.conn else r.conn) := by
  simp only [doRequest, connEvent, hp]
  generalize handleRequest it = q
  obtain ⟨reply, execs, tracks, untracks, session, raised⟩ := q
  cases reply <;> cases raised <;> simp [closeWithHook]

/-! ### field-by-field action of the primitive operations -/

section prim
variable (p : Params) (l : Loop) (i : Nat)

@[simp] theorem setConn_running (c : Conn) : (setConn l i c).running = l.running := rfl
@[simp] theorem setConn_seen (c : Conn) : (setConn l i c).seen = l.seen := rfl
@[simp] theorem setConn_busy (c : Conn) : (setConn l i c).busy = l.busy := rfl
@[simp] theorem setConn_idle (c : Conn) : (setConn l i c).idle = l.idle := rfl
@[simp] theorem setConn_registered (c : Conn) : (setConn l i c).registered = l.registered := rfl
@[simp] theorem setConn_zombie (c : Conn) : (setConn l i c).zombie = l.zombie := rfl
@[simp] theorem setConn_objects (c : Conn) : (setConn l i c).objects = l.objects := rfl
@[simp] theorem setConn_conns (c : Conn) : (setConn l i c).conns = l.conns.set i c := rfl

theorem setConn_get_ne (c : Conn) (j : Nat) (h : i ≠ j) : (setConn l i c).conns[j]? = l.conns[j]? := by
  simp [h]

theorem setConn_get_self (c c0 : Conn) (h : l.conns[i]? = some c0) : (setConn l i c).conns[i]? = some c := by
  have hlt : i < l.conns.length := (List.getElem?_eq_some_iff.mp h).1
  simp [hlt]

@[simp] theorem poolDone_running : (poolDone p l i).running = l.running := by unfold poolDone; split <;> rfl
@[simp] theorem poolDone_conns : (poolDone p l i).conns = l.conns := by unfold poolDone; split <;> rfl
@[simp] theorem poolDone_seen : (poolDone p l i).seen = l.seen := by unfold poolDone; split <;> rfl
@[simp] theorem poolDone_busy : (poolDone p l i).busy = l.busy.erase i := by unfold poolDone; split <;> rfl
@[simp] theorem poolDone_registered : (poolDone p l i).registered = l.registered := by unfold poolDone; split <;> rfl
@[simp] theorem poolDone_zombie : (poolDone p l i).zombie = l.zombie := by unfold poolDone; split <;> rfl
@[simp] theorem poolDone_objects : (poolDone p l i).objects = l.objects := by unfold poolDone; split <;> rfl
theorem poolDone_idle : (poolDone p l i).idle = if p.mn ≤ l.idle then l.idle else l.idle + 1 := by
  unfold poolDone; split <;> rfl

theorem poolTake_some (l' : Loop) (h : poolTake p l i = some l') :
    l'.running = l.running ∧ l'.conns = l.conns ∧ l'.seen = l.seen ∧ l'.busy = l.busy ++ [i] ∧
    l'.registered = l.registered ∧ l'.zombie = l.zombie ∧ l'.objects = l.objects ∧
    ((0 < l.idle ∧ l'.idle = l.idle - 1) ∨ (l.idle = 0 ∧ l.busy.length < p.mx ∧ l'.idle = 0)) := by
  unfold poolTake at h
  split at h
  · simp at h; subst h; refine ⟨rfl, rfl, rfl, rfl, rfl, rfl, rfl, Or.inl ⟨by assumption, rfl⟩⟩
  · split at h
    · simp at h; subst h
      refine ⟨rfl, rfl, rfl, rfl, rfl, rfl, rfl, Or.inr ⟨by omega, by omega, by simp; omega⟩⟩
    · simp at h

theorem poolTake_none (h : poolTake p l i = none) : l.idle = 0 ∧ p.mx ≤ l.busy.length := by
  unfold poolTake at h
  split at h
  · simp at h
  · split at h
    · simp at h
    · omega

theorem poolTake_isSome (h : l.busy.length < p.mx) : ∃ l', poolTake p l i = some l' := by
  unfold poolTake
  split
  · exact ⟨_, rfl⟩
  · split
    · exact ⟨_, rfl⟩
    · omega

end prim

/-- Worker.run under a catch-all: the pool is always notified -/
theorem workerExit_good (p : Params) (hg : GoodCfg p.cfg) (l : Loop) (i : Nat) (e : Option Cls)
    (he : ∀ x, e = some x → isException x = true) : workerExit p l i e = poolDone p l i := by
  unfold workerExit
  cases e with
  | none => rfl
  | some x => simp [caught_of_exception hg.thrWorker (he x rfl)]

@[simp] theorem workerExit_running (p : Params) (l : Loop) (i : Nat) (e : Option Cls) :
    (workerExit p l i e).running = l.running := by
  unfold workerExit
  split
  · simp
  · split <;> simp

@[simp] theorem workerExit_conns (p : Params) (l : Loop) (i : Nat) (e : Option Cls) :
    (workerExit p l i e).conns = l.conns := by
  unfold workerExit
  split
  · simp
  · split <;> simp

@[simp] theorem workerExit_objects (p : Params) (l : Loop) (i : Nat) (e : Option Cls) :
    (workerExit p l i e).objects = l.objects := by
  unfold workerExit
  split
  · simp
  · split <;> simp

@[simp] theorem workerExit_seen (p : Params) (l : Loop) (i : Nat) (e : Option Cls) :
    (workerExit p l i e).seen = l.seen := by
  unfold workerExit
  split
  · simp
  · split <;> simp


/-! ### the loop state -/

theorem threadItem_running (p : Params) (l : Loop) (i : Nat) (c : Conn) (it : Item) (gone : Bool) (raw : Cls) :
    (threadItem p l i c it gone raw).running = l.running := by
  unfold threadItem
  split
  · rfl
  · simp only
    split
    · split <;> simp
    · split <;> simp
  · simp only
    split <;> simp

theorem threadDeny_good (p : Params) (hg : GoodCfg p.cfg) (l : Loop) (i : Nat) (c : Conn) (it : Item) (gone : Bool) :
    threadDeny p l i c it gone = setConn l i (closeNoHook (doDeny c it gone).conn) := by
  unfold threadDeny
  simp only
  split
  · rfl
  · rename_i e he
    have := (doDeny_esc c it gone e he).1
    subst this
    rw [if_pos (caught_of_exception hg.thrDeny (c := .connClosed) rfl)]

theorem threadDeny_running (p : Params) (hg : GoodCfg p.cfg) (l : Loop) (i : Nat) (c : Conn) (it : Item) (gone : Bool) :
    (threadDeny p l i c it gone).running = l.running := by
  rw [threadDeny_good p hg]; rfl

theorem threadStep_running (p : Params) (hg : GoodCfg p.cfg) (l : Loop) (ev : Ev) :
    (threadStep p l ev).running = l.running := by
  unfold threadStep
  split
  · split
    · rfl
    · split
      · rfl
      · split
        · rename_i l' h; simp [(poolTake_some p l _ l' h).1]
        · rfl
  · split
    · rfl
    · split
      · rfl
      · split
        · exact threadItem_running ..
        · split
          · rfl
          · split
            · rfl
            · split
              · rename_i l' h
                rw [threadItem_running]
                simp [(poolTake_some p l _ l' h).1]
              · rw [threadDeny_running p hg]

theorem muxStep_running (p : Params) (hg : GoodCfg p.cfg) (l : Loop) (ev : Ev) (hc : ClientEv ev) :
    (muxStep p l ev).running = l.running := by
  unfold muxStep
  split
  · rfl
  · rename_i i it gone raw
    have hraw : isException raw = true := hc
    split
    · rfl
    · split
      · rfl
      · split
        · rfl
        · split
          · rfl
          · simp only
            split
            · split <;> simp
            · rename_i e he
              have := (doHandshake_esc _ it gone e he).1
              subst this
              simp [caught_of_exception hg.muxShake (c := .connClosed) rfl]
        · split
          · rfl
          · simp only
            split
            · simp
            · rename_i e he
              have := doRequest_esc_exc _ it gone raw hraw e he
              simp [caught_of_exception hg.muxReq this]

theorem step_running (p : Params) (hg : GoodCfg p.cfg) (l : Loop) (ev : Ev) (hc : ClientEv ev) :
    (step p l ev).running = l.running := by
  unfold step
  split
  · exact threadStep_running p hg l ev
  · exact muxStep_running p hg l ev hc


/-! ### frame: an event on connection `i` does not touch the record of connection `j ≠ i` -/

theorem threadItem_frame (p : Params) (l : Loop) (i j : Nat) (h : i ≠ j) (c : Conn) (it : Item) (gone : Bool) (raw : Cls) :
    (threadItem p l i c it gone raw).conns[j]? = l.conns[j]? := by
  unfold threadItem
  split
  · rfl
  · simp only
    split
    · split <;> simp [h]
    · split <;> simp [h]
  · simp only
    split <;> simp [h]

theorem threadDeny_frame (p : Params) (l : Loop) (i j : Nat) (h : i ≠ j) (c : Conn) (it : Item) (gone : Bool) :
    (threadDeny p l i c it gone).conns[j]? = l.conns[j]? := by
  unfold threadDeny
  simp only
  split
  · simp [h]
  · split
    · simp [h]
    · split <;> simp [h]

theorem step_frame (p : Params) (l : Loop) (ev : Ev) (j : Nat) (h : ev.conn ≠ j) :
    (step p l ev).conns[j]? = l.conns[j]? := by
  unfold step
  split
  · unfold threadStep
    split
    · split
      · rfl
      · split
        · rfl
        · split
          · rename_i l' h'; simp [(poolTake_some p l _ l' h').2.1]
          · rfl
    · rename_i i it gone raw
      have h : i ≠ j := h
      split
      · rfl
      · split
        · rfl
        · split
          · exact threadItem_frame p l i j h ..
          · split
            · rfl
            · split
              · rfl
              · split
                · rename_i l' h'
                  rw [threadItem_frame p _ i j h]
                  simp [(poolTake_some p l _ l' h').2.1]
                · rw [threadDeny_frame p _ i j h]
  · unfold muxStep
    split
    · rfl
    · rename_i i it gone raw
      have h : i ≠ j := h
      split
      · rfl
      · split
        · rfl
        · split
          · rfl
          · split
            · rfl
            · simp only
              split
              · split <;> simp [h]
              · split
                · simp [h]
                · unfold muxLoopLevel; split <;> simp [h]
          · split
            · rfl
            · simp only
              split
              · simp [h]
              · split
                · simp [h]
                · unfold muxLoopLevel; split <;> simp [h]

theorem step_objects (p : Params) (l : Loop) (ev : Ev) : (step p l ev).objects = l.objects := by
  unfold step
  split
  · unfold threadStep
    split
    · split
      · rfl
      · split
        · rfl
        · split
          · rename_i l' h'; simp [(poolTake_some p l _ l' h').2.2.2.2.2.2.1]
          · rfl
    · split
      · rfl
      · split
        · rfl
        · split
          · unfold threadItem
            split
            · rfl
            · simp only; split
              · split <;> simp
              · split <;> simp
            · simp only; split <;> simp
          · split
            · rfl
            · split
              · rfl
              · split
                · rename_i l' h'
                  have := (poolTake_some p l _ l' h').2.2.2.2.2.2.1
                  unfold threadItem
                  split
                  · simpa using this
                  · simp only; split
                    · split <;> simpa using this
                    · split <;> simpa using this
                  · simp only; split <;> simpa using this
                · unfold threadDeny
                  simp only
                  split
                  · simp
                  · split
                    · simp
                    · split <;> simp
  · unfold muxStep
    split
    · rfl
    · split
      · rfl
      · split
        · rfl
        · split
          · rfl
          · split
            · rfl
            · simp only
              split
              · split <;> simp
              · split
                · simp
                · unfold muxLoopLevel; split <;> simp
          · split
            · rfl
            · simp only
              split
              · simp
              · split
                · simp
                · unfold muxLoopLevel; split <;> simp


/-! ### accounting invariants -/

@[simp] theorem doRequest_phase (c : Conn) (it : Item) (gone : Bool) (raw : Cls) :
    (doRequest c it gone raw).conn.phase = c.phase := by
  unfold doRequest
  simp only
  split
  · split <;> rfl
  · rfl

@[simp] theorem doHandshake_phase (c : Conn) (it : Item) (gone : Bool) :
    (doHandshake c it gone).conn.phase = c.phase := by
  unfold doHandshake
  split
  · rfl
  · split <;> rfl

@[simp] theorem closeNoHook_phase (c : Conn) : (closeNoHook c).phase = .closed := rfl
@[simp] theorem closeWithHook_phase (c : Conn) : (closeWithHook c).phase = .closed := rfl

/-- thread-pool server: the workers in `Pool.busy` are exactly the accepted connections that are
    not closed; nothing is abandoned; the idle set stays within its bounds -/
structure TInv (p : Params) (l : Loop) : Prop where
  nodup : l.busy.Nodup
  live : ∀ i, i ∈ l.busy ↔ (i ∈ l.seen ∧ ∃ c, l.conns[i]? = some c ∧ c.phase ≠ .closed)
  nozombie : l.zombie = []
  idle_le : l.idle ≤ p.mn
  total_ge : p.mn ≤ l.idle + l.busy.length

/-- a connection served by a worker stays open with a new record -/
theorem TInv.setLive {p : Params} {l : Loop} (h : TInv p l) {i : Nat} {c0 c : Conn}
    (hc : l.conns[i]? = some c0) (hb : i ∈ l.busy) (hp : c.phase ≠ .closed) : TInv p (setConn l i c) := by
  refine ⟨h.nodup, ?_, h.nozombie, h.idle_le, h.total_ge⟩
  intro j
  by_cases hij : i = j
  · subst hij
    simp only [setConn_busy, setConn_seen, setConn_get_self l i c c0 hc]
    constructor
    · intro hb'; exact ⟨((h.live i).1 hb').1, c, rfl, hp⟩
    · intro _; exact hb
  · simp only [setConn_busy, setConn_seen, setConn_get_ne l i c j hij]
    exact h.live j

/-- a connection served by a worker is closed and its worker goes back to the pool -/
theorem TInv.closeDone {p : Params} {l : Loop} (h : TInv p l) {i : Nat} {c0 c : Conn}
    (hc : l.conns[i]? = some c0) (hb : i ∈ l.busy) (hp : c.phase = .closed) :
    TInv p (poolDone p (setConn l i c) i) := by
  have hlen : (l.busy.erase i).length + 1 = l.busy.length := by
    rw [List.length_erase_of_mem hb]
    have : 0 < l.busy.length := List.length_pos_of_mem hb
    omega
  refine ⟨?_, ?_, ?_, ?_, ?_⟩
  · simpa using h.nodup.erase i
  · intro j
    simp only [poolDone_busy, poolDone_seen, poolDone_conns, setConn_busy, setConn_seen]
    rw [h.nodup.mem_erase_iff]
    by_cases hij : i = j
    · subst hij
      rw [setConn_get_self l i c c0 hc]
      constructor
      · intro hh; exact absurd rfl hh.1
      · rintro ⟨_, c', hc', hp'⟩
        simp only [Option.some.injEq] at hc'; subst hc'; exact absurd hp hp'
    · rw [setConn_get_ne l i c j hij]
      constructor
      · intro hh; exact (h.live j).1 hh.2
      · intro hh; exact ⟨fun e => hij e.symm, (h.live j).2 hh⟩
  · simpa using h.nozombie
  · rw [poolDone_idle, show (setConn l i c).idle = l.idle from rfl]
    have := h.idle_le
    by_cases hm : p.mn ≤ l.idle
    · rw [if_pos hm]; omega
    · rw [if_neg hm]; omega
  · rw [poolDone_idle, show (setConn l i c).idle = l.idle from rfl]; simp only [poolDone_busy, setConn_busy]
    have := h.total_ge
    by_cases hm : p.mn ≤ l.idle
    · rw [if_pos hm]; omega
    · rw [if_neg hm]; omega

/-- the acceptor hands a new connection to a worker -/
theorem TInv.accept {p : Params} {l l' : Loop} (h : TInv p l) {i : Nat} {c : Conn}
    (hc : l.conns[i]? = some c) (hp : c.phase = .fresh) (hs : i ∉ l.seen) (ht : poolTake p l i = some l') :
    TInv p { l' with seen := l'.seen ++ [i] } ∧ i ∈ l'.busy ∧ l'.conns = l.conns := by
  obtain ⟨_, hconns, hseen, hbusy, _, hz, _, hidle⟩ := poolTake_some p l i l' ht
  have hnb : i ∉ l.busy := fun hb => hs ((h.live i).1 hb).1
  refine ⟨⟨?_, ?_, ?_, ?_, ?_⟩, by simp [hbusy], hconns⟩
  · simp only [hbusy]
    rw [List.nodup_append]
    refine ⟨h.nodup, by simp, ?_⟩
    intro a ha b hb'
    simp only [List.mem_singleton] at hb'
    subst hb'
    intro e; subst e; exact hnb ha
  · intro j
    simp only [hbusy, hseen, hconns, List.mem_append, List.mem_singleton]
    by_cases hij : j = i
    · subst hij
      constructor
      · intro _; exact ⟨Or.inr rfl, c, hc, by rw [hp]; decide⟩
      · intro _; exact Or.inr rfl
    · constructor
      · rintro (hh | hh)
        · have := (h.live j).1 hh; exact ⟨Or.inl this.1, this.2⟩
        · exact absurd hh hij
      · rintro ⟨hh | hh, hx⟩
        · exact Or.inl ((h.live j).2 ⟨hh, hx⟩)
        · exact absurd hh hij
  · simpa [hz] using h.nozombie
  · have := h.idle_le
    rcases hidle with ⟨_, h2⟩ | ⟨_, _, h2⟩ <;> simp only [h2] <;> omega
  · have := h.total_ge
    simp only [hbusy, List.length_append, List.length_singleton]
    rcases hidle with ⟨_, h2⟩ | ⟨_, _, h2⟩ <;> simp only [h2] <;> omega

theorem threadItem_inv (p : Params) (hg : GoodCfg p.cfg) (l : Loop) (h : TInv p l) (i : Nat) (c : Conn)
    (hc : l.conns[i]? = some c) (hb : i ∈ l.busy) (it : Item) (gone : Bool) (raw : Cls)
    (hraw : isException raw = true) : TInv p (threadItem p l i c it gone raw) := by
  unfold threadItem
  split
  · exact h
  · rename_i hp
    simp only
    split
    · split
      · exact h.setLive hc hb (by simp)
      · simp only [workerExit]
        exact h.closeDone hc hb (by simp)
    · rename_i e he
      have := (doHandshake_esc c it gone e he).1
      subst this
      rw [if_pos (caught_of_exception hg.thrShake (c := .connClosed) rfl)]
      simp only [workerExit]
      exact h.closeDone hc hb (by simp)
  · rename_i hp
    simp only
    split
    · exact h.setLive hc hb (by simp [hp])
    · rename_i e he
      have hx := doRequest_esc_exc c it gone raw hraw e he
      rw [workerExit_good p hg]
      · exact h.closeDone hc hb (by simp)
      · intro x; split <;> intro hx' <;> simp at hx'; subst hx'; exact hx

theorem threadStep_inv (p : Params) (hg : GoodCfg p.cfg) (l : Loop) (h : TInv p l) (ev : Ev) (hc : ClientEv ev) :
    TInv p (threadStep p l ev) := by
  unfold threadStep
  split
  · rename_i i
    split
    · exact h
    · rename_i c hci
      split
      · exact h
      · rename_i hcond
        simp only [Bool.or_eq_true, Bool.not_eq_true', List.contains_eq_mem, decide_eq_true_eq, bne_iff_ne, ne_eq,
          not_or, Decidable.not_not] at hcond
        split
        · rename_i l' ht
          exact (h.accept hci hcond.2 hcond.1.2 ht).1
        · exact h
  · rename_i i it gone raw
    have hraw : isException raw = true := hc
    split
    · exact h
    · rename_i c hci
      split
      · exact h
      · split
        · rename_i hb
          exact threadItem_inv p hg l h i c hci (by simpa using hb) it gone raw hraw
        · split
          · exact h
          · rename_i hnb hns
            split
            · exact h
            · rename_i hcond
              simp only [Bool.or_eq_true, Bool.not_eq_true', bne_iff_ne, ne_eq, not_or, Decidable.not_not] at hcond
              have hns' : i ∉ l.seen := by simpa using hns
              split
              · rename_i l' ht
                obtain ⟨hinv, hb', hconns⟩ := h.accept hci hcond.2 hns' ht
                exact threadItem_inv p hg _ hinv i c (by simpa [hconns] using hci) (by simpa using hb') it gone raw hraw
              · -- denied: closed by the acceptor, never held a worker
                rw [threadDeny_good p hg]
                have hnb' : i ∉ l.busy := by simpa using hnb
                refine ⟨h.nodup, ?_, h.nozombie, h.idle_le, h.total_ge⟩
                intro j
                simp only [setConn_busy, setConn_seen, List.mem_append, List.mem_singleton]
                by_cases hij : i = j
                · subst hij
                  rw [setConn_get_self _ i _ c (by simpa using hci)]
                  constructor
                  · intro hh; exact absurd hh hnb'
                  · rintro ⟨_, c', hc', hp'⟩
                    simp only [Option.some.injEq] at hc'; subst hc'; simp at hp'
                · rw [setConn_get_ne _ i _ j hij]
                  constructor
                  · intro hh; have := (h.live j).1 hh; exact ⟨Or.inl this.1, this.2⟩
                  · rintro ⟨hh | hh, hx⟩
                    · exact (h.live j).2 ⟨hh, hx⟩
                    · exact absurd hh.symm hij

/-- multiplex server: the selector holds exactly the active connections; nothing is abandoned -/
structure MInv (l : Loop) : Prop where
  nodup : l.registered.Nodup
  reg : ∀ i, i ∈ l.registered ↔ ∃ c, l.conns[i]? = some c ∧ c.phase = .active
  nozombie : l.zombie = []

theorem muxStep_inv (p : Params) (hg : GoodCfg p.cfg) (l : Loop) (h : MInv l) (ev : Ev) (hc : ClientEv ev) :
    MInv (muxStep p l ev) := by
  unfold muxStep
  split
  · exact h
  · rename_i i it gone raw
    have hraw : isException raw = true := hc
    split
    · exact h
    · rename_i c hci
      split
      · exact h
      · split
        · exact h
        · rename_i hp
          split
          · exact h
          · have hnr : i ∉ l.registered := by
              intro hr
              obtain ⟨c', hc', hp'⟩ := (h.reg i).1 hr
              rw [hci] at hc'; simp only [Option.some.injEq] at hc'; subst hc'
              rw [hp] at hp'; cases hp'
            -- a failed handshake: closed, never registered
            have closedCase : ∀ (c' : Conn), c'.phase = .closed →
                MInv (setConn { l with seen := l.seen ++ [i] } i c') := by
              intro c' hp'
              refine ⟨h.nodup, ?_, h.nozombie⟩
              intro j
              simp only [setConn_registered]
              by_cases hij : i = j
              · subst hij
                rw [setConn_get_self _ i _ c (by simpa using hci)]
                constructor
                · intro hh; exact absurd hh hnr
                · rintro ⟨c'', hc'', hp''⟩
                  simp only [Option.some.injEq] at hc''; subst hc''; rw [hp'] at hp''; cases hp''
              · rw [setConn_get_ne _ i _ j hij]; exact h.reg j
            simp only
            split
            · split
              · refine ⟨?_, ?_, h.nozombie⟩
                · simp only
                  rw [List.nodup_append]
                  refine ⟨h.nodup, by simp, ?_⟩
                  intro a ha b hb'
                  simp only [List.mem_singleton] at hb'
                  subst hb'
                  intro e; subst e; exact hnr ha
                · intro j
                  simp only [List.mem_append, List.mem_singleton]
                  by_cases hij : i = j
                  · subst hij
                    rw [setConn_get_self _ i _ c (by simpa using hci)]
                    constructor
                    · intro _; exact ⟨_, rfl, rfl⟩
                    · intro _; exact Or.inr rfl
                  · rw [setConn_get_ne _ i _ j hij]
                    constructor
                    · rintro (hh | hh)
                      · exact (h.reg j).1 hh
                      · exact absurd hh.symm hij
                    · intro hh; exact Or.inl ((h.reg j).2 hh)
              · exact closedCase _ (by simp)
            · rename_i e he
              have := (doHandshake_esc c it gone e he).1
              subst this
              rw [if_pos (caught_of_exception hg.muxShake (c := .connClosed) rfl)]
              exact closedCase _ (by simp)
        · rename_i hp
          split
          · exact h
          · rename_i hr
            have hr' : i ∈ l.registered := by simpa using hr
            simp only
            split
            · refine ⟨h.nodup, ?_, h.nozombie⟩
              intro j
              simp only [setConn_registered]
              by_cases hij : i = j
              · subst hij
                rw [setConn_get_self _ i _ c hci]
                constructor
                · intro _; exact ⟨_, rfl, by simp [hp]⟩
                · intro _; exact hr'
              · rw [setConn_get_ne _ i _ j hij]; exact h.reg j
            · rename_i e he
              have hx := doRequest_esc_exc c it gone raw hraw e he
              rw [if_pos (caught_of_exception hg.muxReq hx)]
              refine ⟨by simpa using h.nodup.erase i, ?_, h.nozombie⟩
              intro j
              simp only
              rw [h.nodup.mem_erase_iff]
              by_cases hij : i = j
              · subst hij
                rw [setConn_get_self _ i _ c hci]
                constructor
                · intro hh; exact absurd rfl hh.1
                · rintro ⟨c'', hc'', hp''⟩
                  simp only [Option.some.injEq] at hc''; subst hc''; simp at hp''
              · rw [setConn_get_ne _ i _ j hij]
                constructor
                · intro hh; exact (h.reg j).1 hh.2
                · intro hh; exact ⟨fun e => hij e.symm, (h.reg j).2 hh⟩


/-! ### membership frame: an event on `i` changes the membership of no other id in any set -/

def MemFrame (l l' : Loop) (j : Nat) : Prop :=
  (j ∈ l'.busy ↔ j ∈ l.busy) ∧ (j ∈ l'.zombie ↔ j ∈ l.zombie) ∧
  (j ∈ l'.registered ↔ j ∈ l.registered) ∧ (j ∈ l'.seen ↔ j ∈ l.seen)

theorem MemFrame.refl (l : Loop) (j : Nat) : MemFrame l l j := ⟨Iff.rfl, Iff.rfl, Iff.rfl, Iff.rfl⟩

theorem MemFrame.trans {l l' l'' : Loop} {j : Nat} (h1 : MemFrame l l' j) (h2 : MemFrame l' l'' j) : MemFrame l l'' j :=
  ⟨h2.1.trans h1.1, h2.2.1.trans h1.2.1, h2.2.2.1.trans h1.2.2.1, h2.2.2.2.trans h1.2.2.2⟩

theorem memFrame_setConn (l : Loop) (i j : Nat) (c : Conn) : MemFrame l (setConn l i c) j := MemFrame.refl l j

theorem memFrame_poolDone (p : Params) (l : Loop) (i j : Nat) (h : j ≠ i) : MemFrame l (poolDone p l i) j := by
  refine ⟨?_, ?_, ?_, ?_⟩ <;> simp [List.mem_erase_of_ne h]

theorem memFrame_workerExit (p : Params) (l : Loop) (i j : Nat) (h : j ≠ i) (e : Option Cls) :
    MemFrame l (workerExit p l i e) j := by
  unfold workerExit
  split
  · exact memFrame_poolDone p l i j h
  · split
    · exact memFrame_poolDone p l i j h
    · refine ⟨Iff.rfl, ?_, Iff.rfl, Iff.rfl⟩
      simp [List.mem_append, h]

theorem memFrame_accept (p : Params) (l l' : Loop) (i j : Nat) (h : j ≠ i) (ht : poolTake p l i = some l') :
    MemFrame l { l' with seen := l'.seen ++ [i] } j := by
  obtain ⟨_, _, hseen, hbusy, hreg, hz, _, _⟩ := poolTake_some p l i l' ht
  refine ⟨?_, ?_, ?_, ?_⟩ <;> simp [hseen, hbusy, hreg, hz, List.mem_append, h]

theorem memFrame_threadItem (p : Params) (l : Loop) (i j : Nat) (h : j ≠ i) (c : Conn) (it : Item) (gone : Bool) (raw : Cls) :
    MemFrame l (threadItem p l i c it gone raw) j := by
  unfold threadItem
  split
  · exact MemFrame.refl l j
  · simp only
    split
    · split
      · exact memFrame_setConn ..
      · exact (memFrame_setConn l i j _).trans (memFrame_workerExit p _ i j h _)
    · split
      · exact (memFrame_setConn l i j _).trans (memFrame_workerExit p _ i j h _)
      · exact (memFrame_setConn l i j _).trans (memFrame_workerExit p _ i j h _)
  · simp only
    split
    · exact memFrame_setConn ..
    · exact (memFrame_setConn l i j _).trans (memFrame_workerExit p _ i j h _)

theorem step_mem_frame (p : Params) (l : Loop) (ev : Ev) (j : Nat) (h : ev.conn ≠ j) : MemFrame l (step p l ev) j := by
  unfold step
  split
  · unfold threadStep
    split
    · rename_i i
      have hji : j ≠ i := fun e => h e.symm
      split
      · exact MemFrame.refl l j
      · split
        · exact MemFrame.refl l j
        · split
          · rename_i l' ht; exact memFrame_accept p l l' i j hji ht
          · exact MemFrame.refl l j
    · rename_i i it gone raw
      have hji : j ≠ i := fun e => h e.symm
      split
      · exact MemFrame.refl l j
      · split
        · exact MemFrame.refl l j
        · split
          · exact memFrame_threadItem p l i j hji ..
          · split
            · exact MemFrame.refl l j
            · split
              · exact MemFrame.refl l j
              · split
                · rename_i l' ht
                  exact (memFrame_accept p l l' i j hji ht).trans (memFrame_threadItem p _ i j hji ..)
                · unfold threadDeny
                  have base : MemFrame l { l with seen := l.seen ++ [i] } j := by
                    refine ⟨Iff.rfl, Iff.rfl, Iff.rfl, ?_⟩
                    simp [List.mem_append, hji]
                  simp only
                  split
                  · exact base
                  · split
                    · exact base
                    · split
                      · refine ⟨base.1, ?_, base.2.2.1, base.2.2.2⟩
                        simp [List.mem_append, hji]
                      · refine ⟨base.1, ?_, base.2.2.1, base.2.2.2⟩
                        simp [List.mem_append, hji]
  · unfold muxStep
    split
    · exact MemFrame.refl l j
    · rename_i i it gone raw
      have hji : j ≠ i := fun e => h e.symm
      split
      · exact MemFrame.refl l j
      · split
        · exact MemFrame.refl l j
        · split
          · exact MemFrame.refl l j
          · split
            · exact MemFrame.refl l j
            · have base : MemFrame l { l with seen := l.seen ++ [i] } j := by
                refine ⟨Iff.rfl, Iff.rfl, Iff.rfl, ?_⟩
                simp [List.mem_append, hji]
              simp only
              split
              · split
                · refine ⟨base.1, base.2.1, ?_, base.2.2.2⟩
                  simp [List.mem_append, hji]
                · exact base
              · split
                · exact base
                · unfold muxLoopLevel
                  split
                  · refine ⟨base.1, ?_, base.2.2.1, base.2.2.2⟩
                    simp [List.mem_append, hji]
                  · refine ⟨base.1, ?_, base.2.2.1, base.2.2.2⟩
                    simp [List.mem_append, hji]
          · split
            · exact MemFrame.refl l j
            · simp only
              split
              · exact memFrame_setConn ..
              · split
                · refine ⟨Iff.rfl, Iff.rfl, ?_, Iff.rfl⟩
                  simp [List.mem_erase_of_ne hji]
                · unfold muxLoopLevel
                  split
                  · exact ⟨Iff.rfl, Iff.rfl, Iff.rfl, Iff.rfl⟩
                  · exact ⟨Iff.rfl, Iff.rfl, Iff.rfl, Iff.rfl⟩


/-! ### a served connection sees exactly `Server.connEvent` of its own items -/

/-- the connection is being served: a worker holds it / it is registered with a running loop -/
def Served (p : Params) (l : Loop) (w : Nat) : Prop :=
  match p.kind with
  | .thread => w ∈ l.busy ∧ w ∉ l.zombie
  | .multiplex => l.running = true ∧ w ∈ l.registered ∧ w ∉ l.zombie

def evOn (w : Nat) (ev : Ev) (c : Conn) : Conn :=
  match ev with
  | .connect _ => c
  | .item i it _ _ => if i = w then connEvent c it else c

theorem step_closed_stays (p : Params) (l : Loop) (ev : Ev) (w : Nat) (c : Conn)
    (hcw : l.conns[w]? = some c) (hp : c.phase = .closed) : (step p l ev).conns[w]? = some c := by
  by_cases hw : ev.conn = w
  · cases ev with
    | connect i =>
      have : i = w := hw
      subst this
      unfold step threadStep muxStep
      split
      · simp [hcw, hp]
      · exact hcw
    | item i it gone raw =>
      have : i = w := hw
      subst this
      unfold step threadStep muxStep
      split
      · simp only [hcw]
        split
        · exact hcw
        · split
          · unfold threadItem; simp [hp, hcw]
          · split
            · exact hcw
            · simp [hp, hcw]
      · simp only [hcw]
        split
        · exact hcw
        · simp [hp, hcw]
  · rw [step_frame p l ev w hw]; exact hcw

theorem step_witness (p : Params) (hg : GoodCfg p.cfg) (l : Loop) (ev : Ev) (hc : ClientEv ev) (w : Nat) (c : Conn)
    (hcw : l.conns[w]? = some c) (hp : c.phase = .active) (hs : Served p l w)
    (hstay : ∀ it gone raw, ev = .item w it gone raw → gone = false) :
    (step p l ev).conns[w]? = some (evOn w ev c) ∧
    ((evOn w ev c).phase = .active → Served p (step p l ev) w) := by
  by_cases hw : ev.conn = w
  · cases ev with
    | connect i =>
      have : i = w := hw
      subst this
      have hstep : step p l (.connect i) = l := by
        unfold step threadStep muxStep
        split
        · simp [hcw, hp]
        · rfl
      rw [hstep]
      exact ⟨hcw, fun _ => hs⟩
    | item i it gone raw =>
      have : i = w := hw
      subst this
      have hgone : gone = false := hstay it gone raw rfl
      subst hgone
      obtain ⟨hesc, hce⟩ := doRequest_connEvent c it raw hp
      simp only [evOn, if_true]
      unfold Served at hs ⊢
      unfold step
      cases hk : p.kind with
      | thread =>
        rw [hk] at hs
        simp only at hs ⊢
        unfold threadStep
        simp only [hcw]
        rw [if_neg (by simpa using hs.2), if_pos (by simpa using hs.1)]
        unfold threadItem
        simp only [hp]
        cases he : (doRequest c it false raw).esc with
        | none =>
          simp only [he, Option.isSome_none, Bool.false_eq_true, if_false] at hce
          simp only [setConn_get_self l i _ c hcw, hce, setConn_busy, setConn_zombie]
          exact ⟨trivial, fun _ => hs⟩
        | some e =>
          simp only [he, Option.isSome_some, if_true] at hce
          simp only [workerExit_conns, setConn_get_self l i _ c hcw, hce]
          exact ⟨trivial, fun h => by simp at h⟩
      | multiplex =>
        rw [hk] at hs
        simp only at hs ⊢
        unfold muxStep
        simp only [hcw, hp]
        rw [if_neg (by simp [hs.1, hs.2.2]), if_neg (by simp [hs.2.1])]
        cases he : (doRequest c it false raw).esc with
        | none =>
          simp only [he, Option.isSome_none, Bool.false_eq_true, if_false] at hce
          simp only [setConn_get_self l i _ c hcw, hce, setConn_running, setConn_registered, setConn_zombie]
          exact ⟨trivial, fun _ => hs⟩
        | some e =>
          have hx := doRequest_esc_exc c it false raw hc e he
          simp only [he, Option.isSome_some, if_true] at hce
          simp only [caught_of_exception hg.muxReq hx, if_true, hce]
          refine ⟨?_, fun h => by simp at h⟩
          exact setConn_get_self l i _ c hcw
  · have hev : evOn w ev c = c := by
      cases ev with
      | connect i => rfl
      | item i it gone raw => simp only [evOn]; exact if_neg hw
    rw [hev, step_frame p l ev w hw]
    refine ⟨hcw, fun _ => ?_⟩
    have hm := step_mem_frame p l ev w hw
    have hr := step_running p hg l ev hc
    unfold Served at hs ⊢
    cases hk : p.kind with
    | thread =>
      rw [hk] at hs; simp only at hs ⊢
      exact ⟨hm.1.2 hs.1, fun hz => hs.2 (hm.2.1.1 hz)⟩
    | multiplex =>
      rw [hk] at hs; simp only at hs ⊢
      exact ⟨by rw [hr]; exact hs.1, hm.2.2.1.2 hs.2.1, fun hz => hs.2.2 (hm.2.1.1 hz)⟩

end Pyro.ServerLoop
