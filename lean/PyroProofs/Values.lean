/-
  Helper lemmas for the value-mapping model (PyroModel/Values.lean): the decimal codec, the
  little-endian struct fields, msgpack's ext round trips, and dict (Pairs) bookkeeping.
  Property theorems live in PyroProps/C01.lean.
-/
import PyroModel.Values

namespace Pyro.Values

open Pyro

/-! ### decimal text of an integer: `int(str(z)) = z` -/

def digitsVal : List Nat → Nat → Nat
  | [], a => a
  | d :: ds, a => digitsVal ds (a * 10 + d)

theorem digitsVal_acc (ds : List Nat) (a : Nat) : digitsVal ds a = a * 10 ^ ds.length + digitsVal ds 0 := by
  induction ds generalizing a with
  | nil => simp [digitsVal]
  | cons d ds ih =>
    simp only [digitsVal, List.length_cons]
    rw [ih (a * 10 + d), ih (0 * 10 + d)]
    rw [Nat.pow_succ, Nat.add_mul]
    simp only [Nat.zero_mul, Nat.zero_add]
    rw [Nat.mul_assoc, Nat.mul_comm 10 (10 ^ ds.length)]
    omega

theorem natDigitsAux_val (fuel n : Nat) (acc : List Nat) (h : n < fuel) :
    digitsVal (natDigitsAux fuel n acc) 0 = n * 10 ^ acc.length + digitsVal acc 0 := by
  induction fuel generalizing n acc with
  | zero => omega
  | succ f ih =>
    simp only [natDigitsAux]
    by_cases h10 : n < 10
    · rw [if_pos h10]
      simp only [digitsVal, Nat.zero_mul, Nat.zero_add]
      rw [digitsVal_acc]
    · rw [if_neg h10]
      rw [ih (n / 10) (n % 10 :: acc) (by omega)]
      simp only [digitsVal, List.length_cons, Nat.zero_mul, Nat.zero_add]
      rw [digitsVal_acc acc (n % 10), Nat.pow_succ]
      have := Nat.div_add_mod n 10
      have e : n / 10 * (10 ^ acc.length * 10) = (10 * (n / 10)) * 10 ^ acc.length := by
        rw [Nat.mul_comm (10 ^ acc.length) 10, ← Nat.mul_assoc, Nat.mul_comm (n / 10) 10]
      rw [e, ← Nat.add_assoc, ← Nat.add_mul, this]

theorem natDigitsAux_lt10 (fuel n : Nat) (acc : List Nat) (h : n < fuel) (hacc : ∀ d ∈ acc, d < 10) :
    ∀ d ∈ natDigitsAux fuel n acc, d < 10 := by
  induction fuel generalizing n acc with
  | zero => omega
  | succ f ih =>
    simp only [natDigitsAux]
    by_cases h10 : n < 10
    · rw [if_pos h10]
      intro d hd
      rcases List.mem_cons.mp hd with rfl | h'
      · exact h10
      · exact hacc d h'
    · rw [if_neg h10]
      apply ih (n / 10) (n % 10 :: acc) (by omega)
      intro d hd
      rcases List.mem_cons.mp hd with rfl | h'
      · omega
      · exact hacc d h'

theorem natDigitsAux_ne_nil (fuel n : Nat) (acc : List Nat) (h : n < fuel) : natDigitsAux fuel n acc ≠ [] := by
  induction fuel generalizing n acc with
  | zero => omega
  | succ f ih =>
    simp only [natDigitsAux]
    by_cases h10 : n < 10
    · rw [if_pos h10]; simp
    · rw [if_neg h10]; exact ih _ _ (by omega)

theorem natDigits_val (n : Nat) : digitsVal (natDigits n) 0 = n := by
  unfold natDigits
  rw [natDigitsAux_val _ _ _ (by omega)]
  simp [digitsVal]

theorem natDigits_lt10 (n : Nat) : ∀ d ∈ natDigits n, d < 10 :=
  natDigitsAux_lt10 _ _ _ (by omega) (by simp)

theorem natDigits_ne_nil (n : Nat) : natDigits n ≠ [] := natDigitsAux_ne_nil _ _ _ (by omega)

def digitChar (d : Nat) : UInt8 := UInt8.ofNat (48 + d)

theorem digitChar_toNat (d : Nat) (h : d < 10) : (digitChar d).toNat = 48 + d := by
  unfold digitChar
  rw [UInt8.toNat_ofNat']
  omega

theorem parseDigits_map (ds : List Nat) (a : Nat) (h : ∀ d ∈ ds, d < 10) :
    parseDigits (ds.map digitChar) a = some (digitsVal ds a) := by
  induction ds generalizing a with
  | nil => rfl
  | cons d ds ih =>
    have hd : d < 10 := h d (by simp)
    simp only [List.map_cons, parseDigits, digitsVal]
    rw [digitChar_toNat d hd]
    rw [if_pos (by omega)]
    have : 48 + d - 48 = d := by omega
    rw [this]
    exact ih _ (fun x hx => h x (by simp [hx]))

theorem asciiToInt_intToAscii (z : Int) : asciiToInt (intToAscii z) = some z := by
  unfold intToAscii
  have hmap : (natDigits z.natAbs).map (fun d => UInt8.ofNat (48 + d)) = (natDigits z.natAbs).map digitChar := rfl
  simp only [hmap]
  have hp := parseDigits_map (natDigits z.natAbs) 0 (natDigits_lt10 _)
  rw [natDigits_val] at hp
  by_cases hz : z < 0
  · rw [if_pos hz]
    have hne : (natDigits z.natAbs).map digitChar ≠ [] := by
      intro h
      exact natDigits_ne_nil _ (List.map_eq_nil_iff.mp h)
    simp only [asciiToInt, if_true, if_neg hne, hp]
    simp only [Option.some.injEq, Int.ofNat_eq_natCast]
    omega
  · rw [if_neg hz]
    cases hds : natDigits z.natAbs with
    | nil => exact absurd hds (natDigits_ne_nil _)
    | cons d ds =>
      have hd : d < 10 := natDigits_lt10 z.natAbs d (by rw [hds]; simp)
      rw [hds] at hp
      simp only [List.map_cons] at hp ⊢
      have h45 : digitChar d ≠ 45 := by
        intro h
        have := congrArg UInt8.toNat h
        rw [digitChar_toNat d hd] at this
        have h2 : (45 : UInt8).toNat = 45 := rfl
        omega
      simp only [asciiToInt, if_neg h45, hp]
      simp only [Option.some.injEq, Int.ofNat_eq_natCast]
      omega

/-! ### little-endian fields -/

theorem fromLE_toLE (w n : Nat) (h : n < 256 ^ w) : fromLE (toLE w n) = n := by
  unfold fromLE toLE
  rw [List.reverse_reverse]
  exact fromBE_toBE w n h

@[simp] theorem toLE_length (w n : Nat) : (toLE w n).length = w := by
  unfold toLE; simp

theorem take_toLE_append (w n : Nat) (b : Bytes) : (toLE w n ++ b).take w = toLE w n := by
  rw [List.take_append_of_le_length (by simp)]
  rw [List.take_of_length_le (by simp)]

theorem drop_toLE_append (w n : Nat) (b : Bytes) : (toLE w n ++ b).drop w = b := by
  rw [List.drop_append_of_le_length (by simp)]
  rw [List.drop_of_length_le (by simp)]
  rfl

/-! ### msgpack ext values: `ext_hook` undoes what `default` built -/

theorem extHook_complex (re im : Nat) (hr : re < 2 ^ 64) (hi : im < 2 ^ 64) :
    extHook extComplex (toLE 8 re ++ toLE 8 im) = .ok (.complex re im) := by
  unfold extHook
  simp only [if_true]
  rw [if_pos (by simp)]
  rw [take_toLE_append, drop_toLE_append, fromLE_toLE 8 re (by simpa using hr), fromLE_toLE 8 im (by simpa using hi)]

theorem extHook_long (z : Int) : extHook extLong (intToAscii z) = .ok (.int z) := by
  unfold extHook
  rw [if_neg (by decide), if_pos rfl, asciiToInt_intToAscii]

theorem extHook_date (ord : Nat) (h1 : 1 ≤ ord) (h2 : ord ≤ maxOrdinal) :
    extHook extDate (toLE 8 ord) = .ok (.date ord) := by
  unfold extHook
  rw [if_neg (by decide), if_neg (by decide), if_neg (by decide), if_pos rfl, if_pos (by simp)]
  have : ord < 256 ^ 8 := by unfold maxOrdinal at h2; omega
  simp only [fromLE_toLE 8 ord this]
  rw [if_pos ⟨h1, h2⟩]

/-! ### dict bookkeeping (recursive theorems: `Pairs` is part of a mutual inductive type) -/

theorem Pairs.lookup_none_of_hasKey_false (k : Val) : ∀ (d : Pairs), d.hasKey k = false → d.lookup k = none
  | .nil, _ => rfl
  | .cons k' v r, h => by
    simp only [Pairs.hasKey] at h
    simp only [Pairs.lookup]
    by_cases e : k' = k
    · rw [if_pos e] at h; cases h
    · rw [if_neg e] at h ⊢; exact Pairs.lookup_none_of_hasKey_false k r h

theorem Pairs.hasKey_false_of_lookup_none (k : Val) : ∀ (d : Pairs), d.lookup k = none → d.hasKey k = false
  | .nil, _ => rfl
  | .cons k' v r, h => by
    simp only [Pairs.lookup] at h
    simp only [Pairs.hasKey]
    by_cases e : k' = k
    · rw [if_pos e] at h; cases h
    · rw [if_neg e] at h ⊢; exact Pairs.hasKey_false_of_lookup_none k r h

theorem Pairs.pushFront_fresh (k v : Val) (r : Pairs) (h : r.hasKey k = false) :
    r.pushFront k v = .cons k v r := by
  unfold Pairs.pushFront
  rw [Pairs.lookup_none_of_hasKey_false k r h]

theorem Pairs.hasKey_erase (k k' : Val) : ∀ (d : Pairs),
    (d.erase k).hasKey k' = (if k' = k then false else d.hasKey k')
  | .nil => by simp [Pairs.erase, Pairs.hasKey]
  | .cons a v r => by
    have ih := Pairs.hasKey_erase k k' r
    simp only [Pairs.erase]
    by_cases e : a = k
    · rw [if_pos e, ih]
      simp only [Pairs.hasKey]
      by_cases e2 : k' = k
      · simp [e2]
      · rw [if_neg e2, if_neg e2]
        rw [if_neg (by rw [e]; exact fun h => e2 h.symm)]
    · rw [if_neg e]
      simp only [Pairs.hasKey, ih]
      by_cases e2 : k' = k
      · rw [if_pos e2, if_pos e2]
        rw [if_neg (by rw [e2]; exact e)]
      · rw [if_neg e2, if_neg e2]

theorem Pairs.nodupKeys_erase (k : Val) : ∀ (d : Pairs), d.nodupKeys = true → (d.erase k).nodupKeys = true
  | .nil, _ => rfl
  | .cons a v r, h => by
    simp only [Pairs.nodupKeys, Bool.and_eq_true, Bool.not_eq_true'] at h
    simp only [Pairs.erase]
    by_cases e : a = k
    · rw [if_pos e]; exact Pairs.nodupKeys_erase k r h.2
    · rw [if_neg e]
      simp only [Pairs.nodupKeys, Bool.and_eq_true, Bool.not_eq_true']
      refine ⟨?_, Pairs.nodupKeys_erase k r h.2⟩
      rw [Pairs.hasKey_erase]
      rw [if_neg e]
      exact h.1

theorem Pairs.hasKey_pushFront (k v k' : Val) (r : Pairs) :
    (r.pushFront k v).hasKey k' = (if k = k' then true else r.hasKey k') := by
  unfold Pairs.pushFront
  cases hl : r.lookup k with
  | none => simp [Pairs.hasKey]
  | some v' =>
    simp only [Pairs.hasKey]
    by_cases e : k = k'
    · rw [if_pos e, if_pos e]
    · rw [if_neg e, if_neg e, Pairs.hasKey_erase]
      rw [if_neg (fun h => e h.symm)]

theorem Pairs.nodupKeys_pushFront (k v : Val) (r : Pairs) (h : r.nodupKeys = true) :
    (r.pushFront k v).nodupKeys = true := by
  unfold Pairs.pushFront
  cases hl : r.lookup k with
  | none =>
    simp only [Pairs.nodupKeys, Bool.and_eq_true, Bool.not_eq_true']
    exact ⟨Pairs.hasKey_false_of_lookup_none k r hl, h⟩
  | some v' =>
    simp only [Pairs.nodupKeys, Bool.and_eq_true, Bool.not_eq_true']
    refine ⟨?_, Pairs.nodupKeys_erase k r h⟩
    rw [Pairs.hasKey_erase]; simp

end Pyro.Values
