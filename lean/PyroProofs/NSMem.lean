/-
  NSMem.lean — `MemoryStorage` (a dict) meets the storage contract `StoreOK`; the represented map is the
  dict itself.
-/
import PyroProofs.NSRefine

namespace Pyro.NS

theorem filter_ne_of_not_any {s : List Entry} {n : Str} (h : s.any (·.name == n) = false) :
    s.filter (fun e => !(e.name == n)) = s := by
  rw [List.filter_eq_self]
  intro a ha
  cases hc : (a.name == n) with
  | false => rfl
  | true =>
    have : s.any (·.name == n) = true := List.any_eq_true.mpr ⟨a, ha, hc⟩
    rw [h] at this; cases this

theorem map_replace_perm (n u : Str) (t : Tags) :
    ∀ (s : List Entry), NodupKeys s → s.any (·.name == n) = true →
      (s.map (fun e => if e.name == n then (⟨n, u, t⟩ : Entry) else e)).Perm
        (s.filter (fun e => !(e.name == n)) ++ [⟨n, u, t⟩])
  | [], _, h => by cases h
  | a :: s, hk, h => by
    rw [NodupKeys, List.pairwise_cons] at hk
    by_cases ha : (a.name == n) = true
    · have hn : a.name = n := by simpa using ha
      have hnone : s.any (·.name == n) = false := by
        rw [Bool.eq_false_iff]
        intro hc
        obtain ⟨b, hb, hbn⟩ := any_name_iff.mp hc
        exact hk.1 b hb (hn.trans hbn.symm)
      have hmap : s.map (fun e => if e.name == n then (⟨n, u, t⟩ : Entry) else e) = s := by
        have : ∀ b ∈ s, (fun e : Entry => if e.name == n then (⟨n, u, t⟩ : Entry) else e) b = id b := by
          intro b hb
          have : (b.name == n) = false := by
            rw [Bool.eq_false_iff]
            intro hc
            have hbn : b.name = n := by simpa using hc
            exact hk.1 b hb (hn.trans hbn.symm)
          simp [this]
        rw [List.map_congr_left this, List.map_id]
      simp only [List.map_cons, ha, if_true, List.filter_cons, Bool.not_true, Bool.false_eq_true, if_false, hmap,
        filter_ne_of_not_any hnone]
      exact (List.perm_append_singleton _ _).symm
    · have ha' : (a.name == n) = false := by simpa using ha
      have hs : s.any (·.name == n) = true := by simpa [List.any_cons, ha'] using h
      simp only [List.map_cons, ha', Bool.false_eq_true, if_false, List.filter_cons, Bool.not_false, if_true,
        List.cons_append]
      exact (map_replace_perm n u t s hk.2 hs).cons a

theorem memSet_perm {s : List Entry} (h : NodupKeys s) (n u : Str) (t : Tags) :
    (memSet n u t s).Perm (Spec.put s ⟨n, u, t⟩) := by
  unfold memSet Spec.put
  by_cases ha : s.any (·.name == n) = true
  · rw [if_pos ha]
    exact map_replace_perm n u t s h ha
  · rw [if_neg ha]
    have ha' : s.any (·.name == n) = false := by simpa using ha
    have := filter_ne_of_not_any ha'
    simp only [bne] at this ⊢
    rw [this]

theorem memRemoveItems_eq : ∀ (items : List Str) (s : List Entry),
    memRemoveItems items s = s.filter (fun e => !items.contains e.name)
  | [], s => by
    simp only [memRemoveItems, List.contains_nil, Bool.not_false]
    exact (List.filter_eq_self.mpr fun _ _ => rfl).symm
  | n :: ns, s => by
    have h1 : (if s.any (·.name == n) = true then s.filter (·.name != n) else s) = s.filter (fun e => !(e.name == n)) := by
      by_cases ha : s.any (·.name == n) = true
      · rw [if_pos ha]; rfl
      · rw [if_neg ha]
        exact (filter_ne_of_not_any (by simpa using ha)).symm
    rw [memRemoveItems, h1, memRemoveItems_eq ns, List.filter_filter]
    apply List.filter_congr
    intro e _
    simp only [List.contains_cons, Bool.not_or, Bool.and_comm]

theorem mem_storeOK : StoreOK (fun (s : MemDb) => s) (fun _ => True) False memStore where
  len s _ _ := ⟨rfl, trivial, (fun h => by cases h), fun n h => by cases h; rfl⟩
  contains n s _ _ := ⟨rfl, trivial, (fun h => by cases h), fun b h => by cases h; rfl⟩
  getItem n s _ _ := ⟨rfl, trivial, (fun h => by cases h), fun o h => by cases h; rfl⟩
  iter s _ _ := ⟨rfl, trivial, (fun h => by cases h), fun l h => by cases h; exact .refl _⟩
  optPrefix p wm s _ _ := ⟨rfl, trivial, (fun h => by cases h), fun o h => by cases h; intro l hl; cases hl⟩
  optRegex r wm s _ _ := ⟨rfl, trivial, (fun h => by cases h), fun o h => by cases h; rfl⟩
  optMeta all ts wm s _ _ _ := ⟨rfl, trivial, (fun h => by cases h), fun o h => by cases h; intro l hl; cases hl⟩
  everything wm s _ _ := ⟨rfl, trivial, (fun h => by cases h), fun l h => by cases h; exact .refl _⟩
  setItem n u t s _ hs _ := ⟨trivial, fun h => (by cases h), fun _ _ => memSet_perm hs.1 n u t⟩
  delItem n s _ _ := by
    refine ⟨trivial, ?_, ?_⟩
    · intro h; simp only [memStore] at h; split at h <;> cases h
    · intro b h
      simp only [memStore] at h ⊢
      by_cases ha : s.any (·.name == n) = true
      · rw [if_pos ha] at h ⊢
        cases h
        exact ⟨fun _ => rfl, .refl _⟩
      · rw [if_neg ha] at h ⊢
        cases h
        have ha' : s.any (·.name == n) = false := by simpa using ha
        exact ⟨fun h => absurd h ha, by rw [filter_ne_of_not_any ha']⟩
  removeItems items s _ _ :=
    ⟨trivial, fun h => (by cases h), fun _ _ => (by simp only [memStore, memRemoveItems_eq]; exact .refl _)⟩

end Pyro.NS
