/-
  PyroProofs/Expose.lean — specification-side definitions and helper lemmas for property C02
  (model: PyroModel/Expose.lean).
-/
import PyroModel.Expose

namespace Pyro.Expose

/-! ### specification vocabulary -/

/-- the member carries the mark `expose` leaves on it (for a property: on `fget or fset or fdel`) -/
def memberExposed : Member → Bool
  | .func f => f.exposed
  | .static f => f.exposed
  | .clsm f => f.exposed
  | .prop g s d => exposedOpt (primary g s d)
  | .attr _ => false

def optFid : Option Fn → List Nat
  | some f => [f.fid]
  | none => []

/-- effect ids of the code that belongs to a member -/
def memberFids : Member → List Nat
  | .func f => [f.fid]
  | .static f => [f.fid]
  | .clsm f => [f.fid]
  | .prop g s d => optFid g ++ optFid s ++ optFid d
  | .attr _ => []

/-- the name is not private and denotes, on the type, an explicitly exposed method or property -/
def Allowed (sh : Shape) (n : Name) : Prop :=
  isPrivate n = false ∧ ∃ m, lookupType n sh.mro = some m ∧ memberExposed m = true

def valMarked : Val → Bool
  | .data => false
  | .inst h => h.exposed
  | .cls h => h.exposed
  | .fn f => f.exposed

/-- no plain attribute, of the instance or visible on the type, holds an instance or the class of an
    `@expose`d helper class (the shapes of finding F2b) -/
def NoExposedHelperAttr (sh : Shape) : Prop :=
  (∀ n v, find? n sh.inst = some v → valMarked v = false) ∧
  (∀ n v, lookupType n sh.mro = some (.attr v) → valMarked v = false)

/-- no instance attribute hides a member of the type -/
def NoShadow (sh : Shape) : Prop :=
  ∀ n v, find? n sh.inst = some v → lookupType n sh.mro = none

/-- every visible property has a getter or a setter (the quantifier of the property) -/
def PropsUsable (sh : Shape) : Prop :=
  ∀ n g s d, lookupType n sh.mro = some (.prop g s d) → g.isSome = true ∨ s.isSome = true

/-- all three source facts hold: the gate as repaired -/
def Fixed (cfg : Cfg) : Prop :=
  cfg.callTypeFirst = true ∧ cfg.getPriv = true ∧ cfg.setPriv = true

/-- the names a request asks for -/
def reqNames (r : Req) : List ReqName :=
  if r.batch then r.args
  else if r.method = .str nmGetattr then r.args.take 1
  else if r.method = .str nmSetattr then r.args.take 1
  else [r.method]

/-- refused: an error reply, or no reply at all for a oneway request -/
def Refused (r : Req) (rep : Reply) : Prop :=
  if r.oneway then rep = .none else ∃ e, rep = .error e

/-- effect `e` is code of an exposed, public member that one of `names` denotes -/
def Justified (sh : Shape) (names : List ReqName) (e : Nat) : Prop :=
  ∃ n m, ReqName.str n ∈ names ∧ isPrivate n = false ∧ lookupType n sh.mro = some m ∧
    memberExposed m = true ∧ e ∈ memberFids m

theorem Justified.mono {sh : Shape} {l l' : List ReqName} {e : Nat} (h : ∀ x ∈ l, x ∈ l') :
    Justified sh l e → Justified sh l' e
  | ⟨n, m, hn, h1, h2, h3, h4⟩ => ⟨n, m, h _ hn, h1, h2, h3, h4⟩

theorem Justified.allowed {sh : Shape} {l : List ReqName} {e : Nat} :
    Justified sh l e → ∃ n, ReqName.str n ∈ l ∧ Allowed sh n
  | ⟨n, m, hn, h1, h2, h3, _⟩ => ⟨n, hn, h1, m, h2, h3⟩

/-! ### the method gate -/

theorem instOr_eff (sh : Shape) (n : Name) (o : Obj) : (instOr sh n o).2 = [] := by
  unfold instOr; split <;> rfl

/-- what `_get_attribute` lets through when data descriptors are refused first and no attribute holds an
    exposed helper: a marked function that the type binds to this public name; nothing ran. -/
theorem getAttribute_ok {cfg : Cfg} {sh : Shape} {rn : ReqName} {o : Obj} {eff : List Nat}
    (hc : cfg.callTypeFirst = true) (hh : NoExposedHelperAttr sh)
    (h : getAttribute cfg sh rn = (.ok o, eff)) :
    eff = [] ∧ ∃ n f m, rn = .str n ∧ o = .fn f ∧ isPrivate n = false ∧ lookupType n sh.mro = some m ∧
      isMethodMember (some m) = true ∧ memberExposed m = true ∧ memberFids m = [f.fid] ∧
      find? n sh.inst = none := by
  cases rn with
  | hashable => simp [getAttribute] at h
  | unhashable => simp [getAttribute] at h
  | str n =>
    simp only [getAttribute] at h
    by_cases hp : isPrivate n = true
    · rw [if_pos hp] at h; simp at h
    · rw [if_neg hp] at h
      have hp' : isPrivate n = false := by simpa using hp
      simp only [hc, Bool.true_and] at h
      cases hl : lookupType n sh.mro with
      | none =>
        rw [hl] at h
        simp only [isDataDesc, Bool.false_eq_true, if_false, getattrInst, hl] at h
        cases hi : find? n sh.inst with
        | none => rw [hi] at h; simp at h
        | some v =>
          rw [hi] at h
          have hv := hh.1 n v hi
          cases v <;> simp_all [objMarked, valMarked]
      | some m =>
        rw [hl] at h
        cases m with
        | prop g s d => simp [isDataDesc] at h
        | attr v =>
          simp only [isDataDesc, Bool.false_eq_true, if_false, getattrInst, hl, instOr] at h
          have hv := hh.2 n v hl
          cases hi : find? n sh.inst with
          | none =>
            rw [hi] at h
            cases v <;> simp_all [objMarked, valMarked]
          | some w =>
            rw [hi] at h
            have hw := hh.1 n w hi
            cases w <;> simp_all [objMarked, valMarked]
        | func f =>
          simp only [isDataDesc, Bool.false_eq_true, if_false, getattrInst, hl, instOr] at h
          cases hi : find? n sh.inst with
          | some w =>
            rw [hi] at h
            have hw := hh.1 n w hi
            cases w <;> simp_all [objMarked, valMarked]
          | none =>
            rw [hi] at h
            cases hf : f.exposed with
            | false => simp [objMarked, hf] at h
            | true =>
              simp [objMarked, hf] at h
              refine ⟨h.2, n, f, _, rfl, h.1.symm, hp', hl, ?_, ?_, ?_, hi⟩ <;>
                simp [isMethodMember, memberExposed, memberFids, hf]
        | static f =>
          simp only [isDataDesc, Bool.false_eq_true, if_false, getattrInst, hl, instOr] at h
          cases hi : find? n sh.inst with
          | some w =>
            rw [hi] at h
            have hw := hh.1 n w hi
            cases w <;> simp_all [objMarked, valMarked]
          | none =>
            rw [hi] at h
            cases hf : f.exposed with
            | false => simp [objMarked, hf] at h
            | true =>
              simp [objMarked, hf] at h
              refine ⟨h.2, n, f, _, rfl, h.1.symm, hp', hl, ?_, ?_, ?_, hi⟩ <;>
                simp [isMethodMember, memberExposed, memberFids, hf]
        | clsm f =>
          simp only [isDataDesc, Bool.false_eq_true, if_false, getattrInst, hl, instOr] at h
          cases hi : find? n sh.inst with
          | some w =>
            rw [hi] at h
            have hw := hh.1 n w hi
            cases w <;> simp_all [objMarked, valMarked]
          | none =>
            rw [hi] at h
            cases hf : f.exposed with
            | false => simp [objMarked, hf] at h
            | true =>
              simp [objMarked, hf] at h
              refine ⟨h.2, n, f, _, rfl, h.1.symm, hp', hl, ?_, ?_, ?_, hi⟩ <;>
                simp [isMethodMember, memberExposed, memberFids, hf]

/-- with data descriptors refused first, `_get_attribute` never runs target code -/
theorem getAttribute_eff {cfg : Cfg} {sh : Shape} (rn : ReqName) (hc : cfg.callTypeFirst = true) :
    (getAttribute cfg sh rn).2 = [] := by
  cases rn with
  | hashable => rfl
  | unhashable => rfl
  | str n =>
    simp only [getAttribute]
    by_cases hp : isPrivate n = true
    · rw [if_pos hp]
    · rw [if_neg hp]
      simp only [hc, Bool.true_and]
      cases hl : lookupType n sh.mro with
      | none =>
        simp only [isDataDesc, Bool.false_eq_true, if_false, getattrInst, hl]
        cases find? n sh.inst <;> simp <;> split <;> rfl
      | some m =>
        cases m with
        | prop g s d => simp [isDataDesc]
        | attr v =>
          simp only [isDataDesc, Bool.false_eq_true, if_false, getattrInst, hl, instOr]
          cases find? n sh.inst <;> simp <;> split <;> rfl
        | func f =>
          simp only [isDataDesc, Bool.false_eq_true, if_false, getattrInst, hl, instOr]
          cases find? n sh.inst <;> simp <;> split <;> rfl
        | static f =>
          simp only [isDataDesc, Bool.false_eq_true, if_false, getattrInst, hl, instOr]
          cases find? n sh.inst <;> simp <;> split <;> rfl
        | clsm f =>
          simp only [isDataDesc, Bool.false_eq_true, if_false, getattrInst, hl, instOr]
          cases find? n sh.inst <;> simp <;> split <;> rfl

/-! ### calls and batches -/

/-- a normal call under the repaired gate: whatever ran is the one function the name denotes -/
theorem runCall_spec {cfg : Cfg} {sh : Shape} (rn : ReqName)
    (hc : cfg.callTypeFirst = true) (hh : NoExposedHelperAttr sh) :
    ((runCall cfg sh rn).2 = [] ∧ ∃ e, (runCall cfg sh rn).1 = .error e) ∨
    (∃ (n : Name) (f : Fn) (m : Member), rn = .str n ∧ isPrivate n = false ∧ lookupType n sh.mro = some m ∧
      isMethodMember (some m) = true ∧ memberExposed m = true ∧ memberFids m = [f.fid] ∧
      find? n sh.inst = none ∧ runCall cfg sh rn = (.ok (), [f.fid])) := by
  unfold runCall
  have he := getAttribute_eff (cfg := cfg) (sh := sh) rn hc
  generalize hg : getAttribute cfg sh rn = g at he
  obtain ⟨res, eff⟩ := g
  simp only at he
  subst he
  cases res with
  | error e => exact .inl ⟨rfl, e, rfl⟩
  | ok o =>
    obtain ⟨_, n, f, m, h1, h2, h3, h4, h5, h6, h7, h8⟩ := getAttribute_ok hc hh hg
    subst h2
    exact .inr ⟨n, f, m, h1, h3, h4, h5, h6, h7, h8, rfl⟩

theorem runBatch_sound {cfg : Cfg} {sh : Shape} (hc : cfg.callTypeFirst = true) (hh : NoExposedHelperAttr sh) :
    ∀ (l : List ReqName), ∀ e ∈ (runBatch cfg sh l).2, Justified sh l e := by
  intro l
  induction l with
  | nil => intro e he; simp [runBatch] at he
  | cons rn rest ih =>
    intro e he
    unfold runBatch at he
    have hge := getAttribute_eff (cfg := cfg) (sh := sh) rn hc
    generalize hg : getAttribute cfg sh rn = g at he hge
    obtain ⟨res, eff⟩ := g
    simp only at hge
    subst hge
    cases res with
    | error x => simp at he
    | ok o =>
      obtain ⟨_, n, f, m, h1, h2, h3, h4, h5, h6, h7, _⟩ := getAttribute_ok hc hh hg
      subst h2
      simp only [callObj, List.nil_append] at he
      have hmem : e = f.fid ∨ e ∈ (runBatch cfg sh rest).2 := by
        generalize runBatch cfg sh rest = rb at he
        obtain ⟨r3, e3⟩ := rb
        simpa using he
      cases hmem with
      | inl h =>
        refine ⟨n, m, ?_, h3, h4, h6, ?_⟩
        · rw [h1]; exact List.mem_cons_self
        · rw [h7, h]; exact List.mem_singleton.mpr rfl
      | inr h => exact (ih e h).mono (fun x hx => List.mem_cons_of_mem _ hx)

/-- a batch that is answered with a result consists of allowed names only -/
theorem runBatch_ok {cfg : Cfg} {sh : Shape} (hc : cfg.callTypeFirst = true) (hh : NoExposedHelperAttr sh) :
    ∀ (l : List ReqName), (runBatch cfg sh l).1 = .ok () → ∀ rn ∈ l, ∃ n, rn = .str n ∧ Allowed sh n := by
  intro l
  induction l with
  | nil => intro _ rn hrn; cases hrn
  | cons x rest ih =>
    intro hok rn hrn
    unfold runBatch at hok
    generalize hg : getAttribute cfg sh x = g at hok
    obtain ⟨res, eff⟩ := g
    cases res with
    | error e => simp at hok
    | ok o =>
      obtain ⟨_, n, f, m, h1, h2, h3, h4, h5, h6, h7, _⟩ := getAttribute_ok hc hh hg
      subst h2
      simp only [callObj] at hok
      have hrest : (runBatch cfg sh rest).1 = .ok () := by
        generalize runBatch cfg sh rest = rb at hok
        obtain ⟨r3, e3⟩ := rb
        simpa using hok
      cases List.mem_cons.mp hrn with
      | inl h => exact ⟨n, by rw [h, h1], h3, m, h4, h6⟩
      | inr h => exact ih hrest rn h

/-! ### the property gates -/

theorem getProp_spec {cfg : Cfg} {sh : Shape} (rn : ReqName) (hc : cfg.getPriv = true) :
    ((getProp cfg sh rn).2 = [] ∧ ∃ e, (getProp cfg sh rn).1 = .error e) ∨
    (∃ n f s d, rn = .str n ∧ isPrivate n = false ∧ lookupType n sh.mro = some (.prop (some f) s d) ∧
      f.exposed = true ∧ getProp cfg sh rn = (.ok (), [f.fid])) := by
  cases rn with
  | hashable => exact .inl ⟨rfl, _, rfl⟩
  | unhashable => exact .inl ⟨rfl, _, rfl⟩
  | str n =>
    simp only [getProp, hc, Bool.true_and]
    cases hp : isPrivate n with
    | true => exact .inl ⟨rfl, _, rfl⟩
    | false =>
      simp only [Bool.false_eq_true, if_false]
      cases hl : lookupType n sh.mro with
      | none => exact .inl ⟨rfl, _, rfl⟩
      | some m =>
        cases m with
        | prop g s d =>
          cases g with
          | none => exact .inl ⟨rfl, _, rfl⟩
          | some f =>
            cases hf : f.exposed with
            | false => exact .inl ⟨by simp [hf], .unprop, by simp [hf]⟩
            | true => exact .inr ⟨n, f, s, d, rfl, hp, hl, hf, by simp [hf]⟩
        | func f => exact .inl ⟨rfl, _, rfl⟩
        | static f => exact .inl ⟨rfl, _, rfl⟩
        | clsm f => exact .inl ⟨rfl, _, rfl⟩
        | attr v => exact .inl ⟨rfl, _, rfl⟩

theorem setProp_spec {cfg : Cfg} {sh : Shape} (rn : ReqName) (hc : cfg.setPriv = true) :
    ((setProp cfg sh rn).2 = [] ∧ ∃ e, (setProp cfg sh rn).1 = .error e) ∨
    (∃ n g f d, rn = .str n ∧ isPrivate n = false ∧ lookupType n sh.mro = some (.prop g (some f) d) ∧
      exposedOpt (primary g (some f) d) = true ∧ setProp cfg sh rn = (.ok (), [f.fid])) := by
  cases rn with
  | hashable => exact .inl ⟨rfl, _, rfl⟩
  | unhashable => exact .inl ⟨rfl, _, rfl⟩
  | str n =>
    simp only [setProp, hc, Bool.true_and]
    cases hp : isPrivate n with
    | true => exact .inl ⟨rfl, _, rfl⟩
    | false =>
      simp only [Bool.false_eq_true, if_false]
      cases hl : lookupType n sh.mro with
      | none => exact .inl ⟨rfl, _, rfl⟩
      | some m =>
        cases m with
        | prop g s d =>
          cases s with
          | none => exact .inl ⟨rfl, _, rfl⟩
          | some f =>
            cases hf : exposedOpt (primary g (some f) d) with
            | false => exact .inl ⟨by simp [hf], .unprop, by simp [hf]⟩
            | true => exact .inr ⟨n, g, f, d, rfl, hp, hl, hf, by simp [hf]⟩
        | func f => exact .inl ⟨rfl, _, rfl⟩
        | static f => exact .inl ⟨rfl, _, rfl⟩
        | clsm f => exact .inl ⟨rfl, _, rfl⟩
        | attr v => exact .inl ⟨rfl, _, rfl⟩

theorem primary_some_exposed (f : Fn) (s d : Option Fn) : exposedOpt (primary (some f) s d) = f.exposed := rfl

theorem mem_optFid_some (f : Fn) : f.fid ∈ optFid (some f) := List.mem_singleton.mpr rfl

/-! ### the whole dispatch, for requests that are not batches -/

/-- outcome of a non-batch request under the repaired gate: either refused without effect, or exactly
    one function of an allowed member named by the request ran -/
theorem body_single {cfg : Cfg} {sh : Shape} (r : Req) (hf : Fixed cfg) (hh : NoExposedHelperAttr sh)
    (hb : r.batch = false) :
    ((dispatchBody cfg sh r).2 = [] ∧ ∃ e, (dispatchBody cfg sh r).1 = .error e) ∨
    (∃ n m fid, ReqName.str n ∈ reqNames r ∧ isPrivate n = false ∧ lookupType n sh.mro = some m ∧
      memberExposed m = true ∧ fid ∈ memberFids m ∧ dispatchBody cfg sh r = (.ok (), [fid])) := by
  obtain ⟨h1, h2, h3⟩ := hf
  unfold dispatchBody reqNames
  rw [hb]
  simp only [Bool.false_eq_true, if_false]
  by_cases hg : r.method = .str nmGetattr
  · rw [if_pos hg, if_pos hg]
    cases ha : r.args with
    | nil => exact .inl ⟨rfl, _, rfl⟩
    | cons a rest =>
      simp only
      cases getProp_spec (cfg := cfg) (sh := sh) a h2 with
      | inl h => exact .inl h
      | inr h =>
        obtain ⟨n, f, s, d, e1, e2, e3, e4, e5⟩ := h
        refine .inr ⟨n, _, f.fid, by simp [e1], e2, e3, by simpa [memberExposed, primary, exposedOpt] using e4, ?_, e5⟩
        simp [memberFids, optFid]
  · rw [if_neg hg, if_neg hg]
    by_cases hs : r.method = .str nmSetattr
    · rw [if_pos hs, if_pos hs]
      cases ha : r.args with
      | nil => exact .inl ⟨rfl, _, rfl⟩
      | cons a rest =>
        cases rest with
        | nil => exact .inl ⟨rfl, _, rfl⟩
        | cons b rest' =>
          simp only
          cases setProp_spec (cfg := cfg) (sh := sh) a h3 with
          | inl h => exact .inl h
          | inr h =>
            obtain ⟨n, g, f, d, e1, e2, e3, e4, e5⟩ := h
            refine .inr ⟨n, _, f.fid, by simp [e1], e2, e3, by simpa [memberExposed] using e4, ?_, e5⟩
            simp [memberFids, optFid]
    · rw [if_neg hs, if_neg hs]
      cases runCall_spec (cfg := cfg) (sh := sh) r.method h1 hh with
      | inl h => exact .inl h
      | inr h =>
        obtain ⟨n, f, m, e1, e2, e3, _, e5, e6, _, e8⟩ := h
        exact .inr ⟨n, m, f.fid, by simp [e1], e2, e3, e5, by simp [e6], e8⟩

/-! ### the decorators: where marks come from -/

def exposeD : Option FnDecl → Bool
  | some d => d.expose
  | none => false

/-- `fget or fset or fdel` on declarations -/
def primaryD (g s d : Option FnDecl) : Option FnDecl :=
  match g with
  | some f => some f
  | none => match s with
    | some f => some f
    | none => d

/-- a method or a property that has at least one function (something `expose(cls)` can mark) -/
def callable : Member → Bool
  | .func _ => true
  | .static _ => true
  | .clsm _ => true
  | .prop g s d => (primary g s d).isSome
  | .attr _ => false

def callableD : MemberDecl → Bool
  | .func _ => true
  | .static _ => true
  | .clsm _ => true
  | .prop _ g s d => (primaryD g s d).isSome
  | .attr _ => false

/-- exposed by a decorator on the member itself -/
def declSelf : MemberDecl → Bool
  | .func f => f.expose
  | .static f => f.expose
  | .clsm f => f.expose
  | .prop ex g s d => match primaryD g s d with
    | some f => f.expose || ex
    | none => false
  | .attr _ => false

/-- **explicitly exposed**: itself, or by exposing the very class `cd` that defines it under a public key -/
def declExposed (cd : ClassDecl) (key : Name) (md : MemberDecl) : Bool :=
  declSelf md || (cd.exposeClass && !isPrivate key && callableD md)

/-- the class declaration that defines `n` (first in MRO order) and the declaration of the member -/
def lookupDecl (n : Name) : List ClassDecl → Option (ClassDecl × MemberDecl)
  | [] => none
  | cd :: rest => match find? n cd.members with
    | some md => some (cd, md)
    | none => lookupDecl n rest

theorem buildFn_ok {d : FnDecl} {f : Fn} (h : buildFn d = .ok f) : f.exposed = d.expose := by
  unfold buildFn at h
  split at h
  · cases h
  · cases h; rfl

theorem buildOptFn_ok {od : Option FnDecl} {o : Option Fn} (h : buildOptFn od = .ok o) :
    exposedOpt o = exposeD od ∧ o.isSome = od.isSome := by
  cases od with
  | none => simp [buildOptFn] at h; subst h; simp [exposedOpt, exposeD]
  | some d =>
    simp only [buildOptFn] at h
    split at h
    · next f hf => cases h; simp [exposedOpt, exposeD, buildFn_ok hf]
    · cases h

theorem primary_build {g s d : Option FnDecl} {g' s' d' : Option Fn}
    (hg : exposedOpt g' = exposeD g ∧ g'.isSome = g.isSome)
    (hs : exposedOpt s' = exposeD s ∧ s'.isSome = s.isSome)
    (hd : exposedOpt d' = exposeD d ∧ d'.isSome = d.isSome) :
    exposedOpt (primary g' s' d') = exposeD (primaryD g s d) ∧
      (primary g' s' d').isSome = (primaryD g s d).isSome := by
  obtain ⟨hg1, hg2⟩ := hg
  obtain ⟨hs1, hs2⟩ := hs
  cases g with
  | some fg =>
    cases g' with
    | some fg' => exact ⟨hg1, rfl⟩
    | none => simp at hg2
  | none =>
    cases g' with
    | some _ => simp at hg2
    | none =>
      cases s with
      | some fs =>
        cases s' with
        | some fs' => exact ⟨hs1, rfl⟩
        | none => simp at hs2
      | none =>
        cases s' with
        | some _ => simp at hs2
        | none => exact hd

theorem exposed_callable (m : Member) (h : memberExposed m = true) : callable m = true := by
  cases m with
  | func f => rfl
  | static f => rfl
  | clsm f => rfl
  | prop g s d =>
    simp only [memberExposed] at h
    simp only [callable]
    cases hp : primary g s d with
    | none => rw [hp] at h; simp [exposedOpt] at h
    | some f => rfl
  | attr v => simp [memberExposed] at h

theorem exposeProp_ok {g s d : Option Fn} {m : Member} (h : exposeProp g s d = .ok m) :
    memberExposed m = true ∧ (primary g s d).isSome = true ∧ callable m = true := by
  unfold exposeProp at h
  cases g with
  | some f =>
    simp only at h
    split at h
    · cases h
    · cases h; simp [memberExposed, primary, exposedOpt, markFn, callable]
  | none =>
    cases s with
    | some f =>
      simp only at h
      split at h
      · cases h
      · cases h; simp [memberExposed, primary, exposedOpt, markFn, callable]
    | none =>
      cases d with
      | some f =>
        simp only at h
        split at h
        · cases h
        · cases h; simp [memberExposed, primary, exposedOpt, markFn, callable]
      | none => simp at h

/-- what the member-level decorators leave on a member -/
theorem buildMember_ok {md : MemberDecl} {m : Member} (h : buildMember md = .ok m) :
    memberExposed m = declSelf md ∧ callable m = callableD md := by
  cases md with
  | func f =>
    simp only [buildMember] at h
    split at h
    · next f' hf => cases h; simp [memberExposed, declSelf, callable, callableD, buildFn_ok hf]
    · cases h
  | static f =>
    simp only [buildMember] at h
    split at h
    · next f' hf => cases h; simp [memberExposed, declSelf, callable, callableD, buildFn_ok hf]
    · cases h
  | clsm f =>
    simp only [buildMember] at h
    split at h
    · next f' hf => cases h; simp [memberExposed, declSelf, callable, callableD, buildFn_ok hf]
    · cases h
  | attr v =>
    simp only [buildMember] at h
    cases h; simp [memberExposed, declSelf, callable, callableD]
  | prop ex g s d =>
    simp only [buildMember] at h
    split at h
    · next g' s' d' hg hs hd =>
      have hp := primary_build (buildOptFn_ok hg) (buildOptFn_ok hs) (buildOptFn_ok hd)
      cases ex with
      | false =>
        simp only [Bool.false_eq_true, if_false] at h
        cases h
        simp only [memberExposed, declSelf, callable, callableD, hp.1, hp.2]
        cases primaryD g s d <;> simp [exposeD]
      | true =>
        simp only [if_true] at h
        obtain ⟨h1, h2, h3⟩ := exposeProp_ok h
        rw [h1, h3]
        simp only [declSelf, callableD]
        rw [hp.2] at h2
        cases hq : primaryD g s d with
        | none => rw [hq] at h2; simp at h2
        | some f => simp
    · cases h
    · cases h
    · cases h

theorem find?_buildMembers {k : Name} :
    ∀ {ds : List (Name × MemberDecl)} {ms : List (Name × Member)}, buildMembers ds = .ok ms →
      (find? k ds = none → find? k ms = none) ∧
      (∀ md, find? k ds = some md → ∃ m, find? k ms = some m ∧ buildMember md = .ok m) := by
  intro ds
  induction ds with
  | nil => intro ms h; simp only [buildMembers] at h; cases h; simp [find?]
  | cons x rest ih =>
    intro ms h
    obtain ⟨k', md'⟩ := x
    simp only [buildMembers] at h
    split at h
    · cases h
    · next m' hm' =>
      split at h
      · cases h
      · next rest' hrest =>
        cases h
        obtain ⟨ih1, ih2⟩ := ih hrest
        simp only [find?]
        by_cases hk : k' = k
        · simp only [hk, if_true]
          refine ⟨by simp, ?_⟩
          intro md hmd
          cases hmd
          exact ⟨m', rfl, hm'⟩
        · simp only [hk, if_false]
          exact ⟨ih1, ih2⟩

theorem find?_exposeClass (k : Name) :
    ∀ (ms : List (Name × Member)),
      find? k (exposeClass ms) = (find? k ms).map (fun m => if isPrivate k then m else markMember m) := by
  intro ms
  induction ms with
  | nil => rfl
  | cons x rest ih =>
    obtain ⟨k', m⟩ := x
    simp only [exposeClass, List.map_cons] at ih ⊢
    by_cases hp : isPrivate k' = true
    · simp only [hp, if_true, find?]
      by_cases hk : k' = k
      · simp [hk] ; rw [← hk, hp]; simp
      · simp only [hk, if_false]; exact ih
    · simp only [hp, Bool.false_eq_true, if_false, find?]
      by_cases hk : k' = k
      · simp [hk]; rw [← hk]; simp [hp]
      · simp only [hk, if_false]; exact ih

theorem memberExposed_mark (m : Member) : memberExposed (markMember m) = callable m := by
  cases m with
  | func f => rfl
  | static f => rfl
  | clsm f => rfl
  | attr v => rfl
  | prop g s d =>
    cases g <;> cases s <;> cases d <;> simp [markMember, memberExposed, callable, primary, exposedOpt, markFn]

/-- one class: the member found under a key is exposed iff its declaration says so -/
theorem buildClass_find {cd : ClassDecl} {c : Class} {k : Name} (h : buildClass cd = .ok c) :
    (find? k cd.members = none → find? k c.members = none) ∧
    (∀ md, find? k cd.members = some md →
      ∃ m, find? k c.members = some m ∧ memberExposed m = declExposed cd k md) := by
  unfold buildClass at h
  split at h
  · cases h
  · next ms hms =>
    cases h
    obtain ⟨h1, h2⟩ := find?_buildMembers (k := k) hms
    cases hx : cd.exposeClass with
    | false =>
      simp only [Bool.false_eq_true, if_false]
      refine ⟨h1, ?_⟩
      intro md hmd
      obtain ⟨m, hm, hb⟩ := h2 md hmd
      exact ⟨m, hm, by simp [declExposed, hx, (buildMember_ok hb).1]⟩
    | true =>
      simp only [if_true, find?_exposeClass]
      refine ⟨fun hn => by simp [h1 hn], ?_⟩
      intro md hmd
      obtain ⟨m, hm, hb⟩ := h2 md hmd
      obtain ⟨e1, e2⟩ := buildMember_ok hb
      refine ⟨_, by rw [hm]; rfl, ?_⟩
      cases hp : isPrivate k with
      | true => simp [declExposed, hx, hp, e1]
      | false =>
        simp only [Bool.false_eq_true, if_false, memberExposed_mark, declExposed, hx, hp, e2,
          Bool.not_false, Bool.true_and]
        cases hc : callableD md with
        | true => simp
        | false =>
          have : declSelf md = false := by
            cases hs : declSelf md with
            | false => rfl
            | true =>
              have := exposed_callable m (by rw [e1, hs])
              rw [e2, hc] at this; cases this
          simp [this]

/-- the whole MRO: the member the type binds to a name, and whether it is exposed, read off the declarations -/
theorem buildClasses_lookup {k : Name} :
    ∀ {ds : List ClassDecl} {cs : List Class}, buildClasses ds = .ok cs →
      (lookupDecl k ds = none → lookupType k cs = none) ∧
      (∀ cd md, lookupDecl k ds = some (cd, md) →
        ∃ m, lookupType k cs = some m ∧ memberExposed m = declExposed cd k md) := by
  intro ds
  induction ds with
  | nil => intro cs h; simp only [buildClasses] at h; cases h; simp [lookupDecl, lookupType]
  | cons cd rest ih =>
    intro cs h
    simp only [buildClasses] at h
    split at h
    · cases h
    · next rest' hrest =>
      split at h
      · cases h
      · next c hc =>
        cases h
        obtain ⟨ih1, ih2⟩ := ih hrest
        obtain ⟨c1, c2⟩ := buildClass_find (k := k) hc
        simp only [lookupDecl, lookupType]
        cases hf : find? k cd.members with
        | none =>
          simp only [c1 hf]
          exact ⟨ih1, ih2⟩
        | some md =>
          obtain ⟨m, hm, he⟩ := c2 md hf
          simp only [hm]
          refine ⟨by simp, ?_⟩
          intro cd' md' heq
          cases heq
          exact ⟨m, rfl, he⟩

/-! ### serving an exposed member (completeness of the gate) -/

theorem nmGetattr_private : isPrivate nmGetattr = true := by decide
theorem nmSetattr_private : isPrivate nmSetattr = true := by decide

theorem public_ne_special {n : Name} (hp : isPrivate n = false) :
    ReqName.str n ≠ .str nmGetattr ∧ ReqName.str n ≠ .str nmSetattr := by
  constructor
  · intro h; cases h; rw [nmGetattr_private] at hp; cases hp
  · intro h; cases h; rw [nmSetattr_private] at hp; cases hp

theorem getAttribute_method {cfg : Cfg} {sh : Shape} {n : Name} {m : Member} {f : Fn}
    (hp : isPrivate n = false) (hl : lookupType n sh.mro = some m)
    (hm : m = .func f ∨ m = .static f ∨ m = .clsm f) (he : f.exposed = true)
    (hi : find? n sh.inst = none) :
    getAttribute cfg sh (.str n) = (.ok (.fn f), []) := by
  rcases hm with rfl | rfl | rfl <;>
    simp [getAttribute, hp, hl, isDataDesc, getattrInst, instOr, hi, objMarked, he]

theorem dispatch_method {cfg : Cfg} {sh : Shape} {n : Name} {m : Member} {f : Fn}
    (hp : isPrivate n = false) (hl : lookupType n sh.mro = some m)
    (hm : m = .func f ∨ m = .static f ∨ m = .clsm f) (he : f.exposed = true)
    (hi : find? n sh.inst = none) (ow : Bool) (args : List ReqName) :
    dispatch cfg sh ⟨false, ow, .str n, args⟩ = (if ow then .none else .result, [f.fid]) := by
  obtain ⟨h1, h2⟩ := public_ne_special hp
  simp [dispatch, dispatchBody, h1, h2, runCall, getAttribute_method hp hl hm he hi, callObj]

theorem dispatch_getattr {cfg : Cfg} {sh : Shape} {n : Name} {f : Fn} {s d : Option Fn}
    (hp : isPrivate n = false) (hl : lookupType n sh.mro = some (.prop (some f) s d))
    (he : f.exposed = true) (ow : Bool) (rest : List ReqName) :
    dispatch cfg sh ⟨false, ow, .str nmGetattr, .str n :: rest⟩ = (if ow then .none else .result, [f.fid]) := by
  simp [dispatch, dispatchBody, getProp, hp, hl, he]

theorem dispatch_setattr {cfg : Cfg} {sh : Shape} {n : Name} {f : Fn} {g d : Option Fn}
    (hp : isPrivate n = false) (hl : lookupType n sh.mro = some (.prop g (some f) d))
    (he : exposedOpt (primary g (some f) d) = true) (ow : Bool) (v : ReqName) (rest : List ReqName) :
    dispatch cfg sh ⟨false, ow, .str nmSetattr, .str n :: v :: rest⟩ = (if ow then .none else .result, [f.fid]) := by
  have hne : ReqName.str nmSetattr ≠ .str nmGetattr := by decide
  simp [dispatch, dispatchBody, hne, setProp, hp, hl, he]

/-! ### advertised metadata -/

theorem mem_dedup (n : Name) : ∀ (l : List Name), n ∈ dedup l ↔ n ∈ l := by
  intro l
  induction l with
  | nil => simp [dedup]
  | cons x rest ih =>
    simp only [dedup]
    by_cases hc : rest.contains x = true
    · rw [if_pos hc, ih]
      have hx : x ∈ rest := by simpa using hc
      constructor
      · exact fun h => List.mem_cons_of_mem _ h
      · intro h
        cases List.mem_cons.mp h with
        | inl e => rw [e]; exact hx
        | inr e => exact e
    · rw [if_neg hc]
      simp only [List.mem_cons, ih]

theorem find?_isSome_iff {α : Type} (n : Name) : ∀ (l : List (Name × α)),
    (find? n l).isSome = true ↔ n ∈ l.map Prod.fst := by
  intro l
  induction l with
  | nil => simp [find?]
  | cons x rest ih =>
    obtain ⟨k, v⟩ := x
    simp only [find?, List.map_cons, List.mem_cons]
    by_cases hk : k = n
    · simp [hk]
    · simp only [hk, if_false, ih]
      constructor
      · exact fun h => .inr h
      · intro h
        cases h with
        | inl e => exact absurd e.symm hk
        | inr e => exact e

theorem lookupType_isSome_iff (n : Name) : ∀ (mro : List Class),
    (lookupType n mro).isSome = true ↔ n ∈ mro.flatMap (fun c => c.members.map Prod.fst) := by
  intro mro
  induction mro with
  | nil => simp [lookupType]
  | cons c rest ih =>
    simp only [lookupType, List.flatMap_cons, List.mem_append]
    cases hf : find? n c.members with
    | some m =>
      simp only [Option.isSome_some, true_iff]
      exact .inl ((find?_isSome_iff n c.members).mp (by rw [hf]; rfl))
    | none =>
      simp only [ih]
      constructor
      · exact fun h => .inr h
      · intro h
        cases h with
        | inl e =>
          have := (find?_isSome_iff n c.members).mpr e
          rw [hf] at this; cases this
        | inr e => exact e

theorem mem_typeNames (n : Name) (mro : List Class) :
    n ∈ typeNames mro ↔ (lookupType n mro).isSome = true := by
  unfold typeNames
  rw [mem_dedup, lookupType_isSome_iff]

theorem mem_methods (sh : Shape) (n : Name) :
    n ∈ (metadata sh).methods ↔ isPrivate n = false ∧ isMethodMember (lookupType n sh.mro) = true := by
  simp only [metadata, List.mem_filter, mem_typeNames, Bool.not_eq_eq_eq_not, Bool.not_true]
  constructor
  · exact fun h => ⟨h.1.2, h.2⟩
  · intro h
    refine ⟨⟨?_, h.1⟩, h.2⟩
    cases hl : lookupType n sh.mro with
    | none => rw [hl] at h; simp [isMethodMember] at h
    | some m => rfl

theorem mem_attrs (sh : Shape) (n : Name) :
    n ∈ (metadata sh).attrs ↔ isPrivate n = false ∧ isAttrMember (lookupType n sh.mro) = true := by
  simp only [metadata, List.mem_filter, mem_typeNames, Bool.not_eq_eq_eq_not, Bool.not_true]
  constructor
  · exact fun h => ⟨h.1.2, h.2⟩
  · intro h
    refine ⟨⟨?_, h.1⟩, h.2⟩
    cases hl : lookupType n sh.mro with
    | none => rw [hl] at h; simp [isAttrMember] at h
    | some m => rfl

theorem mem_oneway (sh : Shape) (n : Name) :
    n ∈ (metadata sh).oneway ↔ isPrivate n = false ∧ isOnewayMember (lookupType n sh.mro) = true := by
  simp only [metadata, List.mem_filter, mem_typeNames, Bool.not_eq_eq_eq_not, Bool.not_true]
  constructor
  · exact fun h => ⟨h.1.2, h.2⟩
  · intro h
    refine ⟨⟨?_, h.1⟩, h.2⟩
    cases hl : lookupType n sh.mro with
    | none => rw [hl] at h; simp [isOnewayMember] at h
    | some m => rfl

theorem oneway_is_method (om : Option Member) (h : isOnewayMember om = true) : isMethodMember om = true := by
  cases om with
  | none => simp [isOnewayMember] at h
  | some m =>
    cases m <;> simp_all [isOnewayMember, isMethodMember]

/-! ### refusals that need no assumption on the shape -/

theorem dispatch_snd (cfg : Cfg) (sh : Shape) (r : Req) : (dispatch cfg sh r).2 = (dispatchBody cfg sh r).2 := by
  unfold dispatch
  generalize dispatchBody cfg sh r = p
  obtain ⟨a, b⟩ := p
  rfl

theorem dispatch_refused_of_error {cfg : Cfg} {sh : Shape} {r : Req} {e : Err}
    (h : (dispatchBody cfg sh r).1 = .error e) : Refused r (dispatch cfg sh r).1 := by
  unfold dispatch Refused
  generalize dispatchBody cfg sh r = p at h
  obtain ⟨a, b⟩ := p
  simp only at h
  subst h
  cases r.oneway <;> simp

/-- if all three gates refuse every name of a class `P` without running anything, every non-batch request
    whose names are in `P` is refused without effect -/
theorem single_refused {cfg : Cfg} {sh : Shape} (P : ReqName → Prop)
    (hP : ∀ rn, P rn → (∃ e, getAttribute cfg sh rn = (.error e, [])) ∧
      (∃ e, getProp cfg sh rn = (.error e, [])) ∧ (∃ e, setProp cfg sh rn = (.error e, [])))
    (r : Req) (hb : r.batch = false) (hn : ∀ rn ∈ reqNames r, P rn) :
    Refused r (dispatch cfg sh r).1 ∧ (dispatch cfg sh r).2 = [] := by
  have key : (dispatchBody cfg sh r).2 = [] ∧ ∃ e, (dispatchBody cfg sh r).1 = .error e := by
    unfold dispatchBody
    unfold reqNames at hn
    rw [hb] at hn ⊢
    simp only [Bool.false_eq_true, if_false] at hn ⊢
    by_cases hg : r.method = .str nmGetattr
    · rw [if_pos hg] at hn ⊢
      cases ha : r.args with
      | nil => exact ⟨rfl, _, rfl⟩
      | cons a rest =>
        obtain ⟨_, ⟨e, he⟩, _⟩ := hP a (hn a (by simp [ha]))
        simp [he]
    · rw [if_neg hg] at hn ⊢
      by_cases hs : r.method = .str nmSetattr
      · rw [if_pos hs] at hn ⊢
        cases ha : r.args with
        | nil => exact ⟨rfl, _, rfl⟩
        | cons a rest =>
          cases rest with
          | nil => exact ⟨rfl, _, rfl⟩
          | cons b rest' =>
            obtain ⟨_, _, ⟨e, he⟩⟩ := hP a (hn a (by simp [ha]))
            simp [he]
      · rw [if_neg hs] at hn ⊢
        obtain ⟨⟨e, he⟩, _, _⟩ := hP r.method (hn _ (by simp))
        simp [runCall, he]
  obtain ⟨k1, e, k2⟩ := key
  exact ⟨dispatch_refused_of_error k2, by rw [dispatch_snd, k1]⟩

theorem gates_private {cfg : Cfg} {sh : Shape} (hf : Fixed cfg) {n : Name} (hp : isPrivate n = true) :
    (∃ e, getAttribute cfg sh (.str n) = (.error e, [])) ∧
    (∃ e, getProp cfg sh (.str n) = (.error e, [])) ∧ (∃ e, setProp cfg sh (.str n) = (.error e, [])) := by
  obtain ⟨_, h2, h3⟩ := hf
  exact ⟨⟨.priv, by simp [getAttribute, hp]⟩, ⟨.priv, by simp [getProp, h2, hp]⟩, ⟨.priv, by simp [setProp, h3, hp]⟩⟩

theorem gates_nonstring (cfg : Cfg) (sh : Shape) {rn : ReqName} (h : rn = .hashable ∨ rn = .unhashable) :
    (∃ e, getAttribute cfg sh rn = (.error e, [])) ∧
    (∃ e, getProp cfg sh rn = (.error e, [])) ∧ (∃ e, setProp cfg sh rn = (.error e, [])) := by
  rcases h with rfl | rfl <;> exact ⟨⟨_, rfl⟩, ⟨_, rfl⟩, ⟨_, rfl⟩⟩

theorem gates_unknown (cfg : Cfg) {sh : Shape} {n : Name}
    (hl : lookupType n sh.mro = none) (hi : find? n sh.inst = none) :
    (∃ e, getAttribute cfg sh (.str n) = (.error e, [])) ∧
    (∃ e, getProp cfg sh (.str n) = (.error e, [])) ∧ (∃ e, setProp cfg sh (.str n) = (.error e, [])) := by
  refine ⟨?_, ?_, ?_⟩
  · simp only [getAttribute, hl, isDataDesc, Bool.and_false, Bool.false_eq_true, if_false, getattrInst, hi]
    cases isPrivate n <;> simp
  · simp only [getProp, hl]
    cases (cfg.getPriv && isPrivate n) <;> simp
  · simp only [setProp, hl]
    cases (cfg.setPriv && isPrivate n) <;> simp

theorem lookups_none_of_no_key {sh : Shape} {n : Name} (c : Nat) (hc : c ∈ n)
    (hk : ∀ cl ∈ sh.mro, ∀ km ∈ cl.members, c ∉ km.1) (hi : ∀ kv ∈ sh.inst, c ∉ kv.1) :
    lookupType n sh.mro = none ∧ find? n sh.inst = none := by
  constructor
  · cases hl : lookupType n sh.mro with
    | none => rfl
    | some m =>
      have := (lookupType_isSome_iff n sh.mro).mp (by rw [hl]; rfl)
      obtain ⟨cl, hcl, hmem⟩ := List.mem_flatMap.mp this
      obtain ⟨km, hkm, rfl⟩ := List.mem_map.mp hmem
      exact absurd hc (hk cl hcl km hkm)
  · cases hl : find? n sh.inst with
    | none => rfl
    | some v =>
      have := (find?_isSome_iff n sh.inst).mp (by rw [hl]; rfl)
      obtain ⟨kv, hkv, rfl⟩ := List.mem_map.mp this
      exact absurd hc (hi kv hkv)

/-! ### a checker for `NoExposedHelperAttr` (used by the non-vacuity examples and the witnesses) -/

def allValsUnmarked (sh : Shape) : Bool :=
  sh.inst.all (fun kv => !valMarked kv.2) &&
  sh.mro.all (fun c => c.members.all (fun km => match km.2 with
    | .attr v => !valMarked v
    | _ => true))

theorem find?_mem {α : Type} {n : Name} : ∀ {l : List (Name × α)} {v : α}, find? n l = some v → (n, v) ∈ l := by
  intro l
  induction l with
  | nil => intro v h; simp [find?] at h
  | cons x rest ih =>
    intro v h
    obtain ⟨k, w⟩ := x
    simp only [find?] at h
    by_cases hk : k = n
    · rw [if_pos hk] at h
      cases h
      rw [hk]
      exact List.mem_cons_self
    · rw [if_neg hk] at h
      exact List.mem_cons_of_mem _ (ih h)

theorem lookupType_mem {n : Name} : ∀ {mro : List Class} {m : Member},
    lookupType n mro = some m → ∃ c ∈ mro, (n, m) ∈ c.members := by
  intro mro
  induction mro with
  | nil => intro m h; simp [lookupType] at h
  | cons c rest ih =>
    intro m h
    simp only [lookupType] at h
    cases hf : find? n c.members with
    | some m' =>
      rw [hf] at h
      cases h
      exact ⟨c, List.mem_cons_self, find?_mem hf⟩
    | none =>
      rw [hf] at h
      obtain ⟨c', hc', hm⟩ := ih h
      exact ⟨c', List.mem_cons_of_mem _ hc', hm⟩

theorem noExposedHelperAttr_of_check {sh : Shape} (h : allValsUnmarked sh = true) : NoExposedHelperAttr sh := by
  simp only [allValsUnmarked, Bool.and_eq_true, List.all_eq_true] at h
  obtain ⟨h1, h2⟩ := h
  constructor
  · intro n v hf
    have := h1 _ (find?_mem hf)
    simpa using this
  · intro n v hl
    obtain ⟨c, hc, hm⟩ := lookupType_mem hl
    have := h2 c hc _ hm
    simpa using this

end Pyro.Expose
