/-
  PyroProofs/UriLemmas.lean — helper lemmas for the URI model (C19): decimal rendering / `int()`,
  `strip`, `split`/`join`, and the canonical (ascending) representation of tag sets.
-/
import PyroModel.Uri

namespace Pyro.Uri

/-! ### decimal digits -/

/-- value of a digit string read left to right, starting from `a` -/
def evalDigits (a : Nat) (ds : Text) : Nat := ds.foldl (fun a c => a * 10 + (c - 48)) a

theorem digLoop_digits (ds : Text) (hd : ∀ c ∈ ds, isDigit c = true) :
    ∀ a, digLoop a false ds = some (evalDigits a ds) := by
  induction ds with
  | nil => intro a; simp [digLoop, evalDigits]
  | cons c r ih =>
    intro a
    have hc : isDigit c = true := hd c (by simp)
    have hr : ∀ x ∈ r, isDigit x = true := fun x hx => hd x (by simp [hx])
    simp only [digLoop, hc, if_true]
    rw [ih hr]
    simp [evalDigits]

theorem digitsAux_spec : ∀ (f n : Nat) (acc : Text), n < f →
    ∃ ds, digitsAux f n acc = ds ++ acc ∧ ds ≠ [] ∧ (∀ c ∈ ds, isDigit c = true) ∧ evalDigits 0 ds = n := by
  intro f
  induction f with
  | zero => intro n acc h; omega
  | succ f ih =>
    intro n acc h
    unfold digitsAux
    by_cases h10 : n < 10
    · rw [if_pos h10]
      refine ⟨[48 + n], rfl, by simp, ?_, ?_⟩
      · intro c hc
        simp only [List.mem_singleton] at hc
        subst hc
        simp only [isDigit, Bool.and_eq_true, decide_eq_true_eq]
        omega
      · simp [evalDigits]
    · rw [if_neg h10]
      obtain ⟨ds, h1, _, h3, h4⟩ := ih (n / 10) ((48 + n % 10) :: acc) (by omega)
      refine ⟨ds ++ [48 + n % 10], ?_, by simp, ?_, ?_⟩
      · rw [h1]; simp
      · intro c hc
        simp only [List.mem_append, List.mem_singleton] at hc
        cases hc with
        | inl h => exact h3 c h
        | inr h =>
          subst h
          simp only [isDigit, Bool.and_eq_true, decide_eq_true_eq]
          omega
      · simp only [evalDigits, List.foldl_append, List.foldl_cons, List.foldl_nil] at h4 ⊢
        rw [h4]; omega

theorem natDigits_spec (n : Nat) :
    natDigits n ≠ [] ∧ (∀ c ∈ natDigits n, isDigit c = true) ∧ evalDigits 0 (natDigits n) = n := by
  obtain ⟨ds, h1, h2, h3, h4⟩ := digitsAux_spec (n + 1) n [] (by omega)
  have : natDigits n = ds := by simp [natDigits, h1]
  rw [this]; exact ⟨h2, h3, h4⟩

theorem digitsU_digits (ds : Text) (hne : ds ≠ []) (hd : ∀ c ∈ ds, isDigit c = true) :
    digitsU ds = some (evalDigits 0 ds) := by
  cases ds with
  | nil => exact absurd rfl hne
  | cons c r =>
    have hc : isDigit c = true := hd c (by simp)
    simp only [digitsU, hc, if_true]
    exact digLoop_digits _ hd 0

theorem digitsU_natDigits (n : Nat) : digitsU (natDigits n) = some n := by
  obtain ⟨h1, h2, h3⟩ := natDigits_spec n
  rw [digitsU_digits _ h1 h2, h3]

/-! ### strip -/

theorem dropWhile_id (p : Nat → Bool) (l : Text) (h : ∀ c ∈ l, p c = false) : l.dropWhile p = l := by
  cases l with
  | nil => rfl
  | cons c r => simp [List.dropWhile, h c (by simp)]

theorem strip_id (sp : Nat → Bool) (s : Text) (h : ∀ c ∈ s, sp c = false) : strip sp s = s := by
  unfold strip
  rw [dropWhile_id sp s h, dropWhile_id sp s.reverse (fun c hc => h c (by simpa using hc))]
  simp

theorem digit_not_intSpace (c : Nat) (h : isDigit c = true) : isIntSpace c = false := by
  simp only [isDigit, Bool.and_eq_true, decide_eq_true_eq] at h
  simp only [isIntSpace, Bool.or_eq_false_iff, Bool.and_eq_false_iff, decide_eq_false_iff_not, beq_eq_false_iff_ne]
  omega

/-- `int(d)` of a non-empty string of ASCII digits -/
theorem pyInt_digits (ds : Text) (hne : ds ≠ []) (hd : ∀ c ∈ ds, isDigit c = true) :
    pyInt ds = some ((evalDigits 0 ds : Nat) : Int) := by
  unfold pyInt
  rw [strip_id _ _ (fun c hc => digit_not_intSpace c (hd c hc))]
  cases ds with
  | nil => exact absurd rfl hne
  | cons c r =>
    have hc : isDigit c = true := hd c (by simp)
    have h45 : c ≠ 45 := by
      simp only [isDigit, Bool.and_eq_true, decide_eq_true_eq] at hc; omega
    have h43 : c ≠ 43 := by
      simp only [isDigit, Bool.and_eq_true, decide_eq_true_eq] at hc; omega
    simp only [h45, h43, if_false]
    rw [digitsU_digits _ hne hd]; rfl

/-- `int("%d" % p) == p` -/
theorem pyInt_renderInt (p : Int) : pyInt (renderInt p) = some p := by
  cases p with
  | ofNat n =>
    obtain ⟨h1, h2, h3⟩ := natDigits_spec n
    simp only [renderInt]
    rw [pyInt_digits _ h1 h2, h3]; rfl
  | negSucc n =>
    obtain ⟨_, h2, _⟩ := natDigits_spec (n + 1)
    simp only [renderInt]
    unfold pyInt
    rw [strip_id]
    · show (digitsU (natDigits (n + 1))).map (fun n => -(n : Int)) = some (Int.negSucc n)
      rw [digitsU_natDigits]
      rfl
    · intro c hc
      simp only [List.mem_cons] at hc
      cases hc with
      | inl h => subst h; decide
      | inr h => exact digit_not_intSpace c (h2 c h)

theorem renderInt_ne_nil (p : Int) : renderInt p ≠ [] := by
  cases p with
  | ofNat n => exact (natDigits_spec n).1
  | negSucc n => simp [renderInt]

/-- the characters of `"%d" % p` are digits or `-` -/
theorem renderInt_chars (p : Int) : ∀ c ∈ renderInt p, isDigit c = true ∨ c = 45 := by
  cases p with
  | ofNat n => intro c hc; exact Or.inl ((natDigits_spec n).2.1 c hc)
  | negSucc n =>
    intro c hc
    simp only [renderInt, List.mem_cons] at hc
    cases hc with
    | inl h => exact Or.inr h
    | inr h => exact Or.inl ((natDigits_spec (n + 1)).2.1 c h)

theorem renderInt_nonneg_digits (p : Int) (hp : 0 ≤ p) :
    renderInt p ≠ [] ∧ ∀ c ∈ renderInt p, isDigit c = true := by
  cases p with
  | ofNat n => exact ⟨(natDigits_spec n).1, (natDigits_spec n).2.1⟩
  | negSucc n => omega

/-! ### split / join -/

theorem splitAux_append_noSep (sep : Nat) (t : Text) (h : sep ∉ t) :
    ∀ cur rest, splitAux sep cur (t ++ rest) = splitAux sep (cur ++ t) rest := by
  induction t with
  | nil => intro cur rest; simp
  | cons c t ih =>
    intro cur rest
    have hc : c ≠ sep := fun e => h (by simp [e])
    have ht : sep ∉ t := fun e => h (by simp [e])
    simp only [List.cons_append, splitAux, hc, if_false]
    rw [ih ht]; simp

theorem splitAux_join (sep : Nat) : ∀ (ts : List Text) (t cur : Text), (∀ x ∈ t :: ts, sep ∉ x) →
    splitAux sep cur (joinWith sep (t :: ts)) = (cur ++ t) :: ts := by
  intro ts
  induction ts with
  | nil =>
    intro t cur h
    have := splitAux_append_noSep sep t (h t (by simp)) cur []
    simpa [joinWith, splitAux] using this
  | cons t' ts ih =>
    intro t cur h
    have ht : sep ∉ t := h t (by simp)
    have h' : ∀ x ∈ t' :: ts, sep ∉ x := fun x hx => h x (by simp [List.mem_cons] at hx ⊢; exact Or.inr hx)
    have e : joinWith sep (t :: t' :: ts) = t ++ sep :: joinWith sep (t' :: ts) := by
      simp [joinWith]
    rw [e, splitAux_append_noSep sep t ht]
    simp only [splitAux, if_true]
    rw [ih t' [] h']; simp

theorem splitOn_join (sep : Nat) (l : List Text) (hne : l ≠ []) (h : ∀ x ∈ l, sep ∉ x) :
    splitOn sep (joinWith sep l) = l := by
  cases l with
  | nil => exact absurd rfl hne
  | cons t ts => simpa [splitOn] using splitAux_join sep ts t [] h

theorem mem_splitAux (sep : Nat) : ∀ (s cur p : Text), p ∈ splitAux sep cur s →
    ∀ c ∈ p, (c ∈ cur ∨ c ∈ s) ∧ (c = sep → c ∈ cur) := by
  intro s
  induction s with
  | nil =>
    intro cur p hp c hc
    simp only [splitAux, List.mem_singleton] at hp
    subst hp
    exact ⟨Or.inl hc, fun _ => hc⟩
  | cons d r ih =>
    intro cur p hp c hc
    simp only [splitAux] at hp
    by_cases hd : d = sep
    · rw [if_pos hd] at hp
      simp only [List.mem_cons] at hp
      cases hp with
      | inl h => subst h; exact ⟨Or.inl hc, fun _ => hc⟩
      | inr h =>
        obtain ⟨h1, h2⟩ := ih [] p h c hc
        constructor
        · cases h1 with
          | inl h => simp at h
          | inr h => exact Or.inr (by simp [h])
        · intro e; have := h2 e; simp at this
    · rw [if_neg hd] at hp
      obtain ⟨h1, h2⟩ := ih (cur ++ [d]) p hp c hc
      constructor
      · cases h1 with
        | inl h =>
          simp only [List.mem_append, List.mem_singleton] at h
          cases h with
          | inl h => exact Or.inl h
          | inr h => exact Or.inr (by simp [h])
        | inr h => exact Or.inr (by simp [h])
      · intro e
        have := h2 e
        simp only [List.mem_append, List.mem_singleton] at this
        cases this with
        | inl h => exact h
        | inr h => exact absurd (h ▸ e) hd

theorem splitAux_ne_nil (sep : Nat) : ∀ (s cur : Text), splitAux sep cur s ≠ [] := by
  intro s
  induction s with
  | nil => intro cur; simp [splitAux]
  | cons d r ih =>
    intro cur
    simp only [splitAux]
    by_cases hd : d = sep
    · rw [if_pos hd]; simp
    · rw [if_neg hd]; exact ih _

theorem mem_joinWith (sep : Nat) (l : List Text) (c : Nat) (h : c ∈ joinWith sep l) :
    c = sep ∨ ∃ t ∈ l, c ∈ t := by
  cases l with
  | nil => simp [joinWith] at h
  | cons t ts =>
    simp only [joinWith, List.mem_append, List.mem_flatten, List.mem_map] at h
    cases h with
    | inl h => exact Or.inr ⟨t, by simp, h⟩
    | inr h =>
      obtain ⟨l', ⟨x, hx, rfl⟩, hc⟩ := h
      simp only [List.mem_cons] at hc
      cases hc with
      | inl h => exact Or.inl h
      | inr h => exact Or.inr ⟨x, by simp [hx], h⟩

theorem joinWith_ne_nil (sep : Nat) (l : List Text) (hne : l ≠ []) (h1 : l ≠ [[]]) : joinWith sep l ≠ [] := by
  cases l with
  | nil => exact absurd rfl hne
  | cons t ts =>
    cases ts with
    | nil =>
      have : t ≠ [] := fun e => h1 (by rw [e])
      simpa [joinWith] using this
    | cons t' ts => simp [joinWith]

/-! ### the order on texts and the canonical list of a tag set -/

theorem ltT_irrefl : ∀ a : Text, ltT a a = false := by
  intro a
  induction a with
  | nil => rfl
  | cons c r ih => simp [ltT, ih]

theorem ltT_trans : ∀ a b c : Text, ltT a b = true → ltT b c = true → ltT a c = true := by
  intro a
  induction a with
  | nil =>
    intro b c h1 h2
    cases b with
    | nil => simp [ltT] at h1
    | cons y ys =>
      cases c with
      | nil => simp [ltT] at h2
      | cons z zs => simp [ltT]
  | cons x xs ih =>
    intro b c h1 h2
    cases b with
    | nil => simp [ltT] at h1
    | cons y ys =>
      cases c with
      | nil => simp [ltT] at h2
      | cons z zs =>
        simp only [ltT, Bool.or_eq_true, decide_eq_true_eq, Bool.and_eq_true, beq_iff_eq] at h1 h2 ⊢
        cases h1 with
        | inl h1 =>
          cases h2 with
          | inl h2 => exact Or.inl (by omega)
          | inr h2 => exact Or.inl (by omega)
        | inr h1 =>
          cases h2 with
          | inl h2 => exact Or.inl (by omega)
          | inr h2 => exact Or.inr ⟨by omega, ih ys zs h1.2 h2.2⟩

theorem ltT_total : ∀ a b : Text, ltT a b = true ∨ a = b ∨ ltT b a = true := by
  intro a
  induction a with
  | nil =>
    intro b
    cases b with
    | nil => exact Or.inr (Or.inl rfl)
    | cons y ys => exact Or.inl (by simp [ltT])
  | cons x xs ih =>
    intro b
    cases b with
    | nil => exact Or.inr (Or.inr (by simp [ltT]))
    | cons y ys =>
      simp only [ltT, Bool.or_eq_true, decide_eq_true_eq, Bool.and_eq_true, beq_iff_eq, List.cons.injEq]
      by_cases h1 : x < y
      · exact Or.inl (Or.inl h1)
      · by_cases h2 : y < x
        · exact Or.inr (Or.inr (Or.inl h2))
        · have hxy : x = y := by omega
          rcases ih ys with h | h | h
          · exact Or.inl (Or.inr ⟨hxy, h⟩)
          · exact Or.inr (Or.inl ⟨hxy, h⟩)
          · exact Or.inr (Or.inr (Or.inr ⟨hxy.symm, h⟩))

/-- strictly ascending -/
def Sorted (l : List Text) : Prop := l.Pairwise (fun a b => ltT a b = true)

theorem mem_insertTag (x : Text) : ∀ (l : List Text) (y : Text), y ∈ insertTag x l ↔ y = x ∨ y ∈ l := by
  intro l
  induction l with
  | nil => intro y; simp [insertTag]
  | cons z zs ih =>
    intro y
    simp only [insertTag]
    by_cases h1 : ltT x z = true
    · rw [if_pos h1]; simp
    · rw [if_neg h1]
      by_cases h2 : x = z
      · rw [if_pos h2]; subst h2; simp
      · rw [if_neg h2]
        simp only [List.mem_cons, ih]
        constructor
        · rintro (h | h | h)
          · exact Or.inr (Or.inl h)
          · exact Or.inl h
          · exact Or.inr (Or.inr h)
        · rintro (h | h | h)
          · exact Or.inr (Or.inl h)
          · exact Or.inl h
          · exact Or.inr (Or.inr h)

theorem sorted_insertTag (x : Text) : ∀ l : List Text, Sorted l → Sorted (insertTag x l) := by
  intro l
  induction l with
  | nil => intro _; simp [insertTag, Sorted]
  | cons z zs ih =>
    intro hs
    have hs' := hs
    simp only [Sorted, List.pairwise_cons] at hs'
    obtain ⟨hz, hzs⟩ := hs'
    simp only [insertTag]
    by_cases h1 : ltT x z = true
    · rw [if_pos h1]
      simp only [Sorted, List.pairwise_cons]
      refine ⟨?_, hz, hzs⟩
      intro y hy
      simp only [List.mem_cons] at hy
      cases hy with
      | inl h => subst h; exact h1
      | inr h => exact ltT_trans _ _ _ h1 (hz y h)
    · rw [if_neg h1]
      by_cases h2 : x = z
      · rw [if_pos h2]; exact hs
      · rw [if_neg h2]
        simp only [Sorted, List.pairwise_cons]
        refine ⟨?_, ih hzs⟩
        intro y hy
        rw [mem_insertTag] at hy
        cases hy with
        | inl h =>
          subst h
          rcases ltT_total y z with h | h | h
          · exact absurd h h1
          · exact absurd h h2
          · exact h
        | inr h => exact hz y h

theorem mem_mkSet (l : List Text) (y : Text) : y ∈ mkSet l ↔ y ∈ l := by
  induction l with
  | nil => simp [mkSet]
  | cons x xs ih =>
    have : mkSet (x :: xs) = insertTag x (mkSet xs) := rfl
    rw [this, mem_insertTag, ih]; simp

theorem sorted_mkSet (l : List Text) : Sorted (mkSet l) := by
  induction l with
  | nil => simp [mkSet, Sorted]
  | cons x xs ih =>
    have : mkSet (x :: xs) = insertTag x (mkSet xs) := rfl
    rw [this]; exact sorted_insertTag x _ ih

/-- a set has one ascending list -/
theorem sorted_unique : ∀ l1 l2 : List Text, Sorted l1 → Sorted l2 → (∀ x, x ∈ l1 ↔ x ∈ l2) → l1 = l2 := by
  intro l1
  induction l1 with
  | nil =>
    intro l2 _ _ h
    cases l2 with
    | nil => rfl
    | cons y ys => exact absurd ((h y).2 (by simp)) (by simp)
  | cons x xs ih =>
    intro l2 h1 h2 h
    cases l2 with
    | nil => exact absurd ((h x).1 (by simp)) (by simp)
    | cons y ys =>
      simp only [Sorted, List.pairwise_cons] at h1 h2
      obtain ⟨hx, hxs⟩ := h1
      obtain ⟨hy, hys⟩ := h2
      have hxy : x = y := by
        have a := (h x).1 (by simp)
        have b := (h y).2 (by simp)
        simp only [List.mem_cons] at a b
        cases a with
        | inl a => exact a
        | inr a =>
          cases b with
          | inl b => exact b.symm
          | inr b =>
            have l1 := hy x a
            have l2 := hx y b
            have := ltT_trans _ _ _ l1 l2
            rw [ltT_irrefl] at this
            exact absurd this (by simp)
      subst hxy
      have hx_not : x ∉ xs := fun hm => by
        have := hx x hm; rw [ltT_irrefl] at this; exact absurd this (by simp)
      have hy_not : x ∉ ys := fun hm => by
        have := hy x hm; rw [ltT_irrefl] at this; exact absurd this (by simp)
      have : xs = ys := by
        apply ih ys hxs hys
        intro z
        constructor
        · intro hz
          have := (h z).1 (by simp [hz])
          simp only [List.mem_cons] at this
          cases this with
          | inl e => subst e; exact absurd hz hx_not
          | inr e => exact e
        · intro hz
          have := (h z).2 (by simp [hz])
          simp only [List.mem_cons] at this
          cases this with
          | inl e => subst e; exact absurd hz hy_not
          | inr e => exact e
      rw [this]

/-- building the set from any listing of its elements gives its ascending list -/
theorem mkSet_of_mem_iff (l tags : List Text) (hs : Sorted tags) (h : ∀ x, x ∈ l ↔ x ∈ tags) : mkSet l = tags :=
  sorted_unique _ _ (sorted_mkSet l) hs (fun x => by rw [mem_mkSet, h])

theorem sorted_all_nil (l : List Text) (hs : Sorted l) (h : ∀ x ∈ l, x = []) : l = [] ∨ l = [[]] := by
  cases l with
  | nil => exact Or.inl rfl
  | cons a r =>
    cases r with
    | nil => exact Or.inr (by rw [h a (by simp)])
    | cons b r' =>
      simp only [Sorted, List.pairwise_cons] at hs
      have := hs.1 b (by simp)
      rw [h a (by simp), h b (by simp)] at this
      simp [ltT] at this

end Pyro.Uri
