/-
  Ownership invariant of the response-annotation dict heap (helper lemmas for PyroProps/C12.lean).
-/
import PyroModel.Context

namespace Pyro.Context

def HeapOK (heap : List Dict) : Prop := ∀ d ∈ heap, ∀ kw ∈ d.keys, kw.2 = d.owner
def PendingOK (s : State) : Prop := ∀ p ∈ s.pending, ∀ dd, s.heap[p.dict]? = some dd → dd.owner = p.rid
def RepliesOK (s : State) : Prop := ∀ r ∈ s.replies, ∀ kw ∈ r.keys, kw.2 = r.rid

/-- owners of existing dict objects never change -/
def OwnersKept (h h' : List Dict) : Prop :=
  ∀ (j : Nat) (dd' : Dict), h'[j]? = some dd' → j < h.length → ∃ dd, h[j]? = some dd ∧ dd.owner = dd'.owner

theorem ownersKept_refl (h : List Dict) : OwnersKept h h := fun _ dd' hj _ => ⟨dd', hj, rfl⟩

theorem ownersKept_trans {a b c : List Dict} (h1 : OwnersKept a b) (h2 : OwnersKept b c) (hl : a.length ≤ b.length) :
    OwnersKept a c := by
  intro j dd' hj hlt
  obtain ⟨dd, hd, ho⟩ := h2 j dd' hj (by omega)
  obtain ⟨dd0, hd0, ho0⟩ := h1 j dd hd hlt
  exact ⟨dd0, hd0, by rw [ho0, ho]⟩

theorem heapOK_append (h : List Dict) (o : Nat) (ks : List (Nat × Nat)) (hh : HeapOK h)
    (hk : ∀ kw ∈ ks, kw.2 = o) : HeapOK (h ++ [⟨o, ks⟩]) := by
  intro d hd
  simp only [List.mem_append, List.mem_singleton] at hd
  rcases hd with hd | rfl
  · exact hh d hd
  · exact hk

theorem ownersKept_append (h : List Dict) (x : Dict) : OwnersKept h (h ++ [x]) := by
  intro j dd' hj hlt
  rw [List.getElem?_append_left hlt] at hj
  exact ⟨dd', hj, rfl⟩

theorem heapWrite_length (h : List Dict) (id : Nat) (keys : List Nat) (w : Nat) :
    (heapWrite h id keys w).length = h.length := by
  unfold heapWrite
  cases h[id]? <;> simp

theorem heapWrite_get (h : List Dict) (id j : Nat) (keys : List Nat) (w : Nat) (dd' : Dict)
    (hj : (heapWrite h id keys w)[j]? = some dd') :
    ∃ dd, h[j]? = some dd ∧ dd.owner = dd'.owner ∧
      (∀ kw ∈ dd'.keys, kw ∈ dd.keys ∨ (j = id ∧ kw.2 = w)) := by
  unfold heapWrite at hj
  cases hid : h[id]? with
  | none => rw [hid] at hj; exact ⟨dd', hj, rfl, fun kw hk => Or.inl hk⟩
  | some d =>
    rw [hid] at hj
    simp only at hj
    by_cases he : id = j
    · subst he
      have hlt : id < h.length := (List.getElem?_eq_some_iff.mp hid).1
      simp only [List.getElem?_set, hlt, if_true, Option.some.injEq] at hj
      subst hj
      refine ⟨d, hid, rfl, ?_⟩
      intro kw hk
      simp only [writeKeys, List.mem_append, List.mem_map] at hk
      rcases hk with hk | ⟨k, _, rfl⟩
      · exact Or.inl hk
      · exact Or.inr ⟨rfl, rfl⟩
    · simp only [List.getElem?_set, he, if_false] at hj
      exact ⟨dd', hj, rfl, fun kw hk => Or.inl hk⟩

theorem heapOK_write (h : List Dict) (id : Nat) (keys : List Nat) (w : Nat) (hh : HeapOK h)
    (hown : ∀ dd, h[id]? = some dd → dd.owner = w) : HeapOK (heapWrite h id keys w) := by
  intro d' hd' kw hk
  obtain ⟨j, hj1, hj2⟩ := List.getElem_of_mem hd'
  have hj : (heapWrite h id keys w)[j]? = some d' := by rw [List.getElem?_eq_getElem hj1, hj2]
  obtain ⟨dd, hdd, ho, hkeys⟩ := heapWrite_get h id j keys w d' hj
  rcases hkeys kw hk with hin | ⟨rfl, hw⟩
  · rw [← ho]; exact hh dd (List.mem_of_getElem? hdd) kw hin
  · rw [hw, ← ho]; exact (hown dd hdd).symm

theorem ownersKept_write (h : List Dict) (id : Nat) (keys : List Nat) (w : Nat) :
    OwnersKept h (heapWrite h id keys w) := by
  intro j dd' hj _
  obtain ⟨dd, hdd, ho, _⟩ := heapWrite_get h id j keys w dd' hj
  exact ⟨dd, hdd, ho⟩

/-- what `methodWrites` guarantees when the dict it starts from is owned by the writing request -/
theorem methodWrites_ok (s : State) (rid d : Nat) (keys : List Nat) (mode : AnnMode)
    (hh : HeapOK s.heap) (hown : ∀ dd, s.heap[d]? = some dd → dd.owner = rid) :
    HeapOK (methodWrites s rid d keys mode).1.heap ∧
    (∀ dd, (methodWrites s rid d keys mode).1.heap[(methodWrites s rid d keys mode).2]? = some dd → dd.owner = rid) ∧
    OwnersKept s.heap (methodWrites s rid d keys mode).1.heap ∧
    s.heap.length ≤ (methodWrites s rid d keys mode).1.heap.length ∧
    (methodWrites s rid d keys mode).1.replies = s.replies ∧
    (methodWrites s rid d keys mode).1.pending = s.pending ∧
    (methodWrites s rid d keys mode).1.tls = s.tls := by
  cases mode with
  | mutate =>
    simp only [methodWrites]
    refine ⟨heapOK_write _ _ _ _ hh hown, ?_, ownersKept_write _ _ _ _, by rw [heapWrite_length]; exact Nat.le_refl _, trivial, trivial, trivial⟩
    intro dd hdd
    obtain ⟨dd0, h0, ho, _⟩ := heapWrite_get _ _ _ _ _ _ hdd
    rw [← ho]; exact hown dd0 h0
  | assign =>
    simp only [methodWrites, alloc]
    refine ⟨?_, ?_, ownersKept_append _ _, by simp, trivial, trivial, trivial⟩
    · apply heapOK_append _ _ _ hh
      intro kw hk
      simp only [List.mem_append, List.mem_map] at hk
      rcases hk with hk | ⟨k, _, rfl⟩
      · cases hd : s.heap[d]? with
        | none => rw [hd] at hk; simp at hk
        | some dd0 =>
          rw [hd] at hk
          simp only [Option.map_some, Option.getD_some] at hk
          rw [hh dd0 (List.mem_of_getElem? hd) kw hk]
          exact hown dd0 hd
      · rfl
    · intro dd hdd
      simp only [List.getElem?_append_right (Nat.le_refl _), Nat.sub_self, List.getElem?_cons_zero,
        Option.some.injEq] at hdd
      rw [← hdd]

end Pyro.Context
