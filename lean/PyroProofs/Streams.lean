/-
  Lemmas about the stream table (PyroModel/Streams.lean): association-list facts, the history
  invariant `Inv` (every live stream's replies so far ++ what its iterator still holds = its source)
  and its preservation by every operation.
-/
import PyroModel.Streams

namespace Pyro.Streams

/-! ### association list -/

def Table.keys (t : Table) : List Nat := t.map (·.1)

theorem get_none_iff (t : Table) (id : Nat) : t.get id = none ↔ id ∉ t.keys := by
  induction t with
  | nil => simp [Table.get, Table.keys]
  | cons p r ih =>
    obtain ⟨k, e⟩ := p
    simp only [Table.get, Table.keys, List.map_cons, List.mem_cons, not_or] at ih ⊢
    by_cases h : k = id
    · simp [h]
    · rw [if_neg h, ih]
      exact ⟨fun h2 => ⟨fun h3 => h h3.symm, h2⟩, fun h2 => h2.2⟩

theorem mem_of_get {t : Table} {id : Nat} {e : Entry} (h : t.get id = some e) : (id, e) ∈ t := by
  induction t with
  | nil => simp [Table.get] at h
  | cons p r ih =>
    obtain ⟨k, w⟩ := p
    simp only [Table.get] at h
    by_cases hk : k = id
    · rw [if_pos hk] at h
      simp only [Option.some.injEq] at h
      subst hk; subst h; exact List.mem_cons_self
    · rw [if_neg hk] at h
      exact List.mem_cons_of_mem _ (ih h)

theorem get_of_mem {t : Table} {id : Nat} {e : Entry} (hnd : t.keys.Nodup) (h : (id, e) ∈ t) :
    t.get id = some e := by
  induction t with
  | nil => simp at h
  | cons p r ih =>
    obtain ⟨k, w⟩ := p
    simp only [Table.keys, List.map_cons, List.nodup_cons] at hnd
    simp only [List.mem_cons] at h
    simp only [Table.get]
    rcases h with h | h
    · simp only [Prod.mk.injEq] at h
      rw [if_pos h.1.symm, h.2]
    · have hne : k ≠ id := by
        intro hk; subst hk
        exact hnd.1 (List.mem_map.mpr ⟨(k, e), h, rfl⟩)
      rw [if_neg hne]
      exact ih hnd.2 h

theorem get_erase_self (t : Table) (id : Nat) : (t.erase id).get id = none := by
  rw [get_none_iff]
  simp [Table.erase, Table.keys, List.mem_filter]

theorem get_erase_ne (t : Table) {id id' : Nat} (h : id' ≠ id) : (t.erase id).get id' = t.get id' := by
  induction t with
  | nil => rfl
  | cons p r ih =>
    obtain ⟨k, e⟩ := p
    simp only [Table.erase, List.filter_cons]
    by_cases hk : k = id
    · have : k ≠ id' := by rw [hk]; exact fun h2 => h h2.symm
      simp only [hk, ne_eq, not_true_eq_false, decide_false, Bool.false_eq_true, if_false, Table.get]
      rw [if_neg (by rw [← hk]; exact this)]
      exact ih
    · simp only [ne_eq, hk, not_false_eq_true, decide_true, if_true, Table.get]
      by_cases hk' : k = id'
      · simp [hk']
      · rw [if_neg hk', if_neg hk']; exact ih

theorem get_set_self (t : Table) (id : Nat) (e : Entry) : (t.set id e).get id = some e := by
  induction t with
  | nil => simp [Table.set, Table.get]
  | cons p r ih =>
    obtain ⟨k, w⟩ := p
    simp only [Table.set]
    by_cases hk : k = id
    · rw [if_pos hk]; simp [Table.get]
    · rw [if_neg hk]; simp only [Table.get]; rw [if_neg hk]; exact ih

theorem get_set_ne (t : Table) {id id' : Nat} (e : Entry) (h : id' ≠ id) :
    (t.set id e).get id' = t.get id' := by
  induction t with
  | nil => simp only [Table.set, Table.get]; rw [if_neg (fun h2 => h h2.symm)]
  | cons p r ih =>
    obtain ⟨k, w⟩ := p
    simp only [Table.set]
    by_cases hk : k = id
    · rw [if_pos hk]
      simp only [Table.get]
      rw [if_neg (fun h2 => h h2.symm), if_neg (by rw [hk]; exact fun h2 => h h2.symm)]
    · rw [if_neg hk]
      simp only [Table.get]
      by_cases hk' : k = id'
      · rw [if_pos hk', if_pos hk']
      · rw [if_neg hk', if_neg hk']; exact ih

theorem keys_set_present (t : Table) (id : Nat) (e : Entry) (h : id ∈ t.keys) : (t.set id e).keys = t.keys := by
  induction t with
  | nil => simp [Table.keys] at h
  | cons p r ih =>
    obtain ⟨k, w⟩ := p
    simp only [Table.set]
    by_cases hk : k = id
    · rw [if_pos hk]; simp [Table.keys, hk]
    · rw [if_neg hk]
      simp only [Table.keys, List.map_cons, List.mem_cons] at h ⊢
      rcases h with h | h
      · exact absurd h.symm hk
      · have := ih h
        simp only [Table.keys] at this
        rw [this]

theorem keys_set_absent (t : Table) (id : Nat) (e : Entry) (h : id ∉ t.keys) : (t.set id e).keys = t.keys ++ [id] := by
  induction t with
  | nil => simp [Table.set, Table.keys]
  | cons p r ih =>
    obtain ⟨k, w⟩ := p
    simp only [Table.keys, List.map_cons, List.mem_cons, not_or] at h
    simp only [Table.set]
    rw [if_neg (fun h2 => h.1 h2.symm)]
    have := ih h.2
    simp only [Table.keys] at this
    simp only [Table.keys, List.map_cons, List.cons_append]
    rw [this]

theorem nodup_set (t : Table) (id : Nat) (e : Entry) (hnd : t.keys.Nodup) : (t.set id e).keys.Nodup := by
  by_cases h : id ∈ t.keys
  · rw [keys_set_present t id e h]; exact hnd
  · rw [keys_set_absent t id e h]
    rw [List.nodup_append]
    refine ⟨hnd, by simp, ?_⟩
    intro a ha b hb
    simp only [List.mem_singleton] at hb
    subst hb
    intro hab; subst hab; exact h ha

theorem nodup_filter (t : Table) (q : Nat × Entry → Bool) (hnd : t.keys.Nodup) : (Table.keys (t.filter q)).Nodup := by
  unfold Table.keys at *
  exact List.Nodup.sublist (List.Sublist.map _ List.filter_sublist) hnd

theorem nodup_erase (t : Table) (id : Nat) (hnd : t.keys.Nodup) : (Table.keys (t.erase id)).Nodup :=
  nodup_filter t _ hnd

theorem keys_mapVal (t : Table) (g : Entry → Entry) : Table.keys (t.map fun p => (p.1, g p.2)) = t.keys := by
  simp [Table.keys, List.map_map, Function.comp_def]

theorem get_mapVal (t : Table) (g : Entry → Entry) (id : Nat) :
    Table.get (t.map fun p => (p.1, g p.2)) id = (t.get id).map g := by
  induction t with
  | nil => rfl
  | cons p r ih =>
    obtain ⟨k, w⟩ := p
    simp only [List.map_cons, Table.get]
    by_cases hk : k = id
    · rw [if_pos hk, if_pos hk]; rfl
    · rw [if_neg hk, if_neg hk]; exact ih

/-- filtering on the entry: a key survives iff its entry passes -/
theorem get_filterVal (t : Table) (q : Entry → Bool) (id : Nat) (hnd : t.keys.Nodup) :
    Table.get (t.filter fun p => q p.2) id = (t.get id).bind (fun e => if q e then some e else none) := by
  induction t with
  | nil => rfl
  | cons p r ih =>
    obtain ⟨k, w⟩ := p
    simp only [Table.keys, List.map_cons, List.nodup_cons] at hnd
    simp only [List.filter_cons, Table.get]
    by_cases hq : q w = true
    · simp only [hq, if_true, Table.get]
      by_cases hk : k = id
      · rw [if_pos hk, if_pos hk]; simp [hq]
      · rw [if_neg hk, if_neg hk]; exact ih hnd.2
    · simp only [hq, Bool.false_eq_true, if_false]
      by_cases hk : k = id
      · rw [if_pos hk]
        simp only [Option.bind_some, hq, Bool.false_eq_true, if_false]
        rw [get_none_iff]
        intro hm
        have : id ∈ Table.keys r := by
          simp only [Table.keys, List.mem_map, List.mem_filter] at hm ⊢
          obtain ⟨a, ⟨ha, _⟩, hka⟩ := hm
          exact ⟨a, ha, hka⟩
        exact hnd.1 (hk ▸ this)
      · rw [if_neg hk]; exact ih hnd.2

/-! ### events -/

theorem source_snoc (id : Nat) (ev : List Event) (x : Event) : source id (ev ++ [x]) = source id ev ++ srcOf id x := by
  simp [source, List.flatMap_append]

theorem delivered_snoc (id : Nat) (ev : List Event) (x : Event) :
    delivered id (ev ++ [x]) = delivered id ev ++ delOf id x := by
  simp [delivered, List.flatMap_append]

theorem source_append (id : Nat) (a b : List Event) : source id (a ++ b) = source id a ++ source id b := by
  simp [source, List.flatMap_append]

theorem delivered_append (id : Nat) (a b : List Event) : delivered id (a ++ b) = delivered id a ++ delivered id b := by
  simp [delivered, List.flatMap_append]

theorem exec_append (cfg : Settings) (st : State) (a b : List Op) :
    exec cfg st (a ++ b) = ((exec cfg (exec cfg st a).1 b).1, (exec cfg st a).2 ++ (exec cfg (exec cfg st a).1 b).2) := by
  induction a generalizing st with
  | nil => simp [exec]
  | cons op ops ih => simp only [List.cons_append, exec]; rw [ih]

/-! ### the history invariant -/

structure Inv (st : State) (ev : List Event) : Prop where
  nodup : st.table.keys.Nodup
  live : ∀ id e, st.table.get id = some e → delivered id ev ++ e.rest = source id ev
  pre : ∀ id, delivered id ev <+: source id ev
  fresh : ∀ id, st.nextId ≤ id → st.table.get id = none ∧ source id ev = [] ∧ delivered id ev = []

theorem inv_init (t0 : Nat) : Inv (State.init t0) [] := by
  refine ⟨by simp [State.init, Table.keys], ?_, ?_, ?_⟩
  · intro id e h; simp [State.init, Table.get] at h
  · intro id; simp [source, delivered]
  · intro id _; simp [State.init, Table.get, source, delivered]

/-- operations that only drop entries or rewrite their owner / linger fields, and hand nothing out -/
theorem inv_shrink {st st' : State} {ev : List Event} {x : Event} (h : Inv st ev)
    (hnd : st'.table.keys.Nodup) (hid : st'.nextId = st.nextId)
    (hsub : ∀ id e', st'.table.get id = some e' → ∃ e, st.table.get id = some e ∧ e.rest = e'.rest)
    (hsrc : ∀ id, srcOf id x = []) (hdel : ∀ id, delOf id x = []) : Inv st' (ev ++ [x]) := by
  refine ⟨hnd, ?_, ?_, ?_⟩
  · intro id e' he'
    obtain ⟨e, he, hr⟩ := hsub id e' he'
    rw [source_snoc, delivered_snoc, hsrc, hdel, List.append_nil, List.append_nil, ← hr]
    exact h.live id e he
  · intro id
    rw [source_snoc, delivered_snoc, hsrc, hdel, List.append_nil, List.append_nil]
    exact h.pre id
  · intro id hle
    rw [hid] at hle
    obtain ⟨h1, h2, h3⟩ := h.fresh id hle
    refine ⟨?_, ?_, ?_⟩
    · cases hg : st'.table.get id with
      | none => rfl
      | some e' =>
        obtain ⟨e, he, _⟩ := hsub id e' hg
        rw [h1] at he; cases he
    · rw [source_snoc, hsrc, h2]; rfl
    · rw [delivered_snoc, hdel, h3]; rfl

theorem get_erase_sub (t : Table) (id id' : Nat) (e' : Entry) (h : (t.erase id).get id' = some e') :
    ∃ e, t.get id' = some e ∧ e.rest = e'.rest := by
  by_cases hid : id' = id
  · subst hid; rw [get_erase_self] at h; cases h
  · rw [get_erase_ne t hid] at h; exact ⟨e', h, rfl⟩

theorem get_filterVal_sub (t : Table) (q : Entry → Bool) (hnd : t.keys.Nodup) (id : Nat) (e' : Entry)
    (h : Table.get (t.filter fun p => q p.2) id = some e') : t.get id = some e' ∧ q e' = true := by
  rw [get_filterVal t q id hnd] at h
  cases hg : t.get id with
  | none => rw [hg] at h; cases h
  | some e =>
    rw [hg] at h
    simp only [Option.bind_some] at h
    by_cases hq : q e = true
    · rw [if_pos hq] at h; cases h; exact ⟨rfl, hq⟩
    · rw [if_neg hq] at h; cases h

theorem housekeeping_sub (cfg : Settings) (st : State) (hnd : st.table.keys.Nodup) :
    (doHousekeeping cfg st).table.keys.Nodup ∧
    ∀ id e', (doHousekeeping cfg st).table.get id = some e' → st.table.get id = some e' := by
  unfold doHousekeeping
  by_cases hempty : st.table.isEmpty = true
  · rw [if_pos hempty]; exact ⟨hnd, fun _ _ h => h⟩
  · rw [if_neg hempty]
    simp only
    have h1 : (Table.keys (if 0 < cfg.lifetime then st.table.filter (fun p => !lifeExpired cfg st.now p.2) else st.table)).Nodup ∧
        ∀ id e', Table.get (if 0 < cfg.lifetime then st.table.filter (fun p => !lifeExpired cfg st.now p.2) else st.table) id = some e' →
          st.table.get id = some e' := by
      by_cases hl : 0 < cfg.lifetime
      · rw [if_pos hl]
        exact ⟨nodup_filter _ _ hnd, fun id e' h => (get_filterVal_sub st.table (fun e => !lifeExpired cfg st.now e) hnd id e' h).1⟩
      · rw [if_neg hl]; exact ⟨hnd, fun _ _ h => h⟩
    by_cases hg : 0 < cfg.linger
    · rw [if_pos hg]
      refine ⟨nodup_filter _ _ h1.1, fun id e' h => ?_⟩
      exact h1.2 id e' (get_filterVal_sub _ (fun e => !lingerExpired cfg st.now e) h1.1 id e' h).1
    · rw [if_neg hg]; exact h1

theorem inv_step (cfg : Settings) (st : State) (ev : List Event) (op : Op) (h : Inv st ev) :
    Inv (step cfg st op).1 (ev ++ [(op, (step cfg st op).2)]) := by
  cases op with
  | tick dt =>
    exact inv_shrink h h.nodup rfl (fun id e' he' => ⟨e', he', rfl⟩) (fun _ => rfl) (fun _ => rfl)
  | housekeeping =>
    obtain ⟨h1, h2⟩ := housekeeping_sub cfg st h.nodup
    refine inv_shrink h h1 ?_ (fun id e' he' => ⟨e', h2 id e' he', rfl⟩) (fun _ => rfl) (fun _ => rfl)
    simp only [step, doHousekeeping]; split <;> rfl
  | disconnect conn =>
    simp only [step, doDisconnect]
    by_cases hl : 0 < cfg.linger
    · rw [if_pos hl]
      refine inv_shrink h ?_ rfl ?_ (fun _ => rfl) (fun _ => rfl)
      · simp only; rw [keys_mapVal]; exact h.nodup
      · intro id e' he'
        simp only at he'
        rw [get_mapVal] at he'
        cases hg : st.table.get id with
        | none => rw [hg] at he'; cases he'
        | some e =>
          rw [hg] at he'
          simp only [Option.map_some, Option.some.injEq] at he'
          refine ⟨e, rfl, ?_⟩
          rw [← he']; unfold Entry.lingerIf; split <;> rfl
    · rw [if_neg hl]
      refine inv_shrink h (nodup_filter _ _ h.nodup) rfl ?_ (fun _ => rfl) (fun _ => rfl)
      intro id e' he'
      exact ⟨e', (get_filterVal_sub st.table (fun e => decide (e.owner ≠ some conn)) h.nodup id e' he').1, rfl⟩
  | close id =>
    simp only [step, doClose]
    cases hg : st.table.get id with
    | none => exact inv_shrink h h.nodup rfl (fun id e' he' => ⟨e', he', rfl⟩) (fun _ => rfl) (fun _ => rfl)
    | some e =>
      exact inv_shrink h (nodup_erase _ _ h.nodup) rfl (fun id' e' he' => get_erase_sub _ _ _ _ he') (fun _ => rfl) (fun _ => rfl)
  | «open» conn d =>
    cases d with
    | plain => exact inv_shrink h h.nodup rfl (fun id e' he' => ⟨e', he', rfl⟩) (fun _ => rfl) (fun _ => rfl)
    | iter items =>
      simp only [step, doOpen]
      by_cases hs : cfg.streaming = true
      · rw [if_pos hs]
        simp only
        obtain ⟨hf1, hf2, hf3⟩ := h.fresh st.nextId (Nat.le_refl _)
        refine ⟨nodup_set _ _ _ h.nodup, ?_, ?_, ?_⟩
        · intro id e he
          rw [source_snoc, delivered_snoc]
          simp only [srcOf, delOf, List.append_nil]
          by_cases hid : id = st.nextId
          · subst hid
            rw [get_set_self] at he
            simp only [Option.some.injEq] at he
            subst he
            simp [hf2, hf3]
          · rw [get_set_ne _ _ hid] at he
            rw [if_neg (fun h2 => hid h2.symm), List.append_nil]
            exact h.live id e he
        · intro id
          rw [source_snoc, delivered_snoc]
          simp only [srcOf, delOf, List.append_nil]
          by_cases hid : st.nextId = id
          · subst hid; rw [hf3]; exact List.nil_prefix
          · rw [if_neg hid, List.append_nil]; exact h.pre id
        · intro id hle
          have hle' : st.nextId + 1 ≤ id := hle
          have hne : id ≠ st.nextId := by omega
          obtain ⟨g1, g2, g3⟩ := h.fresh id (by omega)
          refine ⟨by rw [get_set_ne _ _ hne]; exact g1, ?_, ?_⟩
          · rw [source_snoc]; simp only [srcOf]; rw [if_neg (fun h2 => hne h2.symm), g2]; rfl
          · rw [delivered_snoc]; simp only [delOf]; rw [g3]; rfl
      · rw [if_neg hs]
        exact inv_shrink h h.nodup rfl (fun id e' he' => ⟨e', he', rfl⟩) (fun _ => rfl) (fun _ => rfl)
  | next id conn =>
    simp only [step, doNext]
    cases hg : st.table.get id with
    | none => exact inv_shrink h h.nodup rfl (fun id e' he' => ⟨e', he', rfl⟩) (fun _ => rfl) (fun _ => rfl)
    | some e =>
      simp only
      have hrest : (if e.owner.isNone = true then { e with owner := some conn, linger := 0 } else e).rest = e.rest := by
        split <;> rfl
      have hlive := h.live id e hg
      have hfresh : id < st.nextId := by
        apply Nat.lt_of_not_le
        intro hle
        have := (h.fresh id hle).1
        rw [hg] at this; cases this
      rw [hrest]
      cases hr : e.rest with
      | nil =>
        exact inv_shrink h (nodup_erase _ _ h.nodup) rfl (fun id' e' he' => get_erase_sub _ _ _ _ he') (fun _ => rfl) (fun _ => rfl)
      | cons it tl =>
        rw [hr] at hlive
        cases it with
        | val v =>
          simp only
          have hkeys : id ∈ st.table.keys := by
            apply Classical.byContradiction
            intro hn
            rw [← get_none_iff, hg] at hn; cases hn
          refine ⟨by rw [keys_set_present _ _ _ hkeys]; exact h.nodup, ?_, ?_, ?_⟩
          · intro id' e' he'
            rw [source_snoc, delivered_snoc]
            simp only [srcOf, delOf, List.append_nil]
            by_cases hid : id' = id
            · subst hid
              rw [get_set_self] at he'
              simp only [Option.some.injEq] at he'
              subst he'
              simp only [if_true, List.append_assoc, List.singleton_append]
              exact hlive
            · rw [get_set_ne _ _ hid] at he'
              rw [if_neg (fun h2 => hid h2.symm), List.append_nil]
              exact h.live id' e' he'
          · intro id'
            rw [source_snoc, delivered_snoc]
            simp only [srcOf, delOf, List.append_nil]
            by_cases hid : id = id'
            · subst hid
              rw [if_pos rfl, ← hlive]
              exact ⟨tl, by simp⟩
            · rw [if_neg hid, List.append_nil]; exact h.pre id'
          · intro id' hle
            have hle' : st.nextId ≤ id' := hle
            have hne : id' ≠ id := by omega
            obtain ⟨g1, g2, g3⟩ := h.fresh id' hle
            refine ⟨by rw [get_set_ne _ _ hne]; exact g1, ?_, ?_⟩
            · rw [source_snoc]; simp only [srcOf, List.append_nil]; exact g2
            · rw [delivered_snoc]; simp only [delOf]; rw [if_neg (fun h2 => hne h2.symm), g3]; rfl
        | raises x =>
          simp only
          refine ⟨nodup_erase _ _ h.nodup, ?_, ?_, ?_⟩
          · intro id' e' he'
            have hid : id' ≠ id := by
              intro h2; subst h2; rw [get_erase_self] at he'; cases he'
            rw [get_erase_ne _ hid] at he'
            rw [source_snoc, delivered_snoc]
            simp only [srcOf, delOf, List.append_nil]
            rw [if_neg (fun h2 => hid h2.symm), List.append_nil]
            exact h.live id' e' he'
          · intro id'
            rw [source_snoc, delivered_snoc]
            simp only [srcOf, delOf, List.append_nil]
            by_cases hid : id = id'
            · subst hid
              rw [if_pos rfl, ← hlive]
              exact ⟨tl, by simp⟩
            · rw [if_neg hid, List.append_nil]; exact h.pre id'
          · intro id' hle
            have hle' : st.nextId ≤ id' := hle
            have hne : id' ≠ id := by omega
            obtain ⟨g1, g2, g3⟩ := h.fresh id' hle
            refine ⟨by rw [get_erase_ne _ hne]; exact g1, ?_, ?_⟩
            · rw [source_snoc]; simp only [srcOf, List.append_nil]; exact g2
            · rw [delivered_snoc]; simp only [delOf]; rw [if_neg (fun h2 => hne h2.symm), g3]; rfl

theorem inv_exec (cfg : Settings) (ops : List Op) (st : State) (ev0 : List Event) (h : Inv st ev0) :
    Inv (exec cfg st ops).1 (ev0 ++ (exec cfg st ops).2) := by
  induction ops generalizing st ev0 with
  | nil => simpa [exec] using h
  | cons op ops ih =>
    simp only [exec]
    have := ih (step cfg st op).1 (ev0 ++ [(op, (step cfg st op).2)]) (inv_step cfg st ev0 op h)
    simpa [List.append_assoc] using this

/-- the invariant holds after every history from the empty table -/
theorem inv_reach (cfg : Settings) (t0 : Nat) (ops : List Op) :
    Inv (exec cfg (State.init t0) ops).1 (exec cfg (State.init t0) ops).2 := by
  have := inv_exec cfg ops (State.init t0) [] (inv_init t0)
  simpa using this

/-! ### a forgotten stream is never served again -/

theorem get_filter_none (t : Table) (q : Nat × Entry → Bool) (id : Nat) (h : t.get id = none) :
    Table.get (t.filter q) id = none := by
  rw [get_none_iff] at h ⊢
  intro hm
  apply h
  simp only [Table.keys, List.mem_map, List.mem_filter] at hm ⊢
  obtain ⟨a, ⟨ha, _⟩, hka⟩ := hm
  exact ⟨a, ha, hka⟩

theorem get_housekeeping_none (cfg : Settings) (st : State) (id : Nat) (h : st.table.get id = none) :
    (doHousekeeping cfg st).table.get id = none := by
  unfold doHousekeeping
  split
  · exact h
  · simp only
    split <;> split <;> first | exact h | (repeat apply get_filter_none) <;> exact h

theorem get_disconnect_none (cfg : Settings) (st : State) (conn id : Nat) (h : st.table.get id = none) :
    (doDisconnect cfg st conn).table.get id = none := by
  unfold doDisconnect
  split
  · simp only; rw [get_mapVal, h]; rfl
  · exact get_filter_none _ _ _ h

theorem get_close_self (st : State) (id : Nat) : (doClose st id).table.get id = none := by
  unfold doClose
  cases hg : st.table.get id with
  | none => exact hg
  | some e => exact get_erase_self _ _

theorem get_erase_none (t : Table) (id id' : Nat) (h : t.get id = none) : (t.erase id').get id = none :=
  get_filter_none t _ id h

theorem nextId_step (cfg : Settings) (st : State) (op : Op) : st.nextId ≤ (step cfg st op).1.nextId := by
  cases op with
  | «open» conn d =>
    cases d with
    | plain => exact Nat.le_refl _
    | iter items => simp only [step, doOpen]; split <;> simp
  | next id conn =>
    simp only [step, doNext]
    split
    · exact Nat.le_refl _
    · split <;> exact Nat.le_refl _
  | close id => simp only [step, doClose]; split <;> exact Nat.le_refl _
  | disconnect conn => simp only [step, doDisconnect]; split <;> exact Nat.le_refl _
  | housekeeping => simp only [step, doHousekeeping]; split <;> exact Nat.le_refl _
  | tick dt => exact Nat.le_refl _

/-- ids are never reused: an id below the counter that is absent stays absent -/
theorem absent_step (cfg : Settings) (st : State) (op : Op) (id : Nat) (h : st.table.get id = none) (hlt : id < st.nextId) :
    (step cfg st op).1.table.get id = none := by
  cases op with
  | «open» conn d =>
    cases d with
    | plain => exact h
    | iter items =>
      simp only [step, doOpen]
      split
      · simp only; rw [get_set_ne _ _ (by omega)]; exact h
      · exact h
  | next id' conn =>
    simp only [step, doNext]
    cases hg : st.table.get id' with
    | none => exact h
    | some e =>
      have hne : id ≠ id' := by intro h2; subst h2; rw [h] at hg; cases hg
      simp only
      split
      · simp only; rw [get_set_ne _ _ hne]; exact h
      · exact get_erase_none _ _ _ h
      · exact get_erase_none _ _ _ h
  | close id' =>
    simp only [step, doClose]
    split
    · exact h
    · exact get_erase_none _ _ _ h
  | disconnect conn => exact get_disconnect_none cfg st conn id h
  | housekeeping => exact get_housekeeping_none cfg st id h
  | tick dt => exact h

theorem absent_exec (cfg : Settings) (ops : List Op) (st : State) (id : Nat) (h : st.table.get id = none) (hlt : id < st.nextId) :
    (exec cfg st ops).1.table.get id = none := by
  induction ops generalizing st with
  | nil => exact h
  | cons op ops ih =>
    simp only [exec]
    exact ih _ (absent_step cfg st op id h hlt) (Nat.lt_of_lt_of_le hlt (nextId_step cfg st op))

/-! ### exactly when a stream is forgotten -/

/-- the conditions of the property under which operation `op` makes the server forget stream `id`
    (whose table entry is `e`, at clock value `now`) -/
def forgetCond (cfg : Settings) (now id : Nat) (e : Entry) : Op → Prop
  | .next id' _ => id' = id ∧ (e.rest = [] ∨ ∃ x tl, e.rest = .raises x :: tl)       -- exhausted / fails
  | .close id' => id' = id                                                             -- closed
  | .disconnect c => e.owner = some c ∧ cfg.linger ≤ 0                                 -- its connection ends, no linger
  | .housekeeping =>
      (0 < cfg.lifetime ∧ cfg.lifetime < (now : Int) - (e.created : Int)) ∨           -- outlived its lifetime
      (0 < cfg.linger ∧ e.linger ≠ 0 ∧ (now : Int) - (e.linger : Int) > cfg.linger)  -- linger period has passed
  | .open _ _ => False
  | .tick _ => False

theorem isEmpty_false_of_get {t : Table} {id : Nat} {e : Entry} (h : t.get id = some e) : t.isEmpty = false := by
  cases t with
  | nil => simp [Table.get] at h
  | cons p r => rfl

theorem get_housekeeping (cfg : Settings) (st : State) (id : Nat) (e : Entry) (hnd : st.table.keys.Nodup)
    (hg : st.table.get id = some e) :
    (doHousekeeping cfg st).table.get id =
      if (0 < cfg.lifetime ∧ lifeExpired cfg st.now e = true) ∨ (0 < cfg.linger ∧ lingerExpired cfg st.now e = true)
      then none else some e := by
  unfold doHousekeeping
  rw [isEmpty_false_of_get hg]
  simp only [Bool.false_eq_true, if_false]
  by_cases hl : 0 < cfg.lifetime
  · rw [if_pos hl]
    have h1 := get_filterVal st.table (fun e => !lifeExpired cfg st.now e) id hnd
    have hnd1 := nodup_filter st.table (fun p => !lifeExpired cfg st.now p.2) hnd
    by_cases hg2 : 0 < cfg.linger
    · rw [if_pos hg2]
      rw [get_filterVal _ (fun e => !lingerExpired cfg st.now e) id hnd1, h1, hg]
      cases hx : lifeExpired cfg st.now e <;> cases hy : lingerExpired cfg st.now e <;> simp [hl, hg2, hx, hy]
    · rw [if_neg hg2, h1, hg]
      cases hx : lifeExpired cfg st.now e <;> simp [hl, hg2, hx]
  · rw [if_neg hl]
    by_cases hg2 : 0 < cfg.linger
    · rw [if_pos hg2]
      rw [get_filterVal _ (fun e => !lingerExpired cfg st.now e) id hnd, hg]
      cases hy : lingerExpired cfg st.now e <;> simp [hl, hg2, hy]
    · rw [if_neg hg2, hg]; simp [hl, hg2]

theorem forget_iff (cfg : Settings) (st : State) (op : Op) (id : Nat) (e : Entry) (hnd : st.table.keys.Nodup)
    (hfresh : st.table.get st.nextId = none) (hg : st.table.get id = some e) :
    (step cfg st op).1.table.get id = none ↔ forgetCond cfg st.now id e op := by
  cases op with
  | tick dt => simp [step, forgetCond, hg]
  | «open» conn d =>
    cases d with
    | plain => simp [step, doOpen, forgetCond, hg]
    | iter items =>
      simp only [step, doOpen, forgetCond]
      split
      · have hne : id ≠ st.nextId := by intro h2; rw [h2, hfresh] at hg; cases hg
        simp only; rw [get_set_ne _ _ hne, hg]; simp
      · simp [hg]
  | close id' =>
    simp only [step, doClose, forgetCond]
    by_cases hid : id' = id
    · subst hid; rw [hg]; simp [get_erase_self]
    · cases hg' : st.table.get id' with
      | none => simp [hg, hid]
      | some e' => simp only; rw [get_erase_ne _ (fun h2 => hid h2.symm), hg]; simp [hid]
  | disconnect conn =>
    simp only [step, doDisconnect, forgetCond]
    by_cases hl : 0 < cfg.linger
    · rw [if_pos hl]; simp only; rw [get_mapVal, hg]
      simp only [Option.map_some, reduceCtorEq, false_iff, not_and]
      intro _; omega
    · rw [if_neg hl]
      rw [get_filterVal st.table (fun e => decide (e.owner ≠ some conn)) id hnd, hg]
      simp only [Option.bind_some]
      by_cases ho : e.owner = some conn
      · simp [ho]; omega
      · simp [ho]
  | housekeeping =>
    simp only [step, forgetCond]
    rw [get_housekeeping cfg st id e hnd hg]
    simp only [lifeExpired, lingerExpired, decide_eq_true_eq]
    constructor
    · intro h
      split at h
      · rename_i hc
        rcases hc with ⟨h1, h2⟩ | ⟨h1, h2⟩
        · exact Or.inl h2
        · exact Or.inr ⟨h1, h2⟩
      · cases h
    · intro h
      rw [if_pos]
      rcases h with h | ⟨h1, h2⟩
      · exact Or.inl ⟨h.1, h⟩
      · exact Or.inr ⟨h1, h2⟩
  | next id' conn =>
    simp only [step, doNext, forgetCond]
    by_cases hid : id' = id
    · subst hid
      rw [hg]
      simp only
      have hrest : (if e.owner.isNone = true then { e with owner := some conn, linger := 0 } else e).rest = e.rest := by
        split <;> rfl
      rw [hrest]
      cases hr : e.rest with
      | nil => simp [get_erase_self]
      | cons it tl =>
        cases it with
        | val v => simp [get_set_self]
        | raises x => simp [get_erase_self]
    · have hne : id ≠ id' := fun h2 => hid h2.symm
      cases hg' : st.table.get id' with
      | none => simp [hg, hid]
      | some e' =>
        simp only
        split
        · simp only; rw [get_set_ne _ _ hne, hg]; simp [hid]
        · simp only; rw [get_erase_ne _ hne, hg]; simp [hid]
        · simp only; rw [get_erase_ne _ hne, hg]; simp [hid]

/-! ### quiescence -/

/-- an event after which stream `id` is finished for its client: closed, exhausted or failed -/
def Terminal (id : Nat) : Event → Prop
  | (.close id', _) => id' = id
  | (.next id' _, .stop) => id' = id
  | (.next id' _, .raised _) => id' = id
  | _ => False

theorem terminal_step (cfg : Settings) (st : State) (op : Op) (id : Nat) (h : Terminal id (op, (step cfg st op).2)) :
    (step cfg st op).1.table.get id = none := by
  cases op with
  | close id' => simp only [Terminal] at h; subst h; exact get_close_self st id'
  | next id' conn =>
    simp only [step, doNext] at h ⊢
    cases hg : st.table.get id' with
    | none => rw [hg] at h; simp [Terminal] at h
    | some e =>
      rw [hg] at h
      simp only at h ⊢
      split at h
      · simp [Terminal] at h
      · simp only [Terminal] at h; subst h; exact get_erase_self _ _
      · simp only [Terminal] at h; subst h; exact get_erase_self _ _
  | «open» conn d => cases d <;> simp only [step, doOpen] at h <;> (try split at h) <;> simp [Terminal] at h
  | disconnect conn => simp [Terminal] at h
  | housekeeping => simp [Terminal] at h
  | tick dt => simp [Terminal] at h

theorem stream_step (cfg : Settings) (st : State) (op : Op) (id : Nat) (h : (step cfg st op).2 = .stream id) :
    id < (step cfg st op).1.nextId := by
  cases op with
  | «open» conn d =>
    cases d with
    | plain => simp [step, doOpen] at h
    | iter items =>
      simp only [step, doOpen] at h ⊢
      split at h
      · simp only [Res.stream.injEq] at h; rw [if_pos (by assumption)]; simp only; omega
      · cases h
  | next id' conn =>
    simp only [step, doNext] at h
    split at h
    · cases h
    · split at h <;> cases h
  | close id' => simp [step] at h
  | disconnect conn => simp only [step] at h; split at h <;> cases h
  | housekeeping => simp [step] at h
  | tick dt => simp [step] at h

theorem nextId_exec (cfg : Settings) (ops : List Op) (st : State) : st.nextId ≤ (exec cfg st ops).1.nextId := by
  induction ops generalizing st with
  | nil => exact Nat.le_refl _
  | cons op ops ih => simp only [exec]; exact Nat.le_trans (nextId_step cfg st op) (ih _)

theorem opened_lt (cfg : Settings) (ops : List Op) (st : State) (id : Nat) (y : Event)
    (hy : y ∈ (exec cfg st ops).2) (hs : y.2 = .stream id) : id < (exec cfg st ops).1.nextId := by
  induction ops generalizing st with
  | nil => simp [exec] at hy
  | cons op ops ih =>
    simp only [exec, List.mem_cons] at hy ⊢
    rcases hy with hy | hy
    · subst hy
      exact Nat.lt_of_lt_of_le (stream_step cfg st op id hs) (nextId_exec cfg ops _)
    · exact ih _ hy

theorem exec_split (cfg : Settings) (a : List Event) (x : Event) (b : List Event) (ops : List Op) (st : State)
    (h : (exec cfg st ops).2 = a ++ x :: b) :
    ∃ opsA opsB, ops = opsA ++ x.1 :: opsB ∧ (exec cfg st opsA).2 = a ∧
      x.2 = (step cfg (exec cfg st opsA).1 x.1).2 := by
  induction a generalizing st ops with
  | nil =>
    cases ops with
    | nil => simp [exec] at h
    | cons op ops' =>
      simp only [exec, List.nil_append, List.cons.injEq] at h
      refine ⟨[], ops', ?_, rfl, ?_⟩
      · rw [← h.1]; rfl
      · rw [← h.1]; rfl
  | cons y a' ih =>
    cases ops with
    | nil => simp [exec] at h
    | cons op ops' =>
      simp only [exec, List.cons_append, List.cons.injEq] at h
      obtain ⟨opsA, opsB, h1, h2, h3⟩ := ih ops' (step cfg st op).1 h.2
      refine ⟨op :: opsA, opsB, by rw [h1]; rfl, ?_, ?_⟩
      · simp only [exec]; rw [h2, h.1]
      · simp only [exec]; exact h3

/-! ### the client side refines the server model -/

/-- the log of server operations is an execution of the server model ending in the current table -/
def Ref (cfg : Settings) (t0 : Nat) (s : Sys) : Prop :=
  exec cfg (State.init t0) (s.log.map (·.1)) = (s.srv, s.log)

theorem ref_congr {cfg : Settings} {t0 : Nat} {s s' : Sys} (h : Ref cfg t0 s) (h1 : s'.srv = s.srv) (h2 : s'.log = s.log) :
    Ref cfg t0 s' := by
  unfold Ref at *; rw [h1, h2]; exact h

theorem ref_server {cfg : Settings} {t0 : Nat} {s : Sys} (h : Ref cfg t0 s) (op : Op) : Ref cfg t0 (s.server cfg op).1 := by
  unfold Ref at *
  simp only [Sys.server, List.map_append, List.map_cons, List.map_nil]
  rw [exec_append, h]
  simp [exec]

theorem invoke_srv (mask : Nat) (s : Sys) (p : Nat) (px : Proxy) :
    (s.invoke mask p px).1.srv = s.srv ∧ (s.invoke mask p px).1.log = s.log := by
  unfold Sys.invoke; split <;> exact ⟨rfl, rfl⟩

theorem cstep_ref (cfg : Settings) (mask t0 : Nat) (s : Sys) (op : COp) (h : Ref cfg t0 s) :
    Ref cfg t0 (cstep cfg mask s op).1 := by
  cases op with
  | srv o => exact ref_server h o
  | pcall p =>
    simp only [cstep]
    split
    · exact h
    · exact ref_congr h (invoke_srv _ _ _ _).1 (invoke_srv _ _ _ _).2
  | prelease p =>
    simp only [cstep]
    split
    · exact h
    · split
      · exact h
      · exact ref_server (ref_congr h rfl rfl) _
  | call p d =>
    simp only [cstep]
    split
    · exact h
    · rename_i px _
      have h1 : Ref cfg t0 (s.invoke mask p px).1 := ref_congr h (invoke_srv _ _ _ _).1 (invoke_srv _ _ _ _).2
      have h2 := ref_server h1 (.open (s.invoke mask p px).2 d)
      split <;> first | exact h2 | exact ref_congr h2 rfl rfl
  | inext i =>
    simp only [cstep]
    split
    · exact h
    · split
      · exact h
      · split
        · exact h
        · split
          · exact h
          · exact ref_congr (ref_server (ref_congr h rfl rfl) _) rfl rfl
  | inextLost i =>
    simp only [cstep]
    split
    · exact h
    · split
      · exact h
      · split
        · exact h
        · split
          · exact h
          · exact ref_server (ref_congr h rfl rfl) _
  | iclose i =>
    simp only [cstep]
    split
    · exact h
    · split
      · exact ref_congr h rfl rfl
      · split
        · exact h
        · split
          · exact ref_congr h rfl rfl
          · split
            · exact ref_server (ref_congr h rfl rfl) _
            · exact ref_server (ref_server (ref_congr h rfl rfl) _) _

theorem crun_ref (cfg : Settings) (mask t0 : Nat) (ops : List COp) (s : Sys) (h : Ref cfg t0 s) :
    Ref cfg t0 (crun cfg mask s ops).1 := by
  induction ops generalizing s with
  | nil => exact h
  | cons op ops ih => simp only [crun]; exact ih _ (cstep_ref cfg mask t0 s op h)

theorem ref_init (cfg : Settings) (t0 np s0 : Nat) : Ref cfg t0 (Sys.init t0 np s0) := by
  simp [Ref, Sys.init, exec]

theorem inv_of_ref {cfg : Settings} {t0 : Nat} {s : Sys} (h : Ref cfg t0 s) : Inv s.srv s.log := by
  have := inv_reach cfg t0 (s.log.map (·.1))
  unfold Ref at h
  rw [h] at this
  exact this

/-! ### expiry empties the table -/

theorem mem_set_sub {t : Table} {id : Nat} {e : Entry} {p : Nat × Entry} (h : p ∈ Table.set t id e) : p ∈ t ∨ p = (id, e) := by
  induction t with
  | nil => simp only [Table.set, List.mem_singleton] at h; exact Or.inr h
  | cons q r ih =>
    obtain ⟨k, w⟩ := q
    simp only [Table.set] at h
    split at h
    · simp only [List.mem_cons] at h
      rcases h with h | h
      · exact Or.inr h
      · exact Or.inl (List.mem_cons_of_mem _ h)
    · simp only [List.mem_cons] at h
      rcases h with h | h
      · exact Or.inl (by rw [h]; exact List.mem_cons_self)
      · rcases ih h with h | h
        · exact Or.inl (List.mem_cons_of_mem _ h)
        · exact Or.inr h

/-- clock and timestamps: the clock is positive, nothing was created or started lingering in the
    future, and a stream without owner lingers (which only happens when lingering is configured) -/
structure TInv (cfg : Settings) (st : State) : Prop where
  pos : 0 < st.now
  ent : ∀ p ∈ st.table, p.2.created ≤ st.now ∧ (p.2.owner = none → 0 < cfg.linger ∧ 0 < p.2.linger ∧ p.2.linger ≤ st.now)

theorem tinv_sub {cfg : Settings} {st st' : State} (h : TInv cfg st) (hn : st'.now = st.now)
    (hs : ∀ p ∈ st'.table, p ∈ st.table) : TInv cfg st' :=
  ⟨by rw [hn]; exact h.pos, fun p hp => by rw [hn]; exact h.ent p (hs p hp)⟩

theorem housekeeping_mem (cfg : Settings) (st : State) : ∀ p ∈ (doHousekeeping cfg st).table, p ∈ st.table := by
  intro p hp
  unfold doHousekeeping at hp
  split at hp
  · exact hp
  · simp only at hp
    split at hp <;> split at hp <;> (try simp only [List.mem_filter] at hp) <;> first | exact hp | exact hp.1 | exact hp.1.1

theorem housekeeping_now (cfg : Settings) (st : State) : (doHousekeeping cfg st).now = st.now := by
  unfold doHousekeeping; split <;> rfl

theorem tinv_step (cfg : Settings) (st : State) (op : Op) (h : TInv cfg st) : TInv cfg (step cfg st op).1 := by
  cases op with
  | tick dt =>
    refine ⟨by simp only [step]; have := h.pos; omega, fun p hp => ?_⟩
    obtain ⟨h1, h2⟩ := h.ent p hp
    simp only [step]
    exact ⟨by omega, fun ho => by obtain ⟨a, b, c⟩ := h2 ho; exact ⟨a, b, by omega⟩⟩
  | housekeeping => exact tinv_sub h (housekeeping_now cfg st) (housekeeping_mem cfg st)
  | close id =>
    simp only [step, doClose]
    split
    · exact h
    · exact tinv_sub h rfl (fun p hp => (List.mem_filter.mp hp).1)
  | disconnect conn =>
    simp only [step, doDisconnect]
    split
    · rename_i hl
      refine ⟨h.pos, fun p hp => ?_⟩
      simp only [List.mem_map] at hp
      obtain ⟨q, hq, rfl⟩ := hp
      obtain ⟨h1, h2⟩ := h.ent q hq
      simp only [Entry.lingerIf]
      split
      · exact ⟨h1, fun _ => ⟨hl, h.pos, Nat.le_refl _⟩⟩
      · exact ⟨h1, h2⟩
    · exact tinv_sub h rfl (fun p hp => (List.mem_filter.mp hp).1)
  | «open» conn d =>
    cases d with
    | plain => exact h
    | iter items =>
      simp only [step, doOpen]
      split
      · refine ⟨h.pos, fun p hp => ?_⟩
        rcases mem_set_sub hp with hp | hp
        · exact h.ent p hp
        · rw [hp]; exact ⟨Nat.le_refl _, fun ho => by cases ho⟩
      · exact h
  | next id conn =>
    simp only [step, doNext]
    cases hg : st.table.get id with
    | none => exact h
    | some e =>
      have he := h.ent (id, e) (mem_of_get hg)
      simp only
      split
      · refine ⟨h.pos, fun p hp => ?_⟩
        rcases mem_set_sub hp with hp | hp
        · exact h.ent p hp
        · rw [hp]
          simp only
          split
          · exact ⟨he.1, fun ho => by cases ho⟩
          · exact ⟨he.1, he.2⟩
      · exact tinv_sub h rfl (fun p hp => (List.mem_filter.mp hp).1)
      · exact tinv_sub h rfl (fun p hp => (List.mem_filter.mp hp).1)

theorem tinv_exec (cfg : Settings) (ops : List Op) (st : State) (h : TInv cfg st) : TInv cfg (exec cfg st ops).1 := by
  induction ops generalizing st with
  | nil => exact h
  | cons op ops ih => simp only [exec]; exact ih _ (tinv_step cfg st op h)

theorem tinv_init (cfg : Settings) (t0 : Nat) (h : 0 < t0) : TInv cfg (State.init t0) :=
  ⟨h, fun p hp => by simp [State.init] at hp⟩

/-- after a disconnect of `c0` no remaining stream is owned by `c0`, and no new owners appear -/
theorem disconnect_owner (cfg : Settings) (st : State) (c0 : Nat) :
    ∀ p ∈ (doDisconnect cfg st c0).table, ∀ c, p.2.owner = some c → c ≠ c0 ∧ ∃ q ∈ st.table, q.2.owner = some c := by
  intro p hp c hc
  unfold doDisconnect at hp
  split at hp
  · simp only [List.mem_map] at hp
    obtain ⟨q, hq, rfl⟩ := hp
    simp only [Entry.lingerIf] at hc
    split at hc
    · cases hc
    · rename_i hne
      exact ⟨fun h2 => hne (by rw [hc, h2]), q, hq, hc⟩
  · simp only [List.mem_filter, decide_eq_true_eq] at hp
    exact ⟨fun h2 => hp.2 (by rw [hc, h2]), p, hp.1, hc⟩

theorem disconnect_all (cfg : Settings) (conns : List Nat) (st : State) (h : TInv cfg st) :
    TInv cfg (exec cfg st (conns.map .disconnect)).1 ∧ (exec cfg st (conns.map .disconnect)).1.now = st.now ∧
    ∀ p ∈ (exec cfg st (conns.map .disconnect)).1.table, ∀ c, p.2.owner = some c →
      c ∉ conns ∧ ∃ q ∈ st.table, q.2.owner = some c := by
  induction conns generalizing st with
  | nil => exact ⟨h, rfl, fun p hp c hc => ⟨by simp, p, hp, hc⟩⟩
  | cons c0 cs ih =>
    simp only [List.map_cons, exec]
    have h1 : TInv cfg (step cfg st (.disconnect c0)).1 := tinv_step cfg st _ h
    obtain ⟨i1, i2, i3⟩ := ih (step cfg st (.disconnect c0)).1 h1
    refine ⟨i1, by rw [i2]; simp only [step, doDisconnect]; split <;> rfl, fun p hp c hc => ?_⟩
    obtain ⟨j1, q, hq, hqc⟩ := i3 p hp c hc
    obtain ⟨k1, q', hq', hqc'⟩ := disconnect_owner cfg st c0 q hq c hqc
    exact ⟨by simp only [List.mem_cons, not_or]; exact ⟨k1, j1⟩, q', hq', hqc'⟩

theorem expiry_empties (cfg : Settings) (st : State) (h : TInv cfg st) (conns : List Nat) (dt : Nat)
    (hown : ∀ p ∈ st.table, ∀ c, p.2.owner = some c → c ∈ conns) (hlg : cfg.linger < dt) :
    (exec cfg st (conns.map .disconnect ++ [.tick dt, .housekeeping])).1.table = [] := by
  rw [exec_append]
  obtain ⟨i1, i2, i3⟩ := disconnect_all cfg conns st h
  generalize (exec cfg st (conns.map .disconnect)).1 = st1 at i1 i2 i3
  have hnone : ∀ p ∈ st1.table, p.2.owner = none := by
    intro p hp
    cases ho : p.2.owner with
    | none => rfl
    | some c =>
      obtain ⟨j1, q, hq, hqc⟩ := i3 p hp c ho
      exact absurd (hown q hq c hqc) j1
  simp only [exec, step]
  unfold doHousekeeping
  simp only
  split
  · rename_i he; simpa using he
  · by_cases hl : 0 < cfg.linger
    · rw [if_pos hl]
      simp only
      rw [List.filter_eq_nil_iff]
      intro p hp
      have hp1 : p ∈ st1.table := by
        split at hp
        · exact (List.mem_filter.mp hp).1
        · exact hp
      obtain ⟨_, h2⟩ := i1.ent p hp1
      obtain ⟨_, b, c⟩ := h2 (hnone p hp1)
      have hx : lingerExpired cfg (st1.now + dt) p.2 = true := by
        simp only [lingerExpired, decide_eq_true_eq]
        exact ⟨by omega, by omega⟩
      simp [hx]
    · -- lingering is not configured: a stream without owner cannot exist, so the table is already empty
      exfalso
      rename_i hne
      cases htab : st1.table with
      | nil => rw [htab] at hne; simp at hne
      | cons p r =>
        have hp : p ∈ st1.table := by rw [htab]; exact List.mem_cons_self
        exact hl ((i1.ent p hp).2 (hnone p hp)).1

end Pyro.Streams
