/-
  Decoding of the behaviour tables that the extractor obtains by CALLING the real Pool methods on every
  small pool state (harness/props/c18_probe.py), and the comparison with the model's atomic method.
  Row:  [[min, max, closed, arg], idle, busy, slots, events, [result, closed'], idle', busy', slots', events']
  (slot 0 = None, k+1 = job k; the submitted job is number 100; result 0 returned, 1 NoFreeWorkersError,
  2 PoolError, 4 RuntimeError, anything else = unexpected).
-/
import PyroModel.Pool

namespace Pyro.Pool

def decSlot : Nat → Option Jid
  | 0 => none
  | k + 1 => some k

def encSlot : Option Jid → Nat
  | none => 0
  | some k => k + 1

/-- the pool state a row starts from (the submitted job gets number 100) -/
def mkSt (closed : Nat) (idle busy slots evs : List Nat) : St :=
  { idle := idle, busy := busy, closed := closed != 0,
    ws := (slots.zip evs).map fun p => { slot := decSlot p.1, ev := p.2 != 0 },
    nextJob := 100 }

def sameSet (a b : List Nat) : Bool := a.length == b.length && a.all b.contains && b.all a.contains

def resCode : Res → Nat
  | .ok => 0
  | .noFreeWorkers => 1
  | .poolClosed => 2
  | .internalError => 3

/-- does the state `s` (and result `r`) look like the observed "after" part of a row? -/
def sameAfter (s : St) (r : Nat) (res closed' : Nat) (idle' busy' slots' evs' : List Nat) : Bool :=
  r == res && s.closed == (closed' != 0) && sameSet s.idle idle' && sameSet s.busy busy' &&
  s.ws.map (fun x => encSlot x.slot) == slots' && s.ws.map (fun x => if x.ev then 1 else 0) == evs'

/-- kind 0 = process (arg = pick), 1 = notify_done (arg = worker), 2 = close -/
def checkRow (kind : Nat) : List (List Nat) → Bool
  | [[mn, mx, closed, arg], idle, busy, slots, evs, [res, closed'], idle', busy', slots', evs'] =>
    let s := mkSt closed idle busy slots evs
    let c : Call := match kind with
      | 0 => .process arg
      | 1 => .notifyDone arg
      | _ => .close
    let p := call mn mx c s
    sameAfter p.1 (resCode p.2) res closed' idle' busy' slots' evs'
  | _ => false

/-- `process` when `Thread.start()` of a NEW worker raises RuntimeError: the error comes out of `process` and the
    pool is exactly as before; when no new worker is needed the row is an ordinary `process` row. -/
def checkStartFail : List (List Nat) → Bool
  | [[mn, mx, closed, arg], idle, busy, slots, evs, [res, closed'], idle', busy', slots', evs'] =>
    let s := mkSt closed idle busy slots evs
    let p := call mn mx (.process arg) s
    if p.1.ws.length = s.ws.length then
      sameAfter p.1 (resCode p.2) res closed' idle' busy' slots' evs'
    else
      res == 4 && sameAfter s 4 4 closed' idle' busy' slots' evs'
  | _ => false

/-- `Pool()`: [[min, max], [result, |idle|, |busy|, closed, lock exists before the first worker starts, workers started]] -/
def checkInit : List (List Nat) → Bool
  | [[mn, mx], [res, ni, nb, closed, lockFirst, started]] =>
    if 1 ≤ mn ∧ mn ≤ mx then
      res == 0 && ni == (init mn).idle.length && nb == (init mn).busy.length && closed == 0 && lockFirst == 1 &&
      started == (init mn).ws.length
    else res == 5
  | _ => false

end Pyro.Pool
