/-
  Invariants of the fine-grained interleaving semantics of the stream table
  (PyroModel/StreamsRace.lean), preserved by every micro-step of every thread, hence by every
  schedule.
-/
import PyroModel.StreamsRace

namespace Pyro.StreamsRace

open Pyro.Streams

/-! ### what the iterators handed out ++ what they still hold is constant -/

/-- stream `sid`: everything its `next()` calls produced so far, followed by what it still holds -/
def ghost (sh : Shared) (sid : Nat) : List Item := handedOf sid sh.handed ++ sh.heap.getD sid []

theorem handedOf_snoc (sid : Nat) (h : List (Nat × Item)) (k : Nat) (it : Item) :
    handedOf sid (h ++ [(k, it)]) = handedOf sid h ++ (if k = sid then [it] else []) := by
  unfold handedOf
  by_cases hk : k = sid <;> simp [List.filter_append, hk]

theorem startCall_shared (cfg : Settings) (t : Thread) (sh : Shared) (c : Call) : (startCall cfg t sh c).2 = sh := by
  unfold startCall
  cases c with
  | next sid conn => simp only; split <;> rfl
  | close sid => simp only; split <;> rfl
  | disconnect conn => rfl
  | housekeeping => simp only; split <;> (try split) <;> rfl

theorem ghost_pop (sh : Shared) (k : Nat) (it : Item) (tl : List Item) (h : sh.heap.getD k [] = it :: tl) (sid : Nat) :
    ghost { sh with heap := sh.heap.set k tl, handed := sh.handed ++ [(k, it)] } sid = ghost sh sid := by
  unfold ghost
  simp only [handedOf_snoc]
  have hlt : k < sh.heap.length := by
    apply Classical.byContradiction
    intro hn
    have : sh.heap.getD k [] = [] := by
      rw [List.getD_eq_getElem?_getD, List.getElem?_eq_none (by omega)]; rfl
    rw [this] at h; cases h
  by_cases hk : k = sid
  · subst hk
    rw [if_pos rfl]
    have h1 : (sh.heap.set k tl).getD k [] = tl := by
      rw [List.getD_eq_getElem?_getD, List.getElem?_set_self hlt]; rfl
    rw [h1, h]; simp
  · rw [if_neg hk]
    have h1 : (sh.heap.set k tl).getD sid [] = sh.heap.getD sid [] := by
      rw [List.getD_eq_getElem?_getD, List.getD_eq_getElem?_getD, List.getElem?_set_ne hk]
    rw [h1]; simp

/-- a micro-step never changes `ghost`: only `next(stream)` touches the iterators, and it moves the
    head of what the iterator holds to the end of what it has handed out -/
theorem micro_ghost (m : Modes) (cfg : Settings) (t : Thread) (sh : Shared) (sid : Nat) :
    ghost (micro m cfg t sh).2 sid = ghost sh sid := by
  unfold micro
  split
  · split
    · rfl
    · rw [startCall_shared]
  · split <;> (try split) <;> rfl
  · rfl
  · rename_i k _
    split
    · rename_i v tl hh; exact ghost_pop sh k (.val v) tl hh sid
    · rfl
    · rename_i x tl hh; exact ghost_pop sh k (.raises x) tl hh sid
  · split <;> rfl
  · split <;> rfl
  · split
    · rfl
    · split <;> (try split) <;> (try split) <;> rfl
  · rfl
  · split <;> rfl
  · rfl
  · split
    · rfl
    · split <;> (try split) <;> rfl
  · split <;> rfl
  · rfl
  · split
    · rfl
    · split <;> (try split) <;> rfl
  · split <;> rfl

theorem stepT_ghost (m : Modes) (cfg : Settings) (c : Config) (tid sid : Nat) :
    ghost (stepT m cfg c tid).shared sid = ghost c.shared sid := by
  unfold stepT
  split
  · rfl
  · exact micro_ghost m cfg _ _ sid

theorem run_ghost (m : Modes) (cfg : Settings) (schedule : List Nat) (c : Config) (sid : Nat) :
    ghost (run m cfg c schedule).shared sid = ghost c.shared sid := by
  induction schedule generalizing c with
  | nil => rfl
  | cons t ts ih =>
    simp only [run, List.foldl_cons]
    have := ih (stepT m cfg c t)
    simp only [run] at this
    rw [this, stepT_ghost]

/-! ### what completed calls returned -/

/-- a completed call is well explained: with a tolerant removal in `get_next_stream_item` the reply is
    what `next(stream)` did whenever it was reached; a KeyError can only come from a `next` call or from
    a function that still removes with `del` -/
def Good (m : Modes) (d : Done) : Prop :=
  (m.next = .tolerant → ∀ o, d.2.2 = some o → d.2.1 = o) ∧
  (d.2.1 = .keyError → match d.1 with
    | .next _ _ => True
    | .close _ => m.close = .strict
    | .disconnect _ => m.disc = .strict
    | .housekeeping => m.hk = .strict)

/-- the program counter belongs to the call in progress -/
def PcCur (t : Thread) : Prop :=
  match t.pc with
  | .idle => True
  | .nGet _ _ | .nSet _ _ _ | .nNext _ | .nDel _ _ => ∃ sid conn, t.cur = .next sid conn
  | .cDel _ => ∃ sid, t.cur = .close sid
  | .dGet _ _ | .dSet _ _ _ _ | .dDel _ _ _ => ∃ conn, t.cur = .disconnect conn
  | .hKeys1 | .hGet1 _ | .hDel1 _ _ | .hKeys2 | .hGet2 _ | .hDel2 _ _ => t.cur = .housekeeping

structure TI (m : Modes) (t : Thread) : Prop where
  good : ∀ d ∈ t.done, Good m d
  pc : PcCur t

theorem ti_finish {m : Modes} {t : Thread} {r : RRes} {y : Option RRes} (h : TI m t) (hg : Good m (t.cur, r, y)) :
    TI m (t.finish r y) := by
  refine ⟨?_, by simp [Thread.finish, PcCur]⟩
  intro d hd
  simp only [Thread.finish, List.mem_append, List.mem_singleton] at hd
  rcases hd with hd | hd
  · exact h.good d hd
  · rw [hd]; exact hg

theorem good_plain (m : Modes) (c : Call) (r : RRes) (hr : r ≠ .keyError) : Good m (c, r, none) :=
  ⟨fun _ o ho => (by cases ho), fun h => absurd h hr⟩

theorem good_next_key (m : Modes) (sid conn : Nat) : Good m (.next sid conn, .keyError, none) :=
  ⟨fun _ o ho => (by cases ho), fun _ => trivial⟩

theorem remove_tolerant (t : RTable) (k : Nat) : remove .tolerant t k = some (t.erase k) := by
  unfold remove; split <;> simp_all

theorem remove_none {mode : Removal} {t : RTable} {k : Nat} (h : remove mode t k = none) : mode = .strict := by
  cases mode with
  | strict => rfl
  | tolerant => rw [remove_tolerant] at h; cases h

theorem ti_contD {m : Modes} {t : Thread} (conn conn' : Nat) (todo : List Nat) (h : TI m t) (hc : t.cur = .disconnect conn') :
    TI m (contD conn todo t) := by
  unfold contD
  split
  · exact ti_finish h (good_plain m _ _ (by decide))
  · exact ⟨h.good, by simp only [Thread.goto, PcCur]; exact ⟨conn', hc⟩⟩

theorem ti_afterLife {m : Modes} {t : Thread} (cfg : Settings) (h : TI m t) (hc : t.cur = .housekeeping) :
    TI m (afterLife cfg t) := by
  unfold afterLife
  split
  · exact ⟨h.good, by simp only [Thread.goto, PcCur]; exact hc⟩
  · exact ti_finish h (good_plain m _ _ (by decide))

theorem ti_contH1 {m : Modes} {t : Thread} (cfg : Settings) (todo : List Nat) (h : TI m t) (hc : t.cur = .housekeeping) :
    TI m (contH1 cfg todo t) := by
  unfold contH1
  split
  · exact ti_afterLife cfg h hc
  · exact ⟨h.good, by simp only [Thread.goto, PcCur]; exact hc⟩

theorem ti_contH2 {m : Modes} {t : Thread} (todo : List Nat) (h : TI m t) (hc : t.cur = .housekeeping) :
    TI m (contH2 todo t) := by
  unfold contH2
  split
  · exact ti_finish h (good_plain m _ _ (by decide))
  · exact ⟨h.good, by simp only [Thread.goto, PcCur]; exact hc⟩

theorem ti_startCall {m : Modes} (cfg : Settings) (t : Thread) (sh : Shared) (c : Call)
    (h : ∀ d ∈ t.done, Good m d) (hpc : t.pc = .idle) : TI m (startCall cfg t sh c).1 := by
  have h0 : TI m { t with cur := c } := ⟨h, by simp only [PcCur, hpc]⟩
  unfold startCall
  cases c with
  | next sid conn =>
    simp only
    split
    · exact ti_finish h0 (good_plain m _ _ (by decide))
    · exact ⟨h, by simp only [Thread.goto, PcCur]; exact ⟨sid, conn, rfl⟩⟩
  | close sid =>
    simp only
    split
    · exact ti_finish h0 (good_plain m _ _ (by decide))
    · exact ⟨h, by simp only [Thread.goto, PcCur]; exact ⟨sid, rfl⟩⟩
  | disconnect conn => exact ti_contD conn conn _ h0 rfl
  | housekeeping =>
    simp only
    split
    · exact ti_finish h0 (good_plain m _ _ (by decide))
    · split
      · exact ⟨h, by simp only [Thread.goto, PcCur]⟩
      · exact ti_afterLife cfg h0 rfl

/-- every micro-step preserves the thread invariant, whatever the shared state is -/
theorem ti_micro (m : Modes) (cfg : Settings) (t : Thread) (sh : Shared) (h : TI m t) : TI m (micro m cfg t sh).1 := by
  have hpc := h.pc
  unfold micro
  split
  · rename_i hp
    split
    · exact h
    · exact ti_startCall cfg _ sh _ h.good hp
  · rename_i sid conn hp
    simp only [PcCur, hp] at hpc
    obtain ⟨s', c', hcur⟩ := hpc
    split
    · exact ti_finish h (by rw [hcur]; exact good_next_key m s' c')
    · split
      · exact ⟨h.good, by simp only [Thread.goto, PcCur]; exact ⟨s', c', hcur⟩⟩
      · exact ⟨h.good, by simp only [Thread.goto, PcCur]; exact ⟨s', c', hcur⟩⟩
  · rename_i sid conn e hp
    simp only [PcCur, hp] at hpc
    exact ⟨h.good, by simp only [Thread.goto, PcCur]; exact hpc⟩
  · rename_i sid hp
    simp only [PcCur, hp] at hpc
    obtain ⟨s', c', hcur⟩ := hpc
    split
    · refine ti_finish h ⟨fun _ o ho => ?_, fun hk => by cases hk⟩
      simp only [Option.some.injEq] at ho; exact ho
    · exact ⟨h.good, by simp only [Thread.goto, PcCur]; exact ⟨s', c', hcur⟩⟩
    · exact ⟨h.good, by simp only [Thread.goto, PcCur]; exact ⟨s', c', hcur⟩⟩
  · rename_i sid pending hp
    simp only [PcCur, hp] at hpc
    obtain ⟨s', c', hcur⟩ := hpc
    split
    · rename_i hrm
      have hstrict := remove_none hrm
      refine ti_finish h ⟨fun ht => ?_, fun _ => by rw [hcur]; trivial⟩
      rw [hstrict] at ht; cases ht
    · refine ti_finish h ⟨fun _ o ho => ?_, fun _ => by rw [hcur]; trivial⟩
      simp only [Option.some.injEq] at ho; exact ho
  · rename_i sid hp
    simp only [PcCur, hp] at hpc
    obtain ⟨s', hcur⟩ := hpc
    split
    · rename_i hrm
      refine ti_finish h ⟨fun _ o ho => (by cases ho), fun _ => ?_⟩
      rw [hcur]; exact remove_none hrm
    · exact ti_finish h (good_plain m _ _ (by decide))
  · rename_i conn todo hp
    simp only [PcCur, hp] at hpc
    obtain ⟨c', hcur⟩ := hpc
    split
    · exact ti_finish h (good_plain m _ _ (by decide))
    · split
      · split
        · split
          · exact ⟨h.good, by simp only [Thread.goto, PcCur]; exact ⟨c', hcur⟩⟩
          · exact ⟨h.good, by simp only [Thread.goto, PcCur]; exact ⟨c', hcur⟩⟩
        · exact ti_contD _ c' _ h hcur
      · exact ti_contD _ c' _ h hcur
  · rename_i conn k e todo hp
    simp only [PcCur, hp] at hpc
    obtain ⟨c', hcur⟩ := hpc
    exact ti_contD _ c' _ h hcur
  · rename_i conn k todo hp
    simp only [PcCur, hp] at hpc
    obtain ⟨c', hcur⟩ := hpc
    split
    · rename_i hrm
      refine ti_finish h ⟨fun _ o ho => (by cases ho), fun _ => ?_⟩
      rw [hcur]; exact remove_none hrm
    · exact ti_contD _ c' _ h hcur
  · rename_i hp
    simp only [PcCur, hp] at hpc
    exact ti_contH1 cfg _ h hpc
  · rename_i todo hp
    simp only [PcCur, hp] at hpc
    split
    · exact ti_afterLife cfg h hpc
    · split
      · split
        · exact ⟨h.good, by simp only [Thread.goto, PcCur]; exact hpc⟩
        · exact ti_contH1 cfg _ h hpc
      · exact ti_contH1 cfg _ h hpc
  · rename_i k todo hp
    simp only [PcCur, hp] at hpc
    split
    · rename_i hrm
      refine ti_finish h ⟨fun _ o ho => (by cases ho), fun _ => ?_⟩
      rw [hpc]; exact remove_none hrm
    · exact ti_contH1 cfg _ h hpc
  · rename_i hp
    simp only [PcCur, hp] at hpc
    exact ti_contH2 _ h hpc
  · rename_i todo hp
    simp only [PcCur, hp] at hpc
    split
    · exact ti_finish h (good_plain m _ _ (by decide))
    · split
      · split
        · exact ⟨h.good, by simp only [Thread.goto, PcCur]; exact hpc⟩
        · exact ti_contH2 _ h hpc
      · exact ti_contH2 _ h hpc
  · rename_i k todo hp
    simp only [PcCur, hp] at hpc
    split
    · rename_i hrm
      refine ti_finish h ⟨fun _ o ho => (by cases ho), fun _ => ?_⟩
      rw [hpc]; exact remove_none hrm
    · exact ti_contH2 _ h hpc

theorem ti_new (m : Modes) (prog : List Call) : TI m (Thread.new prog) :=
  ⟨by simp [Thread.new], by simp [Thread.new, PcCur]⟩

theorem ti_stepT (m : Modes) (cfg : Settings) (c : Config) (tid : Nat) (h : ∀ t ∈ c.threads, TI m t) :
    ∀ t ∈ (stepT m cfg c tid).threads, TI m t := by
  unfold stepT
  split
  · exact h
  · rename_i t0 ht0
    intro t ht
    simp only at ht
    rcases List.mem_or_eq_of_mem_set ht with ht | ht
    · exact h t ht
    · rw [ht]; exact ti_micro m cfg t0 c.shared (h t0 (List.mem_of_getElem? ht0))

theorem ti_run (m : Modes) (cfg : Settings) (schedule : List Nat) (c : Config) (h : ∀ t ∈ c.threads, TI m t) :
    ∀ t ∈ (run m cfg c schedule).threads, TI m t := by
  induction schedule generalizing c with
  | nil => exact h
  | cons x xs ih =>
    simp only [run, List.foldl_cons]
    exact ih (stepT m cfg c x) (ti_stepT m cfg c x h)

theorem ti_init (m : Modes) (table : RTable) (heap : List (List Item)) (now : Nat) (progs : List (List Call)) :
    ∀ t ∈ (Config.init table heap now progs).threads, TI m t := by
  intro t ht
  simp only [Config.init, List.mem_map] at ht
  obtain ⟨p, _, rfl⟩ := ht
  exact ti_new m p

end Pyro.StreamsRace
