/-
  Helper lemmas for the wire codec proofs (property theorems live in PyroProps/C06.lean).
-/
import PyroModel.Wire

namespace Pyro.Wire

open Pyro

theorem take_append_len {α} (a b : List α) (n : Nat) (h : a.length = n) : (a ++ b).take n = a := by
  subst h; simp

theorem drop_append_len {α} (a b : List α) (n : Nat) (h : a.length = n) : (a ++ b).drop n = b := by
  subst h; simp

@[simp] theorem take_toBE_append (w n : Nat) (b : Bytes) : (toBE w n ++ b).take w = toBE w n :=
  take_append_len _ _ _ (toBE_length w n)

@[simp] theorem drop_toBE_append (w n : Nat) (b : Bytes) : (toBE w n ++ b).drop w = b :=
  drop_append_len _ _ _ (toBE_length w n)

theorem recvN_append (a b : Bytes) (n : Nat) (h : a.length = n) : recvN n (a ++ b) = some (a, b) := by
  unfold recvN
  have : n ≤ (a ++ b).length := by simp [List.length_append]; omega
  rw [if_pos this, take_append_len a b n h, drop_append_len a b n h]

theorem headerPrefix_length : headerPrefix.length = 6 := by
  simp [headerPrefix, tagPYRO]

theorem packHeader_length (t s f q d a : Nat) (c : Bytes) (hc : c.length = 16) :
    (packHeader t s f q d a c).length = 40 := by
  simp [packHeader, headerPrefix_length, hc]

/-! ### bit helpers on the two managed flag bits (2 = COMPRESSED, 64 = CORR_ID) -/

theorem hasBit_setBit2 (f : Nat) : hasBit (setBit f 2) 2 = true := by
  unfold hasBit setBit; split <;> simp <;> omega

theorem hasBit_clearBit2 (f : Nat) : hasBit (clearBit f 2) 2 = false := by
  unfold hasBit clearBit; split <;> simp <;> omega

theorem hasBit2_setBit64 (f : Nat) : hasBit (setBit f 64) 2 = hasBit f 2 := by
  unfold hasBit setBit; split <;> simp; omega

theorem clearBit2_setBit2_clearBit2 (f : Nat) : clearBit (setBit (clearBit f 2) 2) 2 = clearBit f 2 := by
  unfold clearBit setBit; repeat' split
  all_goals omega

theorem clearBit2_setBit64 (f : Nat) : clearBit (setBit f 64) 2 = setBit (clearBit f 2) 64 := by
  unfold clearBit setBit; repeat' split
  all_goals omega

theorem clearBit_of_not_hasBit (f b : Nat) (h : hasBit f b = false) : clearBit f b = f := by
  unfold hasBit at h; unfold clearBit; simp at h; rw [if_neg (by omega)]

/-! ### annotations -/

def keysOf (d : List Ann) : List (List Nat) := d.map (·.1)

theorem dictSet_fresh (d : List Ann) (k : List Nat) (v : Bytes) (h : k ∉ keysOf d) :
    dictSet d k v = d ++ [(k, v)] := by
  induction d with
  | nil => rfl
  | cons a d ih =>
    obtain ⟨k', v'⟩ := a
    simp only [keysOf, List.map_cons, List.mem_cons, not_or] at h
    simp only [dictSet]
    rw [if_neg (fun e => h.1 e.symm)]
    rw [ih h.2]; rfl

theorem keysOf_dictSet (d : List Ann) (k : List Nat) (v : Bytes) :
    ∀ x, x ∈ keysOf (dictSet d k v) ↔ x ∈ keysOf d ∨ x = k := by
  induction d with
  | nil => intro x; simp [dictSet, keysOf]
  | cons a d ih =>
    obtain ⟨k', v'⟩ := a
    intro x
    simp only [dictSet]
    by_cases hk : k' = k
    · rw [if_pos hk]; subst hk; simp [keysOf]; exact fun h => Or.inl h
    · rw [if_neg hk]
      have := ih x
      simp only [keysOf, List.map_cons, List.mem_cons] at this ⊢
      rw [this]; constructor
      · rintro (h | h | h) <;> simp [h]
      · rintro ((h | h) | h) <;> simp [h]

theorem dictSet_nodup (d : List Ann) (k : List Nat) (v : Bytes) (h : (keysOf d).Nodup) :
    (keysOf (dictSet d k v)).Nodup := by
  induction d with
  | nil => simp [dictSet, keysOf]
  | cons a d ih =>
    obtain ⟨k', v'⟩ := a
    simp only [keysOf, List.map_cons, List.nodup_cons] at h
    simp only [dictSet]
    by_cases hk : k' = k
    · rw [if_pos hk]; subst hk; simpa [keysOf] using h
    · rw [if_neg hk]
      simp only [keysOf, List.map_cons, List.nodup_cons]
      refine ⟨?_, ih h.2⟩
      intro hm
      have := (keysOf_dictSet d k v k').mp hm
      rcases this with h' | h'
      · exact h.1 h'
      · exact hk h'

/-- A key as the encoder accepts it: 4 code points, all ASCII. -/
def KeyOK (k : List Nat) : Prop := k.length = 4 ∧ ∀ c ∈ k, c < 128

theorem key_roundtrip (k : List Nat) (h : ∀ c ∈ k, c < 128) :
    (k.map UInt8.ofNat).map UInt8.toNat = k := by
  induction k with
  | nil => rfl
  | cons c k ih =>
    simp only [List.map_cons]
    have hc : c < 128 := h c (List.mem_cons_self)
    have : (UInt8.ofNat c).toNat = c := by
      simp [UInt8.toNat_ofNat']; omega
    rw [this, ih (fun x hx => h x (List.mem_cons_of_mem _ hx))]

theorem key_no_high (k : List Nat) (h : ∀ c ∈ k, c < 128) :
    (k.map UInt8.ofNat).any (· ≥ 128) = false := by
  rw [List.any_eq_false]
  intro b hb
  simp only [List.mem_map] at hb
  obtain ⟨c, hc, rfl⟩ := hb
  have hc' := h c hc
  simp only [ge_iff_le, decide_eq_true_eq, UInt8.le_iff_toNat_le]
  have : (UInt8.ofNat c).toNat = c := by simp [UInt8.toNat_ofNat']; omega
  rw [this]; simp; omega

theorem encodeAnns_ok_inv (k : List Nat) (v : Bytes) (rest : List Ann) (bs : Bytes)
    (h : encodeAnns ((k, v) :: rest) = .ok bs) :
    k.length = 4 ∧ (∀ c ∈ k, c < 128) ∧ v.length < 2 ^ 32 ∧
      ∃ bs', encodeAnns rest = .ok bs' ∧ bs = k.map UInt8.ofNat ++ (toBE 4 v.length ++ (v ++ bs')) := by
  simp only [encodeAnns] at h
  by_cases h1 : k.length ≠ 4
  · rw [if_pos h1] at h; cases h
  · rw [if_neg h1] at h
    by_cases h2 : k.any (· ≥ 128) = true
    · rw [if_pos h2] at h; cases h
    · rw [if_neg h2] at h
      by_cases h3 : v.length ≥ 2 ^ 32
      · rw [if_pos h3] at h; cases h
      · rw [if_neg h3] at h
        refine ⟨by omega, ?_, by omega, ?_⟩
        · intro c hc
          simp only [Bool.not_eq_true, List.any_eq_false, ge_iff_le, decide_eq_true_eq] at h2
          have := h2 c hc; omega
        · cases hr : encodeAnns rest with
          | error e => rw [hr] at h; cases h
          | ok bs' =>
            rw [hr] at h
            simp only [Except.ok.injEq] at h
            exact ⟨bs', rfl, by rw [← h]; simp [List.append_assoc]⟩

theorem encodeAnns_length (anns : List Ann) (bs : Bytes) (h : encodeAnns anns = .ok bs) :
    bs.length = annSize anns := by
  induction anns generalizing bs with
  | nil => simp [encodeAnns] at h; subst h; rfl
  | cons a rest ih =>
    obtain ⟨k, v⟩ := a
    obtain ⟨hk, _, _, bs', hr, rfl⟩ := encodeAnns_ok_inv k v rest bs h
    have := ih bs' hr
    simp only [annSize, List.map_cons, List.sum_cons] at this ⊢
    simp only [List.length_append, List.length_map, toBE_length, hk, this]
    omega

/-- The decoder's annotation walk inverts the encoder's annotation chunks. -/
theorem walk_encode (anns : List Ann) :
    ∀ (bs tail : Bytes) (acc : List Ann) (fuel : Nat),
      encodeAnns anns = .ok bs → bs.length ≤ fuel →
      (keysOf (acc ++ anns)).Nodup →
      walkAnns fuel (bs ++ tail) bs.length acc = .ok (acc ++ anns) := by
  induction anns with
  | nil =>
    intro bs tail acc fuel h _ _
    simp [encodeAnns] at h; subst h
    cases fuel <;> simp [walkAnns]
  | cons a rest ih =>
    intro bs tail acc fuel h hf hnd
    obtain ⟨k, v⟩ := a
    obtain ⟨hk, hascii, hv, bs', hr, rfl⟩ := encodeAnns_ok_inv k v rest bs h
    have hlen : (k.map UInt8.ofNat ++ (toBE 4 v.length ++ (v ++ bs'))).length = 8 + v.length + bs'.length := by
      simp only [List.length_append, List.length_map, toBE_length, hk]; omega
    rw [hlen] at hf ⊢
    cases fuel with
    | zero => omega
    | succ fuel =>
      have hkb : (k.map UInt8.ofNat).length = 4 := by simp [hk]
      simp only [walkAnns]
      rw [if_neg (by omega)]
      simp only [List.append_assoc]
      rw [take_append_len _ _ 4 hkb, key_no_high k hascii]
      simp only [Bool.false_eq_true, if_false]
      rw [drop_append_len _ _ 4 hkb, take_toBE_append, fromBE_toBE 4 _ (by simpa using hv)]
      have hd8 : List.drop 8 (k.map UInt8.ofNat ++ (toBE 4 v.length ++ (v ++ (bs' ++ tail)))) = v ++ (bs' ++ tail) := by
        rw [show (8 : Nat) = 4 + 4 from rfl, ← List.drop_drop, drop_append_len _ _ 4 hkb, drop_toBE_append]
      rw [hd8, take_append_len v _ v.length rfl]
      rw [if_neg (by omega)]
      have hds : List.drop (8 + v.length) (k.map UInt8.ofNat ++ (toBE 4 v.length ++ (v ++ (bs' ++ tail)))) = bs' ++ tail := by
        rw [← List.drop_drop, hd8, drop_append_len v _ v.length rfl]
      rw [hds, key_roundtrip k hascii]
      have hfresh : k ∉ keysOf acc := by
        simp only [keysOf, List.map_append, List.map_cons, List.nodup_append, List.nodup_cons] at hnd
        intro hm
        exact hnd.2.2 k hm k (List.mem_cons_self) rfl
      rw [dictSet_fresh acc k v hfresh]
      have hrem : 8 + v.length + bs'.length - (8 + v.length) = bs'.length := by omega
      rw [hrem]
      have := ih bs' tail (acc ++ [(k, v)]) fuel hr (by omega) (by simpa [List.append_assoc] using hnd)
      rw [this]; simp [List.append_assoc]

end Pyro.Wire
