/-
  Helper lemmas about PyroModel.Gateway (for PyroProps/C20.lean): case analysis of the routing,
  shape of the action lists, the path split.
-/
import PyroModel.Gateway

namespace Pyro.Gateway

/-! ### routing -/

/-- What pyro_app hands to process_pyro_request: the rest of the path after "pyro/", for a GET or
    POST under /pyro/ (any number of leading slashes); `none` for every other request. -/
def routed (req : Req) : Option Str :=
  if sPyro.isPrefixOf (lstripSlash req.path) = true ∧ (req.method = sGET ∨ req.method = sPOST)
  then some ((lstripSlash req.path).drop 5) else none

theorem sPyro_not_prefix_nil : sPyro.isPrefixOf ([] : Str) = false := by decide

theorem sGET_ne_OPTIONS : sGET ≠ sOPTIONS := by decide
theorem sPOST_ne_OPTIONS : sPOST ≠ sOPTIONS := by decide

/-- every request is answered in exactly one of three ways -/
theorem app_cases (cfg : Cfg) (be : Backend) (req : Req) :
    (routed req = none ∧ (app cfg be req).2 = [] ∧
      ∃ r, (app cfg be req).1 = .http r ∧
        ((r = resp302 ∧ lstripSlash req.path = []) ∨ r = resp404 ∨ r = resp405 ∨
         (r = respOptions ∧ req.method = sOPTIONS)))
    ∨ (routed req = some [] ∧ app cfg be req = homepage cfg be)
    ∨ (∃ rest, routed req = some rest ∧ rest ≠ [] ∧
        app cfg be req = process cfg be req rest (singlyfy req.query)) := by
  unfold app routed
  by_cases hp : lstripSlash req.path = []
  · left
    simp only [hp, sPyro_not_prefix_nil]
    simp
  · by_cases hpre : sPyro.isPrefixOf (lstripSlash req.path) = true
    · by_cases hg : req.method = sGET
      · have hno : req.method ≠ sOPTIONS := by rw [hg]; exact sGET_ne_OPTIONS
        by_cases hr : (lstripSlash req.path).drop 5 = []
        · right; left
          simp only [hp, hpre, hg, if_false, if_true, true_or, and_self, hr, true_and]
          simp [sGET_ne_OPTIONS, process]
        · right; right
          refine ⟨(lstripSlash req.path).drop 5, ?_, hr, ?_⟩
          · simp [hpre, hg]
          · simp [hp, hpre, hg, sGET_ne_OPTIONS]
      · by_cases hpo : req.method = sPOST
        · by_cases hr : (lstripSlash req.path).drop 5 = []
          · right; left
            simp only [hp, hpre, hpo, if_false, if_true, or_true, true_or, and_self, hr, true_and]
            simp [sPOST_ne_OPTIONS, process]
          · right; right
            refine ⟨(lstripSlash req.path).drop 5, ?_, hr, ?_⟩
            · simp [hpre, hpo]
            · simp [hp, hpre, hpo, sPOST_ne_OPTIONS]
        · left
          by_cases ho : req.method = sOPTIONS
          · simp [hp, hpre, ho]
            exact ⟨by decide, by decide⟩
          · simp [hp, hpre, hg, hpo, ho]
    · left
      simp [hp, hpre]

/-- process_pyro_request on a non-empty path -/
theorem process_cases (cfg : Cfg) (be : Backend) (req : Req) (rest : Str) (ps : Params) (hr : rest ≠ []) :
    (splitPath rest = none ∧ process cfg be req rest ps = (.http resp404, []))
    ∨ ∃ obj member, splitPath rest = some (obj, member) ∧
        ((keyOK cfg req ps = false ∧ process cfg be req rest ps = (.http respBadKey, []))
         ∨ (keyOK cfg req ps = true ∧ patternOK cfg be obj = false ∧
              process cfg be req rest ps = (.http respDenied, []))
         ∨ (keyOK cfg req ps = true ∧ patternOK cfg be obj = true ∧
              process cfg be req rest ps =
                (.http (forward be req obj member (forwardParams cfg ps)).1,
                 (forward be req obj member (forwardParams cfg ps)).2))) := by
  unfold process
  rw [if_neg hr]
  cases hs : splitPath rest with
  | none => left; exact ⟨rfl, rfl⟩
  | some om =>
    obtain ⟨obj, member⟩ := om
    right
    refine ⟨obj, member, rfl, ?_⟩
    cases hk : keyOK cfg req ps with
    | false => left; simp
    | true =>
      right
      cases hpat : patternOK cfg be obj with
      | false => left; simp [hpat]
      | true => right; simp [hpat]

/-! ### invocations -/

/-- the actions that run something on a remote object -/
def isInvoke : Action → Bool
  | .call _ _ _ _ => true
  | .getattr _ _ => true
  | _ => false

/-- the only actions the index page performs -/
def isListing : Action → Bool
  | .getNameServer => true
  | .nsList _ => true
  | .batchLookup _ => true
  | .connect _ => true
  | .bind _ => true
  | .release _ => true
  | _ => false

/-- the actions of one table row of the index page -/
def isRowAction : Action → Bool
  | .connect _ => true
  | .bind _ => true
  | .release _ => true
  | _ => false

theorem rowAction_listing (a : Action) (h : isRowAction a = true) : isListing a = true := by
  cases a <;> simp_all [isListing, isRowAction]

theorem homeRow_listing (be : Backend) (uri : Str) : ∀ a ∈ (homeRow be uri).2, isRowAction a = true := by
  unfold homeRow
  intro a ha
  split at ha
  · simp only [List.mem_singleton] at ha; subst ha; rfl
  · split at ha <;>
    · simp only [List.mem_cons, List.not_mem_nil, or_false] at ha
      rcases ha with h | h | h <;> subst h <;> rfl

theorem homeRows_listing (be : Backend) (names : List Str) :
    ∀ a ∈ (homeRows be names).2, isRowAction a = true := by
  induction names with
  | nil => intro a ha; simp [homeRows] at ha
  | cons name rest ih =>
    intro a ha
    unfold homeRows at ha
    split at ha
    · simp at ha
    · rename_i uri _
      have hrow := homeRow_listing be uri
      split at ha
      · rename_i cls acts heq
        apply hrow; rw [heq]; exact ha
      · rename_i b acts heq
        have hacts : ∀ x ∈ acts, isRowAction x = true := by
          intro x hx; apply hrow; rw [heq]; exact hx
        split at ha
        · rename_i cls acts' heq'
          simp only [List.mem_append] at ha
          rcases ha with h | h
          · exact hacts a h
          · apply ih; rw [heq']; exact h
        · rename_i rows acts' heq'
          simp only [List.mem_append] at ha
          rcases ha with h | h
          · exact hacts a h
          · apply ih; rw [heq']; exact h

theorem homepage_listing (cfg : Cfg) (be : Backend) : ∀ a ∈ (homepage cfg be).2, isListing a = true := by
  unfold homepage
  intro a ha
  split at ha
  · split at ha <;> (simp only [List.mem_singleton] at ha; subst ha; rfl)
  · split at ha
    · simp only [List.mem_cons, List.not_mem_nil, or_false] at ha
      rcases ha with h | h <;> subst h <;> rfl
    · rename_i keys _
      have hrows := homeRows_listing be (sortS (keys.take 10))
      dsimp only at ha
      split at ha
      · rename_i cls acts heq
        simp only [List.cons_append, List.nil_append, List.mem_cons] at ha
        rcases ha with h | h | h | h
        · subst h; rfl
        · subst h; rfl
        · subst h; rfl
        · apply rowAction_listing; apply hrows; rw [heq]; exact h
      · rename_i rows acts heq
        simp only [List.cons_append, List.nil_append, List.mem_cons] at ha
        rcases ha with h | h | h | h
        · subst h; rfl
        · subst h; rfl
        · subst h; rfl
        · apply rowAction_listing; apply hrows; rw [heq]; exact h

theorem listing_not_invoke (a : Action) (h : isListing a = true) : isInvoke a = false := by
  cases a <;> simp_all [isListing, isInvoke]

theorem filter_invoke_of_listing (l : List Action) (h : ∀ a ∈ l, isListing a = true) :
    l.filter isInvoke = [] := by
  rw [List.filter_eq_nil_iff]
  intro a ha
  rw [listing_not_invoke a (h a ha)]
  simp

/-! ### the path split -/

theorem firstLine_prefix (p : Str) : ∃ t, p = firstLine p ++ t ∧ (t = [] ∨ ∃ t', t = cNewline :: t') := by
  induction p with
  | nil => exact ⟨[], rfl, Or.inl rfl⟩
  | cons c rest ih =>
    unfold firstLine
    by_cases h : c = cNewline
    · rw [if_pos h]; exact ⟨c :: rest, rfl, Or.inr ⟨rest, by rw [h]⟩⟩
    · rw [if_neg h]
      obtain ⟨t, ht, hc⟩ := ih
      exact ⟨t, by rw [List.cons_append, ← ht], hc⟩

theorem firstLine_no_newline (p : Str) : cNewline ∉ firstLine p := by
  induction p with
  | nil => simp [firstLine]
  | cons c rest ih =>
    unfold firstLine
    by_cases h : c = cNewline
    · rw [if_pos h]; simp
    · rw [if_neg h]
      simp only [List.mem_cons, not_or]
      exact ⟨fun e => h e.symm, ih⟩

/-- a split of a line into object name and member name the regex `(.+)/(.+)` admits -/
def ValidSplit (line o m : Str) : Prop := line = o ++ cSlash :: m ∧ o ≠ [] ∧ m ≠ []

theorem splitGo_sound (l : Str) :
    ∀ (acc : Str) (best : Option (Str × Str)),
      (∀ o m, best = some (o, m) → ValidSplit (acc ++ l) o m) →
      ∀ o m, splitGo acc best l = some (o, m) → ValidSplit (acc ++ l) o m := by
  induction l with
  | nil => intro acc best hb o m h; exact hb o m (by simpa [splitGo] using h)
  | cons c rest ih =>
    intro acc best hb o m h
    unfold splitGo at h
    have := ih (acc ++ [c]) _ ?_ o m h
    · simpa [List.append_assoc] using this
    · intro o' m' hbest
      by_cases hc : c = cSlash ∧ acc ≠ [] ∧ rest ≠ []
      · rw [if_pos hc] at hbest
        simp only [Option.some.injEq, Prod.mk.injEq] at hbest
        obtain ⟨rfl, rfl⟩ := hbest
        refine ⟨?_, hc.2.1, hc.2.2⟩
        rw [hc.1, List.append_assoc]; rfl
      · rw [if_neg hc] at hbest
        have := hb o' m' hbest
        simpa [List.append_assoc] using this

theorem splitGo_max (l : Str) :
    ∀ (acc : Str) (best : Option (Str × Str)),
      (∀ o' m', ValidSplit (acc ++ l) o' m' → o'.length < acc.length →
          ∃ o m, best = some (o, m) ∧ o'.length ≤ o.length) →
      ∀ o' m', ValidSplit (acc ++ l) o' m' →
          ∃ o m, splitGo acc best l = some (o, m) ∧ o'.length ≤ o.length := by
  induction l with
  | nil =>
    intro acc best hb o' m' hv
    simp only [splitGo]
    apply hb o' m' hv
    have := congrArg List.length hv.1
    simp only [List.append_nil, List.length_append, List.length_cons] at this
    omega
  | cons c rest ih =>
    intro acc best hb o' m' hv
    unfold splitGo
    have hv' : ValidSplit ((acc ++ [c]) ++ rest) o' m' := by simpa [List.append_assoc] using hv
    apply ih (acc ++ [c]) _ ?_ o' m' hv'
    intro o2 m2 hv2 hlen
    have hv2' : ValidSplit (acc ++ c :: rest) o2 m2 := by simpa [List.append_assoc] using hv2
    simp only [List.length_append, List.length_cons, List.length_nil] at hlen
    by_cases hc : c = cSlash ∧ acc ≠ [] ∧ rest ≠ []
    · rw [if_pos hc]
      exact ⟨acc, rest, rfl, by omega⟩
    · rw [if_neg hc]
      by_cases hlt : o2.length < acc.length
      · exact hb o2 m2 hv2' hlt
      · exfalso
        have heq : acc.length = o2.length := by omega
        have := List.append_inj hv2'.1 heq
        obtain ⟨h1, h2⟩ := this
        simp only [List.cons.injEq] at h2
        apply hc
        refine ⟨h2.1, ?_, ?_⟩
        · rw [h1]; exact hv2'.2.1
        · rw [h2.2]; exact hv2'.2.2

/-! ### parameters -/

theorem lookupP_eraseP_self (k : Str) (ps : Params) : lookupP k (eraseP k ps) = none := by
  induction ps with
  | nil => rfl
  | cons kv rest ih =>
    unfold eraseP
    simp only [List.filter_cons]
    by_cases h : kv.1 = k
    · simp only [h, ne_eq, not_true_eq_false, decide_false, Bool.false_eq_true, if_false]
      exact ih
    · simp only [ne_eq, h, not_false_eq_true, decide_true, if_true]
      unfold lookupP
      rw [if_neg h]
      exact ih

theorem lookupP_eraseP_other (k k' : Str) (ps : Params) (h : k' ≠ k) :
    lookupP k' (eraseP k ps) = lookupP k' ps := by
  induction ps with
  | nil => rfl
  | cons kv rest ih =>
    unfold eraseP
    simp only [List.filter_cons]
    by_cases hk : kv.1 = k
    · simp only [hk, ne_eq, not_true_eq_false, decide_false, Bool.false_eq_true, if_false]
      have : ¬ kv.1 = k' := by rw [hk]; exact fun e => h e.symm
      conv => rhs; unfold lookupP
      rw [if_neg this]
      exact ih
    · simp only [ne_eq, hk, not_false_eq_true, decide_true, if_true]
      unfold lookupP
      by_cases hk' : kv.1 = k'
      · rw [if_pos hk', if_pos hk']
      · rw [if_neg hk', if_neg hk']; exact ih

/-! ### sorting keeps the names -/

theorem mem_insertS (x y : Str) (l : List Str) : y ∈ insertS x l ↔ y = x ∨ y ∈ l := by
  induction l with
  | nil => simp [insertS]
  | cons z zs ih =>
    unfold insertS
    by_cases h : strLe x z = true
    · rw [if_pos h]; simp
    · rw [if_neg h]
      simp only [List.mem_cons, ih]
      constructor
      · rintro (h | h | h)
        · exact Or.inr (Or.inl h)
        · exact Or.inl h
        · exact Or.inr (Or.inr h)
      · rintro (h | h | h)
        · exact Or.inr (Or.inl h)
        · exact Or.inl h
        · exact Or.inr (Or.inr h)

theorem mem_sortS (y : Str) (l : List Str) : y ∈ sortS l ↔ y ∈ l := by
  induction l with
  | nil => simp [sortS]
  | cons z zs ih =>
    have : sortS (z :: zs) = insertS z (sortS zs) := rfl
    rw [this, mem_insertS, ih]; simp

end Pyro.Gateway
